#!/bin/sh
# Builds the framework from files on disk only (offline): fact extractor, generated Lean
# facts from /repo's working tree, all Lean modules (proofs + native model drivers), and a
# first build of the Go harness to warm the build cache.
set -e
cd "$(dirname "$0")"
export GOFLAGS=-mod=mod GOPROXY=off
unset GOSUMDB GOTOOLCHAIN || true
(cd ogfacts && go build -o ogfacts .)
rm -f lean/OG/Generated/*.lean
./ogfacts/ogfacts -repo "${VERIF_REPO:-/repo}" -out lean/OG/Generated || true
(cd lean && lake build)
python3 tools/gen_gomod.py harness
(cd harness && go build -tags "verif allprops" -o /dev/null ./cmd/ogh)
echo setup-ok
