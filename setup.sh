#!/bin/sh
# Builds the framework from files on disk only (offline): fact extractor, generated Lean
# facts from /repo's working tree, all Lean modules (proofs + native model drivers), and a
# first build of the Go harness to warm the build cache. Every check rebuilds what it needs
# itself, so a failure of one property's modules here is reported but does not stop the setup.
cd "$(dirname "$0")"
export GOFLAGS=-mod=mod GOPROXY=off
unset GOSUMDB GOTOOLCHAIN || true
(cd ogfacts && go build -o ogfacts .) || { echo "setup: ogfacts does not build"; exit 1; }
rm -f lean/OG/Generated/*.lean
./ogfacts/ogfacts -repo "${VERIF_REPO:-/repo}" -out lean/OG/Generated || echo "setup: warning: fact generation reported problems"
(cd lean && lake build) || echo "setup: warning: some Lean modules did not build (the checks of those properties will report it)"
python3 tools/gen_gomod.py harness || { echo "setup: cannot generate harness/go.mod"; exit 1; }
(cd harness && go build -tags "verif allprops" -o /dev/null ./cmd/ogh) || echo "setup: warning: the all-properties harness build failed (each check builds its own harness)"
echo setup-ok
