/-
Catalogue model, second layer (C15/C16 round 3): more of the 65 registered command types.

`Data2 = (base : Data, ext : Ext)`: the state of `OG.Meta.Model` plus the parts of `meta.Data`
the new commands live in (take-over / balancer switches, streams, subscriptions, continuous
queries, with their change counters). `Cmd2` embeds the 25 commands of the first layer
(`.base c`) and adds

  * on the shard / index groups and partition views (they change `base`):
      UpdateIndexInfoTier, UpdatePtVersion, ReSharding, ExpandGroups
  * on the rest (`ext` only):
      MarkTakeover, MarkBalancer, CreateSubscription, DropSubscription,
      CreateContinuousQuery, DropContinuousQuery, ContinuousQueryReport, CreateStream, DropStream

A first-layer command is run through `apply` unchanged, framed by what the new state adds:
the stream checks of the three MarkDelete commands, and the subscriptions / continuous queries
that go (or move) with their policy / database.

Transcribed branch by branch as the code is after the `fix:` commits (ReSharding refuses more
shards than partitions; first measurement in name order).
-/
import OG.Meta.Wire

namespace OG.Meta

/-! ### state -/

structure Stream where
  name : String
  id : Nat
  srcDb : String
  srcRp : String
  srcMst : String
  dstDb : String
  dstRp : String
  dstMst : String
  interval : Int
  delay : Int
deriving DecidableEq, Repr, Inhabited

structure Sub where
  name : String
  mode : String
  dests : List String
deriving DecidableEq, Repr, Inhabited

structure CQ where
  name : String
  query : String
  lastRun : Int
deriving DecidableEq, Repr, Inhabited

/-- subscriptions of one policy: (database key, policy key) ↦ list in creation order -/
abbrev SubEntry := (String × String) × List Sub

structure Ext where
  takeOver : Bool
  balancer : Bool
  maxStreamID : Nat
  streams : List Stream                 -- sorted by name
  maxSubscriptionID : Nat
  subs : List SubEntry                  -- sorted by (database, policy); no empty entry
  maxCQChangeID : Nat
  cqs : List (String × List CQ)         -- database ↦ queries sorted by name; no empty entry
deriving DecidableEq, Repr, Inhabited

/-- `NewStore`: both switches on -/
def Ext.init : Ext :=
  { takeOver := true, balancer := true, maxStreamID := 0, streams := [], maxSubscriptionID := 0, subs := [],
    maxCQChangeID := 0, cqs := [] }

structure Data2 where
  base : Data
  ext : Ext
deriving DecidableEq, Repr, Inhabited

def Data2.init : Data2 := ⟨Data.init, Ext.init⟩

inductive Cmd2 where
  | base (c : Cmd)
  | updateIndexInfoTier (indexID tier : Nat) (db rp : String)
  | updatePtVersion (db : String) (pt : Nat)
  | reSharding (db rp : String) (sgid : Nat) (splitTime : Int) (nBounds : Nat)
  | expandGroups
  | markTakeover (enable : Bool)
  | markBalancer (enable : Bool)
  | createSubscription (name db rp : String)
  | dropSubscription (name db rp : String)
  | createContinuousQuery (db name query : String)
  | dropContinuousQuery (name db : String)
  | continuousQueryReport (name : String) (lastRun : Int)
  | createStream (s : Stream)
  | dropStream (name : String)
deriving DecidableEq, Repr, Inhabited

abbrev Step2 := Data2 × Result

/-! ### pair-keyed lists -/

def pairLt (a b : String × String) : Bool := a.1 < b.1 || (a.1 == b.1 && a.2 < b.2)

def plFind {α : Type} (k : String × String) : List ((String × String) × α) → Option α
  | [] => none
  | (k', v) :: rest => if k' = k then some v else plFind k rest

def plInsert {α : Type} (k : String × String) (v : α) : List ((String × String) × α) → List ((String × String) × α)
  | [] => [(k, v)]
  | (k', v') :: rest =>
    if k' = k then (k, v) :: rest
    else if pairLt k k' then (k, v) :: (k', v') :: rest
    else (k', v') :: plInsert k v rest

def plErase {α : Type} (k : String × String) : List ((String × String) × α) → List ((String × String) × α)
  | [] => []
  | (k', v') :: rest => if k' = k then rest else (k', v') :: plErase k rest

/-- set the subscriptions of a policy; an empty list removes the entry -/
def setSubs (subs : List SubEntry) (k : String × String) (l : List Sub) : List SubEntry :=
  if l.isEmpty then plErase k subs else plInsert k l subs

def getSubs (subs : List SubEntry) (k : String × String) : List Sub := (plFind k subs).getD []

/-! ### UpdateIndexInfoTier -/

/-- `Data.UpdateIndexInfoTier`: the first index with the id, in group order. (Tier `Cold` also
updates the replica clear-info of the group, which is outside the model.) -/
def updateIndexInfoTier (d : Data) (indexID tier : Nat) (db rp : String) : Step :=
  match getRP d db rp with
  | .error e => fail d e
  | .ok (dbi, k, r) =>
    if r.indexGroups.any (fun g => g.indexes.any (·.id = indexID)) then
      let igs := updFirst (fun g => g.indexes.any (·.id = indexID))
        (fun g => { g with indexes := updFirst (·.id = indexID) (fun x => { x with tier := tier }) g.indexes }) r.indexGroups
      done (setRP d dbi k { r with indexGroups := igs })
    else fail d ("cannot_find_index_" ++ toString indexID ++ "_for_rp_" ++ rp ++ "_on_database_" ++ db)

/-! ### UpdatePtVersion -/

/-- `ApplyUpdatePtVersion` drops the error of `Data.UpdatePtVersion`: the answer is always ok. -/
def updatePtVersion (d : Data) (db : String) (pt : Nat) : Step :=
  match alFind db d.ptView with
  | none => done d
  | some v =>
    match v[pt]? with
    | none => done d
    | some p =>
      if p.ptId ≠ pt then done d
      else done { d with ptView := alInsert db (v.set pt { p with ver := p.ver + 1 }) d.ptView }

/-! ### ReSharding -/

def eShardGroupNotFound : String := "shard_group_not_found"
def pIndexOut (i len : Nat) : String :=
  "panic:_runtime_error:_index_out_of_range_[" ++ toString i ++ "]_with_length_" ++ toString len

/-- `Data.createIndexGroup` (the one of ReSharding): from `start` to the end of the last index
group (searched backwards) that overlaps [start, end of the last shard group], or to that end.
The engine type is left at its zero value. -/
def reshardIndexGroup (d : Data) (r : RP) (start lastEnd : Int) : Data × RP :=
  let stop := match r.indexGroups.reverse.find? (fun g => g.start ≤ lastEnd ∧ start < g.stop) with
    | some g => g.stop
    | none => lastEnd
  let ig : IG := { id := d.maxIndexGroupID + 1, start := start, stop := stop, deleted := false, engine := 0,
                   indexes := mkIndexes (d.maxIndexID + 1) d.clusterPtNum }
  ({ d with maxIndexGroupID := d.maxIndexGroupID + 1, maxIndexID := d.maxIndexID + d.clusterPtNum },
   { r with indexGroups := insertIG ig r.indexGroups })

/-- the index group `reshardIndexGroup` creates (the same expression) -/
def reshardIG (d : Data) (r : RP) (start lastEnd : Int) : IG :=
  let stop := match r.indexGroups.reverse.find? (fun g => g.start ≤ lastEnd ∧ start < g.stop) with
    | some g => g.stop
    | none => lastEnd
  { id := d.maxIndexGroupID + 1, start := start, stop := stop, deleted := false, engine := 0,
    indexes := mkIndexes (d.maxIndexID + 1) d.clusterPtNum }

/-- shards of `CreateShardGroupWithBounds` (with `shardN ≤ ptNum`, guaranteed by the guard): shard
`i` is owned by partition `i` and uses index `i` of the index group made for the new shard group
(`fix:` it used to be the last index group in sort order, which may be an older one with fewer
indexes); `none` = the index group has no such index (the code panics). -/
def boundShards (firstID tier : Nat) (ig : IG) : Nat → Nat → Option (List Shard)
  | 0, _ => some []
  | n + 1, i =>
    match ig.indexes[i]? with
    | none => none
    | some x =>
      match boundShards firstID tier ig n (i + 1) with
      | none => none
      | some rest => some ({ id := firstID + i, owners := [i], indexID := x.id, tier := tier, markDelete := false } :: rest)

def firstMissingIndex (ig : IG) (n : Nat) : Nat := if ig.indexes.length < n then ig.indexes.length else n

/-- `Data.ReSharding` (after the guard `fix:` and the index-group `fix:`). -/
def reSharding (d : Data) (db rp : String) (sgid : Nat) (splitTime : Int) (nBounds : Nat) : Step :=
  match getRP d db rp with
  | .error e => fail d e
  | .ok (dbi, k, r) =>
    match r.shardGroups.getLast? with
    | none => fail d eShardGroupNotFound
    | some last =>
      if last.id ≠ sgid then fail d ("shard_group_already_reSharding:_" ++ toString sgid)
      else if nBounds + 1 > d.clusterPtNum then
        fail d ("resharding_into_" ++ toString (nBounds + 1) ++ "_shards_needs_as_many_partitions,_have_" ++ toString d.clusterPtNum)
      else
        let start := Wire.wrap64 (splitTime + 1)      -- `time.Unix(0, SplitTime+1)`: int64 arithmetic
        let (d1, r1) := reshardIndexGroup d r start last.stop
        match (some (reshardIG d r start last.stop) : Option IG), last.shards.head? with
        | _, none => (d, .panic pIndexRange)
        | none, _ => (d, .panic pIndexRange)
        | some ig, some s0 =>
          match boundShards (d1.maxShardID + 1) s0.tier ig (nBounds + 1) 0 with
          | none => (d, .panic (pIndexOut (firstMissingIndex ig (nBounds + 1)) ig.indexes.length))
          | some shards =>
            let g : SG := { id := d1.maxShardGroupID + 1, start := start, stop := last.stop, deleted := false, engine := last.engine,
                            version := 0, shards := shards }
            let d2 := { d1 with maxShardGroupID := d1.maxShardGroupID + 1, maxShardID := d1.maxShardID + (nBounds + 1) }
            done (setRP d2 dbi k { r1 with shardGroups := insertSG g r1.shardGroups })

/-! ### ExpandGroups -/

/-- `RetentionPolicyInfo.shardingType` (after the `fix:`): the type of the first measurement,
in name order, that has a shard key. -/
def RP.shardingType (r : RP) : String :=
  match r.msts.find? (fun m => !m.shardKeys.isEmpty) with
  | some m => (m.shardKeys.headD default).typ
  | none => ""

/-- every index group gets an index for each partition it has none for -/
def expandIGs (ptNum : Nat) : Nat → List IG → Nat × List IG
  | maxIdx, [] => (maxIdx, [])
  | maxIdx, g :: rest =>
    let n := ptNum - g.indexes.length
    let g' : IG := { g with indexes := g.indexes ++ (List.range n).map fun j =>
                      { id := maxIdx + 1 + j, owners := [g.indexes.length + j], markDelete := false, tier := 0 } }
    let r := expandIGs ptNum (maxIdx + n) rest
    (r.1, g' :: r.2)

/-- one shard group gets a shard for each partition it has none for (`n` of them): the index
comes from `createIndexGroupIfNeeded` at the group's start, the tier from the previous shard
(`none` = `sg.Shards[i-1]` with no shard at all: the code panics). -/
def expandSG : Nat → Data → RP → SG → Option (Data × RP × SG)
  | 0, d, r, g => some (d, r, g)
  | n + 1, d, r, g =>
    match g.shards.getLast? with
    | none => none
    | some prev =>
      let i := g.shards.length
      let (d1, r1, ig) := indexGroupFor d r g.start g.engine
      let s : Shard := { id := d1.maxShardID + 1, owners := [i], indexID := nthIndexID ig i, tier := prev.tier, markDelete := false }
      expandSG n { d1 with maxShardID := d1.maxShardID + 1 } r1 { g with shards := g.shards ++ [s] }

def expandSGs : Data → RP → List SG → Option (Data × RP × List SG)
  | d, r, [] => some (d, r, [])
  | d, r, g :: rest =>
    match expandSG (d.clusterPtNum - g.shards.length) d r g with
    | none => none
    | some (d1, r1, g') =>
      match expandSGs d1 r1 rest with
      | none => none
      | some (d2, r2, gs) => some (d2, r2, g' :: gs)

/-- one policy of `ExpandGroups` (range-sharded policies are skipped) -/
def expandRP (d : Data) (r : RP) : Option (Data × RP) :=
  if r.shardingType = RANGE then some (d, r)
  else
    let (mi, igs) := expandIGs d.clusterPtNum d.maxIndexID r.indexGroups
    let d1 := { d with maxIndexID := mi }
    let r1 := { r with indexGroups := igs }
    match expandSGs d1 r1 r1.shardGroups with
    | none => none
    | some (d2, r2, sgs) => some (d2, { r2 with shardGroups := sgs })

def expandRPs : Data → List (String × RP) → Option (Data × List (String × RP))
  | d, [] => some (d, [])
  | d, (k, r) :: rest =>
    match expandRP d r with
    | none => none
    | some (d1, r') =>
      match expandRPs d1 rest with
      | none => none
      | some (d2, rs) => some (d2, (k, r') :: rs)

/-- databases in name order, policies in name order; the counters are threaded through -/
def expandDBs : Data → List (String × DB) → Option (Data × List (String × DB))
  | d, [] => some (d, [])
  | d, (k, db) :: rest =>
    match expandRPs d db.rps with
    | none => none
    | some (d1, rps) =>
      match expandDBs d1 rest with
      | none => none
      | some (d2, dbs) => some (d2, (k, { db with rps := rps }) :: dbs)

/-- `Data.ExpandGroups` -/
def expandGroups (d : Data) : Step :=
  match expandDBs d d.databases with
  | none => (d, .panic "panic:_runtime_error:_index_out_of_range_[-1]")
  | some (d1, dbs) => done { d1 with databases := dbs }

/-! ### subscriptions -/

def eSubExists : String := "subscription_already_exists"
def eSubNotFound : String := "subscription_not_found"
def eDbNotExists : String := "database_does_not_exist"

def subDests : List String := ["http://h:1"]

def createSubscription (d : Data2) (name db rp : String) : Step2 :=
  match getRP d.base db rp with
  | .error e => (d, .err e)
  | .ok (_, k, _) =>
    let cur := getSubs d.ext.subs (db, k)
    if cur.any (·.name = name) then (d, .err eSubExists)
    else ({ d with ext := { d.ext with subs := setSubs d.ext.subs (db, k) (cur ++ [⟨name, "ALL", subDests⟩]),
                                       maxSubscriptionID := d.ext.maxSubscriptionID + 1 } }, .ok)

/-- remove the first subscription with the name from the first policy (in key order) of the
list that has one -/
def dropFirstSub (subs : List SubEntry) (db name : String) : Option (List SubEntry) :=
  match subs.find? (fun e => e.1.1 = db ∧ e.2.any (·.name = name)) with
  | none => none
  | some e => some (setSubs subs e.1 (e.2.eraseP (·.name = name)))

def dropSubscription (d : Data2) (name db rp : String) : Step2 :=
  let bump (subs : List SubEntry) : Data2 := { d with ext := { d.ext with subs := subs, maxSubscriptionID := d.ext.maxSubscriptionID + 1 } }
  if db = "" then (bump [], .ok)
  else if name = "" then
    match alFind db d.base.databases with
    | none => (d, .err eDbNotExists)
    | some _ => (bump (d.ext.subs.filter fun e => e.1.1 ≠ db), .ok)
  else
    let inPolicy : Step2 :=
      match getRP d.base db rp with
      | .error e => (d, .err e)
      | .ok (_, k, _) =>
        let cur := getSubs d.ext.subs (db, k)
        if cur.any (·.name = name) then (bump (setSubs d.ext.subs (db, k) (cur.eraseP (·.name = name))), .ok)
        else (d, .err eSubNotFound)
    if rp = "" then
      match alFind db d.base.databases with
      | none => (d, .err eDbNotExists)
      | some _ =>
        match dropFirstSub d.ext.subs db name with
        | some subs => (bump subs, .ok)
        | none => inPolicy
    else inPolicy

/-! ### continuous queries -/

/-- `time.Time{}.UnixNano()`: what a query that never ran carries (the snapshot stores exactly this number) -/
def zeroTimeNano : Int := -6795364578871345152

def eSameCQ : String := "continuous_query_name_already_exists"

def cqInsert (q : CQ) : List CQ → List CQ
  | [] => [q]
  | x :: rest => if x.name = q.name then q :: rest else if q.name < x.name then q :: x :: rest else x :: cqInsert q rest

def setCQs (cqs : List (String × List CQ)) (db : String) (l : List CQ) : List (String × List CQ) :=
  if l.isEmpty then alErase db cqs else alInsert db l cqs

def createContinuousQuery (d : Data2) (db name query : String) : Step2 :=
  match getDatabase d.base db with
  | .error e => (d, .err e)
  | .ok _ =>
    let mine := (alFind db d.ext.cqs).getD []
    match mine.find? (·.name = name) with
    | some q => if q.query.toLower = query.toLower then (d, .ok) else (d, .err eSameCQ)
    | none =>
      if d.ext.cqs.any (fun e => e.2.any (·.name = name)) then (d, .err eSameCQ)
      else ({ d with ext := { d.ext with cqs := setCQs d.ext.cqs db (cqInsert ⟨name, query, zeroTimeNano⟩ mine),
                                         maxCQChangeID := d.ext.maxCQChangeID + 1 } }, .ok)

def dropContinuousQuery (d : Data2) (name db : String) : Step2 :=
  match getDatabase d.base db with
  | .error e => (d, .err e)
  | .ok _ =>
    let mine := (alFind db d.ext.cqs).getD []
    if mine.any (·.name = name) then
      ({ d with ext := { d.ext with cqs := setCQs d.ext.cqs db (mine.filter (·.name ≠ name)),
                                    maxCQChangeID := d.ext.maxCQChangeID + 1 } }, .ok)
    else (d, .ok)

def continuousQueryReport (d : Data2) (name : String) (lastRun : Int) : Step2 :=
  ({ d with ext := { d.ext with cqs := d.ext.cqs.map fun e =>
      (e.1, e.2.map fun q => if q.name = name then { q with lastRun := lastRun } else q) } }, .ok)

/-! ### streams -/

def eStreamExists : String := "stream_has_been_existed"
def eStreamNotFound : String := "stream_not_found"
def eDropStreamFirst : String := "stream_task_exists,_drop_it_first"

def streamInsert (s : Stream) : List Stream → List Stream
  | [] => [s]
  | x :: rest => if x.name = s.name then s :: rest else if s.name < x.name then s :: x :: rest else x :: streamInsert s rest

/-- `StreamInfo.Equal` on what the commands of the model vary (dimensions and calls are fixed) -/
def Stream.equalTo (a b : Stream) : Bool :=
  a.name = b.name ∧ a.interval = b.interval ∧ a.delay = b.delay ∧ a.srcDb = b.srcDb ∧ a.srcRp = b.srcRp ∧ a.srcMst = b.srcMst ∧
  a.dstDb = b.dstDb ∧ a.dstRp = b.dstRp ∧ a.dstMst = b.dstMst

/-- `Data.SetStream`: an equal stream of the same name is *replaced* and gets a new id. -/
def createStream (d : Data2) (s : Stream) : Step2 :=
  match d.ext.streams.find? (·.name = s.name) with
  | some old => if !old.equalTo s then (d, .err eStreamExists) else
      ({ d with ext := { d.ext with streams := streamInsert { s with id := d.ext.maxStreamID } d.ext.streams,
                                    maxStreamID := d.ext.maxStreamID + 1 } }, .ok)
  | none =>
      ({ d with ext := { d.ext with streams := streamInsert { s with id := d.ext.maxStreamID } d.ext.streams,
                                    maxStreamID := d.ext.maxStreamID + 1 } }, .ok)

def dropStream (d : Data2) (name : String) : Step2 :=
  if d.ext.streams.any (·.name = name) then ({ d with ext := { d.ext with streams := d.ext.streams.filter (·.name ≠ name) } }, .ok)
  else (d, .err eStreamNotFound)

/-! ### first-layer commands inside the larger state -/

/-- the stream checks of MarkDatabaseDelete / MarkRetentionPolicyDelete / MarkMeasurementDelete:
made after the object was found, before it is marked. -/
def streamBlocks (d : Data2) : Cmd → Bool
  | .markDatabaseDelete n =>
    (alFind n d.base.databases).isSome && d.ext.streams.any fun s => s.srcDb = n ∨ s.dstDb = n
  | .markRetentionPolicyDelete db rp =>
    (match getRP d.base db rp with | .ok _ => true | .error _ => false) &&
      d.ext.streams.any fun s => (s.srcDb = db ∧ s.srcRp = rp) ∨ (s.dstDb = db ∧ s.dstRp = rp)
  | .markMeasurementDelete db rp m =>
    (match getMeasurement d.base db rp m with | .ok _ => true | .error _ => false) &&
      d.ext.streams.any fun s => (s.srcDb = db ∧ s.srcMst = m ∧ s.srcRp = rp) ∨ (s.dstDb = db ∧ s.dstMst = m ∧ s.dstRp = rp)
  | _ => false

/-- what leaves (or moves) with a dropped database / dropped or renamed policy -/
def syncExt (old : Data) (c : Cmd) (r : Result) (e : Ext) : Ext :=
  if !r.isOk then e else
  match c with
  | .dropDatabase n =>
    -- `applyDropDatabaseCommand`: a database that held continuous queries bumps the change counter
    { e with subs := e.subs.filter (fun x => x.1.1 ≠ n), cqs := alErase n e.cqs,
             maxCQChangeID := if (alFind n e.cqs).isSome then e.maxCQChangeID + 1 else e.maxCQChangeID }
  | .dropRetentionPolicy db rp =>
    { e with subs := plErase (db, rp) e.subs }
  | .updateRetentionPolicy db rp u =>
    match u.newName, getRP old db rp with
    | some n, .ok (_, k, _) =>
      if n = k then e
      else
        match plFind (db, k) e.subs with
        | none => e
        | some l => { e with subs := plInsert (db, n) l (plErase (db, k) e.subs) }
    | _, _ => e
  | _ => e

/-- one committed command of the larger model -/
def apply2P (pick : Nat) (d : Data2) : Cmd2 → Step2
  | .base c =>
    if streamBlocks d c then (d, .err eDropStreamFirst)
    else
      let s := applyP pick d.base c
      ({ base := s.1, ext := syncExt d.base c s.2 d.ext }, s.2)
  | .updateIndexInfoTier i t db rp => let s := updateIndexInfoTier d.base i t db rp; ({ d with base := s.1 }, s.2)
  | .updatePtVersion db pt => let s := updatePtVersion d.base db pt; ({ d with base := s.1 }, s.2)
  | .reSharding db rp id t n => let s := reSharding d.base db rp id t n; ({ d with base := s.1 }, s.2)
  | .expandGroups => let s := expandGroups d.base; ({ d with base := s.1 }, s.2)
  | .markTakeover b => ({ d with ext := { d.ext with takeOver := b } }, .ok)
  | .markBalancer b => ({ d with ext := { d.ext with balancer := b } }, .ok)
  | .createSubscription n db rp => createSubscription d n db rp
  | .dropSubscription n db rp => dropSubscription d n db rp
  | .createContinuousQuery db n q => createContinuousQuery d db n q
  | .dropContinuousQuery n db => dropContinuousQuery d n db
  | .continuousQueryReport n t => continuousQueryReport d n t
  | .createStream s => createStream d s
  | .dropStream n => dropStream d n

def apply2 (d : Data2) (c : Cmd2) : Step2 := apply2P 0 d c

def applyAll2 (d : Data2) : List Cmd2 → Data2
  | [] => d
  | c :: cs => applyAll2 (apply2 d c).1 cs

end OG.Meta
