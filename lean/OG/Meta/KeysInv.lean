/-
Catalogue model — "every database and every policy is stored under its own name" is an invariant of the
catalogue model (after the re-keying fix of UpdateRetentionPolicy). `Data.Unmarshal` rebuilds
the two maps from the names, so this is what makes snapshot + restore the identity.
-/
import OG.Meta.Lemmas

namespace OG.Meta


def RPsOK (db : DB) : Prop := ∀ kr ∈ db.rps, kr.2.name = kr.1

def KeysAreNames (d : Data) : Prop := ∀ x ∈ d.databases, x.2.name = x.1 ∧ RPsOK x.2

theorem kn_init : KeysAreNames Data.init := by
  intro x hx; simp [Data.init] at hx

theorem kn_of_dbs_eq {d d' : Data} (h : d'.databases = d.databases) (hk : KeysAreNames d) : KeysAreNames d' := by
  intro x hx; rw [h] at hx; exact hk x hx

theorem kn_setDB {d : Data} {db : DB} (hk : KeysAreNames d) (hdb : RPsOK db) : KeysAreNames (setDB d db) := by
  intro x hx
  rcases mem_setDB hx with rfl | hx
  · exact ⟨rfl, hdb⟩
  · exact hk x hx

theorem rpsOK_insert {db : DB} {k : String} {r : RP} (h : RPsOK db) (hr : r.name = k) :
    RPsOK { db with rps := alInsert k r db.rps } := by
  intro kr hkr
  rcases mem_alInsert hkr with rfl | hkr
  · exact hr
  · exact h kr hkr

theorem rpsOK_erase {db : DB} {k : String} (h : RPsOK db) : RPsOK { db with rps := alErase k db.rps } := by
  intro kr hkr; exact h kr (mem_alErase hkr)

theorem kn_setRP {d : Data} {n k : String} {dbi : DB} {r : RP} (hk : KeysAreNames d) (hm : (n, dbi) ∈ d.databases)
    (hr : r.name = k) : KeysAreNames (setRP d dbi k r) := by
  unfold setRP
  exact kn_setDB hk (rpsOK_insert (hk _ hm).2 hr)

/-- names survive `setMst`, `schemaCleanAll`, the prune step -/
theorem setMst_name (r : RP) (m : Mst) : (r.setMst m).name = r.name := rfl

theorem schemaCleanAll_name (rp : RP) (b : Bool) (e : Int) : (rp.schemaCleanAll b e).name = rp.name := by
  unfold RP.schemaCleanAll
  simp only
  split
  · rfl
  · generalize ((List.map (fun m => m.schemaClean e) rp.msts).filter _).map _ = l
    generalize hr : ({ rp with msts := _ } : RP) = r0
    have h0 : r0.name = rp.name := by subst hr; rfl
    clear hr
    induction l generalizing r0 with
    | nil => simpa using h0
    | cons o l ih =>
      simp only [List.foldl_cons]
      apply ih
      split
      · split
        · exact h0
        · simpa [setMst_name] using h0
      · exact h0

theorem pruneShardGroupsRP_name (id : Nat) (b : Bool) (rp : RP) : (pruneShardGroupsRP id b rp).name = rp.name := by
  unfold pruneShardGroupsRP
  simp only
  split
  · rfl
  · simp [schemaCleanAll_name]

theorem kn_mapRPs {d : Data} (f : DB → RP → RP) (hf : ∀ db rp, (f db rp).name = rp.name) (hk : KeysAreNames d) :
    KeysAreNames (mapRPs f d) := by
  intro x hx
  simp only [mapRPs, List.mem_map] at hx
  obtain ⟨⟨k, db⟩, hmem, rfl⟩ := hx
  refine ⟨(hk _ hmem).1, ?_⟩
  intro kr hkr
  simp only [List.mem_map] at hkr
  obtain ⟨⟨rk, rp⟩, hm2, rfl⟩ := hkr
  simp only [hf]
  exact (hk _ hmem).2 _ hm2

theorem createIndexGroup_facts (d : Data) (rp : RP) (t : Int) (e : Nat) :
    (createIndexGroup d rp t e).1.databases = d.databases ∧ (createIndexGroup d rp t e).2.1.name = rp.name := by
  simp [createIndexGroup]

theorem indexGroupFor_facts (d : Data) (rp : RP) (t : Int) (e : Nat) :
    (indexGroupFor d rp t e).1.databases = d.databases ∧ (indexGroupFor d rp t e).2.1.name = rp.name := by
  unfold indexGroupFor
  split
  · split
    · simp
    · exact createIndexGroup_facts d rp t e
  · exact createIndexGroup_facts d rp t e

end OG.Meta
