/-
Driver session shared by C15 and C16: a current model state, a stack (for the depth-first
enumeration of command sequences), and the core op lines:

  reset            → ok                      fresh catalogue (NewStore, PtNumPerNode = 1)
  cmd <text>       → ok | err <msg> | panic <msg>
  chk <dump>       → wf <ok|clause,…> <same|differs:<where>>
  push / pop       → ok
  note <anything>  → the line itself
-/
import OG.Meta.Wire2
import OG.C16.WF

namespace OG.Meta
open OG.Meta.Wire

structure Sess where
  cur : Data2 := Data2.init
  stack : List Data2 := []

def showResult : Result → String
  | .ok => "ok"
  | .err m => "err " ++ m
  | .panic m => "panic " ++ m

def words (line : String) : List String :=
  (line.trimAscii.toString.splitOn " ").filter (· ≠ "")

def coreStep (s : Sess) (toks : List String) (line : String) : Option (Sess × String) :=
  match toks with
  | ["reset"] => some ({ s with cur := Data2.init }, "ok")
  | "cmd" :: rest =>
    match parseCmd2 rest with
    | none => none
    | some c =>
      let (d, r) := apply2 s.cur c
      some ({ s with cur := d }, showResult r)
  | "chk" :: rest =>
    match parseData2 rest with
    | none => none
    | some i =>
      let v := OG.C16.wfViolations i.base
      let w := whereDiffer2 s.cur i
      some (s, "wf " ++ (if v.isEmpty then "ok" else ",".intercalate v) ++ " " ++ (if w = "" then "same" else "differs:" ++ w))
  | ["push"] => some ({ s with stack := s.cur :: s.stack }, "ok")
  | ["pop"] =>
    match s.stack with
    | [] => none
    | d :: rest => some ({ cur := d, stack := rest }, "ok")
  | "note" :: _ => some (s, line.trimAscii.toString)
  | _ => none

partial def runLoop (extra : Sess → List String → String → Option (Sess × String)) (h out : IO.FS.Stream) (s : Sess) : IO Unit := do
  let line ← h.getLine
  if line.isEmpty then return ()
  let toks := words line
  match coreStep s toks line with
  | some (s', ans) => out.putStrLn ans; runLoop extra h out s'
  | none =>
    match extra s toks line with
    | some (s', ans) => out.putStrLn ans; runLoop extra h out s'
    | none => out.putStrLn "bad-op"; runLoop extra h out s

end OG.Meta
