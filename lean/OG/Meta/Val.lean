/-
Generic value tree of the catalogue (shared by C15 and C16).

The Go harness dumps `meta.Data` reflectively as a tree of numbers, strings, lists and typed
records (`R<GoType>:<n> F<field> v …`); maps are lists of `kv` records sorted by key, pointers
are lists of length ≤ 1.  `mask p` erases (resets to the zero value) every record field
`(ty, f)` for which `p ty f = false` — this is how clone / marshal / unmarshal are modelled:
what a function does not copy is lost.
-/
namespace OG.Meta

inductive Val where
  | num (n : Int)
  | str (s : String)
  | list (xs : List Val)
  | obj (ty : String) (fs : List (String × Val))
deriving Repr, Inhabited

namespace Val

mutual
  /-- the Go zero value of the same shape: numbers 0, strings "", lists empty, records
  field-wise zero (a struct value), -/
  def zero : Val → Val
    | .num _ => .num 0
    | .str _ => .str ""
    | .list _ => .list []
    | .obj ty fs => .obj ty (zeroFields fs)
  def zeroFields : List (String × Val) → List (String × Val)
    | [] => []
    | (n, v) :: fs => (n, zero v) :: zeroFields fs
end

mutual
  /-- keep the fields selected by `p`, reset the others to their zero value. -/
  def mask (p : String → String → Bool) : Val → Val
    | .num n => .num n
    | .str s => .str s
    | .list xs => .list (maskList p xs)
    | .obj ty fs => .obj ty (maskFields p ty fs)
  def maskList (p : String → String → Bool) : List Val → List Val
    | [] => []
    | x :: xs => mask p x :: maskList p xs
  def maskFields (p : String → String → Bool) (ty : String) : List (String × Val) → List (String × Val)
    | [] => []
    | (n, v) :: fs => (n, if p ty n then mask p v else zero v) :: maskFields p ty fs
end

mutual
  /-- every record field occurring in the value is selected by `p`. -/
  def allSel (p : String → String → Bool) : Val → Bool
    | .num _ => true
    | .str _ => true
    | .list xs => allSelList p xs
    | .obj ty fs => allSelFields p ty fs
  def allSelList (p : String → String → Bool) : List Val → Bool
    | [] => true
    | x :: xs => allSel p x && allSelList p xs
  def allSelFields (p : String → String → Bool) (ty : String) : List (String × Val) → Bool
    | [] => true
    | (n, v) :: fs => p ty n && allSel p v && allSelFields p ty fs
end

mutual
  theorem mask_of_allSel (p : String → String → Bool) : ∀ v : Val, allSel p v = true → mask p v = v
    | .num _, _ => by simp [mask]
    | .str _, _ => by simp [mask]
    | .list xs, h => by
        simp only [allSel] at h
        simp [mask, maskList_of_allSel p xs h]
    | .obj ty fs, h => by
        simp only [allSel] at h
        simp [mask, maskFields_of_allSel p ty fs h]
  theorem maskList_of_allSel (p : String → String → Bool) : ∀ xs : List Val, allSelList p xs = true → maskList p xs = xs
    | [], _ => by simp [maskList]
    | x :: xs, h => by
        simp only [allSelList, Bool.and_eq_true] at h
        simp [maskList, mask_of_allSel p x h.1, maskList_of_allSel p xs h.2]
  theorem maskFields_of_allSel (p : String → String → Bool) (ty : String) :
      ∀ fs : List (String × Val), allSelFields p ty fs = true → maskFields p ty fs = fs
    | [], _ => by simp [maskFields]
    | (n, v) :: fs, h => by
        simp only [allSelFields, Bool.and_eq_true] at h
        simp [maskFields, h.1.1, mask_of_allSel p v h.1.2, maskFields_of_allSel p ty fs h.2]
end

/-! ### token format (parser and printer) -/

def hexDigit (n : Nat) : Char :=
  if n < 10 then Char.ofNat (48 + n) else Char.ofNat (87 + n)

def hexVal (c : Char) : Option Nat :=
  if '0' ≤ c ∧ c ≤ '9' then some (c.toNat - 48)
  else if 'a' ≤ c ∧ c ≤ 'f' then some (c.toNat - 87)
  else none

def hexOfBytes (bs : List UInt8) : String :=
  String.ofList (bs.flatMap fun b => [hexDigit (b.toNat / 16), hexDigit (b.toNat % 16)])

def bytesOfHex : List Char → Option (List UInt8)
  | [] => some []
  | a :: b :: rest => do
      let x ← hexVal a
      let y ← hexVal b
      let r ← bytesOfHex rest
      some (UInt8.ofNat (x * 16 + y) :: r)
  | _ => none

/-- strings travel hex-encoded; the model keeps the hex text itself (it only compares and
prints them), so no UTF-8 decoding is involved. -/
partial def render : Val → String
  | .num n => "N" ++ toString n
  | .str s => "S" ++ s
  | .list xs => xs.foldl (fun acc x => acc ++ " " ++ render x) ("L" ++ toString xs.length)
  | .obj ty fs => fs.foldl (fun acc (n, v) => acc ++ " F" ++ n ++ " " ++ render v)
      ("R" ++ ty ++ ":" ++ toString fs.length)

mutual
  /-- `fuel` bounds the nesting depth (structural recursion; `none` on malformed input). -/
  def parse (fuel : Nat) (toks : List String) : Option (Val × List String) :=
    match fuel, toks with
    | 0, _ => none
    | _, [] => none
    | fuel + 1, t :: rest =>
      match t.toList with
      | 'N' :: ds => (String.ofList ds).toInt?.map fun n => (.num n, rest)
      | 'S' :: hs => some (.str (String.ofList hs), rest)
      | 'L' :: ds => do
          let n ← (String.ofList ds).toNat?
          let (xs, rest) ← parseList fuel n rest
          some (.list xs, rest)
      | 'R' :: cs =>
          match (String.ofList cs).splitOn ":" with
          | [ty, ns] => do
              let n ← ns.toNat?
              let (fs, rest) ← parseFields fuel n rest
              some (.obj ty fs, rest)
          | _ => none
      | _ => none
  def parseList (fuel : Nat) (n : Nat) (toks : List String) : Option (List Val × List String) :=
    match fuel, n with
    | 0, _ => none
    | _, 0 => some ([], toks)
    | fuel + 1, n + 1 => do
        let (x, rest) ← parse fuel toks
        let (xs, rest) ← parseList fuel n rest
        some (x :: xs, rest)
  def parseFields (fuel : Nat) (n : Nat) (toks : List String) : Option (List (String × Val) × List String) :=
    match fuel, n, toks with
    | 0, _, _ => none
    | _, 0, _ => some ([], toks)
    | fuel + 1, n + 1, f :: rest =>
        match f.toList with
        | 'F' :: cs => do
            let (v, rest) ← parse fuel rest
            let (fs, rest) ← parseFields fuel n rest
            some ((String.ofList cs, v) :: fs, rest)
        | _ => none
    | _, _, [] => none
end

/-! ### accessors used by the decoders -/

def field? (v : Val) (name : String) : Option Val :=
  match v with
  | .obj _ fs => (fs.find? (·.1 == name)).map (·.2)
  | _ => none

def asInt? : Val → Option Int
  | .num n => some n
  | _ => none
def asNat? : Val → Option Nat
  | .num n => if n ≥ 0 then some n.toNat else none
  | _ => none
def asStr? : Val → Option String
  | .str s => some s
  | _ => none
def asList? : Val → Option (List Val)
  | .list xs => some xs
  | _ => none
def asBool? : Val → Option Bool
  | .num 0 => some false
  | .num 1 => some true
  | _ => none

end Val
end OG.Meta
