/-
Catalogue model of ts-meta (shared by C15 and C16).

State: the part of `meta.Data` the modelled commands touch — counters, data nodes, partition
view, databases → retention policies → measurements (+ schema, shard keys), shard groups →
shards, index groups → indexes, users.  Go maps are association lists kept sorted by key.

`apply : Data → Cmd → Data × Result` transcribes `storeFSM.executeCmd` for the modelled
command types, branch by branch, *as the code is* (after the `fix:` commits listed in
known_findings.jsonl), including the panics the code runs into (`Result.panic`, state kept).
Where the Go code used to take "the first element of a map" the model takes the element selected
by `pick` (an oracle argument); `pick = 0` is the smallest key — which is what the code does since
the `fix:` that makes it take the first measurement in name order (`firstMeasurement`).

Times and durations are `Int` nanoseconds; ids are `Nat`.
-/
namespace OG.Meta

/-! ### state -/

structure ShardKey where
  keys : List String
  typ : String
  sgid : Nat
deriving DecidableEq, Repr, Inhabited

structure SchemaField where
  name : String
  typ : Int
  endTime : Int
deriving DecidableEq, Repr, Inhabited

structure Mst where
  name : String            -- name with version, the key of RetentionPolicyInfo.Measurements
  id : Nat
  markDeleted : Bool
  engine : Nat
  shardKeys : List ShardKey
  schema : List SchemaField -- sorted by field name
deriving DecidableEq, Repr, Inhabited

structure MstVer where
  name : String            -- original measurement name (key of MstVersions)
  version : Nat
deriving DecidableEq, Repr, Inhabited

structure Shard where
  id : Nat
  owners : List Nat
  indexID : Nat
  tier : Nat
  markDelete : Bool
deriving DecidableEq, Repr, Inhabited

structure SG where
  id : Nat
  start : Int
  stop : Int
  deleted : Bool
  engine : Nat
  version : Nat
  shards : List Shard
deriving DecidableEq, Repr, Inhabited

structure Index where
  id : Nat
  owners : List Nat
  markDelete : Bool
  tier : Nat
deriving DecidableEq, Repr, Inhabited

structure IG where
  id : Nat
  start : Int
  stop : Int
  deleted : Bool
  engine : Nat
  indexes : List Index
deriving DecidableEq, Repr, Inhabited

structure RP where
  name : String
  replicaN : Nat
  duration : Int
  sgDuration : Int
  shardMergeDuration : Int
  hot : Int
  warm : Int
  indexCold : Int
  igDuration : Int
  indexGroups : List IG
  msts : List Mst              -- sorted by name (with version)
  mstVersions : List MstVer    -- sorted by original name
  shardGroups : List SG
  markDeleted : Bool
deriving DecidableEq, Repr, Inhabited

structure DB where
  name : String
  defaultRP : String
  rps : List (String × RP)     -- sorted by key
  markDeleted : Bool
  replicaN : Nat
deriving DecidableEq, Repr, Inhabited

structure Pt where
  owner : Nat
  status : Nat
  ptId : Nat
  ver : Nat
deriving DecidableEq, Repr, Inhabited

structure Node where
  id : Nat
  host : String
  tcpHost : String
  role : String
  connID : Nat
deriving DecidableEq, Repr, Inhabited

structure User where
  name : String
  hash : String
  admin : Bool
  rwuser : Bool
  privileges : List (String × Int)  -- sorted by database
deriving DecidableEq, Repr, Inhabited

structure Data where
  clusterPtNum : Nat
  ptNumPerNode : Nat
  maxNodeID : Nat
  maxShardGroupID : Nat
  maxShardID : Nat
  maxMstID : Nat
  maxIndexGroupID : Nat
  maxIndexID : Nat
  maxConnID : Nat
  dataNodes : List Node
  ptView : List (String × List Pt)   -- sorted by database
  databases : List (String × DB)     -- sorted by name
  users : List User
deriving DecidableEq, Repr, Inhabited

/-- `NewStore` with `PtNumPerNode = 1` (the harness's configuration). -/
def Data.init : Data :=
  { clusterPtNum := 0, ptNumPerNode := 1, maxNodeID := 0, maxShardGroupID := 0, maxShardID := 0,
    maxMstID := 0, maxIndexGroupID := 0, maxIndexID := 0, maxConnID := 0, dataNodes := [],
    ptView := [], databases := [], users := [] }

/-! ### results -/

inductive Result where
  | ok
  | err (msg : String)
  | panic (msg : String)
deriving DecidableEq, Repr, Inhabited

def Result.isOk : Result → Bool
  | .ok => true
  | _ => false

/-! ### association lists sorted by key -/

def alFind {α : Type} (k : String) : List (String × α) → Option α
  | [] => none
  | (k', v) :: rest => if k' = k then some v else alFind k rest

def alInsert {α : Type} (k : String) (v : α) : List (String × α) → List (String × α)
  | [] => [(k, v)]
  | (k', v') :: rest =>
    if k' = k then (k, v) :: rest
    else if k < k' then (k, v) :: (k', v') :: rest
    else (k', v') :: alInsert k v rest

def alErase {α : Type} (k : String) : List (String × α) → List (String × α)
  | [] => []
  | (k', v') :: rest => if k' = k then rest else (k', v') :: alErase k rest

def alModify {α : Type} (k : String) (f : α → α) : List (String × α) → List (String × α)
  | [] => []
  | (k', v') :: rest => if k' = k then (k', f v') :: rest else (k', v') :: alModify k f rest

/-- apply `f` to the first element that satisfies `p` (Go: `for i := range xs { if p(xs[i]) { …; break } }`) -/
def updFirst {α : Type} (p : α → Bool) (f : α → α) : List α → List α
  | [] => []
  | x :: rest => if p x then f x :: rest else x :: updFirst p f rest

/-! ### commands -/

structure RPSpec where
  name : String
  replicaN : Nat
  duration : Int
  sgDuration : Int
  hot : Int
  warm : Int
  igDuration : Int
  indexCold : Int
  shardMerge : Int
deriving DecidableEq, Repr, Inhabited

structure RPUpdate where
  newName : Option String
  duration : Option Int
  sgDuration : Option Int
  hot : Option Int
  warm : Option Int
  igDuration : Option Int
  indexCold : Option Int
  makeDefault : Bool
deriving DecidableEq, Repr, Inhabited

structure FieldReq where
  name : String
  typ : Int
  endTime : Option Int
deriving DecidableEq, Repr, Inhabited

inductive Cmd where
  | createDatabase (name : String) (rp : Option RPSpec) (replicaN : Nat)
  | dropDatabase (name : String)
  | markDatabaseDelete (name : String)
  | createRetentionPolicy (db : String) (spec : RPSpec) (makeDefault : Bool)
  | dropRetentionPolicy (db rp : String)
  | markRetentionPolicyDelete (db rp : String)
  | setDefaultRetentionPolicy (db rp : String)
  | updateRetentionPolicy (db rp : String) (u : RPUpdate)
  | createMeasurement (db rp mst : String) (ski : Option ShardKey) (engine : Nat) (fields : List FieldReq)
  | alterShardKey (db rp mst : String) (ski : Option ShardKey)
  | updateSchema (db rp mst : String) (fields : List FieldReq)
  | markMeasurementDelete (db rp mst : String)
  | dropMeasurement (db rp nameWithVer : String)
  | createShardGroup (db rp : String) (ts : Int) (tier engine version : Nat)
  | deleteShardGroup (db rp : String) (id : Nat) (deleteType : Int)
  | deleteIndexGroup (db rp : String) (id : Nat)
  | pruneGroups (shardGroup : Bool) (id : Nat)
  | createDataNode (httpAddr tcpAddr role : String)
  | createDbPtView (db : String)
  | updateShardInfoTier (shardID tier : Nat) (db rp : String)
  | createUser (name hash : String) (admin rwuser : Bool)
  | dropUser (name : String)
  | updateUser (name hash : String)
  | setPrivilege (user db : String) (priv : Int)
  | setAdminPrivilege (user : String) (admin : Bool)
deriving DecidableEq, Repr, Inhabited

/-! ### constants -/

def hour : Int := 3600000000000
def day : Int := 24 * hour
def minRetentionPolicyDuration : Int := hour
def maxNanoTime : Int := 9223372036854775806   -- models.MaxNanoTime = MaxInt64 - 1
/-- nanoseconds from the Go zero time (0001-01-01) to the Unix epoch: `Time.Truncate` rounds
relative to the zero time. -/
def epochOffset : Int := 62135596800 * 1000000000

def statusOffline : Nat := 3
def HASH : String := "hash"
def RANGE : String := "range"

/-! ### error texts (as the harness canonicalises them: blanks → `_`) -/

def eDbNotFound (n : String) : String := "database_not_found:_" ++ n
def eDbBeingDelete (n : String) : String := "database(" ++ n ++ ")_is_being_delete"
def eRpNotFound (n : String) : String := "retention_policy_not_found:_" ++ n
def eRpBeingDelete : String := "retention_policy_is_being_delete"
def eMstNotFound : String := "measurement_not_found"
def eStoreNotReady : String := "storage_node_has_not_open"

/-! ### look-ups (`GetDatabase`, `GetRetentionPolicy`, `Measurement`) -/

def getDatabase (d : Data) (name : String) : Except String DB :=
  match alFind name d.databases with
  | none => .error (eDbNotFound name)
  | some db => if db.markDeleted then .error (eDbBeingDelete name) else .ok db

/-- `DatabaseInfo.RetentionPolicy`: the empty name means the default policy. Returns the map
key under which the policy is stored. -/
def DB.rpKey (db : DB) (name : String) : Option String :=
  if name = "" then (if db.defaultRP = "" then none else some db.defaultRP) else some name

def DB.rp? (db : DB) (name : String) : Option (String × RP) :=
  match db.rpKey name with
  | none => none
  | some k => (alFind k db.rps).map fun rp => (k, rp)

def DB.getRP (db : DB) (name : String) : Except String (String × RP) :=
  match db.rp? name with
  | none => .error (eRpNotFound name)
  | some (k, rp) => if rp.markDeleted then .error eRpBeingDelete else .ok (k, rp)

/-- `Data.RetentionPolicy(database, name)` -/
def getRP (d : Data) (db rp : String) : Except String (DB × String × RP) :=
  match getDatabase d db with
  | .error e => .error e
  | .ok dbi =>
    match dbi.getRP rp with
    | .error e => .error e
    | .ok (k, r) => .ok (dbi, k, r)

def setDB (d : Data) (db : DB) : Data := { d with databases := alInsert db.name db d.databases }

/-- replace the policy stored under key `k` of database `db` -/
def setRP (d : Data) (db : DB) (k : String) (rp : RP) : Data :=
  setDB d { db with rps := alInsert k rp db.rps }

/-! ### measurement names -/

def hexNibble (n : Nat) : Char := if n < 10 then Char.ofNat (48 + n) else Char.ofNat (87 + n)

/-- `influx.GetNameWithVersion`: name, `_`, four hex digits of the 16-bit version. -/
def nameWithVersion (name : String) (ver : Nat) : String :=
  name ++ "_" ++ String.ofList [hexNibble (ver / 4096 % 16), hexNibble (ver / 256 % 16), hexNibble (ver / 16 % 16), hexNibble (ver % 16)]

/-- `influx.GetOriginMstName`: strips the five-character version suffix. -/
def originName (nameWithVer : String) : String :=
  if nameWithVer.length < 5 then nameWithVer else String.ofList (nameWithVer.toList.take (nameWithVer.length - 5))

def RP.findVer (rp : RP) (mst : String) : Option MstVer := rp.mstVersions.find? (·.name = mst)

def RP.findMst (rp : RP) (nameWithVer : String) : Option Mst := rp.msts.find? (·.name = nameWithVer)

/-- `RetentionPolicyInfo.Measurement(name)`: through `MstVersions`. -/
def RP.measurement (rp : RP) (mst : String) : Option Mst :=
  match rp.findVer mst with
  | none => none
  | some v => rp.findMst (nameWithVersion mst v.version)

def insertMst (m : Mst) : List Mst → List Mst
  | [] => [m]
  | x :: rest => if x.name = m.name then m :: rest else if m.name < x.name then m :: x :: rest else x :: insertMst m rest

def insertVer (v : MstVer) : List MstVer → List MstVer
  | [] => [v]
  | x :: rest => if x.name = v.name then v :: rest else if v.name < x.name then v :: x :: rest else x :: insertVer v rest

def RP.setMst (rp : RP) (m : Mst) : RP := { rp with msts := insertMst m rp.msts }

/-! ### retention policy specification checks (`CheckSpecValid`) -/

def shardGroupDuration (d : Int) : Int :=
  if d ≥ 180 * day ∨ d = 0 then 7 * day else if d ≥ 2 * day then day else hour

def normalisedShardDuration (sgd d : Int) : Int :=
  if sgd = 0 then shardGroupDuration d
  else if sgd < minRetentionPolicyDuration then shardGroupDuration minRetentionPolicyDuration
  else sgd

def normalisedIndexDuration (igd sgd : Int) : Int :=
  if igd < sgd then sgd else if igd % sgd = 0 then igd else (igd / sgd + 1) * sgd

def normalisedShardMergeDuration (smd sgd : Int) : Int :=
  if smd = 0 ∨ smd ≤ sgd then 0 else smd

structure Durs where
  duration : Int
  sg : Int
  ig : Int
  merge : Int
  hot : Int
  warm : Int
  cold : Int
deriving DecidableEq, Repr

def eTooLow : String := "retention_policy_duration_must_be_at_least_1h0m0s"
def eColdTooLow : String := "retention_policy_index_cold_duration_must_be_at_least_1h0m0s"
def eIncompatibleDurations : String := "retention_policy_duration_must_be_greater_than_the_shard_duration"
def eIncompatibleHot : String := "retention_policy_hot_duration_must_be_greater_than_the_shard_duration_and_lower_than_the_duration"
def eIncompatibleWarm : String := "retention_policy_warm_duration_must_be_greater_than_the_shard_duration_and_lower_than_the_duration"
def eIncompatibleSG : String := "retention_policy_hot_duration/warm_duration/index_duration_should_be_equal_n_*_shard_duration_and_n>=1"
def eShardMerge : String := "retention_policy_shardMerge_duration_must_be_a_multiple_of_shardGroup_duration"
def eIncompatibleIG : String := "retention_policy:_index_cold_duration_should_be_equals_to_m_*_index_duration_and_n_*_shard_duration,_where_m/n_>=_1"

/-- first half of `RetentionPolicyInfo.CheckSpecValid`: the three normalisations -/
def Durs.normalise (x : Durs) : Durs :=
  let sg := normalisedShardDuration x.sg x.duration
  { x with sg := sg, ig := normalisedIndexDuration x.ig sg, merge := normalisedShardMergeDuration x.merge sg }

/-- second half: the chain of checks in source order (`none` = valid) -/
def Durs.validate (y : Durs) : Option String :=
  let sg := y.sg
  let ig := y.ig
  let mg := y.merge
  if y.hot % sg ≠ 0 ∨ y.warm % sg ≠ 0 then some eIncompatibleSG
  else if y.duration ≠ 0 ∧ y.duration < minRetentionPolicyDuration then some eTooLow
  else if y.hot ≠ 0 ∧ y.hot < minRetentionPolicyDuration then some eTooLow
  else if y.warm ≠ 0 ∧ y.warm < minRetentionPolicyDuration then some eTooLow
  else if y.cold ≠ 0 ∧ y.cold < hour then some eColdTooLow
  else if y.duration ≠ 0 ∧ y.duration < sg then some eIncompatibleDurations
  else if y.hot ≠ 0 ∧ y.hot < sg then some eIncompatibleHot
  else if y.warm ≠ 0 ∧ y.warm < sg then some eIncompatibleWarm
  else if y.warm ≠ y.duration ∧ y.warm % sg ≠ 0 then some eIncompatibleSG
  else if y.duration ≠ 0 ∧ y.hot ≠ 0 ∧ y.hot > y.duration then some eIncompatibleHot
  else if y.duration ≠ 0 ∧ y.warm ≠ 0 ∧ y.warm > y.duration then some eIncompatibleWarm
  else if mg ≠ 0 ∧ sg ≠ 0 ∧ mg % sg ≠ 0 then some eShardMerge
  else if mg ≠ 0 ∧ ig ≠ 0 ∧ mg ≠ ig then some eShardMerge
  else if y.cold ≠ 0 ∧ ig ≠ 0 ∧ y.cold % ig ≠ 0 then some eIncompatibleIG
  else if y.cold ≠ 0 ∧ sg ≠ 0 ∧ y.cold % sg ≠ 0 then some eIncompatibleIG
  else none

/-- `RetentionPolicyInfo.CheckSpecValid`: normalises, then checks. -/
def checkSpecValid (x : Durs) : Except String Durs :=
  match x.normalise.validate with
  | some e => .error e
  | none => .ok x.normalise

def RPSpec.durs (s : RPSpec) : Durs :=
  { duration := s.duration, sg := s.sgDuration, ig := s.igDuration, merge := s.shardMerge, hot := s.hot, warm := s.warm, cold := s.indexCold }

def RPSpec.toRP (s : RPSpec) (y : Durs) : RP :=
  { name := s.name, replicaN := s.replicaN, duration := y.duration, sgDuration := y.sg, shardMergeDuration := y.merge,
    hot := y.hot, warm := y.warm, indexCold := y.cold, igDuration := y.ig, indexGroups := [], msts := [], mstVersions := [],
    shardGroups := [], markDeleted := false }

/-- `RetentionPolicyInfo.EqualsAnotherRp` -/
def RP.equalsSpec (rp : RP) (replicaN : Nat) (y : Durs) : Bool :=
  rp.replicaN = replicaN ∧ rp.duration = y.duration ∧ rp.sgDuration = y.sg ∧ rp.igDuration = y.ig ∧
  rp.hot = y.hot ∧ rp.warm = y.warm ∧ rp.indexCold = y.cold

inductive CanCreate where
  | create (rp : RP)
  | exists_
  | fail (e : String)

def eRpNameRequired : String := "retention_policy_name_required"
def eReplicaNConflict : String := "retention_policy_replicaN_conflicts_with_database_replicaN"
def eRpConflict : String := "retention_policy_conflicts_with_an_existing_policy"

/-- `Data.CheckCanCreateRetentionPolicy` -/
def checkCanCreateRP (db : DB) (s : RPSpec) (makeDefault : Bool) : CanCreate :=
  if s.name = "" then .fail eRpNameRequired
  else match checkSpecValid s.durs with
    | .error e => .fail e
    | .ok y =>
      match alFind s.name db.rps with
      | none => if db.replicaN ≠ 0 ∧ s.replicaN ≠ db.replicaN then .fail eReplicaNConflict else .create (s.toRP y)
      | some ex =>
        if !ex.equalsSpec s.replicaN y then .fail eRpConflict
        else if makeDefault ∧ db.defaultRP ≠ s.name then .fail eRpConflict
        else .exists_

def DB.setRetentionPolicy (db : DB) (rp : RP) (makeDefault : Bool) : DB :=
  { db with rps := alInsert rp.name rp db.rps, defaultRP := if makeDefault then rp.name else db.defaultRP }

/-! ### schema -/

def schemaFind (name : String) : List SchemaField → Option SchemaField
  | [] => none
  | f :: rest => if f.name = name then some f else schemaFind name rest

def schemaSet (f : SchemaField) : List SchemaField → List SchemaField
  | [] => [f]
  | x :: rest => if x.name = f.name then f :: rest else if f.name < x.name then f :: x :: rest else x :: schemaSet f rest

/-- `int8(typ)` then back to `int32`: the stored type of a field. -/
def toInt8 (t : Int) : Int := (t + 128) % 256 - 128
def toInt32 (t : Int) : Int := (t + 2147483648) % 4294967296 - 2147483648

def eFieldTypeConflict : String := "field_type_conflict"

/-- `checkFieldsToCreate` (first pass): conflicts with the schema or inside the request. -/
def checkFields (schema : List SchemaField) (pending : List (String × Int)) : List FieldReq → Bool
  | [] => true
  | f :: rest =>
    match schemaFind f.name schema with
    | some ex => if ex.typ ≠ f.typ then false else checkFields schema pending rest
    | none =>
      match alFind f.name pending with
      | some t => if t ≠ f.typ then false else checkFields schema pending rest
      | none => checkFields schema ((f.name, toInt8 f.typ) :: pending) rest

/-- second pass with `SchemaCleanEn` (the default configuration). -/
def applyFields (schema : List SchemaField) : List FieldReq → List SchemaField
  | [] => schema
  | f :: rest =>
    let et := toInt32 (f.endTime.getD 0)
    match schemaFind f.name schema with
    | none => applyFields (schemaSet ⟨f.name, toInt8 f.typ, et⟩ schema) rest
    | some ex =>
      if ex.endTime < et then applyFields (schemaSet ⟨f.name, toInt8 f.typ, et⟩ schema) rest
      else applyFields schema rest

/-! ### shard groups -/

/-- `Time.Truncate(d)` for `d > 0`: round down to a multiple of `d` counted from the Go zero
time; for `d ≤ 0` the time is returned unchanged. -/
def truncateTime (t d : Int) : Int := if d ≤ 0 then t else t - (t + epochOffset) % d

def clampEnd (e : Int) : Int := if e > maxNanoTime then maxNanoTime + 1 else e

def SG.contains (g : SG) (t : Int) : Bool := g.start ≤ t ∧ t < g.stop
def IG.contains (g : IG) (t : Int) : Bool := g.start ≤ t ∧ t < g.stop

/-- `ShardGroupByTimestampAndEngineType`: last (in list order) live group of the engine type
that contains `t`. (`TruncatedAt` is never set by any command.) -/
def RP.groupAt (rp : RP) (t : Int) (engine : Nat) : Option SG :=
  rp.shardGroups.reverse.find? fun g => g.engine = engine ∧ g.contains t ∧ !g.deleted

/-- order of `ShardGroupInfos.Less` / `IndexGroupInfos.Less`: end time, then start time. -/
def spanLess (s1 e1 s2 e2 : Int) : Bool := if e1 = e2 then s1 < s2 else e1 < e2

/-- `append` + `sort.Sort` for fewer than 12 elements is an insertion sort: the new element
moves left past every element that is strictly greater. -/
def insertSG (g : SG) : List SG → List SG
  | [] => [g]
  | x :: rest => if spanLess g.start g.stop x.start x.stop ∧ (rest.all fun y => spanLess g.start g.stop y.start y.stop) then g :: x :: rest
                 else x :: insertSG g rest

def insertIG (g : IG) : List IG → List IG
  | [] => [g]
  | x :: rest => if spanLess g.start g.stop x.start x.stop ∧ (rest.all fun y => spanLess g.start g.stop y.start y.stop) then g :: x :: rest
                 else x :: insertIG g rest

def mkIndexes (firstID : Nat) (n : Nat) : List Index :=
  (List.range n).map fun i => { id := firstID + i, owners := [i], markDelete := false, tier := 0 }

/-- `Data.CreateIndexGroup` -/
def createIndexGroup (d : Data) (rp : RP) (t : Int) (engine : Nat) : Data × RP × IG :=
  let start := truncateTime t rp.igDuration
  let ig : IG := { id := d.maxIndexGroupID + 1, start := start, stop := clampEnd (start + rp.igDuration), deleted := false,
                   engine := engine, indexes := mkIndexes (d.maxIndexID + 1) d.clusterPtNum }
  ({ d with maxIndexGroupID := d.maxIndexGroupID + 1, maxIndexID := d.maxIndexID + d.clusterPtNum },
   { rp with indexGroups := insertIG ig rp.indexGroups }, ig)

/-- `createIndexGroupIfNeeded`: the last index group of the engine type containing `t`, if it
has an index for every partition. -/
def indexGroupFor (d : Data) (rp : RP) (t : Int) (engine : Nat) : Data × RP × IG :=
  match rp.indexGroups.reverse.find? (fun g => g.engine = engine ∧ g.contains t) with
  | some g => if g.indexes.length ≥ d.clusterPtNum then (d, rp, g) else createIndexGroup d rp t engine
  | none => createIndexGroup d rp t engine

def nthIndexID (ig : IG) (i : Nat) : Nat := (ig.indexes.getD i default).id

/-- `createShards`: one shard per partition (range sharding: as many as the last group, or 1). -/
def mkShards (d : Data) (rp : RP) (msti : Mst) (ig : IG) (tier : Nat) : List Shard :=
  let shardN := d.clusterPtNum
  let n :=
    match msti.shardKeys with
    | k :: _ => if k.typ = RANGE then (match rp.shardGroups.getLast? with | none => 1 | some l => l.shards.length) else shardN
    | [] => shardN
  (List.range n).map fun i =>
    if i < shardN then { id := d.maxShardID + 1 + i, owners := [i], indexID := nthIndexID ig i, tier := tier, markDelete := false }
    else { id := d.maxShardID + 1 + i, owners := [], indexID := 0, tier := tier, markDelete := false }

def eNoMst (db rp : String) : String := "there_is_no_measurement_in_database_" ++ db ++ "_policy_" ++ rp
def pIndexRange : String := "panic:_runtime_error:_index_out_of_range_[0]_with_length_0"
def eNoShardKey (name : String) : String := "measurement_" ++ name ++ "_has_no_shard_key"

/-! ### the commands -/

abbrev Step := Data × Result

def fail (d : Data) (e : String) : Step := (d, .err e)
def done (d : Data) : Step := (d, .ok)

/-- the measurement "picked first" from the map of a policy: the `pick`-th in key order. -/
def pickMst (pick : Nat) (msts : List Mst) : Option Mst :=
  match msts with
  | [] => none
  | _ => msts[pick % msts.length]?

/-- `validMeasurementShardType`: the first measurement (in map order) with another original
name decides. -/
def validShardType (pick : Nat) (rp : RP) (typ mst : String) : Except String Unit :=
  match pickMst pick (rp.msts.filter fun m => originName m.name ≠ mst) with
  | none => .ok ()
  | some m =>
    match m.shardKeys with
    | [] => .ok ()
    | k :: _ => if k.typ ≠ typ then
        .error ("sharding_type_are_not_equal_in_" ++ rp.name ++ "_exist_type_" ++ k.typ ++ "_inputType_" ++ typ) else .ok ()

def ShardKey.equalsTo (a b : ShardKey) : Bool := a.keys.length = b.keys.length ∧ a.typ = b.typ ∧ a.keys = b.keys

def eConflictWithRep : String := "current_feature_conflicts_with_replication"
def eMstExists : String := "measurement_already_exists"

def RP.maxShardGroupID (rp : RP) : Nat := rp.shardGroups.foldl (fun m g => max m g.id) 0

/-- `Data.Measurement(db, rp, mst)` as used by `UpdateSchema` / `MarkMeasurementDelete` -/
def getMeasurement (d : Data) (db rp mst : String) : Except String (DB × String × RP × Mst) :=
  match getRP d db rp with
  | .error e => .error e
  | .ok (dbi, k, r) =>
    match r.measurement mst with
    | none => .error eMstNotFound
    | some m => if m.markDeleted then .error eMstNotFound else .ok (dbi, k, r, m)

def updateSchema (d : Data) (db rp mst : String) (fields : List FieldReq) : Step :=
  match getMeasurement d db rp mst with
  | .error e => fail d e
  | .ok (dbi, k, r, m) =>
    if !checkFields m.schema [] fields then fail d eFieldTypeConflict
    else done (setRP d dbi k (r.setMst { m with schema := applyFields m.schema fields }))

/-- `pruneShardGroups`, first half of the loop body: if `id` lies between the ids of the first
and the last shard of the group, look at the first shard whose id is ≥ `id` (`sort.Search`) and
mark it if it *is* the shard (`fix:` the ids of a group are not contiguous after ExpandGroups:
the search used to mark the next larger id, a shard of another — possibly live — group). -/
def markShardIn (id : Nat) (g : SG) : SG :=
  match g.shards.head?, g.shards.getLast? with
  | some f, some l =>
    if f.id ≤ id ∧ id ≤ l.id then
      { g with shards := updFirst (fun s => s.id ≥ id) (fun s => { s with markDelete := s.markDelete || s.id = id }) g.shards }
    else g
  | _, _ => g

/-- `pruneShardGroups` for one policy: mark the shard with the id, drop deleted groups whose
shards are all marked; returns the largest end time of a dropped group. -/
def pruneSGs (id : Nat) : List SG → List SG × Option Int
  | [] => ([], none)
  | g :: rest =>
    let g' := markShardIn id g
    let r := pruneSGs id rest
    if g'.deleted ∧ g'.shards.all (·.markDelete) then
      (r.1, some (match r.2 with | none => g'.stop | some x => max x g'.stop))
    else (g' :: r.1, r.2)

def markIndexIn (id : Nat) (g : IG) : IG :=
  match g.indexes.head?, g.indexes.getLast? with
  | some f, some l =>
    if f.id ≤ id ∧ id ≤ l.id then
      { g with indexes := updFirst (fun s => s.id ≥ id) (fun s => { s with markDelete := s.markDelete || s.id = id }) g.indexes }
    else g
  | _, _ => g

/-- `pruneIndexGroups` for one policy: an index group goes as soon as all its indexes are marked. -/
def pruneIGs (id : Nat) : List IG → List IG
  | [] => []
  | g :: rest =>
    let g' := markIndexIn id g
    if g'.indexes.all (·.markDelete) then pruneIGs id rest else g' :: pruneIGs id rest

/-- `TimeReserveHigh32`: the high 32 bits of an end time. -/
def high32 (t : Int) : Int := t / 4294967296

/-- `MeasurementInfo.SchemaClean` + the count of fields left (0 for non-tsstore engines). -/
def Mst.schemaClean (m : Mst) (sgEnd : Int) : Mst × Nat :=
  if m.engine ≠ 0 then (m, 0)
  else
    let s := m.schema.filter fun f => !(f.endTime ≤ high32 sgEnd)
    ({ m with schema := s }, s.length)

/-- `Data.SchemaClean`: clean every measurement; a tsstore measurement left without fields gets
its *current version* (looked up by original name) marked deleted, through
`MarkMeasurementDelete`, whose errors are ignored.  (No stream / migrate event in the model.) -/
def RP.schemaCleanAll (rp : RP) (dbDeleted : Bool) (sgEnd : Int) : RP :=
  let cleaned := rp.msts.map fun m => (m.schemaClean sgEnd)
  let rp1 : RP := { rp with msts := cleaned.map (·.1) }
  let toMark := (cleaned.filter fun (m, left) => m.engine = 0 ∧ left = 0).map fun (m, _) => originName m.name
  if dbDeleted ∨ rp.markDeleted then rp1
  else toMark.foldl (fun r o =>
    match r.measurement o with
    | some cur => if cur.markDeleted then r else r.setMst { cur with markDeleted := true }
    | none => r) rp1

def pruneShardGroupsRP (id : Nat) (dbDeleted : Bool) (rp : RP) : RP :=
  let (sgs, e) := pruneSGs id rp.shardGroups
  let rp1 := { rp with shardGroups := sgs }
  match e with
  | none => rp1
  | some endTime => rp1.schemaCleanAll dbDeleted (max 0 endTime)   -- `var endTime int64` starts at 0

def mapRPs (f : DB → RP → RP) (d : Data) : Data :=
  { d with databases := d.databases.map fun (k, db) => (k, { db with rps := db.rps.map fun (rk, rp) => (rk, f db rp) }) }

def isWriter (role : String) : Bool := role = "writer" ∨ role = ""

def insertNode (n : Node) : List Node → List Node
  | [] => [n]
  | x :: rest => if n.id < x.id ∧ (rest.all fun y => n.id < y.id) then n :: x :: rest else x :: insertNode n rest

def eNoAlive : String := "dataNode(id=%!d(MISSING),host=%!s(MISSING))_is_not_alive"
def pNilDeref : String := "panic:_runtime_error:_invalid_memory_address_or_nil_pointer_dereference"

/-- `ApplyCreateDataNode` + `Data.CreateDataNode`. -/
def createDataNode (d : Data) (httpAddr tcpAddr role : String) : Step :=
  if d.dataNodes.any (·.host = httpAddr) then
    let c := d.maxConnID + 1
    -- DataNodeByHttpHost: the first node with that host
    done { d with maxConnID := c, dataNodes := updFirst (·.host = httpAddr) (fun n => { n with connID := c }) d.dataNodes }
  else
    let c := d.maxConnID + 1
    let d := { d with maxConnID := c }
    if d.dataNodes.any (·.tcpHost = tcpAddr) then
      done { d with dataNodes := updFirst (·.tcpHost = tcpAddr) (fun n => { n with connID := c }) d.dataNodes }
    else
      let id := d.maxNodeID + 1
      let n : Node := { id := id, host := httpAddr, tcpHost := tcpAddr, role := role, connID := c }
      let nodes := insertNode n d.dataNodes
      let writers := (nodes.filter fun x => isWriter x.role).length
      let newPt := d.ptNumPerNode * writers
      let ptNum := if d.clusterPtNum < newPt then newPt else d.clusterPtNum
      let d := { d with maxNodeID := id, dataNodes := nodes, clusterPtNum := ptNum }
      if role = "reader" then done d
      else
        -- expandDBPtView: the new partitions of every database go to the new node, offline
        done { d with ptView := d.ptView.map fun (db, v) =>
          (db, v ++ (List.range (ptNum - v.length)).map fun i => ⟨id, statusOffline, v.length + i, 1⟩) }

/-- `ApplyCreateDbPtViewCommand` with the write-available-first assigner. -/
def createDbPtView (d : Data) (db : String) : Step :=
  match alFind db d.ptView with
  | some _ => done d
  | none =>
    let writers := d.dataNodes.filter fun x => isWriter x.role
    match writers with
    | [] => fail d eNoAlive
    | _ =>
      let view : List Pt := (List.range d.clusterPtNum).map fun i =>
        ⟨(writers.getD (i % writers.length) default).id, statusOffline, i, 1⟩
      done { d with ptView := alInsert db view d.ptView }

def eUserRequired : String := "username_required"
def eUserExists : String := "user_already_exists"
def eUserForbidden : String := "admin_user_is_existed,_forbidden_to_create_new_admin_user"
def eUserDropSelf : String := "forbidden_to_delete_admin_user"
def eUserNotFound : String := "user_not_found"
def ePwdUsed : String := "the_password_is_the_same_as_the_old_one,_please_enter_a_new_password"
def eGrantAdmin : String := "forbidden_to_grant_or_revoke_privileges,_because_only_one_admin_is_allowed_for_the_database"
def eDbNameRequired : String := "database_name_required"
def eDbBeingDeleted (n : String) : String := "can't_create_same_DB_Name:" ++ n ++ "_when_DB_is_being_deleted"
def eRpExists : String := "retention_policy_already_exists"

/-- the policy `applyCreateDatabaseCommand` creates when the command carries none
(`RetentionAutoCreate`, the default configuration). -/
def autogenSpec (replicaN : Nat) : RPSpec :=
  { name := "autogen", replicaN := replicaN, duration := 0, sgDuration := 0, hot := 0, warm := 0, igDuration := 0, indexCold := 0, shardMerge := 0 }

def createDatabase (d : Data) (name : String) (rp : Option RPSpec) (replicaN : Nat) : Step :=
  let repN := if replicaN = 0 then 1 else replicaN
  let spec := match rp with | some s => s | none => autogenSpec repN
  if name = "" then fail d eDbNameRequired
  else if d.clusterPtNum = 0 then fail d eStoreNotReady
  else match alFind name d.databases with
    | some ex => if ex.markDeleted then fail d (eDbBeingDeleted name) else done d
    | none =>
      let dbi : DB := { name := name, defaultRP := "", rps := [], markDeleted := false, replicaN := 0 }
      match checkCanCreateRP dbi spec true with
      | .fail e => fail d e
      | .exists_ => fail d eRpExists          -- unreachable for a fresh database
      | .create r => done (setDB d { (dbi.setRetentionPolicy r true) with replicaN := repN })

def dropDatabase (d : Data) (name : String) : Step :=
  match alFind name d.databases with
  | none => done d
  | some _ =>
    done { d with databases := alErase name d.databases, ptView := alErase name d.ptView,
                  users := d.users.map fun u => { u with privileges := alErase name u.privileges } }

def markDatabaseDelete (d : Data) (name : String) : Step :=
  match alFind name d.databases with
  | none => fail d (eDbNotFound name)
  | some db => if db.markDeleted then fail d (eDbBeingDelete name) else done (setDB d { db with markDeleted := true })

def createRetentionPolicy (d : Data) (db : String) (s : RPSpec) (makeDefault : Bool) : Step :=
  match getDatabase d db with
  | .error e => fail d e
  | .ok dbi =>
    match checkCanCreateRP dbi s makeDefault with
    | .fail e => fail d e
    | .exists_ => done d
    | .create r => done (setDB d (dbi.setRetentionPolicy r makeDefault))

def dropRetentionPolicy (d : Data) (db rp : String) : Step :=
  match getDatabase d db with
  | .error e => fail d e
  | .ok dbi =>
    -- delete(map, name); the default name is cleared when it named the dropped policy
    done (setDB d { dbi with rps := alErase rp dbi.rps,
                             defaultRP := if rp ≠ "" ∧ dbi.defaultRP = rp then "" else dbi.defaultRP })

def markRetentionPolicyDelete (d : Data) (db rp : String) : Step :=
  match getRP d db rp with
  | .error e => fail d e
  | .ok (dbi, k, r) => done (setRP d dbi k { r with markDeleted := true })

def setDefaultRetentionPolicy (d : Data) (db rp : String) : Step :=
  match getDatabase d db with
  | .error e => fail d e
  | .ok dbi =>
    match dbi.getRP rp with
    | .error e => fail d e
    | .ok _ => done (setDB d { dbi with defaultRP := rp })

/-- `checkUpdateRetentionPolicyName`: the new name is taken by another policy -/
def nameClash (dbi : DB) (rp : String) (u : RPUpdate) : Bool :=
  match u.newName with
  | none => false
  | some n => n ≠ rp ∧ (dbi.rp? n).isSome

/-- `checkUpdateRetentionPolicyName`, then the empty new name is refused (`fix:` the empty name
stands for the default policy; a policy renamed to it could not be addressed any more and the
next such rename overwrote it). -/
def renameError (dbi : DB) (rp : String) (u : RPUpdate) : Option String :=
  if nameClash dbi rp u then some eRpExists
  else if u.newName = some "" then some eRpNameRequired
  else none

/-- the database after `updateWithOtherRetentionPolicy` + the re-keying of a renamed policy
(`fix:` 7b717c6): `delete(map, oldName); map[newName] = rpi`, the default name follows; then
`makeDefault`. The object was found under key `k`. -/
def writeBack (dbi : DB) (k newName : String) (r r' : RP) (makeDefault : Bool) : DB :=
  let dbi1 : DB :=
    if newName ≠ r.name then
      { dbi with rps := alInsert newName r' (alErase r.name (alErase k dbi.rps)),
                 defaultRP := if dbi.defaultRP = r.name then newName else dbi.defaultRP }
    else { dbi with rps := alInsert k r' dbi.rps }
  { dbi1 with defaultRP := if makeDefault then newName else dbi1.defaultRP }

/-- `Data.UpdateRetentionPolicy` (after the re-keying fix and the empty-name fix). -/
def updateRetentionPolicy (d : Data) (db rp : String) (u : RPUpdate) : Step :=
  match getDatabase d db with
  | .error e => fail d e
  | .ok dbi =>
    match dbi.getRP rp with
    | .error e => fail d e
    | .ok (k, r) =>
      match renameError dbi rp u with
      | some e => fail d e
      | none =>
        let x : Durs := { duration := u.duration.getD r.duration, sg := u.sgDuration.getD r.sgDuration, ig := u.igDuration.getD r.igDuration,
                          merge := 0, hot := u.hot.getD r.hot, warm := u.warm.getD r.warm, cold := u.indexCold.getD r.indexCold }
        match checkSpecValid x with
        | .error e => fail d e
        | .ok y =>
          let newName := u.newName.getD r.name
          let r' : RP := { r with name := newName, sgDuration := y.sg, hot := y.hot, warm := y.warm, indexCold := y.cold,
                                  igDuration := y.ig, duration := y.duration }
          done (setDB d (writeBack dbi k newName r r' u.makeDefault))

def createMeasurement (pick : Nat) (d : Data) (db rp mst : String) (ski : Option ShardKey) (engine : Nat) (fields : List FieldReq) : Step :=
  match getRP d db rp with
  | .error e => fail d e
  | .ok (dbi, k, r) =>
    let pre : Except String Unit :=
      match ski with
      | none => .ok ()
      | some s =>
        match validShardType pick r s.typ mst with
        | .error e => .error e
        | .ok _ => if r.replicaN > 1 ∧ s.typ = RANGE then .error eConflictWithRep else .ok ()
    match pre with
    | .error e => fail d e
    | .ok _ =>
      let cur := r.measurement mst
      let fresh := match cur with | none => true | some m => m.markDeleted
      if fresh then
        let ver := match r.findVer mst with | some v => (v.version + 1) % 65536 | none => 0
        if !checkFields [] [] fields then fail d eFieldTypeConflict
        else
          let sk : ShardKey := match ski with
            | some s => { s with sgid := if r.shardGroups.isEmpty then d.maxShardGroupID + 1 else 0 }
            | none => default
          let nm := nameWithVersion mst ver
          let m : Mst := { name := nm, id := d.maxMstID, markDeleted := false, engine := engine,
                           shardKeys := (match ski with | some _ => [sk] | none => []), schema := applyFields [] fields }
          let r' : RP := { (r.setMst m) with mstVersions := insertVer ⟨mst, ver⟩ r.mstVersions }
          done (setRP { d with maxMstID := d.maxMstID + 1 } dbi k r')
      else
        match cur with
        | none => fail d eMstExists
        | some m =>
          let s : ShardKey := ski.getD default
          match m.shardKeys.getLast? with
          | some l => if s.equalsTo l then done d else fail d eMstExists
          | none => fail d eMstExists

def alterShardKey (pick : Nat) (d : Data) (db rp mst : String) (ski : Option ShardKey) : Step :=
  match getRP d db rp with
  | .error e => fail d e
  | .ok (dbi, k, r) =>
    match r.measurement mst with
    | none => fail d eMstNotFound
    | some m =>
      if m.markDeleted then fail d eMstNotFound
      else match m.shardKeys.getLast? with
        | none => fail d (eNoShardKey m.name)     -- `fix:` a guard instead of the panic on ShardKeys[len-1]
        | some last =>
          let s : ShardKey := ski.getD default
          if s.typ ≠ last.typ then fail d ("sharding_type_are_not_equal_in_" ++ rp ++ "_exist_type_" ++ s.typ ++ "_inputType_" ++ last.typ)
          else if s.equalsTo last then done d
          else match validShardType pick r s.typ mst with
            | .error e => fail d e
            | .ok _ =>
              let s := { s with sgid := d.maxShardGroupID + 1 }
              let keys :=
                if r.shardGroups.isEmpty ∨ r.maxShardGroupID < last.sgid then m.shardKeys.dropLast ++ [s]
                else m.shardKeys ++ [s]
              done (setRP d dbi k (r.setMst { m with shardKeys := keys }))

def markMeasurementDelete (d : Data) (db rp mst : String) : Step :=
  match getMeasurement d db rp mst with
  | .error e => fail d e
  | .ok (dbi, k, r, m) => done (setRP d dbi k (r.setMst { m with markDeleted := true }))

def dropMeasurement (d : Data) (db rp nameWithVer : String) : Step :=
  match getRP d db rp with
  | .error e => fail d e
  | .ok (dbi, k, r) =>
    done (setRP d dbi k { r with msts := r.msts.filter fun m => !(m.name = nameWithVer ∧ m.markDeleted) })

/-- `Data.CreateShardGroup`. -/
def createShardGroup (pick : Nat) (d : Data) (db rp : String) (ts : Int) (tier engine version : Nat) : Step :=
  if d.clusterPtNum = 0 then fail d eStoreNotReady
  else match getRP d db rp with
    | .error e => fail d e
    | .ok (dbi, k, r) =>
      if (r.groupAt ts engine).isSome then done d
      else match pickMst pick r.msts with
        | none => fail d (eNoMst db rp)
        | some msti =>
          match msti.shardKeys with
          | [] =>
            -- `fix:` refused before any id is taken (it used to panic on `msti.ShardKeys[0]`
            -- after the index group, the group id and the shard ids had been taken)
            fail d (eNoShardKey msti.name)
          | _ :: _ =>
            let (d1, r1, ig) := indexGroupFor d r ts engine
            let start := truncateTime ts r1.sgDuration
            let shards := mkShards d1 r1 msti ig tier
            let g : SG := { id := d1.maxShardGroupID + 1, start := start, stop := clampEnd (start + r1.sgDuration), deleted := false,
                            engine := engine, version := version, shards := shards }
            let d2 := { d1 with maxShardGroupID := d1.maxShardGroupID + 1, maxShardID := d1.maxShardID + shards.length }
            done (setRP d2 dbi k { r1 with shardGroups := insertSG g r1.shardGroups })

def deleteShardGroup (d : Data) (db rp : String) (id : Nat) (deleteType : Int) : Step :=
  match getRP d db rp with
  | .error e => fail d e
  | .ok (dbi, k, r) =>
    -- the first group with the id; CancelDelete (1) clears the stamp, anything else sets it
    let sgs := updFirst (·.id = id) (fun g => { g with deleted := deleteType ≠ 1 }) r.shardGroups
    done (setRP d dbi k { r with shardGroups := sgs })

def deleteIndexGroup (d : Data) (db rp : String) (id : Nat) : Step :=
  match getRP d db rp with
  | .error e => fail d e
  | .ok (dbi, k, r) =>
    let igs := updFirst (·.id = id) (fun g => { g with deleted := true }) r.indexGroups
    done (setRP d dbi k { r with indexGroups := igs })

def pruneGroups (d : Data) (shardGroup : Bool) (id : Nat) : Step :=
  if shardGroup then done (mapRPs (fun db rp => pruneShardGroupsRP id db.markDeleted rp) d)
  else done (mapRPs (fun _ rp => { rp with indexGroups := pruneIGs id rp.indexGroups }) d)

def updateShardInfoTier (d : Data) (shardID tier : Nat) (db rp : String) : Step :=
  match getRP d db rp with
  | .error e => fail d e
  | .ok (dbi, k, r) =>
    if r.shardGroups.any (fun g => g.shards.any (·.id = shardID)) then
      -- the first shard with the id
      let sgs := updFirst (fun g => g.shards.any (·.id = shardID))
        (fun g => { g with shards := updFirst (·.id = shardID) (fun s => { s with tier := tier }) g.shards }) r.shardGroups
      done (setRP d dbi k { r with shardGroups := sgs })
    else fail d ("cannot_find_shard_" ++ toString shardID ++ "_for_rp_" ++ rp ++ "_on_database_" ++ db)

def createUser (d : Data) (name hash : String) (admin rwuser : Bool) : Step :=
  if name = "" then fail d eUserRequired
  else if d.users.any (·.name = name) then fail d eUserExists
  else if admin ∧ d.users.any (·.admin) then fail d eUserForbidden
  else done { d with users := d.users ++ [{ name := name, hash := hash, admin := admin, rwuser := rwuser, privileges := [] }] }

def dropUser (d : Data) (name : String) : Step :=
  match d.users.find? (·.name = name) with
  | none => fail d eUserNotFound
  | some u => if u.admin then fail d eUserDropSelf else done { d with users := d.users.filter (·.name ≠ name) }

def updateUser (d : Data) (name hash : String) : Step :=
  match d.users.find? (·.name = name) with
  | none => fail d eUserNotFound
  | some u => if u.hash = hash then fail d ePwdUsed
              else done { d with users := d.users.map fun x => if x.name = name then { x with hash := hash } else x }

def setPrivilege (d : Data) (user db : String) (priv : Int) : Step :=
  match d.users.find? (·.name = user) with
  | none => fail d eUserNotFound
  | some _ =>
    match getDatabase d db with
    | .error e => fail d e
    | .ok _ => done { d with users := d.users.map fun x => if x.name = user then { x with privileges := alInsert db priv x.privileges } else x }

def setAdminPrivilege (d : Data) (user : String) : Step :=
  match d.users.find? (·.name = user) with
  | none => fail d eUserNotFound
  | some _ => fail d eGrantAdmin

/-- one committed command. `pick` resolves "the first element of the map". -/
def applyP (pick : Nat) (d : Data) : Cmd → Step
  | .createDatabase n rp rep => createDatabase d n rp rep
  | .dropDatabase n => dropDatabase d n
  | .markDatabaseDelete n => markDatabaseDelete d n
  | .createRetentionPolicy db s def_ => createRetentionPolicy d db s def_
  | .dropRetentionPolicy db rp => dropRetentionPolicy d db rp
  | .markRetentionPolicyDelete db rp => markRetentionPolicyDelete d db rp
  | .setDefaultRetentionPolicy db rp => setDefaultRetentionPolicy d db rp
  | .updateRetentionPolicy db rp u => updateRetentionPolicy d db rp u
  | .createMeasurement db rp m ski e fs => createMeasurement pick d db rp m ski e fs
  | .alterShardKey db rp m ski => alterShardKey pick d db rp m ski
  | .updateSchema db rp m fs => updateSchema d db rp m fs
  | .markMeasurementDelete db rp m => markMeasurementDelete d db rp m
  | .dropMeasurement db rp m => dropMeasurement d db rp m
  | .createShardGroup db rp ts tier e v => createShardGroup pick d db rp ts tier e v
  | .deleteShardGroup db rp id t => deleteShardGroup d db rp id t
  | .deleteIndexGroup db rp id => deleteIndexGroup d db rp id
  | .pruneGroups sg id => pruneGroups d sg id
  | .createDataNode h t r => createDataNode d h t r
  | .createDbPtView db => createDbPtView d db
  | .updateShardInfoTier s t db rp => updateShardInfoTier d s t db rp
  | .createUser n h a rw => createUser d n h a rw
  | .dropUser n => dropUser d n
  | .updateUser n h => updateUser d n h
  | .setPrivilege u db p => setPrivilege d u db p
  | .setAdminPrivilege u _ => setAdminPrivilege d u

/-- the model's `apply`: the smallest key is "first". -/
def apply (d : Data) (c : Cmd) : Step := applyP 0 d c

def applyAll (d : Data) : List Cmd → Data
  | [] => d
  | c :: cs => applyAll (apply d c).1 cs

end OG.Meta
