/-
Catalogue model — `KeysAreNames` is preserved by every modelled command.
-/
import OG.Meta.KeysInv

namespace OG.Meta


variable {d : Data}

theorem kn_createDatabase (hk : KeysAreNames d) (n : String) (rp : Option RPSpec) (rep : Nat) :
    KeysAreNames (createDatabase d n rp rep).1 := by
  unfold createDatabase
  simp only
  split
  · exact hk
  · split
    · exact hk
    · split
      · split <;> exact hk
      · split
        · exact hk
        · exact hk
        · next r hr =>
          apply kn_setDB hk
          intro kr hkr
          simp only [DB.setRetentionPolicy] at hkr
          rcases mem_alInsert hkr with rfl | hkr
          · rfl
          · simp at hkr

theorem kn_dropDatabase (hk : KeysAreNames d) (n : String) : KeysAreNames (dropDatabase d n).1 := by
  unfold dropDatabase
  split
  · exact hk
  · intro x hx
    exact hk x (mem_alErase hx)

theorem kn_markDatabaseDelete (hk : KeysAreNames d) (n : String) : KeysAreNames (markDatabaseDelete d n).1 := by
  unfold markDatabaseDelete
  split
  · exact hk
  · next db hf =>
    split
    · exact hk
    · have hm := alFind_mem hf
      exact kn_setDB hk (fun kr hkr => (hk _ hm).2 kr hkr)

theorem kn_createRetentionPolicy (hk : KeysAreNames d) (db : String) (s : RPSpec) (md : Bool) :
    KeysAreNames (createRetentionPolicy d db s md).1 := by
  unfold createRetentionPolicy
  split
  · exact hk
  · next dbi hd =>
    have hm := (getDatabase_ok hd).1
    split
    · exact hk
    · exact hk
    · next r hr =>
      apply kn_setDB hk
      intro kr hkr
      simp only [DB.setRetentionPolicy] at hkr
      rcases mem_alInsert hkr with rfl | hkr
      · rfl
      · exact (hk _ hm).2 kr hkr

theorem kn_dropRetentionPolicy (hk : KeysAreNames d) (db rp : String) : KeysAreNames (dropRetentionPolicy d db rp).1 := by
  unfold dropRetentionPolicy
  split
  · exact hk
  · next dbi hd =>
    have hm := (getDatabase_ok hd).1
    apply kn_setDB hk
    intro kr hkr
    exact (hk _ hm).2 kr (mem_alErase hkr)

theorem kn_markRetentionPolicyDelete (hk : KeysAreNames d) (db rp : String) : KeysAreNames (markRetentionPolicyDelete d db rp).1 := by
  unfold markRetentionPolicyDelete
  split
  · exact hk
  · next dbi k r hg =>
    have h := getRP_ok hg
    exact kn_setRP hk h.1 ((hk _ h.1).2 _ h.2.1)

theorem kn_setDefaultRetentionPolicy (hk : KeysAreNames d) (db rp : String) : KeysAreNames (setDefaultRetentionPolicy d db rp).1 := by
  unfold setDefaultRetentionPolicy
  split
  · exact hk
  · next dbi hd =>
    have hm := (getDatabase_ok hd).1
    split
    · exact hk
    · exact kn_setDB hk (fun kr hkr => (hk _ hm).2 kr hkr)

theorem rpsOK_writeBack {dbi : DB} {k newName : String} {r r' : RP} (md : Bool) (h : RPsOK dbi) (hname : r.name = k)
    (hr' : r'.name = newName) : RPsOK (writeBack dbi k newName r r' md) := by
  unfold writeBack
  simp only
  intro kr hmem
  split at hmem
  · simp only at hmem
    rcases mem_alInsert hmem with rfl | hmem
    · exact hr'
    · exact h kr (mem_alErase (mem_alErase hmem))
  · next hne =>
    have hnn : newName = r.name := by simpa using hne
    simp only at hmem
    rcases mem_alInsert hmem with rfl | hmem
    · simp [hr', hnn, hname]
    · exact h kr hmem

theorem writeBack_name (dbi : DB) (k newName : String) (r r' : RP) (md : Bool) : (writeBack dbi k newName r r' md).name = dbi.name := by
  unfold writeBack; simp only; split <;> rfl

theorem kn_updateRetentionPolicy (hk : KeysAreNames d) (db rp : String) (u : RPUpdate) :
    KeysAreNames (updateRetentionPolicy d db rp u).1 := by
  unfold updateRetentionPolicy
  split
  · exact hk
  · next dbi hd =>
    have hm := (getDatabase_ok hd).1
    split
    · exact hk
    · next k r hr =>
      have hkr := (DB.getRP_ok hr).1
      have hname : r.name = k := (hk _ hm).2 _ hkr
      split
      · exact hk
      · simp only
        split
        · exact hk
        · intro x hx
          rcases mem_setDB hx with rfl | hx
          · refine ⟨?_, rpsOK_writeBack _ (hk _ hm).2 hname rfl⟩
            simp only [writeBack_name]
          · exact hk x hx

theorem kn_createMeasurement (hk : KeysAreNames d) (pick : Nat) (db rp m : String) (ski : Option ShardKey) (e : Nat) (fs : List FieldReq) :
    KeysAreNames (createMeasurement pick d db rp m ski e fs).1 := by
  unfold createMeasurement
  split
  · exact hk
  · next dbi k r hg =>
    have h := getRP_ok hg
    have hname : r.name = k := (hk _ h.1).2 _ h.2.1
    have hk' : KeysAreNames { d with maxMstID := d.maxMstID + 1 } := kn_of_dbs_eq rfl hk
    simp only
    repeat' split
    all_goals first
      | exact hk
      | exact kn_setRP hk' h.1 hname

theorem kn_alterShardKey (hk : KeysAreNames d) (pick : Nat) (db rp m : String) (ski : Option ShardKey) :
    KeysAreNames (alterShardKey pick d db rp m ski).1 := by
  unfold alterShardKey
  split
  · exact hk
  · next dbi k r hg =>
    have h := getRP_ok hg
    have hname : r.name = k := (hk _ h.1).2 _ h.2.1
    split
    · exact hk
    · split
      · exact hk
      · split
        · exact hk
        · simp only
          split
          · exact hk
          · split
            · exact hk
            · split
              · exact hk
              · exact kn_setRP hk h.1 hname

theorem kn_updateSchema (hk : KeysAreNames d) (db rp m : String) (fs : List FieldReq) : KeysAreNames (updateSchema d db rp m fs).1 := by
  unfold updateSchema
  split
  · exact hk
  · next dbi k r ms hg =>
    have h := getMeasurement_ok hg
    split
    · exact hk
    · exact kn_setRP hk h.1 ((hk _ h.1).2 _ h.2)

theorem kn_markMeasurementDelete (hk : KeysAreNames d) (db rp m : String) : KeysAreNames (markMeasurementDelete d db rp m).1 := by
  unfold markMeasurementDelete
  split
  · exact hk
  · next dbi k r ms hg =>
    have h := getMeasurement_ok hg
    exact kn_setRP hk h.1 ((hk _ h.1).2 _ h.2)

theorem kn_dropMeasurement (hk : KeysAreNames d) (db rp m : String) : KeysAreNames (dropMeasurement d db rp m).1 := by
  unfold dropMeasurement
  split
  · exact hk
  · next dbi k r hg =>
    have h := getRP_ok hg
    exact kn_setRP hk h.1 ((hk _ h.1).2 _ h.2.1)

theorem kn_createShardGroup (hk : KeysAreNames d) (pick : Nat) (db rp : String) (ts : Int) (tier e v : Nat) :
    KeysAreNames (createShardGroup pick d db rp ts tier e v).1 := by
  unfold createShardGroup
  split
  · exact hk
  · split
    · exact hk
    · next dbi k r hg =>
      have h := getRP_ok hg
      have hname : r.name = k := (hk _ h.1).2 _ h.2.1
      split
      · exact hk
      · split
        · exact hk
        · split
          · exact hk
          · have hf := indexGroupFor_facts d r ts e
            simp only
            apply kn_setRP (n := db)
            · exact kn_of_dbs_eq (by simp [hf.1]) hk
            · simpa [hf.1] using h.1
            · simpa [hf.2] using hname

theorem kn_deleteShardGroup (hk : KeysAreNames d) (db rp : String) (id : Nat) (t : Int) : KeysAreNames (deleteShardGroup d db rp id t).1 := by
  unfold deleteShardGroup
  split
  · exact hk
  · next dbi k r hg =>
    have h := getRP_ok hg
    exact kn_setRP hk h.1 ((hk _ h.1).2 _ h.2.1)

theorem kn_deleteIndexGroup (hk : KeysAreNames d) (db rp : String) (id : Nat) : KeysAreNames (deleteIndexGroup d db rp id).1 := by
  unfold deleteIndexGroup
  split
  · exact hk
  · next dbi k r hg =>
    have h := getRP_ok hg
    exact kn_setRP hk h.1 ((hk _ h.1).2 _ h.2.1)

theorem kn_pruneGroups (hk : KeysAreNames d) (sg : Bool) (id : Nat) : KeysAreNames (pruneGroups d sg id).1 := by
  unfold pruneGroups
  split
  · exact kn_mapRPs _ (fun db rp => pruneShardGroupsRP_name id db.markDeleted rp) hk
  · exact kn_mapRPs _ (fun _ _ => rfl) hk

theorem kn_createDataNode (hk : KeysAreNames d) (h t r : String) : KeysAreNames (createDataNode d h t r).1 := by
  unfold createDataNode
  split
  · exact kn_of_dbs_eq rfl hk
  · simp only
    split
    · exact kn_of_dbs_eq rfl hk
    · split <;> exact kn_of_dbs_eq rfl hk

theorem kn_createDbPtView (hk : KeysAreNames d) (db : String) : KeysAreNames (createDbPtView d db).1 := by
  unfold createDbPtView
  split
  · exact hk
  · simp only
    split
    · exact hk
    · exact kn_of_dbs_eq rfl hk

theorem kn_updateShardInfoTier (hk : KeysAreNames d) (s t : Nat) (db rp : String) : KeysAreNames (updateShardInfoTier d s t db rp).1 := by
  unfold updateShardInfoTier
  split
  · exact hk
  · next dbi k r hg =>
    have h := getRP_ok hg
    split
    · exact kn_setRP hk h.1 ((hk _ h.1).2 _ h.2.1)
    · exact hk

theorem kn_createUser (hk : KeysAreNames d) (n h : String) (a rw : Bool) : KeysAreNames (createUser d n h a rw).1 := by
  unfold createUser
  split
  · exact hk
  · split
    · exact hk
    · split
      · exact hk
      · exact kn_of_dbs_eq rfl hk

theorem kn_dropUser (hk : KeysAreNames d) (n : String) : KeysAreNames (dropUser d n).1 := by
  unfold dropUser
  split
  · exact hk
  · split
    · exact hk
    · exact kn_of_dbs_eq rfl hk

theorem kn_updateUser (hk : KeysAreNames d) (n h : String) : KeysAreNames (updateUser d n h).1 := by
  unfold updateUser
  split
  · exact hk
  · split
    · exact hk
    · exact kn_of_dbs_eq rfl hk

theorem kn_setPrivilege (hk : KeysAreNames d) (u db : String) (p : Int) : KeysAreNames (setPrivilege d u db p).1 := by
  unfold setPrivilege
  split
  · exact hk
  · split
    · exact hk
    · exact kn_of_dbs_eq rfl hk

theorem kn_setAdminPrivilege (hk : KeysAreNames d) (u : String) : KeysAreNames (setAdminPrivilege d u).1 := by
  unfold setAdminPrivilege
  split <;> exact hk

theorem kn_applyP (pick : Nat) (hk : KeysAreNames d) (c : Cmd) : KeysAreNames (applyP pick d c).1 := by
  cases c with
  | createDatabase n rp rep => exact kn_createDatabase hk n rp rep
  | dropDatabase n => exact kn_dropDatabase hk n
  | markDatabaseDelete n => exact kn_markDatabaseDelete hk n
  | createRetentionPolicy db s md => exact kn_createRetentionPolicy hk db s md
  | dropRetentionPolicy db rp => exact kn_dropRetentionPolicy hk db rp
  | markRetentionPolicyDelete db rp => exact kn_markRetentionPolicyDelete hk db rp
  | setDefaultRetentionPolicy db rp => exact kn_setDefaultRetentionPolicy hk db rp
  | updateRetentionPolicy db rp u => exact kn_updateRetentionPolicy hk db rp u
  | createMeasurement db rp m ski e fs => exact kn_createMeasurement hk pick db rp m ski e fs
  | alterShardKey db rp m ski => exact kn_alterShardKey hk pick db rp m ski
  | updateSchema db rp m fs => exact kn_updateSchema hk db rp m fs
  | markMeasurementDelete db rp m => exact kn_markMeasurementDelete hk db rp m
  | dropMeasurement db rp m => exact kn_dropMeasurement hk db rp m
  | createShardGroup db rp ts tier e v => exact kn_createShardGroup hk pick db rp ts tier e v
  | deleteShardGroup db rp id t => exact kn_deleteShardGroup hk db rp id t
  | deleteIndexGroup db rp id => exact kn_deleteIndexGroup hk db rp id
  | pruneGroups sg id => exact kn_pruneGroups hk sg id
  | createDataNode h t r => exact kn_createDataNode hk h t r
  | createDbPtView db => exact kn_createDbPtView hk db
  | updateShardInfoTier s t db rp => exact kn_updateShardInfoTier hk s t db rp
  | createUser n h a rw => exact kn_createUser hk n h a rw
  | dropUser n => exact kn_dropUser hk n
  | updateUser n h => exact kn_updateUser hk n h
  | setPrivilege u db p => exact kn_setPrivilege hk u db p
  | setAdminPrivilege u a => exact kn_setAdminPrivilege hk u

theorem kn_apply (hk : KeysAreNames d) (c : Cmd) : KeysAreNames (apply d c).1 := kn_applyP 0 hk c

theorem kn_applyAll (hk : KeysAreNames d) (cs : List Cmd) : KeysAreNames (applyAll d cs) := by
  induction cs generalizing d with
  | nil => exact hk
  | cons c cs ih => exact ih (kn_apply hk c)

end OG.Meta
