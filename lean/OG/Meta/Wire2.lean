/-
Line protocol of the larger model (OG/Meta/Model2.lean): the new command texts and the `E …`
section the dump carries after the first-layer part (written by harness/metax/modeldump.go).
-/
import OG.Meta.Model2

namespace OG.Meta.Wire
open OG.Meta

/-- query texts travel as one token: `_` stands for a blank -/
def untokQuery (s : String) : String := String.ofList (s.toList.map fun c => if c = '_' then ' ' else c)

def parseCmd2 (toks : List String) : Option Cmd2 :=
  match parseCmd toks with
  | some c => some (.base c)
  | none =>
    match toks with
    | ["UpdateIndexInfoTier", id, tier, db, rp] => do some (.updateIndexInfoTier (← id.toNat?) (← tier.toNat?) (untok db) (untok rp))
    | ["UpdatePtVersion", db, pt] => do some (.updatePtVersion (untok db) (← pt.toNat?))
    | ["ReSharding", db, rp, id, t, n] => do some (.reSharding (untok db) (untok rp) (← id.toNat?) (← t.toInt?) (← n.toNat?))
    | ["ExpandGroups"] => some .expandGroups
    | ["MarkTakeover", b] => do some (.markTakeover (← bool01 b))
    | ["MarkBalancer", b] => do some (.markBalancer (← bool01 b))
    | ["CreateSubscription", n, db, rp] => some (.createSubscription (untok n) (untok db) (untok rp))
    | ["DropSubscription", n, db, rp] => some (.dropSubscription (untok n) (untok db) (untok rp))
    | ["CreateContinuousQuery", db, n, q] => some (.createContinuousQuery (untok db) (untok n) (untokQuery q))
    | ["DropContinuousQuery", n, db] => some (.dropContinuousQuery (untok n) (untok db))
    | ["ContinuousQueryReport", n, t] => do some (.continuousQueryReport (untok n) (← t.toInt?))
    | ["CreateStream", n, sdb, srp, sm, ddb, drp, dm, iv] => do
        some (.createStream { name := untok n, id := 0, srcDb := untok sdb, srcRp := untok srp, srcMst := untok sm,
                              dstDb := untok ddb, dstRp := untok drp, dstMst := untok dm, interval := ← iv.toInt?, delay := 0 })
    | ["DropStream", n] => some (.dropStream (untok n))
    | _ => none

def pStream : P Stream := do
  let n ← name; let id ← nat; let sdb ← name; let srp ← name; let sm ← name; let ddb ← name; let drp ← name; let dm ← name
  let iv ← int; let dl ← int
  pure { name := n, id := id, srcDb := sdb, srcRp := srp, srcMst := sm, dstDb := ddb, dstRp := drp, dstMst := dm, interval := iv, delay := dl }

def pSub : P Sub := do
  let n ← name; let m ← name
  pure { name := n, mode := m, dests := subDests }

def pSubEntry : P SubEntry := do
  let db ← name; let rp ← name; let n ← nat; let l ← many pSub n
  pure ((db, rp), l)

def pCQ : P CQ := do
  let n ← name; let q ← tok; let t ← int
  pure { name := n, query := untokQuery q, lastRun := t }

def pCQEntry : P (String × List CQ) := do
  let db ← name; let n ← nat; let l ← many pCQ n
  pure (db, l)

def pExt : P Ext := do
  lit "E"
  let to ← bool; let bal ← bool; let ms ← nat; let msub ← nat; let mcq ← nat
  let streams ← counted "T" pStream
  let subs ← counted "S" pSubEntry
  let cqs ← counted "C" pCQEntry
  pure { takeOver := to, balancer := bal, maxStreamID := ms, streams := streams, maxSubscriptionID := msub, subs := subs,
         maxCQChangeID := mcq, cqs := cqs }

def pData2 : P Data2 := do
  let b ← pData
  let e ← pExt
  pure ⟨b, e⟩

def parseData2 (toks : List String) : Option Data2 :=
  match pData2.run toks with
  | some (d, []) => some d
  | _ => none

def whereDiffer2 (m i : Data2) : String :=
  let w := whereDiffer m.base i.base
  if w ≠ "" then w
  else if m.ext = i.ext then ""
  else if m.ext.streams ≠ i.ext.streams then "ext/streams"
  else if m.ext.subs ≠ i.ext.subs then "ext/subscriptions"
  else if m.ext.cqs ≠ i.ext.cqs then "ext/continuousQueries"
  else "ext/switches-or-counters"

end OG.Meta.Wire
