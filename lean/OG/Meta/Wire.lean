/-
Line protocol of the catalogue model (shared by the C15 and C16 drivers):
  * `parseCmd`  : the text form of a modelled command (written by harness/metax/gen.go)
  * `parseData` : the compact positional dump of the modelled part of `meta.Data`
                  (written by harness/metax/modeldump.go)
Anything malformed is rejected (`none`), never defaulted.
-/
import OG.Meta.Model

namespace OG.Meta.Wire
open OG.Meta

def untok (s : String) : String := if s = "-" then "" else s

def optInt (s : String) : Option (Option Int) :=
  if s = "_" then some none else s.toInt?.map some

def bool01 (s : String) : Option Bool :=
  if s = "1" then some true else if s = "0" then some false else none

/-- `typ:k1,k2` or `_` (no shard key in the command); `-` is the empty type. -/
def parseSki (s : String) : Option (Option ShardKey) :=
  if s = "_" then some none
  else match s.splitOn ":" with
    | [t, ks] => some (some { keys := if ks = "" then [] else ks.splitOn ",", typ := untok t, sgid := 0 })
    | _ => none

/-- `name:typ:end,…` or `_` -/
def parseFields (s : String) : Option (List FieldReq) :=
  if s = "_" then some []
  else (s.splitOn ",").mapM fun f =>
    match f.splitOn ":" with
    | [n, t, e] => do
        let t ← t.toInt?
        let e ← optInt e
        some { name := n, typ := t, endTime := e }
    | _ => none

def parseSpec : List String → Option (RPSpec × List String)
  | name :: rep :: d :: sg :: hot :: warm :: ig :: cold :: merge :: rest => do
      let rep ← rep.toNat?
      let d ← d.toInt?
      let sg ← sg.toInt?
      let hot ← hot.toInt?
      let warm ← warm.toInt?
      let ig ← ig.toInt?
      let cold ← cold.toInt?
      let merge ← merge.toInt?
      some ({ name := untok name, replicaN := rep, duration := d, sgDuration := sg, hot := hot, warm := warm,
              igDuration := ig, indexCold := cold, shardMerge := merge }, rest)
  | _ => none

def parseCmd : List String → Option Cmd
  | "CreateDatabase" :: name :: "rp" :: rest => do
      let (s, rest) ← parseSpec rest
      match rest with
      | [rep] => some (.createDatabase (untok name) (some s) (← rep.toNat?))
      | _ => none
  | ["CreateDatabase", name, "norp", rep] => do some (.createDatabase (untok name) none (← rep.toNat?))
  | ["DropDatabase", n] => some (.dropDatabase (untok n))
  | ["MarkDatabaseDelete", n] => some (.markDatabaseDelete (untok n))
  | "CreateRetentionPolicy" :: db :: def_ :: rest => do
      let (s, rest) ← parseSpec rest
      if rest ≠ [] then none else some (.createRetentionPolicy (untok db) s (← bool01 def_))
  | ["DropRetentionPolicy", db, rp] => some (.dropRetentionPolicy (untok db) (untok rp))
  | ["MarkRetentionPolicyDelete", db, rp] => some (.markRetentionPolicyDelete (untok db) (untok rp))
  | ["SetDefaultRetentionPolicy", db, rp] => some (.setDefaultRetentionPolicy (untok db) (untok rp))
  | ["UpdateRetentionPolicy", db, rp, nn, d, sg, hot, warm, ig, cold, def_] => do
      let u : RPUpdate := { newName := if nn = "_" then none else some (untok nn), duration := ← optInt d, sgDuration := ← optInt sg,
                            hot := ← optInt hot, warm := ← optInt warm, igDuration := ← optInt ig, indexCold := ← optInt cold,
                            makeDefault := ← bool01 def_ }
      some (.updateRetentionPolicy (untok db) (untok rp) u)
  | ["CreateMeasurement", db, rp, m, ski, eng, fs] => do
      some (.createMeasurement (untok db) (untok rp) (untok m) (← parseSki ski) (← eng.toNat?) (← parseFields fs))
  | ["AlterShardKey", db, rp, m, ski] => do some (.alterShardKey (untok db) (untok rp) (untok m) (← parseSki ski))
  | ["UpdateSchema", db, rp, m, fs] => do some (.updateSchema (untok db) (untok rp) (untok m) (← parseFields fs))
  | ["MarkMeasurementDelete", db, rp, m] => some (.markMeasurementDelete (untok db) (untok rp) (untok m))
  | ["DropMeasurement", db, rp, m] => some (.dropMeasurement (untok db) (untok rp) (untok m))
  | ["CreateShardGroup", db, rp, ts, tier, eng, ver] => do
      some (.createShardGroup (untok db) (untok rp) (← ts.toInt?) (← tier.toNat?) (← eng.toNat?) (← ver.toNat?))
  | ["DeleteShardGroup", db, rp, id, typ] => do some (.deleteShardGroup (untok db) (untok rp) (← id.toNat?) (← typ.toInt?))
  | ["DeleteIndexGroup", db, rp, id] => do some (.deleteIndexGroup (untok db) (untok rp) (← id.toNat?))
  | ["PruneGroups", sg, id] => do some (.pruneGroups (← bool01 sg) (← id.toNat?))
  | ["CreateDataNode", h, t, role] => some (.createDataNode h t (untok role))
  | ["CreateDbPtView", db] => some (.createDbPtView (untok db))
  | ["UpdateShardInfoTier", id, tier, db, rp] => do some (.updateShardInfoTier (← id.toNat?) (← tier.toNat?) (untok db) (untok rp))
  | ["CreateUser", n, h, a, rw] => do some (.createUser (untok n) h (← bool01 a) (← bool01 rw))
  | ["DropUser", n] => some (.dropUser (untok n))
  | ["UpdateUser", n, h] => some (.updateUser (untok n) h)
  | ["SetPrivilege", u, db, p] => do some (.setPrivilege (untok u) (untok db) (← p.toInt?))
  | ["SetAdminPrivilege", u, a] => do some (.setAdminPrivilege (untok u) (← bool01 a))
  | _ => none

/-! ### positional state dump -/

abbrev P := StateT (List String) Option

def tok : P String := fun s => match s with | [] => none | t :: r => some (t, r)
def lit (x : String) : P Unit := do let t ← tok; if t = x then pure () else failure
def nat : P Nat := do let t ← tok; match t.toNat? with | some n => pure n | none => failure
def int : P Int := do let t ← tok; match t.toInt? with | some n => pure n | none => failure
def name : P String := do let t ← tok; pure (untok t)
def bool : P Bool := do let t ← tok; match bool01 t with | some b => pure b | none => failure

def many {α : Type} (p : P α) : Nat → P (List α)
  | 0 => pure []
  | n + 1 => do let x ← p; let xs ← many p n; pure (x :: xs)

def counted {α : Type} (tag : String) (p : P α) : P (List α) := do
  lit tag
  let n ← nat
  many p n

def pOwners : P (List Nat) := counted "O" nat

def pIndex : P Index := do
  let id ← nat; let md ← bool; let tier ← nat; let o ← pOwners
  pure { id := id, owners := o, markDelete := md, tier := tier }

def pIG : P IG := do
  let id ← nat; let s ← int; let e ← int; let del ← bool; let eng ← nat; let xs ← counted "X" pIndex
  pure { id := id, start := s, stop := e, deleted := del, engine := eng, indexes := xs }

def pShardKey : P ShardKey := do
  let t ← name; let sg ← nat; let n ← nat; let ks ← many tok n
  pure { keys := ks, typ := t, sgid := sg }

def pField : P SchemaField := do
  let n ← tok; let t ← int; let e ← int
  pure { name := n, typ := t, endTime := e }

def pMst : P Mst := do
  let key ← tok; let id ← nat; let md ← bool; let eng ← nat
  let ks ← counted "K" pShardKey
  let fs ← counted "F" pField
  pure { name := key, id := id, markDeleted := md, engine := eng, shardKeys := ks, schema := fs }

def pVer : P MstVer := do
  let n ← name; let v ← nat
  pure { name := n, version := v }

def pShard : P Shard := do
  let id ← nat; let ix ← nat; let tier ← nat; let md ← bool; let o ← pOwners
  pure { id := id, owners := o, indexID := ix, tier := tier, markDelete := md }

def pSG : P SG := do
  let id ← nat; let s ← int; let e ← int; let del ← bool; let eng ← nat; let ver ← nat; let sh ← counted "S" pShard
  pure { id := id, start := s, stop := e, deleted := del, engine := eng, version := ver, shards := sh }

def pRP : P (String × RP) := do
  let key ← name; let nm ← name; let rep ← nat; let d ← int; let sg ← int; let mg ← int; let hot ← int; let warm ← int
  let cold ← int; let ig ← int; let md ← bool
  let igs ← counted "I" pIG
  let ms ← counted "M" pMst
  let vs ← counted "W" pVer
  let gs ← counted "G" pSG
  pure (key, { name := nm, replicaN := rep, duration := d, sgDuration := sg, shardMergeDuration := mg, hot := hot, warm := warm,
               indexCold := cold, igDuration := ig, indexGroups := igs, msts := ms, mstVersions := vs, shardGroups := gs, markDeleted := md })

def pDB : P (String × DB) := do
  let key ← name; let nm ← name; let def_ ← name; let md ← bool; let rep ← nat
  let rps ← counted "P" pRP
  pure (key, { name := nm, defaultRP := def_, rps := rps, markDeleted := md, replicaN := rep })

def pPt : P Pt := do
  let o ← nat; let s ← nat; let p ← nat; let v ← nat
  pure ⟨o, s, p, v⟩

def pView : P (String × List Pt) := do
  let db ← name; let n ← nat; let pts ← many pPt n
  pure (db, pts)

def pNode : P Node := do
  let id ← nat; let h ← name; let t ← name; let r ← name; let c ← nat
  pure { id := id, host := h, tcpHost := t, role := r, connID := c }

def pPriv : P (String × Int) := do
  let db ← name; let p ← int
  pure (db, p)

def pUser : P User := do
  let n ← name; let h ← name; let a ← bool; let rw ← bool; let ps ← counted "Q" pPriv
  pure { name := n, hash := h, admin := a, rwuser := rw, privileges := ps }

def pData : P Data := do
  lit "D"
  let cpn ← nat; let ppn ← nat; let mn ← nat; let msg ← nat; let ms ← nat; let mm ← nat; let mig ← nat; let mi ← nat; let mc ← nat
  let nodes ← counted "N" pNode
  let views ← counted "V" pView
  let dbs ← counted "B" pDB
  let users ← counted "U" pUser
  pure { clusterPtNum := cpn, ptNumPerNode := ppn, maxNodeID := mn, maxShardGroupID := msg, maxShardID := ms, maxMstID := mm,
         maxIndexGroupID := mig, maxIndexID := mi, maxConnID := mc, dataNodes := nodes, ptView := views, databases := dbs,
         users := users }

def parseData (toks : List String) : Option Data :=
  match pData.run toks with
  | some (d, []) => some d
  | _ => none

/-! ### comparison with the model's state -/

/-- `time.Time.UnixNano()` of an instant outside the int64 range wraps around; the dump
carries the wrapped value, so the model's exact instants are wrapped before comparing. -/
def wrap64 (t : Int) : Int := (t + 9223372036854775808) % 18446744073709551616 - 9223372036854775808

def canonRP (r : RP) : RP :=
  { r with shardGroups := r.shardGroups.map fun g => { g with start := wrap64 g.start, stop := wrap64 g.stop },
           indexGroups := r.indexGroups.map fun g => { g with start := wrap64 g.start, stop := wrap64 g.stop } }

def canon (d : Data) : Data :=
  { d with databases := d.databases.map fun (k, db) => (k, { db with rps := db.rps.map fun (rk, r) => (rk, canonRP r) }) }

/-- where the model's state and the implementation's dump differ ("" = nowhere) -/
def whereDiffer (m i : Data) : String :=
  let m := canon m
  if m = i then ""
  else if m.databases ≠ i.databases then
    let ks := (m.databases.map (·.1)) ++ (i.databases.map (·.1))
    match ks.find? (fun k => alFind k m.databases ≠ alFind k i.databases) with
    | some k =>
      match alFind k m.databases, alFind k i.databases with
      | some a, some b =>
        if a.rps ≠ b.rps then
          let rks := (a.rps.map (·.1)) ++ (b.rps.map (·.1))
          match rks.find? (fun rk => alFind rk a.rps ≠ alFind rk b.rps) with
          | some rk =>
            match alFind rk a.rps, alFind rk b.rps with
            | some x, some y =>
              "db:" ++ k ++ "/rp:" ++ rk ++
                (if x.shardGroups ≠ y.shardGroups then "/shardGroups" else if x.indexGroups ≠ y.indexGroups then "/indexGroups"
                 else if x.msts ≠ y.msts then "/measurements" else if x.mstVersions ≠ y.mstVersions then "/mstVersions" else "/fields")
            | _, _ => "db:" ++ k ++ "/rp:" ++ rk ++ "/presence"
          | none => "db:" ++ k ++ "/rps-order"
        else "db:" ++ k ++ "/fields"
      | _, _ => "db:" ++ k ++ "/presence"
    | none => "databases-order"
  else if m.ptView ≠ i.ptView then "ptView"
  else if m.dataNodes ≠ i.dataNodes then "dataNodes"
  else if m.users ≠ i.users then "users"
  else "counters"

end OG.Meta.Wire
