/-
Catalogue model — association lists with strictly increasing keys: insertion replaces in
place or adds one entry, erasure removes one entry (decomposition lemmas used by the
uniqueness proof of C16).
-/
import OG.Meta.Lemmas

namespace OG.Meta

variable {α : Type}

/-- keys strictly increasing -/
def SortedKeys (l : List (String × α)) : Prop := l.Pairwise (fun a b => a.1 < b.1)

theorem sortedKeys_nil : SortedKeys ([] : List (String × α)) := List.Pairwise.nil

theorem str_lt_of_not {a b : String} (h1 : ¬ a = b) (h2 : ¬ a < b) : b < a :=
  Std.lt_of_le_of_ne h2 fun e => h1 e.symm

theorem sortedKeys_alInsert {k : String} {v : α} : ∀ {l : List (String × α)}, SortedKeys l → SortedKeys (alInsert k v l)
  | [], _ => by simp [alInsert, SortedKeys]
  | (k', v') :: rest, h => by
    unfold SortedKeys at h ⊢
    rw [List.pairwise_cons] at h
    unfold alInsert
    split
    · next he =>
      subst he
      rw [List.pairwise_cons]; exact ⟨h.1, h.2⟩
    · split
      · next hne hlt =>
        rw [List.pairwise_cons]
        refine ⟨?_, List.pairwise_cons.2 h⟩
        intro y hy
        rcases List.mem_cons.1 hy with rfl | hy
        · exact hlt
        · exact String.lt_trans hlt (h.1 y hy)
      · next hne hlt =>
        rw [List.pairwise_cons]
        refine ⟨?_, sortedKeys_alInsert (l := rest) h.2⟩
        intro y hy
        rcases mem_alInsert hy with rfl | hy
        · exact str_lt_of_not (fun e => hne e.symm) hlt
        · exact h.1 y hy

theorem sortedKeys_alErase {k : String} : ∀ {l : List (String × α)}, SortedKeys l → SortedKeys (alErase k l)
  | [], _ => by simp [alErase, SortedKeys]
  | (k', v') :: rest, h => by
    unfold SortedKeys at h ⊢
    rw [List.pairwise_cons] at h
    unfold alErase
    split
    · exact h.2
    · rw [List.pairwise_cons]
      exact ⟨fun y hy => h.1 y (mem_alErase hy), sortedKeys_alErase (l := rest) h.2⟩

theorem sortedKeys_map {β : Type} (f : String → α → β) {l : List (String × α)} (h : SortedKeys l) :
    SortedKeys (l.map fun x => (x.1, f x.1 x.2)) := by
  unfold SortedKeys at *
  rw [List.pairwise_map]
  exact h

/-- in a key-sorted list the entries after the head have larger keys, so a key below the head
is not found -/
theorem alFind_none_of_lt {k : String} : ∀ {l : List (String × α)}, (∀ y ∈ l, k < y.1) → alFind k l = none
  | [], _ => rfl
  | (k', v') :: rest, h => by
    unfold alFind
    have h1 := h (k', v') List.mem_cons_self
    split
    · next he => subst he; exact absurd h1 (String.lt_irrefl _)
    · exact alFind_none_of_lt (fun y hy => h y (List.mem_cons_of_mem _ hy))

/-- present key: insertion replaces the entry in place -/
theorem alInsert_present {k : String} {v old : α} : ∀ {l : List (String × α)}, SortedKeys l → alFind k l = some old →
    ∃ pre post, l = pre ++ (k, old) :: post ∧ alInsert k v l = pre ++ (k, v) :: post
  | [], _, h => by simp [alFind] at h
  | (k', v') :: rest, hs, h => by
    unfold SortedKeys at hs
    rw [List.pairwise_cons] at hs
    unfold alFind at h
    split at h
    · next he =>
      cases h; subst he
      exact ⟨[], rest, rfl, by simp [alInsert]⟩
    · next hne =>
      -- k is further right, hence larger than k'
      have hmem := alFind_mem h
      have hlt : k' < k := hs.1 _ hmem
      obtain ⟨pre, post, h1, h2⟩ := alInsert_present (v := v) (l := rest) hs.2 h
      refine ⟨(k', v') :: pre, post, by rw [h1]; rfl, ?_⟩
      unfold alInsert
      rw [if_neg hne, if_neg (fun hlt' => String.lt_irrefl _ (String.lt_trans hlt hlt'))]
      rw [h2]; rfl

/-- absent key: insertion adds exactly one entry -/
theorem alInsert_absent {k : String} {v : α} : ∀ {l : List (String × α)}, alFind k l = none →
    ∃ pre post, l = pre ++ post ∧ alInsert k v l = pre ++ (k, v) :: post
  | [], _ => ⟨[], [], rfl, by simp [alInsert]⟩
  | (k', v') :: rest, h => by
    unfold alFind at h
    split at h
    · cases h
    · next hne =>
      unfold alInsert
      rw [if_neg hne]
      split
      · exact ⟨[], (k', v') :: rest, rfl, rfl⟩
      · obtain ⟨pre, post, h1, h2⟩ := alInsert_absent (v := v) (l := rest) h
        exact ⟨(k', v') :: pre, post, by rw [h1]; rfl, by rw [h2]; rfl⟩

/-- erasure removes the found entry (and nothing when the key is absent) -/
theorem alErase_present {k : String} {old : α} : ∀ {l : List (String × α)}, alFind k l = some old →
    ∃ pre post, l = pre ++ (k, old) :: post ∧ alErase k l = pre ++ post
  | [], h => by simp [alFind] at h
  | (k', v') :: rest, h => by
    unfold alFind at h
    split at h
    · next he =>
      cases h; subst he
      exact ⟨[], rest, rfl, by simp [alErase]⟩
    · next hne =>
      obtain ⟨pre, post, h1, h2⟩ := alErase_present (l := rest) h
      refine ⟨(k', v') :: pre, post, by rw [h1]; rfl, ?_⟩
      unfold alErase
      rw [if_neg hne, h2]; rfl

theorem alErase_absent {k : String} : ∀ {l : List (String × α)}, alFind k l = none → alErase k l = l
  | [], _ => rfl
  | (k', v') :: rest, h => by
    unfold alFind at h
    split at h
    · cases h
    · next hne =>
      unfold alErase
      rw [if_neg hne, alErase_absent (l := rest) h]

end OG.Meta
