/-
Catalogue model — lemmas about the sorted association lists and the look-up / update helpers
(shared by the C15 and C16 proofs).
-/
import OG.Meta.Model

namespace OG.Meta

variable {α : Type}

theorem alFind_mem {k : String} {v : α} : ∀ {l : List (String × α)}, alFind k l = some v → (k, v) ∈ l
  | [], h => by simp [alFind] at h
  | (k', v') :: rest, h => by
    unfold alFind at h
    split at h
    · next hk => cases h; subst hk; simp
    · exact List.mem_cons_of_mem _ (alFind_mem h)

theorem mem_alInsert {k : String} {v : α} {x : String × α} : ∀ {l : List (String × α)}, x ∈ alInsert k v l → x = (k, v) ∨ x ∈ l
  | [], h => by simp [alInsert] at h; exact Or.inl h
  | (k', v') :: rest, h => by
    unfold alInsert at h
    split at h
    · rcases List.mem_cons.1 h with h | h
      · exact Or.inl h
      · exact Or.inr (List.mem_cons_of_mem _ h)
    · split at h
      · rcases List.mem_cons.1 h with h | h
        · exact Or.inl h
        · exact Or.inr h
      · rcases List.mem_cons.1 h with h | h
        · exact Or.inr (h ▸ List.mem_cons_self)
        · rcases mem_alInsert h with h | h
          · exact Or.inl h
          · exact Or.inr (List.mem_cons_of_mem _ h)

theorem mem_alErase {k : String} {x : String × α} : ∀ {l : List (String × α)}, x ∈ alErase k l → x ∈ l
  | [], h => by simp [alErase] at h
  | (k', v') :: rest, h => by
    unfold alErase at h
    split at h
    · exact List.mem_cons_of_mem _ h
    · rcases List.mem_cons.1 h with h | h
      · exact h ▸ List.mem_cons_self
      · exact List.mem_cons_of_mem _ (mem_alErase h)

/-! ### look-ups -/

theorem getDatabase_ok {d : Data} {n : String} {db : DB} (h : getDatabase d n = .ok db) :
    (n, db) ∈ d.databases ∧ db.markDeleted = false := by
  unfold getDatabase at h
  split at h
  · cases h
  · next dbi hf =>
    split at h
    · cases h
    · next hm =>
      cases h
      exact ⟨alFind_mem hf, by simpa using hm⟩

theorem DB.rp?_mem {db : DB} {n k : String} {r : RP} (h : db.rp? n = some (k, r)) : (k, r) ∈ db.rps := by
  unfold DB.rp? at h
  split at h
  · cases h
  · next k' hk =>
    cases hf : alFind k' db.rps with
    | none => simp [hf] at h
    | some r' =>
      simp [hf] at h
      obtain ⟨rfl, rfl⟩ := h
      exact alFind_mem hf

theorem DB.getRP_ok {db : DB} {n k : String} {r : RP} (h : db.getRP n = .ok (k, r)) : (k, r) ∈ db.rps ∧ r.markDeleted = false := by
  unfold DB.getRP at h
  split at h
  · cases h
  · next k' r' hr =>
    split at h
    · cases h
    · next hm =>
      cases h
      exact ⟨DB.rp?_mem hr, by simpa using hm⟩

theorem getRP_ok {d : Data} {dbn rpn k : String} {dbi : DB} {r : RP} (h : getRP d dbn rpn = .ok (dbi, k, r)) :
    (dbn, dbi) ∈ d.databases ∧ (k, r) ∈ dbi.rps ∧ dbi.markDeleted = false ∧ r.markDeleted = false := by
  unfold getRP at h
  split at h
  · cases h
  · next dbi' hd =>
    split at h
    · cases h
    · next k' r' hr =>
      cases h
      have h1 := getDatabase_ok hd
      have h2 := DB.getRP_ok hr
      exact ⟨h1.1, h2.1, h1.2, h2.2⟩

theorem getMeasurement_ok {d : Data} {dbn rpn m k : String} {dbi : DB} {r : RP} {ms : Mst}
    (h : getMeasurement d dbn rpn m = .ok (dbi, k, r, ms)) :
    (dbn, dbi) ∈ d.databases ∧ (k, r) ∈ dbi.rps := by
  unfold getMeasurement at h
  split at h
  · cases h
  · next dbi' k' r' hg =>
    split at h
    · cases h
    · split at h
      · cases h
      · cases h
        have := getRP_ok hg
        exact ⟨this.1, this.2.1⟩

/-! ### updates -/

theorem mem_setDB {d : Data} {db : DB} {x : String × DB} (h : x ∈ (setDB d db).databases) : x = (db.name, db) ∨ x ∈ d.databases :=
  mem_alInsert h

theorem mem_setRP {d : Data} {dbi : DB} {k : String} {r : RP} {x : String × DB} (h : x ∈ (setRP d dbi k r).databases) :
    x = (dbi.name, { dbi with rps := alInsert k r dbi.rps }) ∨ x ∈ d.databases :=
  mem_alInsert h

end OG.Meta
