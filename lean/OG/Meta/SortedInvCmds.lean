/-
Catalogue model — `KS` (strictly increasing keys at all three levels) is preserved by every
command.
-/
import OG.Meta.SortedInv

namespace OG.Meta

variable {d : Data}

theorem sortedKeys_writeBack {dbi : DB} {k newName : String} {r r' : RP} (md : Bool) (h : SortedKeys dbi.rps) :
    SortedKeys (writeBack dbi k newName r r' md).rps := by
  unfold writeBack
  simp only
  split
  · exact sortedKeys_alInsert (sortedKeys_alErase (sortedKeys_alErase h))
  · exact sortedKeys_alInsert h

theorem mem_writeBack' {dbi : DB} {k newName : String} {r r' : RP} {md : Bool} {kr : String × RP}
    (h : kr ∈ (writeBack dbi k newName r r' md).rps) : kr.2 = r' ∨ kr ∈ dbi.rps := by
  unfold writeBack at h
  simp only at h
  split at h
  · simp only at h
    rcases mem_alInsert h with rfl | h
    · exact Or.inl rfl
    · exact Or.inr (mem_alErase (mem_alErase h))
  · simp only at h
    rcases mem_alInsert h with rfl | h
    · exact Or.inl rfl
    · exact Or.inr h

theorem create_toRP_msts {db : DB} {s : RPSpec} {md : Bool} {r : RP} (h : checkCanCreateRP db s md = .create r) : r.msts = [] := by
  unfold checkCanCreateRP at h
  split at h
  · cases h
  · split at h
    · cases h
    · split at h
      · split at h
        · cases h
        · cases h; rfl
      · split at h
        · cases h
        · split at h <;> cases h

theorem ks_createDatabase (h : KS d) (n rp rep) : KS (createDatabase d n rp rep).1 := by
  unfold createDatabase
  simp only
  repeat' split
  all_goals first
    | exact h
    | (have hm := create_toRP_msts (by assumption)
       apply ks_setDB h
       · exact sortedKeys_alInsert sortedKeys_nil
       · intro y hy
         simp only [DB.setRetentionPolicy] at hy
         rcases mem_alInsert hy with rfl | hy
         · rw [hm]; exact List.Pairwise.nil
         · simp at hy)

theorem ks_dropDatabase (h : KS d) (n) : KS (dropDatabase d n).1 := by
  unfold dropDatabase
  split
  · exact h
  · exact ⟨sortedKeys_alErase h.dbs, fun x hx => h.rps x (mem_alErase hx), fun x hx => h.msts x (mem_alErase hx)⟩

theorem ks_markDatabaseDelete (h : KS d) (n) : KS (markDatabaseDelete d n).1 := by
  unfold markDatabaseDelete
  split
  · exact h
  · next db hf =>
    split
    · exact h
    · exact ks_setDB h (h.rps _ (alFind_mem hf)) (h.msts _ (alFind_mem hf))

theorem ks_createRetentionPolicy (h : KS d) (db s md) : KS (createRetentionPolicy d db s md).1 := by
  unfold createRetentionPolicy
  split
  · exact h
  · next dbi hd =>
    have hm := (getDatabase_ok hd).1
    split
    · exact h
    · exact h
    · next r hr =>
      apply ks_setDB h
      · exact sortedKeys_alInsert (h.rps _ hm)
      · intro y hy
        simp only [DB.setRetentionPolicy] at hy
        rcases mem_alInsert hy with rfl | hy
        · rw [create_toRP_msts hr]; exact List.Pairwise.nil
        · exact h.msts _ hm y hy

theorem ks_dropRetentionPolicy (h : KS d) (db rp) : KS (dropRetentionPolicy d db rp).1 := by
  unfold dropRetentionPolicy
  split
  · exact h
  · next dbi hd =>
    have hm := (getDatabase_ok hd).1
    exact ks_setDB h (sortedKeys_alErase (h.rps _ hm)) (fun y hy => h.msts _ hm y (mem_alErase hy))

theorem ks_setDefaultRetentionPolicy (h : KS d) (db rp) : KS (setDefaultRetentionPolicy d db rp).1 := by
  unfold setDefaultRetentionPolicy
  split
  · exact h
  · next dbi hd =>
    have hm := (getDatabase_ok hd).1
    split
    · exact h
    · exact ks_setDB h (h.rps _ hm) (h.msts _ hm)

theorem ks_updateRetentionPolicy (h : KS d) (db rp u) : KS (updateRetentionPolicy d db rp u).1 := by
  unfold updateRetentionPolicy
  split
  · exact h
  · next dbi hd =>
    have hm := (getDatabase_ok hd).1
    split
    · exact h
    · next k r hr =>
      have hkr := (DB.getRP_ok hr).1
      split
      · exact h
      · simp only
        split
        · exact h
        · apply ks_setDB h (sortedKeys_writeBack _ (h.rps _ hm))
          intro y hy
          rcases mem_writeBack' hy with he | hy
          · rw [he]; exact h.msts _ hm _ hkr
          · exact h.msts _ hm y hy

theorem ks_setRP_cmds (h : KS d) (pick : Nat) :
    (∀ db rp, KS (markRetentionPolicyDelete d db rp).1) ∧
    (∀ db rp m ski e fs, KS (createMeasurement pick d db rp m ski e fs).1) ∧
    (∀ db rp m ski, KS (alterShardKey pick d db rp m ski).1) ∧
    (∀ db rp m fs, KS (updateSchema d db rp m fs).1) ∧
    (∀ db rp m, KS (markMeasurementDelete d db rp m).1) ∧
    (∀ db rp m, KS (dropMeasurement d db rp m).1) ∧
    (∀ db rp id t, KS (deleteShardGroup d db rp id t).1) ∧
    (∀ db rp id, KS (deleteIndexGroup d db rp id).1) ∧
    (∀ s t db rp, KS (updateShardInfoTier d s t db rp).1) := by
  have hr : ∀ {db rp k : String} {dbi : DB} {r : RP}, getRP d db rp = .ok (dbi, k, r) → MstsSorted r.msts :=
    fun hg => h.msts _ (getRP_ok hg).1 _ (getRP_ok hg).2.1
  refine ⟨?_, ?_, ?_, ?_, ?_, ?_, ?_, ?_, ?_⟩
  · intro db rp
    unfold markRetentionPolicyDelete
    split
    · exact h
    · next dbi k r hg => exact ks_setRP h rfl (getRP_ok hg).1 (show MstsSorted r.msts from hr hg)
  · intro db rp m ski e fs
    unfold createMeasurement
    split
    · exact h
    · next dbi k r hg =>
      simp only
      repeat' split
      all_goals first
        | exact h
        | exact ks_setRP (d' := { d with maxMstID := d.maxMstID + 1 }) h rfl (getRP_ok hg).1 (setMst_sorted (hr hg))
  · intro db rp m ski
    unfold alterShardKey
    split
    · exact h
    · next dbi k r hg =>
      split
      · exact h
      · simp only
        repeat' split
        all_goals first
          | exact h
          | exact ks_setRP h rfl (getRP_ok hg).1 (setMst_sorted (hr hg))
  · intro db rp m fs
    unfold updateSchema
    split
    · exact h
    · next dbi k r ms hg =>
      have hm := getMeasurement_ok hg
      split
      · exact h
      · exact ks_setRP h rfl hm.1 (setMst_sorted (h.msts _ hm.1 _ hm.2))
  · intro db rp m
    unfold markMeasurementDelete
    split
    · exact h
    · next dbi k r ms hg =>
      have hm := getMeasurement_ok hg
      exact ks_setRP h rfl hm.1 (setMst_sorted (h.msts _ hm.1 _ hm.2))
  · intro db rp m
    unfold dropMeasurement
    split
    · exact h
    · next dbi k r hg => exact ks_setRP h rfl (getRP_ok hg).1 (mstsSorted_filter (hr hg))
  · intro db rp id t
    unfold deleteShardGroup
    split
    · exact h
    · next dbi k r hg => exact ks_setRP h rfl (getRP_ok hg).1 (show MstsSorted r.msts from hr hg)
  · intro db rp id
    unfold deleteIndexGroup
    split
    · exact h
    · next dbi k r hg => exact ks_setRP h rfl (getRP_ok hg).1 (show MstsSorted r.msts from hr hg)
  · intro s t db rp
    unfold updateShardInfoTier
    split
    · exact h
    · next dbi k r hg =>
      split
      · exact ks_setRP h rfl (getRP_ok hg).1 (show MstsSorted r.msts from hr hg)
      · exact h

theorem indexGroupFor_msts (d : Data) (r : RP) (ts : Int) (e : Nat) :
    (indexGroupFor d r ts e).1.databases = d.databases ∧ (indexGroupFor d r ts e).2.1.msts = r.msts := by
  unfold indexGroupFor
  repeat' split
  all_goals simp [createIndexGroup]

theorem ks_createShardGroup (h : KS d) (pick db rp ts tier e v) : KS (createShardGroup pick d db rp ts tier e v).1 := by
  unfold createShardGroup
  split
  · exact h
  · split
    · exact h
    · next dbi k r hg =>
      split
      · exact h
      · split
        · exact h
        · split
          · exact h
          · have hf := indexGroupFor_msts d r ts e
            generalize indexGroupFor d r ts e = x at hf
            obtain ⟨d1, r1, ig⟩ := x
            simp only at hf ⊢
            apply ks_setRP (d' := _) h (by simpa using hf.1) (getRP_ok hg).1
            show MstsSorted r1.msts
            rw [hf.2]; exact h.msts _ (getRP_ok hg).1 _ (getRP_ok hg).2.1

theorem ks_applyP (pick : Nat) (h : KS d) (c : Cmd) : KS (applyP pick d c).1 := by
  have hc := ks_setRP_cmds h pick
  cases c with
  | createDatabase n rp rep => exact ks_createDatabase h n rp rep
  | dropDatabase n => exact ks_dropDatabase h n
  | markDatabaseDelete n => exact ks_markDatabaseDelete h n
  | createRetentionPolicy db s md => exact ks_createRetentionPolicy h db s md
  | dropRetentionPolicy db rp => exact ks_dropRetentionPolicy h db rp
  | markRetentionPolicyDelete db rp => exact hc.1 db rp
  | setDefaultRetentionPolicy db rp => exact ks_setDefaultRetentionPolicy h db rp
  | updateRetentionPolicy db rp u => exact ks_updateRetentionPolicy h db rp u
  | createMeasurement db rp m ski e fs => exact hc.2.1 db rp m ski e fs
  | alterShardKey db rp m ski => exact hc.2.2.1 db rp m ski
  | updateSchema db rp m fs => exact hc.2.2.2.1 db rp m fs
  | markMeasurementDelete db rp m => exact hc.2.2.2.2.1 db rp m
  | dropMeasurement db rp m => exact hc.2.2.2.2.2.1 db rp m
  | createShardGroup db rp ts tier e v => exact ks_createShardGroup h pick db rp ts tier e v
  | deleteShardGroup db rp id t => exact hc.2.2.2.2.2.2.1 db rp id t
  | deleteIndexGroup db rp id => exact hc.2.2.2.2.2.2.2.1 db rp id
  | pruneGroups sg id =>
    simp only [applyP]; unfold pruneGroups
    split
    · exact ks_mapRPs _ (fun db rp hs => pruneShardGroupsRP_sorted id db.markDeleted rp hs) h
    · exact ks_mapRPs (fun _ rp => { rp with indexGroups := pruneIGs id rp.indexGroups }) (fun _ _ hs => hs) h
  | createDataNode hh t r =>
    simp only [applyP]; unfold createDataNode
    split
    · exact ks_of_eq h rfl
    · simp only
      repeat' split
      all_goals exact ks_of_eq h rfl
  | createDbPtView db =>
    simp only [applyP]; unfold createDbPtView
    split
    · exact h
    · simp only
      split
      · exact h
      · exact ks_of_eq h rfl
  | updateShardInfoTier s t db rp => exact hc.2.2.2.2.2.2.2.2 s t db rp
  | createUser n hh a rw =>
    simp only [applyP]; unfold createUser
    repeat' split
    all_goals first | exact h | exact ks_of_eq h rfl
  | dropUser n =>
    simp only [applyP]; unfold dropUser
    repeat' split
    all_goals first | exact h | exact ks_of_eq h rfl
  | updateUser n hh =>
    simp only [applyP]; unfold updateUser
    repeat' split
    all_goals first | exact h | exact ks_of_eq h rfl
  | setPrivilege u db p =>
    simp only [applyP]; unfold setPrivilege
    repeat' split
    all_goals first | exact h | exact ks_of_eq h rfl
  | setAdminPrivilege u a =>
    simp only [applyP]; unfold setAdminPrivilege
    split <;> exact h

end OG.Meta
