/-
Catalogue model — the association lists of the catalogue (databases, policies of a database,
measurements of a policy) keep strictly increasing keys: an invariant of every command.
-/
import OG.Meta.AssocSorted
import OG.Meta.KeysInvCmds

namespace OG.Meta

/-- measurements of a policy strictly sorted by name -/
def MstsSorted (l : List Mst) : Prop := l.Pairwise (fun a b => a.name < b.name)

structure RPSorted (rp : RP) : Prop where
  msts : MstsSorted rp.msts

/-- all three levels -/
structure KS (d : Data) : Prop where
  dbs : SortedKeys d.databases
  rps : ∀ x ∈ d.databases, SortedKeys x.2.rps
  msts : ∀ x ∈ d.databases, ∀ y ∈ x.2.rps, MstsSorted y.2.msts

theorem ks_init : KS Data.init := ⟨by simp [Data.init, SortedKeys], by simp [Data.init], by simp [Data.init]⟩

theorem mem_insertMst' {m y : Mst} : ∀ {l : List Mst}, y ∈ insertMst m l → y = m ∨ y ∈ l
  | [], h => by simp [insertMst] at h; exact Or.inl h
  | x :: rest, h => by
    unfold insertMst at h
    split at h
    · rcases List.mem_cons.1 h with h | h
      · exact Or.inl h
      · exact Or.inr (List.mem_cons_of_mem _ h)
    · split at h
      · rcases List.mem_cons.1 h with h | h
        · exact Or.inl h
        · exact Or.inr h
      · rcases List.mem_cons.1 h with h | h
        · exact Or.inr (h ▸ List.mem_cons_self)
        · rcases mem_insertMst' h with h | h
          · exact Or.inl h
          · exact Or.inr (List.mem_cons_of_mem _ h)

theorem mstsSorted_insert {m : Mst} : ∀ {l : List Mst}, MstsSorted l → MstsSorted (insertMst m l)
  | [], _ => by simp [insertMst, MstsSorted]
  | x :: rest, h => by
    unfold MstsSorted at h ⊢
    rw [List.pairwise_cons] at h
    unfold insertMst
    split
    · next he =>
      rw [List.pairwise_cons]
      exact ⟨fun y hy => by rw [← he]; exact h.1 y hy, h.2⟩
    · split
      · next hne hlt =>
        rw [List.pairwise_cons]
        refine ⟨?_, List.pairwise_cons.2 h⟩
        intro y hy
        rcases List.mem_cons.1 hy with rfl | hy
        · exact hlt
        · exact String.lt_trans hlt (h.1 y hy)
      · next hne hlt =>
        rw [List.pairwise_cons]
        refine ⟨?_, mstsSorted_insert (l := rest) h.2⟩
        intro y hy
        rcases mem_insertMst' hy with rfl | hy
        · exact str_lt_of_not (fun e => hne e.symm) hlt
        · exact h.1 y hy

theorem mstsSorted_filter {p : Mst → Bool} {l : List Mst} (h : MstsSorted l) : MstsSorted (l.filter p) :=
  List.Pairwise.filter p h

theorem mstsSorted_map_same {f : Mst → Mst} (hf : ∀ m, (f m).name = m.name) {l : List Mst} (h : MstsSorted l) : MstsSorted (l.map f) := by
  unfold MstsSorted at *
  rw [List.pairwise_map]
  exact h.imp (fun hab => by rw [hf, hf]; exact hab)

/-! ### generic steps -/

theorem ks_setDB {d : Data} {db : DB} (h : KS d) (h1 : SortedKeys db.rps) (h2 : ∀ y ∈ db.rps, MstsSorted y.2.msts) : KS (setDB d db) := by
  refine ⟨sortedKeys_alInsert h.dbs, ?_, ?_⟩
  · intro x hx
    rcases mem_setDB hx with rfl | hx
    · exact h1
    · exact h.rps x hx
  · intro x hx
    rcases mem_setDB hx with rfl | hx
    · exact h2
    · exact h.msts x hx

theorem ks_setRP {d d' : Data} {n k : String} {dbi : DB} {r : RP} (h : KS d) (hdbs : d'.databases = d.databases)
    (hd : (n, dbi) ∈ d.databases) (hr : MstsSorted r.msts) : KS (setRP d' dbi k r) := by
  have h' : KS d' := ⟨by rw [hdbs]; exact h.dbs, by rw [hdbs]; exact h.rps, by rw [hdbs]; exact h.msts⟩
  unfold setRP
  apply ks_setDB h'
  · exact sortedKeys_alInsert (h.rps _ hd)
  · intro y hy
    rcases mem_alInsert hy with rfl | hy
    · exact hr
    · exact h.msts _ hd y hy

theorem ks_of_eq {d d' : Data} (h : KS d) (hdbs : d'.databases = d.databases) : KS d' :=
  ⟨by rw [hdbs]; exact h.dbs, by rw [hdbs]; exact h.rps, by rw [hdbs]; exact h.msts⟩

theorem ks_mapRPs {d : Data} (f : DB → RP → RP) (hf : ∀ db rp, MstsSorted rp.msts → MstsSorted (f db rp).msts) (h : KS d) : KS (mapRPs f d) := by
  refine ⟨?_, ?_, ?_⟩
  · exact sortedKeys_map (fun _ db => { db with rps := db.rps.map fun (rk, rp) => (rk, f db rp) }) h.dbs
  · intro x hx
    simp only [mapRPs, List.mem_map] at hx
    obtain ⟨⟨k, db⟩, hm, rfl⟩ := hx
    exact sortedKeys_map (fun _ rp => f db rp) (h.rps _ hm)
  · intro x hx y hy
    simp only [mapRPs, List.mem_map] at hx
    obtain ⟨⟨k, db⟩, hm, rfl⟩ := hx
    simp only [List.mem_map] at hy
    obtain ⟨⟨rk, rp⟩, hm2, rfl⟩ := hy
    exact hf db rp (h.msts _ hm _ hm2)

theorem setMst_sorted {r : RP} {m : Mst} (h : MstsSorted r.msts) : MstsSorted (r.setMst m).msts := mstsSorted_insert h

theorem schemaClean_name (m : Mst) (e : Int) : (m.schemaClean e).1.name = m.name := by
  unfold Mst.schemaClean; split <;> rfl

theorem schemaCleanAll_sorted (rp : RP) (b : Bool) (e : Int) (h : MstsSorted rp.msts) : MstsSorted (rp.schemaCleanAll b e).msts := by
  unfold RP.schemaCleanAll
  simp only
  have h1 : MstsSorted ((rp.msts.map fun m => m.schemaClean e).map (·.1)) := by
    rw [List.map_map]
    exact mstsSorted_map_same (fun m => schemaClean_name m e) h
  split
  · exact h1
  · generalize ((List.map (fun m => m.schemaClean e) rp.msts).filter _).map _ = l
    generalize hr : ({ rp with msts := _ } : RP) = r0
    have h0 : MstsSorted r0.msts := by subst hr; exact h1
    clear hr
    induction l generalizing r0 with
    | nil => simpa using h0
    | cons o l ih =>
      simp only [List.foldl_cons]
      apply ih
      split
      · split
        · exact h0
        · exact setMst_sorted h0
      · exact h0

theorem pruneShardGroupsRP_sorted (id : Nat) (b : Bool) (rp : RP) (h : MstsSorted rp.msts) : MstsSorted (pruneShardGroupsRP id b rp).msts := by
  unfold pruneShardGroupsRP
  simp only
  split
  · exact h
  · exact schemaCleanAll_sorted _ _ _ h

end OG.Meta
