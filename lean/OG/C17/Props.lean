/-
C17 — property theorems.

Property: "the on-disk raft log answers first index, last index, term-of-index and
entries-in-range exactly as the sequence of entries saved so far dictates: appending at an
index that already exists discards that entry and everything after it, compacted prefixes
report 'compacted', ranges beyond the end report 'unavailable', the saved hard state and
snapshot are returned unchanged — also after the store is closed (or the process dies) and
the directory is opened again."

All theorems are about the model of the *repaired* code (`OG.Gen.C17.clearRotLen` is the
regenerated size of the zeroing write; with the unrepaired size `FileRep.zeroSlice` and
therefore `refinement_step` do not go through) and hold for every geometry with
`cap ≥ 1` whose slot table ends before the data area (`Params.WF`).
-/
import OG.C17.Lemmas.Steps

namespace OG.C17
open OG.Gen.C17 (goParams)

variable {p : Params}

/-- the Go constants are a well-formed geometry -/
theorem goParams_wf : goParams.WF := by
  constructor <;> decide

theorem inv_init (hp : p.WF) : Inv p (initState p) :=
  ⟨1, [], [], ⟨Chain.nil p 1, FileRep.new hp 1, Seq.nil _, rfl, fun _ => rfl, by simp [initState, newFile],
    fun f hf => by simp [initState] at hf, rfl, ⟨rfl, rfl⟩, Nat.le_refl 1⟩⟩

theorem abs_init (hp : p.WF) : abs p (initState p) = SpecState.init := by
  obtain ⟨a, ess, ec, r⟩ := inv_init hp
  have hec : ec = [] := by
    have := r.next_eq; simp [initState] at this
    exact List.eq_nil_of_length_eq_zero this.symm
  have hess := r.curNe hec
  subst hec; subst hess
  rw [r.abs_eq hp]; rfl

/-- the store keeps its invariant under every operation raft may issue, and a `Save` does
entries, hard state and snapshot each on its own (`saveKeep`) — installs included -/
theorem save_abs (hp : p.WF) (s : State) (hinv : Inv p s) (hs : Option HardState) (ents : List Entry) (sn : Option Snapshot)
    (hok : SaveOK p (abs p s) ents) :
    Inv p (save p s hs ents sn) ∧ abs p (save p s hs ents sn) = (abs p s).saveKeep hs ents sn := by
  obtain ⟨a, ess, ec, r⟩ := hinv
  rw [r.abs_eq hp] at hok ⊢
  obtain ⟨a', ess', ec', r', h⟩ := r.save_ok hp hs ents sn hok
  exact ⟨⟨a', ess', ec', r'⟩, by rw [r'.abs_eq hp]; exact h⟩

/-- **T1 (refinement, one step) — `_partial`** every operation keeps the invariant and is a
step of the specification: `abs (step s op)` is what the spec allows after `op` from `abs s`.
The hypothesis `OpOK` is what raft guarantees about a `Save` plus `noInstall`, which excludes
exactly the known finding `snapshot_install_keeps_old_entries` (see `refinement_step_full`). -/
theorem refinement_step (hp : p.WF) (s : State) (hinv : Inv p s) (op : Op) (hop : OpOK p (abs p s) op) :
    Inv p (step p s op) ∧ (abs p s).next op (abs p (step p s op)) := by
  cases op with
  | save hs ents sn =>
    obtain ⟨h1, h2⟩ := save_abs hp s hinv hs ents sn hop.1
    simp only [step, SpecState.next]
    exact ⟨h1, by rw [h2, (abs p s).save_eq_keep hs ents sn hop.2]⟩
  | mksnap i sn =>
    obtain ⟨a, ess, ec, r⟩ := hinv
    rw [r.abs_eq hp]
    obtain ⟨hok, herr⟩ := r.mksnap_ok i sn
    simp only [step, SpecState.next]
    match hc : (absOf a ess ec s.mt).createSnapshot i sn with
    | .ok σ' =>
      obtain ⟨s', h1, h2, h3⟩ := hok σ' hc
      rw [h1]
      exact ⟨⟨a, ess, ec, h2⟩, by rw [h2.abs_eq hp]; exact h3⟩
    | .error e =>
      rw [herr e hc]
      exact ⟨⟨a, ess, ec, r⟩, by rw [r.abs_eq hp]⟩
  | delBefore i =>
    obtain ⟨a, ess, ec, r⟩ := hinv
    rw [r.abs_eq hp]
    obtain ⟨a', ess', r', f', h1, h2⟩ := r.delete_before i
    exact ⟨⟨a', ess', ec, r'⟩, f', h1, by rw [r'.abs_eq hp]; exact h2⟩
  | reopen =>
    obtain ⟨a, ess, ec, r⟩ := hinv
    rw [r.abs_eq hp]
    obtain ⟨s', h0, a', ess', r', f', h1, h2⟩ := r.reopen_ok hp
    simp only [step, h0]
    exact ⟨⟨a', ess', ec, r'⟩, f', h1, by rw [r'.abs_eq hp]; exact h2⟩

/-- a small geometry: 2 slots per file -/
def p0 : Params := { cap := 2, dataOff := 100, maxSize := 140 }
theorem p0_wf : p0.WF := by constructor <;> decide

/-- **T1 at full strength** (no `noInstall`): every `Save` raft may issue, snapshot installs
included, is a step of the specification. -/
def refinement_step_full (p : Params) : Prop :=
  ∀ (s : State), Inv p s → ∀ (op : Op), OpOKBase p (abs p s) op →
    Inv p (step p s op) ∧ (abs p s).next op (abs p (step p s op))

/-- The store violates the full statement (known finding `snapshot_install_keeps_old_entries`):
saving a snapshot with index 5 into an empty store must leave FirstIndex = 6 (the log is
replaced by the snapshot); the store answers 1.  With entries present the real store keeps
serving them and, after the next append, returns a range with a gap — probed on the real code:
save 1…50, save snapshot 100, save 101…102, `Entries(45,103)` = 45…50,101,102. -/
theorem refinement_step_full_fails : ¬ refinement_step_full p0 := by
  intro h
  have hok : SaveOK p0 (abs p0 (initState p0)) [] :=
    ⟨fun e he => by simp at he, fun e0 rest h => by simp at h, fun e0 rest h => by simp at h⟩
  have h1 := (h (initState p0) (inv_init p0_wf) (.save none [] (some ⟨5, 1, true, "e", "e"⟩)) hok).2
  have h2 := (save_abs p0_wf (initState p0) (inv_init p0_wf) none [] (some ⟨5, 1, true, "e", "e"⟩) hok).2
  simp only [SpecState.next, step] at h1
  rw [h2, abs_init p0_wf] at h1
  have := congrArg SpecState.first h1
  revert this
  decide

/-- **T1 (answers)** in every reachable state FirstIndex, LastIndex, Term(i) and
Entries(lo,hi,maxSize) — values, `compacted`, `unavailable`, size limit — are the spec's. -/
theorem refinement_answers (hp : p.WF) (s : State) (hinv : Inv p s) :
    firstIndex s = (abs p s).firstIndex ∧ lastIndex p s = (abs p s).lastIndex ∧
    (∀ i, term p s i = (abs p s).term i) ∧
    (∀ lo hi max, (entries p s lo hi max).map Array.toList = (abs p s).entries lo hi max) := by
  obtain ⟨a, ess, ec, r⟩ := hinv
  rw [r.abs_eq hp]
  exact ⟨r.firstIndex_eq, r.lastIndex_eq, r.term_eq, r.entries_eq hp⟩

/-- `CreateSnapshot` succeeds, or fails with `ErrSnapOutOfDate` / `ErrUnavailable`, exactly when the spec says -/
theorem refinement_mksnap_result (hp : p.WF) (s : State) (hinv : Inv p s) (i : Nat) (sn : Snapshot) :
    (createSnapshot p s i sn).toOption.isSome = ((abs p s).createSnapshot i sn).toOption.isSome ∧
    (∀ e, (abs p s).createSnapshot i sn = .error e → createSnapshot p s i sn = .error e) := by
  obtain ⟨a, ess, ec, r⟩ := hinv
  rw [r.abs_eq hp]
  obtain ⟨hok, herr⟩ := r.mksnap_ok i sn
  refine ⟨?_, herr⟩
  match hc : (absOf a ess ec s.mt).createSnapshot i sn with
  | .ok σ' => obtain ⟨s', h1, _, _⟩ := hok σ' hc; rw [h1]; rfl
  | .error e => rw [herr e hc]; rfl

/-- a history all of whose saves respect what raft guarantees (and install no snapshot) -/
def TraceOK (p : Params) : State → List Op → Prop
  | _, [] => True
  | s, op :: ops => OpOK p (abs p s) op ∧ TraceOK p (step p s op) ops

/-- a run of the specification -/
inductive SpecRun : SpecState → List Op → SpecState → Prop
  | nil (σ : SpecState) : SpecRun σ [] σ
  | cons {σ σ' σ'' : SpecState} {op : Op} {ops : List Op} : σ.next op σ' → SpecRun σ' ops σ'' → SpecRun σ (op :: ops) σ''

/-- **T1 (refinement, every op sequence)** for every sequence of saves, snapshot creations,
prefix deletions and reopens — reopen placed anywhere — the abstract state of the store
follows a run of the specification, and the invariant (hence `refinement_answers`) holds at
the end. -/
theorem refinement_trace (hp : p.WF) : ∀ (ops : List Op) (s : State), Inv p s → TraceOK p s ops →
    Inv p (run p s ops) ∧ SpecRun (abs p s) ops (abs p (run p s ops)) := by
  intro ops
  induction ops with
  | nil => intro s h _; exact ⟨h, SpecRun.nil _⟩
  | cons op ops ih =>
    intro s h ht
    obtain ⟨h1, h2⟩ := refinement_step hp s h op ht.1
    obtain ⟨h3, h4⟩ := ih (step p s op) h1 ht.2
    exact ⟨h3, SpecRun.cons h2 h4⟩

/-- from a fresh directory -/
theorem refinement_from_init (hp : p.WF) (ops : List Op) (ht : TraceOK p (initState p) ops) :
    Inv p (run p (initState p) ops) ∧ SpecRun SpecState.init ops (abs p (run p (initState p) ops)) := by
  have := refinement_trace hp ops (initState p) (inv_init hp) ht
  rwa [abs_init hp] at this

theorem SpecState.save_ents (σ : SpecState) (hs : Option HardState) (new : List Entry) (sn : Option Snapshot) :
    (σ.saveKeep hs new sn).ents = (σ.append new).ents ∧ (σ.saveKeep hs new sn).first = (σ.append new).first := by
  simp only [SpecState.saveKeep, SpecState.setSnapshot, SpecState.setHardState]
  cases sn with
  | none => cases hs with
    | none => exact ⟨rfl, rfl⟩
    | some x => by_cases hh : x.isEmpty <;> simp [hh]
  | some y => cases hs with
    | none => by_cases hv : y.isValid <;> simp [hv]
    | some x => by_cases hh : x.isEmpty <;> by_cases hv : y.isValid <;> simp [hh, hv]

/-- **T2** appending at an index that already exists discards that entry and everything
after it: the log afterwards is the old entries below that index followed by the new ones;
nothing at or above the first new index survives from before. -/
theorem append_conflict_truncates (hp : p.WF) (s : State) (hinv : Inv p s) (hs : Option HardState) (e0 : Entry)
    (rest : List Entry) (sn : Option Snapshot) (hok : SaveOK p (abs p s) (e0 :: rest)) (hne : (abs p s).ents ≠ []) :
    (abs p (save p s hs (e0 :: rest) sn)).ents = (abs p s).ents.take (e0.index - (abs p s).first) ++ (e0 :: rest) ∧
    (abs p (save p s hs (e0 :: rest) sn)).first = (abs p s).first ∧
    (∀ e ∈ (abs p s).ents.take (e0.index - (abs p s).first), e.index < e0.index) := by
  have h := (save_abs hp s hinv hs (e0 :: rest) sn hok).2
  obtain ⟨a, ess, ec, r⟩ := hinv
  have hemp : (abs p s).ents.isEmpty = false := by simp [hne]
  rw [h]
  have happ : (abs p s).append (e0 :: rest) =
      { (abs p s) with ents := (abs p s).ents.take (e0.index - (abs p s).first) ++ (e0 :: rest) } := by
    simp [SpecState.append, hemp]
  refine ⟨?_, ?_, ?_⟩
  · rw [((abs p s).save_ents hs (e0 :: rest) sn).1, happ]
  · rw [((abs p s).save_ents hs (e0 :: rest) sn).2, happ]
  · rw [r.abs_eq hp] at hne ⊢
    intro e he
    have hec : ec ≠ [] := fun h => hne (by simp [absOf, r.all_nil_iff.mpr h])
    simp only [absOf, hec, if_false] at he ⊢
    obtain ⟨i, hi, rfl⟩ := List.getElem_of_mem he
    have hi' : i < e0.index - a ∧ i < (ess.flatten ++ ec).length := by
      rw [List.length_take] at hi; omega
    rw [List.getElem_take]
    have := r.seqAll i hi'.2
    omega

/-- recomputing the in-memory state from the directory alone gives back the same abstract
state, exactly -/
theorem recompute_from_disk_exact (hp : p.WF) (s : State) (hinv : Inv p s) :
    Inv p (openEntryLogs p (s.files ++ [s.current]) s.mt) ∧
      abs p (openEntryLogs p (s.files ++ [s.current]) s.mt) = abs p s := by
  obtain ⟨a, ess, ec, r⟩ := hinv
  by_cases hec : ec = []
  · have r0 := r.open_empty hp hec
    have hess := r.curNe hec
    have hmt : (openEntryLogs p (s.files ++ [s.current]) s.mt).mt = s.mt := by
      simp only [openEntryLogs]; split <;> rfl
    subst hec; subst hess
    exact ⟨⟨a, [], [], r0⟩, by rw [r0.abs_eq hp, r.abs_eq hp, hmt]⟩
  · rw [r.open_eq hec]; exact ⟨⟨a, ess, ec, r⟩, rfl⟩

/-- **T3** close (or die) and open again: `Init` succeeds, the invariant holds, and the
abstract state is the one before — except that the prefix deletion `Init` re-applies may
drop whole files below the snapshot index, which the spec allows (`mayCompactTo`). -/
theorem reopen_preserves_abs (hp : p.WF) (s : State) (hinv : Inv p s) :
    ∃ s', reopen p s = .ok s' ∧ Inv p s' ∧
      ∃ f', (abs p s).mayCompactTo (abs p s).snap.index f' ∧ abs p s' = (abs p s).compactTo f' := by
  obtain ⟨a, ess, ec, r⟩ := hinv
  obtain ⟨s', h0, a', ess', r', f', h1, h2⟩ := r.reopen_ok hp
  rw [r.abs_eq hp]
  exact ⟨s', h0, ⟨a', ess', ec, r'⟩, f', h1, by rw [r'.abs_eq hp]; exact h2⟩

/-- **T3'** with no deletion pending (snapshot index below the first retained index, e.g. no
snapshot yet) reopening changes nothing at all -/
theorem reopen_preserves_abs_exact (hp : p.WF) (s : State) (hinv : Inv p s)
    (hsi : (abs p s).snap.index < (abs p s).first) :
    ∃ s', reopen p s = .ok s' ∧ Inv p s' ∧ abs p s' = abs p s := by
  obtain ⟨s', h0, h1, f', ⟨hf1, hf2⟩, h3⟩ := reopen_preserves_abs hp s hinv
  refine ⟨s', h0, h1, ?_⟩
  have : f' = (abs p s).first := by
    rcases hf2 with h | ⟨h, _⟩
    · exact h
    · omega
  rw [h3, this]
  simp [SpecState.compactTo]

/-- **T4** the saved hard state and snapshot are what the store returns (`abs.hs`/`abs.snap`
are `HardState()`/`Snapshot()` of the model), and reopening, appending, deleting do not
change them. -/
theorem hardstate_snapshot_returned_unchanged (s : State) (hinv : Inv p s) :
    (∀ h ents sn, h.isEmpty = false → (save p s (some h) ents sn).mt.hs = h) ∧
    (∀ hs ents sn, sn.isValid = true → (save p s hs ents (some sn)).mt.snap = sn) ∧
    (∀ ents, (save p s none ents none).mt = s.mt) ∧
    (∀ i, (step p s (.delBefore i)).mt = s.mt) ∧
    (∀ s', reopen p s = .ok s' → s'.mt = s.mt) ∧
    (abs p s).hs = s.mt.hs ∧ (abs p s).snap = s.mt.snap := by
  refine ⟨?_, ?_, ?_, ?_, ?_, rfl, rfl⟩
  · intro h ents sn hh
    simp only [save, addEntries_mt, storeHardState, hh, Bool.false_eq_true, if_false]
    unfold storeSnapshot
    split
    · rfl
    · split <;> rfl
  · intro hs ents sn hv
    simp [save, storeSnapshot, hv]
  · intro ents
    simp [save, addEntries_mt, storeSnapshot, storeHardState]
  · intro i; exact step_delBefore_mt s i
  · intro s' h
    obtain ⟨a, ess, ec, r⟩ := hinv
    have hmt : (openEntryLogs p (s.files ++ [s.current]) s.mt).mt = s.mt := by
      simp only [openEntryLogs]; split <;> rfl
    rw [reopen_eq s (by rw [hmt]; exact r.mtOK.1)] at h
    cases h
    rw [step_delBefore_mt, hmt]

/-- **T3⁻ (the code as it was)** with the zero buffer sized `dataOff − 32·k` — four bytes
longer, the size `AddEntries` used before the repair — the zeroing `WriteSlice` of a
re-activated file runs into the data area and clears the length prefix of the first payload:
whatever the first entry of the file held, it reads back empty from the file.  (The real store
served the old payload from its slot cache until the next reopen.) -/
theorem zeroing_asWritten_loses_first_payload (hp : p.WF) (f : LogFile) (e : Entry) (es : List Entry)
    (r : FileRep p f (e :: es)) (k : Nat) (hk : k < p.cap) :
    readSlice p (writeZeroSlice p f k (p.dataOff - 32 * k)) p.dataOff = ByteArray.empty := by
  have htf := hp.table_fits
  have hsz : 4 ≤ f.data.size := by
    have := r.data_size_ge; rw [total_cons] at this; omega
  have hdata : (writeZeroSlice p f k (p.dataOff - 32 * k)).data = bwrite f.data 0 (zeros 4) := by
    simp only [writeZeroSlice, entrySize_eq, unit32Size_eq]
    have h1 : 32 * k + 4 + (p.dataOff - 32 * k) > p.dataOff := by omega
    have h2 : ¬ (32 * k + 4 > p.dataOff) := by omega
    simp only [h1, if_true, h2, if_false, Nat.sub_self]
    congr 2; omega
  have hl : toL (bwrite f.data 0 (zeros 4)) = [0, 0, 0, 0] ++ (toL f.data).drop 4 := by
    rw [toL_bwrite _ (Nat.zero_le _), toL_zeros, zeros_size]; simp [List.replicate]
  have hrd : rd32 (bwrite f.data 0 (zeros 4)) 0 = some 0 := by
    apply rd32_of_prefix (by omega)
    rw [hl, toL_be32]; rfl
  have hlen : 4 ≤ (bwrite f.data 0 (zeros 4)).size := by
    rw [bwrite_size_ge _ (Nat.zero_le _), zeros_size]; omega
  simp only [readSlice, Nat.lt_irrefl, if_false, Nat.sub_self, hdata, hrd]
  simp only [Nat.add_zero, Nat.zero_add, hlen, if_true]
  apply toL_inj
  rw [toL_extract, toL_empty]; simp

/-! ### non-vacuity -/


def ent (t i : Nat) (d : List UInt8) : Entry := ⟨t, i, 0, ⟨d.toArray⟩⟩

theorem ent_ok (t i : Nat) (d : List UInt8) (h1 : t < 100) (h2 : 1 ≤ i ∧ i < 100) (h3 : d.length < 20) :
    (ent t i d).OK := by
  have hs : (ent t i d).data.size = d.length := by simp [ent, ByteArray.size]
  exact ⟨by simp [ent]; omega, by simp [ent]; omega, by simp [ent]; omega, by simp [ent], by rw [hs]; omega⟩

/-- three entries into the empty store (the third rolls into a second file) … -/
def save1 : List Entry := [ent 1 1 [7], ent 1 2 [8, 9], ent 1 3 []]
/-- … then a conflicting save at index 2, which lives in the first, rotated file -/
def save2 : List Entry := [ent 2 2 [5], ent 2 3 [6]]

theorem save1_ok : SaveOK p0 (abs p0 (initState p0)) save1 := by
  rw [abs_init p0_wf]
  refine ⟨?_, ?_, ?_⟩
  · intro e he
    simp only [save1, List.mem_cons, List.mem_nil_iff, or_false] at he
    rcases he with rfl | rfl | rfl <;> exact ent_ok _ _ _ (by decide) (by decide) (by decide)
  · intro e0 rest h
    simp only [save1, List.cons.injEq] at h
    obtain ⟨rfl, rfl⟩ := h
    intro i hi
    match i, hi with
    | 0, _ => rfl
    | 1, _ => rfl
    | 2, _ => rfl
  · intro e0 rest _ h; exact absurd rfl h

/-- the abstract state after the first save, by the refinement theorem (not by evaluation) -/
theorem abs_after_save1 : (abs p0 (save p0 (initState p0) none save1 none)).ents = save1 ∧
    (abs p0 (save p0 (initState p0) none save1 none)).first = 1 := by
  have h := (save_abs p0_wf (initState p0) (inv_init p0_wf) none save1 none save1_ok).2
  rw [h, abs_init p0_wf]
  exact ⟨rfl, rfl⟩

/-- the hypotheses of T1/T2 are satisfiable on a history with a conflict into a rotated file -/
example : SaveOK p0 (abs p0 (save p0 (initState p0) none save1 none)) save2 := by
  obtain ⟨h1, h2⟩ := abs_after_save1
  refine ⟨?_, ?_, ?_⟩
  · intro e he
    simp only [save2, List.mem_cons, List.mem_nil_iff, or_false] at he
    rcases he with rfl | rfl <;> exact ent_ok _ _ _ (by decide) (by decide) (by decide)
  · intro e0 rest h
    simp only [save2, List.cons.injEq] at h
    obtain ⟨rfl, rfl⟩ := h
    intro i hi
    match i, hi with
    | 0, _ => rfl
    | 1, _ => rfl
  · intro e0 rest h _
    simp only [save2, List.cons.injEq] at h
    obtain ⟨rfl, rfl⟩ := h
    rw [h1, h2]
    decide

example : Inv goParams (initState goParams) := inv_init goParams_wf

end OG.C17
