/-
C17 — expectations about the regenerated facts.  Each theorem compares what ogfacts
extracted from /repo *now* with what the hand-written model was written against: the file
geometry, the sizes/offsets of the two zeroing writes of `AddEntries`, the rotation
condition, and a fingerprint of every function the model transcribes.  A failure here means
the modelled source changed: the correspondence run then decides whether the property
still holds (and supplies the replay).
-/
import OG.C17.Model

namespace OG.C17.Facts
open OG.Gen.C17

theorem generation_ok : generationFailed = false := by rfl

theorem goParams_expected : goParams = { cap := 30000, dataOff := 1048576, maxSize := 33554432 } := by rfl
theorem entrySize_expected : entrySize = 32 := by rfl
theorem unit32Size_expected : unit32Size = 4 := by rfl
theorem metaLayout_expected : (metaFileSize, hardStateOffset, snapshotIndex, snapshotOffset) = (1048576, 512, 1024, 1040) := by rfl

/-- conflict inside the current file: `WriteSlice(lastIdx, l.nextEntryIdx, 32·lastIdx, make([]byte, 32·next − 32·lastIdx), …)` -/
theorem clearCur_expected (p : OG.C17.Params) (n k : Int) :
    clearCurOff p n k = 32 * k ∧ clearCurLen p n k = 32 * n - 32 * k ∧ clearCurSlots = ("lastIdx", "l.nextEntryIdx") :=
  ⟨rfl, rfl, rfl⟩

/-- conflict inside a rotated file (repaired): length prefix + zeros end exactly at `dataOff` -/
theorem clearRot_expected (p : OG.C17.Params) (k : Int) :
    clearRotOff p k = 32 * k ∧ clearRotLen p k = (p.dataOff : Int) - 32 * k - 4 ∧ clearRotSlots = ("lastIdx", "maxNumEntries") :=
  ⟨rfl, rfl, rfl⟩

theorem needRotate_expected (p : OG.C17.Params) (n o d : Int) :
    needRotate p n o d = (decide (n ≥ (p.cap : Int)) || (decide (n > 0) && decide (o + 4 + d > (p.maxSize : Int)))) := rfl

theorem nextOffset_expected (o d : Int) : nextOffset o d = o + 4 + d := rfl

theorem returns_Term_expected : returns_Term = ["0, raft.ErrCompacted", "rds.meta.Uint(SnapshotTerm), nil", "term, err"] := by rfl
theorem returns_Entries_expected : returns_Entries = ["nil, raft.ErrCompacted", "nil, raft.ErrUnavailable", "ents, nil"] := by rfl
theorem returns_LastIndex_expected : returns_LastIndex = ["si, nil", "li, nil"] := by rfl
theorem returns_CreateSnapshot_expected : returns_CreateSnapshot = ["raft.ErrSnapOutOfDate", "err", "err", "nil"] := by rfl
theorem returns_Save_expected : returns_Save = ["err", "err", "err", "nil"] := by rfl
theorem returns_seekEntry_expected : returns_seekEntry = ["emptyEntry, nil", "emptyEntry, raft.ErrUnavailable", "emptyEntry, raft.ErrCompacted", "emptyEntry, raft.ErrUnavailable", "emptyEntry, raft.ErrUnavailable", "emptyEntry, errNotFound", "ent, nil"] := by rfl

/-- fingerprints (sha256 prefix of the canonical source text) of the Go functions the model
transcribes by hand -/
theorem fingerprints_expected : fingerprints = [
  ("entrylog.go:entryLog.allEntries", "cc215a713d8f18f1"),
  ("entrylog.go:entryLog.AddEntries", "811ef7c234c263fc"),
  ("entrylog.go:entryLog.slotGe", "044b4695e5335b53"),
  ("entrylog.go:entryLog.seekEntry", "c4831ae1a86785e1"),
  ("entrylog.go:entryLog.Term", "85244e8bf91dd983"),
  ("entrylog.go:entryLog.deleteBefore", "48b5ac3705ac1703"),
  ("entrylog.go:entryLog.rotate", "3c55201805c7ceb9"),
  ("entrylog.go:openEntryLogs", "73562d37aa39e848"),
  ("entrylog.go:entryLog.firstIndex", "d6c6ee91f6614ea0"),
  ("entrylog.go:entryLog.lastIndex", "97360e3c3933ad60"),
  ("entrylog.go:entryLog.getEntryFile", "1d794f6ea86f3288"),
  ("log.go:logFile.slotGe", "76cd419d6417a2b4"),
  ("log.go:logFile.lastEntry", "e43ac563f60e4096"),
  ("log.go:logFile.getRaftEntry", "d2908e6e57804f7b"),
  ("log.go:logFile.firstEmptySlot", "83233f9f9491d859"),
  ("log.go:logFile.firstIndex", "1e14ebca9c95c222"),
  ("log.go:getLogFiles", "fe0d7fb5dcab4ec2"),
  ("log.go:marshalEntry", "07d1d77c51229438"),
  ("storage.go:Init", "4dd939f2927eddd0"),
  ("storage.go:RaftDiskStorage.Entries", "ee19c16040bb3af7"),
  ("storage.go:RaftDiskStorage.Term", "8f87db43fef1f7fc"),
  ("storage.go:RaftDiskStorage.LastIndex", "64eb85083e7e6b40"),
  ("storage.go:RaftDiskStorage.FirstIndex", "f752a358ba5cce80"),
  ("storage.go:RaftDiskStorage.firstIndex", "e71a9526a7886313"),
  ("storage.go:RaftDiskStorage.FirstIndexWithSnap", "a2e23b3739584b66"),
  ("storage.go:RaftDiskStorage.CreateSnapshot", "dbdc8fc9e7833adb"),
  ("storage.go:RaftDiskStorage.Save", "84d34ca36eff4136"),
  ("storage.go:RaftDiskStorage.DeleteBefore", "3f52078cb4f24e42"),
  ("storage.go:RaftDiskStorage.Snapshot", "0d1cc00b754f99dd"),
  ("storage.go:RaftDiskStorage.InitialState", "713c73bda2ebcbcd"),
  ("meta.go:metaFile.StoreHardState", "878ef07c6d6d214b"),
  ("meta.go:metaFile.StoreSnapshot", "81a4b42e66c6c33c"),
  ("meta.go:IsValidSnapshot", "bf693ed741e8c6b1"),
  ("meta.go:metaFile.HardState", "667a47531b9a0c0d"),
  ("meta.go:metaFile.snapshot", "e222f0eead872ced"),
  ("file_v2.go:FileWrapV2.WriteSlice", "c15d94aa9ec78ad3"),
  ("file_v2.go:FileWrapV2.WriteAt", "e5585e9849d11c86"),
  ("file_v2.go:FileWrapV2.ReadSlice", "ae5fc280018682da"),
  ("file_v2.go:FileWrapV2.SliceSize", "2942bbc4c02d0fb1"),
  ("file_v2.go:FileWrapV2.GetEntryData", "6df5c9296231b347"),
  ("file_v2.go:OpenFileV2", "48c27bc9e4a410ff")
] := by rfl

/-! ### the order of the file-system mutations — what `OG/C17/Crash.lean` transcribes

`saveMuts = addEntriesMuts ++ hsMuts ++ snapMuts`, `addLoopMuts` = per entry `rotateMuts?`,
`pay`, `slot`; `rotateMuts = [trunc, create, fill]`; `conflictMuts` = the later files newest
first, then `zero`; `deleteBeforeMuts` oldest first; every `WriteSlice`/`WriteAt` is one
`Write`; hard state and snapshot are one write each. -/

theorem order_Save_expected : order_Save = ["rds.entryLog.AddEntries", "rds.meta.StoreHardState", "rds.meta.StoreSnapshot"] := by rfl
theorem order_AddEntriesLoop_expected :
    order_AddEntriesLoop = ["l.rotate", "l.current.entry.WriteSlice", "l.current.entry.WriteAt"] := by rfl
theorem order_conflictRotated_expected :
    order_conflictRotated = ["ef.delete", "l.current.entry.WriteSlice", "l.current.entry.setCurrent"] ∧
    order_conflictDeleteLoop = "i := len(extra) - 1; i >= 0; i--" := ⟨by rfl, by rfl⟩
theorem order_rotate_expected : order_rotate = ["l.current.entry.Truncate", "l.current.entry.TrySync", "openLogFile"] := by rfl
theorem order_deleteBefore_expected : order_deleteBeforeLoop = "range before" := by rfl
theorem writes_WriteSlice_expected :
    writes_WriteSliceV2 = ["fw.fd.Seek(offset)", "fw.fd.Write(buff)"] ∧
    writes_WriteSliceV1 = ["fw.fd.Seek(offset)", "fw.fd.Write(buff)", "fw.fd.Seek(0)"] := ⟨by rfl, by rfl⟩
theorem writes_WriteAt_expected :
    writes_WriteAtV2 = ["fw.fd.Seek(offset)", "fw.fd.Write(dat)"] ∧
    writes_WriteAtV1 = ["fw.fd.Seek(offset)", "fw.fd.Write(dat)", "fw.fd.Seek(0)"] := ⟨by rfl, by rfl⟩
theorem order_OpenFileV2_expected : order_OpenFileV2 = ["fileops.OpenFile(fpath)", "fw.Write(buff)", "fw.TrySync"] := by rfl
theorem order_StoreHardState_expected : order_StoreHardState = ["m.meta.WriteSlice(hardStateOffset)"] := by rfl
theorem order_StoreSnapshot_expected : order_StoreSnapshot =
    ["m.meta.WriteAt(snapshotIndex)", "binary.BigEndian.AppendUint64(snap.Metadata.Index)",
     "binary.BigEndian.AppendUint64(snap.Metadata.Term)", "binary.BigEndian.AppendUint32(uint32(len(buf)))", "append(buf)"] := by rfl

end OG.C17.Facts
