/-
C17 — `FileWrapV2`'s per-slot caches as a refinement of "always read the file".

`FileWrapV2` (lib/raftlog/file_v2.go, the default wrapper) keeps, per slot of an entry file, the
32 slot bytes (`slot`, `slotCached`), the length prefix of the slot's record (`sz`, `szCached`)
and — while the file is the current one — the payload (`data`).  The model of the store
(`Model.lean`) reads the file on every access.  This file transcribes the cache logic of
`GetEntryData`, `ReadSlice`, `SliceSize`, `WriteAt`, `WriteSlice` (with and without
`clearSlots`), `rotateCurrent`, `setCurrent` over an abstract view of the file (`FileView`: what
an uncached read answers for slot `i`), states the invariant `Coherent` (every cached value is
the file's value) and proves

* every read through the cache answers what the file answers and keeps `Coherent`;
* writing entry `i` (`WriteSlice` of the record, then `WriteAt` of the slot) keeps `Coherent`
  provided the cell of slot `i` holds no length/payload (`Fresh`) — `WriteSlice` stores the
  length only when the cache array does not reach slot `i` yet;
* the clearing `WriteSlice(k, end, …, clearSlots = true)` of a conflicting append keeps
  `Coherent` provided the cache array reaches slot `k` (it does: `slotGe` has just read that
  slot) and the file changed only in slots `[k, end)`; the cleared cells are `Fresh` again;
* with too small an `end` (seed C17-1: the slot count of the abandoned file instead of
  `maxNumEntries`) a cached slot behind `end` survives although the file was zeroed there:
  `clear_short_incoherent`; with a cache array that does not reach slot `k` the clearing call
  caches its own zero buffer as the length and payload of slot `k`: `clear_unread_incoherent`.

Core only.  The correspondence run compares every answer of the real store (both wrappers)
with the model that reads the file, which is the executable side of the same statement.
-/
import OG.C17.Base

namespace OG.C17.Cache
open OG.C17 (Slot)

/-- what a read of the file itself answers for slot `i` -/
structure FileView where
  /-- `ReadAt(32·i, 32)` -/
  slot : Nat → Slot
  /-- the length prefix at the offset of slot `i`'s record; `none`: the 4 bytes cannot be read -/
  sz : Nat → Option Nat
  /-- the payload of slot `i`'s record as an uncached `ReadSlice` returns it (empty when unreadable) -/
  data : Nat → ByteArray

/-- `fileSlotCache` -/
structure Cell where
  slot : Option Slot
  sz : Option Nat
  /-- `len(data) > 0` in the Go code -/
  data : Option ByteArray

/-- the zero value of `fileSlotCache` -/
def Cell.empty : Cell := ⟨none, none, none⟩
instance : Inhabited Cell := ⟨Cell.empty⟩

structure Wrap where
  cache : List Cell
  current : Bool

def cell (w : Wrap) (i : Nat) : Cell := w.cache.getD i Cell.empty

/-- `append(fw.cache, make([]fileSlotCache, i-len+1)...)` when the array does not reach slot `i` -/
def extend (c : List Cell) (i : Nat) : List Cell :=
  if c.length ≤ i then c ++ List.replicate (i + 1 - c.length) Cell.empty else c

def setCell (c : List Cell) (i : Nat) (x : Cell) : List Cell := (extend c i).set i x

/-- every cached value is the value the file holds; a payload is cached only for the current file -/
def CellOK (v : FileView) (cur : Bool) (i : Nat) (c : Cell) : Prop :=
  (∀ s, c.slot = some s → s = v.slot i) ∧ (∀ z, c.sz = some z → v.sz i = some z) ∧
  (∀ d, c.data = some d → cur = true ∧ d = v.data i ∧ c.sz ≠ none)

def Coherent (v : FileView) (w : Wrap) : Prop := ∀ i, CellOK v w.current i (cell w i)

theorem cellOK_empty (v : FileView) (cur : Bool) (i : Nat) : CellOK v cur i Cell.empty := by
  unfold CellOK
  refine ⟨?_, ?_, ?_⟩ <;> intro x hx <;> cases hx

/-- the cell of slot `i` holds neither a length nor a payload -/
def Fresh (w : Wrap) (i : Nat) : Prop := (cell w i).sz = none ∧ (cell w i).data = none

/-! ### reads -/

/-- `GetEntryData(i, …)` -/
def getEntryData (v : FileView) (w : Wrap) (i : Nat) : Slot × Wrap :=
  match (cell w i).slot with
  | some s => (s, w)
  | none => (v.slot i, { w with cache := setCell w.cache i { cell w i with slot := some (v.slot i) } })

/-- `SliceSize(i, off)`: 4 + the length, 0 when it cannot be read -/
def sliceSize (v : FileView) (w : Wrap) (i : Nat) : Nat × Wrap :=
  match (cell w i).sz with
  | some z => (4 + z, w)
  | none =>
    match v.sz i with
    | none => (0, w)
    | some z => (4 + z, { w with cache := setCell w.cache i { cell w i with sz := some z } })

/-- `ReadSlice(i, off, false)` -/
def readSlice (v : FileView) (w : Wrap) (i : Nat) : ByteArray × Wrap :=
  match (cell w i).sz, (cell w i).data with
  | some _, some d => if w.current then (d, w) else (v.data i, w)
  | some z, none =>
    let d := v.data i
    (d, { w with cache := setCell w.cache i { cell w i with sz := some z, data := if w.current && d.size > 0 then some d else none } })
  | none, _ =>
    match v.sz i with
    | none => (ByteArray.empty, w)
    | some z =>
      let d := v.data i
      (d, { w with cache := setCell w.cache i { cell w i with sz := some z, data := if w.current && d.size > 0 then some d else (cell w i).data } })

theorem cell_setCell (c : List Cell) (cur : Bool) (i j : Nat) (x : Cell) :
    cell ⟨setCell c i x, cur⟩ j = if j = i then x else cell ⟨c, cur⟩ j := by
  simp only [cell, setCell, extend]
  by_cases hj : j = i
  · subst hj
    by_cases hl : c.length ≤ j
    · simp only [hl, if_true, List.getD_eq_getElem?_getD, List.getElem?_set, List.length_append, List.length_replicate]
      have : j < c.length + (j + 1 - c.length) := by omega
      simp [this]
    · simp only [hl, if_false, List.getD_eq_getElem?_getD, List.getElem?_set]
      have : j < c.length := by omega
      simp [this]
  · have hne : ¬ i = j := fun h => hj h.symm
    simp only [hj, if_false]
    by_cases hl : c.length ≤ i
    · simp only [hl, if_true, List.getD_eq_getElem?_getD, List.getElem?_set, hne, if_false]
      by_cases hjl : j < c.length
      · rw [List.getElem?_append_left hjl]
      · rw [List.getElem?_append_right (by omega), List.getElem?_eq_none (show c.length ≤ j by omega)]
        simp only [List.getElem?_replicate]
        split <;> rfl
    · simp only [hl, if_false, List.getD_eq_getElem?_getD, List.getElem?_set, hne, if_false]

/-- a slot read through the cache is the file's slot, and the cache stays coherent -/
theorem getEntryData_ok (v : FileView) (w : Wrap) (h : Coherent v w) (i : Nat) :
    (getEntryData v w i).1 = v.slot i ∧ Coherent v (getEntryData v w i).2 ∧ (getEntryData v w i).2.current = w.current := by
  unfold getEntryData
  cases hs : (cell w i).slot with
  | some s => exact ⟨(h i).1 s hs, h, rfl⟩
  | none =>
    refine ⟨rfl, ?_, rfl⟩
    intro j
    show CellOK v w.current j (cell ⟨setCell w.cache i _, w.current⟩ j)
    rw [cell_setCell]
    by_cases hj : j = i
    · subst hj
      simp only [if_true]
      unfold CellOK
      exact ⟨fun s hs => by cases hs; rfl, (h j).2.1, (h j).2.2⟩
    · simp only [hj, if_false]
      exact h j

/-- `SliceSize` through the cache is `SliceSize` on the file -/
theorem sliceSize_ok (v : FileView) (w : Wrap) (h : Coherent v w) (i : Nat) :
    (sliceSize v w i).1 = (match v.sz i with | some z => 4 + z | none => 0) ∧ Coherent v (sliceSize v w i).2 := by
  unfold sliceSize
  cases hs : (cell w i).sz with
  | some z =>
    refine ⟨?_, h⟩
    rw [(h i).2.1 z hs]
  | none =>
    cases hv : v.sz i with
    | none => exact ⟨rfl, h⟩
    | some z =>
      refine ⟨rfl, ?_⟩
      intro j
      show CellOK v w.current j (cell ⟨setCell w.cache i _, w.current⟩ j)
      rw [cell_setCell]
      by_cases hj : j = i
      · subst hj
        simp only [if_true]
        unfold CellOK
        refine ⟨(h j).1, fun z' hz' => by cases hz'; exact hv, fun d hd => ?_⟩
        obtain ⟨h1, h2, _⟩ := (h j).2.2 d hd
        exact ⟨h1, h2, by simp⟩
      · simp only [hj, if_false]
        exact h j

/-- `ReadSlice` through the cache returns what `ReadSlice` on the file returns (`v.data i`,
which is empty when the length cannot be read) -/
theorem readSlice_ok (v : FileView) (w : Wrap) (h : Coherent v w) (i : Nat) (hun : v.sz i = none → v.data i = ByteArray.empty) :
    (readSlice v w i).1 = v.data i ∧ Coherent v (readSlice v w i).2 := by
  unfold readSlice
  cases hs : (cell w i).sz with
  | some z =>
    cases hd : (cell w i).data with
    | some d =>
      simp only
      split
      · exact ⟨((h i).2.2 d hd).2.1, h⟩
      · exact ⟨rfl, h⟩
    | none =>
      refine ⟨rfl, ?_⟩
      intro j
      show CellOK v w.current j (cell ⟨setCell w.cache i _, w.current⟩ j)
      rw [cell_setCell]
      by_cases hj : j = i
      · subst hj
        simp only [if_true]
        unfold CellOK
        refine ⟨(h j).1, fun z' hz' => by cases hz'; exact (h j).2.1 z hs, fun d hd' => ?_⟩
        simp only at hd'
        split at hd'
        · rename_i hc
          cases hd'
          simp only [Bool.and_eq_true] at hc
          exact ⟨hc.1, rfl, by simp⟩
        · cases hd'
      · simp only [hj, if_false]
        exact h j
  | none =>
    cases hv : v.sz i with
    | none => exact ⟨(hun hv).symm, h⟩
    | some z =>
      refine ⟨rfl, ?_⟩
      intro j
      show CellOK v w.current j (cell ⟨setCell w.cache i _, w.current⟩ j)
      rw [cell_setCell]
      by_cases hj : j = i
      · subst hj
        simp only [if_true]
        unfold CellOK
        refine ⟨(h j).1, fun z' hz' => by cases hz'; exact hv, fun d hd' => ?_⟩
        simp only at hd'
        split at hd'
        · rename_i hc
          cases hd'
          simp only [Bool.and_eq_true] at hc
          exact ⟨hc.1, rfl, by simp⟩
        · have := ((h j).2.2 d hd').2.2
          exact absurd hs this
      · simp only [hj, if_false]
        exact h j

/-! ### writes -/

/-- the file after entry `i` was written: slot, length and payload of slot `i` are the new ones -/
def FileView.withEntry (v : FileView) (i : Nat) (sl : Slot) (d : ByteArray) : FileView :=
  { slot := fun j => if j = i then sl else v.slot j
    sz := fun j => if j = i then some d.size else v.sz j
    data := fun j => if j = i then d else v.data j }

/-- `WriteSlice(i, 0, off, d, false, false)` then `WriteAt(i, 32·i, slot, false)`: the length (and, for
the current file, the payload) is cached only when the cache array does not reach slot `i` -/
def appendEntry (w : Wrap) (i : Nat) (sl : Slot) (d : ByteArray) : Wrap :=
  let c1 :=
    if w.cache.length ≤ i then
      setCell w.cache i { cell w i with sz := some d.size, data := if w.current && d.size > 0 then some d else (cell w i).data }
    else w.cache
  { w with cache := setCell c1 i { cell ⟨c1, w.current⟩ i with slot := some sl } }

theorem cell_beyond (w : Wrap) (i : Nat) (h : w.cache.length ≤ i) : cell w i = Cell.empty := by
  simp [cell, List.getD_eq_getElem?_getD, List.getElem?_eq_none h]

/-- writing entry `i` keeps the cache coherent when its cell holds no length and no payload -/
theorem appendEntry_ok (v : FileView) (w : Wrap) (h : Coherent v w) (i : Nat) (sl : Slot) (d : ByteArray) (hf : Fresh w i) :
    Coherent (v.withEntry i sl d) (appendEntry w i sl d) := by
  intro j
  unfold appendEntry
  simp only
  show CellOK _ w.current j (cell ⟨setCell _ i _, w.current⟩ j)
  rw [cell_setCell]
  by_cases hj : j = i
  · subst hj
    simp only [if_true]
    by_cases hl : w.cache.length ≤ j
    · simp only [hl, if_true]
      rw [cell_setCell]
      simp only [if_true]
      unfold CellOK
      refine ⟨fun s hs => ?_, fun z hz => ?_, fun d' hd' => ?_⟩
      · cases hs; simp [FileView.withEntry]
      · cases hz; simp [FileView.withEntry]
      · simp only at hd'
        split at hd'
        · rename_i hcur
          cases hd'
          simp only [Bool.and_eq_true] at hcur
          exact ⟨hcur.1, by simp [FileView.withEntry], by simp⟩
        · rw [hf.2] at hd'; cases hd'
    · simp only [hl, if_false]
      unfold CellOK
      refine ⟨fun s hs => ?_, fun z hz => ?_, fun d' hd' => ?_⟩
      · cases hs; simp [FileView.withEntry]
      · simp only at hz; rw [hf.1] at hz; cases hz
      · simp only at hd'; rw [hf.2] at hd'; cases hd'
  · simp only [hj, if_false]
    have hv : CellOK (v.withEntry i sl d) w.current j = CellOK v w.current j := by
      funext c
      simp [CellOK, FileView.withEntry, hj]
    by_cases hl : w.cache.length ≤ i
    · simp only [hl, if_true]
      rw [cell_setCell]
      simp only [hj, if_false]
      rw [hv]; exact h j
    · simp only [hl, if_false]
      rw [hv]; exact h j

/-- `WriteSlice(k, end, 32·k, make([]byte, n), false, true)`: the cells `[k, end)` inside the cache
array are reset; then, like every `WriteSlice`, the length `n` (and the zero buffer as payload,
for the current file) is cached for slot `k` when the array does not reach it -/
def clear (w : Wrap) (k endI n : Nat) : Wrap :=
  let c1 := w.cache.mapIdx fun j c => if k ≤ j ∧ j < endI then Cell.empty else c
  if c1.length ≤ k then
    { w with cache := setCell c1 k ⟨none, some n, if w.current && n > 0 then some (OG.C17.zeros n) else none⟩ }
  else { w with cache := c1 }

theorem cell_mapIdx (w : Wrap) (k endI j : Nat) :
    cell ⟨w.cache.mapIdx fun j c => if k ≤ j ∧ j < endI then Cell.empty else c, w.current⟩ j =
      if k ≤ j ∧ j < endI then Cell.empty else cell w j := by
  simp only [cell, List.getD_eq_getElem?_getD, List.getElem?_mapIdx]
  cases hc : w.cache[j]? with
  | none => simp
  | some c => simp only [Option.map_some, Option.getD_some]

/-- the clearing write of a conflicting append keeps the cache coherent: the cache array
reaches slot `k`, and the file changed only in slots `[k, end)`.  Afterwards the cells from `k`
up to `end` are fresh: the entries the append writes next satisfy `appendEntry_ok`. -/
theorem clear_ok (v v' : FileView) (w : Wrap) (h : Coherent v w) (k endI n : Nat) (hk : k < w.cache.length)
    (hsame : ∀ j, j < k ∨ endI ≤ j → v'.slot j = v.slot j ∧ v'.sz j = v.sz j ∧ v'.data j = v.data j) :
    Coherent v' (clear w k endI n) ∧ (∀ j, k ≤ j → j < endI → Fresh (clear w k endI n) j) ∧ (clear w k endI n).current = w.current := by
  have hlen : ¬ (w.cache.mapIdx fun j c => if k ≤ j ∧ j < endI then Cell.empty else c).length ≤ k := by
    simp only [List.length_mapIdx]; omega
  have hcl : clear w k endI n = ⟨w.cache.mapIdx fun j c => if k ≤ j ∧ j < endI then Cell.empty else c, w.current⟩ := by
    simp only [clear, hlen, if_false]
  rw [hcl]
  refine ⟨?_, ?_, rfl⟩
  · intro j
    show CellOK v' w.current j (cell ⟨_, w.current⟩ j)
    rw [cell_mapIdx]
    by_cases hj : k ≤ j ∧ j < endI
    · simp only [hj, and_self, if_true]
      exact cellOK_empty _ _ _
    · simp only [hj, if_false]
      have hout : j < k ∨ endI ≤ j := by omega
      obtain ⟨h1, h2, h3⟩ := hsame j hout
      have := h j
      simp only [CellOK, h1, h2, h3] at this ⊢
      exact this
  · intro j hj1 hj2
    unfold Fresh
    rw [cell_mapIdx]
    simp [hj1, hj2, Cell.empty]

/-- `rotateCurrent`: no longer current, the payloads are dropped -/
def rotateCurrent (w : Wrap) : Wrap := { cache := w.cache.map fun c => { c with data := none }, current := false }

theorem rotateCurrent_ok (v : FileView) (w : Wrap) (h : Coherent v w) : Coherent v (rotateCurrent w) := by
  intro j
  have hc : cell (rotateCurrent w) j = { cell w j with data := none } := by
    simp only [cell, rotateCurrent, List.getD_eq_getElem?_getD, List.getElem?_map]
    cases w.cache[j]? <;> rfl
  rw [hc]
  unfold CellOK
  exact ⟨(h j).1, (h j).2.1, fun d hd => by cases hd⟩

/-- `setCurrent`: the cache holds no payload of a file that is not current (`rotateCurrent`
dropped them, reads of a rotated file store none), so nothing stale becomes visible -/
def setCurrent (w : Wrap) : Wrap := { w with current := true }

theorem setCurrent_ok (v : FileView) (w : Wrap) (h : Coherent v w) : Coherent v (setCurrent w) := by
  intro j
  show CellOK v true j (cell w j)
  unfold CellOK
  refine ⟨(h j).1, (h j).2.1, fun d hd => ?_⟩
  obtain ⟨_, h2, h3⟩ := (h j).2.2 d hd
  exact ⟨rfl, h2, h3⟩

/-- an empty cache (a file just opened) is coherent with any file -/
theorem coherent_empty (v : FileView) (cur : Bool) : Coherent v ⟨[], cur⟩ := by
  intro j
  simp only [cell, List.getD_nil]
  exact cellOK_empty _ _ _

/-! ### what breaks it -/

def zeroView : FileView := ⟨fun _ => Slot.zero, fun _ => none, fun _ => ByteArray.empty⟩

/-- **seed C17-1**: the clearing write zeroes the slots up to the end of the table, but is told
to drop the cached cells only up to `end = 3`: the cached slot 5 of the re-activated file
survives although the file holds zeros there — `Term(i)` of a discarded index keeps answering. -/
theorem clear_short_incoherent :
    let old : Slot := ⟨7, 106, 0, 2000⟩
    let v : FileView := ⟨fun _ => old, fun _ => some 0, fun _ => ByteArray.empty⟩
    let w : Wrap := ⟨List.replicate 8 ⟨some old, none, none⟩, false⟩
    Coherent v w ∧ ¬ Coherent zeroView (clear w 2 3 100) := by
  intro old v w
  constructor
  · intro j
    by_cases hj : j < 8
    · have : cell w j = ⟨some old, none, none⟩ := by
        simp only [cell, w, List.getD_eq_getElem?_getD, List.getElem?_replicate, hj, if_true, Option.getD_some]
      rw [this]
      unfold CellOK
      refine ⟨fun s hs => by cases hs; rfl, ?_, ?_⟩ <;> intro x hx <;> cases hx
    · have : cell w j = Cell.empty := cell_beyond w j (by simp [w]; omega)
      rw [this]
      exact cellOK_empty _ _ _
  · intro h
    have h5 := (h 5).1 old
    have hc : (cell (clear w 2 3 100) 5).slot = some old := by
      have hcl : clear w 2 3 100 = ⟨w.cache.mapIdx fun j c => if 2 ≤ j ∧ j < 3 then Cell.empty else c, w.current⟩ := by
        simp only [clear, List.length_mapIdx]
        rw [if_neg (by simp [w])]
      rw [hcl, cell_mapIdx]
      simp [cell, w, List.getD_eq_getElem?_getD, List.getElem?_replicate]
    have := h5 hc
    simp only [zeroView, old, Slot.zero] at this
    cases this

/-- a clearing write on a cache array that does not reach slot `k` (the slot was never read
through this wrapper) caches the *zero buffer's* length as the length of slot `k`'s record:
the next entry written to slot `k` is not `Fresh`, and its length is not stored.  The store
never does this — `slotGe` reads slot `k` right before — which is why `clear_ok` asks for
`k < len(cache)`. -/
theorem clear_unread_incoherent :
    let w : Wrap := ⟨[], true⟩
    (cell (clear w 2 5 96) 2).sz = some 96 ∧ ¬ Fresh (clear w 2 5 96) 2 := by
  intro w
  have hc : (cell (clear w 2 5 96) 2).sz = some 96 := by
    simp only [w, clear, List.mapIdx_nil, List.length_nil, Nat.zero_le, if_true]
    rw [cell_setCell]
    simp
  exact ⟨hc, fun h => by rw [h.1] at hc; cases hc⟩

end OG.C17.Cache
