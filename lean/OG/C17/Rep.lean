/-
C17 — the abstraction: which list of entries a file holds (`FileRep`), which lists a whole
log holds (`LogRep`), and the abstraction function `abs` from a model state to the spec state.
Core only (the non-vacuity examples evaluate it).
-/
import OG.C17.Spec

namespace OG.C17

structure Params.WF (p : Params) : Prop where
  cap_pos : 1 ≤ p.cap
  /-- the slot table (+ the 4 bytes a zeroing write may run past it) ends before the data area -/
  table_fits : 32 * p.cap + 4 ≤ p.dataOff
  dataOff_lt : p.dataOff + 8589934592 < 18446744073709551616
  maxSize_lt : p.maxSize < 18446744073709551616

/-- what the store can hold: uint64 fields, a positive index, a payload whose length fits the
4-byte prefix -/
structure Entry.OK (e : Entry) : Prop where
  term_lt : e.term < 18446744073709551616
  index_pos : 1 ≤ e.index
  index_lt : e.index < 18446744073709551616
  typ_lt : e.typ < 18446744073709551616
  size_lt : e.data.size < 4294967296

def recLen (e : Entry) : Nat := 4 + e.data.size
/-- bytes the records of `es` occupy -/
def total (es : List Entry) : Nat := (es.map recLen).sum
/-- file offset of the record of entry `i` -/
def offOf (p : Params) (es : List Entry) (i : Nat) : Nat := p.dataOff + total (es.take i)

/-- the slots and records of the first `firstEmptySlot` entries of a file -/
def fileEnts (p : Params) (f : LogFile) : List Entry :=
  (List.range (firstEmptySlot p f)).filterMap (getRaftEntry p f)

/-- abstraction function: everything is read from the durable content (slot tables, data
areas, meta), nothing from `next` -/
def abs (p : Params) (s : State) : SpecState :=
  { first := logFirstIndex s
    ents := s.files.flatMap (fileEnts p) ++ fileEnts p s.current
    hs := s.mt.hs
    snap := s.mt.snap }

/-- applying an operation to the model, errors leave the state as it is -/
def step (p : Params) (s : State) : Op → State
  | .save hs ents sn => save p s hs ents sn
  | .mksnap i sn => match createSnapshot p s i sn with | .ok s' => s' | .error _ => s
  | .delBefore i => match deleteBefore p s i with | .ok s' => s' | .error _ => s
  | .reopen => match reopen p s with | .ok s' => s' | .error _ => s

def run (p : Params) (s : State) : List Op → State
  | [] => s
  | op :: ops => run p (step p s op) ops

end OG.C17
