/-
C17 — the store at the granularity of single file-system mutations (core only; also part of
the native driver).

`Save` / `DeleteBefore` / `CreateSnapshot` are not atomic: each is a sequence of system
calls (remove a file, truncate, create, write).  A process that dies leaves the directory as
it is after some prefix of that sequence; a machine that dies may in addition leave only a
prefix of the bytes of the last write.  This file lists the mutations in the order the code
issues them (`saveMuts`, `deleteBeforeMuts`, `mksnapMuts` — transcribed from
`entryLog.AddEntries`, `entryLog.rotate`, `openLogFile`/`OpenFileV2`, `FileWrapV2.WriteSlice`,
`metaFile.StoreHardState`, `metaFile.StoreSnapshot`; the order is also regenerated as a fact,
`OG.Gen.C17.order_*`), says what each one does to the directory (`applyMut`), what a prefix of
its bytes does (`applyTorn`), and what `Init` makes of the result (`recover`).

A crash state is a `State` read as a directory: `files ++ [current]` are the entry files in
directory order, `mt` is the meta file; `next` is not part of it (`reopen` recomputes it).
Every write of an operation goes to the last file of the directory, files are removed from
the end (conflict) or from the front (compaction): mutations therefore address files by
position, the file id is carried for the comparison with the real mutation list.
-/
import OG.C17.Model

namespace OG.C17
open OG.Gen.C17 (entrySize unit32Size clearCurOff clearCurLen clearRotOff clearRotLen needRotate nextOffset
  hardStateOffset snapshotIndex)

/-- one mutation of the raft directory (one system call) -/
inductive Mut where
  /-- `ef.delete()` of the newest file (conflict handling removes newest first) -/
  | rmLast (fid : Nat)
  /-- `ef.delete()` of the oldest file (`deleteBefore`) -/
  | rmFirst (fid : Nat)
  /-- `rotate`: `Truncate(offset)` of the current file -/
  | trunc (fid size : Nat)
  /-- `openLogFile` → `OpenFile(O_CREATE)`: the next file appears, empty -/
  | create (fid : Nat)
  /-- `OpenFileV2`: `Write(make([]byte, logFileOffset))` into the new file -/
  | fill (fid n : Nat)
  /-- `WriteSlice(slot, 0, off, data)`: length prefix and payload, one write -/
  | pay (fid off : Nat) (d : ByteArray)
  /-- `WriteAt(slot, 32·slot, marshalEntry …)` -/
  | slot (fid i : Nat) (sl : Slot)
  /-- the zeroing `WriteSlice(k, …, 32·k, make([]byte, n), false, true)`: length prefix and zeros, one write -/
  | zero (fid k n : Nat)
  /-- `StoreHardState`: `WriteSlice` at `hardStateOffset` of the meta file -/
  | hs (h : HardState)
  /-- `StoreSnapshot`: index, term, length and data in one `WriteAt` at `snapshotIndex` -/
  | snap (sn : Snapshot)

/-- number of bytes a write carries (0: not a write, or a meta write whose length depends on
the protobuf encoding) -/
def Mut.len : Mut → Nat
  | .fill _ n => n
  | .pay _ _ d => 4 + d.size
  | .slot _ _ _ => 32
  | .zero _ _ n => 4 + n
  | _ => 0

/-- what the mutation does to the directory -/
def applyMut (p : Params) (s : State) : Mut → State
  | .rmLast _ =>
    match s.files.getLast? with
    | some f => { s with files := s.files.dropLast, current := f }
    | none => { s with panicked := true }
  | .rmFirst _ => { s with files := s.files.tail }
  | .trunc _ size => { s with current := { s.current with data := btrunc s.current.data (size - p.dataOff) } }
  | .create fid => { s with files := s.files ++ [s.current], current := newFile p fid }
  | .fill _ _ => s
  | .pay _ off d => { s with current := writePayload p s.current off d }
  | .slot _ i sl => { s with current := setSlot s.current i sl }
  | .zero _ k n => { s with current := writeZeroSlice p s.current k n }
  | .hs h => { s with mt := { s.mt with hs := h } }
  | .snap sn => { s with mt := { s.mt with snap := sn, snapIndex := sn.index, snapTerm := sn.term } }

/-- the top `nb` bytes of the 8-byte big-endian field come from `new`, the others from `old` -/
def mixField (new old nb : Nat) : Nat :=
  let w := 256 ^ (8 - nb)
  new / w * w + old % w

/-- a slot of which only the first `k` of the 32 bytes of `new` were written over `old` -/
def tornSlot (old new : Slot) (k : Nat) : Slot :=
  ⟨mixField new.term old.term (min 8 k), mixField new.index old.index (min 8 (k - 8)),
   mixField new.typ old.typ (min 8 (k - 16)), mixField new.off old.off (min 8 (k - 24))⟩

/-- the zeroing write cut short: the first `lenBytes ≤ 4` bytes of the length prefix `lenVal`
at `32·k`, then `zn` zero bytes.  `writeZeroSlice p f k n = writeZeroGen p f k n 4 n`. -/
def writeZeroGen (p : Params) (f : LogFile) (k lenVal lenBytes zn : Nat) : LogFile :=
  let lo := entrySize * k + unit32Size
  let hi := lo + zn
  let fld (v q : Nat) : Nat := zeroFieldBytes v q lo hi
  let tab := f.tab.mapIdx fun i s =>
    let q := entrySize * i
    let t := fld s.term q
    let t := if i == k then mixField (lenVal % 4294967296 * 4294967296) t lenBytes else t
    (⟨t, fld s.index (q + 8), fld s.typ (q + 16), fld s.off (q + 24)⟩ : Slot)
  let data :=
    if hi > p.dataOff then
      let a := (if lo > p.dataOff then lo else p.dataOff) - p.dataOff
      let b := hi - p.dataOff
      bwrite f.data a (zeros (b - a))
    else f.data
  { f with tab := tab, data := data }

/-- the first `k` bytes of the write reached the file (`0 < k < len`); `none`: not modelled
(meta writes: the protobuf bytes are opaque) or not a write -/
def applyTorn (p : Params) (s : State) (m : Mut) (k : Nat) : Option State :=
  match m with
  | .pay _ off d =>
    some { s with current := { s.current with data := bwrite s.current.data (off - p.dataOff) ((be32 d.size ++ d).extract 0 k) } }
  | .slot _ i sl => some { s with current := setSlot s.current i (tornSlot (getSlot s.current i) sl k) }
  | .zero _ sl n => some { s with current := writeZeroGen p s.current sl n (min 4 k) (k - 4) }
  | .fill _ _ =>
    -- a new file shorter than one slot: `getEntry(0)` gets no bytes and `Index()` panics;
    -- from 32 bytes on its first index reads 0 and `openEntryLogs` deletes it, as when complete
    some (if k < 32 then { s with panicked := true } else s)
  | _ => none

/-! ### the mutation lists, in the order of the code -/

/-- `entryLog.rotate`: truncate the current file, create the next one, fill it -/
def rotateMuts (p : Params) (s : State) (offset : Nat) : List Mut :=
  let nextFid := (s.files.foldl (fun m f => if f.fid > m then f.fid else m) s.current.fid) + 1
  [.trunc s.current.fid offset, .create nextFid, .fill nextFid p.dataOff]

/-- the write loop of `AddEntries`: per entry an optional rotation, the payload, the slot -/
def addLoopMuts (p : Params) : List Entry → State → Nat → List Mut
  | [], _, _ => []
  | re :: rest, s, offset =>
    let rot := needRotate p s.next offset re.data.size
    let pre := if rot then rotateMuts p s offset else []
    let (s, offset) := if rot then ({ rotate p s offset with next := 0 }, p.dataOff) else (s, offset)
    let cur := writePayload p s.current offset re.data
    let cur := setSlot cur s.next ⟨re.term, re.index, re.typ, offset⟩
    pre ++ [.pay s.current.fid offset re.data, .slot s.current.fid s.next ⟨re.term, re.index, re.typ, offset⟩]
      ++ addLoopMuts p rest { s with current := cur, next := s.next + 1 } (nextOffset offset re.data.size).toNat

/-- conflict handling of `AddEntries`: later files are removed newest first, then the tail of
the slot table of the file that stays is zeroed -/
def conflictMuts (p : Params) (s : State) (idx : Nat) : List Mut :=
  match slotGe p s idx with
  | (_, none) => []
  | (none, some lastIdx) =>
    if s.next > lastIdx then
      let n := clearCurLen p s.next lastIdx
      let o := clearCurOff p s.next lastIdx
      if n < 0 || o != entrySize * lastIdx then [] else [.zero s.current.fid lastIdx n.toNat]
    else []
  | (some firstIdx, some lastIdx) =>
    if firstIdx ≥ s.files.length then []
    else
      let n := clearRotLen p lastIdx
      let o := clearRotOff p lastIdx
      if n < 0 || o != entrySize * lastIdx then []
      else
        let doomed := s.files.drop (firstIdx + 1) ++ [s.current]
        doomed.reverse.map (fun f => Mut.rmLast f.fid) ++ [.zero (s.files.getD firstIdx default).fid lastIdx n.toNat]

def addEntriesMuts (p : Params) (s : State) (entries : List Entry) : List Mut :=
  match entries with
  | [] => []
  | e0 :: _ =>
    let s1 := conflict p s e0.index
    let offset :=
      if s1.next ≥ 1 then
        let e := getSlot s1.current (s1.next - 1)
        e.off + sliceSize p s1.current e.off
      else p.dataOff
    conflictMuts p s e0.index ++ addLoopMuts p entries s1 offset

def hsMuts (hs : Option HardState) : List Mut :=
  match hs with
  | some h => if h.isEmpty then [] else [.hs h]
  | none => []

def snapMuts (sn : Option Snapshot) : List Mut :=
  match sn with
  | some x => if x.isValid then [.snap x] else []
  | none => []

/-- `RaftDiskStorage.Save`: entries, then hard state, then snapshot -/
def saveMuts (p : Params) (s : State) (hs : Option HardState) (ents : List Entry) (sn : Option Snapshot) : List Mut :=
  addEntriesMuts p s ents ++ hsMuts hs ++ snapMuts sn

/-- `entryLog.deleteBefore`: the files before the one holding the index, oldest first -/
def deleteBeforeMuts (p : Params) (s : State) (raftIndex : Nat) : List Mut :=
  match slotGe p s raftIndex with
  | (_, none) => []
  | (none, some _) => s.files.map (fun f => Mut.rmFirst f.fid)
  | (some fidx, some _) =>
    if fidx ≥ s.files.length then [] else (s.files.take fidx).map (fun f => Mut.rmFirst f.fid)

/-- `RaftDiskStorage.CreateSnapshot` -/
def mksnapMuts (p : Params) (s : State) (i : Nat) (sn : Snapshot) : List Mut :=
  if i < logFirstIndex s then []
  else match seekEntry p s i with
    | .error _ => []
    | .ok e => snapMuts (some { sn with index := i, term := e.term })

/-! ### crash states -/

def applyMuts (p : Params) (s : State) (ms : List Mut) : State := ms.foldl (applyMut p) s

/-- the directory after each prefix of the mutation list (the process dies between two
system calls), the first being the state before the operation, the last the state after it -/
def prefixStates (p : Params) : State → List Mut → List State
  | s, [] => [s]
  | s, m :: ms => s :: prefixStates p (applyMut p s m) ms

/-- the directory with mutations `0 … j-1` complete and the first `k` bytes of mutation `j`
(`k = 0`: exactly `j` mutations) -/
def crashAt (p : Params) (s : State) (ms : List Mut) (j k : Nat) : Option State :=
  let s1 := applyMuts p s (ms.take j)
  if k == 0 then (if j ≤ ms.length then some s1 else none)
  else match ms[j]? with
    | some m => if k < m.len then applyTorn p s1 m k else none
    | none => none

/-- `crashAt` continued from a state in which the first `jc ≤ j` mutations are already applied
(the driver keeps the last one: crash points arrive in ascending order) -/
def crashFrom (p : Params) (ms : List Mut) (jc : Nat) (sc : State) (j k : Nat) : Option State :=
  let s1 := applyMuts p sc ((ms.take j).drop jc)
  if k == 0 then (if j ≤ ms.length then some s1 else none)
  else match ms[j]? with
    | some m => if k < m.len then applyTorn p s1 m k else none
    | none => none

theorem applyMuts_append (p : Params) (s : State) (a b : List Mut) :
    applyMuts p s (a ++ b) = applyMuts p (applyMuts p s a) b := by
  simp [applyMuts, List.foldl_append]

/-- the driver's shortcut is `crashAt` -/
theorem crashFrom_eq (p : Params) (s : State) (ms : List Mut) (jc j k : Nat) (h : jc ≤ j) :
    crashFrom p ms jc (applyMuts p s (ms.take jc)) j k = crashAt p s ms j k := by
  have hsplit : ms.take j = ms.take jc ++ (ms.take j).drop jc := by
    have := List.take_append_drop jc (ms.take j)
    rw [List.take_take, Nat.min_eq_left h] at this
    exact this.symm
  have : applyMuts p (applyMuts p s (ms.take jc)) ((ms.take j).drop jc) = applyMuts p s (ms.take j) := by
    rw [← applyMuts_append, ← hsplit]
  simp only [crashFrom, crashAt, this]

/-- the torn variants of a write after which the store still recovers (proved in
`CrashProps.lean`): every prefix of a payload write (the slot that makes the record visible is
written afterwards), and a slot write cut inside its first field, the term (the index is still
0: the slot is still empty).  A slot write cut later, a zeroing write cut anywhere and a cut
inside the first 32 bytes of a new file are *not* safe (`torn_slot_breaks`, `torn_zero_breaks`
in `CrashProps.lean`; finding `torn_write_*`). -/
def safeTorn (p : Params) (s : State) (m : Mut) : List State :=
  match m with
  | .pay _ _ d => (List.range (4 + d.size)).filterMap (applyTorn p s m)
  | .slot _ _ _ => (List.range 9).filterMap (applyTorn p s m)
  | _ => []

/-- every directory a crash inside the mutation list can leave behind, as far as the store
recovers from it: after each prefix of the list (first element: nothing happened, last: all
happened), and with the safe torn variants of the next write -/
def crashStates (p : Params) : State → List Mut → List State
  | s, [] => [s]
  | s, m :: ms => s :: (safeTorn p s m ++ crashStates p (applyMut p s m) ms)

/-- `Init` on a crash image -/
def recover (p : Params) (s : State) : Except Err State :=
  if s.panicked then .error .initFailed else reopen p s

end OG.C17
