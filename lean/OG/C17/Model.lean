/-
C17 — executable model of lib/raftlog: `entryLog` (entrylog.go, log.go) over entry files
(file_v2.go: every write goes straight to the file) and `RaftDiskStorage` (storage.go,
meta.go).  The functions are transcriptions of the Go functions of the same name; the
geometry (`Params`), the sizes of the two zeroing writes of `AddEntries`, the rotation
condition and the payload-offset step are the definitions ogfacts regenerates from the Go
source (`OG.Gen.C17`).

What is *not* in the model: the per-slot read caches of `FileWrapV2` (the model always reads
the file), read errors of the OS, the locks.  `panicked` records that the code would have
panicked (negative `make` length, …).
-/
import OG.C17.Base
import OG.Generated.C17

namespace OG.C17
open OG.Gen.C17 (entrySize unit32Size clearCurOff clearCurLen clearRotOff clearRotLen needRotate nextOffset)

/-- one `NNNNN.entry` file. `data` = the bytes from `dataOff` to end-of-file. -/
structure LogFile where
  fid : Nat
  tab : Array Slot
  data : ByteArray
deriving Inhabited

/-- raft.mt: hard state, snapshot, and the two uint64 fields SnapshotIndex / SnapshotTerm. -/
structure Meta where
  hs : HardState
  snap : Snapshot
  snapIndex : Nat
  snapTerm : Nat
deriving Repr, Inhabited

/-- `entryLog` + meta. `files`/`current` are also the content of the directory. -/
structure State where
  files : List LogFile
  current : LogFile
  next : Nat
  mt : Meta
  panicked : Bool
deriving Inhabited

/-- error values of the raft storage contract as the store produces them -/
inductive Err where
  | compacted | unavailable | notFound | snapOutOfDate | invalid | initFailed
deriving DecidableEq, Repr

/-! ### one file (log.go) -/

/-- `openLogFile` creating a file: `dataOff` zero bytes. -/
def newFile (p : Params) (fid : Nat) : LogFile := ⟨fid, Array.replicate p.cap Slot.zero, ByteArray.empty⟩

/-- `logFile.getEntry` (callers guard `idx < cap`, see `Inv`) -/
def getSlot (f : LogFile) (i : Nat) : Slot := f.tab.getD i Slot.zero

/-- `WriteAt(slot·32, marshalEntry …)` -/
def setSlot (f : LogFile) (i : Nat) (s : Slot) : LogFile := { f with tab := f.tab.setIfInBounds i s }

def LogFile.firstIndex (f : LogFile) : Nat := (getSlot f 0).index

/-- size of the file in bytes -/
def LogFile.size (p : Params) (f : LogFile) : Nat := p.dataOff + f.data.size

/-- `logFile.firstEmptySlot` -/
def firstEmptySlot (p : Params) (f : LogFile) : Nat :=
  sortSearch p.cap (fun i => (getSlot f i).index == 0)

/-- `logFile.lastEntry` -/
def lastEntry (p : Params) (f : LogFile) : Slot :=
  let pos := firstEmptySlot p f
  getSlot f (if pos > 0 then pos - 1 else pos)

/-- `logFile.slotGe`; `none` is the Go `-1`. -/
def fileSlotGe (p : Params) (f : LogFile) (raftIndex : Nat) : Option Nat :=
  let fi := f.firstIndex
  if fi == 0 || raftIndex < fi then none
  else
    let diff := raftIndex - fi
    if diff < p.cap && (getSlot f diff).index == raftIndex then some diff
    else some (sortSearch p.cap (fun i => let e := getSlot f i; e.index == 0 || e.index ≥ raftIndex))

/-- `FileWrapV2.ReadSlice` at an absolute file offset: length prefix, then the payload; a read
that is not fully inside the file yields no data. -/
def readSlice (p : Params) (f : LogFile) (off : Nat) : ByteArray :=
  if off < p.dataOff then ByteArray.empty
  else
    let o := off - p.dataOff
    match rd32 f.data o with
    | none => ByteArray.empty
    | some sz => if o + 4 + sz ≤ f.data.size then f.data.extract (o + 4) (o + 4 + sz) else ByteArray.empty

/-- `FileWrapV2.SliceSize`: 4 + the stored length; 0 when the length cannot be read. -/
def sliceSize (p : Params) (f : LogFile) (off : Nat) : Nat :=
  if off < p.dataOff then 0
  else match rd32 f.data (off - p.dataOff) with
    | none => 0
    | some sz => 4 + sz

/-- `logFile.getRaftEntry`; `none` = "valid offset error". -/
def getRaftEntry (p : Params) (f : LogFile) (i : Nat) : Option Entry :=
  let s := getSlot f i
  if s.off > 0 then
    if s.off ≥ f.size p then none
    else some ⟨s.term, s.index, s.typ, readSlice p f s.off⟩
  else some ⟨s.term, s.index, s.typ, ByteArray.empty⟩

/-- `WriteSlice(slot, 0, off, dat, false, false)` into the data area (absolute offset). -/
def writePayload (p : Params) (f : LogFile) (off : Nat) (dat : ByteArray) : LogFile :=
  { f with data := bwrite f.data (off - p.dataOff) (be32 dat.size ++ dat) }

/-- the effect on the file of `WriteSlice(_, _, 32·k, make([]byte, n), false, true)`: the four
bytes at `32·k` become the big-endian length `n`, the `n` bytes after them become zero.
Applied to the typed slot table byte for byte; the part of the zero range that reaches the
data area (`≥ dataOff`) is written there. -/
def writeZeroSlice (p : Params) (f : LogFile) (k n : Nat) : LogFile :=
  let lo := entrySize * k + unit32Size
  let hi := lo + n
  let fld (v q : Nat) : Nat := zeroFieldBytes v q lo hi
  let tab := f.tab.mapIdx fun i s =>
    let q := entrySize * i
    let t := fld s.term q
    let t := if i == k then n % 4294967296 * 4294967296 + t % 4294967296 else t
    (⟨t, fld s.index (q + 8), fld s.typ (q + 16), fld s.off (q + 24)⟩ : Slot)
  let data :=
    if hi > p.dataOff then
      let a := (if lo > p.dataOff then lo else p.dataOff) - p.dataOff
      let b := hi - p.dataOff
      -- only bytes that exist or that the write creates
      bwrite f.data a (zeros (b - a))
    else f.data
  { f with tab := tab, data := data }

/-! ### entryLog (entrylog.go) -/

/-- `entryLog.getEntryFile`; `none` = -1 = the current file. -/
def getEntryFile (s : State) : Option Nat → Option LogFile
  | none => some s.current
  | some i => s.files[i]?

/-- `entryLog.slotGe`: (file index, slot). -/
def slotGe (p : Params) (s : State) (raftIndex : Nat) : Option Nat × Option Nat :=
  match fileSlotGe p s.current raftIndex with
  | some off => (none, some off)
  | none =>
    if s.files.isEmpty then (none, none)
    else
      let fileIdx := sortSearch s.files.length (fun i => (s.files.getD i default).firstIndex ≥ raftIndex)
      if fileIdx < s.files.length && (s.files.getD fileIdx default).firstIndex == raftIndex then (some fileIdx, some 0)
      else
        let fileIdx := if fileIdx > 0 then fileIdx - 1 else fileIdx
        (some fileIdx, fileSlotGe p (s.files.getD fileIdx default) raftIndex)

/-- `entryLog.firstIndex` -/
def logFirstIndex (s : State) : Nat :=
  let fi := match s.files with
    | [] => (getSlot s.current 0).index
    | f :: _ => (getSlot f 0).index
  if fi == 0 then 1 else fi

/-- the loop of `entryLog.lastIndex` over the rotated files, newest first -/
def lastIndexFiles (p : Params) : List LogFile → Nat
  | [] => 0
  | f :: rest => let e := lastEntry p f; if e.index > 0 then e.index else lastIndexFiles p rest

/-- `entryLog.lastIndex` -/
def logLastIndex (p : Params) (s : State) : Nat :=
  if s.next ≥ 1 then (getSlot s.current (s.next - 1)).index
  else lastIndexFiles p s.files.reverse

/-- `entryLog.seekEntry` (with the empty-log answer of the repaired code) -/
def seekEntry (p : Params) (s : State) (raftIndex : Nat) : Except Err Slot :=
  if raftIndex == 0 then .ok Slot.zero
  else
    match slotGe p s raftIndex with
    | (_, none) => if raftIndex > logLastIndex p s then .error .unavailable else .error .compacted
    | (fidx, some off) =>
      if off ≥ p.cap then .error .unavailable
      else
        match getEntryFile s fidx with
        | none => .error .unavailable   -- `getEntry` on a nil file is the empty entry
        | some ef =>
          let ent := getSlot ef off
          if ent.index == 0 then .error .unavailable
          else if ent.index != raftIndex then .error .notFound
          else .ok ent

/-- `entryLog.rotate` -/
def rotate (p : Params) (s : State) (offset : Nat) : State :=
  let nextFid := (s.files.foldl (fun m f => if f.fid > m then f.fid else m) s.current.fid) + 1
  let cur := { s.current with data := btrunc s.current.data (offset - p.dataOff) }
  { s with files := s.files ++ [cur], current := newFile p nextFid,
           panicked := s.panicked || s.current.fid == 0 }

/-- the write loop of `AddEntries` -/
def addLoop (p : Params) : List Entry → State → Nat → State
  | [], s, _ => s
  | re :: rest, s, offset =>
    let (s, offset) :=
      if needRotate p s.next offset re.data.size then
        ({ rotate p s offset with next := 0 }, p.dataOff)
      else (s, offset)
    let cur := writePayload p s.current offset re.data
    let cur := setSlot cur s.next ⟨re.term, re.index, re.typ, offset⟩
    addLoop p rest { s with current := cur, next := s.next + 1 } (nextOffset offset re.data.size).toNat

/-- first half of `entryLog.AddEntries`: the first new index `idx` already exists — remove that
entry and everything after it (zero the later slots; if it sits in a rotated file delete the
later files and make that file current again). -/
def conflict (p : Params) (s : State) (idx : Nat) : State :=
  match slotGe p s idx with
  | (_, none) => s
  | (none, some lastIdx) =>
    -- found in the current file: zero the slots after it
    let s :=
      if s.next > lastIdx then
        let n := clearCurLen p s.next lastIdx
        let o := clearCurOff p s.next lastIdx
        if n < 0 || o != entrySize * lastIdx then { s with panicked := true }
        else { s with current := writeZeroSlice p s.current lastIdx n.toNat }
      else s
    { s with next := lastIdx }
  | (some firstIdx, some lastIdx) =>
    if firstIdx ≥ s.files.length then { s with panicked := true }
    else
      -- delete the later files and the current one, re-activate files[firstIdx]
      let cur := s.files.getD firstIdx default
      let n := clearRotLen p lastIdx
      let o := clearRotOff p lastIdx
      if n < 0 || o != entrySize * lastIdx then { s with panicked := true }
      else
        { s with current := writeZeroSlice p cur lastIdx n.toNat, files := s.files.take firstIdx, next := lastIdx }

/-- second half of `entryLog.AddEntries`: the write loop, from the offset after the last kept
entry of the current file -/
def addFrom (p : Params) (s : State) (entries : List Entry) : State :=
  let offset :=
    if s.next ≥ 1 then
      let e := getSlot s.current (s.next - 1)
      e.off + sliceSize p s.current e.off
    else p.dataOff
  addLoop p entries s offset

/-- `entryLog.AddEntries` -/
def addEntries (p : Params) (s : State) (entries : List Entry) : State :=
  match entries with
  | [] => s
  | e0 :: _ => addFrom p (conflict p s e0.index) entries

/-- `entryLog.deleteBefore` -/
def deleteBefore (p : Params) (s : State) (raftIndex : Nat) : Except Err State :=
  match slotGe p s raftIndex with
  | (_, none) => .error .invalid
  | (none, some _) => .ok { s with files := [] }
  | (some fidx, some _) =>
    if fidx ≥ s.files.length then .error .invalid
    else .ok { s with files := s.files.drop fidx }

/-- reading one file inside `allEntries`: slots `off, off+1, …` (`fuel` ≥ `cap - off`).
Result: collected entries, running size, and whether the whole scan is over. -/
def scanFile (p : Params) (f : LogFile) (hi maxSize : Nat) :
    Nat → Nat → Nat → Array Entry → Array Entry × Nat × Bool
  | 0, _, size, acc => (acc, size, false)
  | fuel + 1, off, size, acc =>
    if off ≥ p.cap then (acc, size, false)
    else
      match getRaftEntry p f off with
      | none => (acc, size, true)
      | some re =>
        if re.index ≥ hi then (acc, size, true)
        else if re.index == 0 then (acc, size, false)
        else
          let size := size + re.size
          if acc.size > 0 && size > maxSize then (acc, size, true)
          else scanFile p f hi maxSize fuel (off + 1) size (acc.push re)

/-- the file-to-file part of `allEntries`: the remaining rotated files, then the current one. -/
def scanFiles (p : Params) (hi maxSize : Nat) : List LogFile → Nat → Nat → Array Entry → Array Entry
  | [], _, _, acc => acc
  | f :: rest, off, size, acc =>
    let (acc, size, done) := scanFile p f hi maxSize (p.cap + 1) off size acc
    if done then acc else scanFiles p hi maxSize rest 0 size acc

/-- `entryLog.allEntries` -/
def allEntries (p : Params) (s : State) (lo hi maxSize : Nat) : Array Entry :=
  let (fileIdx, offset) := slotGe p s lo
  let offset := offset.getD 0
  let fs := match fileIdx with
    | none => [s.current]
    | some i => s.files.drop i ++ [s.current]
  scanFiles p hi maxSize fs offset 0 #[]

/-! ### reopen (openEntryLogs, Init) -/

/-- stable sort of files by a key (`List.mergeSort` of core) -/
def sortBy (key : LogFile → Nat) (l : List LogFile) : List LogFile :=
  l.mergeSort (fun x y => decide (key x ≤ key y))

/-- `openEntryLogs`: read the directory (by name = by fid), sort by first index, delete the
files whose first index is 0, the last one becomes the current file. -/
def openEntryLogs (p : Params) (dir : List LogFile) (mt : Meta) : State :=
  let files := sortBy (·.firstIndex) (sortBy (·.fid) dir)
  let nextFid := files.foldl (fun m f => if m < f.fid then f.fid else m) 0
  let out := files.filter (fun f => f.firstIndex != 0)
  match out.getLast? with
  | some cur => { files := out.dropLast, current := cur, next := firstEmptySlot p cur, mt := mt, panicked := false }
  | none => { files := [], current := newFile p (nextFid + 1), next := 0, mt := mt, panicked := false }

/-! ### RaftDiskStorage (storage.go, meta.go) -/

/-- `metaFile.StoreHardState` -/
def storeHardState (m : Meta) (hs : Option HardState) : Meta :=
  match hs with
  | none => m
  | some h => if h.isEmpty then m else { m with hs := h }

/-- `metaFile.StoreSnapshot` -/
def storeSnapshot (m : Meta) (sn : Option Snapshot) : Meta :=
  match sn with
  | none => m
  | some sn => if !sn.isValid then m else { m with snap := sn, snapIndex := sn.index, snapTerm := sn.term }

def initState (p : Params) : State :=
  { files := [], current := newFile p 1, next := 0, mt := ⟨HardState.empty, Snapshot.empty, 0, 0⟩, panicked := false }

/-- `Close` followed by `Init` on the same directory: everything is recomputed from the
files. The pending prefix deletion (`deleteBefore(first-1)`) is re-applied. -/
def reopen (p : Params) (s : State) : Except Err State :=
  let s' := openEntryLogs p (s.files ++ [s.current]) s.mt
  let snap := s'.mt.snap
  let first := if s'.mt.snapIndex > 0 then s'.mt.snapIndex + 1 else logFirstIndex s'
  if snap.index != 0 && snap.index + 1 != first then .error .initFailed
  else
    match deleteBefore p s' (first - 1) with
    | .ok s'' => .ok s''
    | .error _ => .ok s'

def firstIndex (s : State) : Nat := logFirstIndex s

/-- `RaftDiskStorage.LastIndex` -/
def lastIndex (p : Params) (s : State) : Nat :=
  let li := logLastIndex p s
  let si := s.mt.snapIndex
  if li < si then si else li

/-- `RaftDiskStorage.Term` -/
def term (p : Params) (s : State) (idx : Nat) : Except Err Nat :=
  match seekEntry p s idx with
  | .ok e => .ok e.term
  | .error err =>
    let si := s.mt.snapIndex
    if idx < si then .error .compacted
    else if idx == si then .ok s.mt.snapTerm
    else .error err

/-- `RaftDiskStorage.Entries` -/
def entries (p : Params) (s : State) (lo hi maxSize : Nat) : Except Err (Array Entry) :=
  if lo < logFirstIndex s then .error .compacted
  else if hi > logLastIndex p s + 1 then .error .unavailable
  else .ok (allEntries p s lo hi maxSize)

/-- `RaftDiskStorage.CreateSnapshot(i, cs, data)`; `sn` carries cs/data, index and term are set here. -/
def createSnapshot (p : Params) (s : State) (i : Nat) (sn : Snapshot) : Except Err State :=
  if i < logFirstIndex s then .error .snapOutOfDate
  else
    match seekEntry p s i with
    | .error e => .error e
    | .ok e => .ok { s with mt := storeSnapshot s.mt (some { sn with index := i, term := e.term }) }

/-- `RaftDiskStorage.Save`: entries, then hard state, then snapshot. -/
def save (p : Params) (s : State) (hs : Option HardState) (ents : List Entry) (sn : Option Snapshot) : State :=
  let s := addEntries p s ents
  { s with mt := storeSnapshot (storeHardState s.mt hs) sn }

end OG.C17
