/-
C17 — line-protocol driver of the model (core only).  One op per line, one answer per line.

  new                                   fresh directory, `Init`
  save <hs> <snap> <first> <groups>     hs: `-` | t,v,c    snap: `-` | idx,term,vnil,conf,data
                                        groups: `-` | n*term,typ,payload;…  (consecutive indexes from <first>)
                                        payload: hex | `r<len>x<hh>` (len bytes hh) | empty
  mksnap <i> <vnil> <conf> <data>       CreateSnapshot
  delbefore <i>                         DeleteBefore
  reopen                                Close + Init on the same directory
  crashrotate                           Init on the image of a crash inside `rotate` (correspondence only)
  first | last | term <i> | ents <lo> <hi> <max> | snap | hs | files
  renumber <d>                          the entry files were renamed while the store was closed: every file id + d
  new <rw>                              as `new`; the file wrapper the real store runs on (1 | 2) is not part of the model
  pend <save… | mksnap… | delbefore…>   remember the mutation list of the operation on the current state (Crash.lean)
  muts                                  that list: count, hash, head and tail of the canonical texts
  crash <j> <k> <lo>                    `Init` on the image with mutations 0…j-1 complete and k bytes of mutation j,
                                        questioned: first/last, hard state, snapshot, two windows of entries, terms, files
-/
import OG.C17.Crash

namespace OG.C17
open OG.Gen.C17 (goParams)

def hexVal (c : Char) : Option Nat :=
  if '0' ≤ c ∧ c ≤ '9' then some (c.toNat - '0'.toNat)
  else if 'a' ≤ c ∧ c ≤ 'f' then some (c.toNat - 'a'.toNat + 10)
  else none

def parseHex : List Char → ByteArray → Option ByteArray
  | [], acc => some acc
  | a :: b :: rest, acc => do
    let x ← hexVal a
    let y ← hexVal b
    parseHex rest (acc.push (x * 16 + y).toUInt8)
  | _, _ => none

/-- `n` copies of byte `b` (by doubling; payloads of several MiB) -/
partial def repBytes (n : Nat) (b : UInt8) : ByteArray :=
  if n == 0 then ByteArray.empty
  else
    let h := repBytes (n / 2) b
    let d := h ++ h
    if n % 2 == 1 then d.push b else d

def parsePayload (s : String) : Option ByteArray :=
  if s.startsWith "r" then
    match (s.drop 1).toString.splitOn "x" with
    | [n, hh] => do
      let n ← n.toNat?
      let b ← parseHex hh.toList ByteArray.empty
      if b.size == 1 then some (repBytes n (b.get! 0)) else none
    | _ => none
  else parseHex s.toList ByteArray.empty

def parseNats (s : String) : Option (List Nat) := (s.splitOn ",").mapM (·.toNat?)

def parseHS (s : String) : Option (Option HardState) :=
  if s == "-" then some none
  else match parseNats s with
    | some [t, v, c] => some (some ⟨t, v, c⟩)
    | _ => none

def parseSnap (s : String) : Option (Option Snapshot) :=
  if s == "-" then some none
  else match s.splitOn "," with
    | [i, t, vn, conf, data] => do
      let i ← i.toNat?
      let t ← t.toNat?
      if vn != "0" && vn != "1" then none
      some (some ⟨i, t, vn == "1", conf, data⟩)
    | _ => none

/-- expand `n*term,typ,payload` groups into entries with consecutive indexes -/
def parseGroups (first : Nat) (s : String) : Option (List Entry) :=
  if s == "-" then some []
  else do
    let gs ← (s.splitOn ";").mapM fun g =>
      match g.splitOn "*" with
      | [n, body] =>
        match body.splitOn "," with
        | [t, ty, pl] => do
          let n ← n.toNat?
          let t ← t.toNat?
          let ty ← ty.toNat?
          let d ← parsePayload pl
          some (n, t, ty, d)
        | _ => none
      | _ => none
    let (_, out) := gs.foldl (fun (acc : Nat × Array Entry) (g : Nat × Nat × Nat × ByteArray) =>
      let (n, t, ty, d) := g
      (List.range n).foldl (fun (acc : Nat × Array Entry) _ => (acc.1 + 1, acc.2.push ⟨t, acc.1, ty, d⟩)) acc) (first, #[])
    some out.toList

def errName : Err → String
  | .compacted => "compacted" | .unavailable => "unavailable" | .notFound => "notfound"
  | .snapOutOfDate => "outofdate" | .invalid => "invalid" | .initFailed => "init"

def fnvStep (h : UInt64) (x : UInt64) : UInt64 := (h ^^^ x) * 1099511628211

def hashEntry (h : UInt64) (e : Entry) : UInt64 :=
  let h := fnvStep h e.index.toUInt64
  let h := fnvStep h e.term.toUInt64
  let h := fnvStep h e.typ.toUInt64
  let h := fnvStep h e.data.size.toUInt64
  e.data.foldl (fun h b => fnvStep h b.toUInt64) h

def showEntries (es : Array Entry) : String :=
  let h := es.foldl hashEntry 14695981039346656037
  let ends := if es.size == 0 then "-" else s!"{es[0]!.index}..{es[es.size - 1]!.index}"
  s!"ok n={es.size} {ends} h={h.toNat}"

def showSnap (s : Snapshot) : String :=
  s!"{s.index},{s.term},{if s.votersNil then 1 else 0},{s.conf},{s.data}"

def showFiles (p : Params) (s : State) : String :=
  let fs := sortBy (·.fid) (s.files ++ [s.current])
  fs.foldl (fun acc f => acc ++ s!" {f.fid}:{f.size p}:{f.firstIndex}") "ok"

def withPanic (s : State) (ans : String) : String := if s.panicked then "err panic" else ans

/-! ### crash images -/

def Mut.text : Mut → String
  | .rmLast fid => s!"r:{fid}"
  | .rmFirst fid => s!"r:{fid}"
  | .trunc fid size => s!"t:{fid}={size}"
  | .create fid => s!"c:{fid}"
  | .fill fid n => s!"w:{fid}@0+{n}"
  | .pay fid off d => s!"w:{fid}@{off}+{4 + d.size}"
  | .slot fid i _ => s!"w:{fid}@{OG.Gen.C17.entrySize * i}+32"
  | .zero fid k n => s!"w:{fid}@{OG.Gen.C17.entrySize * k}+{4 + n}"
  | .hs _ => s!"w:m@{OG.Gen.C17.hardStateOffset}"
  | .snap _ => s!"w:m@{OG.Gen.C17.snapshotIndex}"

def showMuts (ms : List Mut) : String :=
  let n := ms.length
  let (_, h, shown) := ms.foldl (fun (acc : Nat × UInt64 × Array String) m =>
    let (i, h, shown) := acc
    let t := m.text
    let h := t.toUTF8.foldl (fun h b => fnvStep h b.toUInt64) h
    let h := fnvStep h 10
    let shown := if i < 10 || i + 4 ≥ n then (if i + 4 == n && i > 10 then (shown.push "…").push t else shown.push t) else shown
    (i + 1, h, shown)) (0, (14695981039346656037 : UInt64), #[])
  s!"ok n={n} h={h.toNat} {" ".intercalate shown.toList}"

def entsDigest (p : Params) (s : State) (lo hi : Nat) : String :=
  match entries p s lo hi 4611686018427387904 with
  | .error e => "err:" ++ errName e
  | .ok es =>
    let h := es.foldl hashEntry 14695981039346656037
    let ends := if es.size == 0 then "-" else s!"{es[0]!.index}..{es[es.size - 1]!.index}"
    s!"{es.size}:{ends}:{h.toNat}"

def termDigest (p : Params) (s : State) (i : Nat) : String :=
  match term p s i with
  | .ok t => toString t
  | .error e => errName e

def filesDigest (p : Params) (s : State) : String :=
  let fs := sortBy (·.fid) (s.files ++ [s.current])
  if fs.isEmpty then "-" else ",".intercalate (fs.map fun f => s!"{f.fid}:{f.size p}:{f.firstIndex}")

/-- what the harness asks a store opened on a crash image -/
def digest (p : Params) (s : State) (lo : Nat) : String :=
  let lf := logFirstIndex s
  let ll := logLastIndex p s
  let aLo := max lf lo
  let aHi := min (ll + 1) (aLo + 60)
  let aHi := if aHi < aLo then aLo else aHi
  let bHi := ll + 1
  let bLo := max lf (bHi - min bHi 9)
  let bLo := if bLo > bHi then bHi else bLo
  let ts := [lf - 1, lf, ll, ll + 1, s.mt.snapIndex].map (termDigest p s)
  s!"ok f={firstIndex s} l={lastIndex p s} lf={lf} ll={ll} hs={s.mt.hs.term},{s.mt.hs.vote},{s.mt.hs.commit} snap={showSnap s.mt.snap} si={s.mt.snapIndex},{s.mt.snapTerm} a={aLo}-{aHi}={entsDigest p s aLo aHi} b={bLo}-{bHi}={entsDigest p s bLo bHi} t={"/".intercalate ts} files={filesDigest p s}"

/-- the mutation list of an operation line on state `s` -/
def pendMuts (p : Params) (s : State) (toks : List String) : Option (List Mut) :=
  match toks with
  | ["save", hs, sn, first, groups] =>
    match parseHS hs, parseSnap sn, first.toNat?.bind (parseGroups · groups) with
    | some hs, some sn, some ents => some (saveMuts p s hs ents sn)
    | _, _, _ => none
  | ["mksnap", i, vn, conf, data] =>
    match i.toNat? with
    | some i => if vn != "0" && vn != "1" then none else some (mksnapMuts p s i ⟨0, 0, vn == "1", conf, data⟩)
    | none => none
  | ["delbefore", i] => i.toNat?.map (deleteBeforeMuts p s)
  | _ => none

def step (p : Params) (s : State) (line : String) : State × String :=
  match (line.trimAscii.toString.splitOn " ").filter (· ≠ "") with
  | ["new"] => (initState p, "ok")
  | ["new", rw] => if rw == "1" || rw == "2" then (initState p, "ok") else (s, "bad-op")
  | ["renumber", d] =>
    -- the entry files were renamed while the store was closed: every file id grows by d
    match d.toNat? with
    | some d =>
      let re (f : LogFile) : LogFile := { f with fid := f.fid + d }
      ({ s with files := s.files.map re, current := re s.current }, "ok")
    | none => (s, "bad-op")
  | ["save", hs, sn, first, groups] =>
    match parseHS hs, parseSnap sn, first.toNat?, first.toNat?.bind (parseGroups · groups) with
    | some hs, some sn, some _, some ents =>
      let s' := save p s hs ents sn
      (s', withPanic s' "ok")
    | _, _, _, _ => (s, "bad-op")
  | ["mksnap", i, vn, conf, data] =>
    match i.toNat? with
    | some i =>
      if vn != "0" && vn != "1" then (s, "bad-op")
      else match createSnapshot p s i ⟨0, 0, vn == "1", conf, data⟩ with
        | .ok s' => (s', "ok")
        | .error e => (s, "err " ++ errName e)
    | none => (s, "bad-op")
  | ["delbefore", i] =>
    match i.toNat? with
    | some i =>
      match deleteBefore p s i with
      | .ok s' => (s', "ok")
      | .error e => (s, "err " ++ errName e)
    | none => (s, "bad-op")
  | ["reopen"] =>
    match reopen p s with
    | .ok s' => (s', "ok")
    | .error e => (s, "err " ++ errName e)
  | ["crashrotate"] =>
    -- the process died inside `rotate`: current file truncated, next file created and empty
    if s.next == 0 then (s, "bad-op")
    else
      let e := getSlot s.current (s.next - 1)
      let off := e.off + sliceSize p s.current e.off
      match reopen p { rotate p s off with next := 0 } with
      | .ok s' => (s', "ok")
      | .error e => (s, "err " ++ errName e)
  | ["first"] => (s, s!"ok {firstIndex s}")
  | ["last"] => (s, s!"ok {lastIndex p s}")
  | ["term", i] =>
    match i.toNat? with
    | some i =>
      match term p s i with
      | .ok t => (s, s!"ok {t}")
      | .error e => (s, "err " ++ errName e)
    | none => (s, "bad-op")
  | ["ents", lo, hi, mx] =>
    match lo.toNat?, hi.toNat?, mx.toNat? with
    | some lo, some hi, some mx =>
      match entries p s lo hi mx with
      | .ok es => (s, showEntries es)
      | .error e => (s, "err " ++ errName e)
    | _, _, _ => (s, "bad-op")
  | ["snap"] => (s, "ok " ++ showSnap s.mt.snap)
  | ["hs"] => (s, s!"ok {s.mt.hs.term},{s.mt.hs.vote},{s.mt.hs.commit} conf={s.mt.snap.conf}")
  | ["files"] => (s, showFiles p s)
  | _ => (s, "bad-op")

/-- driver state: the model state, the remembered mutation list of the pending operation, and
the state with the first `cj` of them applied (`crashFrom_eq`: same answers as `crashAt`) -/
structure DState where
  s : State
  pend : List Mut
  cj : Nat
  cs : State

/-- `pend` / `muts` / `crash` work on the remembered mutation list; everything else is `step` -/
def stepC (p : Params) (d : DState) (line : String) : DState × String :=
  match (line.trimAscii.toString.splitOn " ").filter (· ≠ "") with
  | "pend" :: toks =>
    match pendMuts p d.s toks with
    | some ms => ({ d with pend := ms, cj := 0, cs := d.s }, "ok")
    | none => ({ d with pend := [], cj := 0, cs := d.s }, "bad-op")
  | ["muts"] => (d, showMuts d.pend)
  | ["crash", j, k, lo] =>
    match j.toNat?, k.toNat?, lo.toNat? with
    | some j, some k, some lo =>
      -- bring the remembered prefix state forward to j complete mutations
      let d := if d.cj ≤ j && j ≤ d.pend.length then { d with cj := j, cs := applyMuts p d.cs ((d.pend.take j).drop d.cj) } else d
      let c := if d.cj == j then crashFrom p d.pend j d.cs j k else crashAt p d.s d.pend j k
      match c with
      | none => (d, "bad-op")
      | some c =>
        if c.panicked then (d, "err panic")
        else match recover p c with
          | .ok s' => (d, digest p s' lo)
          | .error _ => (d, "err init")
    | _, _, _ => (d, "bad-op")
  | _ =>
    let (s', ans) := step p d.s line
    ({ d with s := s', pend := [], cj := 0, cs := s' }, ans)

partial def loop (h : IO.FS.Stream) (out : IO.FS.Stream) (d : DState) : IO Unit := do
  let line ← h.getLine
  if line.isEmpty then return ()
  let (d', ans) := stepC goParams d line
  out.putStrLn ans
  loop h out d'

def main : IO Unit := do
  loop (← IO.getStdin) (← IO.getStdout) ⟨initState goParams, [], 0, initState goParams⟩

end OG.C17

def main : IO Unit := OG.C17.main
