/-
C17 — crash inside an operation: what `Init` finds afterwards.

`Save`, `DeleteBefore` and `CreateSnapshot` are sequences of file-system mutations
(`OG/C17/Crash.lean`: `saveMuts`, …, transcribed from the code in the order the regenerated
facts `OG.Gen.C17.order_*` state).  A process that dies leaves the directory after a prefix of
that sequence; `crashStates` lists these directories, plus the torn variants of a write that
are harmless (`safeTorn`).  The theorems: from every one of them `Init` succeeds, the
representation invariant holds again, and the store stands for a state the Raft storage
contract allows after a crash (`CrashSpec`): the log is the old log — possibly already cut
back, from the end, to the point where the save in flight starts — followed by a prefix of
the entries being saved; no hole, no foreign term; the hard state is the new one only if all
entries are there, the snapshot only if the hard state is.  Torn writes that are *not*
harmless are refuted by witnesses (`torn_slot_breaks`, `torn_zero_breaks`).
-/
import OG.C17.Props
import OG.C17.Lemmas.Crash

namespace OG.C17

variable {p : Params}

/-- the old log cut back to its first `M` entries (an empty log reports first index 1) -/
def SpecState.cutAt (σ : SpecState) (M : Nat) : SpecState :=
  if σ.ents.take M = [] then { σ with first := 1, ents := [] } else { σ with ents := σ.ents.take M }

/-- what a crash inside `Save hs ents sn` may leave behind, before the compaction a reopen
may apply: -/
inductive CrashSpec (σ : SpecState) (hs : Option HardState) (ents : List Entry) (sn : Option Snapshot) : SpecState → Prop
  /-- the first `j` entries of the save are there (`j = 0`: nothing happened), hard state and snapshot are the old ones -/
  | pref (j : Nat) : j ≤ ents.length → CrashSpec σ hs ents sn (σ.append (ents.take j))
  /-- a conflicting save had begun to discard the old entries from its first index on: the old
  log ends somewhere at or behind that index (at a file boundary, or exactly there), none of the
  new entries is there yet -/
  | cut (M : Nat) (e0 : Entry) (rest : List Entry) : ents = e0 :: rest → σ.ents ≠ [] → e0.index - σ.first ≤ M →
      CrashSpec σ hs ents sn (σ.cutAt M)
  /-- all entries and the hard state, the old snapshot -/
  | entsHs : CrashSpec σ hs ents sn ((σ.append ents).setHardState hs)
  /-- everything: the state after the save -/
  | all : CrashSpec σ hs ents sn (σ.saveKeep hs ents sn)

theorem absD_of_flat {a : Nat} {ess : List (List Entry)} {ec X : List Entry} (m : Meta) (h : ess.flatten ++ ec = X) :
    absD a ess ec m = ⟨if X = [] then 1 else a, X, m.hs, m.snap⟩ := by
  subst h; rfl

theorem cutAt_mk (a : Nat) (L : List Entry) (h : HardState) (sn : Snapshot) (M : Nat) :
    (⟨if L.take M = [] then 1 else a, L.take M, h, sn⟩ : SpecState) = SpecState.cutAt ⟨a, L, h, sn⟩ M := by
  by_cases hX : L.take M = [] <;> simp [SpecState.cutAt, hX]

/-- the entries phase of a `Save`: its crash states, and that the whole list is `addEntries` -/
theorem addEntries_crash (hp : p.WF) {s : State} {a : Nat} {ess : List (List Entry)} {ec : List Entry}
    (r : LogRep p s a ess ec) (new : List Entry) (hok : SaveOK p (absOf a ess ec s.mt) new) :
    (∀ x ∈ crashStates p s (addEntriesMuts p s new), x.mt = s.mt ∧ ∃ a' ess' ec', DirRep p x a' ess' ec' ∧
        ((∃ j, j ≤ new.length ∧ absD a' ess' ec' s.mt = (absOf a ess ec s.mt).append (new.take j)) ∨
         (∃ M e0 rest, new = e0 :: rest ∧ (absOf a ess ec s.mt).ents ≠ [] ∧ e0.index - (absOf a ess ec s.mt).first ≤ M ∧
            absD a' ess' ec' s.mt = (absOf a ess ec s.mt).cutAt M))) ∧
      SameDir (applyMuts p s (addEntriesMuts p s new)) (addEntries p s new) := by
  cases new with
  | nil =>
    refine ⟨?_, SameDir.refl s⟩
    intro x hx
    simp only [addEntriesMuts, crashStates, List.mem_singleton] at hx
    subst hx
    refine ⟨rfl, a, ess, ec, r.dirRep, Or.inl ⟨0, Nat.le_refl _, ?_⟩⟩
    rw [absD_eq_absOf _ r.curNe]; rfl
  | cons e0 rest =>
    have hseq := hok.seq e0 rest rfl
    by_cases hnil : ess.flatten ++ ec = []
    · -- empty log
      have hec : ec = [] := r.all_nil_iff.mp hnil
      have hess : ess = [] := r.curNe hec
      subst hec; subst hess
      have hf : s.files = [] := r.files_nil_iff.mpr rfl
      have hsg : slotGe p s e0.index = (none, none) := by simp [slotGe, r.cur.slotGe_nil, hf]
      have hcf : conflict p s e0.index = s := by simp [conflict, hsg]
      have hcm : conflictMuts p s e0.index = [] := by simp [conflictMuts, hsg]
      have r0 : LogRepW p s e0.index [] [] :=
        ⟨by rw [hf]; exact Chain.nil p _, r.cur, Seq.nil _, r.next_eq, r.fidCur, r.fids, r.np, r.mtOK, (hok.ok e0 (by simp)).index_pos⟩
      have hoff := r0.cur.next_offset
      rw [← r0.next_eq] at hoff
      obtain ⟨hc, hsd⟩ := loop_crash hp (e0 :: rest) s [] [] r0 hok.ok (by simpa using hseq)
      have hmuts : addEntriesMuts p s (e0 :: rest) = addLoopMuts p (e0 :: rest) s (p.dataOff + total []) := by
        simp only [addEntriesMuts, hcf, hcm, List.nil_append]
        rw [hoff]
      rw [hmuts]
      refine ⟨?_, ?_⟩
      · intro x hx
        obtain ⟨j, hj, ess', ec', h1, h2, h3⟩ := hc x hx
        refine ⟨h3, e0.index, ess', ec', h1, Or.inl ⟨j, hj, ?_⟩⟩
        simp only [List.flatten_nil, List.nil_append] at h2
        rw [absD_of_flat _ h2]
        cases j with
        | zero => simp [absOf, SpecState.append]
        | succ j => simp [absOf, SpecState.append, List.take_succ_cons]
      · rw [addEntries_cons, hcf]
        simp only [addFrom]
        rw [hoff]
        exact hsd
    · -- a log with entries: conflict handling, then the loop
      have hecne : ec ≠ [] := fun h => hnil (r.all_nil_iff.mpr h)
      have hrange := hok.range e0 rest rfl (by simpa [absOf] using hnil)
      simp only [absOf, hecne, if_false] at hrange
      obtain ⟨hcc, hcsd⟩ := conflict_crash hp r e0.index hnil hrange.1 hrange.2
      obtain ⟨ess1, ec1, r1, hall1⟩ := r.conflict_ok hp e0.index hnil hrange.1 hrange.2
      have hoff := r1.cur.next_offset
      rw [← r1.next_eq] at hoff
      have hlen1 : ess1.flatten.length + ec1.length = e0.index - a := by
        have := congrArg List.length hall1
        simp only [List.length_append, List.length_take] at this
        have := hrange.2
        simp only [List.length_append] at this
        omega
      obtain ⟨hlc, hlsd⟩ := loop_crash hp (e0 :: rest) _ ess1 ec1 r1 hok.ok
        (by rw [show a + ess1.flatten.length + ec1.length = e0.index by omega]; exact hseq)
      have hmuts : addEntriesMuts p s (e0 :: rest) =
          conflictMuts p s e0.index ++ addLoopMuts p (e0 :: rest) (conflict p s e0.index) (p.dataOff + total ec1) := by
        simp only [addEntriesMuts]
        rw [hoff]
      have hσents : (absOf a ess ec s.mt).ents ≠ [] := by simpa [absOf] using hnil
      have hσfirst : (absOf a ess ec s.mt).first = a := by simp [absOf, hecne]
      rw [hmuts]
      refine ⟨?_, ?_⟩
      · intro x hx
        rcases mem_crashStates_append hx with hx | hx
        · obtain ⟨M, hM, ess', ec', h1, h2, h3⟩ := hcc x hx
          refine ⟨h3, a, ess', ec', h1, Or.inr ⟨M, e0, rest, rfl, hσents, by rw [hσfirst]; exact hM, ?_⟩⟩
          rw [absD_of_flat _ h2]
          simp only [absOf, hecne, if_false]
          exact cutAt_mk _ _ _ _ _
        · obtain ⟨y, hy, hxy⟩ := mem_crashStates_sameDir hcsd hx
          obtain ⟨j, hj, ess', ec', h1, h2, h3⟩ := hlc y hy
          refine ⟨by rw [hxy.2.2.1, h3, conflict_mt], a, ess', ec', h1.of_sameDir hxy, ?_⟩
          rw [hall1] at h2
          cases j with
          | zero =>
            refine Or.inr ⟨e0.index - a, e0, rest, rfl, hσents, by rw [hσfirst]; exact Nat.le_refl _, ?_⟩
            simp only [List.take_zero, List.append_nil] at h2
            rw [absD_of_flat _ h2]
            simp only [absOf, hecne, if_false]
            exact cutAt_mk _ _ _ _ _
          | succ j =>
            refine Or.inl ⟨j + 1, hj, ?_⟩
            rw [absD_of_flat _ h2]
            have hemp : (ess.flatten ++ ec).isEmpty = false := by simp [hnil]
            simp [absOf, SpecState.append, List.take_succ_cons, hemp, hecne]
      · rw [applyMuts_append, addEntries_cons]
        simp only [addFrom]
        rw [hoff]
        exact (applyMuts_sameDir hcsd _).trans hlsd

/-! ### the meta phase -/

theorem DirRep.with_mt {t : State} {a : Nat} {ess : List (List Entry)} {ec : List Entry} (r : DirRep p t a ess ec) (m : Meta)
    (hm : m.snapIndex = m.snap.index ∧ m.snapTerm = m.snap.term) : DirRep p { t with mt := m } a ess ec :=
  ⟨r.chain, r.cur, r.curSeq, rfl, r.fidCur, r.fids, r.np, hm, r.aPos⟩

theorem applyMuts_hsMuts (t : State) (hs : Option HardState) :
    applyMuts p t (hsMuts hs) = { t with mt := storeHardState t.mt hs } := by
  cases hs with
  | none => rfl
  | some h => by_cases hh : h.isEmpty <;> simp [hsMuts, storeHardState, hh, applyMuts, applyMut]

theorem applyMuts_snapMuts (t : State) (sn : Option Snapshot) :
    applyMuts p t (snapMuts sn) = { t with mt := storeSnapshot t.mt sn } := by
  cases sn with
  | none => rfl
  | some x => by_cases hv : x.isValid <;> simp [snapMuts, storeSnapshot, hv, applyMuts, applyMut]

/-- hard state, then snapshot: every crash state keeps the entry files and has the old meta,
or the new hard state, or the new hard state and the new snapshot -/
theorem meta_crash {t : State} {a : Nat} {ess : List (List Entry)} {ec : List Entry} (r : DirRep p t a ess ec)
    (hs : Option HardState) (sn : Option Snapshot) :
    ∀ x ∈ crashStates p t (hsMuts hs ++ snapMuts sn),
      (x = t ∨ x = { t with mt := storeHardState t.mt hs } ∨ x = { t with mt := storeSnapshot (storeHardState t.mt hs) sn }) := by
  intro x hx
  rcases mem_crashStates_append hx with hx | hx
  · cases hs with
    | none => simp only [hsMuts, crashStates, List.mem_singleton] at hx; exact Or.inl hx
    | some h =>
      by_cases hh : h.isEmpty
      · simp only [hsMuts, hh, if_true, crashStates, List.mem_singleton] at hx; exact Or.inl hx
      · simp only [hsMuts, hh, Bool.false_eq_true, if_false, crashStates, safeTorn, List.nil_append, List.mem_cons,
          List.mem_nil_iff, or_false] at hx
        rcases hx with rfl | rfl
        · exact Or.inl rfl
        · right; left; simp [applyMut, storeHardState, hh]
  · rw [applyMuts_hsMuts] at hx
    cases sn with
    | none =>
      simp only [snapMuts, crashStates, List.mem_singleton] at hx
      right; left; exact hx
    | some y =>
      by_cases hv : y.isValid
      · simp only [snapMuts, hv, if_true, crashStates, safeTorn, List.nil_append, List.mem_cons, List.mem_nil_iff, or_false] at hx
        rcases hx with rfl | rfl
        · right; left; rfl
        · right; right; simp [applyMut, storeSnapshot, hv]
      · simp only [snapMuts, hv, Bool.false_eq_true, if_false, crashStates, List.mem_singleton] at hx
        right; left; exact hx

theorem Recovers.of_sameDir {x y : State} {σ : SpecState} (h : Recovers p y σ) (hxy : SameDir x y) : Recovers p x σ := by
  unfold Recovers at *
  rw [recover_sameDir hxy]; exact h

/-- applied completely, the mutation list of a `Save` is `save` -/
theorem saveMuts_sound (hp : p.WF) (s : State) (hinv : Inv p s) (hs : Option HardState) (ents : List Entry) (sn : Option Snapshot)
    (hok : SaveOK p (abs p s) ents) :
    SameDir (applyMuts p s (saveMuts p s hs ents sn)) (save p s hs ents sn) := by
  obtain ⟨a, ess, ec, r⟩ := hinv
  rw [r.abs_eq hp] at hok
  obtain ⟨_, hsd⟩ := addEntries_crash hp r ents hok
  simp only [saveMuts]
  rw [applyMuts_append, applyMuts_append, applyMuts_snapMuts, applyMuts_hsMuts]
  obtain ⟨h1, h2, h3, h4⟩ := hsd
  exact ⟨h1, h2, by simp only [save, h3], h4⟩

/-- **crash inside a Save** — for every directory a process dying inside `Save hs ents sn` can
leave behind (after any prefix of its file-system mutations, and with any prefix of the bytes of
a payload write, or a slot write cut inside the term field): `Init` succeeds, the invariant
holds, and the store stands for a state `CrashSpec` allows — up to the compaction a reopen may
apply below the snapshot index. -/
theorem recover_is_prefix (hp : p.WF) (s : State) (hinv : Inv p s) (hs : Option HardState) (ents : List Entry) (sn : Option Snapshot)
    (hok : SaveOK p (abs p s) ents) :
    ∀ x ∈ crashStates p s (saveMuts p s hs ents sn), ∃ σ', CrashSpec (abs p s) hs ents sn σ' ∧ Recovers p x σ' := by
  obtain ⟨a, ess, ec, r⟩ := hinv
  rw [r.abs_eq hp] at hok ⊢
  obtain ⟨hcr, hsd⟩ := addEntries_crash hp r ents hok
  intro x hx
  simp only [saveMuts, List.append_assoc] at hx
  rcases mem_crashStates_append hx with hx | hx
  · -- inside the entries phase
    obtain ⟨hmt, a', ess', ec', hd, hshape⟩ := hcr x hx
    have hrec := hd.recovers hp
    rw [hmt] at hrec
    rcases hshape with ⟨j, hj, hj2⟩ | ⟨M, e0, rest, h1, h2, h3, h4⟩
    · exact ⟨_, CrashSpec.pref j hj, by rw [← hj2]; exact hrec⟩
    · exact ⟨_, CrashSpec.cut M e0 rest h1 h2 h3, by rw [← h4]; exact hrec⟩
  · -- the entries are complete: hard state, snapshot
    obtain ⟨aE, essE, ecE, rU, habsU⟩ := r.save_ok hp none ents none hok
    have hU : SameDir (applyMuts p s (addEntriesMuts p s ents)) (save p s none ents none) := by
      obtain ⟨h1, h2, h3, h4⟩ := hsd
      exact ⟨h1, h2, by simp only [save, h3]; rfl, h4⟩
    have hUmt : (save p s none ents none).mt = s.mt := by simp [save, addEntries_mt, storeSnapshot, storeHardState]
    have hkeep : (absOf a ess ec s.mt).saveKeep none ents none = (absOf a ess ec s.mt).append ents := by
      simp [SpecState.saveKeep, SpecState.setHardState, SpecState.setSnapshot]
    rw [hkeep, hUmt] at habsU
    obtain ⟨y, hy, hxy⟩ := mem_crashStates_sameDir hU hx
    have hdU := rU.dirRep
    have hcur := rU.curNe
    rcases meta_crash hdU hs sn y hy with rfl | rfl | rfl
    · refine ⟨_, CrashSpec.pref ents.length (Nat.le_refl _), Recovers.of_sameDir ?_ hxy⟩
      have := hdU.recovers hp
      rw [absD_eq_absOf _ hcur, hUmt, habsU] at this
      rwa [List.take_length]
    · refine ⟨_, CrashSpec.entsHs, Recovers.of_sameDir ?_ hxy⟩
      have := (hdU.with_mt _ (storeHardState_ok _ hs rU.mtOK)).recovers hp
      rw [absD_eq_absOf _ hcur] at this
      simp only [hUmt] at this
      have h2 := absOf_save_meta aE essE ecE s.mt hs none
      simp only [storeSnapshot, SpecState.setSnapshot] at h2
      rw [h2, habsU] at this
      rw [hUmt]; exact this
    · refine ⟨_, CrashSpec.all, Recovers.of_sameDir ?_ hxy⟩
      have := (hdU.with_mt _ (storeSnapshot_ok _ sn (storeHardState_ok _ hs rU.mtOK))).recovers hp
      rw [absD_eq_absOf _ hcur] at this
      simp only [hUmt] at this
      rw [absOf_save_meta, habsU] at this
      rw [hUmt]; exact this

/-! ### crash inside `DeleteBefore` and `CreateSnapshot` -/

theorem mem_crashStates_rmFirst (s : State) : ∀ (l : List LogFile) (k : Nat),
    ∀ x ∈ crashStates p { s with files := s.files.drop k } (l.map (fun f => Mut.rmFirst f.fid)),
      ∃ k', k ≤ k' ∧ k' ≤ k + l.length ∧ x = { s with files := s.files.drop k' } := by
  intro l
  induction l with
  | nil =>
    intro k x hx
    simp only [List.map_nil, crashStates, List.mem_singleton] at hx
    exact ⟨k, Nat.le_refl _, by simp, hx⟩
  | cons f l ih =>
    intro k x hx
    simp only [List.map_cons, crashStates, safeTorn, List.nil_append, List.mem_cons] at hx
    rcases hx with rfl | hx
    · exact ⟨k, Nat.le_refl _, by simp, rfl⟩
    · have : applyMut p { s with files := s.files.drop k } (.rmFirst f.fid) = { s with files := s.files.drop (k + 1) } := by
        simp [applyMut, List.tail_drop]
      rw [this] at hx
      obtain ⟨k', h1, h2, h3⟩ := ih (k + 1) x hx
      exact ⟨k', by omega, by simp only [List.length_cons]; omega, h3⟩

/-- **crash inside a DeleteBefore**: the files go oldest first, every directory in between is
the store compacted a little less far — a compaction the contract allows for `DeleteBefore i` -/
theorem delete_crash_ok (hp : p.WF) (s : State) (hinv : Inv p s) (i : Nat) :
    ∀ x ∈ crashStates p s (deleteBeforeMuts p s i),
      ∃ f', (abs p s).mayCompactTo i f' ∧ Recovers p x ((abs p s).compactTo f') := by
  obtain ⟨a, ess, ec, r⟩ := hinv
  rw [r.abs_eq hp]
  have hsame : ∀ x, x = s → ∃ f', (absOf a ess ec s.mt).mayCompactTo i f' ∧ Recovers p x ((absOf a ess ec s.mt).compactTo f') := by
    intro x hx; rw [hx]
    refine ⟨(absOf a ess ec s.mt).first, ⟨Nat.le_refl _, Or.inl rfl⟩, ?_⟩
    have := r.dirRep.recovers hp
    rw [absD_eq_absOf _ r.curNe] at this
    simpa [SpecState.compactTo] using this
  have h0 : ({ s with files := s.files.drop 0 } : State) = s := by simp
  intro x hx
  by_cases hec : ec = []
  · have hess := r.curNe hec
    subst hec; subst hess
    have hf : s.files = [] := r.files_nil_iff.mpr rfl
    have hsg : slotGe p s i = (none, none) := by simp [slotGe, r.cur.slotGe_nil, hf]
    simp only [deleteBeforeMuts, hsg, crashStates, List.mem_singleton] at hx
    exact hsame x hx
  · by_cases hlt : i < a
    · have h1 := r.slotGe_below i hlt
      have : deleteBeforeMuts p s i = [] := by
        simp only [deleteBeforeMuts]
        match hsg : slotGe p s i with
        | (x, none) => rfl
        | (x, some y) => rw [hsg] at h1; simp at h1
      rw [this] at hx
      simp only [crashStates, List.mem_singleton] at hx
      exact hsame x hx
    · have hall : ess.flatten ++ ec ≠ [] := fun h => hec (r.all_nil_iff.mp h)
      have hecl : 0 < ec.length := List.length_pos_iff.mpr hec
      -- the files that go, and the bound on the first index of every state in between
      have key : ∀ j, j ≤ ess.length → a + pre ess j ≤ i → ∀ l : List LogFile, l.length = j →
          (∀ x ∈ crashStates p s (l.map (fun f => Mut.rmFirst f.fid)),
            ∃ f', (absOf a ess ec s.mt).mayCompactTo i f' ∧ Recovers p x ((absOf a ess ec s.mt).compactTo f')) := by
        intro j hj hji l hl x hx
        rw [← h0] at hx
        obtain ⟨k, _, hk2, rfl⟩ := mem_crashStates_rmFirst (p := p) s l 0 x hx
        rw [hl, Nat.zero_add] at hk2
        have hd := r.drop_files k
        refine ⟨a + pre ess k, ⟨by simp [absOf, hec], ?_⟩, ?_⟩
        · right
          have hple := pre_le_flatten ess k
          have hmono := pre_mono ess hk2
          simp only [absOf, hec, if_false, SpecState.logLast]
          have : (ess.flatten ++ ec).isEmpty = false := by simp [hall]
          simp only [this, Bool.false_eq_true, if_false, List.length_append]
          omega
        · have := hd.dirRep.recovers hp
          rw [absD_eq_absOf _ hd.curNe, absOf_drop r k hec] at this
          exact this
      by_cases hcur : curStart a ess ≤ i
      · have hsg := r.slotGe_cur hec i hcur
        have hm : deleteBeforeMuts p s i = s.files.map (fun f => Mut.rmFirst f.fid) := by
          simp [deleteBeforeMuts, hsg]
        rw [hm] at hx
        refine key ess.length (Nat.le_refl _) ?_ s.files r.chain.len x hx
        rw [pre_ge ess _ (Nat.le_refl _)]; simp only [curStart] at hcur; exact hcur
      · have hlt2 : i < a + ess.flatten.length := by simp only [curStart] at hcur; omega
        obtain ⟨j, hj, hj1, hj2⟩ := r.chain.locate i (by omega) hlt2
        have hsg := r.slotGe_rot i j hj hj1 hj2
        have hfj : ¬ j ≥ s.files.length := by rw [r.chain.len]; omega
        have hm : deleteBeforeMuts p s i = (s.files.take j).map (fun f => Mut.rmFirst f.fid) := by
          simp [deleteBeforeMuts, hsg, hfj]
        rw [hm] at hx
        exact key j (by omega) hj1 (s.files.take j) (by rw [List.length_take, r.chain.len]; omega) x hx

/-- **crash inside a CreateSnapshot**: one write; before it the old snapshot, after it the new one -/
theorem mksnap_crash_ok (hp : p.WF) (s : State) (hinv : Inv p s) (i : Nat) (sn : Snapshot) :
    ∀ x ∈ crashStates p s (mksnapMuts p s i sn),
      Recovers p x (abs p s) ∨ ∃ s', createSnapshot p s i sn = .ok s' ∧ Inv p s' ∧ Recovers p x (abs p s') := by
  obtain ⟨a, ess, ec, r⟩ := hinv
  have hold : Recovers p s (abs p s) := by
    have := r.dirRep.recovers hp
    rwa [absD_eq_absOf _ r.curNe, ← r.abs_eq hp] at this
  intro x hx
  simp only [mksnapMuts] at hx
  by_cases h1 : i < logFirstIndex s
  · simp only [h1, if_true, crashStates, List.mem_singleton] at hx
    subst hx; exact Or.inl hold
  · simp only [h1, if_false] at hx
    match hse : seekEntry p s i with
    | .error e =>
      simp only [hse, crashStates, List.mem_singleton] at hx
      subst hx; exact Or.inl hold
    | .ok e =>
      simp only [hse] at hx
      by_cases hv : ({ sn with index := i, term := e.term } : Snapshot).isValid
      · simp only [snapMuts, hv, if_true, crashStates, safeTorn, List.nil_append, List.mem_cons, List.mem_nil_iff, or_false] at hx
        rcases hx with rfl | rfl
        · exact Or.inl hold
        · right
          have hcs : createSnapshot p s i sn = .ok { s with mt := storeSnapshot s.mt (some { sn with index := i, term := e.term }) } := by
            simp only [createSnapshot, h1, if_false, hse]
          have r' := r.with_mt _ (storeSnapshot_ok s.mt (some { sn with index := i, term := e.term }) r.mtOK)
          refine ⟨_, hcs, ⟨a, ess, ec, r'⟩, ?_⟩
          have hx : applyMut p s (.snap { sn with index := i, term := e.term }) =
              { s with mt := storeSnapshot s.mt (some { sn with index := i, term := e.term }) } := by
            simp [applyMut, storeSnapshot, hv]
          rw [hx]
          have := r'.dirRep.recovers hp
          rwa [absD_eq_absOf _ r'.curNe, ← r'.abs_eq hp] at this
      · simp only [snapMuts, hv, Bool.false_eq_true, if_false, crashStates, List.mem_singleton] at hx
        subst hx; exact Or.inl hold

/-! ### what `CrashSpec` says, entry by entry -/

/-- **no hole, no foreign term, per entry**: a state a crash inside `Save` may leave holds a
prefix of the old log followed by a prefix of the entries being saved — an entry of the save is
there (with its own term and payload) together with all entries of the save before it, or it is
not there and neither is any later one; the hard state is the old one, or the new one and then
all entries are there; the snapshot is the old one, or the new one and then the hard state is
the new one as well. -/
theorem save_crash_atomic_per_entry (σ σ' : SpecState) (hs : Option HardState) (ents : List Entry) (sn : Option Snapshot)
    (h : CrashSpec σ hs ents sn σ') :
    ∃ M j, j ≤ ents.length ∧ σ'.ents = σ.ents.take M ++ ents.take j ∧
      (σ'.hs = σ.hs ∨ (j = ents.length ∧ σ'.hs = (σ.setHardState hs).hs)) ∧
      (σ'.snap = σ.snap ∨ (j = ents.length ∧ σ'.hs = (σ.setHardState hs).hs ∧ σ'.snap = (σ.setSnapshot sn).snap)) := by
  have happ : ∀ new : List Entry, ∃ M, (σ.append new).ents = σ.ents.take M ++ new ∧ (σ.append new).hs = σ.hs ∧
      (σ.append new).snap = σ.snap := by
    intro new
    cases new with
    | nil => exact ⟨σ.ents.length, by simp [SpecState.append], rfl, rfl⟩
    | cons e0 rest =>
      by_cases he : σ.ents.isEmpty
      · refine ⟨0, ?_, ?_, ?_⟩ <;> simp [SpecState.append, he]
      · refine ⟨e0.index - σ.first, ?_, ?_, ?_⟩ <;> simp [SpecState.append, he]
  have hsh : ∀ τ : SpecState, (τ.setHardState hs).ents = τ.ents ∧ (τ.setHardState hs).snap = τ.snap := by
    intro τ; unfold SpecState.setHardState
    cases hs with
    | none => exact ⟨rfl, rfl⟩
    | some x => by_cases hx : x.isEmpty <;> simp [hx]
  have hsn : ∀ τ : SpecState, (τ.setSnapshot sn).ents = τ.ents ∧ (τ.setSnapshot sn).hs = τ.hs := by
    intro τ; unfold SpecState.setSnapshot
    cases sn with
    | none => exact ⟨rfl, rfl⟩
    | some x => by_cases hx : x.isValid <;> simp [hx]
  have hhs : ∀ τ : SpecState, τ.hs = σ.hs → (τ.setHardState hs).hs = (σ.setHardState hs).hs := by
    intro τ hτ; unfold SpecState.setHardState
    cases hs with
    | none => exact hτ
    | some x => by_cases hx : x.isEmpty <;> simp [hx, hτ]
  have hsnp : ∀ τ : SpecState, τ.snap = σ.snap → (τ.setSnapshot sn).snap = (σ.setSnapshot sn).snap := by
    intro τ hτ; unfold SpecState.setSnapshot
    cases sn with
    | none => exact hτ
    | some x => by_cases hx : x.isValid <;> simp [hx, hτ]
  cases h with
  | pref j hj =>
    obtain ⟨M, h1, h2, h3⟩ := happ (ents.take j)
    exact ⟨M, j, hj, h1, Or.inl h2, Or.inl h3⟩
  | cut M e0 rest h1 h2 h3 =>
    refine ⟨M, 0, Nat.zero_le _, ?_, Or.inl ?_, Or.inl ?_⟩
    · unfold SpecState.cutAt; split <;> simp_all
    · unfold SpecState.cutAt; split <;> rfl
    · unfold SpecState.cutAt; split <;> rfl
  | entsHs =>
    obtain ⟨M, h1, h2, h3⟩ := happ ents
    refine ⟨M, ents.length, Nat.le_refl _, ?_, Or.inr ⟨rfl, hhs _ h2⟩, Or.inl ?_⟩
    · rw [(hsh _).1, h1, List.take_length]
    · rw [(hsh _).2, h3]
  | all =>
    obtain ⟨M, h1, h2, h3⟩ := happ ents
    refine ⟨M, ents.length, Nat.le_refl _, ?_, Or.inr ⟨rfl, ?_⟩, Or.inr ⟨rfl, ?_, ?_⟩⟩
    · simp only [SpecState.saveKeep]
      rw [(hsn _).1, (hsh _).1, h1, List.take_length]
    · simp only [SpecState.saveKeep]; rw [(hsn _).2]; exact hhs _ h2
    · simp only [SpecState.saveKeep]; rw [(hsn _).2]; exact hhs _ h2
    · simp only [SpecState.saveKeep]; exact hsnp _ (by rw [(hsh _).2, h3])

/-! ### non-vacuity -/

/-- the first save of `Props.lean` (three entries into the empty store, the third rolls into a
second file): 9 mutations — per entry a record and a slot, and `trunc, create, fill` of the
rotation — and 52 crash states (10 boundaries + every prefix of the three record writes + the
slot writes cut inside the term) -/
theorem crashStates_save1 :
    (saveMuts p0 (initState p0) none save1 none).map Mut.len = [5, 32, 6, 32, 0, 0, 100, 4, 32] ∧
    (crashStates p0 (initState p0) (saveMuts p0 (initState p0) none save1 none)).length = 52 := by
  constructor <;> decide

/-- … and `recover_is_prefix` applies to all of them -/
example : ∀ x ∈ crashStates p0 (initState p0) (saveMuts p0 (initState p0) none save1 none),
    ∃ σ', CrashSpec (abs p0 (initState p0)) none save1 none σ' ∧ Recovers p0 x σ' :=
  recover_is_prefix p0_wf _ (inv_init p0_wf) none save1 none save1_ok

/-- the conflicting save into the rotated file: remove the newer file, zero the tail of the
older one (one write: 4 + 64 bytes), then the loop, which rotates again -/
theorem crashStates_save2 :
    (saveMuts p0 (save p0 (initState p0) none save1 none) none save2 none).map Mut.len = [0, 68, 5, 32, 0, 0, 100, 5, 32] ∧
    (crashStates p0 (save p0 (initState p0) none save1 none) (saveMuts p0 (save p0 (initState p0) none save1 none) none save2 none)).length = 38 := by
  constructor <;> decide

/-! ### torn writes that are not harmless (finding `torn_write_*`)

The format has no checksum and no commit mark: a slot becomes visible with its index field,
a conflicting append clears the old tail with one long write from the front.  A machine that
dies inside such a write can leave the following behind. -/

theorem mixField_full (new old : Nat) : mixField new old 8 = new := by
  simp [mixField, Nat.mod_one]

theorem zfb_empty (v q lo hi : Nat) (hv : v < 18446744073709551616) (h : hi ≤ lo) : zeroFieldBytes v q lo hi = v := by
  simp only [zeroFieldBytes]
  rw [keepByte_dis (by omega), keepByte_dis (by omega), keepByte_dis (by omega), keepByte_dis (by omega),
    keepByte_dis (by omega), keepByte_dis (by omega), keepByte_dis (by omega), keepByte_dis (by omega)]
  omega

theorem mixField_none (new old : Nat) (h : new < 18446744073709551616) : mixField new old 0 = old % 18446744073709551616 := by
  simp only [mixField]
  have : new / 256 ^ (8 - 0) = 0 := Nat.div_eq_of_lt (by simpa using h)
  simp [this]

/-- **a slot write cut after the index field** (16 of its 32 bytes): the entry is visible —
its slot carries the index and the term — but its offset field is still 0, so it reads back
with an empty payload (and whatever type the slot held before).  The record itself is intact in
the data area; the store cannot tell. -/
theorem torn_slot_breaks (hp : p.WF) (f : LogFile) (es : List Entry) (r : FileRep p f es) (hlen : es.length < p.cap)
    (re : Entry) (hok : re.OK) :
    let off := p.dataOff + total es
    let f' := setSlot (writePayload p f off re.data) es.length (tornSlot (getSlot f es.length) ⟨re.term, re.index, re.typ, off⟩ 16)
    getRaftEntry p f' es.length = some ⟨re.term, re.index, (getSlot f es.length).typ % 18446744073709551616, ByteArray.empty⟩ ∧
      firstEmptySlot p f' = es.length + 1 := by
  intro off f'
  have hts : es.length < (writePayload p f off re.data).tab.size := by
    show es.length < f.tab.size
    rw [r.tabSize]; exact hlen
  have hoff : off < 18446744073709551616 := by have := r.endLt; omega
  have ⟨he1, he2⟩ := r.empty es.length (Nat.le_refl _)
  have hslot : getSlot f' es.length = ⟨re.term, re.index, (getSlot f es.length).typ % 18446744073709551616, 0⟩ := by
    show getSlot (setSlot _ _ _) _ = _
    rw [getSlot_setSlot _ _ _ _ hts]
    simp only [if_true, tornSlot]
    have e1 : min 8 16 = 8 := by decide
    have e2 : min 8 (16 - 8) = 8 := by decide
    have e3 : min 8 (16 - 16) = 0 := by decide
    have e4 : min 8 (16 - 24) = 0 := by decide
    simp only [e1, e2, e3, e4]
    rw [mixField_full, mixField_full, mixField_none _ _ hok.typ_lt, mixField_none _ _ hoff, he2]
  constructor
  · simp only [getRaftEntry, hslot]
    simp
  · apply sortSearch_eq _ _ _ (by omega)
    · intro k hk
      by_cases hke : k = es.length
      · subst hke
        rw [hslot]
        have := hok.index_pos
        simp; omega
      · have hk' : k < es.length := by omega
        show ((getSlot (setSlot _ _ _) k).index == 0) = false
        rw [getSlot_setSlot _ _ _ _ hts]
        simp only [hke, if_false]
        have := r.slot_index_pos k hk'
        have hg : getSlot (writePayload p f off re.data) k = getSlot f k := rfl
        rw [hg]
        simp; omega
    · intro k hk _
      show ((getSlot (setSlot _ _ _) k).index == 0) = true
      rw [getSlot_setSlot _ _ _ _ hts]
      have hke : k ≠ es.length := by omega
      simp only [hke, if_false]
      have hg : getSlot (writePayload p f off re.data) k = getSlot f k := rfl
      rw [hg, (r.empty k (by omega)).1]
      rfl

theorem getSlot_writeZeroGen {f : LogFile} {es : List Entry} (r : FileRep p f es) (k lenVal lenBytes zn i : Nat) (hi : i < p.cap) :
    getSlot (writeZeroGen p f k lenVal lenBytes zn) i =
      (let lo := OG.Gen.C17.entrySize * k + OG.Gen.C17.unit32Size
       let hi := lo + zn
       let s := getSlot f i
       let q := OG.Gen.C17.entrySize * i
       let t := zeroFieldBytes s.term q lo hi
       let t := if i == k then mixField (lenVal % 4294967296 * 4294967296) t lenBytes else t
       (⟨t, zeroFieldBytes s.index (q + 8) lo hi, zeroFieldBytes s.typ (q + 16) lo hi,
          zeroFieldBytes s.off (q + 24) lo hi⟩ : Slot)) := by
  have hsz : i < f.tab.size := by rw [r.tabSize]; exact hi
  simp only [getSlot, writeZeroGen, Array.getD_eq_getD_getElem?]
  rw [Array.getElem?_eq_getElem (by simpa using hsz), Array.getElem?_eq_getElem hsz]
  simp

/-- **the zeroing write of a conflicting append cut after one slot** (the length prefix and
28 zero bytes, i.e. exactly the 32 bytes of slot `k`): slot `k` is empty, slot `k+1` still
holds its old entry — a hole.  `firstEmptySlot`, a binary search for the first empty slot,
then answers either `k` or the old end, and `Entries` through the hole stops short. -/
theorem torn_zero_breaks (f : LogFile) (es : List Entry) (r : FileRep p f es) (k : Nat) (hk : k + 1 < es.length) :
    let f' := writeZeroGen p f k (32 * (es.length - k)) 4 28
    (getSlot f' k).index = 0 ∧ getSlot f' (k + 1) = getSlot f (k + 1) ∧ (getSlot f (k + 1)).index = es[k + 1].index := by
  intro f'
  have hl := r.lenLe
  have hk1 : k + 1 < p.cap := by omega
  refine ⟨?_, ?_, ?_⟩
  · show (getSlot (writeZeroGen p f k _ 4 28) k).index = 0
    rw [getSlot_writeZeroGen r _ _ _ _ _ (by omega)]
    simp only [entrySize_eq, unit32Size_eq]
    exact zfb_covered _ _ _ _ (by omega) (by omega)
  · show getSlot (writeZeroGen p f k _ 4 28) (k + 1) = getSlot f (k + 1)
    rw [getSlot_writeZeroGen r _ _ _ _ _ hk1, r.slots (k + 1) hk]
    have hok := r.ok _ (List.getElem_mem hk)
    have hoff : offOf p es (k + 1) < 18446744073709551616 := by
      have := total_take_le es (k + 1); have := r.endLt; simp only [offOf]; omega
    have hne : (k + 1 == k) = false := by simp
    simp only [entrySize_eq, unit32Size_eq, hne]
    rw [zfb_disjoint _ _ _ _ hok.term_lt (by omega), zfb_disjoint _ _ _ _ hok.index_lt (by omega),
      zfb_disjoint _ _ _ _ hok.typ_lt (by omega), zfb_disjoint _ _ _ _ hoff (by omega)]
    simp
  · rw [r.slots (k + 1) hk]

/-- **the zeroing write cut right after its length prefix** — before the repair e7ce941 this was
also what a *process* dying between the two `Write` calls of `WriteSlice` left behind: the
entry at the conflict index is still there, with the length of the zero buffer in the high
half of its term. -/
theorem torn_zero_length_only (f : LogFile) (es : List Entry) (r : FileRep p f es) (k : Nat) (hk : k < es.length) (n : Nat)
    (hn : n < 4294967296) :
    let f' := writeZeroGen p f k n 4 0
    (getSlot f' k).index = es[k].index ∧ (getSlot f' k).term = n * 4294967296 + es[k].term % 4294967296 := by
  intro f'
  have hl := r.lenLe
  have hok := r.ok _ (List.getElem_mem hk)
  have hrw : getSlot f' k = _ := getSlot_writeZeroGen r k n 4 0 k (by omega)
  rw [hrw, r.slots k hk]
  simp only [entrySize_eq, unit32Size_eq, beq_self_eq_true, if_true, Nat.add_zero]
  rw [zfb_empty _ _ _ _ hok.index_lt (by omega), zfb_empty _ _ _ _ hok.term_lt (by omega)]
  refine ⟨rfl, ?_⟩
  simp only [mixField, Nat.mod_eq_of_lt hn]
  have : (256 : Nat) ^ (8 - 4) = 4294967296 := by decide
  rw [this, Nat.mul_div_cancel _ (by decide : 0 < 4294967296)]

end OG.C17
