/-
C17 — crash inside an operation: what `Init` finds afterwards.

`Save`, `DeleteBefore` and `CreateSnapshot` are sequences of file-system mutations
(`OG/C17/Crash.lean`: `saveMuts`, …, transcribed from the code in the order the regenerated
facts `OG.Gen.C17.order_*` state).  A process that dies leaves the directory after a prefix of
that sequence; `crashStates` lists these directories, plus the torn variants of a write that
are harmless (`safeTorn`).  The theorems: from every one of them `Init` succeeds, the
representation invariant holds again, and the store stands for a state the Raft storage
contract allows after a crash (`CrashSpec`): the log is the old log — possibly already cut
back, from the end, to the point where the save in flight starts — followed by a prefix of
the entries being saved; no hole, no foreign term; the hard state is the new one only if all
entries are there, the snapshot only if the hard state is.  Torn writes that are *not*
harmless are refuted by witnesses (`torn_slot_breaks`, `torn_zero_breaks`).
-/
import OG.C17.Props
import OG.C17.Lemmas.Crash

namespace OG.C17

variable {p : Params}

/-- the old log cut back to its first `M` entries (an empty log reports first index 1) -/
def SpecState.cutAt (σ : SpecState) (M : Nat) : SpecState :=
  if σ.ents.take M = [] then { σ with first := 1, ents := [] } else { σ with ents := σ.ents.take M }

/-- what a crash inside `Save hs ents sn` may leave behind, before the compaction a reopen
may apply: -/
inductive CrashSpec (σ : SpecState) (hs : Option HardState) (ents : List Entry) (sn : Option Snapshot) : SpecState → Prop
  /-- the first `j` entries of the save are there (`j = 0`: nothing happened), hard state and snapshot are the old ones -/
  | pref (j : Nat) : j ≤ ents.length → CrashSpec σ hs ents sn (σ.append (ents.take j))
  /-- a conflicting save had begun to discard the old entries from its first index on: the old
  log ends somewhere at or behind that index (at a file boundary, or exactly there), none of the
  new entries is there yet -/
  | cut (M : Nat) (e0 : Entry) (rest : List Entry) : ents = e0 :: rest → σ.ents ≠ [] → e0.index - σ.first ≤ M →
      CrashSpec σ hs ents sn (σ.cutAt M)
  /-- all entries and the hard state, the old snapshot -/
  | entsHs : CrashSpec σ hs ents sn ((σ.append ents).setHardState hs)
  /-- everything: the state after the save -/
  | all : CrashSpec σ hs ents sn (σ.saveKeep hs ents sn)

theorem absD_of_flat {a : Nat} {ess : List (List Entry)} {ec X : List Entry} (m : Meta) (h : ess.flatten ++ ec = X) :
    absD a ess ec m = ⟨if X = [] then 1 else a, X, m.hs, m.snap⟩ := by
  subst h; rfl

theorem cutAt_mk (a : Nat) (L : List Entry) (h : HardState) (sn : Snapshot) (M : Nat) :
    (⟨if L.take M = [] then 1 else a, L.take M, h, sn⟩ : SpecState) = SpecState.cutAt ⟨a, L, h, sn⟩ M := by
  by_cases hX : L.take M = [] <;> simp [SpecState.cutAt, hX]

/-- the entries phase of a `Save`: its crash states, and that the whole list is `addEntries` -/
theorem addEntries_crash (hp : p.WF) {s : State} {a : Nat} {ess : List (List Entry)} {ec : List Entry}
    (r : LogRep p s a ess ec) (new : List Entry) (hok : SaveOK p (absOf a ess ec s.mt) new) :
    (∀ x ∈ crashStates p s (addEntriesMuts p s new), x.mt = s.mt ∧ ∃ a' ess' ec', DirRep p x a' ess' ec' ∧
        ((∃ j, j ≤ new.length ∧ absD a' ess' ec' s.mt = (absOf a ess ec s.mt).append (new.take j)) ∨
         (∃ M e0 rest, new = e0 :: rest ∧ (absOf a ess ec s.mt).ents ≠ [] ∧ e0.index - (absOf a ess ec s.mt).first ≤ M ∧
            absD a' ess' ec' s.mt = (absOf a ess ec s.mt).cutAt M))) ∧
      SameDir (applyMuts p s (addEntriesMuts p s new)) (addEntries p s new) := by
  cases new with
  | nil =>
    refine ⟨?_, SameDir.refl s⟩
    intro x hx
    simp only [addEntriesMuts, crashStates, List.mem_singleton] at hx
    subst hx
    refine ⟨rfl, a, ess, ec, r.dirRep, Or.inl ⟨0, Nat.le_refl _, ?_⟩⟩
    rw [absD_eq_absOf _ r.curNe]; rfl
  | cons e0 rest =>
    have hseq := hok.seq e0 rest rfl
    by_cases hnil : ess.flatten ++ ec = []
    · -- empty log
      have hec : ec = [] := r.all_nil_iff.mp hnil
      have hess : ess = [] := r.curNe hec
      subst hec; subst hess
      have hf : s.files = [] := r.files_nil_iff.mpr rfl
      have hsg : slotGe p s e0.index = (none, none) := by simp [slotGe, r.cur.slotGe_nil, hf]
      have hcf : conflict p s e0.index = s := by simp [conflict, hsg]
      have hcm : conflictMuts p s e0.index = [] := by simp [conflictMuts, hsg]
      have r0 : LogRepW p s e0.index [] [] :=
        ⟨by rw [hf]; exact Chain.nil p _, r.cur, Seq.nil _, r.next_eq, r.fidCur, r.fids, r.np, r.mtOK, (hok.ok e0 (by simp)).1.index_pos⟩
      have hoff := r0.cur.next_offset
      rw [← r0.next_eq] at hoff
      obtain ⟨hc, hsd⟩ := loop_crash hp (e0 :: rest) s [] [] r0 hok.ok (by simpa using hseq)
      have hmuts : addEntriesMuts p s (e0 :: rest) = addLoopMuts p (e0 :: rest) s (p.dataOff + total []) := by
        simp only [addEntriesMuts, hcf, hcm, List.nil_append]
        rw [hoff]
      rw [hmuts]
      refine ⟨?_, ?_⟩
      · intro x hx
        obtain ⟨j, hj, ess', ec', h1, h2, h3⟩ := hc x hx
        refine ⟨h3, e0.index, ess', ec', h1, Or.inl ⟨j, hj, ?_⟩⟩
        simp only [List.flatten_nil, List.nil_append] at h2
        rw [absD_of_flat _ h2]
        cases j with
        | zero => simp [absOf, SpecState.append]
        | succ j => simp [absOf, SpecState.append, List.take_succ_cons]
      · rw [addEntries_cons, hcf]
        simp only [addFrom]
        rw [hoff]
        exact hsd
    · -- a log with entries: conflict handling, then the loop
      have hecne : ec ≠ [] := fun h => hnil (r.all_nil_iff.mpr h)
      have hrange := hok.range e0 rest rfl (by simpa [absOf] using hnil)
      simp only [absOf, hecne, if_false] at hrange
      obtain ⟨hcc, hcsd⟩ := conflict_crash hp r e0.index hnil hrange.1 hrange.2
      obtain ⟨ess1, ec1, r1, hall1⟩ := r.conflict_ok hp e0.index hnil hrange.1 hrange.2
      have hoff := r1.cur.next_offset
      rw [← r1.next_eq] at hoff
      have hlen1 : ess1.flatten.length + ec1.length = e0.index - a := by
        have := congrArg List.length hall1
        simp only [List.length_append, List.length_take] at this
        have := hrange.2
        simp only [List.length_append] at this
        omega
      obtain ⟨hlc, hlsd⟩ := loop_crash hp (e0 :: rest) _ ess1 ec1 r1 hok.ok
        (by rw [show a + ess1.flatten.length + ec1.length = e0.index by omega]; exact hseq)
      have hmuts : addEntriesMuts p s (e0 :: rest) =
          conflictMuts p s e0.index ++ addLoopMuts p (e0 :: rest) (conflict p s e0.index) (p.dataOff + total ec1) := by
        simp only [addEntriesMuts]
        rw [hoff]
      have hσents : (absOf a ess ec s.mt).ents ≠ [] := by simpa [absOf] using hnil
      have hσfirst : (absOf a ess ec s.mt).first = a := by simp [absOf, hecne]
      rw [hmuts]
      refine ⟨?_, ?_⟩
      · intro x hx
        rcases mem_crashStates_append hx with hx | hx
        · obtain ⟨M, hM, ess', ec', h1, h2, h3⟩ := hcc x hx
          refine ⟨h3, a, ess', ec', h1, Or.inr ⟨M, e0, rest, rfl, hσents, by rw [hσfirst]; exact hM, ?_⟩⟩
          rw [absD_of_flat _ h2]
          simp only [absOf, hecne, if_false]
          exact cutAt_mk _ _ _ _ _
        · obtain ⟨y, hy, hxy⟩ := mem_crashStates_sameDir hcsd hx
          obtain ⟨j, hj, ess', ec', h1, h2, h3⟩ := hlc y hy
          refine ⟨by rw [hxy.2.2.1, h3, conflict_mt], a, ess', ec', h1.of_sameDir hxy, ?_⟩
          rw [hall1] at h2
          cases j with
          | zero =>
            refine Or.inr ⟨e0.index - a, e0, rest, rfl, hσents, by rw [hσfirst]; exact Nat.le_refl _, ?_⟩
            simp only [List.take_zero, List.append_nil] at h2
            rw [absD_of_flat _ h2]
            simp only [absOf, hecne, if_false]
            exact cutAt_mk _ _ _ _ _
          | succ j =>
            refine Or.inl ⟨j + 1, hj, ?_⟩
            rw [absD_of_flat _ h2]
            have hemp : (ess.flatten ++ ec).isEmpty = false := by simp [hnil]
            simp [absOf, SpecState.append, List.take_succ_cons, hemp, hecne]
      · rw [applyMuts_append, addEntries_cons]
        simp only [addFrom]
        rw [hoff]
        exact (applyMuts_sameDir hcsd _).trans hlsd

/-! ### the meta phase -/

theorem DirRep.with_mt {t : State} {a : Nat} {ess : List (List Entry)} {ec : List Entry} (r : DirRep p t a ess ec) (m : Meta)
    (hm : m.snapIndex = m.snap.index ∧ m.snapTerm = m.snap.term) : DirRep p { t with mt := m } a ess ec :=
  ⟨r.chain, r.cur, r.curSeq, rfl, r.fidCur, r.fids, r.np, hm, r.aPos⟩

theorem applyMuts_hsMuts (t : State) (hs : Option HardState) :
    applyMuts p t (hsMuts hs) = { t with mt := storeHardState t.mt hs } := by
  cases hs with
  | none => rfl
  | some h => by_cases hh : h.isEmpty <;> simp [hsMuts, storeHardState, hh, applyMuts, applyMut]

theorem applyMuts_snapMuts (t : State) (sn : Option Snapshot) :
    applyMuts p t (snapMuts sn) = { t with mt := storeSnapshot t.mt sn } := by
  cases sn with
  | none => rfl
  | some x => by_cases hv : x.isValid <;> simp [snapMuts, storeSnapshot, hv, applyMuts, applyMut]

/-- hard state, then snapshot: every crash state keeps the entry files and has the old meta,
or the new hard state, or the new hard state and the new snapshot -/
theorem meta_crash {t : State} {a : Nat} {ess : List (List Entry)} {ec : List Entry} (r : DirRep p t a ess ec)
    (hs : Option HardState) (sn : Option Snapshot) :
    ∀ x ∈ crashStates p t (hsMuts hs ++ snapMuts sn),
      (x = t ∨ x = { t with mt := storeHardState t.mt hs } ∨ x = { t with mt := storeSnapshot (storeHardState t.mt hs) sn }) := by
  intro x hx
  rcases mem_crashStates_append hx with hx | hx
  · cases hs with
    | none => simp only [hsMuts, crashStates, List.mem_singleton] at hx; exact Or.inl hx
    | some h =>
      by_cases hh : h.isEmpty
      · simp only [hsMuts, hh, if_true, crashStates, List.mem_singleton] at hx; exact Or.inl hx
      · simp only [hsMuts, hh, Bool.false_eq_true, if_false, crashStates, safeTorn, List.nil_append, List.mem_cons,
          List.mem_nil_iff, or_false] at hx
        rcases hx with rfl | rfl
        · exact Or.inl rfl
        · right; left; simp [applyMut, storeHardState, hh]
  · rw [applyMuts_hsMuts] at hx
    cases sn with
    | none =>
      simp only [snapMuts, crashStates, List.mem_singleton] at hx
      right; left; exact hx
    | some y =>
      by_cases hv : y.isValid
      · simp only [snapMuts, hv, if_true, crashStates, safeTorn, List.nil_append, List.mem_cons, List.mem_nil_iff, or_false] at hx
        rcases hx with rfl | rfl
        · right; left; rfl
        · right; right; simp [applyMut, storeSnapshot, hv]
      · simp only [snapMuts, hv, Bool.false_eq_true, if_false, crashStates, List.mem_singleton] at hx
        right; left; exact hx

theorem Recovers.of_sameDir {x y : State} {σ : SpecState} (h : Recovers p y σ) (hxy : SameDir x y) : Recovers p x σ := by
  unfold Recovers at *
  rw [recover_sameDir hxy]; exact h

/-- applied completely, the mutation list of a `Save` is `save` -/
theorem saveMuts_sound (hp : p.WF) (s : State) (hinv : Inv p s) (hs : Option HardState) (ents : List Entry) (sn : Option Snapshot)
    (hok : SaveOK p (abs p s) ents) :
    SameDir (applyMuts p s (saveMuts p s hs ents sn)) (save p s hs ents sn) := by
  obtain ⟨a, ess, ec, r⟩ := hinv
  rw [r.abs_eq hp] at hok
  obtain ⟨_, hsd⟩ := addEntries_crash hp r ents hok
  simp only [saveMuts]
  rw [applyMuts_append, applyMuts_append, applyMuts_snapMuts, applyMuts_hsMuts]
  obtain ⟨h1, h2, h3, h4⟩ := hsd
  exact ⟨h1, h2, by simp only [save, h3], h4⟩

/-- **crash inside a Save** — for every directory a process dying inside `Save hs ents sn` can
leave behind (after any prefix of its file-system mutations, and with any prefix of the bytes of
a payload write, or a slot write cut inside the term field): `Init` succeeds, the invariant
holds, and the store stands for a state `CrashSpec` allows — up to the compaction a reopen may
apply below the snapshot index. -/
theorem recover_is_prefix (hp : p.WF) (s : State) (hinv : Inv p s) (hs : Option HardState) (ents : List Entry) (sn : Option Snapshot)
    (hok : SaveOK p (abs p s) ents) :
    ∀ x ∈ crashStates p s (saveMuts p s hs ents sn), ∃ σ', CrashSpec (abs p s) hs ents sn σ' ∧ Recovers p x σ' := by
  obtain ⟨a, ess, ec, r⟩ := hinv
  rw [r.abs_eq hp] at hok ⊢
  obtain ⟨hcr, hsd⟩ := addEntries_crash hp r ents hok
  intro x hx
  simp only [saveMuts, List.append_assoc] at hx
  rcases mem_crashStates_append hx with hx | hx
  · -- inside the entries phase
    obtain ⟨hmt, a', ess', ec', hd, hshape⟩ := hcr x hx
    have hrec := hd.recovers hp
    rw [hmt] at hrec
    rcases hshape with ⟨j, hj, hj2⟩ | ⟨M, e0, rest, h1, h2, h3, h4⟩
    · exact ⟨_, CrashSpec.pref j hj, by rw [← hj2]; exact hrec⟩
    · exact ⟨_, CrashSpec.cut M e0 rest h1 h2 h3, by rw [← h4]; exact hrec⟩
  · -- the entries are complete: hard state, snapshot
    obtain ⟨aE, essE, ecE, rU, habsU⟩ := r.save_ok hp none ents none hok
    have hU : SameDir (applyMuts p s (addEntriesMuts p s ents)) (save p s none ents none) := by
      obtain ⟨h1, h2, h3, h4⟩ := hsd
      exact ⟨h1, h2, by simp only [save, h3]; rfl, h4⟩
    have hUmt : (save p s none ents none).mt = s.mt := by simp [save, addEntries_mt, storeSnapshot, storeHardState]
    have hkeep : (absOf a ess ec s.mt).saveKeep none ents none = (absOf a ess ec s.mt).append ents := by
      simp [SpecState.saveKeep, SpecState.setHardState, SpecState.setSnapshot]
    rw [hkeep, hUmt] at habsU
    obtain ⟨y, hy, hxy⟩ := mem_crashStates_sameDir hU hx
    have hdU := rU.dirRep
    have hcur := rU.curNe
    rcases meta_crash hdU hs sn y hy with rfl | rfl | rfl
    · refine ⟨_, CrashSpec.pref ents.length (Nat.le_refl _), Recovers.of_sameDir ?_ hxy⟩
      have := hdU.recovers hp
      rw [absD_eq_absOf _ hcur, hUmt, habsU] at this
      rwa [List.take_length]
    · refine ⟨_, CrashSpec.entsHs, Recovers.of_sameDir ?_ hxy⟩
      have := (hdU.with_mt _ (storeHardState_ok _ hs rU.mtOK)).recovers hp
      rw [absD_eq_absOf _ hcur] at this
      simp only [hUmt] at this
      have h2 := absOf_save_meta aE essE ecE s.mt hs none
      simp only [storeSnapshot, SpecState.setSnapshot] at h2
      rw [h2, habsU] at this
      rw [hUmt]; exact this
    · refine ⟨_, CrashSpec.all, Recovers.of_sameDir ?_ hxy⟩
      have := (hdU.with_mt _ (storeSnapshot_ok _ sn (storeHardState_ok _ hs rU.mtOK))).recovers hp
      rw [absD_eq_absOf _ hcur] at this
      simp only [hUmt] at this
      rw [absOf_save_meta, habsU] at this
      rw [hUmt]; exact this

end OG.C17
