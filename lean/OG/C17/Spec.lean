/-
C17 — the specification: what the Raft storage contract (etcd `raft.MemoryStorage` is its
reference implementation) says a log store answers, as a plain `List Entry` + snapshot.

State: the retained entries (contiguous, starting at `first`), the saved hard state and the
saved snapshot.  Two things differ from a literal copy of `MemoryStorage`, both stated by the
property text rather than by the reference:

* compaction is the *store's* choice within bounds: `DeleteBefore i` (and the pending
  deletion re-applied on reopen) may keep entries below `i` (the real store deletes whole
  files).  The spec lets the implementation pick the new first index `f'` with
  `first ≤ f'`, `f' ≤ i` and `f' ≤ last` (or `f' = first`: nothing deleted) and from then on
  requires every answer to be the one of the suffix from `f'`.
* boundary answers: an index in the compacted prefix reports `compacted` (also `first-1`,
  whose term `MemoryStorage` keeps in its dummy entry) unless it is the snapshot index, for
  which the snapshot's term is known; an index beyond the end reports `unavailable`; index 0
  is not an entry and has term 0; a range `[lo,hi)` with `hi > last+1` reports `unavailable`
  (`MemoryStorage` panics there), an empty in-range request is the empty list.

The spec coincides with `MemoryStorage` on histories that respect what raft guarantees
(entries contiguous; a conflicting save starts above the snapshot index; snapshot indexes do
not decrease) — the correspondence harness checks exactly that, on the real reference.
A snapshot saved with an index beyond the log is an install and resets the log
(`SpecState.save`); the store does not do that (known finding
`snapshot_install_keeps_old_entries`), so the refinement theorem carries the hypothesis
`noInstall` and the full statement is refuted by a witness in Props.lean.
-/
import OG.C17.Model

namespace OG.C17

structure SpecState where
  /-- index of the first retained entry; 1 while nothing was ever saved -/
  first : Nat
  ents : List Entry
  hs : HardState
  snap : Snapshot
deriving Inhabited

def SpecState.init : SpecState := ⟨1, [], HardState.empty, Snapshot.empty⟩

/-- last index of the entry list (0 when empty) -/
def SpecState.logLast (s : SpecState) : Nat :=
  if s.ents.isEmpty then 0 else s.first + s.ents.length - 1

def SpecState.firstIndex (s : SpecState) : Nat := s.first

/-- `LastIndex`: a snapshot beyond the entries counts -/
def SpecState.lastIndex (s : SpecState) : Nat :=
  if s.logLast < s.snap.index then s.snap.index else s.logLast

/-- the entry with raft index `i`, or why there is none -/
def SpecState.lookup (s : SpecState) (i : Nat) : Except Err Entry :=
  if s.ents.isEmpty then .error .unavailable
  else if i < s.first then .error .compacted
  else match s.ents[i - s.first]? with
    | some e => .ok e
    | none => .error .unavailable

/-- `Term(i)` -/
def SpecState.term (s : SpecState) (i : Nat) : Except Err Nat :=
  if i == 0 then .ok 0
  else match s.lookup i with
    | .ok e => .ok e.term
    | .error err =>
      if i < s.snap.index then .error .compacted
      else if i == s.snap.index then .ok s.snap.term
      else .error err

/-- `limitSize` of etcd raft: at least one entry, then as long as the total stays ≤ max -/
def limitGo (max : Nat) : Nat → List Entry → List Entry
  | _, [] => []
  | size, e :: rest => if size + e.size > max then [] else e :: limitGo max (size + e.size) rest

def limitSize (max : Nat) : List Entry → List Entry
  | [] => []
  | e :: rest => e :: limitGo max e.size rest

/-- `Entries(lo, hi, maxSize)` -/
def SpecState.entries (s : SpecState) (lo hi maxSize : Nat) : Except Err (List Entry) :=
  if lo < s.first then .error .compacted
  else if hi > s.logLast + 1 then .error .unavailable
  else .ok (limitSize maxSize ((s.ents.drop (lo - s.first)).take (hi - lo)))

/-- appending a batch: an index that already exists discards that entry and everything
after it -/
def SpecState.append (s : SpecState) (new : List Entry) : SpecState :=
  match new with
  | [] => s
  | e0 :: _ =>
    if s.ents.isEmpty then { s with first := e0.index, ents := new }
    else { s with ents := s.ents.take (e0.index - s.first) ++ new }

def SpecState.setHardState (s : SpecState) (hs : Option HardState) : SpecState :=
  match hs with
  | none => s
  | some h => if h.isEmpty then s else { s with hs := h }

def SpecState.setSnapshot (s : SpecState) (sn : Option Snapshot) : SpecState :=
  match sn with
  | none => s
  | some sn => if sn.isValid then { s with snap := sn } else s

/-- `Save` without the install rule: entries, hard state, snapshot, each on its own. This is
what the store does (see `save`). -/
def SpecState.saveKeep (s : SpecState) (hs : Option HardState) (new : List Entry) (sn : Option Snapshot) : SpecState :=
  ((s.append new).setHardState hs).setSnapshot sn

/-- `Save(hardState, entries, snapshot)`.  A valid snapshot whose index lies beyond the log
is a snapshot *install* (raft hands one over after it received it from the leader): it
replaces the log — `MemoryStorage.ApplySnapshot`: nothing is retained, the first index is the
one after the snapshot. -/
def SpecState.save (s : SpecState) (hs : Option HardState) (new : List Entry) (sn : Option Snapshot) : SpecState :=
  let s1 := s.saveKeep hs new sn
  match sn with
  | some x =>
    if x.isValid && decide ((s.append new).logLast < x.index) then { s1 with first := x.index + 1, ents := [] } else s1
  | none => s1

/-- the snapshot of a `Save` is not an install -/
def SpecState.noInstall (s : SpecState) (new : List Entry) (sn : Option Snapshot) : Prop :=
  ∀ x, sn = some x → x.isValid = true → x.index ≤ (s.append new).logLast

theorem SpecState.save_eq_keep (s : SpecState) (hs : Option HardState) (new : List Entry) (sn : Option Snapshot)
    (h : s.noInstall new sn) : s.save hs new sn = s.saveKeep hs new sn := by
  unfold SpecState.save
  cases sn with
  | none => rfl
  | some x =>
    by_cases hv : x.isValid = true
    · have := h x rfl hv
      have hn : ¬ ((s.append new).logLast < x.index) := by omega
      simp [hv, hn]
    · simp [hv]

/-- `CreateSnapshot(i, cs, data)` -/
def SpecState.createSnapshot (s : SpecState) (i : Nat) (sn : Snapshot) : Except Err SpecState :=
  if i < s.first then .error .snapOutOfDate
  else if i == 0 then .error .snapOutOfDate   -- `first ≥ 1`, listed for totality
  else match s.lookup i with
    | .error e => .error e
    | .ok e => .ok { s with snap := { sn with index := i, term := e.term } }

/-- drop the entries below `f'` -/
def SpecState.compactTo (s : SpecState) (f' : Nat) : SpecState :=
  { s with first := f', ents := s.ents.drop (f' - s.first) }

/-- the new first index a prefix deletion up to `i` may choose -/
def SpecState.mayCompactTo (s : SpecState) (i f' : Nat) : Prop :=
  s.first ≤ f' ∧ (f' = s.first ∨ (f' ≤ i ∧ f' ≤ s.logLast))

/-- the state-changing operations -/
inductive Op where
  | save (hs : Option HardState) (ents : List Entry) (sn : Option Snapshot)
  | mksnap (i : Nat) (sn : Snapshot)
  | delBefore (i : Nat)
  | reopen

/-- the specification as a transition relation (compaction is non-deterministic) -/
def SpecState.next (s : SpecState) : Op → SpecState → Prop
  | .save hs ents sn, s' => s' = s.save hs ents sn
  | .mksnap i sn, s' => s' = (match s.createSnapshot i sn with | .ok t => t | .error _ => s)
  | .delBefore i, s' => ∃ f', s.mayCompactTo i f' ∧ s' = s.compactTo f'
  | .reopen, s' => ∃ f', s.mayCompactTo s.snap.index f' ∧ s' = s.compactTo f'

end OG.C17
