/-
C17 — crash states: the directory after a prefix of the mutation list of an operation is a
directory the representation invariant covers (`DirRep`), and `Init` recovers from it.
-/
import OG.C17.Lemmas.Steps
import OG.C17.Crash

namespace OG.C17
open OG.Gen.C17 (entrySize unit32Size clearCurOff clearCurLen clearRotOff clearRotLen needRotate nextOffset)

variable {p : Params}

/-- two states with the same directory content (`next` is not part of the directory) -/
def SameDir (t s : State) : Prop := t.files = s.files ∧ t.current = s.current ∧ t.mt = s.mt ∧ t.panicked = s.panicked

theorem SameDir.refl (s : State) : SameDir s s := ⟨rfl, rfl, rfl, rfl⟩

theorem SameDir.symm {t s : State} (h : SameDir t s) : SameDir s t := ⟨h.1.symm, h.2.1.symm, h.2.2.1.symm, h.2.2.2.symm⟩

theorem SameDir.trans {t s u : State} (h1 : SameDir t s) (h2 : SameDir s u) : SameDir t u :=
  ⟨h1.1.trans h2.1, h1.2.1.trans h2.2.1, h1.2.2.1.trans h2.2.2.1, h1.2.2.2.trans h2.2.2.2⟩

theorem SameDir.with_next (s : State) (n : Nat) : SameDir { s with next := n } s := ⟨rfl, rfl, rfl, rfl⟩

theorem applyMut_sameDir {t s : State} (h : SameDir t s) (m : Mut) : SameDir (applyMut p t m) (applyMut p s m) := by
  obtain ⟨h1, h2, h3, h4⟩ := h
  cases m <;> simp only [applyMut, h1, h2, h3, h4, SameDir] <;> (try exact ⟨trivial, trivial, trivial, trivial⟩)
  all_goals (try (split <;> simp [h2, h3, h4]))
  all_goals simp [h2, h3, h4]

theorem applyMuts_sameDir {t s : State} (h : SameDir t s) (ms : List Mut) : SameDir (applyMuts p t ms) (applyMuts p s ms) := by
  induction ms generalizing t s with
  | nil => exact h
  | cons m ms ih => exact ih (applyMut_sameDir h m)

theorem reopen_sameDir {t s : State} (h : SameDir t s) : reopen p t = reopen p s := by
  obtain ⟨h1, h2, h3, _⟩ := h
  simp only [reopen, h1, h2, h3]

theorem recover_sameDir {t s : State} (h : SameDir t s) : recover p t = recover p s := by
  simp only [recover, reopen_sameDir h, h.2.2.2]

/-! ### directories the invariant covers -/

/-- the directory `t` holds the rotated lists `ess` and, in its last file, the list `ec` —
which may be empty although rotated files exist (a crash right after a rotation, or after a
conflict zeroed a whole file) -/
def DirRep (p : Params) (t : State) (a : Nat) (ess : List (List Entry)) (ec : List Entry) : Prop :=
  LogRepW p { t with next := ec.length } a ess ec

/-- the log and meta a directory stands for -/
def absD (a : Nat) (ess : List (List Entry)) (ec : List Entry) (m : Meta) : SpecState :=
  { first := if ess.flatten ++ ec = [] then 1 else a, ents := ess.flatten ++ ec, hs := m.hs, snap := m.snap }

/-- `Init` on the image succeeds, the invariant holds afterwards, and the reopened store stands
for `σ` up to the compaction a reopen may apply (whole files below the snapshot index) -/
def Recovers (p : Params) (t : State) (σ : SpecState) : Prop :=
  ∃ s', recover p t = .ok s' ∧ Inv p s' ∧ ∃ f', σ.mayCompactTo σ.snap.index f' ∧ abs p s' = σ.compactTo f'

theorem LogRepW.dirRep {s : State} {a : Nat} {ess : List (List Entry)} {ec : List Entry} (r : LogRepW p s a ess ec) :
    DirRep p s a ess ec := by
  have : ({ s with next := ec.length } : State) = s := by
    have := r.next_eq
    cases s; simp_all
  unfold DirRep
  rw [this]; exact r

theorem LogRep.dirRep {s : State} {a : Nat} {ess : List (List Entry)} {ec : List Entry} (r : LogRep p s a ess ec) :
    DirRep p s a ess ec := by
  have : ({ s with next := ec.length } : State) = s := by
    have := r.next_eq
    cases s; simp_all
  unfold DirRep
  rw [this]; exact r.weaken

theorem DirRep.of_sameDir {t s : State} {a : Nat} {ess : List (List Entry)} {ec : List Entry}
    (r : DirRep p s a ess ec) (h : SameDir t s) : DirRep p t a ess ec := by
  obtain ⟨h1, h2, h3, h4⟩ := h
  unfold DirRep at *
  have : ({ t with next := ec.length } : State) = { s with next := ec.length } := by
    cases t; cases s; simp_all
  rw [this]; exact r

theorem absD_eq_absOf {a : Nat} {ess : List (List Entry)} {ec : List Entry} (m : Meta) (h : ec = [] → ess = []) :
    absD a ess ec m = absOf a ess ec m := by
  simp only [absD, absOf]
  congr 1
  by_cases hec : ec = []
  · rw [h hec, hec]; rfl
  · have : ess.flatten ++ ec ≠ [] := fun h => hec (List.append_eq_nil_iff.mp h).2
    simp [hec]

/-- a chain of rotated files read as a directory whose last file is the current one -/
theorem Chain.lastAsCurrent {a : Nat} {fs : List LogFile} {ess : List (List Entry)} (c : Chain p a fs ess)
    (m : Nat) (hm : m < ess.length) (mt : Meta) (hmt : mt.snapIndex = mt.snap.index ∧ mt.snapTerm = mt.snap.term)
    (hfid : ∀ f ∈ fs, 1 ≤ f.fid) (ha : 1 ≤ a) :
    LogRep p { files := fs.take m, current := fs.getD m default, next := ess[m].length, mt := mt, panicked := false }
      a (ess.take m) ess[m] := by
  have hmf : m < fs.length := by rw [c.len]; exact hm
  refine ⟨c.take m, c.rep m hm, ?_, rfl, fun h => absurd h (c.ne m hm), ?_, ?_, rfl, hmt, ha⟩
  · show Seq (a + ((ess.take m).flatten).length) ess[m]
    exact c.seq_at m hm
  · show 1 ≤ (fs.getD m default).fid
    apply hfid
    rw [List.getD_eq_getElem?_getD, List.getElem?_eq_getElem hmf]
    exact List.getElem_mem hmf
  · intro f hf; exact hfid f (List.mem_of_mem_take hf)

theorem flatten_take_succ (ess : List (List Entry)) (m : Nat) (hm : m < ess.length) :
    (ess.take m).flatten ++ ess[m] = (ess.take (m + 1)).flatten := by
  rw [List.take_succ_eq_append_getElem hm, List.flatten_append]; simp

theorem take_getD_dropLast (fs : List LogFile) (h : fs ≠ []) :
    fs.take (fs.length - 1) ++ [fs.getD (fs.length - 1) default] = fs := by
  have hl : 0 < fs.length := List.length_pos_iff.mpr h
  have hi : fs.length - 1 < fs.length := by omega
  rw [List.getD_eq_getElem?_getD, List.getElem?_eq_getElem hi]
  simp only [Option.getD_some]
  have := List.take_succ_eq_append_getElem hi
  rw [show fs.length - 1 + 1 = fs.length by omega, List.take_length] at this
  exact this.symm

/-- `openEntryLogs` on a directory whose last file is empty although earlier files hold
entries: the empty file is deleted, the last earlier file becomes the current one -/
theorem LogRepW.open_trailing_empty {t : State} {a : Nat} {ess : List (List Entry)}
    (r : LogRepW p t a ess []) (hess : ess ≠ []) :
    openEntryLogs p (t.files ++ [t.current]) t.mt =
      openEntryLogs p (t.files.take (t.files.length - 1) ++ [t.files.getD (t.files.length - 1) default]) t.mt := by
  have hf : t.files ≠ [] := by
    intro h
    have := r.chain.len; rw [h] at this
    exact hess (List.eq_nil_of_length_eq_zero this.symm)
  rw [take_getD_dropLast _ hf]
  have h0 : t.current.firstIndex = 0 := r.cur.firstIndex_nil
  have hpos : ∀ f ∈ t.files, 1 ≤ f.firstIndex := by
    intro f hf
    obtain ⟨i, hi, rfl⟩ := List.getElem_of_mem hf
    have e1 := r.chain.firstIndex i (by rw [← r.chain.len]; exact hi)
    rw [List.getD_eq_getElem?_getD, List.getElem?_eq_getElem hi] at e1
    simp only [Option.getD_some] at e1
    have := r.aPos
    omega
  have hs1 : (t.current :: t.files).Pairwise (fun x y => x.firstIndex < y.firstIndex) := by
    rw [List.pairwise_cons]
    refine ⟨fun f hf => ?_, r.chain.sorted⟩
    have := hpos f hf; omega
  have hsort1 : sortBy (·.firstIndex) (sortBy (·.fid) (t.files ++ [t.current])) = t.current :: t.files :=
    sortBy_of_strict _ _ _ ((List.mergeSort_perm _ _).trans (List.perm_append_comm.trans (by simp))) hs1
  have hsort2 : sortBy (·.firstIndex) (sortBy (·.fid) t.files) = t.files :=
    sortBy_of_strict _ _ _ (List.mergeSort_perm _ _) r.chain.sorted
  have hfilt : ∀ f ∈ t.files, (f.firstIndex != 0) = true := by
    intro f hf; have := hpos f hf; simp; omega
  simp only [openEntryLogs, hsort1, hsort2, List.filter_cons, h0, bne_self_eq_false, Bool.false_eq_true, if_false,
    List.filter_eq_self.mpr hfilt]
  obtain ⟨l, hl⟩ : ∃ l, t.files.getLast? = some l := by
    cases hgl : t.files.getLast? with
    | none => exact absurd (List.getLast?_eq_none_iff.mp hgl) hf
    | some l => exact ⟨l, rfl⟩
  simp only [hl]

/-- `Init` recovers from a directory the invariant covers -/
theorem DirRep.recovers (hp : p.WF) {t : State} {a : Nat} {ess : List (List Entry)} {ec : List Entry}
    (r : DirRep p t a ess ec) : Recovers p t (absD a ess ec t.mt) := by
  have hnp : t.panicked = false := r.np
  have hrec : recover p t = reopen p t := by simp [recover, hnp]
  unfold Recovers
  rw [hrec]
  by_cases hstr : ec = [] → ess = []
  · -- an ordinary state
    have r' : LogRep p { t with next := ec.length } a ess ec := LogRepW.strengthen r hstr
    obtain ⟨s', h0, a', ess', r1, f', h1, h2⟩ := r'.reopen_ok hp
    have hre : reopen p ({ t with next := ec.length } : State) = reopen p t := reopen_sameDir (SameDir.with_next t _)
    rw [hre] at h0
    rw [absD_eq_absOf _ hstr]
    exact ⟨s', h0, ⟨a', ess', ec, r1⟩, f', h1, by rw [r1.abs_eq hp]; exact h2⟩
  · -- the last file is empty, earlier files are not
    have hec : ec = [] := Classical.byContradiction fun h => hstr (fun h' => absurd h' h)
    have hess : ess ≠ [] := fun h => hstr (fun _ => h)
    subst hec
    have hlen : 0 < ess.length := List.length_pos_iff.mpr hess
    have hopen := LogRepW.open_trailing_empty r hess
    simp only at hopen
    have hflen : t.files.length = ess.length := r.chain.len
    let m := ess.length - 1
    have hm : m < ess.length := by omega
    have ru := r.chain.lastAsCurrent m hm t.mt r.mtOK r.fids r.aPos
    obtain ⟨s', h0, a', ess', r1, f', h1, h2⟩ := ru.reopen_ok hp
    have hre : reopen p t = reopen p (State.mk (t.files.take m) (t.files.getD m default) ess[m].length t.mt false) := by
      simp only [reopen]
      have : t.files.length - 1 = m := by rw [hflen]
      rw [this] at hopen
      rw [hopen]
    rw [hre]
    have habs : absOf a (ess.take m) ess[m] t.mt = absD a ess [] t.mt := by
      have hne : ess[m] ≠ [] := r.chain.ne m hm
      have hfl : (ess.take m).flatten ++ ess[m] = ess.flatten := by
        rw [flatten_take_succ ess m hm, show m + 1 = ess.length by omega, List.take_length]
      have hne2 : ess.flatten ≠ [] := by rw [← hfl]; exact fun h => hne (List.append_eq_nil_iff.mp h).2
      simp only [absOf, absD, hne, if_false, hfl, List.append_nil, hne2]
    rw [habs] at h1 h2
    exact ⟨s', h0, ⟨a', ess', _, r1⟩, f', h1, by rw [r1.abs_eq hp]; exact h2⟩

/-! ### one file: bytes past the records, a slot write cut inside the term -/

/-- writing anything at the end of the records leaves the file holding the same entries -/
theorem FileRep.junk {f : LogFile} {es : List Entry} (r : FileRep p f es) (bs : ByteArray) :
    FileRep p { f with data := bwrite f.data (total es) bs } es := by
  refine ⟨r.tabSize, r.lenLe, r.slots, r.empty, ?_, r.ok, r.endLt⟩
  show (toL (bwrite f.data (total es) bs)).take (total es) = enc es
  rw [toL_bwrite bs r.data_size_ge, List.append_assoc, List.take_left' (by rw [List.length_take, toL_length]; exact Nat.min_eq_left r.data_size_ge)]
  exact r.data

theorem mixField_zero_old (new nb : Nat) (h : new < 18446744073709551616) (hnb : nb = 0) : mixField new 0 nb = 0 := by
  subst hnb
  simp only [mixField]
  have : new / 256 ^ (8 - 0) = 0 := Nat.div_eq_of_lt (by simpa using h)
  simp [this]

/-- a slot write of which at most the 8 bytes of the term arrived leaves the slot empty -/
theorem FileRep.tornTerm {f : LogFile} {es : List Entry} (r : FileRep p f es) (hlen : es.length < p.cap) (new : Slot)
    (hi : new.index < 18446744073709551616) (ho : new.off < 18446744073709551616) (k : Nat) (hk : k ≤ 8) :
    FileRep p (setSlot f es.length (tornSlot (getSlot f es.length) new k)) es := by
  have hts : es.length < f.tab.size := by rw [r.tabSize]; exact hlen
  refine ⟨by simp [setSlot, r.tabSize], r.lenLe, ?_, ?_, r.data, r.ok, r.endLt⟩
  · intro i hi'
    rw [getSlot_setSlot _ _ _ _ hts]
    have : i ≠ es.length := by omega
    simp only [this, if_false]
    exact r.slots i hi'
  · intro i hi'
    rw [getSlot_setSlot _ _ _ _ hts]
    by_cases h : i = es.length
    · subst h
      have ⟨h1, h2⟩ := r.empty es.length (Nat.le_refl _)
      simp only [if_true, tornSlot, h1, h2]
      exact ⟨mixField_zero_old _ _ hi (by omega), mixField_zero_old _ _ ho (by omega)⟩
    · simp only [h, if_false]
      exact r.empty i hi'

/-! ### crash states of the write loop -/

/-- the cuts of a write `safeTorn` lists -/
def safeCut : Mut → Nat → Prop
  | .pay _ _ d, k => k < 4 + d.size
  | .slot _ _ _, k => k < 9
  | _, _ => False

theorem mem_safeTorn_iff {t x : State} {m : Mut} : x ∈ safeTorn p t m ↔ ∃ k, safeCut m k ∧ applyTorn p t m k = some x := by
  cases m <;> simp [safeTorn, safeCut, List.mem_filterMap, List.mem_range]

theorem applyTorn_sameDir {t s x : State} (h : SameDir t s) (m : Mut) (k : Nat) (hx : applyTorn p t m k = some x) :
    ∃ y, applyTorn p s m k = some y ∧ SameDir x y := by
  obtain ⟨h1, h2, h3, h4⟩ := h
  cases m <;> simp only [applyTorn, Option.some.injEq, reduceCtorEq] at hx ⊢
  all_goals subst hx
  all_goals (try (refine ⟨_, rfl, ?_⟩; simp only [SameDir, h1, h2, h3, h4]; simp))
  · refine ⟨_, rfl, ?_⟩
    split <;> simp only [SameDir, h1, h2, h3, h4] <;> simp

theorem mem_crashStates_sameDir {ms : List Mut} : ∀ {t s x : State}, SameDir t s → x ∈ crashStates p t ms →
    ∃ y ∈ crashStates p s ms, SameDir x y := by
  induction ms with
  | nil =>
    intro t s x h hx
    simp only [crashStates, List.mem_singleton] at hx ⊢
    subst hx; exact ⟨s, rfl, h⟩
  | cons m ms ih =>
    intro t s x h hx
    simp only [crashStates, List.mem_cons, List.mem_append] at hx ⊢
    rcases hx with rfl | hx | hx
    · exact ⟨s, Or.inl rfl, h⟩
    · obtain ⟨k, hcut, hk⟩ := mem_safeTorn_iff.mp hx
      obtain ⟨y, hy, hxy⟩ := applyTorn_sameDir h m k hk
      exact ⟨y, Or.inr (Or.inl (mem_safeTorn_iff.mpr ⟨k, hcut, hy⟩)), hxy⟩
    · obtain ⟨y, hy, hxy⟩ := ih (applyMut_sameDir h m) hx
      exact ⟨y, Or.inr (Or.inr hy), hxy⟩

theorem mem_crashStates_append {m1 m2 : List Mut} : ∀ {s x : State}, x ∈ crashStates p s (m1 ++ m2) →
    x ∈ crashStates p s m1 ∨ x ∈ crashStates p (applyMuts p s m1) m2 := by
  induction m1 with
  | nil => intro s x h; right; simpa [applyMuts] using h
  | cons m ms ih =>
    intro s x h
    simp only [List.cons_append, crashStates, List.mem_cons, List.mem_append] at h ⊢
    rcases h with h | h | h
    · exact Or.inl (Or.inl h)
    · exact Or.inl (Or.inr (Or.inl h))
    · rcases ih h with h' | h'
      · exact Or.inl (Or.inr (Or.inr h'))
      · right; simpa [applyMuts] using h'

/-- the three mutations of a rotation: the current file truncated; the next file created; filled -/
theorem rotate_crash (hp : p.WF) {s : State} {a : Nat} {ess : List (List Entry)} {ec : List Entry}
    (r : LogRepW p s a ess ec) (hne : ec ≠ []) :
    (∀ x ∈ crashStates p s (rotateMuts p s (p.dataOff + total ec)),
        (DirRep p x a ess ec ∨ DirRep p x a (ess ++ [ec]) []) ∧ x.mt = s.mt) ∧
      SameDir (applyMuts p s (rotateMuts p s (p.dataOff + total ec))) { rotate p s (p.dataOff + total ec) with next := 0 } := by
  have hsz : p.dataOff + total ec - p.dataOff = total ec := by omega
  have r0 : DirRep p s a ess ec := LogRepW.dirRep r
  -- after the truncation
  have r1 : DirRep p { s with current := { s.current with data := btrunc s.current.data (total ec) } } a ess ec :=
    ⟨r.chain, r.cur.trunc, r.curSeq, rfl, r.fidCur, r.fids, r.np, r.mtOK, r.aPos⟩
  -- after the creation of the next file
  have hrot : SameDir (applyMuts p s (rotateMuts p s (p.dataOff + total ec))) { rotate p s (p.dataOff + total ec) with next := 0 } := by
    simp only [applyMuts, rotateMuts, List.foldl_cons, List.foldl_nil, applyMut, hsz, rotate]
    exact ⟨rfl, rfl, rfl, by simp [r.np]; have := r.fidCur; omega⟩
  have r2 : DirRep p (applyMuts p s (rotateMuts p s (p.dataOff + total ec))) a (ess ++ [ec]) [] :=
    (LogRepW.dirRep (r.rotate_ok hp hne)).of_sameDir hrot
  refine ⟨?_, hrot⟩
  intro x hx
  simp only [rotateMuts, crashStates, safeTorn, List.nil_append, List.mem_cons, List.mem_nil_iff, or_false] at hx
  rcases hx with rfl | rfl | rfl | rfl
  · exact ⟨Or.inl r0, rfl⟩
  · refine ⟨Or.inl ?_, rfl⟩
    simpa only [applyMut, hsz] using r1
  · refine ⟨Or.inr ?_, rfl⟩
    simpa only [applyMuts, rotateMuts, List.foldl_cons, List.foldl_nil, applyMut] using r2
  · refine ⟨Or.inr ?_, rfl⟩
    simpa only [applyMuts, rotateMuts, List.foldl_cons, List.foldl_nil, applyMut] using r2

/-- the two mutations that write one entry: the record (length prefix + payload), then the slot -/
theorem write_crash {s : State} {a : Nat} {ess : List (List Entry)} {ec : List Entry}
    (r : LogRepW p s a ess ec) (re : Entry) (hok : re.OK) (hlen : ec.length < p.cap)
    (hend : p.dataOff + total ec + 4 + re.data.size < 18446744073709551616)
    (hidx : re.index = a + ess.flatten.length + ec.length) :
    (∀ x ∈ crashStates p s [.pay s.current.fid (p.dataOff + total ec) re.data,
          .slot s.current.fid s.next ⟨re.term, re.index, re.typ, p.dataOff + total ec⟩],
        (DirRep p x a ess ec ∨ DirRep p x a ess (ec ++ [re])) ∧ x.mt = s.mt) := by
  have hsz : p.dataOff + total ec - p.dataOff = total ec := by omega
  have hnext := r.next_eq
  -- any bytes at the end of the records
  have rj : ∀ bs : ByteArray, DirRep p { s with current := { s.current with data := bwrite s.current.data (total ec) bs } } a ess ec :=
    fun bs => ⟨r.chain, r.cur.junk bs, r.curSeq, rfl, r.fidCur, r.fids, r.np, r.mtOK, r.aPos⟩
  have rS := r.write re hok hlen hend hidx
  intro x hx
  simp only [crashStates, List.mem_cons, List.mem_append, List.mem_singleton, List.mem_nil_iff, or_false] at hx
  rcases hx with rfl | hx | rfl | hx | rfl
  · exact ⟨Or.inl (LogRepW.dirRep r), rfl⟩
  · obtain ⟨k, _, hk⟩ := mem_safeTorn_iff.mp hx
    simp only [applyTorn, Option.some.injEq, hsz] at hk
    subst hk
    exact ⟨Or.inl (rj _), rfl⟩
  · refine ⟨Or.inl ?_, rfl⟩
    simpa only [applyMut, writePayload, hsz] using rj (be32 re.data.size ++ re.data)
  · obtain ⟨k, hcut, hk⟩ := mem_safeTorn_iff.mp hx
    simp only [safeCut] at hcut
    simp only [applyTorn, applyMut, Option.some.injEq] at hk
    subst hk
    refine ⟨Or.inl ?_, rfl⟩
    have hf : FileRep p (writePayload p s.current (p.dataOff + total ec) re.data) ec := by
      simpa only [writePayload, hsz] using r.cur.junk (be32 re.data.size ++ re.data)
    have := hf.tornTerm hlen ⟨re.term, re.index, re.typ, p.dataOff + total ec⟩ hok.index_lt (by simp only; omega) k (by omega)
    rw [hnext]
    exact ⟨r.chain, this, r.curSeq, rfl, r.fidCur, r.fids, r.np, r.mtOK, r.aPos⟩
  · refine ⟨Or.inr ?_, rfl⟩
    simp only [applyMut]
    exact (LogRepW.dirRep rS).of_sameDir ⟨rfl, rfl, rfl, rfl⟩

/-- the optional rotation before an entry is written, with its crash states -/
theorem pre_crash (hp : p.WF) {s : State} {a : Nat} {ess : List (List Entry)} {ec : List Entry}
    (r : LogRepW p s a ess ec) (re : Entry) (hok : re.OK) :
    ∃ s1 ess1 ec1 pre,
      (if needRotate p s.next ((p.dataOff + total ec : Nat) : Int) re.data.size then rotateMuts p s (p.dataOff + total ec) else []) = pre ∧
      (if needRotate p s.next ((p.dataOff + total ec : Nat) : Int) re.data.size then
          (({ rotate p s (p.dataOff + total ec) with next := 0 } : State), p.dataOff)
        else (s, p.dataOff + total ec)) = (s1, p.dataOff + total ec1) ∧
      LogRepW p s1 a ess1 ec1 ∧ ess1.flatten ++ ec1 = ess.flatten ++ ec ∧ ec1.length < p.cap ∧
      p.dataOff + total ec1 + 4 + re.data.size < 18446744073709551616 ∧
      (∀ x ∈ crashStates p s pre, ∃ ess' ec', DirRep p x a ess' ec' ∧ ess'.flatten ++ ec' = ess.flatten ++ ec ∧ x.mt = s.mt) ∧
      SameDir (applyMuts p s pre) s1 ∧ s1.mt = s.mt := by
  rw [r.next_eq, needRotate_nat]
  by_cases hrot : (decide (ec.length ≥ p.cap) || (decide (ec.length > 0) && decide (p.dataOff + total ec + 4 + re.data.size > p.maxSize))) = true
  · have hne : ec ≠ [] := by
      intro h; subst h
      have h1 := hp.cap_pos
      simp at hrot; omega
    obtain ⟨hc, hsd⟩ := rotate_crash hp r hne
    refine ⟨_, ess ++ [ec], [], rotateMuts p s (p.dataOff + total ec), by rw [if_pos hrot], ?_, r.rotate_ok hp hne, by simp,
      by have := hp.cap_pos; simp; omega, ?_, ?_, hsd, rfl⟩
    · rw [if_pos hrot]; simp [total]
    · have := hp.dataOff_lt; have := hok.size_lt; simp [total]; omega
    · intro x hx
      obtain ⟨h1 | h1, h2⟩ := hc x hx
      · exact ⟨ess, ec, h1, rfl, h2⟩
      · exact ⟨ess ++ [ec], [], h1, by simp, h2⟩
  · refine ⟨s, ess, ec, [], by rw [if_neg hrot], by rw [if_neg hrot], r, rfl, ?_, ?_, ?_, SameDir.refl s, rfl⟩
    · simp at hrot; omega
    · have h1 := hp.maxSize_lt
      have h2 := hp.dataOff_lt
      have h3 := hok.size_lt
      simp at hrot
      by_cases he : ec.length > 0
      · have := hrot.2 he; omega
      · have : ec = [] := List.eq_nil_of_length_eq_zero (by omega)
        subst this
        simp [total]; omega
    · intro x hx
      simp only [crashStates, List.mem_singleton] at hx
      subst hx
      exact ⟨ess, ec, LogRepW.dirRep r, rfl, rfl⟩

/-- every crash state of the write loop holds the entries before the loop plus a prefix of the
new ones; and the mutation list, applied completely, is `addLoop` -/
theorem loop_crash (hp : p.WF) {a : Nat} :
    ∀ (new : List Entry) (s : State) (ess : List (List Entry)) (ec : List Entry),
      LogRepW p s a ess ec → (∀ e ∈ new, e.OK) → Seq (a + ess.flatten.length + ec.length) new →
      (∀ x ∈ crashStates p s (addLoopMuts p new s (p.dataOff + total ec)),
        ∃ j, j ≤ new.length ∧ ∃ ess' ec', DirRep p x a ess' ec' ∧ ess'.flatten ++ ec' = ess.flatten ++ ec ++ new.take j ∧
          x.mt = s.mt) ∧
      SameDir (applyMuts p s (addLoopMuts p new s (p.dataOff + total ec))) (addLoop p new s (p.dataOff + total ec)) := by
  intro new
  induction new with
  | nil =>
    intro s ess ec r _ _
    refine ⟨?_, SameDir.refl s⟩
    intro x hx
    simp only [addLoopMuts, crashStates, List.mem_singleton] at hx
    subst hx
    exact ⟨0, Nat.le_refl _, ess, ec, LogRepW.dirRep r, by simp, rfl⟩
  | cons re rest ih =>
    intro s ess ec r hok hseq
    have hre := hok re (by simp)
    have hidx : re.index = a + ess.flatten.length + ec.length := by
      have := hseq 0 (by simp)
      simp only [List.getElem_cons_zero] at this; omega
    obtain ⟨s1, ess1, ec1, pre, hpre, heq, r1, hall, hlen, hend, hcpre, hsdpre, hmt1⟩ := pre_crash hp r re hre
    have hfl : ess1.flatten.length + ec1.length = ess.flatten.length + ec.length := by
      have := congrArg List.length hall; simpa using this
    have r2 := r1.write re hre hlen hend (by omega)
    have hno : (nextOffset ((p.dataOff + total ec1 : Nat) : Int) (re.data.size : Int)).toNat = p.dataOff + total (ec1 ++ [re]) := by
      rw [nextOffset_nat, total_append]; simp [total, recLen]; omega
    obtain ⟨ihc, ihs⟩ := ih _ ess1 (ec1 ++ [re]) r2 (fun e he => hok e (by simp [he]))
      (by
        have := hseq.tail
        simp only [List.length_append, List.length_cons, List.length_nil]
        rw [show a + ess1.flatten.length + (ec1.length + (0 + 1)) = a + ess.flatten.length + ec.length + 1 by omega]
        exact this)
    have hw := write_crash r1 re hre hlen hend (by omega)
    simp only [addLoopMuts, addLoop]
    rw [hpre, heq]
    simp only
    rw [hno]
    -- the state after the two writes of this entry, as the mutation list produces it
    have hsd2 : SameDir (applyMuts p s1 [.pay s1.current.fid (p.dataOff + total ec1) re.data,
        .slot s1.current.fid s1.next ⟨re.term, re.index, re.typ, p.dataOff + total ec1⟩])
        { s1 with current := (setSlot (writePayload p s1.current (p.dataOff + total ec1) re.data) s1.next (Slot.mk re.term re.index re.typ (p.dataOff + total ec1))), next := s1.next + 1 } := ⟨rfl, rfl, rfl, rfl⟩
    constructor
    · intro x hx
      rw [List.append_assoc] at hx
      rcases mem_crashStates_append hx with hx | hx
      · obtain ⟨ess', ec', h1, h2, h3⟩ := hcpre x hx
        exact ⟨0, Nat.zero_le _, ess', ec', h1, by simpa using h2, h3⟩
      · obtain ⟨y, hy, hxy⟩ := mem_crashStates_sameDir hsdpre hx
        rcases mem_crashStates_append hy with hy | hy
        · obtain ⟨h1 | h1, h2⟩ := hw y hy
          · exact ⟨0, Nat.zero_le _, ess1, ec1, h1.of_sameDir hxy, by simpa using hall, by rw [hxy.2.2.1, h2, hmt1]⟩
          · refine ⟨1, by simp, ess1, ec1 ++ [re], h1.of_sameDir hxy, ?_, by rw [hxy.2.2.1, h2, hmt1]⟩
            rw [← List.append_assoc, hall]; simp
        · obtain ⟨z, hz, hyz⟩ := mem_crashStates_sameDir hsd2 hy
          obtain ⟨j, hj, ess', ec', h1, h2, h3⟩ := ihc z hz
          refine ⟨j + 1, by simp; omega, ess', ec', (h1.of_sameDir hyz).of_sameDir hxy, ?_, ?_⟩
          · rw [h2, ← List.append_assoc, hall]; simp
          · rw [hxy.2.2.1, hyz.2.2.1, h3, hmt1]
    · rw [List.append_assoc, applyMuts_append, applyMuts_append]
      exact ((applyMuts_sameDir ((applyMuts_sameDir hsdpre _).trans hsd2) _).trans ihs)

/-! ### crash states of the conflict handling -/

/-- the directory after the `i` newest files were removed (`i ≥ 1`: the current file is gone,
rotated file `n - i` is the last one) -/
def dropNewest (s : State) (i : Nat) : State :=
  if i = 0 then s
  else { s with files := s.files.take (s.files.length - i), current := s.files.getD (s.files.length - i) default }

theorem applyMut_rmLast_dropNewest (s : State) (i fid : Nat) (hi : i < s.files.length) :
    applyMut p (dropNewest s i) (.rmLast fid) = dropNewest s (i + 1) := by
  have hn : s.files.length - (i + 1) < s.files.length := by omega
  have hget : s.files.getD (s.files.length - (i + 1)) default = s.files[s.files.length - (i + 1)] := by
    rw [List.getD_eq_getElem?_getD, List.getElem?_eq_getElem hn]; rfl
  by_cases h0 : i = 0
  · subst h0
    have hne : s.files ≠ [] := by intro h; rw [h] at hi; simp at hi
    simp only [dropNewest, if_true, applyMut, Nat.zero_add, if_false, Nat.one_ne_zero]
    rw [List.getLast?_eq_some_getLast hne]
    simp only
    rw [hget, List.dropLast_eq_take, List.getLast_eq_getElem]
  · have hne : s.files.take (s.files.length - i) ≠ [] := by
      intro h
      have := congrArg List.length h
      simp only [List.length_take, List.length_nil] at this
      omega
    simp only [dropNewest, h0, if_false, applyMut, Nat.add_eq_zero_iff, Nat.one_ne_zero, and_false]
    rw [List.getLast?_eq_some_getLast hne]
    simp only
    rw [hget, List.dropLast_eq_take, List.getLast_eq_getElem]
    simp only [List.length_take, List.take_take, List.getElem_take]
    have e1 : min (s.files.length - i) s.files.length = s.files.length - i := by omega
    simp only [e1]
    have e2 : s.files.length - i - 1 = s.files.length - (i + 1) := by omega
    simp only [e2]
    have e3 : min (s.files.length - (i + 1)) (s.files.length - i) = s.files.length - (i + 1) := by omega
    rw [e3]

theorem applyMuts_rmLast (s : State) : ∀ (l : List LogFile) (i : Nat), i + l.length ≤ s.files.length →
    applyMuts p (dropNewest s i) (l.map (fun f => Mut.rmLast f.fid)) = dropNewest s (i + l.length) := by
  intro l
  induction l with
  | nil => intro i _; rfl
  | cons f l ih =>
    intro i h
    simp only [List.length_cons] at h
    simp only [List.map_cons, applyMuts, List.foldl_cons]
    rw [applyMut_rmLast_dropNewest s i f.fid (by omega)]
    have := ih (i + 1) (by omega)
    simp only [applyMuts] at this
    rw [this, List.length_cons]
    congr 1; omega

/-- crash states of a list of removals: the directories after 0, 1, 2, … removals -/
theorem mem_crashStates_rmLast (s : State) (rest : List Mut) : ∀ (l : List LogFile) (i : Nat), i + l.length ≤ s.files.length →
    ∀ x ∈ crashStates p (dropNewest s i) (l.map (fun f => Mut.rmLast f.fid) ++ rest),
      (∃ k, i ≤ k ∧ k ≤ i + l.length ∧ x = dropNewest s k) ∨ x ∈ crashStates p (dropNewest s (i + l.length)) rest := by
  intro l
  induction l with
  | nil => intro i _ x hx; right; simpa using hx
  | cons f l ih =>
    intro i h x hx
    simp only [List.length_cons] at h
    simp only [List.map_cons, List.cons_append, crashStates, safeTorn, List.nil_append, List.mem_cons] at hx
    rcases hx with rfl | hx
    · exact Or.inl ⟨i, Nat.le_refl _, by omega, rfl⟩
    · rw [applyMut_rmLast_dropNewest s i f.fid (by omega)] at hx
      rcases ih (i + 1) (by omega) x hx with ⟨k, h1, h2, h3⟩ | h'
      · exact Or.inl ⟨k, by omega, by simp only [List.length_cons]; omega, h3⟩
      · right
        rw [List.length_cons, show i + (l.length + 1) = i + 1 + l.length by omega]
        exact h'

theorem LogRep.dropNewest_rep {s : State} {a : Nat} {ess : List (List Entry)} {ec : List Entry} (r : LogRep p s a ess ec)
    (k : Nat) (hk1 : 1 ≤ k) (hk2 : k ≤ ess.length) :
    DirRep p (dropNewest s k) a (ess.take (ess.length - k)) (ess[ess.length - k]'(by omega)) := by
  have hm : ess.length - k < ess.length := by omega
  have h := (r.chain.lastAsCurrent (ess.length - k) hm s.mt r.mtOK r.fids r.aPos).dirRep
  apply h.of_sameDir
  have hk0 : k ≠ 0 := by omega
  simp only [dropNewest, hk0, if_false, r.chain.len]
  exact ⟨rfl, rfl, rfl, r.np⟩

theorem dropNewest_mt (s : State) (k : Nat) : (dropNewest s k).mt = s.mt := by
  unfold dropNewest; split <;> rfl

/-- conflict handling, crash states: the old log, cut at a file boundary behind the conflict
index or exactly at it; applied completely the mutation list is `conflict` -/
theorem conflict_crash (hp : p.WF) {s : State} {a : Nat} {ess : List (List Entry)} {ec : List Entry}
    (r : LogRep p s a ess ec) (idx : Nat) (hne : ess.flatten ++ ec ≠ [])
    (h1 : a ≤ idx) (h2 : idx ≤ a + (ess.flatten ++ ec).length) :
    (∀ x ∈ crashStates p s (conflictMuts p s idx),
        ∃ M, idx - a ≤ M ∧ ∃ ess' ec', DirRep p x a ess' ec' ∧ ess'.flatten ++ ec' = (ess.flatten ++ ec).take M ∧ x.mt = s.mt) ∧
      SameDir (applyMuts p s (conflictMuts p s idx)) (conflict p s idx) := by
  have hec : ec ≠ [] := fun h => hne (r.all_nil_iff.mpr h)
  obtain ⟨essF, ecF, rF, hallF⟩ := r.conflict_ok hp idx hne h1 h2
  -- the state before: the whole old log
  have hold : ∃ M, idx - a ≤ M ∧ ∃ ess' ec', DirRep p s a ess' ec' ∧ ess'.flatten ++ ec' = (ess.flatten ++ ec).take M ∧ s.mt = s.mt :=
    ⟨(ess.flatten ++ ec).length, by omega, ess, ec, r.dirRep, (List.take_length).symm, rfl⟩
  -- the state after, once it is known to be `conflict` up to `next`
  have hfin : ∀ x, SameDir x (conflict p s idx) →
      ∃ M, idx - a ≤ M ∧ ∃ ess' ec', DirRep p x a ess' ec' ∧ ess'.flatten ++ ec' = (ess.flatten ++ ec).take M ∧ x.mt = s.mt :=
    fun x hx => ⟨idx - a, Nat.le_refl _, essF, ecF, (LogRepW.dirRep rF).of_sameDir hx, hallF, by rw [hx.2.2.1, conflict_mt]⟩
  by_cases hcur : curStart a ess ≤ idx
  · have hsg := r.slotGe_cur hec idx hcur
    by_cases hin : idx < curStart a ess + ec.length
    · rw [if_pos hin] at hsg
      have hk : idx - curStart a ess < ec.length := by omega
      have hnx : s.next > idx - curStart a ess := by rw [r.next_eq]; exact hk
      obtain ⟨hc1, hc2⟩ := clearCur_nat p s.next (idx - curStart a ess) (by omega)
      have hc1' : (decide (clearCurLen p ↑s.next ↑(idx - curStart a ess) < 0) ||
          (clearCurOff p ↑s.next ↑(idx - curStart a ess) != ((entrySize * (idx - curStart a ess) : Nat) : Int))) = false := by
        simp only [Bool.or_eq_false_iff, decide_eq_false_iff_not, bne_eq_false_iff_eq]
        constructor
        · intro h; exact hc1 (Or.inl h)
        · exact Classical.byContradiction fun h => hc1 (Or.inr h)
      have hpush : ((entrySize : Int) * ((idx - curStart a ess : Nat) : Int)) = ((entrySize * (idx - curStart a ess) : Nat) : Int) := by
        push_cast; rfl
      have hmuts : conflictMuts p s idx = [.zero s.current.fid (idx - curStart a ess) (clearCurLen p ↑s.next ↑(idx - curStart a ess)).toNat] := by
        simp only [conflictMuts, hsg, hnx, if_true]
        rw [hpush, hc1']; simp
      have hcf : SameDir (applyMuts p s (conflictMuts p s idx)) (conflict p s idx) := by
        rw [hmuts]
        simp only [applyMuts, List.foldl_cons, List.foldl_nil, applyMut, conflict, hsg, hnx, if_true]
        rw [hpush, hc1']
        exact ⟨rfl, rfl, rfl, rfl⟩
      refine ⟨?_, hcf⟩
      intro x hx
      rw [hmuts] at hx hcf
      simp only [crashStates, safeTorn, List.nil_append, List.mem_cons, List.mem_nil_iff, or_false] at hx
      rcases hx with rfl | rfl
      · exact hold
      · exact hfin _ (by simpa only [applyMuts, List.foldl_cons, List.foldl_nil] using hcf)
    · rw [if_neg hin] at hsg
      have hnx : ¬ s.next > ec.length := by rw [r.next_eq]; omega
      have hmuts : conflictMuts p s idx = [] := by simp only [conflictMuts, hsg, hnx, if_false]
      have hcf : SameDir (applyMuts p s (conflictMuts p s idx)) (conflict p s idx) := by
        rw [hmuts]
        simp only [applyMuts, List.foldl_nil, conflict, hsg, hnx, if_false]
        exact ⟨rfl, rfl, rfl, rfl⟩
      refine ⟨?_, hcf⟩
      intro x hx
      rw [hmuts] at hx
      simp only [crashStates, List.mem_singleton] at hx
      subst hx; exact hold
  · have hlt : idx < a + ess.flatten.length := by simp only [curStart] at hcur; omega
    obtain ⟨j, hj, hj1, hj2⟩ := r.chain.locate idx h1 hlt
    have hsg := r.slotGe_rot idx j hj hj1 hj2
    have hflen := r.chain.len
    have hfj : ¬ j ≥ s.files.length := by rw [hflen]; omega
    have htf := hp.table_fits
    have hl := (r.chain.rep j hj).lenLe
    obtain ⟨hc1, hc2⟩ := clearRot_nat p (idx - (a + pre ess j)) (by omega)
    have hc1' : (decide (clearRotLen p ↑(idx - (a + pre ess j)) < 0) ||
        (clearRotOff p ↑(idx - (a + pre ess j)) != ((entrySize * (idx - (a + pre ess j)) : Nat) : Int))) = false := by
      simp only [Bool.or_eq_false_iff, decide_eq_false_iff_not, bne_eq_false_iff_eq]
      constructor
      · intro h; exact hc1 (Or.inl h)
      · exact Classical.byContradiction fun h => hc1 (Or.inr h)
    have hpush : ((entrySize : Int) * ((idx - (a + pre ess j) : Nat) : Int)) = ((entrySize * (idx - (a + pre ess j)) : Nat) : Int) := by
      push_cast; rfl
    -- the removals: the current file and the rotated files behind file j, newest first
    have hrm : (s.files.drop (j + 1) ++ [s.current]).reverse.map (fun f => Mut.rmLast f.fid) =
        ((s.files.drop (j + 1) ++ [s.current]).reverse).map (fun f => Mut.rmLast f.fid) := rfl
    have hrlen : ((s.files.drop (j + 1) ++ [s.current]).reverse).length = s.files.length - j := by
      simp only [List.length_reverse, List.length_append, List.length_drop, List.length_singleton]; omega
    have hmuts : conflictMuts p s idx = ((s.files.drop (j + 1) ++ [s.current]).reverse).map (fun f => Mut.rmLast f.fid) ++
        [.zero (s.files.getD j default).fid (idx - (a + pre ess j)) (clearRotLen p ↑(idx - (a + pre ess j))).toNat] := by
      simp only [conflictMuts, hsg, hfj, if_false]
      rw [hpush, hc1']; simp
    have h0 : dropNewest s 0 = s := by simp [dropNewest]
    have hafter : applyMuts p s (((s.files.drop (j + 1) ++ [s.current]).reverse).map (fun f => Mut.rmLast f.fid)) =
        dropNewest s (s.files.length - j) := by
      have := applyMuts_rmLast (p := p) s ((s.files.drop (j + 1) ++ [s.current]).reverse) 0 (by rw [hrlen]; omega)
      rw [h0, hrlen, Nat.zero_add] at this
      exact this
    have hcf : SameDir (applyMuts p s (conflictMuts p s idx)) (conflict p s idx) := by
      rw [hmuts, applyMuts_append, hafter]
      have hk0 : s.files.length - j ≠ 0 := by omega
      have hjj : s.files.length - (s.files.length - j) = j := by omega
      simp only [applyMuts, List.foldl_cons, List.foldl_nil, applyMut, dropNewest, hk0, if_false, hjj, conflict, hsg, hfj]
      rw [hpush, hc1']
      exact ⟨rfl, rfl, rfl, rfl⟩
    refine ⟨?_, hcf⟩
    intro x hx
    rw [hmuts] at hx
    have hx' : x ∈ crashStates p (dropNewest s 0) (((s.files.drop (j + 1) ++ [s.current]).reverse).map (fun f => Mut.rmLast f.fid) ++
        [.zero (s.files.getD j default).fid (idx - (a + pre ess j)) (clearRotLen p ↑(idx - (a + pre ess j))).toNat]) := by
      rw [h0]; exact hx
    have hstep : ∀ k, 1 ≤ k → k ≤ s.files.length - j →
        ∃ M, idx - a ≤ M ∧ ∃ ess' ec', DirRep p (dropNewest s k) a ess' ec' ∧ ess'.flatten ++ ec' = (ess.flatten ++ ec).take M ∧
          (dropNewest s k).mt = s.mt := by
      intro k hk1 hk2
      have hkl : k ≤ ess.length := by rw [← hflen]; omega
      have hm : ess.length - k < ess.length := by omega
      refine ⟨pre ess (ess.length - k + 1), ?_, _, _, r.dropNewest_rep k hk1 hkl, ?_, dropNewest_mt s k⟩
      · have hmono := pre_mono ess (show j + 1 ≤ ess.length - k + 1 by rw [← hflen]; omega)
        have := pre_succ ess j hj
        omega
      · rw [flatten_take_succ ess _ hm, flatten_take, List.take_append_of_le_length (pre_le_flatten ess _)]
    rcases mem_crashStates_rmLast (p := p) s _ _ 0 (by rw [hrlen]; omega) x hx' with ⟨k, _, hk2, rfl⟩ | hx''
    · by_cases hk0 : k = 0
      · subst hk0; rw [h0]; exact hold
      · exact hstep k (by omega) (by rw [hrlen] at hk2; omega)
    · rw [hrlen, Nat.zero_add] at hx''
      simp only [crashStates, safeTorn, List.nil_append, List.mem_cons, List.mem_nil_iff, or_false] at hx''
      rcases hx'' with rfl | rfl
      · exact hstep _ (by omega) (Nat.le_refl _)
      · apply hfin
        have := hcf
        rw [hmuts, applyMuts_append, hafter] at this
        simpa only [applyMuts, List.foldl_cons, List.foldl_nil] using this

end OG.C17
