/-
C17 — crash states: the directory after a prefix of the mutation list of an operation is a
directory the representation invariant covers (`DirRep`), and `Init` recovers from it.
-/
import OG.C17.Lemmas.Steps
import OG.C17.Crash

namespace OG.C17
open OG.Gen.C17 (entrySize unit32Size clearCurOff clearCurLen clearRotOff clearRotLen needRotate nextOffset)

variable {p : Params}

/-- two states with the same directory content (`next` is not part of the directory) -/
def SameDir (t s : State) : Prop := t.files = s.files ∧ t.current = s.current ∧ t.mt = s.mt ∧ t.panicked = s.panicked

theorem SameDir.refl (s : State) : SameDir s s := ⟨rfl, rfl, rfl, rfl⟩

theorem SameDir.symm {t s : State} (h : SameDir t s) : SameDir s t := ⟨h.1.symm, h.2.1.symm, h.2.2.1.symm, h.2.2.2.symm⟩

theorem SameDir.trans {t s u : State} (h1 : SameDir t s) (h2 : SameDir s u) : SameDir t u :=
  ⟨h1.1.trans h2.1, h1.2.1.trans h2.2.1, h1.2.2.1.trans h2.2.2.1, h1.2.2.2.trans h2.2.2.2⟩

theorem SameDir.with_next (s : State) (n : Nat) : SameDir { s with next := n } s := ⟨rfl, rfl, rfl, rfl⟩

theorem applyMut_sameDir {t s : State} (h : SameDir t s) (m : Mut) : SameDir (applyMut p t m) (applyMut p s m) := by
  obtain ⟨h1, h2, h3, h4⟩ := h
  cases m <;> simp only [applyMut, h1, h2, h3, h4, SameDir] <;> (try exact ⟨trivial, trivial, trivial, trivial⟩)
  all_goals (try (split <;> simp [h2, h3, h4]))
  all_goals simp [h2, h3, h4]

theorem applyMuts_sameDir {t s : State} (h : SameDir t s) (ms : List Mut) : SameDir (applyMuts p t ms) (applyMuts p s ms) := by
  induction ms generalizing t s with
  | nil => exact h
  | cons m ms ih => exact ih (applyMut_sameDir h m)

theorem reopen_sameDir {t s : State} (h : SameDir t s) : reopen p t = reopen p s := by
  obtain ⟨h1, h2, h3, _⟩ := h
  simp only [reopen, h1, h2, h3]

theorem recover_sameDir {t s : State} (h : SameDir t s) : recover p t = recover p s := by
  simp only [recover, reopen_sameDir h, h.2.2.2]

/-! ### directories the invariant covers -/

/-- the directory `t` holds the rotated lists `ess` and, in its last file, the list `ec` —
which may be empty although rotated files exist (a crash right after a rotation, or after a
conflict zeroed a whole file) -/
def DirRep (p : Params) (t : State) (a : Nat) (ess : List (List Entry)) (ec : List Entry) : Prop :=
  LogRepW p { t with next := ec.length } a ess ec

/-- the log and meta a directory stands for -/
def absD (a : Nat) (ess : List (List Entry)) (ec : List Entry) (m : Meta) : SpecState :=
  { first := if ess.flatten ++ ec = [] then 1 else a, ents := ess.flatten ++ ec, hs := m.hs, snap := m.snap }

/-- `Init` on the image succeeds, the invariant holds afterwards, and the reopened store stands
for `σ` up to the compaction a reopen may apply (whole files below the snapshot index) -/
def Recovers (p : Params) (t : State) (σ : SpecState) : Prop :=
  ∃ s', recover p t = .ok s' ∧ Inv p s' ∧ ∃ f', σ.mayCompactTo σ.snap.index f' ∧ abs p s' = σ.compactTo f'

theorem LogRepW.dirRep {s : State} {a : Nat} {ess : List (List Entry)} {ec : List Entry} (r : LogRepW p s a ess ec) :
    DirRep p s a ess ec := by
  have : ({ s with next := ec.length } : State) = s := by
    have := r.next_eq
    cases s; simp_all
  unfold DirRep
  rw [this]; exact r

theorem LogRep.dirRep {s : State} {a : Nat} {ess : List (List Entry)} {ec : List Entry} (r : LogRep p s a ess ec) :
    DirRep p s a ess ec := by
  have : ({ s with next := ec.length } : State) = s := by
    have := r.next_eq
    cases s; simp_all
  unfold DirRep
  rw [this]; exact r.weaken

theorem DirRep.of_sameDir {t s : State} {a : Nat} {ess : List (List Entry)} {ec : List Entry}
    (r : DirRep p s a ess ec) (h : SameDir t s) : DirRep p t a ess ec := by
  obtain ⟨h1, h2, h3, h4⟩ := h
  unfold DirRep at *
  have : ({ t with next := ec.length } : State) = { s with next := ec.length } := by
    cases t; cases s; simp_all
  rw [this]; exact r

theorem absD_eq_absOf {a : Nat} {ess : List (List Entry)} {ec : List Entry} (m : Meta) (h : ec = [] → ess = []) :
    absD a ess ec m = absOf a ess ec m := by
  simp only [absD, absOf]
  congr 1
  by_cases hec : ec = []
  · rw [h hec, hec]; rfl
  · have : ess.flatten ++ ec ≠ [] := fun h => hec (List.append_eq_nil_iff.mp h).2
    simp [hec]

/-- a chain of rotated files read as a directory whose last file is the current one -/
theorem Chain.lastAsCurrent {a : Nat} {fs : List LogFile} {ess : List (List Entry)} (c : Chain p a fs ess)
    (m : Nat) (hm : m < ess.length) (mt : Meta) (hmt : mt.snapIndex = mt.snap.index ∧ mt.snapTerm = mt.snap.term)
    (hfid : ∀ f ∈ fs, 1 ≤ f.fid) (ha : 1 ≤ a) :
    LogRep p { files := fs.take m, current := fs.getD m default, next := ess[m].length, mt := mt, panicked := false }
      a (ess.take m) ess[m] := by
  have hmf : m < fs.length := by rw [c.len]; exact hm
  refine ⟨c.take m, c.rep m hm, ?_, rfl, fun h => absurd h (c.ne m hm), ?_, ?_, rfl, hmt, ha⟩
  · show Seq (a + ((ess.take m).flatten).length) ess[m]
    exact c.seq_at m hm
  · show 1 ≤ (fs.getD m default).fid
    apply hfid
    rw [List.getD_eq_getElem?_getD, List.getElem?_eq_getElem hmf]
    exact List.getElem_mem hmf
  · intro f hf; exact hfid f (List.mem_of_mem_take hf)

theorem flatten_take_succ (ess : List (List Entry)) (m : Nat) (hm : m < ess.length) :
    (ess.take m).flatten ++ ess[m] = (ess.take (m + 1)).flatten := by
  rw [List.take_succ_eq_append_getElem hm, List.flatten_append]; simp

theorem take_getD_dropLast (fs : List LogFile) (h : fs ≠ []) :
    fs.take (fs.length - 1) ++ [fs.getD (fs.length - 1) default] = fs := by
  have hl : 0 < fs.length := List.length_pos_iff.mpr h
  have hi : fs.length - 1 < fs.length := by omega
  rw [List.getD_eq_getElem?_getD, List.getElem?_eq_getElem hi]
  simp only [Option.getD_some]
  have := List.take_succ_eq_append_getElem hi
  rw [show fs.length - 1 + 1 = fs.length by omega, List.take_length] at this
  exact this.symm

/-- `openEntryLogs` on a directory whose last file is empty although earlier files hold
entries: the empty file is deleted, the last earlier file becomes the current one -/
theorem LogRepW.open_trailing_empty {t : State} {a : Nat} {ess : List (List Entry)}
    (r : LogRepW p t a ess []) (hess : ess ≠ []) :
    openEntryLogs p (t.files ++ [t.current]) t.mt =
      openEntryLogs p (t.files.take (t.files.length - 1) ++ [t.files.getD (t.files.length - 1) default]) t.mt := by
  have hf : t.files ≠ [] := by
    intro h
    have := r.chain.len; rw [h] at this
    exact hess (List.eq_nil_of_length_eq_zero this.symm)
  rw [take_getD_dropLast _ hf]
  have h0 : t.current.firstIndex = 0 := r.cur.firstIndex_nil
  have hpos : ∀ f ∈ t.files, 1 ≤ f.firstIndex := by
    intro f hf
    obtain ⟨i, hi, rfl⟩ := List.getElem_of_mem hf
    have e1 := r.chain.firstIndex i (by rw [← r.chain.len]; exact hi)
    rw [List.getD_eq_getElem?_getD, List.getElem?_eq_getElem hi] at e1
    simp only [Option.getD_some] at e1
    have := r.aPos
    omega
  have hs1 : (t.current :: t.files).Pairwise (fun x y => x.firstIndex < y.firstIndex) := by
    rw [List.pairwise_cons]
    refine ⟨fun f hf => ?_, r.chain.sorted⟩
    have := hpos f hf; omega
  have hsort1 : sortBy (·.firstIndex) (sortBy (·.fid) (t.files ++ [t.current])) = t.current :: t.files :=
    sortBy_of_strict _ _ _ ((List.mergeSort_perm _ _).trans (List.perm_append_comm.trans (by simp))) hs1
  have hsort2 : sortBy (·.firstIndex) (sortBy (·.fid) t.files) = t.files :=
    sortBy_of_strict _ _ _ (List.mergeSort_perm _ _) r.chain.sorted
  have hfilt : ∀ f ∈ t.files, (f.firstIndex != 0) = true := by
    intro f hf; have := hpos f hf; simp; omega
  simp only [openEntryLogs, hsort1, hsort2, List.filter_cons, h0, bne_self_eq_false, Bool.false_eq_true, if_false,
    List.filter_eq_self.mpr hfilt]
  obtain ⟨l, hl⟩ : ∃ l, t.files.getLast? = some l := by
    cases hgl : t.files.getLast? with
    | none => exact absurd (List.getLast?_eq_none_iff.mp hgl) hf
    | some l => exact ⟨l, rfl⟩
  simp only [hl]

/-- `Init` recovers from a directory the invariant covers -/
theorem DirRep.recovers (hp : p.WF) {t : State} {a : Nat} {ess : List (List Entry)} {ec : List Entry}
    (r : DirRep p t a ess ec) : Recovers p t (absD a ess ec t.mt) := by
  have hnp : t.panicked = false := r.np
  have hrec : recover p t = reopen p t := by simp [recover, hnp]
  unfold Recovers
  rw [hrec]
  by_cases hstr : ec = [] → ess = []
  · -- an ordinary state
    have r' : LogRep p { t with next := ec.length } a ess ec := LogRepW.strengthen r hstr
    obtain ⟨s', h0, a', ess', r1, f', h1, h2⟩ := r'.reopen_ok hp
    have hre : reopen p ({ t with next := ec.length } : State) = reopen p t := reopen_sameDir (SameDir.with_next t _)
    rw [hre] at h0
    rw [absD_eq_absOf _ hstr]
    exact ⟨s', h0, ⟨a', ess', ec, r1⟩, f', h1, by rw [r1.abs_eq hp]; exact h2⟩
  · -- the last file is empty, earlier files are not
    have hec : ec = [] := Classical.byContradiction fun h => hstr (fun h' => absurd h' h)
    have hess : ess ≠ [] := fun h => hstr (fun _ => h)
    subst hec
    have hlen : 0 < ess.length := List.length_pos_iff.mpr hess
    have hopen := LogRepW.open_trailing_empty r hess
    simp only at hopen
    have hflen : t.files.length = ess.length := r.chain.len
    let m := ess.length - 1
    have hm : m < ess.length := by omega
    have ru := r.chain.lastAsCurrent m hm t.mt r.mtOK r.fids r.aPos
    obtain ⟨s', h0, a', ess', r1, f', h1, h2⟩ := ru.reopen_ok hp
    have hre : reopen p t = reopen p (State.mk (t.files.take m) (t.files.getD m default) ess[m].length t.mt false) := by
      simp only [reopen]
      have : t.files.length - 1 = m := by rw [hflen]
      rw [this] at hopen
      rw [hopen]
    rw [hre]
    have habs : absOf a (ess.take m) ess[m] t.mt = absD a ess [] t.mt := by
      have hne : ess[m] ≠ [] := r.chain.ne m hm
      have hfl : (ess.take m).flatten ++ ess[m] = ess.flatten := by
        rw [flatten_take_succ ess m hm, show m + 1 = ess.length by omega, List.take_length]
      have hne2 : ess.flatten ≠ [] := by rw [← hfl]; exact fun h => hne (List.append_eq_nil_iff.mp h).2
      simp only [absOf, absD, hne, if_false, hfl, List.append_nil, hne2]
    rw [habs] at h1 h2
    exact ⟨s', h0, ⟨a', ess', _, r1⟩, f', h1, by rw [r1.abs_eq hp]; exact h2⟩

/-! ### one file: bytes past the records, a slot write cut inside the term -/

/-- writing anything at the end of the records leaves the file holding the same entries -/
theorem FileRep.junk {f : LogFile} {es : List Entry} (r : FileRep p f es) (bs : ByteArray) :
    FileRep p { f with data := bwrite f.data (total es) bs } es := by
  refine ⟨r.tabSize, r.lenLe, r.slots, r.empty, ?_, r.ok, r.endLt⟩
  show (toL (bwrite f.data (total es) bs)).take (total es) = enc es
  rw [toL_bwrite bs r.data_size_ge, List.append_assoc, List.take_left' (by rw [List.length_take, toL_length]; exact Nat.min_eq_left r.data_size_ge)]
  exact r.data

theorem mixField_zero_old (new nb : Nat) (h : new < 18446744073709551616) (hnb : nb = 0) : mixField new 0 nb = 0 := by
  subst hnb
  simp only [mixField]
  have : new / 256 ^ (8 - 0) = 0 := Nat.div_eq_of_lt (by simpa using h)
  simp [this]

/-- a slot write of which at most the 8 bytes of the term arrived leaves the slot empty -/
theorem FileRep.tornTerm {f : LogFile} {es : List Entry} (r : FileRep p f es) (hlen : es.length < p.cap) (new : Slot)
    (hi : new.index < 18446744073709551616) (ho : new.off < 18446744073709551616) (k : Nat) (hk : k ≤ 8) :
    FileRep p (setSlot f es.length (tornSlot (getSlot f es.length) new k)) es := by
  have hts : es.length < f.tab.size := by rw [r.tabSize]; exact hlen
  refine ⟨by simp [setSlot, r.tabSize], r.lenLe, ?_, ?_, r.data, r.ok, r.endLt⟩
  · intro i hi'
    rw [getSlot_setSlot _ _ _ _ hts]
    have : i ≠ es.length := by omega
    simp only [this, if_false]
    exact r.slots i hi'
  · intro i hi'
    rw [getSlot_setSlot _ _ _ _ hts]
    by_cases h : i = es.length
    · subst h
      have ⟨h1, h2⟩ := r.empty es.length (Nat.le_refl _)
      simp only [if_true, tornSlot, h1, h2]
      exact ⟨mixField_zero_old _ _ hi (by omega), mixField_zero_old _ _ ho (by omega)⟩
    · simp only [h, if_false]
      exact r.empty i hi'

/-! ### crash states of the write loop -/

/-- the cuts of a write `safeTorn` lists -/
def safeCut : Mut → Nat → Prop
  | .pay _ _ d, k => k < 4 + d.size
  | .slot _ _ _, k => k < 9
  | _, _ => False

theorem mem_safeTorn_iff {t x : State} {m : Mut} : x ∈ safeTorn p t m ↔ ∃ k, safeCut m k ∧ applyTorn p t m k = some x := by
  cases m <;> simp [safeTorn, safeCut, List.mem_filterMap, List.mem_range]

theorem applyTorn_sameDir {t s x : State} (h : SameDir t s) (m : Mut) (k : Nat) (hx : applyTorn p t m k = some x) :
    ∃ y, applyTorn p s m k = some y ∧ SameDir x y := by
  obtain ⟨h1, h2, h3, h4⟩ := h
  cases m <;> simp only [applyTorn, Option.some.injEq, reduceCtorEq] at hx ⊢
  all_goals subst hx
  all_goals (try (refine ⟨_, rfl, ?_⟩; simp only [SameDir, h1, h2, h3, h4]; simp))
  · refine ⟨_, rfl, ?_⟩
    split <;> simp only [SameDir, h1, h2, h3, h4] <;> simp

theorem mem_crashStates_sameDir {ms : List Mut} : ∀ {t s x : State}, SameDir t s → x ∈ crashStates p t ms →
    ∃ y ∈ crashStates p s ms, SameDir x y := by
  induction ms with
  | nil =>
    intro t s x h hx
    simp only [crashStates, List.mem_singleton] at hx ⊢
    subst hx; exact ⟨s, rfl, h⟩
  | cons m ms ih =>
    intro t s x h hx
    simp only [crashStates, List.mem_cons, List.mem_append] at hx ⊢
    rcases hx with rfl | hx | hx
    · exact ⟨s, Or.inl rfl, h⟩
    · obtain ⟨k, hcut, hk⟩ := mem_safeTorn_iff.mp hx
      obtain ⟨y, hy, hxy⟩ := applyTorn_sameDir h m k hk
      exact ⟨y, Or.inr (Or.inl (mem_safeTorn_iff.mpr ⟨k, hcut, hy⟩)), hxy⟩
    · obtain ⟨y, hy, hxy⟩ := ih (applyMut_sameDir h m) hx
      exact ⟨y, Or.inr (Or.inr hy), hxy⟩

theorem mem_crashStates_append {m1 m2 : List Mut} : ∀ {s x : State}, x ∈ crashStates p s (m1 ++ m2) →
    x ∈ crashStates p s m1 ∨ x ∈ crashStates p (applyMuts p s m1) m2 := by
  induction m1 with
  | nil => intro s x h; right; simpa [applyMuts] using h
  | cons m ms ih =>
    intro s x h
    simp only [List.cons_append, crashStates, List.mem_cons, List.mem_append] at h ⊢
    rcases h with h | h | h
    · exact Or.inl (Or.inl h)
    · exact Or.inl (Or.inr (Or.inl h))
    · rcases ih h with h' | h'
      · exact Or.inl (Or.inr (Or.inr h'))
      · right; simpa [applyMuts] using h'

/-- the three mutations of a rotation: the current file truncated; the next file created; filled -/
theorem rotate_crash (hp : p.WF) {s : State} {a : Nat} {ess : List (List Entry)} {ec : List Entry}
    (r : LogRepW p s a ess ec) (hne : ec ≠ []) :
    (∀ x ∈ crashStates p s (rotateMuts p s (p.dataOff + total ec)),
        (DirRep p x a ess ec ∨ DirRep p x a (ess ++ [ec]) []) ∧ x.mt = s.mt) ∧
      SameDir (applyMuts p s (rotateMuts p s (p.dataOff + total ec))) { rotate p s (p.dataOff + total ec) with next := 0 } := by
  have hsz : p.dataOff + total ec - p.dataOff = total ec := by omega
  have r0 : DirRep p s a ess ec := LogRepW.dirRep r
  -- after the truncation
  have r1 : DirRep p { s with current := { s.current with data := btrunc s.current.data (total ec) } } a ess ec :=
    ⟨r.chain, r.cur.trunc, r.curSeq, rfl, r.fidCur, r.fids, r.np, r.mtOK, r.aPos⟩
  -- after the creation of the next file
  have hrot : SameDir (applyMuts p s (rotateMuts p s (p.dataOff + total ec))) { rotate p s (p.dataOff + total ec) with next := 0 } := by
    simp only [applyMuts, rotateMuts, List.foldl_cons, List.foldl_nil, applyMut, hsz, rotate]
    exact ⟨rfl, rfl, rfl, by simp [r.np]; have := r.fidCur; omega⟩
  have r2 : DirRep p (applyMuts p s (rotateMuts p s (p.dataOff + total ec))) a (ess ++ [ec]) [] :=
    (LogRepW.dirRep (r.rotate_ok hp hne)).of_sameDir hrot
  refine ⟨?_, hrot⟩
  intro x hx
  simp only [rotateMuts, crashStates, safeTorn, List.nil_append, List.mem_cons, List.mem_nil_iff, or_false] at hx
  rcases hx with rfl | rfl | rfl | rfl
  · exact ⟨Or.inl r0, rfl⟩
  · refine ⟨Or.inl ?_, rfl⟩
    simpa only [applyMut, hsz] using r1
  · refine ⟨Or.inr ?_, rfl⟩
    simpa only [applyMuts, rotateMuts, List.foldl_cons, List.foldl_nil, applyMut] using r2
  · refine ⟨Or.inr ?_, rfl⟩
    simpa only [applyMuts, rotateMuts, List.foldl_cons, List.foldl_nil, applyMut] using r2

/-- the two mutations that write one entry: the record (length prefix + payload), then the slot -/
theorem write_crash {s : State} {a : Nat} {ess : List (List Entry)} {ec : List Entry}
    (r : LogRepW p s a ess ec) (re : Entry) (hok : re.OK) (hlen : ec.length < p.cap)
    (hend : p.dataOff + total ec + 4 + re.data.size < 18446744073709551616)
    (hidx : re.index = a + ess.flatten.length + ec.length) :
    (∀ x ∈ crashStates p s [.pay s.current.fid (p.dataOff + total ec) re.data,
          .slot s.current.fid s.next ⟨re.term, re.index, re.typ, p.dataOff + total ec⟩],
        (DirRep p x a ess ec ∨ DirRep p x a ess (ec ++ [re])) ∧ x.mt = s.mt) := by
  have hsz : p.dataOff + total ec - p.dataOff = total ec := by omega
  have hnext := r.next_eq
  -- any bytes at the end of the records
  have rj : ∀ bs : ByteArray, DirRep p { s with current := { s.current with data := bwrite s.current.data (total ec) bs } } a ess ec :=
    fun bs => ⟨r.chain, r.cur.junk bs, r.curSeq, rfl, r.fidCur, r.fids, r.np, r.mtOK, r.aPos⟩
  have rS := r.write re hok hlen hend hidx
  intro x hx
  simp only [crashStates, List.mem_cons, List.mem_append, List.mem_singleton] at hx
  rcases hx with rfl | hx | rfl | hx | rfl
  · exact ⟨Or.inl (LogRepW.dirRep r), rfl⟩
  · obtain ⟨k, _, hk⟩ := mem_safeTorn_iff.mp hx
    simp only [applyTorn, Option.some.injEq, hsz] at hk
    subst hk
    exact ⟨Or.inl (rj _), rfl⟩
  · refine ⟨Or.inl ?_, rfl⟩
    simpa only [applyMut, writePayload, hsz] using rj (be32 re.data.size ++ re.data)
  · obtain ⟨k, hcut, hk⟩ := mem_safeTorn_iff.mp hx
    simp only [safeCut] at hcut
    simp only [applyTorn, applyMut, Option.some.injEq] at hk
    subst hk
    refine ⟨Or.inl ?_, rfl⟩
    have hf : FileRep p (writePayload p s.current (p.dataOff + total ec) re.data) ec := by
      simpa only [writePayload, hsz] using r.cur.junk (be32 re.data.size ++ re.data)
    have := hf.tornTerm hlen ⟨re.term, re.index, re.typ, p.dataOff + total ec⟩ hok.index_lt (by simp only; omega) k (by omega)
    rw [hnext]
    exact ⟨r.chain, this, r.curSeq, rfl, r.fidCur, r.fids, r.np, r.mtOK, r.aPos⟩
  · refine ⟨Or.inr ?_, rfl⟩
    simp only [applyMut]
    exact (LogRepW.dirRep rS).of_sameDir ⟨rfl, rfl, rfl, rfl⟩

end OG.C17
