/-
C17 — `AddEntries` / `Save`: conflict handling and the write loop, under `LogRep`.
-/
import OG.C17.Lemmas.Query

namespace OG.C17
open OG.Gen.C17 (entrySize unit32Size clearCurOff clearCurLen clearRotOff clearRotLen needRotate nextOffset)

/-- `LogRep` while `AddEntries` runs: the current file may be momentarily empty -/
structure LogRepW (p : Params) (s : State) (a : Nat) (ess : List (List Entry)) (ec : List Entry) : Prop where
  chain : Chain p a s.files ess
  cur : FileRep p s.current ec
  curSeq : Seq (a + ess.flatten.length) ec
  next_eq : s.next = ec.length
  fidCur : 1 ≤ s.current.fid
  fids : ∀ f ∈ s.files, 1 ≤ f.fid
  np : s.panicked = false
  mtOK : s.mt.snapIndex = s.mt.snap.index ∧ s.mt.snapTerm = s.mt.snap.term
  aPos : 1 ≤ a

variable {p : Params} {s : State} {a : Nat} {ess : List (List Entry)} {ec : List Entry}

theorem LogRep.weaken (r : LogRep p s a ess ec) : LogRepW p s a ess ec :=
  ⟨r.chain, r.cur, r.curSeq, r.next_eq, r.fidCur, r.fids, r.np, r.mtOK, r.aPos⟩

theorem LogRepW.strengthen (r : LogRepW p s a ess ec) (h : ec = [] → ess = []) : LogRep p s a ess ec :=
  ⟨r.chain, r.cur, r.curSeq, r.next_eq, h, r.fidCur, r.fids, r.np, r.mtOK, r.aPos⟩

/-! ### the generated expressions, over naturals -/

theorem needRotate_nat (p : Params) (n o l : Nat) :
    needRotate p (n : Int) (o : Int) (l : Int) = (decide (n ≥ p.cap) || (decide (n > 0) && decide (o + 4 + l > p.maxSize))) := by
  simp only [needRotate, unit32Size]
  congr 1
  · simp
  · congr 1
    · simp
    · have : ((o : Int) + ((4 : Nat) : Int) + (l : Int) > (p.maxSize : Int)) ↔ (o + 4 + l > p.maxSize) := by
        constructor <;> intro h <;> omega
      exact decide_eq_decide.mpr this

theorem nextOffset_nat (o l : Nat) : (nextOffset (o : Int) (l : Int)).toNat = o + 4 + l := by
  simp only [nextOffset, unit32Size]; omega

theorem clearCur_nat (p : Params) (n k : Nat) (h : k ≤ n) :
    ¬ (clearCurLen p (n : Int) (k : Int) < 0 ∨ clearCurOff p (n : Int) (k : Int) ≠ ((entrySize * k : Nat) : Int)) ∧
      (clearCurLen p (n : Int) (k : Int)).toNat = 32 * (n - k) := by
  simp only [clearCurLen, clearCurOff, entrySize]
  constructor
  · push_cast; omega
  · omega

theorem clearRot_nat (p : Params) (k : Nat) (h : 32 * k + 4 ≤ p.dataOff) :
    ¬ (clearRotLen p (k : Int) < 0 ∨ clearRotOff p (k : Int) ≠ ((entrySize * k : Nat) : Int)) ∧
      (clearRotLen p (k : Int)).toNat = p.dataOff - 32 * k - 4 := by
  simp only [clearRotLen, clearRotOff, entrySize, unit32Size]
  constructor
  · push_cast; omega
  · omega

/-! ### the offset at which the next payload goes -/

theorem FileRep.next_offset {f : LogFile} {es : List Entry} (r : FileRep p f es) :
    (if es.length ≥ 1 then (getSlot f (es.length - 1)).off + sliceSize p f (getSlot f (es.length - 1)).off else p.dataOff)
      = p.dataOff + total es := by
  by_cases h : es.length ≥ 1
  · have hi : es.length - 1 < es.length := by omega
    rw [if_pos h, r.slots _ hi]
    simp only
    rw [r.slice_size _ hi]
    have := total_take_succ es (es.length - 1) hi
    rw [show es.length - 1 + 1 = es.length by omega, List.take_length] at this
    simp only [offOf]; omega
  · have : es = [] := List.eq_nil_of_length_eq_zero (by omega)
    subst this
    simp [total]

/-! ### rotation -/

theorem foldl_max_ge (fs : List LogFile) (m : Nat) : m ≤ fs.foldl (fun m f => if f.fid > m then f.fid else m) m := by
  induction fs generalizing m with
  | nil => simp
  | cons f fs ih =>
    simp only [List.foldl_cons]
    split
    · exact Nat.le_trans (by omega) (ih _)
    · exact ih _

theorem LogRepW.rotate_ok (hp : p.WF) (r : LogRepW p s a ess ec) (hne : ec ≠ []) :
    LogRepW p { rotate p s (p.dataOff + total ec) with next := 0 } a (ess ++ [ec]) [] := by
  have hsz : p.dataOff + total ec - p.dataOff = total ec := by omega
  constructor
  · show Chain p a (s.files ++ [{ s.current with data := btrunc s.current.data (p.dataOff + total ec - p.dataOff) }]) (ess ++ [ec])
    rw [hsz]
    exact r.chain.snoc r.cur.trunc hne r.curSeq
  · exact FileRep.new hp _
  · exact Seq.nil _
  · rfl
  · show 1 ≤ (newFile p _).fid
    simp [newFile]
  · intro f hf
    simp only [OG.C17.rotate, List.mem_append, List.mem_singleton] at hf
    rcases hf with h | h
    · exact r.fids f h
    · subst h; exact r.fidCur
  · simp only [OG.C17.rotate, r.np, Bool.false_or, beq_eq_false_iff_ne]
    have := r.fidCur; omega
  · exact r.mtOK
  · exact r.aPos

/-! ### the write loop -/

/-- the optional rotation before an entry is written -/
theorem LogRepW.pre_write (hp : p.WF) (r : LogRepW p s a ess ec) (re : Entry) (hok : re.OK) :
    ∃ s1 ess1 ec1,
      (if needRotate p s.next ((p.dataOff + total ec : Nat) : Int) re.data.size then
          (({ rotate p s (p.dataOff + total ec) with next := 0 } : State), p.dataOff)
        else (s, p.dataOff + total ec)) = (s1, p.dataOff + total ec1) ∧
      LogRepW p s1 a ess1 ec1 ∧ ess1.flatten ++ ec1 = ess.flatten ++ ec ∧ ec1.length < p.cap ∧
      p.dataOff + total ec1 + 4 + re.data.size < 18446744073709551616 := by
  rw [r.next_eq, needRotate_nat]
  by_cases hrot : (decide (ec.length ≥ p.cap) || (decide (ec.length > 0) && decide (p.dataOff + total ec + 4 + re.data.size > p.maxSize))) = true
  · have hne : ec ≠ [] := by
      intro h; subst h
      have h1 := hp.cap_pos
      simp at hrot; omega
    refine ⟨_, ess ++ [ec], [], ?_, r.rotate_ok hp hne, by simp, by have := hp.cap_pos; simp; omega, ?_⟩
    · rw [if_pos hrot]; simp [total]
    · have := hp.dataOff_lt; have := hok.size_lt; simp [total]; omega
  · refine ⟨s, ess, ec, by rw [if_neg hrot], r, rfl, ?_, ?_⟩
    · simp at hrot; omega
    · -- not rotating: either the record fits below maxSize, or the file is empty and holds only this record
      have h1 := hp.maxSize_lt
      have h2 := hp.dataOff_lt
      have h3 := hok.size_lt
      simp at hrot
      by_cases he : ec.length > 0
      · have := hrot.2 he; omega
      · have : ec = [] := List.eq_nil_of_length_eq_zero (by omega)
        subst this
        simp [total]; omega

/-- writing one entry into the current file -/
theorem LogRepW.write (r : LogRepW p s a ess ec) (re : Entry) (hok : re.OK) (hlen : ec.length < p.cap)
    (hend : p.dataOff + total ec + 4 + re.data.size < 18446744073709551616)
    (hidx : re.index = a + ess.flatten.length + ec.length) :
    LogRepW p { s with current := (setSlot (writePayload p s.current (p.dataOff + total ec) re.data) s.next
        (Slot.mk re.term re.index re.typ (p.dataOff + total ec))), next := s.next + 1 } a ess (ec ++ [re]) := by
  refine ⟨r.chain, ?_, ?_, by simp [r.next_eq], r.fidCur, r.fids, r.np, r.mtOK, r.aPos⟩
  · rw [r.next_eq]; exact r.cur.append re hok hlen hend
  · apply r.curSeq.append
    intro i hi
    have : i = 0 := by simp at hi; omega
    subst this; simp [hidx]

theorem LogRepW.add_loop (hp : p.WF) :
    ∀ (new : List Entry) (s : State) (ess : List (List Entry)) (ec : List Entry),
      LogRepW p s a ess ec → (∀ e ∈ new, e.OK) → Seq (a + ess.flatten.length + ec.length) new →
      ∃ ess' ec', LogRepW p (addLoop p new s (p.dataOff + total ec)) a ess' ec' ∧
        ess'.flatten ++ ec' = ess.flatten ++ ec ++ new ∧ (ec ≠ [] ∨ new ≠ [] → ec' ≠ []) ∧ (new = [] → ess' = ess ∧ ec' = ec) := by
  intro new
  induction new with
  | nil =>
    intro s ess ec r _ _
    exact ⟨ess, ec, r, by simp, fun h => by simpa using h, fun _ => ⟨rfl, rfl⟩⟩
  | cons re rest ih =>
    intro s ess ec r hok hseq
    have hre := hok re (by simp)
    have hidx : re.index = a + ess.flatten.length + ec.length := by
      have := hseq 0 (by simp)
      simp only [List.getElem_cons_zero] at this; omega
    obtain ⟨s1, ess1, ec1, heq, r1, hall, hlen, hend⟩ := r.pre_write hp re hre
    simp only [addLoop]
    rw [heq]
    simp only
    have hfl : ess1.flatten.length + ec1.length = ess.flatten.length + ec.length := by
      have := congrArg List.length hall; simpa using this
    have r2 := r1.write re hre hlen hend (by omega)
    have hno : (nextOffset ((p.dataOff + total ec1 : Nat) : Int) (re.data.size : Int)).toNat = p.dataOff + total (ec1 ++ [re]) := by
      rw [nextOffset_nat, total_append]; simp [total, recLen]; omega
    rw [hno]
    obtain ⟨ess', ec', h1, h2, h3, _⟩ := ih _ ess1 (ec1 ++ [re]) r2 (fun e he => hok e (by simp [he]))
      (by
        have := hseq.tail
        simp only [List.length_append, List.length_cons, List.length_nil]
        rw [show a + ess1.flatten.length + (ec1.length + (0 + 1)) = a + ess.flatten.length + ec.length + 1 by omega]
        exact this)
    refine ⟨ess', ec', h1, ?_, fun _ => h3 (Or.inl (by simp)), fun h => by simp at h⟩
    rw [h2, ← List.append_assoc, hall]; simp

/-! ### conflict handling -/

theorem addEntries_cons (p : Params) (s : State) (e0 : Entry) (rest : List Entry) :
    addEntries p s (e0 :: rest) = addFrom p (conflict p s e0.index) (e0 :: rest) := rfl

theorem take_flatten_append (ess : List (List Entry)) (ec : List Entry) (j k : Nat) (hj : j < ess.length) (hk : k ≤ ess[j].length) :
    (ess.flatten ++ ec).take (pre ess j + k) = (ess.take j).flatten ++ ess[j].take k := by
  have hs : ess = ess.take j ++ (ess[j] :: ess.drop (j + 1)) := by
    rw [← List.drop_eq_getElem_cons hj, List.take_append_drop]
  have h1 : ess.flatten = (ess.take j).flatten ++ (ess[j] ++ (ess.drop (j + 1)).flatten) := by
    have := congrArg List.flatten hs
    rwa [List.flatten_append, List.flatten_cons] at this
  have hl : ((ess.take j).flatten).length = pre ess j := rfl
  rw [h1, List.append_assoc, List.take_append, hl]
  rw [List.take_of_length_le (by omega)]
  congr 1
  rw [show pre ess j + k - pre ess j = k by omega, List.append_assoc, List.take_append]
  have : k - ess[j].length = 0 := by omega
  simp [this]

/-- conflict handling keeps exactly the entries below `idx` -/
theorem LogRep.conflict_ok (hp : p.WF) (r : LogRep p s a ess ec) (idx : Nat) (hne : ess.flatten ++ ec ≠ [])
    (h1 : a ≤ idx) (h2 : idx ≤ a + (ess.flatten ++ ec).length) :
    ∃ ess' ec', LogRepW p (conflict p s idx) a ess' ec' ∧ ess'.flatten ++ ec' = (ess.flatten ++ ec).take (idx - a) := by
  have hec : ec ≠ [] := fun h => hne (r.all_nil_iff.mpr h)
  by_cases hcur : curStart a ess ≤ idx
  · -- in (or just after) the current file
    have hsg := r.slotGe_cur hec idx hcur
    have hall : (ess.flatten ++ ec).take (idx - a) = ess.flatten ++ ec.take (idx - curStart a ess) := by
      rw [List.take_append]
      rw [List.take_of_length_le (by simp only [curStart] at hcur; omega)]
      simp only [curStart]
      congr 2; omega
    by_cases hin : idx < curStart a ess + ec.length
    · rw [if_pos hin] at hsg
      have hk : idx - curStart a ess < ec.length := by omega
      have hnx : s.next > idx - curStart a ess := by rw [r.next_eq]; exact hk
      obtain ⟨hc1, hc2⟩ := clearCur_nat p s.next (idx - curStart a ess) (by omega)
      have hc1' : (decide (clearCurLen p ↑s.next ↑(idx - curStart a ess) < 0) ||
          (clearCurOff p ↑s.next ↑(idx - curStart a ess) != ((entrySize * (idx - curStart a ess) : Nat) : Int))) = false := by
        simp only [Bool.or_eq_false_iff, decide_eq_false_iff_not, bne_eq_false_iff_eq]
        constructor
        · intro h; exact hc1 (Or.inl h)
        · exact Classical.byContradiction fun h => hc1 (Or.inr h)
      refine ⟨ess, ec.take (idx - curStart a ess), ?_, hall.symm⟩
      simp only [conflict, hsg, hnx, if_true]
      have hpush : ((entrySize : Int) * ((idx - curStart a ess : Nat) : Int)) = ((entrySize * (idx - curStart a ess) : Nat) : Int) := by
        push_cast; rfl
      rw [hpush, hc1']
      simp only [Bool.false_eq_true, if_false, hc2]
      have hl := r.cur.lenLe
      have htf := hp.table_fits
      refine ⟨r.chain, ?_, r.curSeq.take _, by simp; omega, r.fidCur, r.fids, r.np, r.mtOK, r.aPos⟩
      apply r.cur.zeroSlice _ _ (by omega)
      · rw [r.next_eq]; omega
      · rw [r.next_eq]; omega
    · rw [if_neg hin] at hsg
      have hnx : ¬ s.next > ec.length := by rw [r.next_eq]; omega
      have hidx : idx - curStart a ess = ec.length := by
        simp only [List.length_append, curStart] at *; omega
      refine ⟨ess, ec, ?_, by rw [hall, hidx, List.take_length]⟩
      simp only [conflict, hsg, hnx, if_false]
      have : ({ s with next := ec.length } : State) = s := by
        have := r.next_eq
        cases s; simp_all
      rw [this]; exact r.weaken
  · -- in a rotated file
    have hlt : idx < a + ess.flatten.length := by simp only [curStart] at hcur; omega
    obtain ⟨j, hj, hj1, hj2⟩ := r.chain.locate idx h1 hlt
    have hsg := r.slotGe_rot idx j hj hj1 hj2
    have hfj : ¬ j ≥ s.files.length := by rw [r.chain.len]; omega
    have hrep := r.chain.rep j hj
    have hl := hrep.lenLe
    have htf := hp.table_fits
    have hk : idx - (a + pre ess j) < ess[j].length := by omega
    obtain ⟨hc1, hc2⟩ := clearRot_nat p (idx - (a + pre ess j)) (by omega)
    have hc1' : (decide (clearRotLen p ↑(idx - (a + pre ess j)) < 0) ||
        (clearRotOff p ↑(idx - (a + pre ess j)) != ((entrySize * (idx - (a + pre ess j)) : Nat) : Int))) = false := by
      simp only [Bool.or_eq_false_iff, decide_eq_false_iff_not, bne_eq_false_iff_eq]
      constructor
      · intro h; exact hc1 (Or.inl h)
      · exact Classical.byContradiction fun h => hc1 (Or.inr h)
    refine ⟨ess.take j, ess[j].take (idx - (a + pre ess j)), ?_, ?_⟩
    · simp only [conflict, hsg, hfj, if_false]
      have hpush : ((entrySize : Int) * ((idx - (a + pre ess j) : Nat) : Int)) = ((entrySize * (idx - (a + pre ess j)) : Nat) : Int) := by
        push_cast; rfl
      rw [hpush, hc1']
      simp only [Bool.false_eq_true, if_false, hc2]
      refine ⟨r.chain.take j, ?_, ?_, by simp; omega, ?_, ?_, r.np, r.mtOK, r.aPos⟩
      · apply hrep.zeroSlice _ _ (by omega)
        · omega
        · omega
      · show Seq (a + ((ess.take j).flatten).length) _
        exact (r.chain.seq_at j hj).take _
      · show 1 ≤ (s.files.getD j default).fid
        apply r.fids
        have hjf : j < s.files.length := by omega
        rw [List.getD_eq_getElem?_getD, List.getElem?_eq_getElem hjf]
        exact List.getElem_mem hjf
      · intro f hf; exact r.fids f (List.mem_of_mem_take hf)
    · have := take_flatten_append ess ec j (idx - (a + pre ess j)) hj (by omega)
      rw [show idx - a = pre ess j + (idx - (a + pre ess j)) by omega, this]

/-- `AddEntries` = the spec's append (non-empty log) -/
theorem LogRep.add_entries (hp : p.WF) (r : LogRep p s a ess ec) (e0 : Entry) (rest : List Entry)
    (hok : ∀ e ∈ e0 :: rest, e.OK) (hseq : Seq e0.index (e0 :: rest))
    (hne : ess.flatten ++ ec ≠ []) (h1 : a ≤ e0.index) (h2 : e0.index ≤ a + (ess.flatten ++ ec).length) :
    ∃ ess' ec', LogRep p (addEntries p s (e0 :: rest)) a ess' ec' ∧
      ess'.flatten ++ ec' = (ess.flatten ++ ec).take (e0.index - a) ++ (e0 :: rest) := by
  obtain ⟨ess1, ec1, r1, hall⟩ := r.conflict_ok hp e0.index hne h1 h2
  rw [addEntries_cons]
  simp only [addFrom]
  have hoff := r1.cur.next_offset
  rw [← r1.next_eq] at hoff
  rw [hoff]
  have hlen : ess1.flatten.length + ec1.length = e0.index - a := by
    have := congrArg List.length hall
    simp only [List.length_append, List.length_take] at this
    simp only [List.length_append] at h2
    omega
  obtain ⟨ess', ec', h3, h4, h5, _⟩ := LogRepW.add_loop hp (e0 :: rest) _ ess1 ec1 r1 hok
    (by rw [show a + ess1.flatten.length + ec1.length = e0.index by omega]; exact hseq)
  refine ⟨ess', ec', h3.strengthen (fun h => absurd h (h5 (Or.inr (by simp)))), ?_⟩
  rw [h4, hall]

/-- `AddEntries` into an empty log -/
theorem LogRep.add_entries_empty (hp : p.WF) (r : LogRep p s a ess ec) (e0 : Entry) (rest : List Entry)
    (hok : ∀ e ∈ e0 :: rest, e.OK) (hseq : Seq e0.index (e0 :: rest)) (hnil : ess.flatten ++ ec = []) :
    ∃ ess' ec', LogRep p (addEntries p s (e0 :: rest)) e0.index ess' ec' ∧ ess'.flatten ++ ec' = e0 :: rest := by
  have hec : ec = [] := r.all_nil_iff.mp hnil
  have hess : ess = [] := r.curNe hec
  subst hec; subst hess
  have hf : s.files = [] := r.files_nil_iff.mpr rfl
  have hsg : slotGe p s e0.index = (none, none) := by simp [slotGe, r.cur.slotGe_nil, hf]
  have hcf : conflict p s e0.index = s := by simp [conflict, hsg]
  have r0 : LogRepW p s e0.index [] [] :=
    ⟨by rw [hf]; exact Chain.nil p _, r.cur, Seq.nil _, r.next_eq, r.fidCur, r.fids, r.np, r.mtOK, (hok e0 (by simp)).index_pos⟩
  rw [addEntries_cons, hcf]
  simp only [addFrom]
  have hoff := r0.cur.next_offset
  rw [← r0.next_eq] at hoff
  rw [hoff]
  obtain ⟨ess', ec', h3, h4, h5, _⟩ := LogRepW.add_loop hp (e0 :: rest) s [] [] r0 hok (by simpa using hseq)
  refine ⟨ess', ec', h3.strengthen (fun h => absurd h (h5 (Or.inr (by simp)))), ?_⟩
  rw [h4]; simp

end OG.C17
