/-
C17 — answers of the store under `LogRep`: the abstraction, first/last index, `seekEntry`,
`Term`, `CreateSnapshot`'s lookup.
-/
import OG.C17.Lemmas.Log

namespace OG.C17

/-- the spec state a represented store stands for -/
def absOf (a : Nat) (ess : List (List Entry)) (ec : List Entry) (m : Meta) : SpecState :=
  { first := if ec = [] then 1 else a, ents := ess.flatten ++ ec, hs := m.hs, snap := m.snap }

variable {p : Params} {s : State} {a : Nat} {ess : List (List Entry)} {ec : List Entry}

theorem LogRep.all_nil_iff (r : LogRep p s a ess ec) : ess.flatten ++ ec = [] ↔ ec = [] := by
  constructor
  · intro h; exact (List.append_eq_nil_iff.mp h).2
  · intro h; rw [r.curNe h, h]; rfl

theorem LogRep.log_first (r : LogRep p s a ess ec) : logFirstIndex s = if ec = [] then 1 else a := by
  unfold OG.C17.logFirstIndex
  by_cases hess : ess = []
  · have hf : s.files = [] := r.files_nil_iff.mpr hess
    rw [hf]
    by_cases hec : ec = []
    · subst hec
      have := r.cur.firstIndex_nil
      simp only [LogFile.firstIndex] at this
      simp [this]
    · have h1 := r.cur.firstIndex_seq r.curSeq hec
      simp only [LogFile.firstIndex] at h1
      have h2 := r.aPos
      subst hess
      simp only [List.flatten_nil, List.length_nil, Nat.add_zero] at h1
      simp [h1, hec]; omega
  · have hlen : 0 < ess.length := List.length_pos_iff.mpr hess
    have hec : ec ≠ [] := fun h => hess (r.curNe h)
    have hfl : 0 < s.files.length := by rw [r.chain.len]; exact hlen
    have h1 := r.chain.firstIndex 0 hlen
    rw [pre_zero] at h1
    match hs : s.files, hfl with
    | f :: rest, _ =>
      rw [hs] at h1
      simp only [List.getD_cons_zero, LogFile.firstIndex] at h1
      have h2 := r.aPos
      simp [h1, hec]; omega

theorem LogRep.log_last (r : LogRep p s a ess ec) :
    logLastIndex p s = if ec = [] then 0 else a + (ess.flatten ++ ec).length - 1 := by
  unfold OG.C17.logLastIndex
  by_cases hec : ec = []
  · have hf : s.files = [] := r.files_nil_iff.mpr (r.curNe hec)
    have : ¬ s.next ≥ 1 := by rw [r.next_eq, hec]; simp
    simp [this, hf, hec, lastIndexFiles]
  · have hl : 0 < ec.length := List.length_pos_iff.mpr hec
    have : s.next ≥ 1 := by rw [r.next_eq]; exact hl
    have h1 := r.cur.slot_index r.curSeq (ec.length - 1) (by omega)
    rw [if_pos this, if_neg hec, r.next_eq, h1]
    simp only [List.length_append]
    omega

theorem Chain.map_fileEnts (hp : p.WF) {fs : List LogFile} (c : Chain p a fs ess) : fs.map (fileEnts p) = ess := by
  apply List.ext_getElem
  · simp [c.len]
  · intro i h1 h2
    have := (c.rep i h2).file_ents hp
    have hi : i < fs.length := by simpa using h1
    rw [List.getD_eq_getElem?_getD, List.getElem?_eq_getElem hi] at this
    simp only [Option.getD_some] at this
    simp [this]

/-- the abstraction function computes the represented lists -/
theorem LogRep.abs_eq (hp : p.WF) (r : LogRep p s a ess ec) : abs p s = absOf a ess ec s.mt := by
  simp only [abs, absOf, r.log_first, r.cur.file_ents hp]
  congr 1
  rw [List.flatMap_def, r.chain.map_fileEnts hp]

theorem absOf_logLast (m : Meta) : (absOf a ess ec m).logLast = if ess.flatten ++ ec = [] then 0 else
    (if ec = [] then 1 else a) + (ess.flatten ++ ec).length - 1 := by
  simp [SpecState.logLast, absOf]

theorem LogRep.logLast_eq (r : LogRep p s a ess ec) : logLastIndex p s = (absOf a ess ec s.mt).logLast := by
  rw [r.log_last, absOf_logLast]
  by_cases hec : ec = []
  · have hess := r.curNe hec
    subst hec; subst hess
    simp
  · have : ¬ (ess.flatten ++ ec = []) := fun h => hec (r.all_nil_iff.mp h)
    simp [hec, this]

theorem flatten_getElem (ess : List (List Entry)) (j off : Nat) (hj : j < ess.length) (ho : off < ess[j].length)
    (h : pre ess j + off < ess.flatten.length) : ess.flatten[pre ess j + off] = ess[j][off] := by
  have h1 : ess.flatten.drop (pre ess j) = ess[j] ++ (ess.drop (j + 1)).flatten := by
    rw [← flatten_drop, List.drop_eq_getElem_cons hj, List.flatten_cons]
  have h2 : (ess.flatten.drop (pre ess j))[off]? = some ess[j][off] := by
    rw [h1, List.getElem?_append_left ho, List.getElem?_eq_getElem ho]
  rw [List.getElem?_drop] at h2
  rw [List.getElem?_eq_getElem h] at h2
  exact Option.some.inj h2

/-- where the entry with index `idx` is, for every index the log holds -/
theorem LogRep.locate (r : LogRep p s a ess ec) (idx : Nat) (h1 : a ≤ idx) (h2 : idx < a + (ess.flatten ++ ec).length) :
    ∃ fidx f es off, slotGe p s idx = (fidx, some off) ∧ getEntryFile s fidx = some f ∧ FileRep p f es ∧
      ∃ (ho : off < es.length), es[off] = (ess.flatten ++ ec)[idx - a]'(by omega) := by
  by_cases hcur : curStart a ess ≤ idx
  · have hec : ec ≠ [] := by intro h; subst h; simp only [curStart, List.length_append, List.length_nil] at *; omega
    have hin : idx < curStart a ess + ec.length := by simp only [curStart, List.length_append] at *; omega
    refine ⟨none, s.current, ec, idx - curStart a ess, ?_, rfl, r.cur, by omega, ?_⟩
    · rw [r.slotGe_cur hec idx hcur, if_pos hin]
    · have : idx - a = ess.flatten.length + (idx - curStart a ess) := by simp only [curStart, List.length_append] at *; omega
      simp only [this]
      rw [List.getElem_append_right (by omega)]
      simp
  · have hlt : idx < a + ess.flatten.length := by simp only [curStart] at hcur; omega
    obtain ⟨j, hj, hj1, hj2⟩ := r.chain.locate idx h1 hlt
    have hfj : j < s.files.length := by rw [r.chain.len]; exact hj
    refine ⟨some j, s.files.getD j default, ess[j], idx - (a + pre ess j), r.slotGe_rot idx j hj hj1 hj2, ?_, r.chain.rep j hj,
      by omega, ?_⟩
    · simp [getEntryFile, List.getD_eq_getElem?_getD, List.getElem?_eq_getElem hfj]
    · have e1 : idx - a = pre ess j + (idx - (a + pre ess j)) := by omega
      have hb : pre ess j + (idx - (a + pre ess j)) < ess.flatten.length := by omega
      simp only [e1]
      rw [List.getElem_append_left hb]
      exact (flatten_getElem ess j _ hj (by omega) hb).symm

/-- `seekEntry` = the spec's lookup -/
theorem LogRep.seek_ok (r : LogRep p s a ess ec) (idx : Nat) (h0 : idx ≠ 0) (e : Entry)
    (h : (absOf a ess ec s.mt).lookup idx = .ok e) : ∃ sl, seekEntry p s idx = .ok sl ∧ sl.term = e.term ∧ sl.index = idx := by
  have hall : ¬ (ess.flatten ++ ec = []) := by
    intro hn; simp [SpecState.lookup, absOf, hn] at h
  have hec : ec ≠ [] := fun hh => hall (r.all_nil_iff.mpr hh)
  simp only [SpecState.lookup, absOf, hec, if_false] at h
  have hemp : (ess.flatten ++ ec).isEmpty = false := by simp [hall]
  simp only [hemp, Bool.false_eq_true, if_false] at h
  by_cases hlt : idx < a
  · simp [hlt] at h
  · simp only [hlt, if_false] at h
    have hin : idx - a < (ess.flatten ++ ec).length := by
      by_cases hc : idx - a < (ess.flatten ++ ec).length
      · exact hc
      · rw [List.getElem?_eq_none (by omega)] at h
        simp at h
    rw [List.getElem?_eq_getElem hin] at h
    have he : (ess.flatten ++ ec)[idx - a] = e := by simpa using h
    obtain ⟨fidx, f, es, off, hsg, hgf, hrep, ho, hes⟩ := r.locate idx (by omega) (by omega)
    have hsl := hrep.slots off ho
    have hidx : (ess.flatten ++ ec)[idx - a].index = idx := by
      have := r.seqAll (idx - a) hin; omega
    have hcap : ¬ off ≥ p.cap := by have := hrep.lenLe; omega
    refine ⟨getSlot f off, ?_, ?_, ?_⟩
    · simp only [seekEntry, h0, beq_iff_eq, if_false, hsg, hcap, hgf]
      have : (getSlot f off).index = idx := by rw [hsl, hes]; exact hidx
      simp [this, h0]
    · rw [hsl, hes, he]
    · rw [hsl, hes]; exact hidx

theorem LogRep.seek_err (r : LogRep p s a ess ec) (idx : Nat) (h0 : idx ≠ 0) (err : Err)
    (h : (absOf a ess ec s.mt).lookup idx = .error err) : seekEntry p s idx = .error err := by
  by_cases hec : ec = []
  · -- empty log
    have hess := r.curNe hec
    have hf : s.files = [] := r.files_nil_iff.mpr hess
    subst hec; subst hess
    simp [SpecState.lookup, absOf] at h
    have hsg : slotGe p s idx = (none, none) := by simp [slotGe, r.cur.slotGe_nil idx, hf]
    have hl := r.log_last
    simp only [if_true] at hl
    cases h
    simp only [seekEntry, h0, beq_iff_eq, if_false, hsg, hl]
    have : idx > 0 := by omega
    simp [this]
  · have hall : ¬ (ess.flatten ++ ec = []) := fun hh => hec (r.all_nil_iff.mp hh)
    have hemp : (ess.flatten ++ ec).isEmpty = false := by simp [hall]
    simp only [SpecState.lookup, absOf, hec, if_false, hemp, Bool.false_eq_true] at h
    by_cases hlt : idx < a
    · simp only [hlt, if_true] at h
      have h1 := r.slotGe_below idx hlt
      have hl := r.log_last
      simp only [hec, if_false] at hl
      have hlen : 0 < (ess.flatten ++ ec).length := List.length_pos_iff.mpr hall
      have hng : ¬ idx > logLastIndex p s := by rw [hl]; omega
      simp only [seekEntry, h0, beq_iff_eq, if_false]
      cases h
      match hsg : slotGe p s idx with
      | (x, none) => simp [hng]
      | (x, some y) => rw [hsg] at h1; simp at h1
    · simp only [hlt, if_false] at h
      by_cases hin : idx - a < (ess.flatten ++ ec).length
      · rw [List.getElem?_eq_getElem hin] at h; simp at h
      · rw [List.getElem?_eq_none (by omega)] at h
        have hbeyond : curStart a ess + ec.length ≤ idx := by
          simp only [List.length_append] at hin; simp only [curStart]; omega
        have hsg := r.slotGe_cur hec idx (by omega)
        rw [if_neg (by omega)] at hsg
        cases h
        simp only [seekEntry, h0, beq_iff_eq, if_false, hsg, getEntryFile]
        by_cases hc : ec.length ≥ p.cap
        · simp [hc]
        · simp only [hc, if_false, (r.cur.empty ec.length (Nat.le_refl _)).1]
          simp

/-- `Term(i)` -/
theorem LogRep.term_eq (r : LogRep p s a ess ec) (idx : Nat) : term p s idx = (absOf a ess ec s.mt).term idx := by
  by_cases h0 : idx = 0
  · subst h0; simp [term, seekEntry, SpecState.term, Slot.zero]
  · have hsi : s.mt.snapIndex = (absOf a ess ec s.mt).snap.index := r.mtOK.1
    have hst : s.mt.snapTerm = (absOf a ess ec s.mt).snap.term := r.mtOK.2
    simp only [term, SpecState.term, h0, beq_iff_eq, if_false]
    match hl : (absOf a ess ec s.mt).lookup idx with
    | .ok e =>
      obtain ⟨sl, h1, h2, _⟩ := r.seek_ok idx h0 e hl
      simp [h1, h2]
    | .error err =>
      rw [r.seek_err idx h0 err hl]
      simp only [hsi, hst]

theorem LogRep.firstIndex_eq (r : LogRep p s a ess ec) : firstIndex s = (absOf a ess ec s.mt).firstIndex := by
  simp [firstIndex, r.log_first, SpecState.firstIndex, absOf]

theorem LogRep.lastIndex_eq (r : LogRep p s a ess ec) : lastIndex p s = (absOf a ess ec s.mt).lastIndex := by
  simp only [lastIndex, SpecState.lastIndex, r.logLast_eq, r.mtOK.1]
  rfl

end OG.C17
