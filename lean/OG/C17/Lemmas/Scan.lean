/-
C17 — `allEntries` / `Entries(lo, hi, maxSize)` under `LogRep`.
-/
import OG.C17.Lemmas.Query

namespace OG.C17

/-- the loop of `allEntries` over a plain list of (non-empty-index) entries -/
def scanList (hi max : Nat) : List Entry → Nat → Array Entry → Array Entry × Nat × Bool
  | [], size, acc => (acc, size, false)
  | e :: rest, size, acc =>
    if e.index ≥ hi then (acc, size, true)
    else
      if acc.size > 0 && size + e.size > max then (acc, size + e.size, true)
      else scanList hi max rest (size + e.size) (acc.push e)

variable {p : Params}

theorem scanFile_eq (hp : p.WF) {f : LogFile} {es : List Entry} (r : FileRep p f es) (hi max : Nat) (hhi : 1 ≤ hi) :
    ∀ (n fuel off size : Nat) (acc : Array Entry), es.length - off = n → off ≤ es.length → p.cap + 1 ≤ fuel + off →
      scanFile p f hi max fuel off size acc = scanList hi max (es.drop off) size acc := by
  intro n
  induction n with
  | zero =>
    intro fuel off size acc hn hoff hfuel
    have : off = es.length := by omega
    subst this
    have hl := r.lenLe
    rw [List.drop_length]
    match fuel, hfuel with
    | 0, h => exact absurd h (by omega)
    | fuel + 1, _ =>
      simp only [scanFile, scanList]
      by_cases hc : es.length ≥ p.cap
      · simp [hc]
      · obtain ⟨e, he1, he2⟩ := r.read_entry_empty es.length (Nat.le_refl _)
        simp only [hc, if_false, he1, he2]
        have : ¬ (0 ≥ hi) := by omega
        simp [this]
  | succ n ih =>
    intro fuel off size acc hn hoff hfuel
    have hlt : off < es.length := by omega
    have hl := r.lenLe
    match fuel, hfuel with
    | 0, h => exact absurd h (by omega)
    | fuel + 1, hfuel =>
      have hc : ¬ off ≥ p.cap := by omega
      have hne : ((es[off]).index == 0) = false := by
        have := (r.ok _ (List.getElem_mem hlt)).index_pos
        simp; omega
      rw [List.drop_eq_getElem_cons hlt]
      simp only [scanFile, scanList, hc, if_false, r.read_entry hp off hlt, hne, Bool.false_eq_true]
      split
      · rfl
      · split
        · rfl
        · exact ih fuel (off + 1) _ _ (by omega) (by omega) (by omega)

theorem scanFile_hi_zero (f : LogFile) (max : Nat) : ∀ (fuel off size : Nat) (acc : Array Entry),
    (scanFile p f 0 max fuel off size acc).1 = acc := by
  intro fuel
  cases fuel with
  | zero => intro off size acc; rfl
  | succ fuel =>
    intro off size acc
    simp only [scanFile]
    split
    · rfl
    · split <;> simp

theorem scanFiles_hi_zero (max : Nat) : ∀ (fs : List LogFile) (off size : Nat) (acc : Array Entry),
    scanFiles p 0 max fs off size acc = acc := by
  intro fs
  induction fs with
  | nil => intro off size acc; rfl
  | cons f fs ih =>
    intro off size acc
    simp only [scanFiles]
    have := scanFile_hi_zero (p := p) f max (p.cap + 1) off size acc
    match h : scanFile p f 0 max (p.cap + 1) off size acc with
    | (acc', size', done) =>
      rw [h] at this
      simp only at this
      subst this
      cases done
      · simp [ih]
      · simp

theorem scanList_append (hi max : Nat) : ∀ (xs ys : List Entry) (size : Nat) (acc : Array Entry),
    scanList hi max (xs ++ ys) size acc =
      (if (scanList hi max xs size acc).2.2 then scanList hi max xs size acc
       else scanList hi max ys (scanList hi max xs size acc).2.1 (scanList hi max xs size acc).1) := by
  intro xs
  induction xs with
  | nil => intro ys size acc; simp [scanList]
  | cons x xs ih =>
    intro ys size acc
    simp only [List.cons_append, scanList]
    split
    · simp
    · split
      · simp
      · exact ih ys _ _

/-- reading from slot `off` of the first file on, through the rotated files, then the current one -/
theorem scanFiles_chain (hp : p.WF) (hi max : Nat) (hhi : 1 ≤ hi) {cur : LogFile} {ec : List Entry} (rc : FileRep p cur ec) :
    ∀ (ess : List (List Entry)) (fs : List LogFile) (a off size : Nat) (acc : Array Entry), Chain p a fs ess →
      off ≤ ((ess ++ [ec]).headD []).length →
      scanFiles p hi max (fs ++ [cur]) off size acc = (scanList hi max ((ess.flatten ++ ec).drop off) size acc).1 := by
  intro ess
  induction ess with
  | nil =>
    intro fs a off size acc c hoff
    have : fs = [] := List.eq_nil_of_length_eq_zero (by rw [c.len]; rfl)
    subst this
    simp only [List.nil_append, List.headD_cons] at hoff
    simp only [List.nil_append, scanFiles, List.flatten_nil]
    rw [scanFile_eq hp rc hi max hhi _ (p.cap + 1) off size acc rfl hoff (by omega)]
    match scanList hi max (ec.drop off) size acc with
    | (acc', size', done) => cases done <;> simp
  | cons es ess ih =>
    intro fs a off size acc c hoff
    match fs, c with
    | [], c => exact absurd c.len (by simp)
    | f :: fs, c =>
      have rf : FileRep p f es := by
        have := c.rep 0 (by simp)
        simp only [List.getElem_cons_zero, List.getD_cons_zero] at this
        exact this
      have ct : Chain p (a + es.length) fs ess := by
        have := c.drop 1
        simpa [pre] using this
      simp only [List.cons_append, List.headD_cons] at hoff
      simp only [List.cons_append, scanFiles, List.flatten_cons]
      rw [scanFile_eq hp rf hi max hhi _ (p.cap + 1) off size acc rfl hoff (by omega)]
      rw [List.append_assoc, List.drop_append_of_le_length hoff, scanList_append]
      match h : scanList hi max (es.drop off) size acc with
      | (acc', size', done) =>
        cases done
        · simp only [Bool.false_eq_true, if_false]
          have := ih fs (a + es.length) 0 size' acc' ct (Nat.zero_le _)
          simpa using this
        · simp

/-- `limitSize`/`limitGo` describe the loop -/
theorem scanList_go (hi max : Nat) : ∀ (xs : List Entry) (b size : Nat) (acc : Array Entry), Seq b xs → acc.size > 0 →
    (scanList hi max xs size acc).1.toList = acc.toList ++ limitGo max size (xs.take (hi - b)) := by
  intro xs
  induction xs with
  | nil => intro b size acc _ _; simp [scanList, limitGo]
  | cons e rest ih =>
    intro b size acc hs hacc
    have hb : e.index = b := by
      have := hs 0 (by simp)
      simp only [List.getElem_cons_zero] at this; omega
    simp only [scanList, hb]
    by_cases h1 : b ≥ hi
    · have : hi - b = 0 := by omega
      simp [h1, this, limitGo]
    · have h2 : hi - b = (hi - (b + 1)) + 1 := by omega
      simp only [h1, if_false, hacc, decide_true, Bool.true_and, h2, List.take_succ_cons, limitGo]
      by_cases h3 : size + e.size > max
      · simp [h3]
      · simp only [h3, decide_false, Bool.false_eq_true, if_false]
        rw [ih (b + 1) _ _ hs.tail (by simp)]
        simp

theorem scanList_spec (hi max : Nat) (xs : List Entry) (b : Nat) (hs : Seq b xs) :
    (scanList hi max xs 0 #[]).1.toList = limitSize max (xs.take (hi - b)) := by
  cases xs with
  | nil => simp [scanList, limitSize]
  | cons e rest =>
    have hb : e.index = b := by
      have := hs 0 (by simp)
      simp only [List.getElem_cons_zero] at this; omega
    simp only [scanList, hb]
    by_cases h1 : b ≥ hi
    · have : hi - b = 0 := by omega
      simp [h1, this, limitSize]
    · have h2 : hi - b = (hi - (b + 1)) + 1 := by omega
      simp only [h1, if_false, h2, List.take_succ_cons, limitSize]
      simp only [Array.size_empty, Nat.lt_irrefl, decide_false, Bool.false_and, Bool.false_eq_true, if_false, Nat.zero_add]
      rw [scanList_go hi max rest (b + 1) _ _ hs.tail (by simp)]
      simp

variable {s : State} {a : Nat} {ess : List (List Entry)} {ec : List Entry}

/-- what `allEntries` scans: the entries from `lo` on -/
theorem LogRep.all_entries_scan (hp : p.WF) (r : LogRep p s a ess ec) (lo hi max : Nat) (hhi : 1 ≤ hi)
    (hlo : (if ec = [] then 1 else a) ≤ lo) :
    allEntries p s lo hi max = (scanList hi max ((ess.flatten ++ ec).drop (lo - (if ec = [] then 1 else a))) 0 #[]).1 := by
  by_cases hec : ec = []
  · have hess := r.curNe hec
    subst hec; subst hess
    have hf : s.files = [] := r.files_nil_iff.mpr rfl
    have hsg : slotGe p s lo = (none, none) := by simp [slotGe, r.cur.slotGe_nil, hf]
    simp only [allEntries, hsg, Option.getD_none]
    have := scanFiles_chain hp hi max hhi r.cur [] [] a 0 0 #[] (Chain.nil p a) (by simp)
    simpa using this
  · simp only [hec, if_false] at hlo ⊢
    by_cases hcur : curStart a ess ≤ lo
    · have hsg := r.slotGe_cur hec lo hcur
      simp only [allEntries, hsg, Option.getD_some]
      have hdrop : (ess.flatten ++ ec).drop (lo - a) =
          ec.drop (if lo < curStart a ess + ec.length then lo - curStart a ess else ec.length) := by
        rw [List.drop_append, List.drop_of_length_le (by simp only [curStart] at hcur; omega), List.nil_append]
        split
        · congr 1; simp only [curStart] at *; omega
        · rw [List.drop_length, List.drop_of_length_le (by simp only [curStart] at *; omega)]
      rw [hdrop]
      have := scanFiles_chain hp hi max hhi r.cur [] [] a
        (if lo < curStart a ess + ec.length then lo - curStart a ess else ec.length) 0 #[] (Chain.nil p a)
        (by simp; split <;> omega)
      simpa using this
    · have hlt : lo < a + ess.flatten.length := by simp only [curStart] at hcur; omega
      obtain ⟨j, hj, hj1, hj2⟩ := r.chain.locate lo hlo hlt
      have hsg := r.slotGe_rot lo j hj hj1 hj2
      simp only [allEntries, hsg, Option.getD_some]
      have hdrop : (ess.flatten ++ ec).drop (lo - a) = ((ess.drop j).flatten ++ ec).drop (lo - (a + pre ess j)) := by
        rw [show lo - a = pre ess j + (lo - (a + pre ess j)) by omega, ← List.drop_drop, List.drop_append,
          flatten_drop]
        have : pre ess j - ess.flatten.length = 0 := by have := pre_le_flatten ess j; omega
        rw [this, List.drop_zero]
      rw [hdrop]
      apply scanFiles_chain hp hi max hhi r.cur (ess.drop j) (s.files.drop j) (a + pre ess j) _ 0 #[] (r.chain.drop j)
      rw [List.drop_eq_getElem_cons hj]
      simp only [List.cons_append, List.headD_cons]; omega

/-- `Entries(lo, hi, maxSize)` -/
theorem LogRep.entries_eq (hp : p.WF) (r : LogRep p s a ess ec) (lo hi max : Nat) :
    (entries p s lo hi max).map Array.toList = (absOf a ess ec s.mt).entries lo hi max := by
  simp only [entries, SpecState.entries, r.log_first, r.logLast_eq]
  have hfirst : (absOf a ess ec s.mt).first = if ec = [] then 1 else a := rfl
  rw [hfirst]
  by_cases h1 : lo < (if ec = [] then 1 else a)
  · simp [h1, Except.map]
  · by_cases h2 : hi > (absOf a ess ec s.mt).logLast + 1
    · simp [h1, h2, Except.map]
    · simp only [h1, h2, if_false, Except.map]
      congr 1
      by_cases hz : hi = 0
      · subst hz
        simp [allEntries, scanFiles_hi_zero, limitSize, absOf]
      · rw [r.all_entries_scan hp lo hi max (by omega) (by omega)]
        have hseq : Seq lo ((ess.flatten ++ ec).drop (lo - (if ec = [] then 1 else a))) := by
          by_cases hec : ec = []
          · have hess := r.curNe hec
            subst hec; subst hess
            simp; exact Seq.nil _
          · simp only [hec, if_false] at h1 ⊢
            have := r.seqAll.drop (lo - a)
            rwa [show a + (lo - a) = lo by omega] at this
        rw [scanList_spec hi max _ lo hseq]
        rfl

end OG.C17
