/-
C17 — `DeleteBefore` and reopen (`openEntryLogs` + the re-applied deletion of `Init`).
-/
import OG.C17.Lemmas.Save

namespace OG.C17

variable {p : Params} {s : State} {a : Nat} {ess : List (List Entry)} {ec : List Entry}

theorem flatten_length_split (ess : List (List Entry)) (j : Nat) :
    ess.flatten.length = pre ess j + (ess.drop j).flatten.length := by
  have h : ess.flatten = (ess.take j).flatten ++ (ess.drop j).flatten := by
    rw [← List.flatten_append, List.take_append_drop]
  rw [h, List.length_append]; rfl

/-- dropping the first `j` rotated files -/
theorem LogRep.drop_files (r : LogRep p s a ess ec) (j : Nat) :
    LogRep p { s with files := s.files.drop j } (a + pre ess j) (ess.drop j) ec := by
  refine ⟨r.chain.drop j, r.cur, ?_, r.next_eq, ?_, r.fidCur, ?_, r.np, r.mtOK, by have := r.aPos; omega⟩
  · have := flatten_length_split ess j
    rw [show a + pre ess j + (ess.drop j).flatten.length = a + ess.flatten.length by omega]
    exact r.curSeq
  · intro h; rw [r.curNe h]; simp
  · intro f hf; exact r.fids f (List.mem_of_mem_drop hf)

theorem absOf_drop (r : LogRep p s a ess ec) (j : Nat) (hec : ec ≠ []) :
    absOf (a + pre ess j) (ess.drop j) ec s.mt = (absOf a ess ec s.mt).compactTo (a + pre ess j) := by
  simp only [absOf, SpecState.compactTo, hec, if_false]
  congr 1
  have : pre ess j - ess.flatten.length = 0 := by have := pre_le_flatten ess j; omega
  rw [show a + pre ess j - a = pre ess j by omega, List.drop_append, flatten_drop, this, List.drop_zero]

/-- `DeleteBefore i` is a compaction the spec allows -/
theorem LogRep.delete_before (r : LogRep p s a ess ec) (idx : Nat) :
    ∃ a' ess', LogRep p (step p s (.delBefore idx)) a' ess' ec ∧
      ∃ f', (absOf a ess ec s.mt).mayCompactTo idx f' ∧
        absOf a' ess' ec (step p s (.delBefore idx)).mt = (absOf a ess ec s.mt).compactTo f' := by
  have hsame : ∃ f', (absOf a ess ec s.mt).mayCompactTo idx f' ∧ absOf a ess ec s.mt = (absOf a ess ec s.mt).compactTo f' := by
    refine ⟨(absOf a ess ec s.mt).first, ⟨Nat.le_refl _, Or.inl rfl⟩, ?_⟩
    simp [SpecState.compactTo]
  by_cases hec : ec = []
  · -- empty log: nothing to delete
    have hess := r.curNe hec
    subst hec; subst hess
    have hf : s.files = [] := r.files_nil_iff.mpr rfl
    have hsg : slotGe p s idx = (none, none) := by simp [slotGe, r.cur.slotGe_nil, hf]
    have : step p s (.delBefore idx) = s := by simp [step, deleteBefore, hsg]
    rw [this]; exact ⟨a, [], r, hsame⟩
  · by_cases hlt : idx < a
    · have h1 := r.slotGe_below idx hlt
      have : step p s (.delBefore idx) = s := by
        simp only [step, deleteBefore]
        match hsg : slotGe p s idx with
        | (x, none) => rfl
        | (x, some y) => rw [hsg] at h1; simp at h1
      rw [this]; exact ⟨a, ess, r, hsame⟩
    · have hall : ess.flatten ++ ec ≠ [] := fun h => hec (r.all_nil_iff.mp h)
      have hecl : 0 < ec.length := List.length_pos_iff.mpr hec
      by_cases hcur : curStart a ess ≤ idx
      · have hsg := r.slotGe_cur hec idx hcur
        have hst : step p s (.delBefore idx) = { s with files := s.files.drop s.files.length } := by
          simp [step, deleteBefore, hsg]
        rw [hst]
        have hd := r.drop_files s.files.length
        have hpre : pre ess s.files.length = ess.flatten.length := pre_ge ess _ (by rw [r.chain.len]; exact Nat.le_refl _)
        refine ⟨_, _, hd, a + pre ess s.files.length, ⟨?_, ?_⟩, absOf_drop r _ hec⟩
        · simp [absOf, hec]
        · right
          simp only [absOf, hec, if_false, SpecState.logLast, curStart] at *
          have : (ess.flatten ++ ec).isEmpty = false := by simp [hall]
          simp only [this, Bool.false_eq_true, if_false, List.length_append]
          omega
      · have hlt2 : idx < a + ess.flatten.length := by simp only [curStart] at hcur; omega
        obtain ⟨j, hj, hj1, hj2⟩ := r.chain.locate idx (by omega) hlt2
        have hsg := r.slotGe_rot idx j hj hj1 hj2
        have hfj : ¬ j ≥ s.files.length := by rw [r.chain.len]; omega
        have hst : step p s (.delBefore idx) = { s with files := s.files.drop j } := by
          simp [step, deleteBefore, hsg, hfj]
        rw [hst]
        refine ⟨_, _, r.drop_files j, a + pre ess j, ⟨?_, ?_⟩, absOf_drop r _ hec⟩
        · simp [absOf, hec]
        · right
          have hple := pre_le_flatten ess j
          simp only [absOf, hec, if_false, SpecState.logLast]
          have : (ess.flatten ++ ec).isEmpty = false := by simp [hall]
          simp only [this, Bool.false_eq_true, if_false, List.length_append]
          omega

/-! ### reopen -/

/-- two strictly sorted lists with the same elements are equal -/
theorem perm_strict_sorted_eq {key : LogFile → Nat} :
    ∀ (l₁ l₂ : List LogFile), l₁.Perm l₂ → l₁.Pairwise (fun x y => key x < key y) →
      l₂.Pairwise (fun x y => key x < key y) → l₁ = l₂ := by
  intro l₁
  induction l₁ with
  | nil => intro l₂ hp _ _; exact (List.Perm.nil_eq hp)
  | cons x xs ih =>
    intro l₂ hp h1 h2
    match l₂, hp, h2 with
    | [], hp, _ => exact absurd hp.symm.nil_eq (by simp)
    | y :: ys, hp, h2 =>
      have hx : x ∈ y :: ys := hp.subset (by simp)
      have hy : y ∈ x :: xs := hp.symm.subset (by simp)
      have hxy : x = y := by
        rcases List.mem_cons.mp hx with h | h
        · exact h
        · rcases List.mem_cons.mp hy with h' | h'
          · exact h'.symm
          · have a1 := (List.pairwise_cons.mp h2).1 x h
            have a2 := (List.pairwise_cons.mp h1).1 y h'
            omega
      subst hxy
      have := ih ys (List.Perm.cons_inv hp) (List.pairwise_cons.mp h1).2 (List.pairwise_cons.mp h2).2
      rw [this]

theorem sortBy_of_strict (key : LogFile → Nat) (l l' : List LogFile) (hp : l'.Perm l)
    (hs : l.Pairwise (fun x y => key x < key y)) : sortBy key l' = l := by
  apply perm_strict_sorted_eq (key := key) _ _ ((List.mergeSort_perm _ _).trans hp) _ hs
  have hsorted : (sortBy key l').Pairwise (fun x y => decide (key x ≤ key y) = true) :=
    List.pairwise_mergeSort (fun a b c h1 h2 => by simp at *; omega) (fun a b => by simp; omega) l'
  have hne : l.Pairwise (fun x y => key x ≠ key y) := hs.imp (fun h => by omega)
  have hne' : (sortBy key l').Pairwise (fun x y => key x ≠ key y) :=
    (List.Perm.pairwise_iff (fun h => fun h' => h h'.symm) ((List.mergeSort_perm _ _).trans hp)).mpr hne
  have := hsorted.and hne'
  exact this.imp (fun ⟨h1, h2⟩ => by simp at h1; omega)

theorem Chain.sorted {fs : List LogFile} (c : Chain p a fs ess) :
    fs.Pairwise (fun x y => x.firstIndex < y.firstIndex) := by
  rw [List.pairwise_iff_getElem]
  intro i j hi hj hij
  have e1 := c.firstIndex i (by rw [← c.len]; exact hi)
  have e2 := c.firstIndex j (by rw [← c.len]; exact hj)
  rw [List.getD_eq_getElem?_getD, List.getElem?_eq_getElem hi] at e1
  rw [List.getD_eq_getElem?_getD, List.getElem?_eq_getElem hj] at e2
  simp only [Option.getD_some] at e1 e2
  have := c.pre_lt hij (by rw [← c.len]; omega)
  omega

theorem LogRep.dir_sorted (r : LogRep p s a ess ec) (hec : ec ≠ []) :
    (s.files ++ [s.current]).Pairwise (fun x y => x.firstIndex < y.firstIndex) := by
  rw [List.pairwise_append]
  refine ⟨r.chain.sorted, by simp, ?_⟩
  intro x hx y hy
  simp only [List.mem_singleton] at hy; subst hy
  obtain ⟨i, hi, rfl⟩ := List.getElem_of_mem hx
  have e1 := r.chain.firstIndex i (by rw [← r.chain.len]; exact hi)
  rw [List.getD_eq_getElem?_getD, List.getElem?_eq_getElem hi] at e1
  simp only [Option.getD_some] at e1
  have e2 := r.cur.firstIndex_seq r.curSeq hec
  have h1 := r.chain.pre_lt (show i < ess.length by rw [← r.chain.len]; exact hi) (Nat.le_refl _)
  rw [pre_ge ess _ (Nat.le_refl _)] at h1
  omega

/-- recomputing the in-memory state from the directory gives the state back (non-empty log) -/
theorem LogRep.open_eq (r : LogRep p s a ess ec) (hec : ec ≠ []) :
    openEntryLogs p (s.files ++ [s.current]) s.mt = s := by
  have hsort : sortBy (·.firstIndex) (sortBy (·.fid) (s.files ++ [s.current])) = s.files ++ [s.current] :=
    sortBy_of_strict _ _ _ (List.mergeSort_perm _ _) (r.dir_sorted hec)
  have hpos : ∀ f ∈ s.files ++ [s.current], (f.firstIndex != 0) = true := by
    intro f hf
    rcases List.mem_append.mp hf with h | h
    · obtain ⟨i, hi, rfl⟩ := List.getElem_of_mem h
      have e1 := r.chain.firstIndex i (by rw [← r.chain.len]; exact hi)
      rw [List.getD_eq_getElem?_getD, List.getElem?_eq_getElem hi] at e1
      simp only [Option.getD_some] at e1
      have := r.aPos
      simp; omega
    · simp only [List.mem_singleton] at h; subst h
      have e2 := r.cur.firstIndex_seq r.curSeq hec
      have := r.aPos
      simp; omega
  simp only [openEntryLogs, hsort, List.filter_eq_self.mpr hpos]
  simp only [List.getLast?_append, List.getLast?_singleton, Option.some_or, List.dropLast_concat]
  rw [r.cur.first_empty, ← r.next_eq, ← r.np]

/-- reopening an empty store: the empty file is deleted and a new one created -/
theorem LogRep.open_empty (hp : p.WF) (r : LogRep p s a ess ec) (hec : ec = []) :
    LogRep p (openEntryLogs p (s.files ++ [s.current]) s.mt) a [] [] := by
  have hess := r.curNe hec
  subst hec; subst hess
  have hf : s.files = [] := r.files_nil_iff.mpr rfl
  have h0 : s.current.firstIndex = 0 := r.cur.firstIndex_nil
  simp only [hf, List.nil_append, openEntryLogs, sortBy, List.mergeSort_singleton, List.filter_cons, h0, bne_self_eq_false,
    Bool.false_eq_true, if_false, List.filter_nil, List.getLast?_nil]
  exact ⟨Chain.nil p a, FileRep.new hp _, Seq.nil _, rfl, fun _ => rfl, by simp [newFile], fun f hf => by simp at hf, rfl, r.mtOK, r.aPos⟩

theorem deleteBefore_mt {s s' : State} {i : Nat} (h : deleteBefore p s i = .ok s') : s'.mt = s.mt := by
  simp only [deleteBefore] at h
  split at h
  · cases h
  · cases h; rfl
  · split at h
    · cases h
    · cases h; rfl

theorem step_delBefore_mt (s : State) (i : Nat) : (step p s (.delBefore i)).mt = s.mt := by
  simp only [step]
  cases h : deleteBefore p s i with
  | ok s' => exact deleteBefore_mt h
  | error e => rfl

/-- the index `Init` re-applies the prefix deletion for -/
def initIdx (s : State) : Nat := (if s.mt.snapIndex > 0 then s.mt.snapIndex + 1 else logFirstIndex s) - 1

theorem reopen_eq (s : State)
    (hchk : (openEntryLogs p (s.files ++ [s.current]) s.mt).mt.snapIndex = (openEntryLogs p (s.files ++ [s.current]) s.mt).mt.snap.index) :
    reopen p s = .ok (step p (openEntryLogs p (s.files ++ [s.current]) s.mt)
      (.delBefore (initIdx (openEntryLogs p (s.files ++ [s.current]) s.mt)))) := by
  have hc : ¬ ((openEntryLogs p (s.files ++ [s.current]) s.mt).mt.snap.index ≠ 0 ∧
      (openEntryLogs p (s.files ++ [s.current]) s.mt).mt.snap.index + 1 ≠
        (if (openEntryLogs p (s.files ++ [s.current]) s.mt).mt.snapIndex > 0 then
          (openEntryLogs p (s.files ++ [s.current]) s.mt).mt.snapIndex + 1
        else logFirstIndex (openEntryLogs p (s.files ++ [s.current]) s.mt))) := by
    rw [hchk]
    intro ⟨h1, h2⟩
    have : (openEntryLogs p (s.files ++ [s.current]) s.mt).mt.snap.index > 0 := by omega
    simp [this] at h2
  simp only [reopen, bne_iff_ne, Bool.and_eq_true, decide_eq_true_eq, hc, if_false, step, initIdx]
  cases deleteBefore p (openEntryLogs p (s.files ++ [s.current]) s.mt)
    ((if (openEntryLogs p (s.files ++ [s.current]) s.mt).mt.snapIndex > 0 then
      (openEntryLogs p (s.files ++ [s.current]) s.mt).mt.snapIndex + 1
    else logFirstIndex (openEntryLogs p (s.files ++ [s.current]) s.mt)) - 1) <;> rfl

theorem absOf_empty (a a' : Nat) (m : Meta) : absOf a' [] [] m = absOf a [] [] m := by simp [absOf]

/-- reopen (Close + Init): the abstract state survives, up to a compaction the spec allows -/
theorem LogRep.reopen_ok (hp : p.WF) (r : LogRep p s a ess ec) :
    ∃ s', reopen p s = .ok s' ∧ ∃ a' ess', LogRep p s' a' ess' ec ∧
      ∃ f', (absOf a ess ec s.mt).mayCompactTo s.mt.snap.index f' ∧
        absOf a' ess' ec s'.mt = (absOf a ess ec s.mt).compactTo f' := by
  have hmt : (openEntryLogs p (s.files ++ [s.current]) s.mt).mt = s.mt := by
    simp only [openEntryLogs]; split <;> rfl
  have h0 : ∃ a0 ess0, LogRep p (openEntryLogs p (s.files ++ [s.current]) s.mt) a0 ess0 ec ∧
      absOf a0 ess0 ec s.mt = absOf a ess ec s.mt := by
    by_cases hec : ec = []
    · have r0 := r.open_empty hp hec
      have hess := r.curNe hec
      subst hec; subst hess
      exact ⟨a, [], r0, rfl⟩
    · rw [r.open_eq hec]; exact ⟨a, ess, r, rfl⟩
  obtain ⟨a0, ess0, r0, habs0⟩ := h0
  rw [reopen_eq s (by rw [hmt]; exact r.mtOK.1)]
  obtain ⟨a', ess', r1, f', hf1, hf2⟩ := r0.delete_before (initIdx (openEntryLogs p (s.files ++ [s.current]) s.mt))
  rw [step_delBefore_mt, hmt] at hf2
  rw [hmt, habs0] at hf1
  rw [habs0] at hf2
  refine ⟨_, rfl, a', ess', r1, f', ?_, by rw [step_delBefore_mt, hmt]; exact hf2⟩
  obtain ⟨h1, h2⟩ := hf1
  refine ⟨h1, ?_⟩
  rcases h2 with h2 | ⟨h2, h3⟩
  · exact Or.inl h2
  · simp only [initIdx, hmt] at h2
    by_cases hsi : s.mt.snapIndex > 0
    · simp only [hsi, if_true, Nat.add_sub_cancel] at h2
      rw [r.mtOK.1] at h2
      exact Or.inr ⟨h2, h3⟩
    · simp only [hsi, if_false] at h2
      left
      have hf := r0.log_first
      have : (absOf a ess ec s.mt).first = logFirstIndex (openEntryLogs p (s.files ++ [s.current]) s.mt) := by
        rw [hf, ← habs0]; rfl
      omega

end OG.C17
