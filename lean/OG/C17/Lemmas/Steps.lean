/-
C17 — every operation, put together: the step preserves the invariant and is a step of the spec.
-/
import OG.C17.Lemmas.Compact
import OG.C17.Lemmas.Scan

namespace OG.C17

/-- the store's representation invariant -/
def Inv (p : Params) (s : State) : Prop := ∃ a ess ec, LogRep p s a ess ec

/-- what raft guarantees about the entries of a `Save`, relative to the log held so far:
storable values (uint64 fields, payload shorter than 4 GiB), consecutive indexes, no gap after the last index and nothing below the
first retained index -/
structure SaveOK (p : Params) (σ : SpecState) (new : List Entry) : Prop where
  ok : ∀ e ∈ new, e.OK
  seq : ∀ e0 rest, new = e0 :: rest → Seq e0.index new
  range : ∀ e0 rest, new = e0 :: rest → σ.ents ≠ [] → σ.first ≤ e0.index ∧ e0.index ≤ σ.first + σ.ents.length

/-- preconditions of an operation (only `Save` has one): what raft guarantees -/
def OpOKBase (p : Params) (σ : SpecState) : Op → Prop
  | .save _ ents _ => SaveOK p σ ents
  | _ => True

/-- … and, excluding the known finding `snapshot_install_keeps_old_entries`: the snapshot of a
`Save` does not lie beyond the log -/
def OpOK (p : Params) (σ : SpecState) : Op → Prop
  | .save _ ents sn => SaveOK p σ ents ∧ σ.noInstall ents sn
  | _ => True

variable {p : Params} {s : State} {a : Nat} {ess : List (List Entry)} {ec : List Entry}

theorem LogRep.with_mt (r : LogRep p s a ess ec) (m : Meta) (hm : m.snapIndex = m.snap.index ∧ m.snapTerm = m.snap.term) :
    LogRep p { s with mt := m } a ess ec :=
  ⟨r.chain, r.cur, r.curSeq, r.next_eq, r.curNe, r.fidCur, r.fids, r.np, hm, r.aPos⟩

theorem storeHardState_ok (m : Meta) (hs : Option HardState) (hm : m.snapIndex = m.snap.index ∧ m.snapTerm = m.snap.term) :
    (storeHardState m hs).snapIndex = (storeHardState m hs).snap.index ∧ (storeHardState m hs).snapTerm = (storeHardState m hs).snap.term := by
  unfold storeHardState
  split
  · exact hm
  · split <;> exact hm

theorem storeSnapshot_ok (m : Meta) (sn : Option Snapshot) (hm : m.snapIndex = m.snap.index ∧ m.snapTerm = m.snap.term) :
    (storeSnapshot m sn).snapIndex = (storeSnapshot m sn).snap.index ∧ (storeSnapshot m sn).snapTerm = (storeSnapshot m sn).snap.term := by
  unfold storeSnapshot
  split
  · exact hm
  · split
    · exact hm
    · exact ⟨rfl, rfl⟩

theorem addLoop_mt : ∀ (new : List Entry) (s : State) (off : Nat), (addLoop p new s off).mt = s.mt := by
  intro new
  induction new with
  | nil => intro s off; rfl
  | cons e rest ih =>
    intro s off
    simp only [addLoop]
    split <;> rw [ih] <;> rfl

theorem conflict_mt (s : State) (idx : Nat) : (conflict p s idx).mt = s.mt := by
  simp only [conflict]
  split
  · rfl
  · split <;> (try split) <;> rfl
  · split
    · rfl
    · split <;> rfl

theorem addEntries_mt (s : State) (new : List Entry) : (addEntries p s new).mt = s.mt := by
  cases new with
  | nil => rfl
  | cons e rest => simp only [addEntries, addFrom, addLoop_mt, conflict_mt]

/-- the meta part of the abstraction after a `Save` -/
theorem absOf_save_meta (a : Nat) (ess : List (List Entry)) (ec : List Entry) (m : Meta) (hs : Option HardState) (sn : Option Snapshot) :
    absOf a ess ec (storeSnapshot (storeHardState m hs) sn) = ((absOf a ess ec m).setHardState hs).setSnapshot sn := by
  simp only [absOf, storeSnapshot, storeHardState, SpecState.setHardState, SpecState.setSnapshot]
  cases hs with
  | none => cases sn with
    | none => rfl
    | some sn => by_cases h : sn.isValid <;> simp [h]
  | some h =>
    by_cases hh : h.isEmpty
    · cases sn with
      | none => simp [hh]
      | some sn => by_cases h : sn.isValid <;> simp [h, hh]
    · cases sn with
      | none => simp [hh]
      | some sn => by_cases h : sn.isValid <;> simp [h, hh]

/-- `Save` -/
theorem LogRep.save_ok (hp : p.WF) (r : LogRep p s a ess ec) (hs : Option HardState) (new : List Entry) (sn : Option Snapshot)
    (hok : SaveOK p (absOf a ess ec s.mt) new) :
    ∃ a' ess' ec', LogRep p (save p s hs new sn) a' ess' ec' ∧
      absOf a' ess' ec' (save p s hs new sn).mt = (absOf a ess ec s.mt).saveKeep hs new sn := by
  have hmt : (save p s hs new sn).mt = storeSnapshot (storeHardState s.mt hs) sn := by
    simp only [save, addEntries_mt]
  have hmok := storeSnapshot_ok _ sn (storeHardState_ok s.mt hs r.mtOK)
  cases new with
  | nil =>
    refine ⟨a, ess, ec, ?_, ?_⟩
    · exact r.with_mt _ hmok
    · rw [hmt, absOf_save_meta]; rfl
  | cons e0 rest =>
    by_cases hnil : ess.flatten ++ ec = []
    · obtain ⟨ess', ec', r', hall⟩ := r.add_entries_empty hp e0 rest hok.ok (hok.seq e0 rest rfl) hnil
      refine ⟨e0.index, ess', ec', ?_, ?_⟩
      · have := r'.with_mt (storeSnapshot (storeHardState s.mt hs) sn) hmok
        simpa [save, addEntries_mt] using this
      · rw [hmt, absOf_save_meta]
        have hec' : ec' ≠ [] := by
          intro h
          have := r'.all_nil_iff.mpr h
          rw [hall] at this; simp at this
        simp only [SpecState.saveKeep]
        congr 2
        simp only [absOf, SpecState.append, hnil, List.isEmpty_nil, if_true, hec', if_false, hall]
    · have hrange := hok.range e0 rest rfl hnil
      have hec : ec ≠ [] := fun h => hnil (r.all_nil_iff.mpr h)
      simp only [absOf, hec, if_false] at hrange
      obtain ⟨ess', ec', r', hall⟩ := r.add_entries hp e0 rest hok.ok (hok.seq e0 rest rfl) hnil hrange.1 hrange.2
      refine ⟨a, ess', ec', ?_, ?_⟩
      · have := r'.with_mt (storeSnapshot (storeHardState s.mt hs) sn) hmok
        simpa [save, addEntries_mt] using this
      · rw [hmt, absOf_save_meta]
        have hec' : ec' ≠ [] := by
          intro h
          have := r'.all_nil_iff.mpr h
          rw [hall] at this; simp at this
        simp only [SpecState.saveKeep]
        congr 2
        have hemp : (ess.flatten ++ ec).isEmpty = false := by simp [hnil]
        simp only [absOf, SpecState.append, hemp, Bool.false_eq_true, if_false, hec, hec', hall]

/-- `CreateSnapshot` -/
theorem LogRep.mksnap_ok (r : LogRep p s a ess ec) (i : Nat) (sn : Snapshot) :
    (∀ σ', (absOf a ess ec s.mt).createSnapshot i sn = .ok σ' →
        ∃ s', createSnapshot p s i sn = .ok s' ∧ LogRep p s' a ess ec ∧ absOf a ess ec s'.mt = σ') ∧
    (∀ err, (absOf a ess ec s.mt).createSnapshot i sn = .error err → createSnapshot p s i sn = .error err) := by
  have hfirst : (absOf a ess ec s.mt).first = if ec = [] then 1 else a := rfl
  have hfpos : 1 ≤ (if ec = [] then 1 else a) := by
    split
    · omega
    · exact r.aPos
  constructor
  · intro σ' h
    simp only [SpecState.createSnapshot, hfirst] at h
    by_cases h1 : i < (if ec = [] then 1 else a)
    · simp [h1] at h
    · have h0 : i ≠ 0 := by omega
      simp only [h1, if_false, h0, beq_iff_eq] at h
      match hl : (absOf a ess ec s.mt).lookup i with
      | .error e => rw [hl] at h; simp at h
      | .ok e =>
        rw [hl] at h
        obtain ⟨sl, hs1, hs2, _⟩ := r.seek_ok i h0 e hl
        have hv : ({ sn with index := i, term := sl.term } : Snapshot).isValid = true := by
          simp [Snapshot.isValid, h0]
        refine ⟨{ s with mt := storeSnapshot s.mt (some { sn with index := i, term := sl.term }) }, ?_, ?_, ?_⟩
        · simp only [createSnapshot, r.log_first, h1, if_false, hs1]
        · exact r.with_mt _ (storeSnapshot_ok _ _ r.mtOK)
        · rw [hs2] at hv
          simp only [Except.ok.injEq] at h
          rw [← h]
          simp only [storeSnapshot, hs2, hv, Bool.not_true, Bool.false_eq_true, if_false]
          rfl
  · intro err h
    simp only [SpecState.createSnapshot, hfirst] at h
    by_cases h1 : i < (if ec = [] then 1 else a)
    · simp only [h1, if_true] at h
      cases h
      simp [createSnapshot, r.log_first, h1]
    · have h0 : i ≠ 0 := by omega
      simp only [h1, if_false, h0, beq_iff_eq] at h
      match hl : (absOf a ess ec s.mt).lookup i with
      | .ok e => rw [hl] at h; simp at h
      | .error e =>
        rw [hl] at h
        cases h
        simp only [createSnapshot, r.log_first, h1, if_false, r.seek_err i h0 _ hl]

end OG.C17
