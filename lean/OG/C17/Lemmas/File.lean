/-
C17 — one entry file: the representation invariant `FileRep p f es` ("file `f` holds exactly
the entries `es`") and what every read of the model answers under it.
-/
import OG.C17.Rep
import OG.C17.Lemmas.Bytes
import OG.C17.Lemmas.Search

namespace OG.C17
open OG.Gen.C17 (entrySize unit32Size)

/-- the bytes of the records of `es`, in order -/
def enc (es : List Entry) : List UInt8 := es.flatMap (fun e => toL (be32 e.data.size) ++ toL e.data)

theorem total_nil : total [] = 0 := rfl
theorem total_cons (e : Entry) (es : List Entry) : total (e :: es) = 4 + e.data.size + total es := by
  simp [total, recLen]
theorem total_append (a b : List Entry) : total (a ++ b) = total a + total b := by
  simp [total]

theorem enc_nil : enc [] = [] := rfl
theorem enc_append (a b : List Entry) : enc (a ++ b) = enc a ++ enc b := by simp [enc]
theorem enc_cons (e : Entry) (es : List Entry) : enc (e :: es) = toL (be32 e.data.size) ++ toL e.data ++ enc es := by
  simp [enc]

theorem enc_length (es : List Entry) : (enc es).length = total es := by
  induction es with
  | nil => rfl
  | cons e es ih => simp [enc_cons, total_cons, ih, toL_length, be32_size]; omega

theorem total_take_le (es : List Entry) (i : Nat) : total (es.take i) ≤ total es := by
  have := total_append (es.take i) (es.drop i)
  rw [List.take_append_drop] at this
  omega

theorem total_take_succ (es : List Entry) (i : Nat) (h : i < es.length) :
    total (es.take (i + 1)) = total (es.take i) + 4 + es[i].data.size := by
  rw [List.take_succ_eq_append_getElem h, total_append]
  simp [total, recLen]; omega

/-- `f` holds exactly the entries `es`: slot `i` describes `es[i]`, later slots are empty,
the data area starts with the records of `es`. -/
structure FileRep (p : Params) (f : LogFile) (es : List Entry) : Prop where
  tabSize : f.tab.size = p.cap
  lenLe : es.length ≤ p.cap
  slots : ∀ i (h : i < es.length), getSlot f i = ⟨es[i].term, es[i].index, es[i].typ, offOf p es i⟩
  empty : ∀ i, es.length ≤ i → (getSlot f i).index = 0 ∧ (getSlot f i).off = 0
  data : (toL f.data).take (total es) = enc es
  ok : ∀ e ∈ es, e.OK
  endLt : p.dataOff + total es < 18446744073709551616

/-- consecutive indexes starting at `a` -/
def Seq (a : Nat) (es : List Entry) : Prop := ∀ i (h : i < es.length), es[i].index = a + i

theorem Seq.tail {a : Nat} {e : Entry} {es : List Entry} (h : Seq a (e :: es)) : Seq (a + 1) es := by
  intro i hi
  have := h (i + 1) (by simp; omega)
  simp at this; omega

theorem Seq.append {a : Nat} {xs ys : List Entry} (h1 : Seq a xs) (h2 : Seq (a + xs.length) ys) : Seq a (xs ++ ys) := by
  intro i hi
  by_cases h : i < xs.length
  · rw [List.getElem_append_left h]; exact h1 i h
  · rw [List.getElem_append_right (by omega)]
    have := h2 (i - xs.length) (by simp at hi; omega)
    omega

theorem Seq.take {a : Nat} {xs : List Entry} (h : Seq a xs) (k : Nat) : Seq a (xs.take k) := by
  intro i hi
  rw [List.getElem_take]; exact h i (by simp at hi; omega)

theorem Seq.drop {a : Nat} {xs : List Entry} (h : Seq a xs) (k : Nat) : Seq (a + k) (xs.drop k) := by
  intro i hi
  rw [List.getElem_drop]
  have := h (k + i) (by simp at hi; omega)
  omega

section
variable {p : Params} {f : LogFile} {es : List Entry}

theorem FileRep.data_size_ge (r : FileRep p f es) : total es ≤ f.data.size := by
  have := congrArg List.length r.data
  rw [enc_length, List.length_take, toL_length] at this
  omega

theorem FileRep.toL_data (r : FileRep p f es) : toL f.data = enc es ++ (toL f.data).drop (total es) := by
  conv => lhs; rw [← List.take_append_drop (total es) (toL f.data)]
  rw [r.data]

theorem enc_split (es : List Entry) (i : Nat) (h : i < es.length) :
    enc es = enc (es.take i) ++ (toL (be32 es[i].data.size) ++ toL es[i].data) ++ enc (es.drop (i + 1)) := by
  conv => lhs; rw [← List.take_append_drop i es, List.drop_eq_getElem_cons h]
  rw [enc_append, enc_cons]
  simp [List.append_assoc]

/-- the bytes at the record of entry `i` -/
theorem FileRep.record (r : FileRep p f es) (i : Nat) (h : i < es.length) :
    (toL f.data).drop (total (es.take i)) =
      toL (be32 es[i].data.size) ++ (toL es[i].data ++ (enc (es.drop (i + 1)) ++ (toL f.data).drop (total es))) := by
  conv => lhs; rw [r.toL_data, enc_split es i h]
  have hl : (enc (List.take i es)).length = total (es.take i) := enc_length _
  simp only [List.append_assoc]
  rw [List.drop_left' hl]

theorem FileRep.slot_index_pos (r : FileRep p f es) (i : Nat) (h : i < es.length) : 1 ≤ (getSlot f i).index := by
  rw [r.slots i h]; exact (r.ok _ (List.getElem_mem h)).index_pos

theorem FileRep.offOf_lt_size (r : FileRep p f es) (i : Nat) (h : i < es.length) :
    offOf p es i + 4 + es[i].data.size ≤ f.size p := by
  have h1 := total_take_succ es i h
  have h2 := total_take_le es (i + 1)
  have h3 := r.data_size_ge
  simp only [offOf, LogFile.size]; omega

/-- `ReadSlice` at the offset of slot `i` returns the payload of entry `i` -/
theorem FileRep.read_slice (r : FileRep p f es) (i : Nat) (h : i < es.length) :
    readSlice p f (offOf p es i) = es[i].data := by
  have hrec := r.record i h
  have hsz := r.offOf_lt_size i h
  have hlt : (es[i]).data.size < 4294967296 := (r.ok _ (List.getElem_mem h)).size_lt
  have hrd : rd32 f.data (total (es.take i)) = some es[i].data.size := by
    apply rd32_of_prefix hlt
    rw [hrec]
    have : (toL (be32 es[i].data.size)).length = 4 := by rw [toL_length, be32_size]
    exact List.take_left' this
  have hoff : ¬ offOf p es i < p.dataOff := by simp [offOf]
  have ho : offOf p es i - p.dataOff = total (es.take i) := by simp [offOf]
  simp only [OG.C17.readSlice, hoff, if_false, ho, hrd]
  have hin : total (List.take i es) + 4 + es[i].data.size ≤ f.data.size := by
    simp only [offOf, LogFile.size] at hsz; omega
  simp only [hin, if_true]
  apply toL_inj
  rw [toL_extract]
  have hd : (toL f.data).drop (total (List.take i es) + 4) =
      toL es[i].data ++ (enc (es.drop (i + 1)) ++ (toL f.data).drop (total es)) := by
    rw [← List.drop_drop, hrec]
    exact List.drop_left' (by rw [toL_length, be32_size])
  have e2 : total (List.take i es) + 4 + es[i].data.size - (total (List.take i es) + 4) = es[i].data.size := by omega
  rw [hd, e2]
  exact List.take_left' (toL_length _)

/-- `SliceSize` at the offset of slot `i` -/
theorem FileRep.slice_size (r : FileRep p f es) (i : Nat) (h : i < es.length) :
    sliceSize p f (offOf p es i) = 4 + es[i].data.size := by
  have hrec := r.record i h
  have hlt : (es[i]).data.size < 4294967296 := (r.ok _ (List.getElem_mem h)).size_lt
  have hrd : rd32 f.data (total (es.take i)) = some es[i].data.size := by
    apply rd32_of_prefix hlt
    rw [hrec]
    have : (toL (be32 es[i].data.size)).length = 4 := by rw [toL_length, be32_size]
    exact List.take_left' this
  have hoff : ¬ offOf p es i < p.dataOff := by simp [offOf]
  have ho : offOf p es i - p.dataOff = total (es.take i) := by simp [offOf]
  simp only [OG.C17.sliceSize, hoff, if_false, ho, hrd]

/-- `getRaftEntry` on a filled slot -/
theorem FileRep.read_entry (hp : p.WF) (r : FileRep p f es) (i : Nat) (h : i < es.length) :
    getRaftEntry p f i = some es[i] := by
  have hsz := r.offOf_lt_size i h
  have hpos : offOf p es i > 0 := by have := hp.table_fits; simp only [offOf]; omega
  have hlt : ¬ offOf p es i ≥ f.size p := by omega
  simp only [OG.C17.getRaftEntry, r.slots i h, hpos, if_true, hlt, if_false, r.read_slice i h]

/-- `getRaftEntry` on an empty slot: the empty entry -/
theorem FileRep.read_entry_empty (r : FileRep p f es) (i : Nat) (h : es.length ≤ i) :
    ∃ e, getRaftEntry p f i = some e ∧ e.index = 0 := by
  have ⟨h1, h2⟩ := r.empty i h
  refine ⟨⟨(getSlot f i).term, (getSlot f i).index, (getSlot f i).typ, ByteArray.empty⟩, ?_, h1⟩
  simp [OG.C17.getRaftEntry, h2]

theorem FileRep.first_empty (r : FileRep p f es) : firstEmptySlot p f = es.length := by
  apply sortSearch_eq _ _ _ r.lenLe
  · intro k hk
    have := r.slot_index_pos k hk
    simp; omega
  · intro k hk _
    simp [(r.empty k hk).1]

theorem FileRep.firstIndex_nil (r : FileRep p f []) : f.firstIndex = 0 := (r.empty 0 (by simp)).1

theorem FileRep.firstIndex_cons {e : Entry} (r : FileRep p f (e :: es)) : f.firstIndex = e.index := by
  have := r.slots 0 (by simp)
  simp [LogFile.firstIndex, this]

theorem FileRep.filterMap_range (hp : p.WF) (r : FileRep p f es) :
    ∀ n, n ≤ es.length → (List.range n).filterMap (OG.C17.getRaftEntry p f) = es.take n := by
  intro n
  induction n with
  | zero => intro _; simp
  | succ n ih =>
    intro hn
    rw [List.range_succ, List.filterMap_append, ih (by omega), List.take_succ_eq_append_getElem (by omega)]
    simp [r.read_entry hp n (by omega)]

/-- `fileEnts` recovers the list -/
theorem FileRep.file_ents (hp : p.WF) (r : FileRep p f es) : fileEnts p f = es := by
  simp only [OG.C17.fileEnts, r.first_empty, r.filterMap_range hp es.length (Nat.le_refl _), List.take_length]
end

end OG.C17
