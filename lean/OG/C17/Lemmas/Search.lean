/-
C17 — Go's `sort.Search` on a monotone predicate returns the least index where it holds.
-/
import OG.C17.Base

namespace OG.C17

/-- `pr` is monotone on `[0, n)`: once true, true from there on -/
def MonoPred (n : Nat) (pr : Nat → Bool) : Prop := ∀ i j, i ≤ j → j < n → pr i = true → pr j = true

theorem searchLoop_spec (pr : Nat → Bool) (n : Nat) (hm : MonoPred n pr) :
    ∀ fuel i j, i ≤ j → j ≤ n → j - i ≤ fuel →
      (∀ k, k < i → pr k = false) → (∀ k, j ≤ k → k < n → pr k = true) →
      let r := searchLoop pr fuel i j
      i ≤ r ∧ r ≤ j ∧ (∀ k, k < r → pr k = false) ∧ (∀ k, r ≤ k → k < n → pr k = true) := by
  intro fuel
  induction fuel with
  | zero =>
    intro i j hij hjn hf hlo hhi
    have : i = j := by omega
    subst this
    simp only [searchLoop]
    exact ⟨Nat.le_refl _, Nat.le_refl _, hlo, hhi⟩
  | succ fuel ih =>
    intro i j hij hjn hf hlo hhi
    simp only [searchLoop]
    by_cases hlt : i < j
    · simp only [hlt, if_true]
      have hh : i ≤ (i + j) / 2 ∧ (i + j) / 2 < j := by omega
      cases hp : pr ((i + j) / 2) with
      | false =>
        simp only [Bool.not_false, if_true]
        have := ih ((i + j) / 2 + 1) j (by omega) hjn (by omega)
          (by
            intro k hk
            by_cases hk2 : k < i
            · exact hlo k hk2
            · cases hpk : pr k with
              | false => rfl
              | true =>
                have := hm k ((i + j) / 2) (by omega) (by omega) hpk
                rw [hp] at this; exact absurd this (by simp))
          hhi
        exact ⟨by omega, this.2.1, this.2.2.1, this.2.2.2⟩
      | true =>
        simp only [Bool.not_true, Bool.false_eq_true, if_false]
        have := ih i ((i + j) / 2) (by omega) (by omega) (by omega) hlo
          (by
            intro k hk hkn
            exact hm ((i + j) / 2) k hk hkn hp)
        exact ⟨this.1, by omega, this.2.2.1, this.2.2.2⟩
    · simp only [hlt, if_false]
      have : i = j := by omega
      subst this
      exact ⟨Nat.le_refl _, Nat.le_refl _, hlo, hhi⟩

/-- `sort.Search(n, pr)` = the least `i < n` with `pr i`, or `n` -/
theorem sortSearch_spec (n : Nat) (pr : Nat → Bool) (hm : MonoPred n pr) :
    sortSearch n pr ≤ n ∧ (∀ k, k < sortSearch n pr → pr k = false) ∧
      (∀ k, sortSearch n pr ≤ k → k < n → pr k = true) := by
  have := searchLoop_spec pr n hm n 0 n (Nat.zero_le _) (Nat.le_refl _) (by omega)
    (fun k hk => absurd hk (by omega)) (fun k hk hkn => absurd hkn (by omega))
  exact ⟨this.2.1, this.2.2.1, this.2.2.2⟩

/-- characterisation used everywhere: a threshold predicate -/
theorem sortSearch_eq (n m : Nat) (pr : Nat → Bool) (hmn : m ≤ n)
    (hlo : ∀ k, k < m → pr k = false) (hhi : ∀ k, m ≤ k → k < n → pr k = true) : sortSearch n pr = m := by
  have hm : MonoPred n pr := by
    intro i j hij hjn hpi
    by_cases h : i < m
    · rw [hlo i h] at hpi; exact absurd hpi (by simp)
    · exact hhi j (by omega) hjn
  have ⟨h1, h2, h3⟩ := sortSearch_spec n pr hm
  by_cases hlt : sortSearch n pr < m
  · have a := h3 (sortSearch n pr) (Nat.le_refl _) (by omega)
    rw [hlo _ hlt] at a; exact absurd a (by simp)
  · by_cases hgt : m < sortSearch n pr
    · have a := h2 m hgt
      rw [hhi m (Nat.le_refl _) (by omega)] at a; exact absurd a (by simp)
    · omega

end OG.C17
