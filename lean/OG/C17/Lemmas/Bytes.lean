/-
C17 — helper lemmas: byte strings as lists, big-endian length prefix, zeroing of a field.
-/
import OG.C17.Base

namespace OG.C17

/-- the bytes of a `ByteArray` as a list -/
def toL (b : ByteArray) : List UInt8 := b.data.toList

theorem toL_length (b : ByteArray) : (toL b).length = b.size := by
  simp [toL, ← ByteArray.size_data]

theorem toL_inj {a b : ByteArray} (h : toL a = toL b) : a = b := by
  apply ByteArray.ext
  exact Array.toList_inj.mp h

theorem toL_append (a b : ByteArray) : toL (a ++ b) = toL a ++ toL b := by
  simp [toL, ByteArray.data_append]

theorem toL_empty : toL ByteArray.empty = [] := by rfl

theorem toL_extract (d : ByteArray) (a b : Nat) : toL (d.extract a b) = ((toL d).drop a).take (b - a) := by
  simp [toL, ByteArray.data_extract, List.extract_eq_take_drop]

theorem toL_zeros (n : Nat) : toL (zeros n) = List.replicate n 0 := by
  simp [toL, zeros]

theorem zeros_size (n : Nat) : (zeros n).size = n := by
  rw [← toL_length, toL_zeros]; simp

theorem toL_copySlice (src dest : ByteArray) (o : Nat) :
    toL (src.copySlice 0 dest o src.size false) = (toL dest).take o ++ toL src ++ (toL dest).drop (o + src.size) := by
  have h1 : src.data.extract 0 (0 + src.size) = src.data := by
    simp [← ByteArray.size_data]
  simp only [toL, ByteArray.copySlice, h1]
  simp only [Array.toList_append, Array.toList_extract, List.extract_eq_take_drop, ← ByteArray.size_data,
    Nat.sub_zero, List.drop_zero, Nat.sub_self, Nat.min_self, Nat.sub_zero]
  congr 1
  apply List.take_of_length_le
  simp

/-- `pwrite` inside (or at the end of) the file -/
theorem toL_bwrite {d : ByteArray} {o : Nat} (bs : ByteArray) (h : o ≤ d.size) :
    toL (bwrite d o bs) = (toL d).take o ++ toL bs ++ (toL d).drop (o + bs.size) := by
  simp [bwrite, h, toL_copySlice]

theorem toL_btrunc {d : ByteArray} {n : Nat} (h : n ≤ d.size) : toL (btrunc d n) = (toL d).take n := by
  simp [btrunc, h, toL_extract]

theorem bwrite_size_ge {d : ByteArray} {o : Nat} (bs : ByteArray) (h : o ≤ d.size) :
    (bwrite d o bs).size = max d.size (o + bs.size) := by
  rw [← toL_length, toL_bwrite bs h]
  simp only [List.length_append, List.length_take, List.length_drop, toL_length]
  omega

/-! ### the 4-byte big-endian length -/

theorem be32_size (n : Nat) : (be32 n).size = 4 := by
  simp [be32, ByteArray.size]

theorem toL_be32 (n : Nat) : toL (be32 n) =
    [(n / 16777216 % 256).toUInt8, (n / 65536 % 256).toUInt8, (n / 256 % 256).toUInt8, (n % 256).toUInt8] := by
  simp [toL, be32]

theorem byteAt_eq (d : ByteArray) (i : Nat) : byteAt d i = ((toL d)[i]?.getD 0).toNat := by
  have hd : (default : UInt8) = 0 := rfl
  simp [byteAt, ByteArray.get!, toL, Array.getElem!_eq_getD, Array.getD_eq_getD_getElem?, hd]

theorem toUInt8_toNat_of_lt {x : Nat} (h : x < 256) : x.toUInt8.toNat = x := by
  simp [Nat.toUInt8, UInt8.toNat, UInt8.ofNat, BitVec.toNat_ofNat]
  omega

/-- reading back a length written with `be32` -/
theorem rd32_of_prefix {d : ByteArray} {o n : Nat} (hn : n < 4294967296)
    (h : ((toL d).drop o).take 4 = toL (be32 n)) : rd32 d o = some n := by
  have hlen : o + 4 ≤ d.size := by
    have := congrArg List.length h
    simp only [List.length_take, List.length_drop, toL_length, be32_size] at this
    omega
  have hb : ∀ j, j < 4 → (toL d)[o + j]? = (toL (be32 n))[j]? := by
    intro j hj
    have : (((toL d).drop o).take 4)[j]? = (toL (be32 n))[j]? := by rw [h]
    simpa [List.getElem?_take, hj, List.getElem?_drop] using this
  have b0 := hb 0 (by omega)
  have b1 := hb 1 (by omega)
  have b2 := hb 2 (by omega)
  have b3 := hb 3 (by omega)
  simp only [toL_be32, Nat.add_zero] at b0 b1 b2 b3
  simp only [rd32, hlen, if_true, byteAt_eq, b0, b1, b2, b3]
  simp only [List.getElem?_cons_zero, List.getElem?_cons_succ, Option.getD_some]
  rw [toUInt8_toNat_of_lt (by omega), toUInt8_toNat_of_lt (by omega), toUInt8_toNat_of_lt (by omega),
    toUInt8_toNat_of_lt (by omega)]
  congr 1
  omega

/-! ### zeroing a byte range under an 8-byte field -/

theorem keepByte_cov {v q lo hi j w : Nat} (h : lo ≤ q + j ∧ q + j < hi) : keepByte v q lo hi j w = 0 := by
  simp [keepByte, h]

theorem keepByte_dis {v q lo hi j w : Nat} (h : ¬ (lo ≤ q + j ∧ q + j < hi)) : keepByte v q lo hi j w = v / w % 256 * w := by
  simp only [keepByte, h, if_false]

theorem zfb_zero (q lo hi : Nat) : zeroFieldBytes 0 q lo hi = 0 := by
  simp [zeroFieldBytes, keepByte]

theorem zfb_covered (v q lo hi : Nat) (h1 : lo ≤ q) (h2 : q + 8 ≤ hi) : zeroFieldBytes v q lo hi = 0 := by
  simp only [zeroFieldBytes]
  rw [keepByte_cov ⟨by omega, by omega⟩, keepByte_cov ⟨by omega, by omega⟩, keepByte_cov ⟨by omega, by omega⟩,
    keepByte_cov ⟨by omega, by omega⟩, keepByte_cov ⟨by omega, by omega⟩, keepByte_cov ⟨by omega, by omega⟩,
    keepByte_cov ⟨by omega, by omega⟩, keepByte_cov ⟨by omega, by omega⟩]

theorem zfb_disjoint (v q lo hi : Nat) (hv : v < 18446744073709551616) (h : hi ≤ q ∨ q + 8 ≤ lo) :
    zeroFieldBytes v q lo hi = v := by
  simp only [zeroFieldBytes]
  rw [keepByte_dis (by omega), keepByte_dis (by omega), keepByte_dis (by omega), keepByte_dis (by omega),
    keepByte_dis (by omega), keepByte_dis (by omega), keepByte_dis (by omega), keepByte_dis (by omega)]
  omega

end OG.C17
