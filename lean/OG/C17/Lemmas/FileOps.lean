/-
C17 — one entry file: `slotGe`, and what the writes of `AddEntries` / `rotate` do to `FileRep`.
-/
import OG.C17.Lemmas.File

namespace OG.C17
open OG.Gen.C17 (entrySize unit32Size)

theorem entrySize_eq : entrySize = 32 := rfl
theorem unit32Size_eq : unit32Size = 4 := rfl

variable {p : Params} {f : LogFile} {es : List Entry}

/-! ### `logFile.slotGe` -/

theorem FileRep.slotGe_nil (r : FileRep p f []) (idx : Nat) : fileSlotGe p f idx = none := by
  simp [fileSlotGe, r.firstIndex_nil]

theorem FileRep.firstIndex_seq {a : Nat} (r : FileRep p f es) (hs : Seq a es) (hne : es ≠ []) : f.firstIndex = a := by
  cases es with
  | nil => exact absurd rfl hne
  | cons e es => rw [r.firstIndex_cons]; have := hs 0 (by simp); simpa using this

theorem FileRep.a_pos {a : Nat} (r : FileRep p f es) (hs : Seq a es) (hne : es ≠ []) : 1 ≤ a := by
  cases es with
  | nil => exact absurd rfl hne
  | cons e es =>
    have := hs 0 (by simp)
    have h2 := (r.ok e (by simp)).index_pos
    simp at this; omega

theorem FileRep.slotGe_lt {a : Nat} (r : FileRep p f es) (hs : Seq a es) (hne : es ≠ []) (idx : Nat) (h : idx < a) :
    fileSlotGe p f idx = none := by
  simp [fileSlotGe, r.firstIndex_seq hs hne, h]

theorem FileRep.slot_index {a : Nat} (r : FileRep p f es) (hs : Seq a es) (i : Nat) (h : i < es.length) :
    (getSlot f i).index = a + i := by
  rw [r.slots i h]; exact hs i h

theorem FileRep.slotGe_in {a : Nat} (r : FileRep p f es) (hs : Seq a es) (idx : Nat) (h1 : a ≤ idx)
    (h2 : idx < a + es.length) : fileSlotGe p f idx = some (idx - a) := by
  have hne : es ≠ [] := by intro h; subst h; simp at h2; omega
  have ha := r.a_pos hs hne
  have hl := r.lenLe
  have hi := r.slot_index hs (idx - a) (by omega)
  have : ¬ (a = 0 ∨ idx < a) := by omega
  simp only [fileSlotGe, r.firstIndex_seq hs hne, beq_iff_eq, Bool.or_eq_true, decide_eq_true_eq, this, if_false]
  have h3 : idx - a < p.cap := by omega
  have h4 : (getSlot f (idx - a)).index = idx := by omega
  simp [h3, h4]

theorem FileRep.slotGe_gt {a : Nat} (r : FileRep p f es) (hs : Seq a es) (hne : es ≠ []) (idx : Nat)
    (h : a + es.length ≤ idx) : fileSlotGe p f idx = some es.length := by
  have ha := r.a_pos hs hne
  have hl := r.lenLe
  have : ¬ (a = 0 ∨ idx < a) := by omega
  simp only [fileSlotGe, r.firstIndex_seq hs hne, beq_iff_eq, Bool.or_eq_true, decide_eq_true_eq, this, if_false]
  have hfast : ¬ (idx - a < p.cap ∧ (getSlot f (idx - a)).index = idx) := by
    intro ⟨_, h2⟩
    have := (r.empty (idx - a) (by omega)).1
    omega
  simp only [Bool.and_eq_true, decide_eq_true_eq, beq_iff_eq, hfast, if_false]
  congr 1
  apply sortSearch_eq _ _ _ r.lenLe
  · intro k hk
    have := r.slot_index hs k hk
    simp; omega
  · intro k hk _
    simp [(r.empty k hk).1]

/-- `logFile.lastEntry` on a non-empty file -/
theorem FileRep.last_entry (r : FileRep p f es) (hne : es ≠ []) :
    lastEntry p f = getSlot f (es.length - 1) := by
  have : es.length > 0 := List.length_pos_iff.mpr hne
  simp [lastEntry, r.first_empty, this]

/-! ### writes -/

theorem getSlot_setSlot (f : LogFile) (i j : Nat) (s : Slot) (h : i < f.tab.size) :
    getSlot (setSlot f i s) j = if j = i then s else getSlot f j := by
  simp only [getSlot, setSlot, Array.getD_eq_getD_getElem?, Array.getElem?_setIfInBounds]
  by_cases hj : j = i
  · subst hj; simp [h]
  · have : ¬ i = j := fun h => hj h.symm
    simp [hj, this]

theorem offOf_append_le (e : Entry) (i : Nat) (h : i ≤ es.length) : offOf p (es ++ [e]) i = offOf p es i := by
  simp [offOf, List.take_append_of_le_length h]

/-- writing one more entry at the end of the records -/
theorem FileRep.append (r : FileRep p f es) (e : Entry) (he : e.OK) (hlen : es.length < p.cap)
    (hend : p.dataOff + total es + 4 + e.data.size < 18446744073709551616) :
    FileRep p (setSlot (writePayload p f (p.dataOff + total es) e.data) es.length
      ⟨e.term, e.index, e.typ, p.dataOff + total es⟩) (es ++ [e]) := by
  have hts : (writePayload p f (p.dataOff + total es) e.data).tab.size = p.cap := r.tabSize
  have hgs : ∀ j, getSlot (writePayload p f (p.dataOff + total es) e.data) j = getSlot f j := fun _ => rfl
  constructor
  · simp [setSlot, writePayload, r.tabSize]
  · simp; omega
  · intro i hi
    rw [getSlot_setSlot _ _ _ _ (by rw [hts]; exact hlen), hgs]
    by_cases h : i = es.length
    · subst h
      simp [offOf]
    · have hi' : i < es.length := by simp at hi; omega
      simp only [h, if_false, r.slots i hi', List.getElem_append_left hi', offOf_append_le e i (Nat.le_of_lt hi')]
  · intro i hi
    rw [getSlot_setSlot _ _ _ _ (by rw [hts]; exact hlen), hgs]
    have : i ≠ es.length := by simp at hi; omega
    simp only [this, if_false]
    exact r.empty i (by simp at hi; omega)
  · have ho : p.dataOff + total es - p.dataOff = total es := by omega
    simp only [setSlot, writePayload, ho]
    rw [toL_bwrite _ r.data_size_ge, total_append, enc_append, r.data]
    have e1 : total [e] = (toL (be32 e.data.size ++ e.data)).length := by
      rw [toL_length, ByteArray.size_append, be32_size]; simp [total, recLen]
    have e2 : enc [e] = toL (be32 e.data.size ++ e.data) := by simp [enc, toL_append]
    rw [e2, e1]
    have hl : (enc es ++ toL (be32 e.data.size ++ e.data)).length = total es + (toL (be32 e.data.size ++ e.data)).length := by
      simp [enc_length]
    exact List.take_left' hl
  · intro x hx
    rcases List.mem_append.mp hx with h | h
    · exact r.ok x h
    · simp at h; subst h; exact he
  · rw [total_append]
    have : total [e] = 4 + e.data.size := by simp [total, recLen]
    omega

theorem getSlot_data_irrel (f : LogFile) (d : ByteArray) (i : Nat) : getSlot { f with data := d } i = getSlot f i := rfl

/-- `Truncate` to the end of the records (rotation) -/
theorem FileRep.trunc (r : FileRep p f es) : FileRep p { f with data := btrunc f.data (total es) } es := by
  constructor
  · exact r.tabSize
  · exact r.lenLe
  · exact r.slots
  · exact r.empty
  · show (toL (btrunc f.data (total es))).take (total es) = enc es
    rw [toL_btrunc r.data_size_ge, List.take_take, Nat.min_self, r.data]
  · exact r.ok
  · exact r.endLt

theorem FileRep.trunc_size (r : FileRep p f es) : (btrunc f.data (total es)).size = total es := by
  rw [← toL_length, toL_btrunc r.data_size_ge, List.length_take, toL_length]
  have := r.data_size_ge; omega

/-- a freshly created file holds nothing -/
theorem FileRep.new (hp : p.WF) (fid : Nat) : FileRep p (newFile p fid) [] := by
  constructor
  · simp [newFile]
  · simp
  · intro i hi; simp at hi
  · intro i _
    simp [getSlot, newFile, Array.getD_eq_getD_getElem?, Array.getElem?_replicate]
    split <;> simp [Slot.zero]
  · simp [total, enc]
  · intro e he; simp at he
  · have := hp.dataOff_lt; simp [total]; omega

theorem getSlot_writeZeroSlice (r : FileRep p f es) (k n i : Nat) (hi : i < p.cap) :
    getSlot (writeZeroSlice p f k n) i =
      (let lo := entrySize * k + unit32Size
       let hi := lo + n
       let s := getSlot f i
       let q := entrySize * i
       let t := zeroFieldBytes s.term q lo hi
       let t := if i == k then n % 4294967296 * 4294967296 + t % 4294967296 else t
       (⟨t, zeroFieldBytes s.index (q + 8) lo hi, zeroFieldBytes s.typ (q + 16) lo hi,
          zeroFieldBytes s.off (q + 24) lo hi⟩ : Slot)) := by
  have hsz : i < f.tab.size := by rw [r.tabSize]; exact hi
  simp only [getSlot, writeZeroSlice, Array.getD_eq_getD_getElem?]
  rw [Array.getElem?_eq_getElem (by simpa using hsz), Array.getElem?_eq_getElem hsz]
  simp

/-- the zeroing `WriteSlice` of `AddEntries`: slots `k…` become empty, slots before `k` and
the data area are untouched — provided the zero range covers the filled slots from `k` on and
ends at or before `dataOff`. -/
theorem FileRep.zeroSlice (r : FileRep p f es) (k n : Nat) (hk : k ≤ es.length)
    (hcov : 32 * es.length ≤ 32 * k + 4 + n) (hend : 32 * k + 4 + n ≤ p.dataOff) :
    FileRep p (writeZeroSlice p f k n) (es.take k) := by
  have hl := r.lenLe
  constructor
  · simp [writeZeroSlice, r.tabSize]
  · simp; omega
  · intro i hi
    have hik : i < k := by simp at hi; omega
    have hil : i < es.length := by omega
    rw [getSlot_writeZeroSlice r k n i (by omega), r.slots i hil]
    have hok := r.ok _ (List.getElem_mem hil)
    have hoff : offOf p es i < 18446744073709551616 := by
      have := total_take_le es i; have := r.endLt; simp only [offOf]; omega
    have hne : (i == k) = false := by simp; omega
    simp only [entrySize_eq, unit32Size_eq, hne]
    rw [zfb_disjoint _ _ _ _ hok.term_lt (by omega), zfb_disjoint _ _ _ _ hok.index_lt (by omega),
      zfb_disjoint _ _ _ _ hok.typ_lt (by omega), zfb_disjoint _ _ _ _ hoff (by omega)]
    simp [List.getElem_take, offOf, List.take_take, Nat.min_eq_left (Nat.le_of_lt hik)]
  · intro i hi
    have hki : k ≤ i := by simp at hi; omega
    by_cases hic : i < p.cap
    · rw [getSlot_writeZeroSlice r k n i hic]
      simp only [entrySize_eq, unit32Size_eq]
      by_cases hil : i < es.length
      · exact ⟨zfb_covered _ _ _ _ (by omega) (by omega), zfb_covered _ _ _ _ (by omega) (by omega)⟩
      · have ⟨h1, h2⟩ := r.empty i (by omega)
        rw [h1, h2]
        exact ⟨zfb_zero _ _ _, zfb_zero _ _ _⟩
    · have : (writeZeroSlice p f k n).tab.size = p.cap := by simp [writeZeroSlice, r.tabSize]
      simp [getSlot, Array.getD_eq_getD_getElem?, Array.getElem?_eq_none (by omega : (writeZeroSlice p f k n).tab.size ≤ i), Slot.zero]
  · have hnd : ¬ (entrySize * k + unit32Size + n > p.dataOff) := by simp only [entrySize_eq, unit32Size_eq]; omega
    simp only [writeZeroSlice, hnd, if_false]
    have h1 := total_take_le es k
    have : (toL f.data).take (total (es.take k)) = ((toL f.data).take (total es)).take (total (es.take k)) := by
      rw [List.take_take, Nat.min_eq_left h1]
    rw [this, r.data]
    have henc : enc es = enc (es.take k) ++ enc (es.drop k) := by rw [← enc_append, List.take_append_drop]
    rw [henc]
    exact List.take_left' (enc_length _)
  · intro e he; exact r.ok e (List.mem_of_mem_take he)
  · have := total_take_le es k; have := r.endLt; omega

end OG.C17
