/-
C17 — the whole entry log: `LogRep p s a ess ec` ("the rotated files hold the lists `ess`, the
current file holds `ec`, indexes are consecutive from `a`") and the answers of `slotGe`,
`firstIndex`, `lastIndex`, `seekEntry` under it.
-/
import OG.C17.Lemmas.FileOps

namespace OG.C17

/-- number of entries in the first `j` rotated files -/
def pre (ess : List (List Entry)) (j : Nat) : Nat := ((ess.take j).flatten).length

theorem pre_zero (ess : List (List Entry)) : pre ess 0 = 0 := rfl

theorem pre_succ (ess : List (List Entry)) (j : Nat) (h : j < ess.length) : pre ess (j + 1) = pre ess j + ess[j].length := by
  unfold pre
  rw [List.take_succ_eq_append_getElem h, List.flatten_append]
  simp

theorem pre_ge (ess : List (List Entry)) (j : Nat) (h : ess.length ≤ j) : pre ess j = ess.flatten.length := by
  unfold pre
  rw [List.take_of_length_le h]

theorem flatten_take (ess : List (List Entry)) (j : Nat) : (ess.take j).flatten = ess.flatten.take (pre ess j) := by
  have h : ess.flatten = (ess.take j).flatten ++ (ess.drop j).flatten := by
    rw [← List.flatten_append, List.take_append_drop]
  rw [h]
  exact (List.take_left' rfl).symm

theorem flatten_drop (ess : List (List Entry)) (j : Nat) : (ess.drop j).flatten = ess.flatten.drop (pre ess j) := by
  have h : ess.flatten = (ess.take j).flatten ++ (ess.drop j).flatten := by
    rw [← List.flatten_append, List.take_append_drop]
  rw [h]
  exact (List.drop_left' rfl).symm

theorem pre_le_flatten (ess : List (List Entry)) (j : Nat) : pre ess j ≤ ess.flatten.length := by
  have := congrArg List.length (flatten_take ess j)
  simp only [List.length_take] at this
  unfold pre; omega

theorem pre_mono (ess : List (List Entry)) {k j : Nat} (h : k ≤ j) : pre ess k ≤ pre ess j := by
  have : ess.take k = (ess.take j).take k := by rw [List.take_take, Nat.min_eq_left h]
  unfold pre
  rw [this, flatten_take (ess.take j) k]
  simp only [List.length_take]; omega

theorem Seq.left {a : Nat} {xs ys : List Entry} (h : Seq a (xs ++ ys)) : Seq a xs := by
  intro i hi
  have := h i (by simp; omega)
  rwa [List.getElem_append_left hi] at this

theorem Seq.right {a : Nat} {xs ys : List Entry} (h : Seq a (xs ++ ys)) : Seq (a + xs.length) ys := by
  have := h.drop xs.length
  rwa [List.drop_left] at this

theorem Seq.nil (a : Nat) : Seq a [] := by intro i hi; simp at hi

/-- the rotated files `fs` hold the lists `ess`, consecutive indexes from `a` -/
structure Chain (p : Params) (a : Nat) (fs : List LogFile) (ess : List (List Entry)) : Prop where
  len : fs.length = ess.length
  rep : ∀ j (h : j < ess.length), FileRep p (fs.getD j default) ess[j]
  ne : ∀ j (h : j < ess.length), ess[j] ≠ []
  seq : Seq a ess.flatten

section
variable {p : Params} {a : Nat} {fs : List LogFile} {ess : List (List Entry)}

theorem Chain.nil (p : Params) (a : Nat) : Chain p a [] [] :=
  ⟨rfl, fun j h => absurd h (by simp), fun j h => absurd h (by simp), Seq.nil a⟩

theorem Chain.seq_at (c : Chain p a fs ess) (j : Nat) (h : j < ess.length) : Seq (a + pre ess j) ess[j] := by
  have h1 := c.seq.drop (pre ess j)
  rw [← flatten_drop, List.drop_eq_getElem_cons h, List.flatten_cons] at h1
  exact h1.left

theorem Chain.len_pos (c : Chain p a fs ess) (j : Nat) (h : j < ess.length) : 1 ≤ ess[j].length := by
  have := c.ne j h
  exact List.length_pos_iff.mpr this

theorem Chain.firstIndex (c : Chain p a fs ess) (j : Nat) (h : j < ess.length) :
    (fs.getD j default).firstIndex = a + pre ess j :=
  (c.rep j h).firstIndex_seq (c.seq_at j h) (c.ne j h)

theorem Chain.pre_lt (c : Chain p a fs ess) {k j : Nat} (hkj : k < j) (hj : j ≤ ess.length) : pre ess k < pre ess j := by
  have h1 := pre_succ ess k (by omega)
  have h2 := c.len_pos k (by omega)
  have h3 := pre_mono ess (show k + 1 ≤ j by omega)
  omega

/-- which file holds index `idx` -/
theorem Chain.locate (c : Chain p a fs ess) (idx : Nat) (h1 : a ≤ idx) (h2 : idx < a + ess.flatten.length) :
    ∃ j, ∃ (h : j < ess.length), a + pre ess j ≤ idx ∧ idx < a + pre ess j + ess[j].length := by
  -- the largest j with start_j ≤ idx
  have key : ∀ n, n ≤ ess.length → a + pre ess n ≤ idx ∨
      ∃ j, ∃ (h : j < ess.length), a + pre ess j ≤ idx ∧ idx < a + pre ess j + ess[j].length := by
    intro n
    induction n with
    | zero => intro _; left; simp [pre_zero]; exact h1
    | succ n ih =>
      intro hn
      rcases ih (by omega) with h | h
      · by_cases hlt : idx < a + pre ess (n + 1)
        · right
          refine ⟨n, by omega, h, ?_⟩
          rw [pre_succ ess n (by omega)] at hlt; omega
        · left; omega
      · right; exact h
  rcases key ess.length (Nat.le_refl _) with h | h
  · rw [pre_ge ess _ (Nat.le_refl _)] at h; omega
  · exact h

theorem Chain.take (c : Chain p a fs ess) (j : Nat) : Chain p a (fs.take j) (ess.take j) := by
  constructor
  · simp [c.len]
  · intro i hi
    have hi' : i < j ∧ i < ess.length := by simp at hi; omega
    have : (fs.take j).getD i default = fs.getD i default := by
      simp [List.getD_eq_getElem?_getD, List.getElem?_take, hi'.1]
    rw [this, List.getElem_take]
    exact c.rep i hi'.2
  · intro i hi
    rw [List.getElem_take]
    exact c.ne i (by simp at hi; omega)
  · rw [flatten_take]; exact c.seq.take _

theorem Chain.drop (c : Chain p a fs ess) (j : Nat) : Chain p (a + pre ess j) (fs.drop j) (ess.drop j) := by
  constructor
  · simp [c.len]
  · intro i hi
    have hi' : j + i < ess.length := by simp at hi; omega
    have : (fs.drop j).getD i default = fs.getD (j + i) default := by
      simp [List.getD_eq_getElem?_getD, List.getElem?_drop]
    rw [this, List.getElem_drop]
    exact c.rep (j + i) hi'
  · intro i hi
    rw [List.getElem_drop]
    exact c.ne (j + i) (by simp at hi; omega)
  · rw [flatten_drop]; exact c.seq.drop _

theorem Chain.snoc (c : Chain p a fs ess) {f : LogFile} {es : List Entry} (r : FileRep p f es) (hne : es ≠ [])
    (hs : Seq (a + ess.flatten.length) es) : Chain p a (fs ++ [f]) (ess ++ [es]) := by
  constructor
  · simp [c.len]
  · intro i hi
    by_cases h : i < ess.length
    · have : (fs ++ [f]).getD i default = fs.getD i default := by
        simp [List.getD_eq_getElem?_getD, List.getElem?_append_left (by rw [c.len]; exact h)]
      rw [this, List.getElem_append_left h]; exact c.rep i h
    · have hi' : i = ess.length := by simp at hi; omega
      subst hi'
      have : (fs ++ [f]).getD ess.length default = f := by
        simp [List.getD_eq_getElem?_getD, ← c.len]
      rw [this]; simpa using r
  · intro i hi
    by_cases h : i < ess.length
    · rw [List.getElem_append_left h]; exact c.ne i h
    · have hi' : i = ess.length := by simp at hi; omega
      subst hi'; simpa using hne
  · rw [List.flatten_append]; simp only [List.flatten_cons, List.flatten_nil, List.append_nil]
    exact c.seq.append hs
end

/-- representation invariant of the whole store -/
structure LogRep (p : Params) (s : State) (a : Nat) (ess : List (List Entry)) (ec : List Entry) : Prop where
  chain : Chain p a s.files ess
  cur : FileRep p s.current ec
  curSeq : Seq (a + ess.flatten.length) ec
  next_eq : s.next = ec.length
  curNe : ec = [] → ess = []
  fidCur : 1 ≤ s.current.fid
  fids : ∀ f ∈ s.files, 1 ≤ f.fid
  np : s.panicked = false
  mtOK : s.mt.snapIndex = s.mt.snap.index ∧ s.mt.snapTerm = s.mt.snap.term
  aPos : 1 ≤ a

section
variable {p : Params} {s : State} {a : Nat} {ess : List (List Entry)} {ec : List Entry}

/-- start index of the current file -/
def curStart (a : Nat) (ess : List (List Entry)) : Nat := a + ess.flatten.length

theorem LogRep.files_nil_iff (r : LogRep p s a ess ec) : s.files = [] ↔ ess = [] := by
  have := r.chain.len
  constructor
  · intro h
    rw [h] at this
    exact List.eq_nil_of_length_eq_zero this.symm
  · intro h
    rw [h] at this
    exact List.eq_nil_of_length_eq_zero this

theorem LogRep.seqAll (r : LogRep p s a ess ec) : Seq a (ess.flatten ++ ec) := r.chain.seq.append r.curSeq

/-- `entryLog.slotGe` below the first index -/
theorem LogRep.slotGe_below (r : LogRep p s a ess ec) (idx : Nat) (h : idx < a) : (slotGe p s idx).2 = none := by
  have hcur : fileSlotGe p s.current idx = none := by
    by_cases hec : ec = []
    · subst hec; exact r.cur.slotGe_nil idx
    · exact r.cur.slotGe_lt r.curSeq hec idx (by omega)
  simp only [slotGe, hcur]
  by_cases hf : s.files = []
  · simp [hf]
  · have hess : ess ≠ [] := fun h => hf (r.files_nil_iff.mpr h)
    have hlen : 0 < ess.length := List.length_pos_iff.mpr hess
    have hflen : 0 < s.files.length := by rw [r.chain.len]; exact hlen
    have hemp : s.files.isEmpty = false := by simp [hf]
    have hm : sortSearch s.files.length (fun i => decide ((s.files.getD i default).firstIndex ≥ idx)) = 0 := by
      apply sortSearch_eq _ _ _ (Nat.zero_le _)
      · intro k hk; omega
      · intro k _ hk
        have e := r.chain.firstIndex k (by rw [← r.chain.len]; exact hk)
        simp only [e]; simp; omega
    have hf0 := r.chain.firstIndex 0 hlen
    simp only [hemp, hm, hflen]
    have hne : ¬ (s.files.getD 0 default).firstIndex = idx := by rw [hf0, pre_zero]; omega
    simp only [Bool.false_eq_true, if_false, decide_true, Bool.true_and, beq_iff_eq, hne, Nat.lt_irrefl]
    exact (r.chain.rep 0 hlen).slotGe_lt (r.chain.seq_at 0 hlen) (r.chain.ne 0 hlen) idx (by rw [pre_zero]; omega)

/-- `entryLog.slotGe` of an index held by the current file, or beyond the end -/
theorem LogRep.slotGe_cur (r : LogRep p s a ess ec) (hne : ec ≠ []) (idx : Nat) (h : curStart a ess ≤ idx) :
    slotGe p s idx = (none, some (if idx < curStart a ess + ec.length then idx - curStart a ess else ec.length)) := by
  by_cases hin : idx < curStart a ess + ec.length
  · simp only [slotGe, r.cur.slotGe_in r.curSeq idx h hin, if_pos hin]; rfl
  · simp only [slotGe, r.cur.slotGe_gt r.curSeq hne idx (by simp only [curStart] at *; omega), if_neg hin]

/-- `entryLog.slotGe` of an index held by rotated file `j` -/
theorem LogRep.slotGe_rot (r : LogRep p s a ess ec) (idx j : Nat) (hj : j < ess.length)
    (h1 : a + pre ess j ≤ idx) (h2 : idx < a + pre ess j + ess[j].length) :
    slotGe p s idx = (some j, some (idx - (a + pre ess j))) := by
  have hjs : pre ess (j + 1) = pre ess j + ess[j].length := pre_succ ess j hj
  have hle : pre ess (j + 1) ≤ ess.flatten.length := pre_le_flatten ess (j + 1)
  have hcur : fileSlotGe p s.current idx = none := by
    by_cases hec : ec = []
    · subst hec; exact r.cur.slotGe_nil idx
    · exact r.cur.slotGe_lt r.curSeq hec idx (by omega)
  have hf : s.files ≠ [] := by
    intro h; have := r.files_nil_iff.mp h; subst this; simp at hj
  have hemp : s.files.isEmpty = false := by simp [hf]
  have hlen := r.chain.len
  simp only [slotGe, hcur, hemp, Bool.false_eq_true, if_false]
  have hfi : ∀ k, k < ess.length → (s.files.getD k default).firstIndex = a + pre ess k := fun k hk => r.chain.firstIndex k hk
  by_cases heq : idx = a + pre ess j
  · -- exactly the first index of file j
    have hm : sortSearch s.files.length (fun i => decide ((s.files.getD i default).firstIndex ≥ idx)) = j := by
      apply sortSearch_eq _ _ _ (by omega)
      · intro k hk
        have := r.chain.pre_lt hk (by omega)
        have e := hfi k (by omega)
        simp only [e]; simp; omega
      · intro k hk hk2
        have := pre_mono ess hk
        have e := hfi k (by omega)
        simp only [e]; simp; omega
    rw [hm]
    simp only [hlen, hj, decide_true, Bool.true_and, hfi j hj, heq, beq_self_eq_true, if_true, Nat.sub_self]
  · have hm : sortSearch s.files.length (fun i => decide ((s.files.getD i default).firstIndex ≥ idx)) = j + 1 := by
      apply sortSearch_eq _ _ _ (by omega)
      · intro k hk
        have := pre_mono ess (show k ≤ j by omega)
        have e := hfi k (by omega)
        simp only [e]; simp; omega
      · intro k hk hk2
        have := pre_mono ess hk
        have e := hfi k (by omega)
        simp only [e]; simp; omega
    have hnot : ¬ (j + 1 < ess.length ∧ (s.files.getD (j + 1) default).firstIndex = idx) := by
      intro ⟨h3, h4⟩
      rw [hfi (j + 1) h3] at h4; omega
    rw [hm]
    simp only [hlen, Bool.and_eq_true, decide_eq_true_eq, beq_iff_eq, hnot, if_false,
      Nat.add_sub_cancel, Nat.succ_pos, if_true, show j + 1 > 0 by omega]
    rw [(r.chain.rep j hj).slotGe_in (r.chain.seq_at j hj) idx h1 h2]
end

end OG.C17
