/-
C08 — line-protocol driver of the reference evaluator (core only).

  db <nSeries> <s>:<t>:<fb>,<ff>,<fi>,<fs> …                       → ok      (sets the contents)
  q sel <cols> <lo> <hi> <tagf> <ff> <grp> <dir> <limit> <offset> [@ config …]
  q agg <calls> <lo> <hi> <tagf> <ff> <grp> <interval> <fill> <dir> <limit> <offset> [@ config …]
                                                                   → ans <group>{<t>:<v>,<v>;…} …
Everything after `@` (chunk size, parallelism, response chunking, phase) is ignored: the answer
depends on the contents and the statement only.

Canonical form shared with the harness: rows of a selection that share a timestamp come in the
model's order; the rows of a timestamp whose rows are only partly inside the limit / offset
window are printed as `<t>:~` (which of them are returned is not determined by the language);
the time of a lone `min` / `max` whose extreme value occurs at several times is printed as `~`;
a cell of `first(<boolean>)` on which the two tie rules of the code disagree is printed as `~`.
-/
import OG.C08.Model

namespace OG.C08

def parseCol : String → Option Col
  | "fb" => some .fb | "ff" => some .ff | "fi" => some .fi | "fs" => some .fs | _ => none

def parseFn : String → Option Fn
  | "count" => some .count | "sum" => some .sum | "mean" => some .mean | "min" => some .min
  | "max" => some .max | "first" => some .first | "last" => some .last | _ => none

def parseCell (s : String) : Option (Option Int) :=
  if s == "_" then some none else s.toInt?.map some

def parseRow (s : String) : Option Row :=
  match s.splitOn ":" with
  | [a, b, c] => do
    let sn ← a.toNat?
    let t ← b.toInt?
    let cells ← (c.splitOn ",").mapM parseCell
    if cells.length == 4 then some ⟨sn, t, cells⟩ else none
  | _ => none

def parseBound (s : String) : Option (Option Int) :=
  if s == "-" then some none else s.toInt?.map some

def parseGrp : String → Option GroupBy
  | "-" => some .none | "host" => some .host | "zone" => some .zone | _ => none

def parseTagf (s : String) : Option (Option TagFilter) :=
  if s == "-" then some none
  else match s.splitOn ":" with
    | [k, op, v] => do
      let key ← (match k with | "host" => some GroupBy.host | "zone" => some GroupBy.zone | _ => none)
      let eq ← (match op with | "=" => some true | "!=" => some false | _ => none)
      let n ← (v.drop 1).toNat?
      let okPrefix := (key == .host && v.take 1 == "h") || (key == .zone && v.take 1 == "z")
      if okPrefix then some (some ⟨key, eq, n⟩) else none
    | _ => none

def parseFF (s : String) : Option (Option (Col × Cmp × Int)) :=
  if s == "-" then some none
  else match s.splitOn ":" with
    | [c, op, k] => do
      let c ← parseCol c
      let op ← (match op with | ">" => some Cmp.gt | "<=" => some Cmp.le | "=" => some Cmp.eq | _ => none)
      let k ← k.toInt?
      some (some (c, op, k))
    | _ => none

def parseDir : String → Option Bool
  | "asc" => some true | "desc" => some false | _ => none

def parseFill (s : String) : Option Fill :=
  match s with
  | "-" => some .none | "none" => some .none | "null" => some .null | "previous" => some .previous
  | "linear" => some .linear
  | _ => s.toInt?.map Fill.number

def parseCall (s : String) : Option (Fn × Col) :=
  match s.splitOn ":" with
  | [f, c] => do
    let f ← parseFn f
    let c ← parseCol c
    some (f, c)
  | _ => none

def parseQuery : List String → Option Query
  | ["sel", cols, lo, hi, tagf, ff, grp, dir, lim, off] => do
    let cols ← (cols.splitOn "+").mapM parseCol
    let lo ← parseBound lo
    let hi ← parseBound hi
    let tagf ← parseTagf tagf
    let ff ← parseFF ff
    let grp ← parseGrp grp
    let asc ← parseDir dir
    let lim ← lim.toNat?
    let off ← off.toNat?
    some { agg := false, cols, calls := [], lo, hi, tagf, ff, grp, interval := 0, fill := .none, asc, limit := lim, offset := off }
  | ["agg", calls, lo, hi, tagf, ff, grp, iv, fill, dir, lim, off] => do
    let calls ← (calls.splitOn "+").mapM parseCall
    let lo ← parseBound lo
    let hi ← parseBound hi
    let tagf ← parseTagf tagf
    let ff ← parseFF ff
    let grp ← parseGrp grp
    let iv ← iv.toNat?
    let fill ← parseFill fill
    let asc ← parseDir dir
    let lim ← lim.toNat?
    let off ← off.toNat?
    if iv > 0 && (lo.isNone || hi.isNone) then none
    else some { agg := true, cols := [], calls, lo, hi, tagf, ff, grp, interval := iv, fill, asc, limit := lim, offset := off }
  | _ => none

/-! ### printing -/

def showVal : Val → String
  | .null => "_"
  | .int v => toString v
  | .rat n d =>
    let g := Nat.gcd n.natAbs d
    if g == 0 then "!0/0" else toString (n / (g : Int)) ++ "/" ++ toString (d / g)

def showTime : Option Int → String
  | none => "E"
  | some t => toString t

def showRow (r : OutRow) : String :=
  showTime r.t ++ ":" ++ ",".intercalate (r.vals.map showVal)

def showGroupTag (g : GroupBy) (k : Nat) : String :=
  match g with
  | .none => "-"
  | .host => "h" ++ toString k
  | .zone => "z" ++ toString k

/-- timestamps whose rows straddle a boundary of the limit / offset window of a sorted row list. -/
def cutTimes (limit offset : Nat) (rows : List OutRow) : List (Option Int) :=
  let n := rows.length
  let cutAt (p : Nat) : List (Option Int) :=
    if 0 < p && p < n then
      let a := (rows.getD (p - 1) default).t
      let b := (rows.getD p default).t
      if a == b then [a] else []
    else []
  cutAt offset ++ (if limit == 0 then [] else cutAt (offset + limit))

def showRowCut (cut : List (Option Int)) (r : OutRow) : String :=
  if cut.contains r.t then showTime r.t ++ ":~" else showRow r

/-- a statement with a single `min` / `max` call and no buckets reports the time of the selected
point; when the extreme value occurs at several times the language does not say which. -/
def loneExtremeTie (q : Query) (rows : List Row) : Bool :=
  match q.calls with
  | [(f, c)] =>
    if q.agg && q.interval == 0 && (f == .min || f == .max) then
      let ps := pointsOf c rows
      match selectPt f (c == .fb) ps with
      | some p => decide (1 < (ps.filter (fun x => x.2 == p.2)).length)
      | none => false
    else false
  | _ => false

def showRowTie (tie : Bool) (r : OutRow) : String :=
  if tie then "~:" ++ ",".intercalate (r.vals.map showVal) else showRow r

/-- the statement with every `first` of the boolean column computed by the cursor's rule. -/
def cursorRule (q : Query) : Query :=
  { q with calls := q.calls.map (fun (f, c) => if f == .first && c == .fb then (Fn.firstC, c) else (f, c)) }

def hasBoolFirst (q : Query) : Bool := q.agg && q.calls.any (fun (f, c) => f == .first && c == .fb)

/-- a cell on which the executor's rule and the cursor's rule for `first` of a boolean disagree
(values of one timestamp from different series) is printed as `~`, whatever was filled from it
included. -/
def showRowAmb (r m : OutRow) : String :=
  showTime r.t ++ ":" ++ ",".intercalate
    ((r.vals.zip m.vals).map (fun (v, mv) => if v == mv then showVal v else "~"))

/-- canonical answer of a statement. -/
def answer (q : Query) (db : Db) : String :=
  -- statements outside the subset whose answer the executor makes depend on the configuration
  -- (known findings): a fixed marker on both sides, the harness reports the differing answers
  if !q.agg && q.limit == 0 && q.offset != 0 then "ans ?offset-without-limit" else
  if q.agg && q.interval != 0 && q.fill == .linear then "ans ?fill-linear" else
  let rows := db.filter q.keep
  let keys := distinctSorted (rows.map (fun r => groupKey q.grp r.s))
  let keys := if q.asc then keys else keys.reverse
  let groups := keys.filterMap (fun k =>
    let grows := rows.filter (fun r => groupKey q.grp r.s == k)
    let full := if q.agg then q.evalAgg grows else q.evalSel grows
    let cut := if q.agg then [] else cutTimes q.limit q.offset full
    let out := applyLimit q.limit q.offset full
    if out.isEmpty then none
    else if hasBoolFirst q then
      let outC := applyLimit q.limit q.offset ((cursorRule q).evalAgg grows)
      some (showGroupTag q.grp k ++ "{" ++ ";".intercalate ((out.zip outC).map (fun (r, m) => showRowAmb r m)) ++ "}")
    else if loneExtremeTie q grows then
      some (showGroupTag q.grp k ++ "{" ++ ";".intercalate (out.map (showRowTie true)) ++ "}")
    else some (showGroupTag q.grp k ++ "{" ++ ";".intercalate (out.map (showRowCut cut)) ++ "}"))
  if groups.isEmpty then "ans" else "ans " ++ " ".intercalate groups

def stripConfig (ws : List String) : List String := ws.takeWhile (· != "@")

def step (db : Db) (line : String) : Db × String :=
  match (line.splitOn " ").filter (· != "") with
  | "db" :: _n :: rows =>
    match rows.mapM parseRow with
    | some rs => (rs, "ok")
    | none => (db, "bad-op")
  | "q" :: rest =>
    match parseQuery (stripConfig rest) with
    | some q => (db, answer q db)
    | none => (db, "bad-op")
  | _ => (db, "bad-op")

partial def loop (h : IO.FS.Stream) (out : IO.FS.Stream) (db : Db) : IO Unit := do
  let line ← h.getLine
  if line.isEmpty then return
  let line := line.trimRight
  let (db', ans) := step db line
  out.putStrLn ans
  loop h out db'

def main : IO Unit := do
  let stdin ← IO.getStdin
  let stdout ← IO.getStdout
  loop stdin stdout []

end OG.C08
