/-
C08 — property theorems about the streaming operators: every operator that carries state across
chunk boundaries gives, for EVERY way of cutting its input rows into chunks, the answer of the
one-shot function over all rows (this is "every boundary position").
-/
import OG.C08.AggProps
import OG.C08.FillProps
import OG.C08.MergeProps

namespace OG.C08

open OG.C08.Stream

/-! ## stream aggregate -/

/-- **agg_chunk_invariant.** For every associative partial-aggregate merge (sum, count, min,
max, first, last, the (sum, count) pair of mean), every stream of non-empty chunks — i.e. every
partition of the rows into chunks, windows straddling any number of chunk boundaries, null
values anywhere — the stream aggregate (look-ahead `sameInterval`, `prevPoint`, the four
branches of `Iterator.Next`) emits exactly the one-shot aggregate of all rows. -/
theorem agg_chunk_invariant {κ α : Type} [DecidableEq κ] (merge : α → α → α)
    (hm : ∀ a b c, merge (merge a b) c = merge a (merge b c))
    (cs : List (List (κ × Option α))) (hne : ∀ c ∈ cs, c ≠ []) :
    aggStream merge cs = aggAll merge cs.flatten := by
  cases cs with
  | nil => rfl
  | cons c cs =>
    have hc : c ≠ [] := hne c (by simp)
    obtain ⟨x, xs, rfl⟩ := List.exists_cons_of_ne_nil hc
    unfold aggStream
    rw [aggStreamGo_eq merge hm cs (fun c hc => hne c (by simp [hc]))]
    simp [aggAll, combine_none_left]

/-- the statement without the hypothesis that no chunk is empty. -/
def agg_chunk_invariant_full : Prop :=
  ∀ (cs : List (List (Nat × Option Int))),
    aggStream (· + ·) cs = aggAll (· + ·) cs.flatten

/-- it does not hold: `isSameGroup` answers "no" when the next chunk has no rows, so a window
that goes on after an empty chunk is emitted in two pieces. (The chunk producers of the executor
do not send empty chunks; the hypothesis of `agg_chunk_invariant` is that contract.) -/
theorem agg_chunk_invariant_full_fails : ¬ agg_chunk_invariant_full := by
  intro h
  have := h [[(1, some 2)], [], [(1, some 3)]]
  revert this
  decide

/-- non-vacuity: a window over three chunks, a null-only window, a window closed by a chunk end. -/
example :
    aggStream (· + ·) [[(1, some 2), (1, none)], [(1, some 5)], [(1, some 1), (2, none)], [(2, none), (3, some 4)]]
      = [(1, some 8), (2, none), (3, some (4 : Int))] := by decide

example :
    aggAll (· + ·) [(1, some 2), (1, none), (1, some 5), (1, some 1), (2, none), (2, none), (3, some 4)]
      = [(1, some 8), (2, none), (3, some (4 : Int))] := by decide

/-! ## limit / offset -/

theorem limitChunk_not_aborted {ρ : Type} (limit offset : Nat) (rows : List ρ) (count : Nat)
    (h : (limitChunk limit offset count rows).2.2 = false) :
    (limitChunk limit offset count rows).2.1 = count + rows.length := by
  induction rows generalizing count with
  | nil => simp [limitChunk]
  | cons r rs ih =>
    unfold limitChunk at h ⊢
    by_cases hc : count + 1 > offset + limit
    · simp [hc] at h
    · simp only [hc, if_false] at h ⊢
      by_cases ho : count + 1 > offset
      · simp only [ho, if_true] at h ⊢
        rw [ih (count + 1) h]; simp; omega
      · simp only [ho, if_false] at h ⊢
        rw [ih (count + 1) h]; simp; omega

/-- the row function behind the chunked one. -/
def limRows {ρ : Type} (limit offset : Nat) : Nat → List ρ → List ρ
  | _, [] => []
  | count, r :: rs =>
    if count + 1 > offset + limit then []
    else if count + 1 > offset then r :: limRows limit offset (count + 1) rs
    else limRows limit offset (count + 1) rs

theorem limRows_past {ρ : Type} (limit offset : Nat) (rows : List ρ) (count : Nat)
    (h : count ≥ offset + limit) : limRows limit offset count rows = [] := by
  cases rows with
  | nil => rfl
  | cons r rs => simp [limRows]; omega

theorem limitChunk_rows {ρ : Type} (limit offset : Nat) (rows : List ρ) (count : Nat) :
    (limitChunk limit offset count rows).1 = limRows limit offset count rows := by
  induction rows generalizing count with
  | nil => simp [limitChunk, limRows]
  | cons r rs ih =>
    unfold limitChunk limRows
    by_cases hc : count + 1 > offset + limit
    · simp [hc]
    · by_cases ho : count + 1 > offset
      · simp [hc, ho, ih]
      · simp [hc, ho, ih]

theorem limitChunk_aborted {ρ : Type} (limit offset : Nat) (rows : List ρ) (count : Nat)
    (h : (limitChunk limit offset count rows).2.2 = true) :
    count + rows.length > offset + limit := by
  induction rows generalizing count with
  | nil => simp [limitChunk] at h
  | cons r rs ih =>
    unfold limitChunk at h
    by_cases hc : count + 1 > offset + limit
    · simp; omega
    · simp only [hc, if_false] at h
      by_cases ho : count + 1 > offset
      · simp only [ho, if_true] at h
        have := ih (count + 1) h; simp; omega
      · simp only [ho, if_false] at h
        have := ih (count + 1) h; simp; omega

theorem limRows_append {ρ : Type} (limit offset : Nat) (xs ys : List ρ) (count : Nat) :
    limRows limit offset count (xs ++ ys)
      = limRows limit offset count xs ++ limRows limit offset (count + xs.length) ys := by
  induction xs generalizing count with
  | nil => simp [limRows]
  | cons x xs ih =>
    simp only [List.cons_append, limRows]
    by_cases hc : count + 1 > offset + limit
    · simp only [hc, if_true, List.nil_append]
      rw [limRows_past limit offset ys (count + (x :: xs).length) (by simp only [List.length_cons]; omega)]
    · by_cases ho : count + 1 > offset
      · have hl : count + 1 + xs.length = count + (xs.length + 1) := by omega
        simp only [hc, ho, if_true, if_false, ih, List.cons_append, List.length_cons, hl]
      · have hl : count + 1 + xs.length = count + (xs.length + 1) := by omega
        simp only [hc, ho, if_false, ih, List.length_cons, hl]

theorem limitStreamGo_eq {ρ : Type} (limit offset : Nat) (cs : List (List ρ)) (count : Nat) :
    limitStreamGo limit offset count cs = limRows limit offset count cs.flatten := by
  induction cs generalizing count with
  | nil => simp [limitStreamGo, limRows]
  | cons c cs ih =>
    simp only [limitStreamGo, List.flatten_cons]
    rw [limRows_append]
    have h1 := limitChunk_rows limit offset c count
    generalize hr : limitChunk limit offset count c = r at h1
    obtain ⟨out, count', aborted⟩ := r
    simp only at h1
    cases aborted with
    | true =>
      have := limitChunk_aborted limit offset c count (by rw [hr])
      simp only [if_true]
      rw [h1, limRows_past limit offset cs.flatten (count + c.length) (by omega)]
      simp
    | false =>
      have h2 := limitChunk_not_aborted limit offset c count (by rw [hr])
      rw [hr] at h2
      simp only at h2
      simp [h1, h2, ih]

theorem limRows_skip {ρ : Type} (limit offset : Nat) (rows : List ρ) (count : Nat) (h : count ≤ offset) :
    limRows limit offset count rows = limRows limit offset offset (rows.drop (offset - count)) := by
  induction rows generalizing count with
  | nil => simp [limRows]
  | cons r rs ih =>
    by_cases he : count = offset
    · subst he; simp
    · have hlt : count < offset := by omega
      have hd : offset - count = (offset - (count + 1)) + 1 := by omega
      rw [hd, List.drop_succ_cons]
      simp only [limRows]
      have h1 : ¬ count + 1 > offset + limit := by omega
      have h2 : ¬ count + 1 > offset := by omega
      simp only [h1, h2, if_false]
      exact ih (count + 1) (by omega)

theorem limRows_take {ρ : Type} (limit offset : Nat) (rows : List ρ) (count : Nat) (h : count ≥ offset) :
    limRows limit offset count rows = rows.take (offset + limit - count) := by
  induction rows generalizing count with
  | nil => simp [limRows]
  | cons r rs ih =>
    simp only [limRows]
    by_cases hc : count + 1 > offset + limit
    · have : offset + limit - count = 0 := by omega
      simp [hc, this]
    · have ho : count + 1 > offset := by omega
      have hd : offset + limit - count = (offset + limit - (count + 1)) + 1 := by omega
      simp only [hc, ho, if_true, if_false]
      rw [hd, List.take_succ_cons, ih (count + 1) (by omega)]

/-- **limit_chunk_invariant.** For every partition of the rows into chunks (empty chunks
included) the limit operator with its counter carried across chunks, and its abort, passes on
exactly rows `offset+1 … offset+limit` of the whole input. -/
theorem limit_chunk_invariant {ρ : Type} (limit offset : Nat) (cs : List (List ρ)) :
    limitStream limit offset cs = limitAll limit offset cs.flatten := by
  unfold limitStream limitAll
  rw [limitStreamGo_eq, limRows_skip limit offset _ 0 (by omega), limRows_take limit offset _ offset (by omega)]
  simp

example : limitStream 3 2 [[1, 2, 3], [], [4], [5, 6, 7], [8]] = [3, 4, 5] := by decide
example : limitAll 3 2 [1, 2, 3, 4, 5, 6, 7, 8] = [3, 4, 5] := by decide

/-! ## fill -/

/-- **fill_chunk_invariant.** For every fill mode (null, number, previous), every width, every
stream of non-empty chunks of bucket rows: the fill operator — current group, next bucket and
last emitted values carried across chunks, group closed at a chunk end unless the look-ahead
`isSameTag` says it goes on — emits exactly what the one-shot fill of all rows emits. -/
theorem fill_chunk_invariant {γ : Type} [DecidableEq γ] (m : FillMode) (width last : Nat)
    (cs : List (List (BRow γ))) (hne : ∀ c ∈ cs, c ≠ []) :
    fillStream m width last cs = fillAll m width last cs.flatten := by
  unfold fillStream fillAll
  rw [fillStreamGo_eq m width last cs hne none]
  rfl

/-- non-vacuity: a group cut in the middle of a gap, previous values across the cut, a group
that ends exactly at a chunk end. -/
example :
    fillStream FillMode.previous 2 4
        [[⟨1, 1, [some 5, none]⟩], [⟨1, 3, [none, some 2]⟩, ⟨2, 0, [some 1, some 1]⟩], [⟨3, 4, [none, none]⟩]]
      = fillAll FillMode.previous 2 4
        [⟨1, 1, [some 5, none]⟩, ⟨1, 3, [none, some 2]⟩, ⟨2, 0, [some 1, some 1]⟩, (⟨3, 4, [none, none]⟩ : BRow Nat)] := by
  decide

example :
    (fillAll FillMode.previous 2 2 [(⟨1, 1, [some 5, none]⟩ : BRow Nat)])
      = [⟨1, 0, [none, none]⟩, ⟨1, 1, [some 5, none]⟩, ⟨1, 2, [some 5, none]⟩] := by decide

/-! ## k-way ordered merge -/

/-- **merge_perm.** The merge loses and invents nothing: for any number of inputs and any cut
of every input into chunks (empty chunks and empty inputs included) its output is a permutation
of all rows. -/
theorem merge_perm {ρ : Type} (le : ρ → ρ → Bool) (htot : ∀ a b, le a b = true ∨ le b a = true)
    (htrans : ∀ a b c, le a b = true → le b c = true → le a c = true)
    (ins : List (List (List ρ))) :
    (mergeStream le ins).Perm (allRows ins) :=
  mergeGo_perm le htot htrans _ ins (by omega)

/-- **merge_sorted.** If every input is sorted, so is the output. -/
theorem merge_sorted {ρ : Type} (le : ρ → ρ → Bool) (htot : ∀ a b, le a b = true ∨ le b a = true)
    (htrans : ∀ a b c, le a b = true → le b c = true → le a c = true)
    (ins : List (List (List ρ)))
    (hs : ∀ i ∈ ins, i.flatten.Pairwise (fun x y => le x y = true)) :
    (mergeStream le ins).Pairwise (fun x y => le x y = true) :=
  mergeGo_sorted le htot htrans _ ins (by omega) hs

/-- **merge_chunk_invariant.** With an order that tells any two different rows apart
(antisymmetric), the output of the merge depends on the rows only: two sets of sorted inputs
with the same rows — other chunk boundaries, another number of inputs, the rows spread over the
inputs differently — give the same output. -/
theorem merge_chunk_invariant {ρ : Type} (le : ρ → ρ → Bool)
    (htot : ∀ a b, le a b = true ∨ le b a = true)
    (htrans : ∀ a b c, le a b = true → le b c = true → le a c = true)
    (hanti : ∀ a b, le a b = true → le b a = true → a = b)
    (ins ins' : List (List (List ρ)))
    (hs : ∀ i ∈ ins, i.flatten.Pairwise (fun x y => le x y = true))
    (hs' : ∀ i ∈ ins', i.flatten.Pairwise (fun x y => le x y = true))
    (hrows : (allRows ins).Perm (allRows ins')) :
    mergeStream le ins = mergeStream le ins' := by
  apply List.Perm.eq_of_pairwise (le := fun x y => le x y = true)
  · intro a b _ _ h1 h2; exact hanti a b h1 h2
  · exact merge_sorted le htot htrans ins hs
  · exact merge_sorted le htot htrans ins' hs'
  · exact (merge_perm le htot htrans ins).trans (hrows.trans (merge_perm le htot htrans ins').symm)

/-- when the order does not tell two rows apart (equal timestamps of different series, no
further sort column) their order in the output is not determined by the rows: the finding
`equal-timestamps-order` in the model. -/
theorem merge_ties_depend_on_inputs :
    mergeStream (fun (a b : Nat × Nat) => decide (a.1 ≤ b.1)) [[[(1, 10)]], [[(1, 20)]]]
      ≠ mergeStream (fun (a b : Nat × Nat) => decide (a.1 ≤ b.1)) [[[(1, 20)]], [[(1, 10)]]] := by
  decide

example :
    mergeStream (fun (a b : Nat) => decide (a ≤ b)) [[[1, 4], [], [7, 9]], [[2, 3, 8]], [[]], [[5], [6, 10]]]
      = [1, 2, 3, 4, 5, 6, 7, 8, 9, 10] := by decide

example :
    mergeStream (fun (a b : Nat) => decide (a ≤ b)) [[[1], [4], [7], [9]], [[2], [3, 8]], [[5, 6, 10]]]
      = [1, 2, 3, 4, 5, 6, 7, 8, 9, 10] := by decide

end OG.C08
