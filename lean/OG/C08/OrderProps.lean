/-
C08 — the value of a call does not depend on the order in which the points of a bucket are met
(series of different readers, files, chunks arrive in any interleaving).
-/
import OG.C08.EvalProps

namespace OG.C08

/-- boolean columns hold 0 / 1. -/
def BoolOK (isBool : Bool) (ps : List Pt) : Prop := isBool = true → ∀ p ∈ ps, p.2 = 0 ∨ p.2 = 1

theorem better_asymm (f : Fn) (isBool : Bool) (a b : Pt) :
    f.better isBool a b = true → f.better isBool b a = false := by
  cases f <;> cases isBool <;>
    simp [Fn.better, OG.Gen.C08.minTakes, OG.Gen.C08.maxTakes, OG.Gen.C08.firstTakes,
      OG.Gen.C08.lastTakes, OG.Gen.C08.boolFirstTakes, OG.Gen.C08.boolLastTakes] <;> omega

/-- two points neither of which is better are the same point (for the selectors). -/
theorem better_antisymm (f : Fn) (isBool : Bool) (hs : isSelector f = true) (a b : Pt)
    (ha : isBool = true → a.2 = 0 ∨ a.2 = 1) (hb : isBool = true → b.2 = 0 ∨ b.2 = 1) :
    f.better isBool a b = false → f.better isBool b a = false → a = b := by
  intro h1 h2
  apply Prod.ext
  · revert h1 h2 ha hb
    cases f <;> cases isBool <;>
      simp [isSelector, Fn.better, OG.Gen.C08.minTakes, OG.Gen.C08.maxTakes, OG.Gen.C08.firstTakes,
        OG.Gen.C08.lastTakes, OG.Gen.C08.boolFirstTakes, OG.Gen.C08.boolLastTakes] at hs ⊢ <;> omega
  · revert h1 h2 ha hb
    cases f <;> cases isBool <;>
      simp [isSelector, Fn.better, OG.Gen.C08.minTakes, OG.Gen.C08.maxTakes, OG.Gen.C08.firstTakes,
        OG.Gen.C08.lastTakes, OG.Gen.C08.boolFirstTakes, OG.Gen.C08.boolLastTakes] at hs ⊢ <;> omega

theorem pick_comm (f : Fn) (isBool : Bool) (hs : isSelector f = true) (a b : Pt)
    (ha : isBool = true → a.2 = 0 ∨ a.2 = 1) (hb : isBool = true → b.2 = 0 ∨ b.2 = 1) :
    pick f isBool a b = pick f isBool b a := by
  unfold pick
  cases h1 : f.better isBool a b <;> cases h2 : f.better isBool b a
  · simp; exact better_antisymm f isBool hs a b ha hb h1 h2
  · simp
  · simp
  · have := better_asymm f isBool a b h1
    rw [h2] at this; cases this

/-- the selector as a fold from nothing. -/
def selStep (f : Fn) (isBool : Bool) (acc : Option Pt) (p : Pt) : Option Pt :=
  match acc with
  | none => some p
  | some a => some (pick f isBool a p)

theorem selectPt_eq_foldl (f : Fn) (isBool : Bool) (ps : List Pt) :
    selectPt f isBool ps = ps.foldl (selStep f isBool) none := by
  cases ps with
  | nil => rfl
  | cons p ps =>
    simp only [selectPt, List.foldl_cons, selStep]
    generalize p = a
    induction ps generalizing a with
    | nil => rfl
    | cons q qs ih => simp only [List.foldl_cons, selStep]; exact ih _

theorem selectPt_perm (f : Fn) (isBool : Bool) (hs : isSelector f = true) (ps ps' : List Pt)
    (h : ps.Perm ps') (hb : BoolOK isBool ps) :
    selectPt f isBool ps = selectPt f isBool ps' := by
  rw [selectPt_eq_foldl, selectPt_eq_foldl]
  apply h.foldl_eq'
  intro x hx y hy z
  have hxb : isBool = true → x.2 = 0 ∨ x.2 = 1 := fun hbool => hb hbool x hx
  have hyb : isBool = true → y.2 = 0 ∨ y.2 = 1 := fun hbool => hb hbool y hy
  cases z with
  | none => simp only [selStep]; rw [pick_comm f isBool hs x y hxb hyb]
  | some a =>
    simp only [selStep]
    rw [pick_assoc, pick_assoc, pick_comm f isBool hs x y hxb hyb]

theorem sumPts_perm (ps ps' : List Pt) (h : ps.Perm ps') : sumPts ps = sumPts ps' := by
  unfold sumPts
  apply h.foldl_eq'
  intro x _ y _ z
  omega

/-- **applyCall_perm.** The value of every call of the subset over the points of a bucket is the
same for every order of the points (boolean columns holding 0 / 1). -/
theorem applyCall_perm (f : Fn) (c : Col) (ps ps' : List Pt) (h : ps.Perm ps')
    (hb : BoolOK (c == .fb) ps) : applyCall f c ps = applyCall f c ps' := by
  rw [applyCall_eq_finish, applyCall_eq_finish]
  have hn := h.length_eq
  have hsum := sumPts_perm ps ps' h
  by_cases hs : isSelector f = true
  · have hsel := selectPt_perm f (c == .fb) hs ps ps' h hb
    simp [partOf, hn, hsum, hsel]
  · have : Part.finish f (partOf f (c == .fb) ps) = Part.finish f ⟨ps.length, sumPts ps, none⟩ := by
      cases f <;> simp_all [Part.finish, partOf, isSelector]
    have h2 : Part.finish f (partOf f (c == .fb) ps') = Part.finish f ⟨ps'.length, sumPts ps', none⟩ := by
      cases f <;> simp_all [Part.finish, partOf, isSelector]
    rw [this, h2, hn, hsum]

example : applyCall .first .fb [(3, 1), (5, 0), (3, 0)] = applyCall .first .fb [(3, 0), (3, 1), (5, 0)] := by decide

/-! ### the two rules the code has for `first` of a boolean -/

/-- the executor (`BooleanFirstMerge`: false wins) and the tag-set cursor / statistics shortcut
(`UpdateBooleanFirst`, `firstMeta`: true wins, `Fn.firstC`) give the same answer on every bucket. -/
def first_bool_path_independent_full : Prop :=
  ∀ ps : List Pt, applyCall .first .fb ps = applyCall .firstC .fb ps

/-- they do not: two series with the values true and false at the first timestamp of the bucket.
Which rule is applied depends on how the series are spread over readers (finding
`first-bool-ties`; the repair of the cursor's rule is blocked by the repository's own
`TestAggQueryOnlyInImmutable_NoEmpty`). -/
theorem first_bool_path_independent_full_fails : ¬ first_bool_path_independent_full := by
  intro h
  have := h [(3, 1), (3, 0)]
  revert this
  decide

theorem foldl_pick_mem (f : Fn) (isBool : Bool) (ps : List Pt) (p : Pt) :
    ps.foldl (pick f isBool) p ∈ p :: ps := by
  induction ps generalizing p with
  | nil => simp
  | cons q qs ih =>
    simp only [List.foldl_cons]
    have := ih (pick f isBool p q)
    simp only [List.mem_cons] at this ⊢
    unfold pick at this ⊢
    split at this <;> rcases this with h | h <;> simp_all

theorem foldl_pick_congr (ps : List Pt) (p : Pt) (S : List Pt)
    (hS : ∀ a ∈ S, ∀ b ∈ S, Fn.better .first true a b = Fn.better .firstC true a b)
    (hp : p ∈ S) (hps : ∀ x ∈ ps, x ∈ S) :
    ps.foldl (pick .first true) p = ps.foldl (pick .firstC true) p := by
  induction ps generalizing p with
  | nil => rfl
  | cons q qs ih =>
    simp only [List.foldl_cons]
    have hq : q ∈ S := hps q (by simp)
    have e : pick .first true p q = pick .firstC true p q := by
      unfold pick; rw [hS p hp q hq]
    rw [e]
    apply ih
    · unfold pick; split <;> assumption
    · intro x hx; exact hps x (by simp [hx])

/-- **partial**: where no two points of the bucket share a timestamp with different values the
two rules agree. -/
theorem first_bool_path_independent_partial (ps : List Pt)
    (h : ∀ a ∈ ps, ∀ b ∈ ps, a.1 = b.1 → a.2 = b.2) :
    applyCall .first .fb ps = applyCall .firstC .fb ps := by
  have hS : ∀ a ∈ ps, ∀ b ∈ ps, Fn.better .first true a b = Fn.better .firstC true a b := by
    intro a ha b hb
    have := h a ha b hb
    simp only [Fn.better, if_true, OG.Gen.C08.boolFirstTakes, OG.Gen.C08.firstTakes]
    by_cases e : b.1 = a.1
    · have e2 : a.2 = b.2 := this e.symm
      simp [e, e2]
    · have e' : (b.1 == a.1) = false := by simpa using e
      simp [e']
  cases ps with
  | nil => rfl
  | cons p ps =>
    have hsel : selectPt .first true (p :: ps) = selectPt .firstC true (p :: ps) := by
      simp only [selectPt]
      rw [foldl_pick_congr ps p (p :: ps) hS (by simp) (fun x hx => by simp [hx])]
    simp only [applyCall]
    show (match selectPt Fn.first (Col.fb == Col.fb) (p :: ps) with
        | some p => (Val.int p.2, some p.1) | none => (Val.null, none))
      = (match selectPt Fn.firstC (Col.fb == Col.fb) (p :: ps) with
        | some p => (Val.int p.2, some p.1) | none => (Val.null, none))
    have hb : (Col.fb == Col.fb) = true := by decide
    rw [hb, hsel]

example : applyCall .first .fb [(3, 1), (3, 0)] = (.int 0, some 3) := by decide
example : applyCall .firstC .fb [(3, 1), (3, 0)] = (.int 1, some 3) := by decide

end OG.C08
