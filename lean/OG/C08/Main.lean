import OG.C08.Driver
def main : IO Unit := OG.C08.main
