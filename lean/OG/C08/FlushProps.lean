/-
C08 — the answer is the same before and after flushes, compactions, out-of-order merges and a
clean reopen: corollary of C02 (every read of every reachable layout is the read of the
last-write-wins replay), since the reference evaluator is a function of the logical contents.
-/
import OG.C08.Model
import OG.C02.Props

namespace OG.C08

/-- the logical contents as C08 sees them, from what a shard returns for the four fields of the
universe over a time range (a cell that is not an integer code reads as null). -/
def dbOfRead (rows : List (Nat × Int × List (Option String))) : Db :=
  rows.map (fun r => ⟨r.1, r.2.1, r.2.2.map (fun o => o.bind String.toInt?)⟩)

def allFields : List String := ["fb", "ff", "fi", "fs"]

/-- the contents of a layout reached by a sequence of shard operations. -/
def dbOfOps (n : Nat) (ops : List OG.C02.Op) (lo hi : Int) : Db :=
  dbOfRead ((OG.C02.run (OG.C02.St.init n true) ops).read lo hi true allFields)

/-- **flush_compaction_invariant.** Two histories with the same writes in the same order — any
flushes, level / full compactions, out-of-order merges and clean reopens in between, any number
of WAL partitions — hold the same logical contents, so every statement has the same answer. -/
theorem flush_compaction_invariant (n : Nat) (hn : 0 < n) (ops ops' : List OG.C02.Op)
    (hw : OG.C02.allRows ops = OG.C02.allRows ops') (lo hi : Int) (q : Query) :
    eval q (dbOfOps n ops lo hi) = eval q (dbOfOps n ops' lo hi) := by
  unfold dbOfOps
  rw [OG.C02.read_eq_lww n hn ops, OG.C02.read_eq_lww n hn ops', hw]

/-- non-vacuity: a write, a flush, a second write to the same key, a compaction. -/
example :
    OG.C02.allRows [.write [⟨0, 1, [("fi", "5")]⟩], .flush, .write [⟨0, 1, [("fi", "7")]⟩], .compact]
      = OG.C02.allRows [.write [⟨0, 1, [("fi", "5")]⟩], .write [⟨0, 1, [("fi", "7")]⟩]] := by decide

end OG.C08
