/-
C08 — the stream aggregate gives the one-shot answer for every way of cutting the rows into
chunks (helper lemmas + the theorem `agg_chunk_invariant`).
-/
import OG.C08.Stream

namespace OG.C08.Stream

variable {κ α : Type} [DecidableEq κ]

/-! ### `combine` is a monoid operation when `merge` is associative -/

theorem combine_none_left (merge : α → α → α) (v : Option α) : combine merge none v = v := rfl

theorem combine_none_right (merge : α → α → α) (a : Option α) : combine merge a none = a := by
  cases a <;> rfl

theorem combine_assoc (merge : α → α → α) (hm : ∀ a b c, merge (merge a b) c = merge a (merge b c))
    (a b c : Option α) : combine merge (combine merge a b) c = combine merge a (combine merge b c) := by
  cases a <;> cases b <;> cases c <;> simp [combine, hm]

/-! ### the iterator in closed form -/

/-- apply `f` to the value of the first window. -/
def modHead (f : Option α → Option α) : List (κ × Option α) → List (κ × Option α)
  | [] => []
  | x :: xs => (x.1, f x.2) :: xs

def lastVal (l : List (κ × Option α)) : Option α := l.getLast?.bind (·.2)

/-- what a chunk with windows `ivs` emits and keeps. -/
def emitKeep (same : Bool) (ivs : List (κ × Option α)) : List (κ × Option α) × Option α :=
  if same then (ivs.dropLast, lastVal ivs) else (ivs, none)

theorem iterNext_tail (merge : α → α → α) (same : Bool) :
    ∀ rest : List (κ × Option α),
      iterNext merge same true false none rest = emitKeep same rest := by
  intro rest
  induction rest with
  | nil => cases same <;> simp [iterNext, emitKeep, lastVal]
  | cons iv rest ih =>
    obtain ⟨k, v⟩ := iv
    cases rest with
    | nil =>
      cases same <;> cases v <;> simp [iterNext, emitKeep, lastVal]
    | cons iv2 rest2 =>
      have ih' := ih
      cases same <;> cases v <;>
        simp [iterNext, emitKeep, lastVal, List.dropLast, List.getLast?_cons_cons] at ih' ⊢ <;>
        simp [ih', emitKeep, lastVal]

theorem iterNext_first (merge : α → α → α) (same : Bool) (prev : Option α)
    (iv : κ × Option α) (rest : List (κ × Option α)) :
    iterNext merge same (decide (1 < (iv :: rest).length)) true prev (iv :: rest)
      = emitKeep same ((iv.1, combine merge prev iv.2) :: rest) := by
  obtain ⟨k, v⟩ := iv
  cases rest with
  | nil =>
    cases same <;> cases v <;> cases prev <;>
      simp [iterNext, emitKeep, lastVal, combine]
  | cons iv2 rest2 =>
    have ht := iterNext_tail merge same (iv2 :: rest2)
    cases same <;> cases v <;> cases prev <;>
      simp [iterNext, emitKeep, lastVal, combine, List.dropLast, List.getLast?_cons_cons] at ht ⊢ <;>
      simp [ht, emitKeep, lastVal]

/-! ### windows of concatenated row lists -/

/-- the last window of `cur :: xs`. -/
def fuseLast (merge : α → α → α) (cur : κ × Option α) : List (κ × Option α) → κ × Option α
  | [] => cur
  | x :: xs =>
    if x.1 = cur.1 then fuseLast merge (cur.1, combine merge cur.2 x.2) xs else fuseLast merge x xs

/-- all windows of `cur :: xs` but the last. -/
def fuseInit (merge : α → α → α) (cur : κ × Option α) : List (κ × Option α) → List (κ × Option α)
  | [] => []
  | x :: xs =>
    if x.1 = cur.1 then fuseInit merge (cur.1, combine merge cur.2 x.2) xs
    else cur :: fuseInit merge x xs

theorem fuseGo_eq (merge : α → α → α) (xs : List (κ × Option α)) (cur : κ × Option α) :
    fuseGo merge cur xs = fuseInit merge cur xs ++ [fuseLast merge cur xs] := by
  induction xs generalizing cur with
  | nil => simp [fuseGo, fuseInit, fuseLast]
  | cons x xs ih =>
    by_cases h : x.1 = cur.1
    · simp [fuseGo, fuseInit, fuseLast, h, ih]
    · simp [fuseGo, fuseInit, fuseLast, h, ih]

theorem fuseGo_ne_nil (merge : α → α → α) (cur : κ × Option α) (xs : List (κ × Option α)) :
    fuseGo merge cur xs ≠ [] := by
  rw [fuseGo_eq]; simp

/-- the windows of `xs ++ ys`: all but the last window of `xs`, then the windows of `ys` started
from the last window of `xs`. -/
theorem fuseGo_append (merge : α → α → α) (xs ys : List (κ × Option α)) (cur : κ × Option α) :
    fuseGo merge cur (xs ++ ys) = fuseInit merge cur xs ++ fuseGo merge (fuseLast merge cur xs) ys := by
  induction xs generalizing cur with
  | nil => simp [fuseInit, fuseLast]
  | cons x xs ih =>
    by_cases h : x.1 = cur.1
    · simp [fuseGo, fuseInit, fuseLast, h, ih]
    · simp [fuseGo, fuseInit, fuseLast, h, ih]

/-- the key of the last window is the key of the last row. -/
theorem fuseLast_key (merge : α → α → α) (xs : List (κ × Option α)) (cur : κ × Option α) :
    (fuseLast merge cur xs).1 = ((cur :: xs).getLast (by simp)).1 := by
  induction xs generalizing cur with
  | nil => simp [fuseLast]
  | cons x xs ih =>
    by_cases h : x.1 = cur.1
    · simp only [fuseLast, h, if_true]
      rw [ih]
      cases xs with
      | nil => simp [h]
      | cons y ys => simp
    · simp only [fuseLast, h, if_false]
      rw [ih]
      simp

/-- starting a window with a partial result is the same as merging it into the first window. -/
theorem fuseGo_combine (merge : α → α → α)
    (hm : ∀ a b c, merge (merge a b) c = merge a (merge b c))
    (k : κ) (p v : Option α) (xs : List (κ × Option α)) :
    fuseGo merge (k, combine merge p v) xs = modHead (combine merge p) (fuseGo merge (k, v) xs) := by
  induction xs generalizing v with
  | nil => simp [fuseGo, modHead]
  | cons x xs ih =>
    by_cases h : x.1 = k
    · simp only [fuseGo, h, if_true]
      rw [combine_assoc merge hm, ih]
    · simp [fuseGo, h, modHead]

theorem getLast_key_congr (cur x : κ × Option α) (xs : List (κ × Option α)) (h : cur.1 = x.1) :
    ((cur :: xs).getLast (by simp)).1 = ((x :: xs).getLast (by simp)).1 := by
  cases xs with
  | nil => simpa using h
  | cons y ys => simp

theorem emitKeep_fuseGo (merge : α → α → α) (same : Bool) (cur : κ × Option α)
    (xs : List (κ × Option α)) :
    emitKeep same (fuseGo merge cur xs)
      = if same then (fuseInit merge cur xs, (fuseLast merge cur xs).2)
        else (fuseInit merge cur xs ++ [fuseLast merge cur xs], none) := by
  rw [fuseGo_eq]
  cases same <;> simp [emitKeep, lastVal]

/-- one chunk `x :: xs` with pending partial result `p`. -/
theorem aggChunk_eq (merge : α → α → α)
    (hm : ∀ a b c, merge (merge a b) c = merge a (merge b c))
    (p : Option α) (x : κ × Option α) (xs : List (κ × Option α)) (same : Bool) :
    aggChunk merge p (x :: xs) same
      = emitKeep same (fuseGo merge (x.1, combine merge p x.2) xs) := by
  show iterNext merge same (decide (1 < (aggAll merge (x :: xs)).length)) true p (aggAll merge (x :: xs)) = _
  have hagg : aggAll merge (x :: xs) = fuseGo merge x xs := rfl
  generalize hg : aggAll merge (x :: xs) = ivs
  rw [hagg] at hg
  cases ivs with
  | nil => exact absurd hg (fuseGo_ne_nil merge x xs)
  | cons iv rest =>
    rw [iterNext_first]
    have h2 := fuseGo_combine merge hm x.1 p x.2 xs
    have hx : ((x.1, x.2) : κ × Option α) = x := rfl
    rw [hx, hg] at h2
    rw [h2]
    rfl

theorem aggStreamGo_cons (merge : α → α → α) (p : Option α) (c : List (κ × Option α))
    (cs : List (List (κ × Option α))) :
    aggStreamGo merge p (c :: cs)
      = (aggChunk merge p c (sameInterval c cs.head?)).1
        ++ aggStreamGo merge (aggChunk merge p c (sameInterval c cs.head?)).2 cs := rfl

/-- the stream with a pending partial result `p` for the window of the first row. -/
theorem aggStreamGo_eq (merge : α → α → α)
    (hm : ∀ a b c, merge (merge a b) c = merge a (merge b c)) :
    ∀ (cs : List (List (κ × Option α))), (∀ c ∈ cs, c ≠ []) →
      ∀ (p : Option α) (x : κ × Option α) (xs : List (κ × Option α)),
        aggStreamGo merge p ((x :: xs) :: cs)
          = fuseGo merge (x.1, combine merge p x.2) (xs ++ cs.flatten) := by
  intro cs
  induction cs with
  | nil =>
    intro _ p x xs
    rw [aggStreamGo_cons, aggChunk_eq merge hm]
    have hs : sameInterval (x :: xs) ([] : List (List (κ × Option α))).head? = false := by
      unfold sameInterval
      split <;> simp_all
    rw [hs, emitKeep_fuseGo]
    simp [fuseGo_eq, aggStreamGo]
  | cons c2 cs ih =>
    intro hne p x xs
    have hc2 : c2 ≠ [] := hne c2 (by simp)
    have hrest : ∀ c ∈ cs, c ≠ [] := fun c hc => hne c (by simp [hc])
    obtain ⟨y, ys, rfl⟩ := List.exists_cons_of_ne_nil hc2
    rw [aggStreamGo_cons, aggChunk_eq merge hm, emitKeep_fuseGo]
    have hkey : (fuseLast merge (x.1, combine merge p x.2) xs).1 = ((x :: xs).getLast (by simp)).1 := by
      rw [fuseLast_key]
      exact getLast_key_congr _ x xs rfl
    have hsame : sameInterval (x :: xs) (((y :: ys) :: cs).head?)
        = decide (((x :: xs).getLast (by simp)).1 = y.1) := by
      unfold sameInterval
      rw [List.getLast?_eq_some_getLast (by simp)]
      simp
    rw [hsame]
    simp only [List.flatten_cons]
    rw [fuseGo_append merge xs ((y :: ys) ++ cs.flatten)]
    by_cases hk : ((x :: xs).getLast (by simp)).1 = y.1
    · simp only [hk, decide_true, if_true]
      rw [ih hrest]
      have hy : y.1 = (fuseLast merge (x.1, combine merge p x.2) xs).1 := by rw [hkey, hk]
      simp [fuseGo, hy]
    · simp only [hk, decide_false]
      rw [ih hrest]
      have hy : ¬ y.1 = (fuseLast merge (x.1, combine merge p x.2) xs).1 := by
        rw [hkey]; exact fun h => hk h.symm
      simp [fuseGo, hy, combine_none_left]

end OG.C08.Stream
