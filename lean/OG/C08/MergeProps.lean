/-
C08 — the k-way ordered merge: its output is a permutation of all input rows and, for sorted
inputs and a total transitive order, sorted — for any number of inputs and any chunking
(helper lemmas; the theorems are `OG.C08.merge_perm`, `merge_sorted`, `merge_chunk_invariant`).
-/
import OG.C08.Stream

namespace OG.C08.Stream

variable {ρ : Type}

/-- an input whose current chunk has a row. -/
def Normal (i : List (List ρ)) : Prop := ∃ r c cs, i = (r :: c) :: cs

/-! ### normalisation -/

theorem normInput_flatten (i : List (List ρ)) : (normInput i).flatten = i.flatten := by
  induction i with
  | nil => rfl
  | cons c cs ih => cases c with
    | nil => simpa [normInput] using ih
    | cons r c => rfl

theorem normInput_size (i : List (List ρ)) : inputSize (normInput i) ≤ inputSize i := by
  induction i with
  | nil => simp [normInput]
  | cons c cs ih => cases c with
    | nil =>
      simp only [normInput, inputSize, List.length_cons, List.flatten_cons, List.nil_append] at ih ⊢
      omega
    | cons r c => simp [normInput]

theorem normInput_normal (i : List (List ρ)) (h : normInput i ≠ []) : Normal (normInput i) := by
  induction i with
  | nil => simp [normInput] at h
  | cons c cs ih => cases c with
    | nil => simp only [normInput] at h ⊢; exact ih h
    | cons r c => exact ⟨r, c, cs, rfl⟩

theorem normInputs_cons (i : List (List ρ)) (is : List (List (List ρ))) :
    normInputs (i :: is)
      = if (normInput i).isEmpty then normInputs is else normInput i :: normInputs is := by
  simp only [normInputs, List.map_cons, List.filter_cons]
  cases h : (normInput i).isEmpty <;> simp

theorem allRows_cons (i : List (List ρ)) (is : List (List (List ρ))) :
    allRows (i :: is) = i.flatten ++ allRows is := by
  simp [allRows]

theorem totalSize_cons (i : List (List ρ)) (is : List (List (List ρ))) :
    totalSize (i :: is) = inputSize i + totalSize is := by
  simp [totalSize]

theorem normInputs_rows (ins : List (List (List ρ))) : allRows (normInputs ins) = allRows ins := by
  induction ins with
  | nil => rfl
  | cons i is ih =>
    rw [normInputs_cons, allRows_cons]
    by_cases h : (normInput i).isEmpty
    · simp only [h, if_true, ih]
      have : normInput i = [] := List.isEmpty_iff.mp h
      have h2 := normInput_flatten i
      rw [this] at h2
      simp [← h2]
    · simp only [h, Bool.false_eq_true, if_false, allRows_cons, ih, normInput_flatten]

theorem normInputs_size (ins : List (List (List ρ))) : totalSize (normInputs ins) ≤ totalSize ins := by
  induction ins with
  | nil => simp [normInputs]
  | cons i is ih =>
    rw [normInputs_cons, totalSize_cons]
    by_cases h : (normInput i).isEmpty
    · simp only [h, if_true]; omega
    · simp only [h, Bool.false_eq_true, if_false, totalSize_cons]
      have := normInput_size i
      omega

theorem normInputs_normal (ins : List (List (List ρ))) : ∀ i ∈ normInputs ins, Normal i := by
  induction ins with
  | nil => simp [normInputs]
  | cons i is ih =>
    rw [normInputs_cons]
    by_cases h : (normInput i).isEmpty
    · simpa [h] using ih
    · simp only [h, Bool.false_eq_true, if_false, List.mem_cons]
      intro j hj
      rcases hj with rfl | hj
      · exact normInput_normal i (fun e => h (by simp [e]))
      · exact ih j hj

/-- every input left after normalisation has the rows of an input there was. -/
theorem normInputs_from (ins : List (List (List ρ))) :
    ∀ i ∈ normInputs ins, ∃ j ∈ ins, i.flatten = j.flatten := by
  induction ins with
  | nil => simp [normInputs]
  | cons i is ih =>
    rw [normInputs_cons]
    by_cases h : (normInput i).isEmpty
    · simp only [h, if_true]
      intro k hk
      obtain ⟨j, hj, e⟩ := ih k hk
      exact ⟨j, by simp [hj], e⟩
    · simp only [h, Bool.false_eq_true, if_false, List.mem_cons]
      intro k hk
      rcases hk with rfl | hk
      · exact ⟨i, by simp, normInput_flatten i⟩
      · obtain ⟨j, hj, e⟩ := ih k hk
        exact ⟨j, by simp [hj], e⟩

/-! ### `extractMin` -/

theorem extractMin_perm (le : ρ → ρ → Bool) :
    ∀ (ins : List (List (List ρ))) (cur : List (List ρ)) (others : List (List (List ρ))),
      extractMin le ins = some (cur, others) → (cur :: others).Perm ins := by
  intro ins
  induction ins with
  | nil => intro cur others h; simp [extractMin] at h
  | cons i is ih =>
    intro cur others h
    unfold extractMin at h
    cases hm : extractMin le is with
    | none =>
      rw [hm] at h
      simp only [Option.some.injEq, Prod.mk.injEq] at h
      obtain ⟨rfl, rfl⟩ := h
      cases is with
      | nil => exact List.Perm.refl _
      | cons j js =>
        unfold extractMin at hm
        cases h2 : extractMin le js <;> simp [h2] at hm
        split at hm <;> simp at hm
    | some p =>
      obtain ⟨j, rest⟩ := p
      rw [hm] at h
      have hp := ih j rest hm
      by_cases hl : leHead le i j
      · simp only [hl, if_true, Option.some.injEq, Prod.mk.injEq] at h
        obtain ⟨rfl, rfl⟩ := h
        exact List.Perm.cons _ hp
      · simp only [hl, Bool.false_eq_true, if_false, Option.some.injEq, Prod.mk.injEq] at h
        obtain ⟨rfl, rfl⟩ := h
        exact (List.Perm.swap _ _ _).trans (List.Perm.cons _ hp)

theorem extractMin_none (le : ρ → ρ → Bool) (ins : List (List (List ρ))) :
    extractMin le ins = none → ins = [] := by
  cases ins with
  | nil => intro _; rfl
  | cons i is =>
    intro h
    unfold extractMin at h
    cases hm : extractMin le is with
    | none => simp [hm] at h
    | some p =>
      obtain ⟨j, rest⟩ := p
      simp only [hm] at h
      split at h <;> simp at h

theorem headOf_normal (i : List (List ρ)) (h : Normal i) : ∃ a, headOf i = some a := by
  obtain ⟨r, c, cs, rfl⟩ := h
  exact ⟨r, rfl⟩

/-- the popped input has the least current row. -/
theorem extractMin_min (le : ρ → ρ → Bool) (htot : ∀ a b, le a b = true ∨ le b a = true)
    (htrans : ∀ a b c, le a b = true → le b c = true → le a c = true) :
    ∀ (ins : List (List (List ρ))) (cur : List (List ρ)) (others : List (List (List ρ))),
      (∀ i ∈ ins, Normal i) → extractMin le ins = some (cur, others) →
      ∀ a, headOf cur = some a → ∀ j ∈ others, ∀ b, headOf j = some b → le a b = true := by
  intro ins
  induction ins with
  | nil => intro cur others _ h; simp [extractMin] at h
  | cons i is ih =>
    intro cur others hn h a ha j hj b hb
    have hni : Normal i := hn i (by simp)
    have hnis : ∀ k ∈ is, Normal k := fun k hk => hn k (by simp [hk])
    unfold extractMin at h
    cases hm : extractMin le is with
    | none =>
      rw [hm] at h
      simp only [Option.some.injEq, Prod.mk.injEq] at h
      obtain ⟨rfl, rfl⟩ := h
      simp at hj
    | some p =>
      obtain ⟨m, rest⟩ := p
      rw [hm] at h
      have hmin := ih m rest hnis hm
      have hperm := extractMin_perm le is m rest hm
      have hnm : Normal m := hnis m (hperm.subset (by simp))
      obtain ⟨hm0, hhm⟩ := headOf_normal m hnm
      obtain ⟨hi0, hhi⟩ := headOf_normal i hni
      by_cases hl : leHead le i m
      · simp only [hl, if_true, Option.some.injEq, Prod.mk.injEq] at h
        obtain ⟨rfl, rfl⟩ := h
        have him : le a hm0 = true := by
          unfold leHead at hl
          rw [ha, hhm] at hl
          exact hl
        simp only [List.mem_cons] at hj
        rcases hj with rfl | hj
        · rw [hhm] at hb; cases hb; exact him
        · exact htrans _ _ _ him (hmin hm0 hhm j hj b hb)
      · simp only [hl, Bool.false_eq_true, if_false, Option.some.injEq, Prod.mk.injEq] at h
        obtain ⟨rfl, rfl⟩ := h
        have hmi : le a hi0 = true := by
          unfold leHead at hl
          rw [hhi, ha] at hl
          rcases htot a hi0 with h1 | h1
          · exact h1
          · exact absurd h1 (by simpa using hl)
        simp only [List.mem_cons] at hj
        rcases hj with rfl | hj
        · rw [hhi] at hb; cases hb; exact hmi
        · exact hmin a ha j hj b hb

/-! ### `takeRun` -/

theorem takeRun_append (le : ρ → ρ → Bool) (bp : Option ρ) (c : List ρ) :
    (takeRun le bp c).1 ++ (takeRun le bp c).2 = c := by
  induction c with
  | nil => rfl
  | cons r rs ih =>
    cases bp with
    | none => simp [takeRun]
    | some b =>
      by_cases h : le r b
      · simp only [takeRun, h, if_true, List.cons_append]
        rw [ih]
      · simp [takeRun, h]

theorem takeRun_le (le : ρ → ρ → Bool) (b : ρ) (c : List ρ) :
    ∀ a ∈ (takeRun le (some b) c).1, le a b = true := by
  induction c with
  | nil => simp [takeRun]
  | cons r rs ih =>
    by_cases h : le r b
    · simp only [takeRun, h, if_true, List.mem_cons]
      intro a ha
      rcases ha with rfl | ha
      · exact h
      · exact ih a ha
    · simp [takeRun, h]

theorem takeRun_progress (le : ρ → ρ → Bool) (bp : Option ρ) (r : ρ) (c : List ρ)
    (h : ∀ b, bp = some b → le r b = true) : 1 ≤ (takeRun le bp (r :: c)).1.length := by
  cases bp with
  | none => simp [takeRun]
  | some b => simp [takeRun, h b rfl]

/-! ### sizes and rows under a permutation of the inputs -/

theorem totalSize_perm {xs ys : List (List (List ρ))} (h : xs.Perm ys) : totalSize xs = totalSize ys := by
  induction h with
  | nil => rfl
  | cons x _ ih => simp [totalSize_cons, ih]
  | swap x y l => simp [totalSize_cons]; omega
  | trans _ _ ih1 ih2 => exact ih1.trans ih2

theorem allRows_perm {xs ys : List (List (List ρ))} (h : xs.Perm ys) : (allRows xs).Perm (allRows ys) :=
  (h.map List.flatten).flatten

/-- one step: what is emitted and what is left are the rows there were. -/
theorem step_rows (le : ρ → ρ → Bool) (bp : Option ρ) (c : List ρ) (cs : List (List ρ))
    (others : List (List (List ρ))) :
    (takeRun le bp c).1 ++ allRows (((takeRun le bp c).2 :: cs) :: others) = allRows ((c :: cs) :: others) := by
  simp only [allRows_cons, List.flatten_cons, ← List.append_assoc, takeRun_append]

theorem step_size (le : ρ → ρ → Bool) (bp : Option ρ) (c : List ρ) (cs : List (List ρ))
    (others : List (List (List ρ))) (h : 1 ≤ (takeRun le bp c).1.length) :
    totalSize (((takeRun le bp c).2 :: cs) :: others) < totalSize ((c :: cs) :: others) := by
  have e := congrArg List.length (takeRun_append le bp c)
  simp only [List.length_append] at e
  simp only [totalSize_cons, inputSize, List.length_cons, List.flatten_cons, List.length_append]
  omega

/-- unfolding one step of the merge on a state whose popped input is `(r :: c) :: cs`. -/
theorem mergeGo_step (le : ρ → ρ → Bool) (fuel : Nat) (ins : List (List (List ρ)))
    (r : ρ) (c : List ρ) (cs : List (List ρ)) (others : List (List (List ρ)))
    (h : extractMin le (normInputs ins) = some ((r :: c) :: cs, others)) :
    mergeGo le (fuel + 1) ins
      = (takeRun le ((extractMin le others).bind (fun p => headOf p.1)) (r :: c)).1
        ++ mergeGo le fuel (((takeRun le ((extractMin le others).bind (fun p => headOf p.1)) (r :: c)).2 :: cs) :: others) := by
  simp [mergeGo, h]

/-- the break point is not before the current row of the popped input. -/
theorem breakPoint_ge (le : ρ → ρ → Bool) (htot : ∀ a b, le a b = true ∨ le b a = true)
    (htrans : ∀ a b c, le a b = true → le b c = true → le a c = true)
    (ins : List (List (List ρ))) (hn : ∀ i ∈ ins, Normal i)
    (r : ρ) (c : List ρ) (cs : List (List ρ)) (others : List (List (List ρ)))
    (h : extractMin le ins = some ((r :: c) :: cs, others)) :
    ∀ b, (extractMin le others).bind (fun p => headOf p.1) = some b → le r b = true := by
  intro b hb
  cases hm : extractMin le others with
  | none => simp [hm] at hb
  | some p =>
    obtain ⟨m, rest⟩ := p
    simp only [hm, Option.bind_some] at hb
    have hperm := extractMin_perm le others m rest hm
    have hmem : m ∈ others := hperm.subset (by simp)
    exact extractMin_min le htot htrans ins _ others hn h r rfl m hmem b hb

/-- **the output of the merge is a permutation of all rows of all inputs**, whatever the number
of inputs and the chunking. -/
theorem mergeGo_perm (le : ρ → ρ → Bool) (htot : ∀ a b, le a b = true ∨ le b a = true)
    (htrans : ∀ a b c, le a b = true → le b c = true → le a c = true) :
    ∀ (fuel : Nat) (ins : List (List (List ρ))), totalSize ins < fuel →
      (mergeGo le fuel ins).Perm (allRows ins) := by
  intro fuel
  induction fuel with
  | zero => intro ins h; omega
  | succ fuel ih =>
    intro ins hsz
    have hn := normInputs_normal ins
    cases hm : extractMin le (normInputs ins) with
    | none =>
      have he := extractMin_none le _ hm
      have hr := normInputs_rows ins
      rw [he] at hr
      simp only [mergeGo, hm]
      rw [← hr]
      exact List.Perm.refl _
    | some p =>
      obtain ⟨cur, others⟩ := p
      have hperm := extractMin_perm le _ cur others hm
      have hcur : Normal cur := hn cur (hperm.subset (by simp))
      obtain ⟨r, c, cs, rfl⟩ := hcur
      rw [mergeGo_step le fuel ins r c cs others hm]
      have hbp := breakPoint_ge le htot htrans _ hn r c cs others hm
      have hprog := takeRun_progress le _ r c hbp
      have hlt := step_size le _ (r :: c) cs others hprog
      have hsz' : totalSize (((r :: c) :: cs) :: others) ≤ totalSize ins := by
        rw [totalSize_perm hperm]; exact normInputs_size ins
      have hrec := ih (((takeRun le ((extractMin le others).bind (fun p => headOf p.1)) (r :: c)).2 :: cs) :: others) (by omega)
      have hrows := step_rows le ((extractMin le others).bind (fun p => headOf p.1)) (r :: c) cs others
      refine ((List.Perm.refl _).append hrec).trans ?_
      rw [hrows, ← normInputs_rows ins]
      exact allRows_perm hperm

theorem allRows_mem {ins : List (List (List ρ))} {b : ρ} (h : b ∈ allRows ins) :
    ∃ j ∈ ins, b ∈ j.flatten := by
  simp only [allRows, List.mem_flatten, List.mem_map] at h
  obtain ⟨l, ⟨j, hj, rfl⟩, hb⟩ := h
  exact ⟨j, hj, hb⟩

/-- the current row of a sorted input is not after any of its rows. -/
theorem head_le_all (le : ρ → ρ → Bool) (htot : ∀ a b, le a b = true ∨ le b a = true)
    (j : List (List ρ)) (a : ρ) (ha : headOf j = some a)
    (hs : j.flatten.Pairwise (fun x y => le x y = true)) : ∀ b ∈ j.flatten, le a b = true := by
  cases j with
  | nil => simp [headOf] at ha
  | cons c cs =>
    cases c with
    | nil => simp [headOf] at ha
    | cons r c =>
      simp only [headOf, Option.some.injEq] at ha
      subst ha
      simp only [List.flatten_cons, List.cons_append, List.pairwise_cons] at hs
      intro b hb
      simp only [List.flatten_cons, List.cons_append, List.mem_cons] at hb
      rcases hb with rfl | hb
      · rcases htot b b with h | h <;> exact h
      · exact hs.1 b hb

/-- **for sorted inputs (and a total, transitive order) the output of the merge is sorted.** -/
theorem mergeGo_sorted (le : ρ → ρ → Bool) (htot : ∀ a b, le a b = true ∨ le b a = true)
    (htrans : ∀ a b c, le a b = true → le b c = true → le a c = true) :
    ∀ (fuel : Nat) (ins : List (List (List ρ))), totalSize ins < fuel →
      (∀ i ∈ ins, i.flatten.Pairwise (fun x y => le x y = true)) →
      (mergeGo le fuel ins).Pairwise (fun x y => le x y = true) := by
  intro fuel
  induction fuel with
  | zero => intro ins h; omega
  | succ fuel ih =>
    intro ins hsz hsorted
    have hn := normInputs_normal ins
    have hsn : ∀ i ∈ normInputs ins, i.flatten.Pairwise (fun x y => le x y = true) := by
      intro i hi
      obtain ⟨j, hj, e⟩ := normInputs_from ins i hi
      rw [e]; exact hsorted j hj
    cases hm : extractMin le (normInputs ins) with
    | none => simp [mergeGo, hm]
    | some p =>
      obtain ⟨cur, others⟩ := p
      have hperm := extractMin_perm le _ cur others hm
      have hcur : Normal cur := hn cur (hperm.subset (by simp))
      obtain ⟨r, c, cs, rfl⟩ := hcur
      rw [mergeGo_step le fuel ins r c cs others hm]
      have hbp := breakPoint_ge le htot htrans _ hn r c cs others hm
      have hprog := takeRun_progress le _ r c hbp
      have hlt := step_size le _ (r :: c) cs others hprog
      have hsz' : totalSize (((r :: c) :: cs) :: others) ≤ totalSize ins := by
        rw [totalSize_perm hperm]; exact normInputs_size ins
      generalize hbpv : (extractMin le others).bind (fun p => headOf p.1) = bp at hbp hprog hlt ⊢
      have hcs : ((r :: c) :: cs).flatten.Pairwise (fun x y => le x y = true) :=
        hsn _ (hperm.subset (by simp))
      have hos : ∀ j ∈ others, j.flatten.Pairwise (fun x y => le x y = true) :=
        fun j hj => hsn j (hperm.subset (by simp [hj]))
      have hno : ∀ j ∈ others, Normal j := fun j hj => hn j (hperm.subset (by simp [hj]))
      have happ := takeRun_append le bp (r :: c)
      -- the popped input, split at the break point
      have hsplit : ((r :: c) :: cs).flatten
          = (takeRun le bp (r :: c)).1 ++ ((takeRun le bp (r :: c)).2 ++ cs.flatten) := by
        rw [← List.append_assoc, happ]; simp
      rw [hsplit, List.pairwise_append] at hcs
      obtain ⟨hrun, hrest, hcross⟩ := hcs
      -- the new state is sorted, so is the rest of the output
      have hnew : ∀ i ∈ ((takeRun le bp (r :: c)).2 :: cs) :: others,
          i.flatten.Pairwise (fun x y => le x y = true) := by
        intro i hi
        simp only [List.mem_cons] at hi
        rcases hi with rfl | hi
        · simpa using hrest
        · exact hos i hi
      have hrec := ih (((takeRun le bp (r :: c)).2 :: cs) :: others) (by omega) hnew
      have hpermRec := mergeGo_perm le htot htrans fuel (((takeRun le bp (r :: c)).2 :: cs) :: others) (by omega)
      rw [List.pairwise_append]
      refine ⟨hrun, hrec, ?_⟩
      intro a ha b hb
      have hb' := (hpermRec.mem_iff).1 hb
      rw [allRows_cons] at hb'
      simp only [List.mem_append] at hb'
      rcases hb' with hb' | hb'
      · exact hcross a ha b (by simpa using hb')
      · -- a row of another input: not before the break point
        obtain ⟨j, hj, hbj⟩ := allRows_mem hb'
        cases hmo : extractMin le others with
        | none => rw [extractMin_none le _ hmo] at hj; simp at hj
        | some q =>
          obtain ⟨m, rest⟩ := q
          have hpo := extractMin_perm le others m rest hmo
          have hmm : m ∈ others := hpo.subset (by simp)
          obtain ⟨hm0, hhm⟩ := headOf_normal m (hno m hmm)
          have hbpe : bp = some hm0 := by rw [← hbpv, hmo]; simpa using hhm
          have h1 : le a hm0 = true := by
            have := takeRun_le le hm0 (r :: c) a (by rw [← hbpe]; exact ha)
            exact this
          obtain ⟨hj0, hhj⟩ := headOf_normal j (hno j hj)
          have h2 : le hm0 hj0 = true := by
            have hjm : j ∈ m :: rest := hpo.symm.subset hj
            simp only [List.mem_cons] at hjm
            rcases hjm with rfl | hjr
            · rw [hhm] at hhj; cases hhj
              rcases htot hm0 hm0 with h | h <;> exact h
            · exact extractMin_min le htot htrans others m rest hno hmo hm0 hhm j hjr hj0 hhj
          have h3 := head_le_all le htot j hj0 hhj (hos j hj) b hbj
          exact htrans _ _ _ h1 (htrans _ _ _ h2 h3)

end OG.C08.Stream
