import OG.C08.Stream
