/-
C08 — the fill operator gives the one-shot answer for every way of cutting the bucket rows into
chunks (helper lemmas; the theorem is `OG.C08.fill_chunk_invariant`).
-/
import OG.C08.Stream

namespace OG.C08.Stream

variable {γ : Type} [DecidableEq γ]

def closeOpt (m : FillMode) (width last : Nat) : Option (FillSt γ) → List (BRow γ)
  | some s => closeGroup m width last s
  | none => []

theorem fillRows_nil (m : FillMode) (width last : Nat) (st : Option (FillSt γ)) :
    fillRows m width last st [] = ([], st) := rfl

theorem fillRows_cons (m : FillMode) (width last : Nat) (st : Option (FillSt γ)) (r : BRow γ)
    (rs : List (BRow γ)) :
    fillRows m width last st (r :: rs)
      = ((fillRow m width last st r).1 ++ (fillRows m width last (some (fillRow m width last st r).2) rs).1,
         (fillRows m width last (some (fillRow m width last st r).2) rs).2) := by
  simp [fillRows]

theorem fillRows_append (m : FillMode) (width last : Nat) (xs ys : List (BRow γ)) (st : Option (FillSt γ)) :
    fillRows m width last st (xs ++ ys)
      = ((fillRows m width last st xs).1 ++ (fillRows m width last (fillRows m width last st xs).2 ys).1,
         (fillRows m width last (fillRows m width last st xs).2 ys).2) := by
  induction xs generalizing st with
  | nil => simp [fillRows_nil]
  | cons x xs ih =>
    simp only [List.cons_append, fillRows_cons, ih, List.append_assoc]

/-- after a row the state is in the row's group. -/
theorem fillRow_group (m : FillMode) (width last : Nat) (st : Option (FillSt γ)) (r : BRow γ) :
    (fillRow m width last st r).2.g = r.g := by
  unfold fillRow
  cases st with
  | none => rfl
  | some s =>
    by_cases h : s.g = r.g <;> simp [h]

/-- after a non-empty chunk the state is in the group of its last row. -/
theorem fillRows_group (m : FillMode) (width last : Nat) (rs : List (BRow γ)) (st : Option (FillSt γ))
    (r : BRow γ) :
    ∃ s, (fillRows m width last st (r :: rs)).2 = some s ∧ s.g = ((r :: rs).getLast (by simp)).g := by
  induction rs generalizing st r with
  | nil =>
    refine ⟨(fillRow m width last st r).2, ?_, ?_⟩
    · simp [fillRows_cons, fillRows_nil]
    · simpa using fillRow_group m width last st r
  | cons r2 rs ih =>
    obtain ⟨s, hs, hg⟩ := ih (some (fillRow m width last st r).2) r2
    refine ⟨s, ?_, ?_⟩
    · rw [fillRows_cons]; exact hs
    · simpa using hg

/-- a row of another group first closes the group of the state. -/
theorem fillRow_other (m : FillMode) (width last : Nat) (s : FillSt γ) (r : BRow γ) (h : s.g ≠ r.g) :
    fillRow m width last (some s) r
      = (closeGroup m width last s ++ (fillRow m width last none r).1, (fillRow m width last none r).2) := by
  simp [fillRow, h, List.append_assoc]

theorem fillRows_other (m : FillMode) (width last : Nat) (s : FillSt γ) (r : BRow γ)
    (rs : List (BRow γ)) (h : s.g ≠ r.g) :
    fillRows m width last (some s) (r :: rs)
      = (closeGroup m width last s ++ (fillRows m width last none (r :: rs)).1,
         (fillRows m width last none (r :: rs)).2) := by
  rw [fillRows_cons, fillRows_cons, fillRow_other m width last s r h]
  simp [List.append_assoc]

theorem fillStreamGo_cons (m : FillMode) (width last : Nat) (st : Option (FillSt γ))
    (c : List (BRow γ)) (cs : List (List (BRow γ))) :
    fillStreamGo m width last st (c :: cs)
      = if sameTag c cs.head? then
          (fillRows m width last st c).1 ++ fillStreamGo m width last (fillRows m width last st c).2 cs
        else
          (fillRows m width last st c).1 ++ closeOpt m width last (fillRows m width last st c).2
            ++ fillStreamGo m width last none cs := by
  simp only [fillStreamGo, closeOpt]
  split <;> rfl

/-- the stream from any state. -/
theorem fillStreamGo_eq (m : FillMode) (width last : Nat) :
    ∀ (cs : List (List (BRow γ))), (∀ c ∈ cs, c ≠ []) → ∀ (st : Option (FillSt γ)),
      fillStreamGo m width last st cs
        = (fillRows m width last st cs.flatten).1
          ++ closeOpt m width last (fillRows m width last st cs.flatten).2 := by
  intro cs
  induction cs with
  | nil =>
    intro _ st
    cases st <;> simp [fillStreamGo, fillRows_nil, closeOpt]
  | cons c cs ih =>
    intro hne st
    have hc : c ≠ [] := hne c (by simp)
    have hrest : ∀ c ∈ cs, c ≠ [] := fun c hc => hne c (by simp [hc])
    obtain ⟨x, xs, rfl⟩ := List.exists_cons_of_ne_nil hc
    obtain ⟨s1, hs1, hg1⟩ := fillRows_group m width last xs st x
    rw [fillStreamGo_cons, List.flatten_cons, fillRows_append]
    cases cs with
    | nil =>
      have hs : sameTag (x :: xs) ([] : List (List (BRow γ))).head? = false := by
        unfold sameTag
        split <;> simp_all
      rw [hs]
      simp [fillStreamGo, fillRows_nil, closeOpt]
    | cons c2 cs2 =>
      have hc2 : c2 ≠ [] := hrest c2 (by simp)
      obtain ⟨y, ys, rfl⟩ := List.exists_cons_of_ne_nil hc2
      have hsame : sameTag (x :: xs) (((y :: ys) :: cs2).head?)
          = decide (((x :: xs).getLast (by simp)).g = y.g) := by
        unfold sameTag
        rw [List.getLast?_eq_some_getLast (by simp)]
        simp
      rw [hsame]
      by_cases hk : ((x :: xs).getLast (by simp)).g = y.g
      · simp only [hk, decide_true, if_true]
        rw [ih hrest]
        simp [List.append_assoc]
      · simp only [hk, decide_false, Bool.false_eq_true, ↓reduceIte]
        rw [ih hrest, hs1]
        have hne' : s1.g ≠ y.g := by rw [hg1]; exact hk
        simp only [List.flatten_cons, List.cons_append]
        rw [fillRows_other m width last s1 y (ys ++ cs2.flatten) hne']
        simp [closeOpt, List.append_assoc]

end OG.C08.Stream
