/-
C08 — streaming models of the executor operators that carry state across chunk boundaries
(engine/executor): the stream aggregate (agg_transform.go + the per-column iterators of
agg_iterator.go, the same shape as engine/aggregate_cursor.go + series_agg_reducer.gen.go),
the limit (limit_transform.go, SingleRowIgnoreTagLimit), the fill (fill_transform.go) and the
k-way ordered merge (merge_transform.go / sort_merge_transform.go).

A chunk is a list of rows; a stream is a list of chunks. Each operator is given twice: the
chunk-at-a-time function with its carried state (transcribed), and the one-shot function over
all rows. `OG.C08.Props` proves them equal for every way of cutting the rows into chunks.
Core-only, executable.
-/
namespace OG.C08.Stream

/-! ### stream aggregate

A row entering the aggregate carries its window key (tag group and time bucket) and an optional
value. Inside a chunk the rows of one window are adjacent (`IntervalIndex`); the windows of a
chunk are reduced one by one (`fn`, here the fold of `merge` over the values that are not null);
the transform looks one chunk ahead: `sameInterval` = the last window of this chunk goes on in
the next chunk (`isSameGroup`), in which case its partial result is kept in `prevPoint` instead
of being emitted, and merged (`fv`) into the first window of the next chunk.
-/

section agg
variable {κ α : Type} [DecidableEq κ]

/-- `fv(prevPoint, currPoint)` with the null handling of the iterators: a null side is ignored. -/
def combine (merge : α → α → α) : Option α → Option α → Option α
  | none, v => v
  | some p, none => some p
  | some p, some x => some (merge p x)

/-- the windows of a row list: adjacent rows with equal keys are reduced together
(`fuseGo cur rest`: `cur` is the window being built). -/
def fuseGo (merge : α → α → α) (cur : κ × Option α) : List (κ × Option α) → List (κ × Option α)
  | [] => [cur]
  | x :: xs =>
    if x.1 = cur.1 then fuseGo merge (cur.1, combine merge cur.2 x.2) xs
    else cur :: fuseGo merge x xs

/-- one-shot aggregate: one result per window (null when every value of the window is null). -/
def aggAll (merge : α → α → α) : List (κ × Option α) → List (κ × Option α)
  | [] => []
  | x :: xs => fuseGo merge x xs

/-- `IteratorParams.sameInterval` (`StreamAggregateTransform.isSameGroup`): the next chunk exists,
neither chunk is empty, and the next chunk starts in the window this chunk ends in. -/
def sameInterval (c : List (κ × Option α)) (next : Option (List (κ × Option α))) : Bool :=
  match c.getLast?, next with
  | some a, some (b :: _) => decide (a.1 = b.1)
  | _, _ => false

/-- `Iterator.Next` over the reduced windows `ivs` of one chunk (branch for branch:
`processFirstWindow`, `processLastWindow`, `processMiddleWindow`, `AppendNil`). `first` says
whether `ivs` still starts with the first window of the chunk, `multi` whether the chunk has
more than one window. Returns the emitted results and the new `prevPoint`. -/
def iterNext (merge : α → α → α) (same multi : Bool) :
    Bool → Option α → List (κ × Option α) → List (κ × Option α) × Option α
  | _, prev, [] => ([], prev)
  | first, prev, iv :: rest =>
    let last := rest.isEmpty
    let isNil := iv.2.isNone
    if isNil && ((!first && !last) || (!multi && prev.isNone && !same) ||
        (multi && first && prev.isNone) || (multi && last && !same)) then
      -- outColumn.AppendNil()
      let (out, p) := iterNext merge same multi false prev rest
      ((iv.1, none) :: out, p)
    else if first && prev.isSome then
      -- processFirstWindow
      let p := combine merge prev iv.2
      if !multi && same then ([], p)
      else
        let (out, p') := iterNext merge same multi false none rest
        ((iv.1, p) :: out, p')
    else if last && same then
      -- processLastWindow
      ([], iv.2)
    else if !isNil then
      -- processMiddleWindow
      let (out, p) := iterNext merge same multi false prev rest
      ((iv.1, iv.2) :: out, p)
    else
      iterNext merge same multi false prev rest

/-- one chunk through the transform: reduce its windows, run the iterator. -/
def aggChunk (merge : α → α → α) (prev : Option α) (c : List (κ × Option α)) (same : Bool) :
    List (κ × Option α) × Option α :=
  let ivs := aggAll merge c
  iterNext merge same (decide (1 < ivs.length)) true prev ivs

/-- the transform over a stream of chunks (`reduce`: `bufChunk`, `nextChunk`, `compute`). -/
def aggStreamGo (merge : α → α → α) (prev : Option α) : List (List (κ × Option α)) → List (κ × Option α)
  | [] => []
  | c :: cs =>
    let r := aggChunk merge prev c (sameInterval c cs.head?)
    r.1 ++ aggStreamGo merge r.2 cs

def aggStream (merge : α → α → α) (cs : List (List (κ × Option α))) : List (κ × Option α) :=
  aggStreamGo merge none cs

end agg

/-! ### limit / offset (`SingleRowIgnoreTagLimitHelper`)

One counter for the whole statement, carried across chunks; a row is passed on when
`offset < Count ≤ offset + limit`; the first row beyond that aborts the pipeline. -/

section limit
variable {ρ : Type}

/-- the row loop of one chunk: emitted rows, new counter, aborted. -/
def limitChunk (limit offset : Nat) : Nat → List ρ → List ρ × Nat × Bool
  | count, [] => ([], count, false)
  | count, r :: rs =>
    let count := count + 1
    if count > offset + limit then ([], count, true)
    else
      let (out, c, ab) := limitChunk limit offset count rs
      if count > offset then (r :: out, c, ab) else (out, c, ab)

def limitStreamGo (limit offset : Nat) : Nat → List (List ρ) → List ρ
  | _, [] => []
  | count, c :: cs =>
    let (out, count', aborted) := limitChunk limit offset count c
    if aborted then out else out ++ limitStreamGo limit offset count' cs

def limitStream (limit offset : Nat) (cs : List (List ρ)) : List ρ := limitStreamGo limit offset 0 cs

/-- one-shot. -/
def limitAll (limit offset : Nat) (rows : List ρ) : List ρ := (rows.drop offset).take limit

end limit

/-! ### fill (`FillTransform`)

Input rows are the non-empty buckets of the aggregate: group, bucket number, one optional value
per call; the rows of a group are adjacent, their buckets ascend (descend for a descending
statement: the bucket number is then counted from the newest window). The transform emits every
bucket `0 … last` of every group that appears, the missing ones filled; what it carries across
chunks is the group it is in, the next bucket to emit and the last emitted values
(`prevWindow`); it looks one chunk ahead (`isSameTag`) to know whether the group goes on. -/

section fill
variable {γ : Type} [DecidableEq γ]

inductive FillMode where
  | null
  | number (k : Int)
  | previous
deriving DecidableEq, Repr

abbrev Vals := List (Option Int)

/-- a bucket row: group, bucket number, values. -/
structure BRow (γ : Type) where
  g : γ
  b : Nat
  vals : Vals
deriving DecidableEq, Repr

/-- the value put where a cell is null. -/
def fillCell (m : FillMode) (prev : Option Int) : Option Int → Option Int
  | some v => some v
  | none =>
    match m with
    | .null => none
    | .number k => some k
    | .previous => prev

def fillVals (m : FillMode) (prev : Vals) (vals : Vals) : Vals :=
  (vals.zip prev).map (fun (v, p) => fillCell m p v)

/-- the rows of the missing buckets `from … from + n - 1` of group `g`. -/
def gapRows (m : FillMode) (width : Nat) (g : γ) (prev : Vals) : Nat → Nat → List (BRow γ)
  | _, 0 => []
  | b, n + 1 =>
    let v := fillVals m prev (List.replicate width none)
    ⟨g, b, v⟩ :: gapRows m width g v (b + 1) n

/-- the state: group, next bucket, last emitted values. -/
structure FillSt (γ : Type) where
  g : γ
  next : Nat
  prev : Vals

/-- last values after a gap. -/
def afterGap (m : FillMode) (width : Nat) (prev : Vals) (n : Nat) : Vals :=
  if n = 0 then prev else fillVals m prev (List.replicate width none)

/-- close a group: the buckets up to `last`. -/
def closeGroup (m : FillMode) (width last : Nat) (st : FillSt γ) : List (BRow γ) :=
  gapRows m width st.g st.prev st.next (last + 1 - st.next)

/-- one input row. -/
def fillRow (m : FillMode) (width last : Nat) (st : Option (FillSt γ)) (r : BRow γ) :
    List (BRow γ) × FillSt γ :=
  let none0 : Vals := List.replicate width none
  match st with
  | some s =>
    if s.g = r.g then
      let gap := gapRows m width r.g s.prev s.next (r.b - s.next)
      let p := afterGap m width s.prev (r.b - s.next)
      let v := fillVals m p r.vals
      (gap ++ [⟨r.g, r.b, v⟩], ⟨r.g, r.b + 1, v⟩)
    else
      let gap := gapRows m width r.g none0 0 r.b
      let p := afterGap m width none0 r.b
      let v := fillVals m p r.vals
      (closeGroup m width last s ++ gap ++ [⟨r.g, r.b, v⟩], ⟨r.g, r.b + 1, v⟩)
  | none =>
    let gap := gapRows m width r.g none0 0 r.b
    let p := afterGap m width none0 r.b
    let v := fillVals m p r.vals
    (gap ++ [⟨r.g, r.b, v⟩], ⟨r.g, r.b + 1, v⟩)

def fillRows (m : FillMode) (width last : Nat) : Option (FillSt γ) → List (BRow γ) → List (BRow γ) × Option (FillSt γ)
  | st, [] => ([], st)
  | st, r :: rs =>
    let (o1, s1) := fillRow m width last st r
    let (o2, s2) := fillRows m width last (some s1) rs
    (o1 ++ o2, s2)

/-- one-shot: all rows, then the last group is closed. -/
def fillAll (m : FillMode) (width last : Nat) (rows : List (BRow γ)) : List (BRow γ) :=
  let (out, st) := fillRows m width last none rows
  out ++ (match st with | some s => closeGroup m width last s | none => [])

/-- `isSameTag`: the next chunk starts in the group this chunk ends in. -/
def sameTag (c : List (BRow γ)) (next : Option (List (BRow γ))) : Bool :=
  match c.getLast?, next with
  | some a, some (b :: _) => decide (a.g = b.g)
  | _, _ => false

/-- the transform over a stream: at the end of a chunk the group is closed unless the next chunk
goes on with it. -/
def fillStreamGo (m : FillMode) (width last : Nat) : Option (FillSt γ) → List (List (BRow γ)) → List (BRow γ)
  | st, [] => (match st with | some s => closeGroup m width last s | none => [])
  | st, c :: cs =>
    let (out, st') := fillRows m width last st c
    if sameTag c cs.head? then out ++ fillStreamGo m width last st' cs
    else
      out ++ (match st' with | some s => closeGroup m width last s | none => [])
        ++ fillStreamGo m width last none cs

def fillStream (m : FillMode) (width last : Nat) (cs : List (List (BRow γ))) : List (BRow γ) :=
  fillStreamGo m width last none cs

end fill

/-! ### k-way ordered merge (`MergeTransform.Merge`)

Every input is a stream of chunks. The transform keeps the current chunk of every input in a
heap ordered by the chunk's current row; it pops the least, looks at the new top (the break
point) and passes on the rows of the popped chunk that do not come after the break point
(`updateWithBreakPoint`), or the whole rest of the chunk when no other input is left
(`UpdateWithSingleChunk`); a chunk that is used up is replaced by the next chunk of its input. -/

section merge
variable {ρ : Type}

/-- drop used-up chunks of an input. -/
def normInput : List (List ρ) → List (List ρ)
  | [] => []
  | [] :: cs => normInput cs
  | (r :: c) :: cs => (r :: c) :: cs

/-- drop used-up chunks and inputs: every input left starts with a chunk that has a row
(`AppendToHeap` pushes only chunks with rows; a finished input leaves the heap). -/
def normInputs (ins : List (List (List ρ))) : List (List (List ρ)) :=
  (ins.map normInput).filter (fun i => !i.isEmpty)

/-- the current row of an input (`Item.ChunkBuf` at `Item.Index`). -/
def headOf : List (List ρ) → Option ρ
  | (r :: _) :: _ => some r
  | _ => none

/-- heap order on inputs by their current rows. -/
def leHead (le : ρ → ρ → Bool) (i j : List (List ρ)) : Bool :=
  match headOf i, headOf j with
  | some a, some b => le a b
  | some _, none => true
  | none, _ => false

/-- `heap.Pop`: the input with the least current row and the others. -/
def extractMin (le : ρ → ρ → Bool) :
    List (List (List ρ)) → Option (List (List ρ) × List (List (List ρ)))
  | [] => none
  | i :: is =>
    match extractMin le is with
    | none => some (i, [])
    | some (j, rest) => if leHead le i j then some (i, j :: rest) else some (j, i :: rest)

/-- the rows of the current chunk that do not come after the break point
(`updateWithBreakPoint`; all of them when no other input is left: `UpdateWithSingleChunk`). -/
def takeRun (le : ρ → ρ → Bool) (bp : Option ρ) : List ρ → List ρ × List ρ
  | [] => ([], [])
  | r :: rs =>
    match bp with
    | none => (r :: rs, [])
    | some b =>
      if le r b then ((takeRun le bp rs).1.cons r, (takeRun le bp rs).2)
      else ([], r :: rs)

def mergeGo (le : ρ → ρ → Bool) : Nat → List (List (List ρ)) → List ρ
  | 0, _ => []
  | fuel + 1, ins =>
    match extractMin le (normInputs ins) with
    | none => []
    | some (cur, others) =>
      match cur with
      | c :: cs =>
        let bp := (extractMin le others).bind (fun p => headOf p.1)
        (takeRun le bp c).1 ++ mergeGo le fuel (((takeRun le bp c).2 :: cs) :: others)
      | [] => []

/-- rows plus chunks: what every step of the merge makes smaller. -/
def inputSize (i : List (List ρ)) : Nat := i.length + i.flatten.length

def totalSize (ins : List (List (List ρ))) : Nat := (ins.map inputSize).sum

def mergeStream (le : ρ → ρ → Bool) (ins : List (List (List ρ))) : List ρ :=
  mergeGo le (totalSize ins + 1) ins

/-- all rows of all inputs. -/
def allRows (ins : List (List (List ρ))) : List ρ := (ins.map List.flatten).flatten

end merge

end OG.C08.Stream
