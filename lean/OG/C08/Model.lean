/-
C08 — reference evaluator of the supported subset of InfluxQL over the logical contents of a
measurement (what C02 proves every layout reads as): plain selections with time / tag / field
filters; count / sum / mean / min / max / first / last overall, per tag group and per
epoch-aligned time bucket; fill none / null / previous / number; limit / offset; ascending and
descending order.

The semantics are the ones the executor implements (engine/executor):
* a row is returned when one of the selected fields has a value, or the statement has a field
  filter (the filter column is then part of the row and has a value);
* rows of a group are ordered by time, rows with equal time (different series) by the selected
  columns in name order, null first (`SortedHeapItems.Less`); a descending statement uses the
  reversed order;
* `first` / `last` take the smallest / largest time; among equal times the larger value wins
  (`FirstMerge`, `LastMerge`), for `first` of a boolean the smaller (`BooleanFirstMerge`; the
  tag-set cursor and the statistics shortcut keep the larger one: `Fn.firstC`, finding
  first-bool-ties - the driver prints a cell on which the two rules disagree as `~`);
  `min` / `max` take the earliest point among equal values (`MinMerge`, `MaxMerge`);
* buckets are `[k*w, (k+1)*w)` in epoch time; an aggregate statement with buckets returns every
  bucket from the one holding the lower bound to the one holding the upper bound for each group
  whose calls have a value somewhere in range; `count` of an empty bucket is 0 under fill(null)
  (`NewNullFillProcessor`), null under fill(previous) until a bucket has a value;
  fill(previous) takes the value of the previous bucket *in output order*;
* groups are ordered by tag value, reversed in a descending statement; limit / offset apply to
  the rows of each group after fill.
Integers are exact; a float is carried as an integer code (value * 8: the generated floats are
dyadic, every sum is exact); a mean is the pair (sum, count).
Core-only, executable.
-/
import OG.Generated.C08

namespace OG.C08

/-- epoch second of relative time 0 (engx.BaseTime). -/
def baseSec : Int := 1700000000

inductive Col where
  | fb | ff | fi | fs
deriving DecidableEq, Repr, Inhabited

def Col.idx : Col → Nat
  | .fb => 0 | .ff => 1 | .fi => 2 | .fs => 3

/-- one logical row: series index, relative second, the four cells in column order. -/
structure Row where
  s : Nat
  t : Int
  cs : List (Option Int)
deriving DecidableEq, Repr, Inhabited

abbrev Db := List Row

def Row.cell (r : Row) (c : Col) : Option Int := (r.cs.getD c.idx none)

inductive Fn where
  | count | sum | mean | min | max | first | last
  /-- `first` as the tag-set cursor (`record.UpdateBooleanFirst`) and the statistics shortcut
  (`immutable.firstMeta`) compute it: among equal times the larger value wins, for a boolean
  too. Not a function of the language: the second rule the code has for `first` of a boolean,
  used by the driver to tell which answers depend on the path (finding `first-bool-ties`). -/
  | firstC
deriving DecidableEq, Repr, Inhabited

inductive GroupBy where
  | none | host | zone
deriving DecidableEq, Repr, Inhabited

inductive Fill where
  | none | null | previous | number (k : Int)
  /-- fill(linear): parsed, not given a semantics here (every bucket is returned, nothing is
  interpolated); the driver answers such statements with a fixed marker - the executor's answer
  depends on the chunk size (finding fill-linear). -/
  | linear
deriving DecidableEq, Repr, Inhabited

inductive Cmp where
  | gt | le | eq
deriving DecidableEq, Repr, Inhabited

structure TagFilter where
  key : GroupBy      -- host or zone
  eq : Bool          -- `=` or `!=`
  val : Nat          -- h<val> / z<val>
deriving DecidableEq, Repr, Inhabited

structure Query where
  agg : Bool
  cols : List Col
  calls : List (Fn × Col)
  lo : Option Int
  hi : Option Int
  tagf : Option TagFilter
  ff : Option (Col × Cmp × Int)
  grp : GroupBy
  interval : Nat
  fill : Fill
  asc : Bool
  limit : Nat
  offset : Nat
deriving Repr, Inhabited

inductive Val where
  | null
  | int (v : Int)
  | rat (n : Int) (d : Nat)     -- mean: sum / count (not reduced)
deriving DecidableEq, Repr, Inhabited

/-- an answer row: time (`none` = the epoch, an aggregate without a time of its own). -/
structure OutRow where
  t : Option Int
  vals : List Val
deriving DecidableEq, Repr, Inhabited

/-- groups in output order: tag value index, rows. -/
abbrev Result := List (Nat × List OutRow)

/-! ### filters and groups -/

def groupKey : GroupBy → Nat → Nat
  | .none, _ => 0
  | .host, s => s
  | .zone, s => s % 2

def Cmp.holds : Cmp → Int → Int → Bool
  | .gt, v, k => decide (v > k)
  | .le, v, k => decide (v ≤ k)
  | .eq, v, k => decide (v = k)

def Query.keep (q : Query) (r : Row) : Bool :=
  (match q.lo with | some lo => decide (lo ≤ r.t) | none => true) &&
  (match q.hi with | some hi => decide (r.t ≤ hi) | none => true) &&
  (match q.tagf with
   | some f => (groupKey f.key r.s == f.val) == f.eq
   | none => true) &&
  (match q.ff with
   | some (c, op, k) => (match r.cell c with | some v => op.holds v k | none => false)
   | none => true)

/-- insertion into a list sorted by `le` (stable: after the elements that are `le`). -/
def insertBy {α : Type} (le : α → α → Bool) (x : α) : List α → List α
  | [] => [x]
  | y :: ys => if le y x then y :: insertBy le x ys else x :: y :: ys

def sortBy {α : Type} (le : α → α → Bool) (xs : List α) : List α := xs.foldr (insertBy le) []

/-- insertion into a strictly increasing list of naturals (duplicates dropped). -/
def insertNat (x : Nat) : List Nat → List Nat
  | [] => [x]
  | y :: ys => if x < y then x :: y :: ys else if x = y then y :: ys else y :: insertNat x ys

def distinctSorted (xs : List Nat) : List Nat := xs.foldr insertNat []

/-! ### selections -/

/-- order of two cells of one column: null first, then by value. -/
def cellLe : Option Int → Option Int → Bool
  | none, _ => true
  | some _, none => false
  | some a, some b => decide (a ≤ b)

def cellLt (a b : Option Int) : Bool := !cellLe b a

/-- lexicographic order on cell lists. -/
def cellsLe : List (Option Int) → List (Option Int) → Bool
  | [], _ => true
  | _ :: _, [] => false
  | a :: as, b :: bs => cellLt a b || (!cellLt b a && cellsLe as bs)

/-- the selected columns in name order (= column order). -/
def colsByName (cols : List Col) : List Col :=
  [Col.fb, Col.ff, Col.fi, Col.fs].filter (fun c => cols.contains c)

/-- sort key of a row of a selection: time, then the selected columns in name order. -/
def selKey (cols : List Col) (r : Row) : Int × List (Option Int) :=
  (r.t, (colsByName cols).map r.cell)

def selLe (asc : Bool) (a b : Int × List (Option Int)) : Bool :=
  if asc then
    (decide (a.1 < b.1)) || (a.1 == b.1 && cellsLe a.2 b.2)
  else
    (decide (b.1 < a.1)) || (a.1 == b.1 && cellsLe b.2 a.2)

def optToVal : Option Int → Val
  | none => .null
  | some v => .int v

def Query.selRow (q : Query) (r : Row) : OutRow := ⟨some r.t, q.cols.map (fun c => optToVal (r.cell c))⟩

def Query.selKeeps (q : Query) (r : Row) : Bool :=
  q.ff.isSome || q.cols.any (fun c => (r.cell c).isSome)

/-- rows of one group of a selection, in the statement's order: the answer rows, each with its
sort key, are sorted (rows with equal keys are equal answer rows). -/
def Query.evalSelA (q : Query) (asc : Bool) (rows : List Row) : List OutRow :=
  let kept := rows.filter q.selKeeps
  (sortBy (fun a b => selLe asc a.1 b.1) (kept.map (fun r => (selKey q.cols r, q.selRow r)))).map (·.2)

def Query.evalSel (q : Query) (rows : List Row) : List OutRow := q.evalSelA q.asc rows

/-! ### aggregates -/

/-- a point (time, value) of a column. -/
abbrev Pt := Int × Int

def pointsOf (c : Col) (rows : List Row) : List Pt :=
  rows.filterMap (fun r => (r.cell c).map (fun v => (r.t, v)))

/-- `b` replaces the current choice `a`: the tie rules are the ones regenerated from
`FirstMerge`, `LastMerge`, `MinMerge`, `MaxMerge`, `BooleanFirstMerge`, `BooleanLastMerge`
(OG.Gen.C08, translated by ogfacts from engine/executor/agg_func.go). -/
def Fn.better (f : Fn) (isBool : Bool) (a b : Pt) : Bool :=
  match f with
  | .min => OG.Gen.C08.minTakes false a.1 b.1 a.2 b.2
  | .max => OG.Gen.C08.maxTakes false a.1 b.1 a.2 b.2
  | .first =>
    if isBool then OG.Gen.C08.boolFirstTakes false a.1 b.1 (a.2 != 0) (b.2 != 0)
    else OG.Gen.C08.firstTakes false a.1 b.1 a.2 b.2
  | .last =>
    if isBool then OG.Gen.C08.boolLastTakes false a.1 b.1 (a.2 != 0) (b.2 != 0)
    else OG.Gen.C08.lastTakes false a.1 b.1 a.2 b.2
  | .firstC => OG.Gen.C08.firstTakes false a.1 b.1 a.2 b.2
  | _ => false

def pick (f : Fn) (isBool : Bool) (a b : Pt) : Pt := if f.better isBool a b then b else a

def selectPt (f : Fn) (isBool : Bool) : List Pt → Option Pt
  | [] => none
  | p :: ps => some (ps.foldl (pick f isBool) p)

def sumPts (ps : List Pt) : Int := ps.foldl (fun acc p => acc + p.2) 0

/-- one call over the points of a bucket: value and, for a selector, the time of the point. -/
def applyCall (f : Fn) (c : Col) (ps : List Pt) : Val × Option Int :=
  match ps with
  | [] => (.null, none)
  | _ =>
    match f with
    | .count => (.int ps.length, none)
    | .sum => (.int (sumPts ps), none)
    | .mean => (.rat (sumPts ps) ps.length, none)
    | _ =>
      match selectPt f (c == .fb) ps with
      | some p => (.int p.2, some p.1)
      | none => (.null, none)

def isSelector : Fn → Bool
  | .min | .max | .first | .last | .firstC => true
  | _ => false

/-- start of the bucket of width `w` (seconds, epoch aligned) holding relative second `t`. -/
def windowStart (w : Nat) (t : Int) : Int := t - (baseSec + t) % (w : Int)

def Query.callVals (q : Query) (rows : List Row) : List (Val × Option Int) :=
  q.calls.map (fun (f, c) => applyCall f c (pointsOf c rows))

/-- the value fill(k) puts into a column of call (f, c): in code units. -/
def fillNumber (f : Fn) (c : Col) (k : Int) : Val :=
  match f with
  | .count => .int k
  | .mean => if c == .ff then .rat (k * 8) 1 else .rat k 1
  | _ => if c == .ff then .int (k * 8) else if c == .fi then .int k else .null

/-- fill one bucket row; `prev` are the values of the previously emitted row. -/
def Query.fillRow (q : Query) (prev : List Val) (vals : List Val) : List Val :=
  match q.fill with
  | .none => vals
  | .null => (vals.zip q.calls).map (fun (v, (f, _)) => if v == .null && f == .count then .int 0 else v)
  | .previous => (vals.zip prev).map (fun (v, p) => if v == .null then p else v)
  | .number k => (vals.zip q.calls).map (fun (v, (f, c)) => if v == .null then fillNumber f c k else v)
  | .linear => vals

/-- the bucket starts of a statement in output order. -/
def bucketStarts (w : Nat) (lo hi : Int) (asc : Bool) : List Int :=
  let first := windowStart w lo
  let n := ((hi - first) / (w : Int)).toNat + 1
  let up := (List.range n).map (fun (i : Nat) => first + (i : Int) * (w : Int))
  if asc then up else up.reverse

/-- rows of the buckets, in output order, with fill; `prev` is threaded. -/
def Query.bucketRows (q : Query) (rows : List Row) : List Int → List Val → List OutRow
  | [], _ => []
  | b :: bs, prev =>
    let inB := rows.filter (fun r => decide (b ≤ r.t) && decide (r.t < b + (q.interval : Int)))
    let raw := (q.callVals inB).map (·.1)
    if q.fill == .none && raw.all (· == .null) then q.bucketRows rows bs prev
    else
      let vals := q.fillRow prev raw
      ⟨some b, vals⟩ :: q.bucketRows rows bs vals

/-- rows of one group of an aggregate statement, in the statement's order. -/
def Query.evalAggA (q : Query) (asc : Bool) (rows : List Row) : List OutRow :=
  match rows with
  | [] => []
  | _ =>
    if q.interval == 0 then
      let cv := q.callVals rows
      if cv.all (fun x => x.1 == .null) then []
      else
        let t : Option Int :=
          match q.calls, cv with
          | [(f, _)], [(_, pt)] => if isSelector f then pt else q.lo
          | _, _ => q.lo
        [⟨t, cv.map (·.1)⟩]
    else
      match q.lo, q.hi with
      | some lo, some hi =>
        -- a group none of whose calls has a value anywhere in range is not returned
        if (q.callVals rows).all (fun x => x.1 == .null) then []
        else q.bucketRows rows (bucketStarts q.interval lo hi asc) (q.calls.map (fun _ => Val.null))
      | _, _ => []

def Query.evalAgg (q : Query) (rows : List Row) : List OutRow := q.evalAggA q.asc rows

/-! ### the statement -/

/-- `SingleRowIgnoreTagLimitHelper`: rows `offset+1 … offset+limit`; without LIMIT and OFFSET the
operator is not in the plan. (OFFSET without LIMIT is outside the subset: the counter passes
`offset + 0` at once.) -/
def applyLimit (limit offset : Nat) (rows : List OutRow) : List OutRow :=
  if limit == 0 && offset == 0 then rows else (rows.drop offset).take limit

/-- the statement in direction `asc` (the field `q.asc` is not read). -/
def Query.evalGroupA (q : Query) (asc : Bool) (rows : List Row) : List OutRow :=
  applyLimit q.limit q.offset (if q.agg then q.evalAggA asc rows else q.evalSelA asc rows)

def evalA (q : Query) (asc : Bool) (db : Db) : Result :=
  let rows := db.filter q.keep
  let keys := distinctSorted (rows.map (fun r => groupKey q.grp r.s))
  let keys := if asc then keys else keys.reverse
  keys.filterMap (fun k =>
    let out := q.evalGroupA asc (rows.filter (fun r => groupKey q.grp r.s == k))
    if out.isEmpty then none else some (k, out))

def Query.evalGroup (q : Query) (rows : List Row) : List OutRow := q.evalGroupA q.asc rows

def eval (q : Query) (db : Db) : Result := evalA q q.asc db

end OG.C08
