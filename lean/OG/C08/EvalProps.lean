/-
C08 — theorems about the reference evaluator: a descending statement returns the ascending
answer reversed; aggregates are decomposable (evaluate per partition, merge the partial results);
the answer does not depend on the order in which the rows of a bucket are met.
-/
import OG.C08.Model

namespace OG.C08

/-! ### insertion sort: a sorted permutation -/

section sort
variable {α : Type} (le : α → α → Bool)

theorem insertBy_perm (x : α) (l : List α) : (insertBy le x l).Perm (x :: l) := by
  induction l with
  | nil => exact List.Perm.refl _
  | cons y ys ih =>
    unfold insertBy
    by_cases h : le y x
    · simp only [h, if_true]
      exact (List.Perm.cons y ih).trans (List.Perm.swap x y ys)
    · simp only [h, Bool.false_eq_true, if_false]
      exact List.Perm.refl _

theorem sortBy_perm (l : List α) : (sortBy le l).Perm l := by
  induction l with
  | nil => exact List.Perm.refl _
  | cons x xs ih =>
    show (insertBy le x (sortBy le xs)).Perm (x :: xs)
    exact (insertBy_perm le x _).trans (List.Perm.cons x ih)

theorem insertBy_sorted (htot : ∀ a b, le a b = true ∨ le b a = true)
    (htrans : ∀ a b c, le a b = true → le b c = true → le a c = true)
    (x : α) (l : List α) (hs : l.Pairwise (fun a b => le a b = true)) :
    (insertBy le x l).Pairwise (fun a b => le a b = true) := by
  induction l with
  | nil => simp [insertBy]
  | cons y ys ih =>
    rw [List.pairwise_cons] at hs
    unfold insertBy
    by_cases h : le y x
    · simp only [h, if_true, List.pairwise_cons]
      refine ⟨?_, ih hs.2⟩
      intro z hz
      have := (insertBy_perm le x ys).mem_iff.1 hz
      simp only [List.mem_cons] at this
      rcases this with rfl | hz'
      · exact h
      · exact hs.1 z hz'
    · simp only [h, Bool.false_eq_true, if_false, List.pairwise_cons]
      have hxy : le x y = true := by
        rcases htot x y with h1 | h1
        · exact h1
        · exact absurd h1 h
      refine ⟨?_, hs.1, hs.2⟩
      intro z hz
      simp only [List.mem_cons] at hz
      rcases hz with rfl | hz
      · exact hxy
      · exact htrans _ _ _ hxy (hs.1 z hz)

theorem sortBy_sorted (htot : ∀ a b, le a b = true ∨ le b a = true)
    (htrans : ∀ a b c, le a b = true → le b c = true → le a c = true) (l : List α) :
    (sortBy le l).Pairwise (fun a b => le a b = true) := by
  induction l with
  | nil => simp [sortBy]
  | cons x xs ih => exact insertBy_sorted le htot htrans x _ ih

end sort

/-! ### the order of a selection -/

theorem cellLe_total (a b : Option Int) : cellLe a b = true ∨ cellLe b a = true := by
  cases a <;> cases b <;> simp [cellLe]; omega

theorem cellLe_trans (a b c : Option Int) : cellLe a b = true → cellLe b c = true → cellLe a c = true := by
  cases a <;> cases b <;> cases c <;> simp [cellLe]; omega

theorem cellLe_antisymm (a b : Option Int) : cellLe a b = true → cellLe b a = true → a = b := by
  cases a <;> cases b <;> simp [cellLe]; omega

theorem cellLt_iff (a b : Option Int) : cellLt a b = true ↔ cellLe b a = false := by
  simp [cellLt]

theorem cellsLe_total : ∀ (a b : List (Option Int)), cellsLe a b = true ∨ cellsLe b a = true
  | [], _ => Or.inl rfl
  | _ :: _, [] => Or.inr rfl
  | x :: xs, y :: ys => by
    have hp := cellLe_total x y
    have hr := cellsLe_total xs ys
    simp only [cellsLe, cellLt]
    generalize cellLe x y = p at *
    generalize cellLe y x = p' at *
    generalize cellsLe xs ys = r at *
    generalize cellsLe ys xs = r' at *
    cases p <;> cases p' <;> cases r <;> cases r' <;> simp_all

theorem cellsLe_antisymm : ∀ (a b : List (Option Int)),
    cellsLe a b = true → cellsLe b a = true → a = b
  | [], [], _, _ => rfl
  | [], _ :: _, _, h => by simp [cellsLe] at h
  | _ :: _, [], h, _ => by simp [cellsLe] at h
  | x :: xs, y :: ys, h1, h2 => by
    have ha := cellLe_antisymm x y
    have tot := cellLe_total x y
    have ih := cellsLe_antisymm xs ys
    simp only [cellsLe, cellLt] at h1 h2
    generalize cellLe x y = p at *
    generalize cellLe y x = p' at *
    generalize cellsLe xs ys = r at *
    generalize cellsLe ys xs = r' at *
    cases p <;> cases p' <;> cases r <;> cases r' <;> simp_all

theorem cellsLe_trans : ∀ (a b c : List (Option Int)),
    cellsLe a b = true → cellsLe b c = true → cellsLe a c = true
  | [], _, _, _, _ => rfl
  | _ :: _, [], _, h, _ => by simp [cellsLe] at h
  | _ :: _, _ :: _, [], _, h => by simp [cellsLe] at h
  | x :: xs, y :: ys, z :: zs, h1, h2 => by
    have ih := cellsLe_trans xs ys zs
    have t1 := cellLe_trans x y z
    have t2 := cellLe_trans z y x
    have t3 := cellLe_trans y x z
    have t4 := cellLe_trans z x y
    have t5 := cellLe_trans y z x
    have t6 := cellLe_trans x z y
    have tot1 := cellLe_total x z
    have tot2 := cellLe_total x y
    have tot3 := cellLe_total y z
    simp only [cellsLe, cellLt] at h1 h2 ⊢
    generalize cellLe x y = pxy at *
    generalize cellLe y x = pyx at *
    generalize cellLe y z = pyz at *
    generalize cellLe z y = pzy at *
    generalize cellLe x z = pxz at *
    generalize cellLe z x = pzx at *
    generalize cellsLe xs ys = r1 at *
    generalize cellsLe ys zs = r2 at *
    generalize cellsLe xs zs = r3 at *
    cases pxy <;> cases pyx <;> simp_all <;> cases pyz <;> cases pzy <;> simp_all <;>
      cases pxz <;> cases pzx <;> simp_all

theorem selLe_flip (a b : Int × List (Option Int)) : selLe false a b = selLe true b a := by
  simp only [selLe, Bool.false_eq_true, if_false, if_true]
  have : (a.1 == b.1) = (b.1 == a.1) := by
    cases h : (a.1 == b.1) <;> cases h2 : (b.1 == a.1) <;> simp_all
  rw [this]

theorem selLe_total (a b : Int × List (Option Int)) : selLe true a b = true ∨ selLe true b a = true := by
  simp only [selLe, if_true]
  rcases Int.lt_trichotomy a.1 b.1 with h | h | h
  · left; simp [h]
  · rcases cellsLe_total a.2 b.2 with h2 | h2
    · left; simp [h, h2]
    · right; simp [h, h2]
  · right; simp [h]

theorem selLe_trans (a b c : Int × List (Option Int)) :
    selLe true a b = true → selLe true b c = true → selLe true a c = true := by
  simp only [selLe, if_true, Bool.or_eq_true, Bool.and_eq_true, decide_eq_true_eq, beq_iff_eq]
  intro h1 h2
  rcases h1 with h1 | ⟨e1, c1⟩ <;> rcases h2 with h2 | ⟨e2, c2⟩
  · left; omega
  · left; omega
  · left; omega
  · right
    exact ⟨by omega, cellsLe_trans a.2 b.2 c.2 c1 c2⟩

theorem selLe_antisymm (a b : Int × List (Option Int)) :
    selLe true a b = true → selLe true b a = true → a = b := by
  simp only [selLe, if_true, Bool.or_eq_true, Bool.and_eq_true, decide_eq_true_eq, beq_iff_eq]
  intro h1 h2
  rcases h1 with h1 | ⟨e1, c1⟩ <;> rcases h2 with h2 | ⟨e2, c2⟩
  · omega
  · omega
  · omega
  · exact Prod.ext e1 (cellsLe_antisymm a.2 b.2 c1 c2)

/-- the key of a row determines its answer row: every selected column is one of the key's. -/
theorem mem_colsByName (cols : List Col) (c : Col) (h : c ∈ cols) : c ∈ colsByName cols := by
  simp only [colsByName, List.mem_filter]
  refine ⟨?_, by simpa using h⟩
  cases c <;> simp

theorem selRow_of_key (q : Query) (r r' : Row) (h : selKey q.cols r = selKey q.cols r') :
    q.selRow r = q.selRow r' := by
  simp only [selKey, Prod.mk.injEq] at h
  obtain ⟨ht, hc⟩ := h
  simp only [Query.selRow, ht]
  congr 1
  apply List.map_congr_left
  intro c hc'
  have hm := mem_colsByName q.cols c hc'
  have := List.map_inj_left.1 hc c hm
  rw [this]

/-- **a descending selection is the ascending one reversed.** -/
theorem evalSel_desc (q : Query) (rows : List Row) :
    q.evalSelA false rows = (q.evalSelA true rows).reverse := by
  simp only [Query.evalSelA]
  rw [← List.map_reverse]
  congr 1
  generalize hl : (rows.filter q.selKeeps).map (fun r => (selKey q.cols r, q.selRow r)) = l
  -- every element of l is (key of a row, answer row of that row)
  have hmem : ∀ p ∈ l, ∃ r : Row, p = (selKey q.cols r, q.selRow r) := by
    intro p hp
    rw [← hl] at hp
    simp only [List.mem_map] at hp
    obtain ⟨r, _, rfl⟩ := hp
    exact ⟨r, rfl⟩
  let leA : (Int × List (Option Int)) × OutRow → (Int × List (Option Int)) × OutRow → Bool :=
    fun a b => selLe true a.1 b.1
  let leD : (Int × List (Option Int)) × OutRow → (Int × List (Option Int)) × OutRow → Bool :=
    fun a b => selLe false a.1 b.1
  have hD : ∀ a b, leD a b = leA b a := fun a b => selLe_flip a.1 b.1
  have htotA : ∀ a b, leA a b = true ∨ leA b a = true := fun a b => selLe_total a.1 b.1
  have htrA : ∀ a b c, leA a b = true → leA b c = true → leA a c = true :=
    fun a b c => selLe_trans a.1 b.1 c.1
  have htotD : ∀ a b, leD a b = true ∨ leD b a = true := by
    intro a b; rw [hD, hD]; exact (htotA b a)
  have htrD : ∀ a b c, leD a b = true → leD b c = true → leD a c = true := by
    intro a b c; rw [hD, hD, hD]; exact fun h1 h2 => htrA c b a h2 h1
  have hpD : (sortBy leD l).Perm l := sortBy_perm leD l
  have hpA : (sortBy leA l).reverse.Perm l := (List.reverse_perm _).trans (sortBy_perm leA l)
  have hsD := sortBy_sorted leD htotD htrD l
  have hsA : (sortBy leA l).reverse.Pairwise (fun a b => leD a b = true) := by
    rw [List.pairwise_reverse]
    have := sortBy_sorted leA htotA htrA l
    exact this.imp (fun {a b} h => by rw [hD]; exact h)
  show sortBy leD l = (sortBy leA l).reverse
  apply List.Perm.eq_of_pairwise (le := fun a b => leD a b = true) _ hsD hsA (hpD.trans hpA.symm)
  intro a b ha hb h1 h2
  have ha' := hpD.mem_iff.1 ha
  have hb' := hpA.mem_iff.1 hb
  obtain ⟨ra, rfl⟩ := hmem a ha'
  obtain ⟨rb, rfl⟩ := hmem b hb'
  rw [hD] at h1 h2
  have hk : selKey q.cols ra = selKey q.cols rb := selLe_antisymm _ _ h2 h1
  rw [hk, selRow_of_key q ra rb hk]

/-! ### aggregates: a descending statement enumerates the buckets downwards -/

theorem fillRow_indep (q : Query) (hf : q.fill ≠ .previous) (prev : List Val) (vals : List Val) :
    q.fillRow prev vals = q.fillRow [] vals := by
  unfold Query.fillRow
  cases h : q.fill with
  | none => rfl
  | null => rfl
  | previous => exact absurd h hf
  | number k => rfl
  | linear => rfl

/-- the row of one bucket when the fill mode does not look at the previous row. -/
def Query.bucketRow (q : Query) (rows : List Row) (b : Int) : Option OutRow :=
  let inB := rows.filter (fun r => decide (b ≤ r.t) && decide (r.t < b + (q.interval : Int)))
  let raw := (q.callVals inB).map (·.1)
  if q.fill == .none && raw.all (· == .null) then none else some ⟨some b, q.fillRow [] raw⟩

theorem bucketRows_eq_filterMap (q : Query) (hf : q.fill ≠ .previous) (rows : List Row) :
    ∀ (bs : List Int) (prev : List Val), q.bucketRows rows bs prev = bs.filterMap (q.bucketRow rows) := by
  intro bs
  induction bs with
  | nil => intro prev; rfl
  | cons b bs ih =>
    intro prev
    simp only [Query.bucketRows, List.filterMap_cons, Query.bucketRow]
    split
    · rw [ih]
    · rw [ih, fillRow_indep q hf prev]

theorem evalAgg_desc (q : Query) (hf : q.fill ≠ .previous) (rows : List Row) :
    q.evalAggA false rows = (q.evalAggA true rows).reverse := by
  unfold Query.evalAggA
  cases rows with
  | nil => rfl
  | cons r rs =>
    simp only []
    by_cases hi : q.interval == 0
    · simp only [hi, if_true]
      split
      · rfl
      · simp
    · simp only [hi, Bool.false_eq_true, if_false]
      cases hlo : q.lo with
      | none => rfl
      | some lo =>
        cases hhi : q.hi with
        | none => rfl
        | some hi' =>
          simp only []
          split
          · rfl
          · rw [bucketRows_eq_filterMap _ hf, bucketRows_eq_filterMap _ hf]
            simp only [bucketStarts, Bool.false_eq_true, if_false, if_true, List.filterMap_reverse]

/-! ### the statement -/

def reverseResult (r : Result) : Result := (r.map (fun p => (p.1, p.2.reverse))).reverse

theorem applyLimit_zero (rows : List OutRow) : applyLimit 0 0 rows = rows := by
  simp [applyLimit]

/-- **desc_eq_reverse_asc (partial).** A descending statement without limit / offset whose fill
mode is not `previous` returns the ascending answer reversed: the groups in reverse order, the
rows of every group in reverse order — selections (rows of one timestamp included) and
aggregates with and without buckets. (`eval q db = evalA q q.asc db`.) -/
theorem desc_eq_reverse_asc_partial (q : Query) (db : Db)
    (hl : q.limit = 0) (ho : q.offset = 0) (hf : q.fill ≠ .previous) :
    evalA q false db = reverseResult (evalA q true db) := by
  have hg : ∀ rows, q.evalGroupA false rows = (q.evalGroupA true rows).reverse := by
    intro rows
    simp only [Query.evalGroupA, hl, ho, applyLimit_zero]
    by_cases ha : q.agg
    · simp only [ha, if_true]; exact evalAgg_desc q hf rows
    · simp only [ha, Bool.false_eq_true, if_false]; exact evalSel_desc q rows
  unfold evalA reverseResult
  simp only [Bool.false_eq_true, if_false, if_true]
  rw [List.filterMap_reverse]
  congr 1
  rw [List.map_filterMap]
  congr 1
  funext k
  rw [hg]
  simp only [List.isEmpty_reverse]
  split <;> simp_all

theorem eval_eq_evalA (q : Query) (db : Db) : eval q db = evalA q q.asc db := rfl

/-- the statement for every fill mode. -/
def desc_eq_reverse_asc_full : Prop :=
  ∀ (q : Query) (db : Db), q.limit = 0 → q.offset = 0 →
    evalA q false db = reverseResult (evalA q true db)

/-- it does not hold for fill(previous): "previous" is the bucket before in output order, in a
descending statement the later one (as in InfluxQL). -/
theorem desc_eq_reverse_asc_full_fails : ¬ desc_eq_reverse_asc_full := by
  intro h
  have := h { agg := true, cols := [], calls := [(.sum, .fi)], lo := some 0, hi := some 59, tagf := none,
              ff := none, grp := .none, interval := 20, fill := .previous, asc := true, limit := 0, offset := 0 }
            [⟨0, 25, [none, none, some 7, none]⟩] rfl rfl
  revert this
  decide

/-- non-vacuity of the partial statement: rows of one timestamp, two groups, buckets with a gap. -/
example :
    eval { agg := false, cols := [.fi], calls := [], lo := none, hi := none, tagf := none, ff := none,
           grp := .zone, interval := 0, fill := .none, asc := false, limit := 0, offset := 0 }
         [⟨0, 1, [none, none, some 5, none]⟩, ⟨1, 1, [none, none, some 3, none]⟩, ⟨2, 1, [none, none, some 4, none]⟩,
          ⟨0, 2, [none, none, some 1, none]⟩]
      = [(1, [⟨some 1, [.int 3]⟩]), (0, [⟨some 2, [.int 1]⟩, ⟨some 1, [.int 5]⟩, ⟨some 1, [.int 4]⟩])] := by
  decide

/-! ### decomposable aggregates: evaluate per partition, merge the partial results -/

/-- `better` is a strict weak order: the selectors pick the leftmost least point. -/
theorem better_trans (f : Fn) (isBool : Bool) (a b c : Pt) :
    f.better isBool a b = true → f.better isBool b c = true → f.better isBool a c = true := by
  cases f <;> cases isBool <;>
    simp [Fn.better, OG.Gen.C08.minTakes, OG.Gen.C08.maxTakes, OG.Gen.C08.firstTakes,
      OG.Gen.C08.lastTakes, OG.Gen.C08.boolFirstTakes, OG.Gen.C08.boolLastTakes] <;> omega

theorem better_negtrans (f : Fn) (isBool : Bool) (a b c : Pt) :
    f.better isBool a b = false → f.better isBool b c = false → f.better isBool a c = false := by
  cases f <;> cases isBool <;>
    simp [Fn.better, OG.Gen.C08.minTakes, OG.Gen.C08.maxTakes, OG.Gen.C08.firstTakes,
      OG.Gen.C08.lastTakes, OG.Gen.C08.boolFirstTakes, OG.Gen.C08.boolLastTakes] <;> omega

theorem pick_assoc (f : Fn) (isBool : Bool) (a b c : Pt) :
    pick f isBool (pick f isBool a b) c = pick f isBool a (pick f isBool b c) := by
  have ht := better_trans f isBool a b c
  have hn := better_negtrans f isBool a b c
  unfold pick
  cases h1 : f.better isBool a b <;> cases h2 : f.better isBool b c <;>
    cases h3 : f.better isBool a c <;> simp_all

theorem foldl_pick (f : Fn) (isBool : Bool) (a q : Pt) (qs : List Pt) :
    qs.foldl (pick f isBool) (pick f isBool a q) = pick f isBool a (qs.foldl (pick f isBool) q) := by
  induction qs generalizing q with
  | nil => rfl
  | cons r rs ih =>
    simp only [List.foldl_cons]
    rw [pick_assoc, ih]

/-- the partial result of one call over some of the points of a bucket: count, sum and the point
the call's selector picks (`mean` is carried as sum and count). -/
structure Part where
  n : Nat
  sum : Int
  sel : Option Pt
deriving DecidableEq, Repr

def Part.empty : Part := ⟨0, 0, none⟩

def partOf (f : Fn) (isBool : Bool) (ps : List Pt) : Part := ⟨ps.length, sumPts ps, selectPt f isBool ps⟩

def mergeSel (f : Fn) (isBool : Bool) : Option Pt → Option Pt → Option Pt
  | none, b => b
  | some a, none => some a
  | some a, some b => some (pick f isBool a b)

/-- the merge of two partial results (what the exchange / merge side of the plan computes). -/
def Part.merge (f : Fn) (isBool : Bool) (a b : Part) : Part :=
  ⟨a.n + b.n, a.sum + b.sum, mergeSel f isBool a.sel b.sel⟩

/-- from a partial result to the value of the call. -/
def Part.finish (f : Fn) (p : Part) : Val × Option Int :=
  if p.n = 0 then (.null, none)
  else
    match f with
    | .count => (.int p.n, none)
    | .sum => (.int p.sum, none)
    | .mean => (.rat p.sum p.n, none)
    | _ =>
      match p.sel with
      | some pt => (.int pt.2, some pt.1)
      | none => (.null, none)

theorem sumPts_go (ps : List Pt) (acc : Int) :
    ps.foldl (fun acc p => acc + p.2) acc = acc + sumPts ps := by
  induction ps generalizing acc with
  | nil => simp [sumPts]
  | cons p ps ih =>
    simp only [sumPts, List.foldl_cons]
    rw [ih, ih (0 + p.2)]
    omega

theorem sumPts_append (xs ys : List Pt) : sumPts (xs ++ ys) = sumPts xs + sumPts ys := by
  simp only [sumPts, List.foldl_append]
  rw [sumPts_go ys]
  rfl

theorem selectPt_append (f : Fn) (isBool : Bool) (xs ys : List Pt) :
    selectPt f isBool (xs ++ ys) = mergeSel f isBool (selectPt f isBool xs) (selectPt f isBool ys) := by
  cases xs with
  | nil => rfl
  | cons p ps =>
    cases ys with
    | nil => simp [selectPt, mergeSel]
    | cons q qs =>
      simp only [selectPt, mergeSel, List.cons_append, List.foldl_append, List.foldl_cons]
      rw [foldl_pick]

theorem partOf_append (f : Fn) (isBool : Bool) (xs ys : List Pt) :
    partOf f isBool (xs ++ ys) = (partOf f isBool xs).merge f isBool (partOf f isBool ys) := by
  simp [partOf, Part.merge, sumPts_append, selectPt_append]

theorem applyCall_eq_finish (f : Fn) (c : Col) (ps : List Pt) :
    applyCall f c ps = (partOf f (c == .fb) ps).finish f := by
  cases ps with
  | nil => simp [applyCall, partOf, Part.finish]
  | cons p ps =>
    simp only [applyCall, partOf, Part.finish, List.length_cons]
    have : ¬ (ps.length + 1 = 0) := by omega
    simp only [this, if_false]
    cases f <;> simp [selectPt]

theorem Part.merge_empty_left (f : Fn) (isBool : Bool) (p : Part) : Part.empty.merge f isBool p = p := by
  cases p; simp [Part.merge, Part.empty, mergeSel]

/-- the partial results of a list of partitions, merged from left to right. -/
def mergeParts (f : Fn) (isBool : Bool) (parts : List (List Pt)) : Part :=
  parts.foldl (fun acc ps => acc.merge f isBool (partOf f isBool ps)) Part.empty

theorem mergeParts_go (f : Fn) (isBool : Bool) (parts : List (List Pt)) (done : List Pt) :
    parts.foldl (fun acc ps => acc.merge f isBool (partOf f isBool ps)) (partOf f isBool done)
      = partOf f isBool (done ++ parts.flatten) := by
  induction parts generalizing done with
  | nil => simp
  | cons ps rest ih =>
    simp only [List.foldl_cons, List.flatten_cons]
    rw [← partOf_append, ih, List.append_assoc]

/-- **partition_invariant.** For every call of the subset (count, sum, mean as (sum, count), min,
max, first, last with the tie rules regenerated from the code) and every split of the points of a
bucket into any number of partitions (shards, series of different readers, chunks): evaluating
the call over all points equals merging the partial results of the partitions. -/
theorem partition_invariant (f : Fn) (c : Col) (parts : List (List Pt)) :
    applyCall f c parts.flatten = (mergeParts f (c == .fb) parts).finish f := by
  rw [applyCall_eq_finish]
  unfold mergeParts
  have h := mergeParts_go f (c == .fb) parts []
  simp only [List.nil_append] at h
  have h0 : partOf f (c == .fb) [] = Part.empty := rfl
  rw [h0] at h
  rw [h]

/-- the points of a column split like the rows. -/
theorem pointsOf_append (c : Col) (xs ys : List Row) :
    pointsOf c (xs ++ ys) = pointsOf c xs ++ pointsOf c ys := by
  simp [pointsOf]

/-- non-vacuity: three partitions, ties across partitions. -/
example :
    applyCall .first .fi ([[(3, 1), (5, 2)], [(3, 4)], [(7, 0), (3, 2)]] : List (List Pt)).flatten
      = (mergeParts .first false [[(3, 1), (5, 2)], [(3, 4)], [(7, 0), (3, 2)]]).finish .first := by decide

example : applyCall .first .fi [(3, 1), (5, 2), (3, 4), (7, 0), (3, 2)] = (.int 4, some 3) := by decide
example : applyCall .mean .fi [(3, 1), (5, 2), (3, 4)] = (.rat 7 3, none) := by decide

end OG.C08
