/-
C06 — executable model of the line-protocol parser
(`lib/util/lifted/vm/protoparser/influx/{parser,valid_number,streamparser}.go`) and of the
row → column conversion (`lib/record/record_group.go: AppendFieldToCol`), byte level.

Regenerated from the Go source and used here as-is (OG.Generated.C06): the number automaton
(`charTypeOf`, `transferRows`, `acceptStates`), the escape set of `unescapeTagValue`, the
boolean spellings, the precision → multiplier table, the length limits, `NoTimestamp`.
Transcribed by hand (source fingerprints pinned in `Facts.lean`, behaviour tied by the
correspondence run): the tokenizer (`nextUnescapedChar`, `nextUnquotedChar`, `isInQuote`),
`unescapeTagValue`, `parseFieldStrValue`, `parseFieldNumValue`, `nextTimestamp`,
`Row.unmarshal`, `unmarshalRows`, `unmarshalWork.Unmarshal`, `AppendFieldToCol`.
Tag arrays are disabled (`enableTagArray = false`, the default of a database).
-/
import OG.C06.Base
import OG.Generated.C06

namespace OG.C06
open OG.Gen.C06

/-! ### number automaton (`IsValidNumber`) over the regenerated table -/

/-- `transfer[state][typ]`; a row that `init()` does not assign holds Go's zero value. -/
def transfer (st ct : Nat) : Nat :=
  match transferRows.lookup st with
  | some row => (row[ct]?).getD stateNone
  | none => stateNone

/-- the loop of `IsValidNumber`: `none` = rejected inside the loop. -/
def runNumber : Nat → Bytes → Option Nat
  | st, [] => some st
  | st, c :: cs =>
    let ct := charTypeOf c
    if ct ≥ charIllegal then none
    else
      let st' := transfer st ct
      if st' = stateNone then none else runNumber st' cs

def isValidNumber (s : Bytes) : Bool :=
  match runNumber stateInitial s with
  | some st => acceptStates.contains st
  | none => false

/-! ### tokenizer -/

/-- slow path of `nextUnescapedChar`: position of the first `ch` that is preceded by an even
number of backslashes (`run` counts the backslashes directly before the current byte). -/
def nextUnescGo (ch : UInt8) : Bytes → Nat → Nat → Option Nat
  | [], _, _ => none
  | c :: cs, pos, run =>
    if c = ch then
      if run % 2 = 0 then some pos else nextUnescGo ch cs (pos + 1) 0
    else if c = bBslash then nextUnescGo ch cs (pos + 1) (run + 1)
    else nextUnescGo ch cs (pos + 1) 0

/-- `nextUnescapedChar(s, ch, noEscapeChars, false, _)`. -/
def nextUnesc (noEsc : Bool) (ch : UInt8) (s : Bytes) : Option Nat :=
  if noEsc then indexByte ch s else nextUnescGo ch s 0 0

/-- `isInQuote`: parity of the unescaped double quotes of `s`. -/
def isInQuoteGo (noEsc : Bool) : Nat → Bytes → Bool → Bool
  | 0, _, q => q
  | fuel + 1, s, q =>
    match nextUnesc noEsc bQuote s with
    | none => q
    | some n => isInQuoteGo noEsc fuel (s.drop (n + 1)) (!q)

def isInQuote (noEsc : Bool) (s : Bytes) : Bool := isInQuoteGo noEsc (s.length + 1) s false

/-- the loop of `nextUnquotedChar` for `hasQuotedFields = true`. -/
def nextUnquotedGo (noEsc : Bool) (ch : UInt8) : Nat → Bytes → Nat → Option Nat
  | 0, _, _ => none
  | fuel + 1, s, off =>
    match nextUnesc noEsc ch s with
    | none => none
    | some n =>
      if !isInQuote noEsc (s.take n) then some (off + n)
      else
        let s1 := s.drop (n + 1)
        match nextUnesc noEsc bQuote s1 with
        | none => none
        | some m => nextUnquotedGo noEsc ch fuel (s1.drop (m + 1)) (off + n + 1 + m + 1)

/-- `nextUnquotedChar(s, ch, noEscapeChars, hasQuotedFields)`. -/
def nextUnquoted (noEsc hasQuoted : Bool) (ch : UInt8) (s : Bytes) : Option Nat :=
  if !hasQuoted then nextUnesc noEsc ch s else nextUnquotedGo noEsc ch (s.length + 1) s 0

/-! ### unescape / unquote and their printers -/

/-- slow path of `unescapeTagValue`: a backslash is dropped exactly when the next byte is in
the escape set; a trailing backslash is kept. -/
def unescGo : Bytes → Bytes
  | [] => []
  | [c] => [c]
  | c :: d :: ds =>
    if c = bBslash then
      if escapeSet.contains d then d :: unescGo ds else bBslash :: d :: unescGo ds
    else c :: unescGo (d :: ds)

/-- `unescapeTagValue(s, noEscapeChars)`. -/
def unescapeTag (noEsc : Bool) (s : Bytes) : Bytes := if noEsc then s else unescGo s

/-- printer: every byte of the escape set gets a backslash. -/
def escapeTag (s : Bytes) : Bytes :=
  s.flatMap fun c => if escapeSet.contains c then [bBslash, c] else [c]

/-- the unquote loop of `parseFieldStrValue` (`k` = length of the pending run of
backslashes): a run followed by `"` yields `k/2` backslashes and the quote; a run followed by
anything else (or the end) yields `⌈k/2⌉` backslashes. -/
def unquoteRun : Bytes → Nat → Bytes
  | [], k => List.replicate ((k + 1) / 2) bBslash
  | c :: cs, k =>
    if c = bBslash then unquoteRun cs (k + 1)
    else if c = bQuote then List.replicate (k / 2) bBslash ++ bQuote :: unquoteRun cs 0
    else List.replicate ((k + 1) / 2) bBslash ++ c :: unquoteRun cs 0

/-- reference reading of a quoted body, left to right: `\\` ↦ `\`, `\"` ↦ `"`, any other
backslash is literal. -/
def unquoteRef : Bytes → Bytes
  | [] => []
  | [c] => [c]
  | c :: d :: ds =>
    if c = bBslash ∧ (d = bBslash ∨ d = bQuote) then d :: unquoteRef ds
    else c :: unquoteRef (d :: ds)

/-- printer of a string field value. -/
def quoteStr (s : Bytes) : Bytes :=
  bQuote :: (s.flatMap fun c => if c = bBslash ∨ c = bQuote then [bBslash, c] else [c]) ++ [bQuote]

/-- error classes of the parser (the messages of parser.go, grouped). -/
inductive Err where
  | nofield | tagvalue | toolong | emptykey | value | ts | http | nomeasurement | tsrange
deriving DecidableEq, Repr

/-- `parseFieldStrValue`: a value that does not start with `"` is an error (repaired code). -/
def parseStr (s : Bytes) : Option Bytes :=
  match s with
  | [] => none
  | c :: rest =>
    if c = bQuote then
      if s.length < 2 ∨ s.getLast? ≠ some bQuote then none
      else some (unquoteRun rest.dropLast 0)
    else none

/-! ### field values -/

inductive FVal where
  /-- integer field; `f` is the (integral) float64 held in `Field.NumValue` -/
  | int (f : Int)
  /-- float field, as its 64-bit pattern -/
  | float (bits : Nat)
  | bool (b : Bool)
  | str (s : Bytes)
deriving DecidableEq, Repr

/-- splits a token accepted by `isValidNumber` into sign, decimal mantissa and decimal exponent. -/
def splitNumber (s : Bytes) : Bool × Nat × Int :=
  let (neg, s) := match s with
    | c :: cs => if c = bMinus then (true, cs) else if c = bPlus then (false, cs) else (false, s)
    | [] => (false, s)
  let ip := s.takeWhile isDigit
  let s := s.dropWhile isDigit
  let (fp, s) := match s with
    | c :: cs => if c = bDot then (cs.takeWhile isDigit, cs.dropWhile isDigit) else ([], s)
    | [] => ([], s)
  let e : Int := match s with
    | _ :: c :: cs =>        -- 'e' | 'E', then an optional sign
      if c = bMinus then -(parseNat cs : Int) else if c = bPlus then (parseNat cs : Int) else (parseNat (c :: cs) : Int)
    | _ => 0
  (neg, parseNat (ip ++ fp), e - fp.length)

/-- `parseFloatValue`: `IsValidNumber`, then the correctly rounded value; ±Inf is an error. -/
def parseFloat (s : Bytes) : Option Nat :=
  if !isValidNumber s then none
  else
    let (neg, m, e) := splitNumber s
    decToF64 neg m e

/-- `parseFieldNumValue`. -/
def parseNum (s : Bytes) : Option FVal :=
  match s.getLast? with
  | none => none
  | some ch =>
    if ch = 105 then          -- 'i'
      (parseInt64 s.dropLast).map fun n => FVal.int (roundF64 n)
    else if ch = 117 then none   -- 'u'
    else if ch = 102 ∧ s.length > 1 then   -- 'f'
      (parseFloat s.dropLast).map FVal.float
    else if trueLits.contains s then some (FVal.bool true)
    else if falseLits.contains s then some (FVal.bool false)
    else (parseFloat s).map FVal.float

structure Tag where
  key : Bytes
  val : Bytes
deriving DecidableEq, Repr

structure Field where
  key : Bytes
  val : FVal
deriving DecidableEq, Repr

structure Row where
  name : Bytes
  tags : List Tag
  fields : List Field
  ts : Int
deriving DecidableEq, Repr

/-- `Field.unmarshal`. -/
def parseField (noEsc hasQuoted : Bool) (s : Bytes) : Except Err Field :=
  match nextUnesc noEsc bEq s with
  | none => .error .nofield
  | some n =>
    let key := unescapeTag noEsc (s.take n)
    if key.isEmpty then .error .emptykey
    else if key.length > maxFieldNameLength then .error .toolong
    else if hasQuoted && (nextUnesc noEsc bQuote (s.drop n)).isSome then
      match parseStr (s.drop (n + 1)) with
      | some v => .ok ⟨key, .str v⟩
      | none => .error .value
    else
      match parseNum (s.drop (n + 1)) with
      | some v => .ok ⟨key, v⟩
      | none => .error .value

/-- `unmarshalInfluxFields`. -/
def parseFields (noEsc hasQuoted : Bool) : Nat → Bytes → Except Err (List Field)
  | 0, _ => .error .nofield
  | fuel + 1, s =>
    match nextUnquoted noEsc hasQuoted bComma s with
    | none => (parseField noEsc hasQuoted s).map fun f => [f]
    | some n => do
      let f ← parseField noEsc hasQuoted (s.take n)
      let fs ← parseFields noEsc hasQuoted fuel (s.drop (n + 1))
      pure (f :: fs)

/-- `Tag.unmarshal`. -/
def parseTag (noEsc : Bool) (s : Bytes) : Except Err Tag :=
  match nextUnesc noEsc bEq s with
  | none => .error .tagvalue
  | some n =>
    let key := unescapeTag noEsc (s.take n)
    if key.length > maxTagNameLength then .error .toolong
    else
      let val := unescapeTag noEsc (s.drop (n + 1))
      if val.length > maxTagValueLength then .error .toolong
      else .ok ⟨key, val⟩

/-- `unmarshalTags`: a tag with an empty key or value is skipped. -/
def parseTags (noEsc : Bool) : Nat → Bytes → Except Err (List Tag)
  | 0, _ => .error .tagvalue
  | fuel + 1, s =>
    match nextUnesc noEsc bComma s with
    | none => do
      let t ← parseTag noEsc s
      pure (if t.key.isEmpty || t.val.isEmpty then [] else [t])
    | some n => do
      let t ← parseTag noEsc (s.take n)
      let ts ← parseTags noEsc fuel (s.drop (n + 1))
      pure (if t.key.isEmpty || t.val.isEmpty then ts else t :: ts)

/-- bytewise lexicographic `<` (Go's string order). -/
def bytesLt : Bytes → Bytes → Bool
  | [], [] => false
  | [], _ :: _ => true
  | _ :: _, [] => false
  | a :: as, b :: bs => if a < b then true else if b < a then false else bytesLt as bs

def tagLt (a b : Tag) : Bool := bytesLt a.key b.key || (a.key == b.key && bytesLt a.val b.val)

def insertTag (t : Tag) : List Tag → List Tag
  | [] => [t]
  | x :: xs => if tagLt t x then t :: x :: xs else x :: insertTag t xs

/-- tags in canonical order: by key as `sort.Sort(&r.Tags)` orders them, ties (duplicate
keys, which `sort.Sort` may leave in any order) broken by value. -/
def sortTags (ts : List Tag) : List Tag := ts.foldr insertTag []

/-- Unicode white space as UTF-8 (what `strings.TrimSpace` removes). -/
def spaceRunes : List Bytes := [
  [9], [10], [11], [12], [13], [32], [0xC2, 0x85], [0xC2, 0xA0], [0xE1, 0x9A, 0x80],
  [0xE2, 0x80, 0x80], [0xE2, 0x80, 0x81], [0xE2, 0x80, 0x82], [0xE2, 0x80, 0x83], [0xE2, 0x80, 0x84],
  [0xE2, 0x80, 0x85], [0xE2, 0x80, 0x86], [0xE2, 0x80, 0x87], [0xE2, 0x80, 0x88], [0xE2, 0x80, 0x89],
  [0xE2, 0x80, 0x8A], [0xE2, 0x80, 0xA8], [0xE2, 0x80, 0xA9], [0xE2, 0x80, 0xAF], [0xE2, 0x81, 0x9F],
  [0xE3, 0x80, 0x80]]

def stripSpacePrefix (s : Bytes) : Option Bytes :=
  spaceRunes.findSome? fun r => if r.isPrefixOf s then some (s.drop r.length) else none

def trimLeft : Nat → Bytes → Bytes
  | 0, s => s
  | fuel + 1, s => match stripSpacePrefix s with
    | some s' => trimLeft fuel s'
    | none => s

def trimRightRev : Nat → Bytes → Bytes
  | 0, t => t
  | fuel + 1, t =>
    match spaceRunes.findSome? fun r => if r.reverse.isPrefixOf t then some (t.drop r.length) else none with
    | some t' => trimRightRev fuel t'
    | none => t

/-- `strings.TrimSpace`: white-space runes are removed from both ends. -/
def trimSpace (s : Bytes) : Bytes :=
  let s := trimLeft s.length s
  (trimRightRev s.length s.reverse).reverse

/-- `nextTimestamp`. -/
def parseTimestamp (s : Bytes) : Option Int :=
  let s := trimSpace s
  if s.isEmpty then some noTimestamp
  else if !s.all isDigit then none
  else parseInt64 s

/-- `checkWhitespace(s, 0)` then `s[start:]`. -/
def skipLeadingWs : Bytes → Bytes
  | c :: cs => if c = bSpace ∨ c = bTab ∨ c = 0 then skipLeadingWs cs else c :: cs
  | [] => []

/-- `stripLeadingWhitespace`. -/
def stripSpaces : Bytes → Bytes
  | c :: cs => if c = bSpace then stripSpaces cs else c :: cs
  | [] => []

def httpPrefix : Bytes := [72, 84, 84, 80, 47]   -- "HTTP/"

/-- `Row.unmarshal`, measurement and tags: the text before the first unescaped blank. -/
def parseHead (noEsc : Bool) (mt : Bytes) : Except Err (List Tag × Bytes) :=
  match nextUnesc noEsc bComma mt with
  | some k => (parseTags noEsc (mt.length + 1) (mt.drop (k + 1))).map fun ts => (sortTags ts, mt.take k)
  | none => .ok ([], mt)

/-- `Row.unmarshal`, fields and timestamp: the text after the blanks that follow the tags. -/
def parseTail (noEsc : Bool) (name : Bytes) (tags : List Tag) (s : Bytes) : Except Err Row :=
  let hasQuoted := (nextUnesc noEsc bQuote s).isSome
  match nextUnquoted noEsc hasQuoted bSpace s with
  | none =>
    match parseFields noEsc hasQuoted (s.length + 1) s with
    | .error e => .error e
    | .ok fs => .ok ⟨name, tags, fs, noTimestamp⟩
  | some n =>
    match parseFields noEsc hasQuoted (n + 1) (s.take n) with
    | .error e => if httpPrefix.isPrefixOf (s.drop (n + 1)) then .error .http else .error e
    | .ok fs =>
      let s := stripSpaces (s.drop (n + 1))
      match parseTimestamp s with
      | none => if httpPrefix.isPrefixOf s then .error .http else .error .ts
      | some t => .ok ⟨name, tags, fs, t⟩

/-- `Row.unmarshal`. -/
def parseRow (noEsc : Bool) (s0 : Bytes) : Except Err Row :=
  let s := skipLeadingWs s0
  match nextUnesc noEsc bSpace s with
  | none => .error .nofield
  | some n =>
    match parseHead noEsc (s.take n) with
    | .error e => .error e
    | .ok (tags, m) =>
      let name := unescapeTag noEsc m
      if name.length > maxMeasurementLength then .error .toolong
      else parseTail noEsc name tags (stripSpaces (s.drop (n + 1)))

/-- result of `unmarshalRow` on one line. -/
inductive LineRes where
  | skip                 -- empty line or comment
  | row (r : Row)
  | err (e : Err)
deriving Repr

/-- `unmarshalRow`. -/
def parseLine (noEsc : Bool) (s : Bytes) : LineRes :=
  let s := if s.getLast? = some bCR then s.dropLast else s
  match s with
  | [] => .skip
  | c :: _ =>
    if c = bHash then .skip
    else match parseRow noEsc s with
      | .ok r => .row r
      | .error e => .err e

/-- the segments `unmarshalRows` hands to `unmarshalRow`: split at `\n`; the piece after the
last `\n` is processed only when it is not empty. -/
def splitLinesGo : Bytes → Bytes → List Bytes
  | [], cur => if cur.isEmpty then [] else [cur.reverse]
  | c :: cs, cur => if c = bNL then cur.reverse :: splitLinesGo cs [] else splitLinesGo cs (c :: cur)

def splitLines (s : Bytes) : List Bytes := splitLinesGo s []

/-- `unmarshalRows`: the rows of the lines that parsed, and the error of the **last line
processed** (an empty line or a comment counts as processed without error). -/
def unmarshalRows (s : Bytes) : List Row × Option Err :=
  let noEsc := !s.contains bBslash
  (splitLines s).foldl (fun (acc : List Row × Option Err) line =>
    match parseLine noEsc line with
    | .skip => (acc.1, none)
    | .row r => (acc.1 ++ [r], none)
    | .err e => (acc.1, some e)) ([], none)

/-- `Row.CheckValid`. -/
def checkValid (r : Row) : Option Err :=
  if r.name.isEmpty then some .nomeasurement
  else if r.fields.isEmpty then some .nofield
  else none

/-- timestamp of a stored row: `none` = the server's clock (`NoTimestamp`). -/
structure StoredRow where
  name : Bytes
  tags : List Tag
  fields : List (Bytes × FVal)   -- after `AppendFieldToCol`: `.int` holds the int64 stored
  ts : Option Int
deriving Repr

/-- `AppendFieldToCol`: `int64(field.NumValue)` for an integer field. -/
def storeField (f : Field) : Bytes × FVal :=
  match f.val with
  | .int v => (f.key, .int (f64ToInt64 v))
  | v => (f.key, v)

/-- one row in the loop of `unmarshalWork.Unmarshal`: `CheckValid`, then the server's clock for
a row without timestamp, an error when the product would leave the int64 range, else
`row.Timestamp *= tsMultiplier`; then `AppendFieldToCol` on every field. -/
def storeRow (mult : Int) (r : Row) : Except Err StoredRow :=
  match checkValid r with
  | some e => .error e
  | none =>
    if r.ts = noTimestamp then
      .ok { name := r.name, tags := r.tags, fields := r.fields.map storeField, ts := none }
    else if r.ts > maxInt64 / mult then .error .tsrange
    else .ok { name := r.name, tags := r.tags, fields := r.fields.map storeField, ts := some (wrap64 (r.ts * mult)) }

/-- `unmarshalWork.Unmarshal` for a multiplier ≥ 1 (every value of the precision table),
followed by `AppendFieldToCol` on every field: what one request block stores. The first
failing row fails the block. -/
def processBlock (mult : Int) (s : Bytes) : Except Err (List StoredRow) :=
  match unmarshalRows s with
  | (_, some e) => .error e
  | (rows, none) => rows.mapM (storeRow mult)

/-- `switch precision` of `serveWrite`. -/
def multiplierOf (precision : Bytes) : Int :=
  match precisionTable.lookup precision with
  | some m => m
  | none => defaultTsMultiplier

end OG.C06
