/-
C06 — quoted string fields inside a line: `isInQuote` / `nextUnquotedChar` over the
canonical spelling (helper lemmas of `line_roundtrip_strings`).
-/
import OG.C06.NoEsc

namespace OG.C06
open OG.Gen.C06


/-- single pass over `s`: parity of the unescaped double quotes, and the backslash run at the end. -/
def qscan : Bytes → Nat → Bool → Bool × Nat
  | [], run, q => (q, run)
  | c :: cs, run, q =>
    if c = bQuote then qscan cs 0 (if run % 2 = 0 then !q else q)
    else if c = bBslash then qscan cs (run + 1) q
    else qscan cs 0 q

theorem qscan_append (u v : Bytes) : ∀ run q, qscan (u ++ v) run q = qscan v (qscan u run q).2 (qscan u run q).1 := by
  induction u with
  | nil => intro run q; rfl
  | cons c cs ih =>
    intro run q
    rw [List.cons_append, qscan, qscan]
    by_cases h1 : c = bQuote
    · simp only [if_pos h1]; exact ih _ _
    · simp only [if_neg h1]
      by_cases h2 : c = bBslash
      · simp only [if_pos h2]; exact ih _ _
      · simp only [if_neg h2]; exact ih _ _

/-- `nextUnescapedChar(s, '"')` against the single pass. -/
theorem qscan_of_nextUnescGo : ∀ (s : Bytes) (pos run : Nat) (q : Bool),
    match nextUnescGo bQuote s pos run with
    | none => (qscan s run q).1 = q
    | some n => pos ≤ n ∧ (qscan s run q).1 = (qscan (s.drop (n - pos + 1)) 0 (!q)).1 := by
  intro s
  induction s with
  | nil => intro pos run q; simp [nextUnescGo, qscan]
  | cons c cs ih =>
    intro pos run q
    rw [nextUnescGo, qscan]
    by_cases h1 : c = bQuote
    · rw [if_pos h1, if_pos h1]
      by_cases h2 : run % 2 = 0
      · rw [if_pos h2, if_pos h2]
        simp
      · rw [if_neg h2, if_neg h2]
        have := ih (pos + 1) 0 q
        cases hn : nextUnescGo bQuote cs (pos + 1) 0 with
        | none => rw [hn] at this; exact this
        | some n =>
          rw [hn] at this
          obtain ⟨a, b⟩ := this
          refine ⟨by omega, ?_⟩
          rw [b]
          have : n - pos + 1 = (n - (pos + 1) + 1) + 1 := by omega
          rw [this, List.drop_succ_cons]
    · rw [if_neg h1, if_neg h1]
      by_cases h3 : c = bBslash
      · rw [if_pos h3, if_pos h3]
        have := ih (pos + 1) (run + 1) q
        cases hn : nextUnescGo bQuote cs (pos + 1) (run + 1) with
        | none => rw [hn] at this; exact this
        | some n =>
          rw [hn] at this
          obtain ⟨a, b⟩ := this
          refine ⟨by omega, ?_⟩
          rw [b]
          have : n - pos + 1 = (n - (pos + 1) + 1) + 1 := by omega
          rw [this, List.drop_succ_cons]
      · rw [if_neg h3, if_neg h3]
        have := ih (pos + 1) 0 q
        cases hn : nextUnescGo bQuote cs (pos + 1) 0 with
        | none => rw [hn] at this; exact this
        | some n =>
          rw [hn] at this
          obtain ⟨a, b⟩ := this
          refine ⟨by omega, ?_⟩
          rw [b]
          have : n - pos + 1 = (n - (pos + 1) + 1) + 1 := by omega
          rw [this, List.drop_succ_cons]

/-- `isInQuote` is the parity computed by the single pass. -/
theorem isInQuoteGo_eq : ∀ (fuel : Nat) (s : Bytes) (q : Bool), s.length < fuel →
    isInQuoteGo false fuel s q = (qscan s 0 q).1 := by
  intro fuel
  induction fuel with
  | zero => intro s q h; omega
  | succ fuel ih =>
    intro s q h
    rw [isInQuoteGo]
    have key := qscan_of_nextUnescGo s 0 0 q
    unfold nextUnesc
    simp only [Bool.false_eq_true, if_false]
    cases hn : nextUnescGo bQuote s 0 0 with
    | none => rw [hn] at key; simp only; exact key.symm
    | some n =>
      rw [hn] at key
      simp only
      rw [key.2, Nat.sub_zero]
      -- n < s.length, so the rest is shorter
      have hlt : (s.drop (n + 1)).length < fuel := by
        have : n < s.length := by
          apply Classical.byContradiction
          intro hge
          have hd : s.drop (n + 1) = [] := List.drop_eq_nil_of_le (by omega)
          have k2 := key.2
          rw [Nat.sub_zero, hd] at k2
          -- qscan s 0 q).1 = !q while no quote can be found beyond the end: use length bound from nextUnescGo
          have : ∀ (s : Bytes) (pos run m : Nat), nextUnescGo bQuote s pos run = some m → m < pos + s.length := by
            intro s
            induction s with
            | nil => intro pos run m h; simp [nextUnescGo] at h
            | cons c cs ih2 =>
              intro pos run m h
              rw [nextUnescGo] at h
              split at h
              · split at h
                · injection h with h; simp; omega
                · have := ih2 _ _ _ h; simp; omega
              · split at h
                · have := ih2 _ _ _ h; simp; omega
                · have := ih2 _ _ _ h; simp; omega
          have := this s 0 0 n hn
          omega
        simp only [List.length_drop]; omega
      exact ih _ _ hlt

theorem isInQuote_eq (s : Bytes) : isInQuote false s = (qscan s 0 false).1 :=
  isInQuoteGo_eq _ _ _ (by omega)




/-- `u` holds no unescaped quote and leaves an even backslash run (quote parity is unchanged). -/
def QClean (u : Bytes) : Prop := ∀ run q, run % 2 = 0 → ∃ r, qscan u run q = (q, r) ∧ r % 2 = 0

theorem QClean.nil : QClean [] := fun run q h => ⟨run, rfl, h⟩

theorem QClean.append {u v : Bytes} (hu : QClean u) (hv : QClean v) : QClean (u ++ v) := by
  intro run q hr
  obtain ⟨r1, h1, e1⟩ := hu run q hr
  obtain ⟨r2, h2, e2⟩ := hv r1 q e1
  refine ⟨r2, ?_, e2⟩
  rw [qscan_append, h1]; exact h2

theorem QClean.single {c : UInt8} (h1 : c ≠ bQuote) (h2 : c ≠ bBslash) : QClean [c] := by
  intro run q _
  exact ⟨0, by rw [qscan, if_neg h1, if_neg h2]; rfl, rfl⟩

theorem QClean.cons {c : UInt8} {u : Bytes} (h1 : c ≠ bQuote) (h2 : c ≠ bBslash) (hu : QClean u) : QClean (c :: u) :=
  QClean.append (QClean.single h1 h2) hu

theorem QClean.plain {u : Bytes} (h : ∀ c ∈ u, c ≠ bQuote ∧ c ≠ bBslash) : QClean u := by
  induction u with
  | nil => exact QClean.nil
  | cons c cs ih =>
    exact QClean.cons (h c (by simp)).1 (h c (by simp)).2 (ih (fun x hx => h x (by simp [hx])))

theorem quote_not_in_set : escapeSet.contains bQuote = false := by decide

/-- an escaped key without a double quote. -/
theorem QClean.escapeTag (t : Bytes) (hq : ∀ c ∈ t, c ≠ bQuote) : QClean (escapeTag t) := by
  induction t with
  | nil => exact QClean.nil
  | cons c cs ih =>
    have hc : c ≠ bQuote := hq c (by simp)
    have ih := ih (fun x hx => hq x (by simp [hx]))
    rw [escapeTag_cons]
    by_cases hs : escapeSet.contains c = true
    · rw [if_pos hs]
      intro run q hr
      show ∃ r, qscan (bBslash :: c :: OG.C06.escapeTag cs) run q = (q, r) ∧ r % 2 = 0
      rw [qscan, if_neg (by decide), if_pos rfl, qscan, if_neg hc]
      by_cases hb : c = bBslash
      · rw [if_pos hb]; exact ih _ _ (by omega)
      · rw [if_neg hb]; exact ih _ _ rfl
    · rw [if_neg hs]
      have hb : c ≠ bBslash := by intro e; subst e; exact hs bslash_in_set
      exact QClean.cons hc hb ih

/-- the escaped body of a string holds no unescaped quote. -/
theorem QClean.quoteBody (b : Bytes) : QClean (quoteBody b) := by
  induction b with
  | nil => exact QClean.nil
  | cons c cs ih =>
    rw [quoteBody_cons]
    by_cases h1 : c = bBslash
    · subst h1
      rw [if_pos (Or.inl rfl)]
      intro run q hr
      show ∃ r, qscan (bBslash :: bBslash :: OG.C06.quoteBody cs) run q = (q, r) ∧ r % 2 = 0
      rw [qscan, if_neg (by decide), if_pos rfl, qscan, if_neg (by decide), if_pos rfl]
      exact ih _ _ (by omega)
    · by_cases h2 : c = bQuote
      · subst h2
        rw [if_pos (Or.inr rfl)]
        intro run q hr
        show ∃ r, qscan (bBslash :: bQuote :: OG.C06.quoteBody cs) run q = (q, r) ∧ r % 2 = 0
        rw [qscan, if_neg (by decide), if_pos rfl, qscan, if_pos rfl]
        have : ¬ ((run + 1) % 2 = 0) := by omega
        rw [if_neg this]
        exact ih _ _ rfl
      · have : ¬ (c = bBslash ∨ c = bQuote) := by intro h; cases h <;> contradiction
        rw [if_neg this]
        exact QClean.cons h2 h1 ih

/-- a whole quoted string flips the parity twice. -/
theorem qscan_quoteStr (b : Bytes) (run : Nat) (q : Bool) (hr : run % 2 = 0) :
    qscan (quoteStr b) run q = (q, 0) := by
  show qscan (bQuote :: (quoteBody b ++ [bQuote])) run q = (q, 0)
  rw [qscan, if_pos rfl, if_pos hr, qscan_append]
  obtain ⟨r, h1, h2⟩ := QClean.quoteBody b 0 (!q) rfl
  rw [h1]
  simp only
  rw [qscan, if_pos rfl, if_pos h2]
  simp [qscan]

theorem QClean.quoteStr (b : Bytes) : QClean (OG.C06.quoteStr b) := by
  intro run q hr
  exact ⟨0, qscan_quoteStr b run q hr, rfl⟩

/-- an opened string: the parity is flipped once. -/
theorem qscan_open (b : Bytes) (run : Nat) (q : Bool) (hr : run % 2 = 0) :
    (qscan (bQuote :: quoteBody b) run q).1 = !q := by
  rw [qscan, if_pos rfl, if_pos hr]
  obtain ⟨r, h1, _⟩ := QClean.quoteBody b 0 (!q) rfl
  rw [h1]

/-! scanning for a delimiter through a string body -/

theorem Clean.quoteBody {ch : UInt8} (h1 : ch ≠ bQuote) (h2 : ch ≠ bBslash) (b : Bytes) (hb : ∀ c ∈ b, c ≠ ch) :
    Clean ch (quoteBody b) := by
  induction b with
  | nil => exact Clean.nil _
  | cons c cs ih =>
    have ih := ih (fun x hx => hb x (by simp [hx]))
    have hc : c ≠ ch := hb c (by simp)
    rw [quoteBody_cons]
    by_cases e1 : c = bBslash
    · subst e1
      rw [if_pos (Or.inl rfl)]
      intro run hr
      show ∃ r, scanRun ch (bBslash :: bBslash :: OG.C06.quoteBody cs) run = some r ∧ r % 2 = 0
      rw [scanRun, if_neg (Ne.symm h2), if_pos rfl, scanRun, if_neg (Ne.symm h2), if_pos rfl]
      exact ih _ (by omega)
    · by_cases e2 : c = bQuote
      · subst e2
        rw [if_pos (Or.inr rfl)]
        intro run hr
        show ∃ r, scanRun ch (bBslash :: bQuote :: OG.C06.quoteBody cs) run = some r ∧ r % 2 = 0
        rw [scanRun, if_neg (Ne.symm h2), if_pos rfl, scanRun, if_neg (Ne.symm h1), if_neg (by decide)]
        exact ih _ rfl
      · have : ¬ (c = bBslash ∨ c = bQuote) := by intro h; cases h <;> contradiction
        rw [if_neg this]
        exact Clean.cons hc e1 ih

/-- the closing quote is the first unescaped quote after a body. -/
theorem Clean.quoteBody_quote (b : Bytes) : Clean bQuote (OG.C06.quoteBody b) := by
  induction b with
  | nil => exact Clean.nil _
  | cons c cs ih =>
    rw [quoteBody_cons]
    by_cases e1 : c = bBslash
    · subst e1
      rw [if_pos (Or.inl rfl)]
      intro run hr
      show ∃ r, scanRun bQuote (bBslash :: bBslash :: OG.C06.quoteBody cs) run = some r ∧ r % 2 = 0
      rw [scanRun, if_neg (by decide), if_pos rfl, scanRun, if_neg (by decide), if_pos rfl]
      exact ih _ (by omega)
    · by_cases e2 : c = bQuote
      · subst e2
        rw [if_pos (Or.inr rfl)]
        intro run hr
        show ∃ r, scanRun bQuote (bBslash :: bQuote :: OG.C06.quoteBody cs) run = some r ∧ r % 2 = 0
        rw [scanRun, if_neg (by decide), if_pos rfl, scanRun, if_pos rfl]
        have : ¬ ((run + 1) % 2 = 0) := by omega
        rw [if_neg this]
        exact ih _ rfl
      · have : ¬ (c = bBslash ∨ c = bQuote) := by intro h; cases h <;> contradiction
        rw [if_neg this]
        exact Clean.cons e2 e1 ih

theorem Clean.quoteStr {ch : UInt8} (h1 : ch ≠ bQuote) (h2 : ch ≠ bBslash) (b : Bytes) (hb : ∀ c ∈ b, c ≠ ch) :
    Clean ch (OG.C06.quoteStr b) := by
  show Clean ch (bQuote :: (OG.C06.quoteBody b ++ [bQuote]))
  exact Clean.cons (Ne.symm h1) (by decide) (Clean.append (Clean.quoteBody h1 h2 b hb) (Clean.single (Ne.symm h1) (by decide)))

theorem quoteBody_append (a b : Bytes) : quoteBody (a ++ b) = quoteBody a ++ quoteBody b := by
  simp [quoteBody, List.flatMap_append]


end OG.C06
