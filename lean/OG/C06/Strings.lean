/-
C06 — lines with string fields: field segments, the field list, the tail section
(helper lemmas of `line_roundtrip_strings`).
-/
import OG.C06.Segs

namespace OG.C06
open OG.Gen.C06


/-- an escaped token in which `ch` does not occur at all. -/
theorem Clean.escapeTag_absent {ch : UInt8} (hb : ch ≠ bBslash) (t : Bytes) (ht : ∀ c ∈ t, c ≠ ch) :
    Clean ch (OG.C06.escapeTag t) := by
  induction t with
  | nil => exact Clean.nil _
  | cons c cs ih =>
    have hc : c ≠ ch := ht c (by simp)
    have ih := ih (fun x hx => ht x (by simp [hx]))
    rw [escapeTag_cons]
    by_cases hs : escapeSet.contains c = true
    · rw [if_pos hs]
      intro run hr
      show ∃ r, scanRun ch (bBslash :: c :: OG.C06.escapeTag cs) run = some r ∧ r % 2 = 0
      rw [scanRun, if_neg (Ne.symm hb), if_pos rfl, scanRun, if_neg hc]
      by_cases hbb : c = bBslash
      · rw [if_pos hbb]; exact ih _ (by omega)
      · rw [if_neg hbb]; exact ih _ rfl
    · rw [if_neg hs]
      have hbb : c ≠ bBslash := by intro e; subst e; exact hs bslash_in_set
      exact Clean.cons hc hbb ih

/-- the segments of one field. -/
def fieldSegs : SField → Segs
  | .num k tok _ => .last (escapeTag k ++ bEq :: tok)
  | .str k b => .cons (escapeTag k ++ [bEq]) b (.last [])

theorem fieldSegs_render (f : SField) : (fieldSegs f).render = f.text := by
  cases f <;> simp [fieldSegs, Segs.render, SField.text, SField.key, SField.valueText]

theorem SField.key_ok {f : SField} (h : f.Ok) : f.key ≠ [] ∧ f.key.length ≤ maxFieldNameLength ∧ (∀ c ∈ f.key, c ≠ bQuote) := by
  cases f with
  | num k tok v => exact ⟨h.1, h.2.1, h.2.2.1⟩
  | str k b => exact ⟨h.1, h.2.1, h.2.2⟩

theorem qclean_plainTok {tok : Bytes} (h : PlainTok tok) : QClean tok :=
  QClean.plain (fun c hc => ⟨(h c hc).2.2.1, (h c hc).2.2.2⟩)

theorem fieldSegs_valid {ch : UInt8} (hs : escapeSet.contains ch = true) (hb : ch ≠ bBslash) (he : ch ≠ bEq)
    (hsp : ch = bSpace ∨ ch = bComma) (f : SField) (h : f.Ok) : (fieldSegs f).Valid ch := by
  cases f with
  | num k tok v =>
    refine ⟨Clean.append (Clean.escapeTag hs hb _) (Clean.cons (Ne.symm he) (by decide) (Clean.plain ?_)),
      QClean.append (QClean.escapeTag k h.2.2.1) (QClean.cons (by decide) (by decide) (qclean_plainTok h.2.2.2.1))⟩
    intro c hc
    have := h.2.2.2.1 c hc
    rcases hsp with e | e <;> subst e
    · exact ⟨this.1, this.2.2.2⟩
    · exact ⟨this.2.1, this.2.2.2⟩
  | str k b =>
    exact ⟨Clean.append (Clean.escapeTag hs hb _) (Clean.single (Ne.symm he) (by decide)),
      QClean.append (QClean.escapeTag k h.2.2) (QClean.single (by decide) (by decide)),
      Clean.nil _, QClean.nil⟩

/-- the segments of a field list joined by commas. -/
def fieldsSegs : List SField → Segs
  | [] => .last []
  | [f] => fieldSegs f
  | (.num k tok _) :: f' :: fs => (fieldsSegs (f' :: fs)).prepend (escapeTag k ++ bEq :: tok ++ [bComma])
  | (.str k b) :: f' :: fs => .cons (escapeTag k ++ [bEq]) b ((fieldsSegs (f' :: fs)).prepend [bComma])

theorem fieldsSegs_render : ∀ fs : List SField, (fieldsSegs fs).render = showSFields fs
  | [] => rfl
  | [f] => by simp [fieldsSegs, fieldSegs_render, showSFields]
  | (.num k tok v) :: f' :: fs => by
    have := fieldsSegs_render (f' :: fs)
    simp [fieldsSegs, Segs.render_prepend, this, showSFields, SField.text, SField.key, SField.valueText]
  | (.str k b) :: f' :: fs => by
    have := fieldsSegs_render (f' :: fs)
    simp [fieldsSegs, Segs.render, Segs.render_prepend, this, showSFields, SField.text, SField.key, SField.valueText]

theorem fieldsSegs_valid_space : ∀ fs : List SField, (∀ f ∈ fs, f.Ok) → (fieldsSegs fs).Valid bSpace
  | [], _ => ⟨Clean.nil _, QClean.nil⟩
  | [f], h => fieldSegs_valid space_in_set (by decide) (by decide) (Or.inl rfl) f (h f (by simp))
  | (.num k tok v) :: f' :: fs, h => by
    have hf : (SField.num k tok v).Ok := h _ (by simp)
    have ih := fieldsSegs_valid_space (f' :: fs) (fun x hx => h x (by simp [hx]))
    have hv := fieldSegs_valid space_in_set (by decide) (by decide) (Or.inl rfl) _ hf
    simp only [fieldsSegs]
    have e : escapeTag k ++ bEq :: tok ++ [bComma] = (escapeTag k ++ bEq :: tok) ++ [bComma] := by simp
    rw [e]
    exact Segs.valid_prepend (Clean.append hv.1 (Clean.single (by decide) (by decide)))
      (QClean.append hv.2 (QClean.single (by decide) (by decide))) ih
  | (.str k b) :: f' :: fs, h => by
    have hf : (SField.str k b).Ok := h _ (by simp)
    have ih := fieldsSegs_valid_space (f' :: fs) (fun x hx => h x (by simp [hx]))
    have hv := fieldSegs_valid space_in_set (by decide) (by decide) (Or.inl rfl) _ hf
    simp only [fieldsSegs]
    exact ⟨hv.1, hv.2.1, Segs.valid_prepend (Clean.single (by decide) (by decide)) (QClean.single (by decide) (by decide)) ih⟩




theorem no_quote_plain {tok : Bytes} (h : PlainTok tok) : ∀ c ∈ (bEq :: tok), c ≠ bQuote := by
  intro c hc
  rcases List.mem_cons.mp hc with e | e
  · rw [e]; decide
  · exact (h c e).2.2.1

/-- `Field.unmarshal` on a printed field; a string field needs `hasQuotedFields`. -/
theorem parseSField_roundtrip (f : SField) (h : f.Ok) (hq : Bool) (hstr : f.isStr = true → hq = true) :
    parseField false hq f.text = .ok f.field := by
  have hk := SField.key_ok h
  unfold parseField SField.text
  rw [nextUnesc_found (Clean.escapeTag eq_in_set (by decide) _)]
  simp only [take_append_len, drop_append_len1, unescapeTag, Bool.false_eq_true, if_false, unescGo_escapeTag]
  have h1 : ¬ f.key.length > maxFieldNameLength := by have := hk.2.1; omega
  rw [isEmpty_false hk.1]
  simp only [Bool.false_eq_true, if_false, h1]
  have hdrop : (escapeTag f.key ++ bEq :: f.valueText).drop (escapeTag f.key).length = bEq :: f.valueText := by simp
  rw [hdrop]
  cases f with
  | num k tok v =>
    have : nextUnesc false bQuote (bEq :: tok) = none := nextUnesc_absent (no_quote_plain h.2.2.2.1)
    simp only [SField.valueText, this, Option.isSome_none, Bool.and_false, Bool.false_eq_true, if_false, h.2.2.2.2, SField.field, SField.key]
  | str k b =>
    have hq' : hq = true := hstr rfl
    subst hq'
    have : nextUnesc false bQuote (bEq :: quoteStr b) = some 1 :=
      nextUnesc_found (ch := bQuote) (u := [bEq]) (Clean.single (by decide) (by decide)) (quoteBody b ++ [bQuote])
    simp only [SField.valueText, this, Option.isSome_some, Bool.and_self, if_true, parseStr_quoteStr, SField.field, SField.key]




/-- a field's text is clean for a delimiter when it is not a string field. -/
theorem clean_num_text {ch : UInt8} (hs : escapeSet.contains ch = true) (hb : ch ≠ bBslash) (he : ch ≠ bEq)
    (hsp : ch = bSpace ∨ ch = bComma) (f : SField) (h : f.Ok) (hn : f.isStr = false) : Clean ch f.text := by
  have := fieldSegs_valid hs hb he hsp f h
  cases f with
  | num k tok v => simpa [fieldSegs, Segs.Valid, SField.text, SField.key, SField.valueText] using this.1
  | str k b => simp [SField.isStr] at hn

/-- the comma after a printed field is found by `nextUnquotedChar`, on either setting of
`hasQuotedFields` the field allows. -/
theorem nextUnquoted_comma_found (f : SField) (h : f.Ok) (hq : Bool) (hstr : f.isStr = true → hq = true) (rest : Bytes) :
    nextUnquoted false hq bComma (f.text ++ bComma :: rest) = some f.text.length := by
  cases hq with
  | false =>
    have hn : f.isStr = false := by cases hf : f.isStr with | false => rfl | true => exact absurd (hstr hf) (by decide)
    simp only [nextUnquoted, Bool.not_false, if_true]
    exact nextUnesc_found (clean_num_text comma_in_set (by decide) (by decide) (Or.inr rfl) f h hn) rest
  | true =>
    simp only [nextUnquoted, Bool.not_true, Bool.false_eq_true, if_false]
    have := nextUnquotedGo_found (ch := bComma) (by decide) (by decide) (fieldSegs f)
      (fieldSegs_valid comma_in_set (by decide) (by decide) (Or.inr rfl) f h) [] (Clean.nil _) QClean.nil rest
      ((f.text ++ bComma :: rest).length + 1) 0 (by simp [fieldSegs_render]; omega)
    simpa [fieldSegs_render] using this

theorem nextUnquoted_comma_none (f : SField) (h : f.Ok) (hq : Bool) (hstr : f.isStr = true → hq = true) :
    nextUnquoted false hq bComma f.text = none := by
  cases hq with
  | false =>
    have hn : f.isStr = false := by cases hf : f.isStr with | false => rfl | true => exact absurd (hstr hf) (by decide)
    simp only [nextUnquoted, Bool.not_false, if_true]
    exact nextUnesc_none (clean_num_text comma_in_set (by decide) (by decide) (Or.inr rfl) f h hn)
  | true =>
    simp only [nextUnquoted, Bool.not_true, Bool.false_eq_true, if_false]
    have := nextUnquotedGo_none (ch := bComma) (by decide) (by decide) (fieldSegs f)
      (fieldSegs_valid comma_in_set (by decide) (by decide) (Or.inr rfl) f h) [] (Clean.nil _) QClean.nil
      (f.text.length + 1) 0 (by simp [fieldSegs_render])
    simpa [fieldSegs_render] using this

/-- **the field list, string fields included, is read back as written.** -/
theorem parseSFields_roundtrip (hq : Bool) : ∀ (fs : List SField) (fuel : Nat), fs ≠ [] → (∀ f ∈ fs, f.Ok) →
    (∀ f ∈ fs, f.isStr = true → hq = true) → fs.length ≤ fuel →
    parseFields false hq fuel (showSFields fs) = .ok (fs.map SField.field)
  | [], _, h, _, _, _ => absurd rfl h
  | [f], fuel, _, hok, hs, hf => by
    cases fuel with
    | zero => simp at hf
    | succ fuel =>
      have h1 := hok f (by simp)
      have h2 := hs f (by simp)
      simp only [List.map_cons, List.map_nil, showSFields]
      rw [parseFields, nextUnquoted_comma_none f h1 hq h2, parseSField_roundtrip f h1 hq h2]
      rfl
  | f :: f' :: fs, fuel, _, hok, hs, hf => by
    cases fuel with
    | zero => simp at hf
    | succ fuel =>
      have h1 := hok f (by simp)
      have h2 := hs f (by simp)
      have ih := parseSFields_roundtrip hq (f' :: fs) fuel (by simp) (fun x hx => hok x (by simp [hx]))
        (fun x hx => hs x (by simp [hx])) (by simp at hf ⊢; omega)
      simp only [List.map_cons, showSFields] at ih ⊢
      rw [parseFields, nextUnquoted_comma_found f h1 hq h2]
      simp only [take_append_len, drop_append_len1, parseSField_roundtrip f h1 hq h2, ih]
      rfl




theorem fieldsSegs_all_num : ∀ fs : List SField, (∀ f ∈ fs, f.isStr = false) → fieldsSegs fs = .last (showSFields fs)
  | [], _ => rfl
  | [f], h => by
    have := h f (by simp)
    cases f with
    | num k tok v => simp [fieldsSegs, fieldSegs, showSFields, SField.text, SField.key, SField.valueText]
    | str k b => simp [SField.isStr] at this
  | f :: f' :: fs, h => by
    have h0 := h f (by simp)
    have ih := fieldsSegs_all_num (f' :: fs) (fun x hx => h x (by simp [hx]))
    cases f with
    | num k tok v =>
      simp [fieldsSegs, ih, Segs.prepend, showSFields, SField.text, SField.key, SField.valueText]
    | str k b => simp [SField.isStr] at h0

theorem all_num_of_hq_false {fs : List SField} (hstr : ∀ f ∈ fs, f.isStr = true → false = true) : ∀ f ∈ fs, f.isStr = false := by
  intro f hf
  cases h : f.isStr with
  | false => rfl
  | true => exact absurd (hstr f hf h) (by decide)

theorem nextUnquoted_space_found (fs : List SField) (hok : ∀ f ∈ fs, f.Ok) (hq : Bool)
    (hstr : ∀ f ∈ fs, f.isStr = true → hq = true) (rest : Bytes) :
    nextUnquoted false hq bSpace (showSFields fs ++ bSpace :: rest) = some (showSFields fs).length := by
  have hv := fieldsSegs_valid_space fs hok
  cases hq with
  | false =>
    rw [fieldsSegs_all_num fs (all_num_of_hq_false hstr)] at hv
    simp only [nextUnquoted, Bool.not_false, if_true]
    exact nextUnesc_found hv.1 rest
  | true =>
    simp only [nextUnquoted, Bool.not_true, Bool.false_eq_true, if_false]
    have := nextUnquotedGo_found (ch := bSpace) (by decide) (by decide) (fieldsSegs fs) hv [] (Clean.nil _) QClean.nil rest
      ((showSFields fs ++ bSpace :: rest).length + 1) 0 (by simp [fieldsSegs_render]; omega)
    simpa [fieldsSegs_render] using this

theorem nextUnquoted_space_none (fs : List SField) (hok : ∀ f ∈ fs, f.Ok) (hq : Bool)
    (hstr : ∀ f ∈ fs, f.isStr = true → hq = true) :
    nextUnquoted false hq bSpace (showSFields fs) = none := by
  have hv := fieldsSegs_valid_space fs hok
  cases hq with
  | false =>
    rw [fieldsSegs_all_num fs (all_num_of_hq_false hstr)] at hv
    simp only [nextUnquoted, Bool.not_false, if_true]
    exact nextUnesc_none hv.1
  | true =>
    simp only [nextUnquoted, Bool.not_true, Bool.false_eq_true, if_false]
    have := nextUnquotedGo_none (ch := bSpace) (by decide) (by decide) (fieldsSegs fs) hv [] (Clean.nil _) QClean.nil
      ((showSFields fs).length + 1) 0 (by simp [fieldsSegs_render])
    simpa [fieldsSegs_render] using this

/-- text that the quote scanner walks through. -/
theorem clean_quote_key (f : SField) (h : f.Ok) : Clean bQuote (escapeTag f.key ++ [bEq]) :=
  Clean.append (Clean.escapeTag_absent (by decide) _ (SField.key_ok h).2.2) (Clean.single (by decide) (by decide))

/-- a string field makes `hasQuotedFields` true. -/
theorem hasQuote_of_str : ∀ (fs : List SField), (∀ f ∈ fs, f.Ok) → (∃ f ∈ fs, f.isStr = true) →
    ∀ (pre rest : Bytes), Clean bQuote pre → (nextUnesc false bQuote (pre ++ (showSFields fs ++ rest))).isSome = true
  | [], _, h, _, _, _ => by obtain ⟨f, hf, _⟩ := h; simp at hf
  | f :: fs, hok, hex, pre, rest, hpre => by
    have hf := hok f (by simp)
    cases f with
    | str k b =>
      have hc : Clean bQuote (pre ++ (escapeTag k ++ [bEq])) := Clean.append hpre (clean_quote_key _ hf)
      have e : ∃ tail, pre ++ (showSFields (SField.str k b :: fs) ++ rest) = (pre ++ (escapeTag k ++ [bEq])) ++ bQuote :: tail := by
        cases fs with
        | nil => exact ⟨quoteBody b ++ [bQuote] ++ rest, by simp [showSFields, SField.text, SField.key, SField.valueText, quoteStr, quoteBody]⟩
        | cons f' fs => exact ⟨quoteBody b ++ [bQuote] ++ bComma :: showSFields (f' :: fs) ++ rest, by simp [showSFields, SField.text, SField.key, SField.valueText, quoteStr, quoteBody]⟩
      obtain ⟨tail, e⟩ := e
      rw [e, nextUnesc_found hc]; rfl
    | num k tok v =>
      have hex' : ∃ g ∈ fs, g.isStr = true := by
        obtain ⟨g, hg, hs⟩ := hex
        rcases List.mem_cons.mp hg with e | e
        · subst e; simp [SField.isStr] at hs
        · exact ⟨g, e, hs⟩
      cases fs with
      | nil => obtain ⟨g, hg, _⟩ := hex'; simp at hg
      | cons f' fs =>
        have hc : Clean bQuote (pre ++ (escapeTag k ++ bEq :: tok ++ [bComma])) := by
          apply Clean.append hpre
          have e : escapeTag k ++ bEq :: tok ++ [bComma] = (escapeTag k ++ [bEq]) ++ (tok ++ [bComma]) := by simp
          rw [e]
          exact Clean.append (clean_quote_key (SField.num k tok v) hf)
            (Clean.append (Clean.plain (fun c hc => ⟨(hf.2.2.2.1 c hc).2.2.1, (hf.2.2.2.1 c hc).2.2.2⟩)) (Clean.single (by decide) (by decide)))
        have ih := hasQuote_of_str (f' :: fs) (fun x hx => hok x (by simp [hx])) hex' (pre ++ (escapeTag k ++ bEq :: tok ++ [bComma])) rest hc
        have e : pre ++ (showSFields (SField.num k tok v :: f' :: fs) ++ rest)
            = (pre ++ (escapeTag k ++ bEq :: tok ++ [bComma])) ++ (showSFields (f' :: fs) ++ rest) := by
          simp [showSFields, SField.text, SField.key, SField.valueText]
        rw [e]; exact ih




theorem showSFields_length : ∀ fs : List SField, fs.length ≤ (showSFields fs).length
  | [] => by simp
  | [f] => by simp [showSFields, SField.text]; omega
  | f :: f' :: fs => by
    have := showSFields_length (f' :: fs)
    simp only [showSFields, SField.text, List.length_append, List.length_cons] at this ⊢
    omega

theorem showSFields_head (fs : List SField) (hne : fs ≠ []) (hok : ∀ f ∈ fs, f.Ok) (rest : Bytes) :
    ∃ c cs, showSFields fs ++ rest = c :: cs ∧ c ≠ bSpace := by
  cases fs with
  | nil => exact absurd rfl hne
  | cons f fs =>
    have hk := SField.key_ok (hok f (by simp))
    have key : ∀ tail : Bytes, ∃ c cs, escapeTag f.key ++ tail = c :: cs ∧ c ≠ bSpace := by
      intro tail
      cases hkk : f.key with
      | nil => exact absurd hkk hk.1
      | cons d ds =>
        rw [escapeTag_cons]
        by_cases hd : escapeSet.contains d = true
        · rw [if_pos hd]; exact ⟨bBslash, _, rfl, by decide⟩
        · rw [if_neg hd]; exact ⟨d, _, rfl, by intro e; subst e; exact hd (by decide)⟩
    cases fs with
    | nil =>
      simp only [showSFields, SField.text, List.append_assoc]
      exact key _
    | cons f' fs =>
      simp only [showSFields, SField.text, List.append_assoc]
      exact key _

/-- fields (of every type) and timestamp of the tail section. -/
theorem tail_section_s (p : SPoint) (hf0 : p.fields ≠ []) (hfs : ∀ f ∈ p.fields, f.Ok) (hts : tsOk p.ts)
    (name : Bytes) (tags : List Tag) :
    parseTail false name tags (showSFields p.fields ++ showTs p.ts)
      = .ok ⟨name, tags, p.fields.map SField.field, tsOf p.ts⟩ := by
  unfold parseTail
  simp only
  generalize hq : (nextUnesc false bQuote (showSFields p.fields ++ showTs p.ts)).isSome = q
  have hstr : ∀ f ∈ p.fields, f.isStr = true → q = true := by
    intro f hf hs
    have := hasQuote_of_str p.fields hfs ⟨f, hf, hs⟩ [] (showTs p.ts) (Clean.nil _)
    simp only [List.nil_append] at this
    rw [← hq, this]
  have hlen := showSFields_length p.fields
  cases hp : p.ts with
  | none =>
    simp only [showTs, List.append_nil]
    rw [nextUnquoted_space_none p.fields hfs q hstr]
    simp only
    rw [parseSFields_roundtrip q p.fields _ hf0 hfs hstr (by omega)]
    rfl
  | some t =>
    simp only [showTs]
    rw [nextUnquoted_space_found p.fields hfs q hstr]
    simp only [take_append_len, drop_append_len1]
    rw [parseSFields_roundtrip q p.fields _ hf0 hfs hstr (by omega)]
    obtain ⟨c, cs, hc, hne⟩ := showNat_head t
    simp only
    have htv : (t : Int) ≤ maxInt64 := by rw [hp] at hts; exact hts
    rw [hc, stripSpaces_of_head hne, ← hc, parseTimestamp_showNat t htv]
    rfl




theorem splitLinesGo_noNL : ∀ (s cur : Bytes), (∀ c ∈ s, c ≠ bNL) →
    splitLinesGo s cur = if (cur.reverse ++ s).isEmpty then [] else [cur.reverse ++ s] := by
  intro s
  induction s with
  | nil =>
    intro cur _
    rw [splitLinesGo]
    cases cur <;> simp
  | cons c cs ih =>
    intro cur h
    rw [splitLinesGo, if_neg (h c (by simp)), ih (c :: cur) (fun x hx => h x (by simp [hx]))]
    simp

theorem splitLines_noNL (s : Bytes) (h : ∀ c ∈ s, c ≠ bNL) (hne : s ≠ []) : splitLines s = [s] := by
  unfold splitLines
  rw [splitLinesGo_noNL s [] h]
  cases s with
  | nil => exact absurd rfl hne
  | cons c cs => simp

theorem parseLine_of_row (noEsc : Bool) (s : Bytes) (r : Row) (hs : LineShape s) (h : parseRow noEsc s = .ok r) :
    parseLine noEsc s = .row r := by
  unfold parseLine
  rw [if_neg hs.2.1]
  cases s with
  | nil => exact absurd rfl hs.2.2.2
  | cons c cs =>
    have : c ≠ bHash := by intro e; exact hs.2.2.1 (by simp [e])
    simp only [this, if_false, h]


end OG.C06
