/-
C06 — `nextUnquotedChar` over plain text interleaved with quoted strings.
-/
import OG.C06.Quote

namespace OG.C06
open OG.Gen.C06


/-- plain text interleaved with quoted strings: `p₀ "b₁" p₁ "b₂" … pₖ`. -/
inductive Segs where
  | last (p : Bytes)
  | cons (p body : Bytes) (rest : Segs)

def Segs.render : Segs → Bytes
  | .last p => p
  | .cons p b r => p ++ quoteStr b ++ r.render

/-- every plain part shows no unescaped delimiter and no unescaped quote. -/
def Segs.Valid (ch : UInt8) : Segs → Prop
  | .last p => Clean ch p ∧ QClean p
  | .cons p _ r => Clean ch p ∧ QClean p ∧ r.Valid ch

def Segs.prepend (x : Bytes) : Segs → Segs
  | .last p => .last (x ++ p)
  | .cons p b r => .cons (x ++ p) b r

theorem Segs.render_prepend (x : Bytes) (s : Segs) : (s.prepend x).render = x ++ s.render := by
  cases s <;> simp [Segs.prepend, Segs.render]

theorem Segs.valid_prepend {ch : UInt8} {x : Bytes} {s : Segs} (hx : Clean ch x) (hq : QClean x) (hs : s.Valid ch) :
    (s.prepend x).Valid ch := by
  cases s with
  | last p => exact ⟨Clean.append hx hs.1, QClean.append hq hs.2⟩
  | cons p b r => exact ⟨Clean.append hx hs.1, QClean.append hq hs.2.1, hs.2.2⟩

theorem isInQuote_of_QClean {u : Bytes} (h : QClean u) : isInQuote false u = false := by
  rw [isInQuote_eq]
  obtain ⟨r, h1, _⟩ := h 0 false rfl
  rw [h1]

theorem isInQuote_open {u : Bytes} (h : QClean u) (b : Bytes) : isInQuote false (u ++ bQuote :: quoteBody b) = true := by
  rw [isInQuote_eq, qscan_append]
  obtain ⟨r, h1, h2⟩ := h 0 false rfl
  rw [h1]
  simp only
  rw [qscan_open b r false h2]; rfl

/-- first occurrence of `ch` in `b`. -/
theorem split_first (ch : UInt8) : ∀ (b : Bytes), (∃ c ∈ b, c = ch) →
    ∃ b1 b2, b = b1 ++ ch :: b2 ∧ ∀ c ∈ b1, c ≠ ch := by
  intro b
  induction b with
  | nil => intro h; obtain ⟨c, hc, _⟩ := h; simp at hc
  | cons d ds ih =>
    intro h
    by_cases hd : d = ch
    · exact ⟨[], ds, by simp [hd], by simp⟩
    · have : ∃ c ∈ ds, c = ch := by
        obtain ⟨c, hc, e⟩ := h
        rcases List.mem_cons.mp hc with h1 | h1
        · subst e; exact absurd h1.symm hd
        · exact ⟨c, h1, e⟩
      obtain ⟨b1, b2, e, hb⟩ := ih this
      refine ⟨d :: b1, b2, by simp [e], ?_⟩
      intro c hc
      rcases List.mem_cons.mp hc with h1 | h1
      · rw [h1]; exact hd
      · exact hb c h1

theorem quoteStr_length (b : Bytes) : (quoteStr b).length = (quoteBody b).length + 2 := by
  show (bQuote :: (quoteBody b ++ [bQuote])).length = _
  simp

/-- **`nextUnquotedChar` finds the delimiter that follows a sequence of plain parts and
quoted strings** — blanks, commas, escaped quotes and backslashes inside the strings
notwithstanding. -/
theorem nextUnquotedGo_found {ch : UInt8} (h1 : ch ≠ bQuote) (h2 : ch ≠ bBslash) :
    ∀ (segs : Segs), segs.Valid ch → ∀ (pre : Bytes), Clean ch pre → QClean pre →
    ∀ (rest : Bytes) (fuel off : Nat), (pre ++ segs.render).length < fuel →
    nextUnquotedGo false ch fuel ((pre ++ segs.render) ++ ch :: rest) off = some (off + (pre ++ segs.render).length) := by
  intro segs
  induction segs with
  | last p =>
    intro hv pre hc hq rest fuel off hf
    cases fuel with
    | zero => omega
    | succ fuel =>
      simp only [Segs.render]
      rw [nextUnquotedGo, nextUnesc_found (Clean.append hc hv.1)]
      simp only [take_append_len]
      rw [isInQuote_of_QClean (QClean.append hq hv.2)]
      rfl
  | cons p b r ih =>
    intro hv pre hc hq rest fuel off hf
    by_cases hb : ∃ c ∈ b, c = ch
    · -- the first raw delimiter lies inside this string
      obtain ⟨b1, b2, e, hb1⟩ := split_first ch b hb
      cases fuel with
      | zero => omega
      | succ fuel =>
        have hX : Clean ch ((pre ++ p) ++ bQuote :: quoteBody b1) :=
          Clean.append (Clean.append hc hv.1) (Clean.cons (Ne.symm h1) (by decide) (Clean.quoteBody h1 h2 b1 hb1))
        have hs : (pre ++ (Segs.cons p b r).render) ++ ch :: rest
            = ((pre ++ p) ++ bQuote :: quoteBody b1) ++ ch :: (quoteBody b2 ++ bQuote :: (r.render ++ ch :: rest)) := by
          simp only [Segs.render, e, quoteStr, quoteBody_append, quoteBody_cons]
          have : ¬ (ch = bBslash ∨ ch = bQuote) := by intro h; cases h <;> contradiction
          simp [this, quoteBody]
        rw [hs, nextUnquotedGo, nextUnesc_found hX]
        simp only [take_append_len, drop_append_len1]
        rw [isInQuote_open (QClean.append hq hv.2.1)]
        simp only [Bool.not_true, Bool.false_eq_true, if_false]
        rw [nextUnesc_found (Clean.quoteBody_quote b2)]
        simp only [drop_append_len1]
        have := ih hv.2.2 [] (Clean.nil _) QClean.nil rest fuel
          (off + ((pre ++ p) ++ bQuote :: quoteBody b1).length + 1 + (quoteBody b2).length + 1)
          (by
            simp only [List.nil_append]
            simp only [Segs.render, e, List.length_append, quoteStr_length, quoteBody_append, quoteBody_cons, List.length_cons] at hf
            omega)
        simp only [List.nil_append] at this
        rw [this]
        congr 1
        simp only [Segs.render, e, List.length_append, quoteStr_length, quoteBody_append, quoteBody_cons, List.length_cons]
        have : ¬ (ch = bBslash ∨ ch = bQuote) := by intro h; cases h <;> contradiction
        simp only [if_neg this, List.length_cons, List.length_nil]
        omega
    · -- the scanner walks through the whole string
      have hb' : ∀ c ∈ b, c ≠ ch := fun c hc e => hb ⟨c, hc, e⟩
      have := ih hv.2.2 ((pre ++ p) ++ quoteStr b)
        (Clean.append (Clean.append hc hv.1) (Clean.quoteStr h1 h2 b hb'))
        (QClean.append (QClean.append hq hv.2.1) (QClean.quoteStr b)) rest fuel off
        (by simp only [Segs.render, List.append_assoc] at hf ⊢; exact hf)
      simp only [Segs.render]
      simp only [List.append_assoc] at this ⊢
      exact this




/-- no delimiter outside the strings, and nothing follows: `nextUnquotedChar` answers -1. -/
theorem nextUnquotedGo_none {ch : UInt8} (h1 : ch ≠ bQuote) (h2 : ch ≠ bBslash) :
    ∀ (segs : Segs), segs.Valid ch → ∀ (pre : Bytes), Clean ch pre → QClean pre →
    ∀ (fuel off : Nat), (pre ++ segs.render).length < fuel →
    nextUnquotedGo false ch fuel (pre ++ segs.render) off = none := by
  intro segs
  induction segs with
  | last p =>
    intro hv pre hc hq fuel off hf
    cases fuel with
    | zero => omega
    | succ fuel =>
      simp only [Segs.render]
      rw [nextUnquotedGo, nextUnesc_none (Clean.append hc hv.1)]
  | cons p b r ih =>
    intro hv pre hc hq fuel off hf
    by_cases hb : ∃ c ∈ b, c = ch
    · obtain ⟨b1, b2, e, hb1⟩ := split_first ch b hb
      cases fuel with
      | zero => omega
      | succ fuel =>
        have hX : Clean ch ((pre ++ p) ++ bQuote :: quoteBody b1) :=
          Clean.append (Clean.append hc hv.1) (Clean.cons (Ne.symm h1) (by decide) (Clean.quoteBody h1 h2 b1 hb1))
        have hs : pre ++ (Segs.cons p b r).render
            = ((pre ++ p) ++ bQuote :: quoteBody b1) ++ ch :: (quoteBody b2 ++ bQuote :: r.render) := by
          simp only [Segs.render, e, quoteStr, quoteBody_append, quoteBody_cons]
          have : ¬ (ch = bBslash ∨ ch = bQuote) := by intro h; cases h <;> contradiction
          simp [this, quoteBody]
        rw [hs, nextUnquotedGo, nextUnesc_found hX]
        simp only [take_append_len, drop_append_len1]
        rw [isInQuote_open (QClean.append hq hv.2.1)]
        simp only [Bool.not_true, Bool.false_eq_true, if_false]
        rw [nextUnesc_found (Clean.quoteBody_quote b2)]
        simp only [drop_append_len1]
        have := ih hv.2.2 [] (Clean.nil _) QClean.nil fuel
          (off + ((pre ++ p) ++ bQuote :: quoteBody b1).length + 1 + (quoteBody b2).length + 1)
          (by
            simp only [List.nil_append]
            simp only [Segs.render, e, List.length_append, quoteStr_length, quoteBody_append, quoteBody_cons, List.length_cons] at hf
            omega)
        simp only [List.nil_append] at this
        exact this
    · have hb' : ∀ c ∈ b, c ≠ ch := fun c hc e => hb ⟨c, hc, e⟩
      have := ih hv.2.2 ((pre ++ p) ++ quoteStr b)
        (Clean.append (Clean.append hc hv.1) (Clean.quoteStr h1 h2 b hb'))
        (QClean.append (QClean.append hq hv.2.1) (QClean.quoteStr b)) fuel off
        (by simp only [Segs.render, List.append_assoc] at hf ⊢; exact hf)
      simp only [Segs.render]
      simp only [List.append_assoc] at this ⊢
      exact this


end OG.C06
