/-
C06 — helper lemmas (core Lean only; no Mathlib is needed).
-/
import OG.C06.Grammar

namespace OG.C06
open OG.Gen.C06

/-! ### escape / unescape of measurement, keys and tag values -/


theorem bslash_in_set : escapeSet.contains bBslash = true := by decide

theorem escapeTag_cons (c : UInt8) (cs : Bytes) :
    escapeTag (c :: cs) = (if escapeSet.contains c then [bBslash, c] else [c]) ++ escapeTag cs := by
  simp only [escapeTag, List.flatMap_cons]

theorem unescGo_escapeTag (s : Bytes) : unescGo (escapeTag s) = s := by
  induction s with
  | nil => rfl
  | cons c cs ih =>
    rw [escapeTag_cons]
    by_cases h : escapeSet.contains c = true
    · rw [if_pos h]
      show unescGo (bBslash :: c :: escapeTag cs) = c :: cs
      rw [unescGo, if_pos rfl, if_pos h, ih]
    · rw [if_neg h]
      have hc : c ≠ bBslash := by
        intro e; subst e; exact h bslash_in_set
      show unescGo (c :: escapeTag cs) = c :: cs
      generalize hr : escapeTag cs = r at ih
      cases r with
      | nil => rw [unescGo]; simp [unescGo] at ih; rw [← ih]
      | cons d ds => rw [unescGo, if_neg hc, ih]

/-- no backslash in the escaped text: nothing was escaped. -/
theorem escapeTag_noBslash (s : Bytes) (h : ¬ (escapeTag s).contains bBslash) : escapeTag s = s := by
  induction s with
  | nil => rfl
  | cons c cs ih =>
    rw [escapeTag_cons] at h ⊢
    by_cases hc : escapeSet.contains c = true
    · rw [if_pos hc] at h; simp [bBslash] at h
    · rw [if_neg hc] at h ⊢
      simp only [List.cons_append, List.nil_append, List.contains_cons, Bool.or_eq_true, not_or] at h
      rw [List.cons_append, List.nil_append, ih (by simpa using h.2)]

/-! ### quoted strings -/


theorem quoteBody_cons (c : UInt8) (cs : Bytes) :
    quoteBody (c :: cs) = (if c = bBslash ∨ c = bQuote then [bBslash, c] else [c]) ++ quoteBody cs := by
  simp only [quoteBody, List.flatMap_cons]

theorem quote_ne_bslash : bQuote ≠ bBslash := by decide

theorem replicate_succ_append (j : Nat) (c : UInt8) (l : Bytes) :
    List.replicate (j + 1) c ++ l = List.replicate j c ++ c :: l := by
  induction j with
  | zero => rfl
  | succ j ih => rw [List.replicate_succ, List.cons_append, ih]; rfl

theorem unquoteRun_quoteBody (s : Bytes) : ∀ j, unquoteRun (quoteBody s) (2 * j) = List.replicate j bBslash ++ s := by
  induction s with
  | nil => intro j; simp [quoteBody, unquoteRun]; omega
  | cons c cs ih =>
    intro j
    rw [quoteBody_cons]
    by_cases h1 : c = bBslash
    · subst h1
      rw [if_pos (Or.inl rfl)]
      show unquoteRun (bBslash :: bBslash :: quoteBody cs) (2 * j) = _
      rw [unquoteRun, if_pos rfl, unquoteRun, if_pos rfl]
      have : 2 * j + 1 + 1 = 2 * (j + 1) := by omega
      rw [this, ih, replicate_succ_append]
    · by_cases h2 : c = bQuote
      · subst h2
        rw [if_pos (Or.inr rfl)]
        show unquoteRun (bBslash :: bQuote :: quoteBody cs) (2 * j) = _
        rw [unquoteRun, if_pos rfl, unquoteRun, if_neg quote_ne_bslash, if_pos rfl]
        have h0 := ih 0
        simp only [Nat.mul_zero, List.replicate_zero, List.nil_append] at h0
        rw [h0]
        have : (2 * j + 1) / 2 = j := by omega
        rw [this]
      · have : ¬ (c = bBslash ∨ c = bQuote) := by intro h; cases h <;> contradiction
        rw [if_neg this]
        show unquoteRun (c :: quoteBody cs) (2 * j) = _
        rw [unquoteRun, if_neg h1, if_neg h2]
        have h0 := ih 0
        simp only [Nat.mul_zero, List.replicate_zero, List.nil_append] at h0
        rw [h0]
        have : (2 * j + 1) / 2 = j := by omega
        rw [this]



theorem unquoteRef_cons_ne {c : UInt8} (h : c ≠ bBslash) (cs : Bytes) :
    unquoteRef (c :: cs) = c :: unquoteRef cs := by
  cases cs with
  | nil => simp [unquoteRef]
  | cons d ds =>
    rw [unquoteRef]
    simp [h]

theorem unquoteRef_bslash_bslash (cs : Bytes) : unquoteRef (bBslash :: bBslash :: cs) = bBslash :: unquoteRef cs := by
  rw [unquoteRef]; simp
theorem unquoteRef_bslash_quote (cs : Bytes) : unquoteRef (bBslash :: bQuote :: cs) = bQuote :: unquoteRef cs := by
  rw [unquoteRef]; simp
theorem unquoteRef_bslash_other {c : UInt8} (h1 : c ≠ bBslash) (h2 : c ≠ bQuote) (cs : Bytes) :
    unquoteRef (bBslash :: c :: cs) = bBslash :: c :: unquoteRef cs := by
  rw [unquoteRef]; simp [h1, h2, unquoteRef_cons_ne h1]

/-- the run-counting loop of `parseFieldStrValue` computes the left-to-right reference reading. -/
theorem unquoteRun_eq (s : Bytes) : ∀ k, unquoteRun s k =
    List.replicate (k / 2) bBslash ++ (if k % 2 = 1 then unquoteRef (bBslash :: s) else unquoteRef s) := by
  induction s with
  | nil =>
    intro k
    rw [unquoteRun]
    by_cases hk : k % 2 = 1
    · rw [if_pos hk]
      have : (k + 1) / 2 = k / 2 + 1 := by omega
      rw [this]; simp [unquoteRef, List.replicate_succ']
    · rw [if_neg hk]
      have : (k + 1) / 2 = k / 2 := by omega
      rw [this]; simp [unquoteRef]
  | cons c cs ih =>
    intro k
    rw [unquoteRun]
    by_cases h1 : c = bBslash
    · subst h1
      rw [if_pos rfl, ih]
      by_cases hk : k % 2 = 1
      · have e1 : ¬ ((k + 1) % 2 = 1) := by omega
        have e2 : (k + 1) / 2 = k / 2 + 1 := by omega
        rw [if_neg e1, if_pos hk, e2, unquoteRef_bslash_bslash, replicate_succ_append]
      · have e1 : (k + 1) % 2 = 1 := by omega
        have e2 : (k + 1) / 2 = k / 2 := by omega
        rw [if_pos e1, if_neg hk, e2]
    · rw [if_neg h1]
      by_cases h2 : c = bQuote
      · subst h2
        rw [if_pos rfl, ih 0]
        simp only [Nat.zero_div, List.replicate_zero, List.nil_append, Nat.zero_mod, Nat.zero_ne_one, if_false]
        by_cases hk : k % 2 = 1
        · rw [if_pos hk, unquoteRef_bslash_quote]
        · rw [if_neg hk, unquoteRef_cons_ne h1]
      · rw [if_neg h2, ih 0]
        simp only [Nat.zero_div, List.replicate_zero, List.nil_append, Nat.zero_mod, Nat.zero_ne_one, if_false]
        by_cases hk : k % 2 = 1
        · have e2 : (k + 1) / 2 = k / 2 + 1 := by omega
          rw [if_pos hk, e2, unquoteRef_bslash_other h1 h2, replicate_succ_append]
        · have e2 : (k + 1) / 2 = k / 2 := by omega
          rw [if_neg hk, e2, unquoteRef_cons_ne h1]

theorem unquote_eq_ref (s : Bytes) : unquoteRun s 0 = unquoteRef s := by
  rw [unquoteRun_eq]; simp

/-- every byte string written as a quoted field value is read back unchanged. -/
theorem parseStr_quoteStr (s : Bytes) : parseStr (quoteStr s) = some s := by
  show parseStr (bQuote :: (quoteBody s ++ [bQuote])) = some s
  unfold parseStr
  have hlen : ¬ ((bQuote :: (quoteBody s ++ [bQuote])).length < 2) := by simp
  have hlast : (bQuote :: (quoteBody s ++ [bQuote])).getLast? = some bQuote := by
    rw [← List.cons_append, List.getLast?_concat]
  have h0 := unquoteRun_quoteBody s 0
  simp only [Nat.mul_zero, List.replicate_zero, List.nil_append] at h0
  simp only [if_true, hlast, hlen, false_or, ne_eq, not_true_eq_false, if_false, List.dropLast_concat, h0]

/-! ### the number automaton against the grammar -/

/-- `toCharType` as regenerated, against its specification, for all 256 bytes. -/
theorem charTypeOf_spec : ∀ n, n < 256 → charTypeOf (UInt8.ofNat n) =
    (if isDigit (UInt8.ofNat n) then 0 else if isExpMark (UInt8.ofNat n) then 1
     else if UInt8.ofNat n == bDot then 2 else if isSign (UInt8.ofNat n) then 3 else 4) := by
  decide +kernel

theorem charTypeOf_eq (c : UInt8) : charTypeOf c =
    (if isDigit c then 0 else if isExpMark c then 1 else if c == bDot then 2 else if isSign c then 3 else 4) := by
  have h := charTypeOf_spec c.toNat c.toNat_lt
  simpa using h

def acceptFrom (st : Nat) (s : Bytes) : Bool :=
  match runNumber st s with
  | some st' => acceptStates.contains st'
  | none => false

theorem acceptFrom_nil (st : Nat) : acceptFrom st [] = acceptStates.contains st := rfl

theorem acceptFrom_cons (st : Nat) (c : UInt8) (cs : Bytes) :
    acceptFrom st (c :: cs) =
      (if charTypeOf c ≥ charIllegal then false
       else if transfer st (charTypeOf c) = stateNone then false else acceptFrom (transfer st (charTypeOf c)) cs) := by
  unfold acceptFrom
  rw [runNumber]
  by_cases h1 : charTypeOf c ≥ charIllegal
  · simp [h1]
  · by_cases h2 : transfer st (charTypeOf c) = stateNone
    · simp [h1, h2]
    · simp [h1, h2]


/-- every byte belongs to exactly one character class. -/
theorem classify_nat : ∀ n, n < 256 →
    (isDigit (UInt8.ofNat n) = true ∧ isExpMark (UInt8.ofNat n) = false ∧ (UInt8.ofNat n == bDot) = false ∧ isSign (UInt8.ofNat n) = false) ∨
    (isDigit (UInt8.ofNat n) = false ∧ isExpMark (UInt8.ofNat n) = true ∧ (UInt8.ofNat n == bDot) = false ∧ isSign (UInt8.ofNat n) = false) ∨
    (isDigit (UInt8.ofNat n) = false ∧ isExpMark (UInt8.ofNat n) = false ∧ (UInt8.ofNat n == bDot) = true ∧ isSign (UInt8.ofNat n) = false) ∨
    (isDigit (UInt8.ofNat n) = false ∧ isExpMark (UInt8.ofNat n) = false ∧ (UInt8.ofNat n == bDot) = false ∧ isSign (UInt8.ofNat n) = true) ∨
    (isDigit (UInt8.ofNat n) = false ∧ isExpMark (UInt8.ofNat n) = false ∧ (UInt8.ofNat n == bDot) = false ∧ isSign (UInt8.ofNat n) = false) := by
  decide +kernel

theorem classify (c : UInt8) :
    (isDigit c = true ∧ isExpMark c = false ∧ (c == bDot) = false ∧ isSign c = false) ∨
    (isDigit c = false ∧ isExpMark c = true ∧ (c == bDot) = false ∧ isSign c = false) ∨
    (isDigit c = false ∧ isExpMark c = false ∧ (c == bDot) = true ∧ isSign c = false) ∨
    (isDigit c = false ∧ isExpMark c = false ∧ (c == bDot) = false ∧ isSign c = true) ∨
    (isDigit c = false ∧ isExpMark c = false ∧ (c == bDot) = false ∧ isSign c = false) := by
  have h := classify_nat c.toNat c.toNat_lt
  simpa using h

theorem tr_1_0 : transfer 1 0 = 3 := by decide
theorem tr_1_1 : transfer 1 1 = 0 := by decide
theorem tr_1_2 : transfer 1 2 = 5 := by decide
theorem tr_1_3 : transfer 1 3 = 2 := by decide
theorem tr_2_0 : transfer 2 0 = 3 := by decide
theorem tr_2_1 : transfer 2 1 = 0 := by decide
theorem tr_2_2 : transfer 2 2 = 5 := by decide
theorem tr_2_3 : transfer 2 3 = 0 := by decide
theorem tr_3_0 : transfer 3 0 = 3 := by decide
theorem tr_3_1 : transfer 3 1 = 7 := by decide
theorem tr_3_2 : transfer 3 2 = 4 := by decide
theorem tr_3_3 : transfer 3 3 = 0 := by decide
theorem tr_4_0 : transfer 4 0 = 6 := by decide
theorem tr_4_1 : transfer 4 1 = 7 := by decide
theorem tr_4_2 : transfer 4 2 = 0 := by decide
theorem tr_4_3 : transfer 4 3 = 0 := by decide
theorem tr_5_0 : transfer 5 0 = 6 := by decide
theorem tr_5_1 : transfer 5 1 = 0 := by decide
theorem tr_5_2 : transfer 5 2 = 0 := by decide
theorem tr_5_3 : transfer 5 3 = 0 := by decide
theorem tr_6_0 : transfer 6 0 = 6 := by decide
theorem tr_6_1 : transfer 6 1 = 7 := by decide
theorem tr_6_2 : transfer 6 2 = 0 := by decide
theorem tr_6_3 : transfer 6 3 = 0 := by decide
theorem tr_7_0 : transfer 7 0 = 9 := by decide
theorem tr_7_1 : transfer 7 1 = 0 := by decide
theorem tr_7_2 : transfer 7 2 = 0 := by decide
theorem tr_7_3 : transfer 7 3 = 8 := by decide
theorem tr_8_0 : transfer 8 0 = 9 := by decide
theorem tr_8_1 : transfer 8 1 = 0 := by decide
theorem tr_8_2 : transfer 8 2 = 0 := by decide
theorem tr_8_3 : transfer 8 3 = 0 := by decide
theorem tr_9_0 : transfer 9 0 = 9 := by decide
theorem tr_9_1 : transfer 9 1 = 0 := by decide
theorem tr_9_2 : transfer 9 2 = 0 := by decide
theorem tr_9_3 : transfer 9 3 = 0 := by decide

theorem acc_states : acceptStates = [3, 4, 6, 9] := rfl

macro "number_step" c:term:max ih:term:max : tactic => `(tactic|
  (rcases classify $c with ⟨h1, h2, h3, h4⟩ | ⟨h1, h2, h3, h4⟩ | ⟨h1, h2, h3, h4⟩ | ⟨h1, h2, h3, h4⟩ | ⟨h1, h2, h3, h4⟩ <;>
   simp [h1, h2, h3, h4, charIllegal, stateNone, $ih:term, tr_1_0, tr_1_1, tr_1_2, tr_1_3, tr_2_0, tr_2_1, tr_2_2, tr_2_3, tr_3_0, tr_3_1, tr_3_2, tr_3_3, tr_4_0, tr_4_1, tr_4_2, tr_4_3, tr_5_0, tr_5_1, tr_5_2, tr_5_3, tr_6_0, tr_6_1, tr_6_2, tr_6_3, tr_7_0, tr_7_1, tr_7_2, tr_7_3, tr_8_0, tr_8_1, tr_8_2, tr_8_3, tr_9_0, tr_9_1, tr_9_2, tr_9_3]))

theorem accept9 (s : Bytes) : acceptFrom 9 s = gExpDigits s := by
  induction s with
  | nil => rfl
  | cons c cs ih => rw [acceptFrom_cons, charTypeOf_eq, gExpDigits]; number_step c ih

theorem accept8 (s : Bytes) : acceptFrom 8 s = gExpDigits1 s := by
  cases s with
  | nil => rfl
  | cons c cs => rw [acceptFrom_cons, charTypeOf_eq, gExpDigits1]; number_step c (accept9 cs)

theorem accept7 (s : Bytes) : acceptFrom 7 s = gExp s := by
  cases s with
  | nil => rfl
  | cons c cs => rw [acceptFrom_cons, charTypeOf_eq, gExp]; number_step c (accept9 cs) <;> simp [accept8]

theorem accept6 (s : Bytes) : acceptFrom 6 s = gFrac s := by
  induction s with
  | nil => rfl
  | cons c cs ih => rw [acceptFrom_cons, charTypeOf_eq, gFrac]; number_step c ih <;> simp [accept7]

theorem accept4 (s : Bytes) : acceptFrom 4 s = gFrac s := by
  cases s with
  | nil => rfl
  | cons c cs => rw [acceptFrom_cons, charTypeOf_eq, gFrac]; number_step c (accept6 cs) <;> simp [accept7]

theorem accept5 (s : Bytes) : acceptFrom 5 s = gFrac1 s := by
  cases s with
  | nil => rfl
  | cons c cs => rw [acceptFrom_cons, charTypeOf_eq, gFrac1]; number_step c (accept6 cs)

theorem accept3 (s : Bytes) : acceptFrom 3 s = gInt s := by
  induction s with
  | nil => rfl
  | cons c cs ih => rw [acceptFrom_cons, charTypeOf_eq, gInt]; number_step c ih <;> simp [accept4, accept7]

theorem accept2 (s : Bytes) : acceptFrom 2 s = gUnsigned s := by
  cases s with
  | nil => rfl
  | cons c cs => rw [acceptFrom_cons, charTypeOf_eq, gUnsigned]; number_step c (accept3 cs) <;> simp [accept5]

theorem accept1 (s : Bytes) : acceptFrom 1 s = gNumber s := by
  cases s with
  | nil => rfl
  | cons c cs =>
    rw [acceptFrom_cons, charTypeOf_eq, gNumber, gUnsigned]
    number_step c (accept3 cs) <;> simp [accept5, accept2]

/-- **the regenerated automaton of `valid_number.go` recognises exactly the number grammar.** -/
theorem isValidNumber_eq_grammar (s : Bytes) : isValidNumber s = gNumber s := by
  rw [← accept1]; rfl


/-! ### a number of the grammar ends in a digit or in the point -/


def okLast (c : UInt8) : Bool := isDigit c || c == bDot

/-- `P s`: a last byte of `s`, if any, is a digit or the point. -/
def LastOk (s : Bytes) : Prop := ∀ x, s.getLast? = some x → okLast x = true

theorem lastOk_nil : LastOk [] := by intro x h; simp at h

theorem lastOk_cons {c : UInt8} {cs : Bytes} (hc : okLast c = true) (h : LastOk cs) : LastOk (c :: cs) := by
  intro x hx
  cases cs with
  | nil => simp at hx; subst hx; exact hc
  | cons d ds => rw [List.getLast?_cons_cons] at hx; exact h x hx

theorem lastOk_cons' {c : UInt8} {cs : Bytes} (hne : cs ≠ []) (h : LastOk cs) : LastOk (c :: cs) := by
  intro x hx
  cases cs with
  | nil => exact absurd rfl hne
  | cons d ds => rw [List.getLast?_cons_cons] at hx; exact h x hx

theorem okLast_digit {c : UInt8} (h : isDigit c = true) : okLast c = true := by simp [okLast, h]

theorem gExpDigits_last : ∀ s, gExpDigits s = true → LastOk s := by
  intro s
  induction s with
  | nil => intro _; exact lastOk_nil
  | cons c cs ih =>
    intro h; rw [gExpDigits] at h; simp only [Bool.and_eq_true] at h
    exact lastOk_cons (okLast_digit h.1) (ih h.2)

theorem gExpDigits1_last : ∀ s, gExpDigits1 s = true → LastOk s := by
  intro s h
  cases s with
  | nil => exact lastOk_nil
  | cons c cs =>
    rw [gExpDigits1] at h; simp only [Bool.and_eq_true] at h
    exact lastOk_cons (okLast_digit h.1) (gExpDigits_last cs h.2)

theorem gExpDigits1_ne : ∀ s, gExpDigits1 s = true → s ≠ [] := by
  intro s h e; subst e; simp [gExpDigits1] at h

theorem gExp_last : ∀ s, gExp s = true → LastOk s ∧ s ≠ [] := by
  intro s h
  cases s with
  | nil => simp [gExp] at h
  | cons c cs =>
    refine ⟨?_, by simp⟩
    rw [gExp] at h
    by_cases hs : isSign c = true
    · rw [if_pos hs] at h
      exact lastOk_cons' (gExpDigits1_ne cs h) (gExpDigits1_last cs h)
    · rw [if_neg hs] at h; simp only [Bool.and_eq_true] at h
      exact lastOk_cons (okLast_digit h.1) (gExpDigits_last cs h.2)

theorem gFrac_last : ∀ s, gFrac s = true → LastOk s := by
  intro s
  induction s with
  | nil => intro _; exact lastOk_nil
  | cons c cs ih =>
    intro h; rw [gFrac] at h
    by_cases hd : isDigit c = true
    · rw [if_pos hd] at h; exact lastOk_cons (okLast_digit hd) (ih h)
    · rw [if_neg hd] at h; simp only [Bool.and_eq_true] at h
      obtain ⟨h1, h2⟩ := gExp_last cs h.2
      exact lastOk_cons' h2 h1

theorem gFrac1_last : ∀ s, gFrac1 s = true → LastOk s := by
  intro s h
  cases s with
  | nil => exact lastOk_nil
  | cons c cs =>
    rw [gFrac1] at h; simp only [Bool.and_eq_true] at h
    exact lastOk_cons (okLast_digit h.1) (gFrac_last cs h.2)

theorem okLast_dot {c : UInt8} (h : (c == bDot) = true) : okLast c = true := by simp [okLast, h]

theorem gInt_last : ∀ s, gInt s = true → LastOk s := by
  intro s
  induction s with
  | nil => intro _; exact lastOk_nil
  | cons c cs ih =>
    intro h; rw [gInt] at h
    by_cases hd : isDigit c = true
    · rw [if_pos hd] at h; exact lastOk_cons (okLast_digit hd) (ih h)
    · rw [if_neg hd] at h
      by_cases hp : (c == bDot) = true
      · rw [if_pos hp] at h; exact lastOk_cons (okLast_dot hp) (gFrac_last cs h)
      · rw [if_neg hp] at h; simp only [Bool.and_eq_true] at h
        obtain ⟨h1, h2⟩ := gExp_last cs h.2
        exact lastOk_cons' h2 h1

theorem gFrac1_ne : ∀ s, gFrac1 s = true → s ≠ [] := by
  intro s h e; subst e; simp [gFrac1] at h

theorem gUnsigned_last : ∀ s, gUnsigned s = true → LastOk s := by
  intro s h
  cases s with
  | nil => exact lastOk_nil
  | cons c cs =>
    rw [gUnsigned] at h
    by_cases hd : isDigit c = true
    · rw [if_pos hd] at h; exact lastOk_cons (okLast_digit hd) (gInt_last cs h)
    · rw [if_neg hd] at h; simp only [Bool.and_eq_true] at h
      exact lastOk_cons' (gFrac1_ne cs h.2) (gFrac1_last cs h.2)

theorem gUnsigned_ne : ∀ s, gUnsigned s = true → s ≠ [] := by
  intro s h e; subst e; simp [gUnsigned] at h

/-- a number of the grammar ends in a digit or in the point. -/
theorem gNumber_last : ∀ s, gNumber s = true → LastOk s := by
  intro s h
  cases s with
  | nil => exact lastOk_nil
  | cons c cs =>
    rw [gNumber] at h
    by_cases hs : isSign c = true
    · rw [if_pos hs] at h; exact lastOk_cons' (gUnsigned_ne cs h) (gUnsigned_last cs h)
    · rw [if_neg hs] at h; exact gUnsigned_last _ h

theorem gNumber_not_suffix {s : Bytes} {ch : UInt8} (hl : s.getLast? = some ch) (hc : okLast ch = false) :
    gNumber s = false := by
  cases h : gNumber s with
  | false => rfl
  | true => have := gNumber_last s h ch hl; rw [hc] at this; exact absurd this (by decide)


/-! ### decimal integers -/


theorem parseNat_append_single (ds : Bytes) (d : UInt8) :
    parseNat (ds ++ [d]) = parseNat ds * 10 + (d.toNat - 48) := by
  simp [parseNat, List.foldl_append]

theorem digit_toNat (k : Nat) (h : k < 10) : (UInt8.ofNat (48 + k)).toNat - 48 = k := by
  have : (UInt8.ofNat (48 + k)).toNat = 48 + k := by
    simp [UInt8.toNat_ofNat']; omega
  omega

theorem isDigit_ofNat (k : Nat) (h : k < 10) : isDigit (UInt8.ofNat (48 + k)) = true := by
  have : ∀ k, k < 10 → isDigit (UInt8.ofNat (48 + k)) = true := by decide
  exact this k h

theorem showNat_spec (n : Nat) : parseNat (showNat n) = n ∧ (showNat n).all isDigit = true ∧ showNat n ≠ [] := by
  induction n using Nat.strongRecOn with
  | _ n ih =>
    rw [showNat]
    by_cases h : n < 10
    · simp only [h, dite_true]
      refine ⟨?_, ?_, by simp⟩
      · simp only [parseNat, List.foldl_cons, List.foldl_nil, Nat.zero_mul, Nat.zero_add]
        exact digit_toNat n h
      · simp only [List.all_cons, List.all_nil, Bool.and_true]
        exact isDigit_ofNat n h
    · simp only [h, dite_false]
      have hlt : n / 10 < n := by omega
      obtain ⟨h1, h2, h3⟩ := ih (n / 10) hlt
      refine ⟨?_, ?_, by simp⟩
      · rw [parseNat_append_single, h1, digit_toNat (n % 10) (by omega)]; omega
      · simp only [List.all_append, h2, List.all_cons, List.all_nil, Bool.and_true, Bool.true_and]
        exact isDigit_ofNat (n % 10) (by omega)

theorem showNat_head_ne_minus (n : Nat) : ∀ c cs, showNat n = c :: cs → (c == bMinus) = false := by
  intro c cs h
  have hd := (showNat_spec n).2.1
  rw [h] at hd
  simp only [List.all_cons, Bool.and_eq_true] at hd
  have : isDigit c = true := hd.1
  have key : ∀ k, k < 256 → isDigit (UInt8.ofNat k) = true → (UInt8.ofNat k == bMinus) = false := by decide +kernel
  have := key c.toNat c.toNat_lt (by simpa using this)
  simpa using this

theorem parseInt64_showInt (n : Int) (h1 : minInt64 ≤ n) (h2 : n ≤ maxInt64) :
    parseInt64 (showInt n) = some n := by
  obtain ⟨p1, p2, p3⟩ := showNat_spec n.natAbs
  unfold showInt
  by_cases hn : n < 0
  · rw [if_pos hn]
    unfold parseInt64
    have e : (bMinus == bMinus) = true := by decide
    simp only [e, if_true]
    have : (showNat n.natAbs).isEmpty = false := by
      cases hs : showNat n.natAbs with
      | nil => exact absurd hs p3
      | cons _ _ => rfl
    simp only [this, p2, p1, Bool.not_true, Bool.or_self, Bool.false_eq_true, if_false]
    have hv : -(n.natAbs : Int) = n := by omega
    rw [hv]
    simp [h1, h2]
  · rw [if_neg hn]
    cases hs : showNat n.natAbs with
    | nil => exact absurd hs p3
    | cons c cs =>
      unfold parseInt64
      have e := showNat_head_ne_minus n.natAbs c cs hs
      simp only [e, Bool.false_eq_true, if_false]
      rw [← hs]
      have : (showNat n.natAbs).isEmpty = false := by rw [hs]; rfl
      simp only [this, p2, p1, Bool.not_true, Bool.or_self, Bool.false_eq_true, if_false]
      have hv : (n.natAbs : Int) = n := by omega
      rw [hv]
      simp [h1, h2]
theorem roundF64_small (n : Int) (h : n.natAbs ≤ 9007199254740992) : roundF64 n = n := by
  unfold roundF64
  by_cases h1 : n.natAbs < 9007199254740992
  · simp [h1]
  · have e : n.natAbs = 9007199254740992 := by omega
    have : n = 9007199254740992 ∨ n = -9007199254740992 := by omega
    rcases this with rfl | rfl <;> decide


/-! ### `parseFieldNumValue` against the value grammar -/

theorem parseInt64_eq (s : Bytes) : parseInt64 s =
    if gInteger s ∧ minInt64 ≤ integerValue s ∧ integerValue s ≤ maxInt64 then some (integerValue s) else none := by
  cases s with
  | nil => simp [parseInt64, gInteger]
  | cons c cs =>
    unfold parseInt64 gInteger integerValue
    by_cases hm : (c == bMinus) = true
    · simp only [hm, if_true]
      by_cases h1 : cs.isEmpty = true
      · simp [h1]
      · by_cases h2 : cs.all isDigit = true
        · simp [h1, h2]
        · simp [h1, h2]
    · simp only [hm, Bool.false_eq_true, if_false]
      by_cases h2 : (c :: cs).all isDigit = true
      · simp [h2]
      · simp [h2]

theorem parseFloat_eq (s : Bytes) : (parseFloat s).map FVal.float =
    (if gNumber s then
      (let (neg, m, e) := splitNumber s
       (decToF64 neg m e).map SpecVal.float) else none).map embedParsed := by
  unfold parseFloat
  rw [isValidNumber_eq_grammar]
  cases h : gNumber s with
  | false => simp
  | true =>
    simp only [Bool.not_true, Bool.false_eq_true, if_false, if_true]
    cases decToF64 (splitNumber s).1 (splitNumber s).2.1 (splitNumber s).2.2 with
    | none => rfl
    | some b => rfl

theorem true_lits_parse : ∀ l ∈ trueLits, parseNum l = some (FVal.bool true) := by decide
theorem false_lits_parse : ∀ l ∈ falseLits, parseNum l = some (FVal.bool false) := by decide
theorem f_is_false_lit : falseLits.contains [102] = true := by decide

theorem getLast_single_of_short {s : Bytes} {ch : UInt8} (hl : s.getLast? = some ch) (hs : ¬ s.length > 1) : s = [ch] := by
  cases s with
  | nil => simp at hl
  | cons a as =>
    cases as with
    | nil => simp at hl; rw [hl]
    | cons b bs => simp at hs

/-- **`parseFieldNumValue` computes exactly the grammar's denotation** (an integer passes
through `float64`). -/
theorem parseNum_eq_spec (tok : Bytes) : parseNum tok = (specNum tok).map embedParsed := by
  unfold specNum
  by_cases ht : trueLits.contains tok = true
  · rw [if_pos ht]
    exact true_lits_parse tok (by simpa using ht)
  · rw [if_neg ht]
    by_cases hf : falseLits.contains tok = true
    · rw [if_pos hf]
      exact false_lits_parse tok (by simpa using hf)
    · rw [if_neg hf]
      unfold parseNum
      cases hl : tok.getLast? with
      | none => rfl
      | some ch =>
        simp only
        by_cases h1 : ch = 105
        · rw [if_pos h1, if_pos h1, parseInt64_eq]
          by_cases hg : gInteger tok.dropLast = true ∧ minInt64 ≤ integerValue tok.dropLast ∧ integerValue tok.dropLast ≤ maxInt64
          · simp [hg, embedParsed]
          · simp [hg]
        · rw [if_neg h1, if_neg h1]
          by_cases h2 : ch = 117
          · subst h2
            rw [if_pos rfl]
            have : gNumber tok = false := gNumber_not_suffix hl (by decide)
            simp [this]
          · rw [if_neg h2]
            by_cases h3 : ch = 102
            · subst h3
              have hlen : tok.length > 1 := by
                apply Classical.byContradiction
                intro hs
                have := getLast_single_of_short hl hs
                subst this
                exact hf f_is_false_lit
              rw [if_pos ⟨rfl, hlen⟩]
              simp only [if_true]
              exact parseFloat_eq _
            · have : ¬ (ch = 102 ∧ tok.length > 1) := fun h => h3 h.1
              rw [if_neg this, if_neg ht, if_neg hf]
              simp only [h3, if_false]
              exact parseFloat_eq _

/-! ### batches -/


def lineRow : LineRes → Option Row
  | .row r => some r
  | _ => none
def lineErr : LineRes → Option Err
  | .err e => some e
  | _ => none

def batchStep (noEsc : Bool) (acc : List Row × Option Err) (line : Bytes) : List Row × Option Err :=
  match parseLine noEsc line with
  | .skip => (acc.1, none)
  | .row r => (acc.1 ++ [r], none)
  | .err e => (acc.1, some e)

theorem unmarshalRows_def (s : Bytes) :
    unmarshalRows s = (splitLines s).foldl (batchStep (!s.contains bBslash)) ([], none) := rfl

theorem batchStep_fst (noEsc : Bool) (acc : List Row × Option Err) (l : Bytes) :
    (batchStep noEsc acc l).1 = acc.1 ++ (lineRow (parseLine noEsc l)).toList := by
  unfold batchStep
  cases parseLine noEsc l <;> simp [lineRow]

theorem batchStep_snd (noEsc : Bool) (acc : List Row × Option Err) (l : Bytes) :
    (batchStep noEsc acc l).2 = lineErr (parseLine noEsc l) := by
  unfold batchStep
  cases parseLine noEsc l <;> simp [lineErr]

theorem foldl_batchStep (noEsc : Bool) (ls : List Bytes) : ∀ acc : List Row × Option Err,
    ls.foldl (batchStep noEsc) acc =
      (acc.1 ++ ls.filterMap (fun l => lineRow (parseLine noEsc l)),
       match ls.getLast? with
       | none => acc.2
       | some l => lineErr (parseLine noEsc l)) := by
  induction ls with
  | nil => intro acc; simp
  | cons l ls ih =>
    intro acc
    rw [List.foldl_cons, ih, batchStep_fst, batchStep_snd]
    cases hls : ls with
    | nil => cases h : lineRow (parseLine noEsc l) <;> simp [h]
    | cons x xs =>
      rw [List.getLast?_cons_cons]
      have hne : (x :: xs).getLast? = some ((x :: xs).getLast (by simp)) := List.getLast?_eq_some_getLast _
      rw [hne]
      cases h : lineRow (parseLine noEsc l) <;> simp [h, List.filterMap_cons]

/-- `unmarshalRows`: the rows of exactly the lines that parsed, in order; the error of the last
line processed and of no other. -/
theorem unmarshalRows_spec (s : Bytes) :
    unmarshalRows s =
      ((splitLines s).filterMap (fun l => lineRow (parseLine (!s.contains bBslash) l)),
       match (splitLines s).getLast? with
       | none => none
       | some l => lineErr (parseLine (!s.contains bBslash) l)) := by
  rw [unmarshalRows_def, foldl_batchStep]; simp


end OG.C06
