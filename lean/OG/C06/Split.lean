/-
C06 — the body splitter of `/write`: `influx.ReadLinesBlockExt` (streamparser.go), called by
`streamContext.Read` until the end of the request body. Core Lean only.

One call copies the tail carried over from the previous call into the buffer, reads until the
buffer is full or the stream ends, and cuts the buffer at the *last* newline read in this call:
what is before it is the block handed to the parser, what is after it is the next call's tail.
A stream that ends before the buffer is full is returned whole (no search for a newline). A full
buffer without a newline is doubled (or refused when it is longer than the line limit).
Partial reads of the underlying reader do not matter: the loop reads until full or end of stream.
-/
import OG.C06.Model

namespace OG.C06

/-- index of the last newline (`bytes.LastIndexByte(s, '\n')`). -/
def lastNLGo : Bytes → Nat → Option Nat → Option Nat
  | [], _, acc => acc
  | c :: cs, i, acc => lastNLGo cs (i + 1) (if c = bNL then some i else acc)

def lastNL (s : Bytes) : Option Nat := lastNLGo s 0 none

/-- outcome of one call of `ReadLinesBlockExt`. -/
inductive ReadRes where
  /-- a block, the tail for the next call, the unread rest of the stream, the buffer's capacity -/
  | block (b tail rest : Bytes) (cap : Nat)
  | eof
  | tooLong
  /-- the buffer had to grow from a capacity for which the runtime's answer is not modelled -/
  | unknownGrowth
deriving Repr

/-- capacity after `bytesutil.Resize(dstBuf, 2*cap(dstBuf))` = `append` of `cap` bytes to a full
slice: the Go runtime picks a size class ≥ 2·cap; it is exactly 2·cap up to 256 bytes (the ops of
the correspondence stay below), at least 2·cap beyond (163840 for the 64 KiB buffer of the
default configuration). The theorems hold for every growth function. -/
def growExact (cap : Nat) : Option Nat := if cap ≤ 256 then some (2 * cap) else none

/-- the `again:` loop. `origin` = length of the carried tail (`originLen`), `dst` = buffer
contents, `inp` = unread stream. Fuel: the buffer grows at most once per round. -/
def readLoop (grow : Nat → Option Nat) (maxLine origin : Nat) : Nat → Nat → Bytes → Bytes → ReadRes
  | 0, _, _, _ => .tooLong
  | fuel + 1, cap, dst, inp =>
    if inp.isEmpty then
      -- `n == 0`, `io.EOF`
      if dst.isEmpty then .eof else .block dst [] [] cap
    else
      let room := cap - dst.length
      let dst' := dst ++ inp.take room
      let inp' := inp.drop room
      if dst'.length < cap then
        -- the stream ended before the buffer was full: the next Read answers 0, EOF
        .block dst' [] [] cap
      else
        match lastNL (dst'.drop origin) with
        | some nn => .block (dst'.take (origin + nn)) (dst'.drop (origin + nn + 1)) inp' cap
        | none =>
          if dst'.length > maxLine then .tooLong
          else if cap < 2 * dst'.length then
            match grow cap with
            | some cap' => readLoop grow maxLine origin fuel cap' dst' inp'
            | none => .unknownGrowth
          else readLoop grow maxLine origin fuel cap dst' inp'

/-- one call: `cap0` is the capacity of the buffer handed in. -/
def readBlock (grow : Nat → Option Nat) (blk maxLine cap0 : Nat) (tail inp : Bytes) : ReadRes :=
  let cap := if cap0 < blk then blk else cap0            -- `bytesutil.Resize(dstBuf, blockSize)`
  if tail.length == cap then                              -- room for the reader (fix edfddf6)
    match grow cap with
    | some cap' => readLoop grow maxLine tail.length (inp.length + 2) cap' tail inp
    | none => .unknownGrowth
  else readLoop grow maxLine tail.length (inp.length + 2) cap tail inp

inductive SplitErr where
  | tooLong
  | fuel
  | unknownGrowth
deriving Repr, DecidableEq

/-- `for ctx.Read(blockSize)`: the i-th call gets a buffer of capacity `max caps[i] eff`
(`eff` = capacity of the buffer the previous call returned; the last entry of `caps` is
reused). The loop ends with the call that answers `io.EOF`. -/
def splitBlocks (grow : Nat → Option Nat) (blk maxLine : Nat) : Nat → List Nat → Nat → Bytes → Bytes → List Bytes × Option SplitErr
  | 0, _, _, _, _ => ([], some .fuel)
  | fuel + 1, caps, eff, tail, inp =>
    let cp := match caps with
      | [] => 0
      | c :: _ => c
    let caps' := match caps with
      | _ :: c2 :: cs => c2 :: cs
      | cs => cs
    match readBlock grow blk maxLine (if cp < eff then eff else cp) tail inp with
    | .eof => ([], none)
    | .tooLong => ([], some .tooLong)
    | .unknownGrowth => ([], some .unknownGrowth)
    | .block b t rest cap =>
      let r := splitBlocks grow blk maxLine fuel caps' cap t rest
      (b :: r.1, r.2)

/-- the blocks of a request body. -/
def bodyBlocks (grow : Nat → Option Nat) (blk maxLine : Nat) (caps : List Nat) (body : Bytes) : List Bytes × Option SplitErr :=
  splitBlocks grow blk maxLine (body.length + 2) caps 0 [] body

/-- the blocks joined by the newlines the splitter consumed. -/
def joinNL : List Bytes → Bytes
  | [] => []
  | [b] => b
  | b :: bs => b ++ bNL :: joinNL bs

end OG.C06
