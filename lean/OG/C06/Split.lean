/-
C06 — the body splitter of `/write`: `influx.ReadLinesBlockExt` (streamparser.go), called by
`streamContext.Read` until the end of the request body. Core Lean only.

One call copies the tail carried over from the previous call into the buffer, reads until the
buffer is full or the stream ends, and cuts the buffer at the *last* newline read in this call:
what is before it is the block handed to the parser, what is after it is the next call's tail.
A stream that ends before the buffer is full is returned whole (no search for a newline). A full
buffer without a newline is doubled (or refused when it is longer than the line limit).
Partial reads of the underlying reader do not matter: the loop reads until full or end of stream.
-/
import OG.C06.Model

namespace OG.C06

/-- index of the last newline (`bytes.LastIndexByte(s, '\n')`). -/
def lastNLGo : Bytes → Nat → Option Nat → Option Nat
  | [], _, acc => acc
  | c :: cs, i, acc => lastNLGo cs (i + 1) (if c = bNL then some i else acc)

def lastNL (s : Bytes) : Option Nat := lastNLGo s 0 none

/-- how the body source ends once its bytes are delivered: with `io.EOF`, or with an error
(client connection broken: `io.ErrUnexpectedEOF`; chunked upload beyond max-body-size:
`errTruncated`; corrupt gzip stream). -/
inductive End where
  | eof
  | err
deriving Repr, DecidableEq

/-- the guard of the branch that hands over what is buffered when a read returns no byte
(regenerated `tailHandoverGuard`): `err == io.EOF && len(dstBuf) > 0` — an unterminated tail is a
block only at the clean end of the stream. -/
def handoverNeedsEOF : Bool := OG.Gen.C06.tailHandoverGuard.contains "err == io.EOF"

/-- may the buffered bytes be handed over when the source has ended with `fin`? -/
def handover (fin : End) : Bool := fin == .eof || !handoverNeedsEOF

/-- outcome of one call of `ReadLinesBlockExt`. -/
inductive ReadRes where
  /-- a block, the tail for the next call, the unread rest of the stream, the buffer's capacity -/
  | block (b tail rest : Bytes) (cap : Nat)
  | eof
  | tooLong
  /-- the buffer had to grow from a capacity for which the runtime's answer is not modelled -/
  | unknownGrowth
  /-- the source's error ("cannot read a block of data …"): nothing is handed over -/
  | failed
deriving Repr

/-- capacity after `bytesutil.Resize(dstBuf, 2*cap(dstBuf))` = `append` of `cap` bytes to a full
slice: the Go runtime picks a size class ≥ 2·cap; it is exactly 2·cap up to 256 bytes (the ops of
the correspondence stay below), at least 2·cap beyond (163840 for the 64 KiB buffer of the
default configuration). The theorems hold for every growth function. -/
def growExact (cap : Nat) : Option Nat := if cap ≤ 256 then some (2 * cap) else none

/-- The inner `for` loop reads until the buffer is full or a read returns no byte; a read may
return any number of bytes (the source's chunks). `fillChunks` is that loop over a chunked
source; `fillChunks_flat` (SplitProps) shows that only the concatenation of the chunks counts,
which is why `readLoop` works on the flat stream. -/
def fillChunks : Nat → Nat → Bytes → List Bytes → Bytes × List Bytes
  | 0, _, dst, cs => (dst, cs)
  | _ + 1, _, dst, [] => (dst, [])
  | fuel + 1, cap, dst, c :: cs =>
    if cap ≤ dst.length then (dst, c :: cs)                       -- `len(dstBuf) == cap(dstBuf)`: break
    else if c.isEmpty then fillChunks fuel cap dst cs
    else
      let k := cap - dst.length
      if c.length ≤ k then fillChunks fuel cap (dst ++ c) cs
      else (dst ++ c.take k, c.drop k :: cs)

/-- the `again:` loop. `origin` = length of the carried tail (`originLen`), `dst` = buffer
contents, `inp` = unread stream. Fuel: the buffer grows at most once per round. -/
def readLoop (grow : Nat → Option Nat) (fin : End) (maxLine origin : Nat) : Nat → Nat → Bytes → Bytes → ReadRes
  | 0, _, _, _ => .tooLong
  | fuel + 1, cap, dst, inp =>
    if inp.isEmpty then
      -- `n == 0`: the source's end, `io.EOF` or an error
      if handover fin && !dst.isEmpty then .block dst [] [] cap
      else if fin = .eof then .eof else .failed
    else
      let room := cap - dst.length
      let dst' := dst ++ inp.take room
      let inp' := inp.drop room
      if dst'.length < cap then
        -- the stream ended before the buffer was full: the next Read answers 0 and the source's end
        -- (`dst'` is not empty here)
        if handover fin then .block dst' [] [] cap else .failed
      else
        match lastNL (dst'.drop origin) with
        | some nn => .block (dst'.take (origin + nn)) (dst'.drop (origin + nn + 1)) inp' cap
        | none =>
          if dst'.length > maxLine then .tooLong
          else if cap < 2 * dst'.length then
            match grow cap with
            | some cap' => readLoop grow fin maxLine origin fuel cap' dst' inp'
            | none => .unknownGrowth
          else readLoop grow fin maxLine origin fuel cap dst' inp'

/-- one call: `cap0` is the capacity of the buffer handed in. -/
def readBlock (grow : Nat → Option Nat) (fin : End) (blk maxLine cap0 : Nat) (tail inp : Bytes) : ReadRes :=
  let cap := if cap0 < blk then blk else cap0            -- `bytesutil.Resize(dstBuf, blockSize)`
  if tail.length == cap then                              -- room for the reader (fix edfddf6)
    match grow cap with
    | some cap' => readLoop grow fin maxLine tail.length (inp.length + 2) cap' tail inp
    | none => .unknownGrowth
  else readLoop grow fin maxLine tail.length (inp.length + 2) cap tail inp

inductive SplitErr where
  | tooLong
  | fuel
  | unknownGrowth
  | readFailed
deriving Repr, DecidableEq

/-- `for ctx.Read(blockSize)`: the i-th call gets a buffer of capacity `max caps[i] eff`
(`eff` = capacity of the buffer the previous call returned; the last entry of `caps` is
reused). The loop ends with the call that answers `io.EOF`. -/
def splitBlocks (grow : Nat → Option Nat) (fin : End) (blk maxLine : Nat) : Nat → List Nat → Nat → Bytes → Bytes → List Bytes × Option SplitErr
  | 0, _, _, _, _ => ([], some .fuel)
  | fuel + 1, caps, eff, tail, inp =>
    let cp := match caps with
      | [] => 0
      | c :: _ => c
    let caps' := match caps with
      | _ :: c2 :: cs => c2 :: cs
      | cs => cs
    match readBlock grow fin blk maxLine (if cp < eff then eff else cp) tail inp with
    | .eof => ([], none)
    | .failed => ([], some .readFailed)
    | .tooLong => ([], some .tooLong)
    | .unknownGrowth => ([], some .unknownGrowth)
    | .block b t rest cap =>
      let r := splitBlocks grow fin blk maxLine fuel caps' cap t rest
      (b :: r.1, r.2)

/-- the blocks of what a source delivers before it ends with `fin`; the blocks are handed to the
parser as they come, also when a later call fails. -/
def sourceBlocks (grow : Nat → Option Nat) (fin : End) (blk maxLine : Nat) (caps : List Nat) (data : Bytes) : List Bytes × Option SplitErr :=
  splitBlocks grow fin blk maxLine (data.length + 2) caps 0 [] data

/-- the blocks of a request body that is delivered whole. -/
def bodyBlocks (grow : Nat → Option Nat) (blk maxLine : Nat) (caps : List Nat) (body : Bytes) : List Bytes × Option SplitErr :=
  sourceBlocks grow .eof blk maxLine caps body

/-- the blocks joined by the newlines the splitter consumed. -/
def joinNL : List Bytes → Bytes
  | [] => []
  | [b] => b
  | b :: bs => b ++ bNL :: joinNL bs

end OG.C06
