/-
C06 — the fast path (`noEscapeChars = true`, taken when the request block holds no
backslash) computes what the general path computes.
-/
import OG.C06.Line

namespace OG.C06
open OG.Gen.C06


/-- no backslash in `s`. -/
def NoBs (s : Bytes) : Prop := ∀ c ∈ s, c ≠ bBslash

theorem NoBs.take {s : Bytes} (h : NoBs s) (n : Nat) : NoBs (s.take n) := fun c hc => h c (List.mem_of_mem_take hc)
theorem NoBs.drop {s : Bytes} (h : NoBs s) (n : Nat) : NoBs (s.drop n) := fun c hc => h c (List.mem_of_mem_drop hc)
theorem NoBs.tail {c : UInt8} {s : Bytes} (h : NoBs (c :: s)) : NoBs s := fun x hx => h x (by simp [hx])

theorem nextUnescGo_noBs (ch : UInt8) : ∀ (s : Bytes) (pos : Nat), NoBs s →
    nextUnescGo ch s pos 0 = (indexByte ch s).map (· + pos) := by
  intro s
  induction s with
  | nil => intro pos _; rfl
  | cons c cs ih =>
    intro pos h
    rw [nextUnescGo, indexByte]
    by_cases h1 : c = ch
    · simp [h1]
    · have hb : c ≠ bBslash := h c (by simp)
      rw [if_neg h1, if_neg hb, if_neg h1, ih _ h.tail]
      cases indexByte ch cs with
      | none => rfl
      | some n => simp only [Option.map_some]; congr 1; omega

/-- the parser's fast path for a block without backslash equals the slow path. -/
theorem nextUnesc_noBs (ch : UInt8) (s : Bytes) (h : NoBs s) : nextUnesc true ch s = nextUnesc false ch s := by
  unfold nextUnesc
  simp only [if_true, Bool.false_eq_true, if_false]
  rw [nextUnescGo_noBs ch s 0 h]
  cases indexByte ch s <;> simp

theorem unescGo_noBs : ∀ (s : Bytes), NoBs s → unescGo s = s := by
  intro s
  induction s with
  | nil => intro _; rfl
  | cons c cs ih =>
    intro h
    cases cs with
    | nil => rfl
    | cons d ds =>
      rw [unescGo, if_neg (h c (by simp)), ih h.tail]

theorem unescapeTag_noBs (s : Bytes) (h : NoBs s) : unescapeTag true s = unescapeTag false s := by
  unfold unescapeTag
  simp [unescGo_noBs s h]

theorem isInQuoteGo_noBs : ∀ (fuel : Nat) (s : Bytes) (q : Bool), NoBs s →
    isInQuoteGo true fuel s q = isInQuoteGo false fuel s q := by
  intro fuel
  induction fuel with
  | zero => intros; rfl
  | succ fuel ih =>
    intro s q h
    rw [isInQuoteGo, isInQuoteGo, nextUnesc_noBs _ _ h]
    cases nextUnesc false bQuote s with
    | none => rfl
    | some n => exact ih _ _ (h.drop _)

theorem isInQuote_noBs (s : Bytes) (h : NoBs s) : isInQuote true s = isInQuote false s :=
  isInQuoteGo_noBs _ _ _ h

theorem nextUnquotedGo_noBs (ch : UInt8) : ∀ (fuel : Nat) (s : Bytes) (off : Nat), NoBs s →
    nextUnquotedGo true ch fuel s off = nextUnquotedGo false ch fuel s off := by
  intro fuel
  induction fuel with
  | zero => intros; rfl
  | succ fuel ih =>
    intro s off h
    rw [nextUnquotedGo, nextUnquotedGo, nextUnesc_noBs _ _ h]
    cases nextUnesc false ch s with
    | none => rfl
    | some n =>
      simp only
      rw [isInQuote_noBs _ (h.take n), nextUnesc_noBs _ _ (h.drop (n + 1))]
      cases nextUnesc false bQuote (s.drop (n + 1)) with
      | none => rfl
      | some m => simp only; rw [ih _ _ ((h.drop _).drop _)]

theorem nextUnquoted_noBs (hq : Bool) (ch : UInt8) (s : Bytes) (h : NoBs s) :
    nextUnquoted true hq ch s = nextUnquoted false hq ch s := by
  unfold nextUnquoted
  rw [nextUnesc_noBs _ _ h, nextUnquotedGo_noBs ch _ _ _ h]

theorem parseField_noBs (hq : Bool) (s : Bytes) (h : NoBs s) : parseField true hq s = parseField false hq s := by
  unfold parseField
  rw [nextUnesc_noBs _ _ h]
  cases nextUnesc false bEq s with
  | none => rfl
  | some n =>
    simp only
    rw [unescapeTag_noBs _ (h.take n), nextUnesc_noBs _ _ (h.drop n)]

theorem parseFields_noBs (hq : Bool) : ∀ (fuel : Nat) (s : Bytes), NoBs s →
    parseFields true hq fuel s = parseFields false hq fuel s := by
  intro fuel
  induction fuel with
  | zero => intros; rfl
  | succ fuel ih =>
    intro s h
    rw [parseFields, parseFields, nextUnquoted_noBs _ _ _ h]
    cases nextUnquoted false hq bComma s with
    | none => simp only; rw [parseField_noBs _ _ h]
    | some n => simp only; rw [parseField_noBs _ _ (h.take n), ih _ (h.drop _)]

theorem parseTag_noBs (s : Bytes) (h : NoBs s) : parseTag true s = parseTag false s := by
  unfold parseTag
  rw [nextUnesc_noBs _ _ h]
  cases nextUnesc false bEq s with
  | none => rfl
  | some n => simp only; rw [unescapeTag_noBs _ (h.take n), unescapeTag_noBs _ (h.drop _)]

theorem parseTags_noBs : ∀ (fuel : Nat) (s : Bytes), NoBs s → parseTags true fuel s = parseTags false fuel s := by
  intro fuel
  induction fuel with
  | zero => intros; rfl
  | succ fuel ih =>
    intro s h
    rw [parseTags, parseTags, nextUnesc_noBs _ _ h]
    cases nextUnesc false bComma s with
    | none => simp only; rw [parseTag_noBs _ h]
    | some n => simp only; rw [parseTag_noBs _ (h.take n), ih _ (h.drop _)]

theorem parseHead_noBs (s : Bytes) (h : NoBs s) : parseHead true s = parseHead false s := by
  unfold parseHead
  rw [nextUnesc_noBs _ _ h]
  cases nextUnesc false bComma s with
  | none => rfl
  | some k => simp only; rw [parseTags_noBs _ _ (h.drop _)]

theorem parseTail_noBs (name : Bytes) (tags : List Tag) (s : Bytes) (h : NoBs s) :
    parseTail true name tags s = parseTail false name tags s := by
  unfold parseTail
  simp only
  rw [nextUnesc_noBs _ _ h, nextUnquoted_noBs _ _ _ h]
  cases nextUnquoted false (nextUnesc false bQuote s).isSome bSpace s with
  | none => simp only; rw [parseFields_noBs _ _ _ h]
  | some n => simp only; rw [parseFields_noBs _ _ _ (h.take n)]

theorem NoBs.skipLeadingWs : ∀ {s : Bytes}, NoBs s → NoBs (skipLeadingWs s) := by
  intro s
  induction s with
  | nil => intro h; exact h
  | cons c cs ih =>
    intro h
    rw [OG.C06.skipLeadingWs]
    split
    · exact ih h.tail
    · exact h

theorem NoBs.stripSpaces : ∀ {s : Bytes}, NoBs s → NoBs (stripSpaces s) := by
  intro s
  induction s with
  | nil => intro h; exact h
  | cons c cs ih =>
    intro h
    rw [OG.C06.stripSpaces]
    split
    · exact ih h.tail
    · exact h

/-- **the fast path is sound**: on a line without backslash `Row.unmarshal` with
`noEscapeChars = true` computes what the general path computes. -/
theorem parseRow_noBs (s : Bytes) (h : NoBs s) : parseRow true s = parseRow false s := by
  unfold parseRow
  simp only
  have hs := h.skipLeadingWs
  rw [nextUnesc_noBs _ _ hs]
  cases nextUnesc false bSpace (skipLeadingWs s) with
  | none => rfl
  | some n =>
    simp only
    rw [parseHead_noBs _ (hs.take n)]
    cases hh : parseHead false ((skipLeadingWs s).take n) with
    | error e => rfl
    | ok tm =>
      obtain ⟨tags, m⟩ := tm
      simp only
      -- m is a prefix of the head text
      have hm : NoBs m := by
        unfold parseHead at hh
        cases hk : nextUnesc false bComma ((skipLeadingWs s).take n) with
        | none => rw [hk] at hh; injection hh with hh; injection hh with _ h2; rw [← h2]; exact hs.take n
        | some k =>
          rw [hk] at hh
          simp only at hh
          cases hp : parseTags false (((skipLeadingWs s).take n).length + 1) (((skipLeadingWs s).take n).drop (k + 1)) with
          | error e => rw [hp] at hh; cases hh
          | ok ts =>
            rw [hp] at hh
            simp only [Except.map] at hh
            injection hh with hh; injection hh with _ h2; rw [← h2]; exact (hs.take n).take k
      rw [unescapeTag_noBs _ hm, parseTail_noBs _ _ _ ((hs.drop _).stripSpaces)]


end OG.C06
