/-
C06 — cutting a request body into blocks does not change the rows it holds: the rows the parser
reads from the blocks, block after block, are the rows it reads from the whole body
(`OG.C06.Split` + the parser of `OG.C06.Model`).
-/
import OG.C06.SplitProps
import OG.C06.Props

namespace OG.C06

/-- the rows `unmarshalRows` reads from a block (whatever its error). -/
def rowsOf (s : Bytes) : List Row := (unmarshalRows s).1

/-- reading a line on the general path. -/
def rowOfLine (l : Bytes) : Option Row := lineRow (parseLine false l)

theorem rowOfLine_nil : rowOfLine [] = none := by decide

/-! ### every line of a text is made of bytes of the text -/

theorem mem_splitLinesGo (s cur : Bytes) : ∀ l ∈ splitLinesGo s cur, ∀ c ∈ l, c ∈ s ∨ c ∈ cur := by
  induction s generalizing cur with
  | nil =>
    intro l hl c hc
    unfold splitLinesGo at hl
    split at hl
    · cases hl
    · simp only [List.mem_singleton] at hl
      subst hl
      right; simpa using hc
  | cons x xs ih =>
    intro l hl c hc
    unfold splitLinesGo at hl
    split at hl
    · rcases List.mem_cons.mp hl with e | h'
      · subst e; right; simpa using hc
      · rcases ih [] l h' c hc with h | h
        · left; simp [h]
        · cases h
    · rcases ih (x :: cur) l hl c hc with h | h
      · left; simp [h]
      · rcases List.mem_cons.mp h with e | h2
        · left; simp [e]
        · right; exact h2

theorem parseLine_noBs (l : Bytes) (h : ∀ c ∈ l, c ≠ bBslash) : parseLine true l = parseLine false l := by
  unfold parseLine
  have h' : ∀ c ∈ (if l.getLast? = some bCR then l.dropLast else l), c ≠ bBslash := by
    intro c hc
    split at hc
    · exact h c (List.dropLast_subset l hc)
    · exact h c hc
  generalize (if l.getLast? = some bCR then l.dropLast else l) = l' at h'
  cases l' with
  | nil => rfl
  | cons c cs =>
    simp only
    rw [fast_path_sound (c :: cs) h']

theorem filterMap_congr' {α β : Type} (f g : α → Option β) (l : List α) (h : ∀ x ∈ l, f x = g x) :
    l.filterMap f = l.filterMap g := by
  induction l with
  | nil => rfl
  | cons x xs ih =>
    simp only [List.filterMap_cons, h x (by simp)]
    rw [ih (fun y hy => h y (by simp [hy]))]

theorem splitLinesGo_nil (cur : Bytes) : splitLinesGo [] cur = if cur.isEmpty then [] else [cur.reverse] := by
  unfold splitLinesGo; rfl

theorem splitLinesGo_cons (c : UInt8) (cs cur : Bytes) :
    splitLinesGo (c :: cs) cur = if c = bNL then cur.reverse :: splitLinesGo cs [] else splitLinesGo cs (c :: cur) := by
  conv => lhs; unfold splitLinesGo

/-- the rows of a text, read line by line on the general path (the fast path reads the same). -/
theorem rowsOf_eq (s : Bytes) : rowsOf s = (splitLines s).filterMap rowOfLine := by
  unfold rowsOf
  rw [batch_rows]
  simp only
  cases hb : s.contains bBslash with
  | true => rfl
  | false =>
    apply filterMap_congr'
    intro l hl
    have hnb : ∀ c ∈ l, c ≠ bBslash := by
      intro c hc e
      subst e
      rcases mem_splitLinesGo s [] l hl bBslash hc with h | h
      · have : s.contains bBslash = true := by simp [h]
        rw [hb] at this; cases this
      · cases h
    show lineRow (parseLine (!false) l) = rowOfLine l
    unfold rowOfLine
    rw [← parseLine_noBs l hnb]
    rfl

/-! ### lines across a newline -/

theorem filterMap_splitLinesGo_append (g : Bytes → Option Row) (hg : g [] = none) (a b cur : Bytes) :
    (splitLinesGo (a ++ bNL :: b) cur).filterMap g =
      (splitLinesGo a cur).filterMap g ++ (splitLinesGo b []).filterMap g := by
  induction a generalizing cur with
  | nil =>
    rw [List.nil_append, splitLinesGo_cons, splitLinesGo_nil]
    simp only [if_true]
    by_cases hc : cur.isEmpty = true
    · have : cur = [] := List.isEmpty_iff.mp hc
      subst this
      simp [hg]
    · simp only [hc, Bool.false_eq_true, if_false, List.filterMap_cons, List.filterMap_nil]
      cases g cur.reverse <;> simp
  | cons x xs ih =>
    rw [List.cons_append, splitLinesGo_cons, splitLinesGo_cons]
    by_cases hx : x = bNL
    · simp only [hx, if_true, List.filterMap_cons]
      rw [ih []]
      cases g cur.reverse <;> simp
    · simp only [hx, if_false]
      exact ih (x :: cur)

theorem rows_append_nl (a b : Bytes) : rowsOf (a ++ bNL :: b) = rowsOf a ++ rowsOf b := by
  rw [rowsOf_eq, rowsOf_eq, rowsOf_eq]
  exact filterMap_splitLinesGo_append rowOfLine rowOfLine_nil a b []

theorem rows_trailing_nl (a : Bytes) : rowsOf (a ++ [bNL]) = rowsOf a := by
  have := rows_append_nl a []
  rw [this]
  have : rowsOf [] = [] := by decide
  rw [this, List.append_nil]

theorem rows_joinNL (bs : List Bytes) : rowsOf (joinNL bs) = bs.flatMap rowsOf := by
  induction bs with
  | nil => decide
  | cons b rest ih =>
    cases rest with
    | nil => simp [joinNL]
    | cons c cs =>
      show rowsOf (b ++ bNL :: joinNL (c :: cs)) = _
      rw [rows_append_nl, ih]
      simp

/-- **no row is lost or invented by the splitter**: whatever the block size, the buffers and
the runtime's growth of them, the rows read from the blocks of a body, block after block, are
the rows read from the body as one block. -/
theorem split_rows_eq (grow : Nat → Option Nat) (blk maxLine : Nat) (caps : List Nat) (body : Bytes) (bs : List Bytes)
    (h : bodyBlocks grow blk maxLine caps body = (bs, none)) :
    bs.flatMap rowsOf = rowsOf body := by
  rcases split_concat_eq grow blk maxLine caps body bs h with hj | hj
  · rw [← hj, rows_joinNL]
  · rw [← hj, rows_trailing_nl, rows_joinNL]

end OG.C06
