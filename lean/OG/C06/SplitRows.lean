/-
C06 — cutting a request body into blocks does not change the rows it holds: the rows the parser
reads from the blocks, block after block, are the rows it reads from the whole body
(`OG.C06.Split` + the parser of `OG.C06.Model`).
-/
import OG.C06.SplitProps
import OG.C06.Props

namespace OG.C06

/-- the rows `unmarshalRows` reads from a block (whatever its error). -/
def rowsOf (s : Bytes) : List Row := (unmarshalRows s).1

/-- reading a line on the general path. -/
def rowOfLine (l : Bytes) : Option Row := lineRow (parseLine false l)

theorem rowOfLine_nil : rowOfLine [] = none := by decide

/-! ### every line of a text is made of bytes of the text -/

theorem mem_splitLinesGo (s cur : Bytes) : ∀ l ∈ splitLinesGo s cur, ∀ c ∈ l, c ∈ s ∨ c ∈ cur := by
  induction s generalizing cur with
  | nil =>
    intro l hl c hc
    unfold splitLinesGo at hl
    split at hl
    · cases hl
    · simp only [List.mem_singleton] at hl
      subst hl
      right; simpa using hc
  | cons x xs ih =>
    intro l hl c hc
    unfold splitLinesGo at hl
    split at hl
    · rcases List.mem_cons.mp hl with e | h'
      · subst e; right; simpa using hc
      · rcases ih [] l h' c hc with h | h
        · left; simp [h]
        · cases h
    · rcases ih (x :: cur) l hl c hc with h | h
      · left; simp [h]
      · rcases List.mem_cons.mp h with e | h2
        · left; simp [e]
        · right; exact h2

theorem parseLine_noBs (l : Bytes) (h : ∀ c ∈ l, c ≠ bBslash) : parseLine true l = parseLine false l := by
  unfold parseLine
  have h' : ∀ c ∈ (if l.getLast? = some bCR then l.dropLast else l), c ≠ bBslash := by
    intro c hc
    split at hc
    · exact h c (List.dropLast_subset l hc)
    · exact h c hc
  generalize (if l.getLast? = some bCR then l.dropLast else l) = l' at h'
  cases l' with
  | nil => rfl
  | cons c cs =>
    simp only
    rw [fast_path_sound (c :: cs) h']

theorem filterMap_congr' {α β : Type} (f g : α → Option β) (l : List α) (h : ∀ x ∈ l, f x = g x) :
    l.filterMap f = l.filterMap g := by
  induction l with
  | nil => rfl
  | cons x xs ih =>
    simp only [List.filterMap_cons, h x (by simp)]
    rw [ih (fun y hy => h y (by simp [hy]))]

theorem splitLinesGo_nil (cur : Bytes) : splitLinesGo [] cur = if cur.isEmpty then [] else [cur.reverse] := by
  unfold splitLinesGo; rfl

theorem splitLinesGo_cons (c : UInt8) (cs cur : Bytes) :
    splitLinesGo (c :: cs) cur = if c = bNL then cur.reverse :: splitLinesGo cs [] else splitLinesGo cs (c :: cur) := by
  conv => lhs; unfold splitLinesGo

/-- the rows of a text, read line by line on the general path (the fast path reads the same). -/
theorem rowsOf_eq (s : Bytes) : rowsOf s = (splitLines s).filterMap rowOfLine := by
  unfold rowsOf
  rw [batch_rows]
  simp only
  cases hb : s.contains bBslash with
  | true => rfl
  | false =>
    apply filterMap_congr'
    intro l hl
    have hnb : ∀ c ∈ l, c ≠ bBslash := by
      intro c hc e
      subst e
      rcases mem_splitLinesGo s [] l hl bBslash hc with h | h
      · have : s.contains bBslash = true := by simp [h]
        rw [hb] at this; cases this
      · cases h
    show lineRow (parseLine (!false) l) = rowOfLine l
    unfold rowOfLine
    rw [← parseLine_noBs l hnb]
    rfl

/-! ### lines across a newline -/

theorem filterMap_splitLinesGo_append (g : Bytes → Option Row) (hg : g [] = none) (a b cur : Bytes) :
    (splitLinesGo (a ++ bNL :: b) cur).filterMap g =
      (splitLinesGo a cur).filterMap g ++ (splitLinesGo b []).filterMap g := by
  induction a generalizing cur with
  | nil =>
    rw [List.nil_append, splitLinesGo_cons, splitLinesGo_nil]
    simp only [if_true]
    by_cases hc : cur.isEmpty = true
    · have : cur = [] := List.isEmpty_iff.mp hc
      subst this
      simp [hg]
    · simp only [hc, Bool.false_eq_true, if_false, List.filterMap_cons, List.filterMap_nil]
      cases g cur.reverse <;> simp
  | cons x xs ih =>
    rw [List.cons_append, splitLinesGo_cons, splitLinesGo_cons]
    by_cases hx : x = bNL
    · simp only [hx, if_true, List.filterMap_cons]
      rw [ih []]
      cases g cur.reverse <;> simp
    · simp only [hx, if_false]
      exact ih (x :: cur)

theorem rows_append_nl (a b : Bytes) : rowsOf (a ++ bNL :: b) = rowsOf a ++ rowsOf b := by
  rw [rowsOf_eq, rowsOf_eq, rowsOf_eq]
  exact filterMap_splitLinesGo_append rowOfLine rowOfLine_nil a b []

theorem rows_trailing_nl (a : Bytes) : rowsOf (a ++ [bNL]) = rowsOf a := by
  have := rows_append_nl a []
  rw [this]
  have : rowsOf [] = [] := by decide
  rw [this, List.append_nil]

theorem rows_joinNL (bs : List Bytes) : rowsOf (joinNL bs) = bs.flatMap rowsOf := by
  induction bs with
  | nil => decide
  | cons b rest ih =>
    cases rest with
    | nil => simp [joinNL]
    | cons c cs =>
      show rowsOf (b ++ bNL :: joinNL (c :: cs)) = _
      rw [rows_append_nl, ih]
      simp

/-- **no row is lost or invented by the splitter**: whatever the block size, the buffers and
the runtime's growth of them, the rows read from the blocks of a body, block after block, are
the rows read from the body as one block. -/
theorem split_rows_eq (grow : Nat → Option Nat) (blk maxLine : Nat) (caps : List Nat) (body : Bytes) (bs : List Bytes)
    (h : bodyBlocks grow blk maxLine caps body = (bs, none)) :
    bs.flatMap rowsOf = rowsOf body := by
  rcases split_concat_eq grow blk maxLine caps body bs h with hj | hj
  · rw [← hj, rows_joinNL]
  · rw [← hj, rows_trailing_nl, rows_joinNL]

/-! ### a source that fails: no cut line is handed over -/

/-- the segments of a text that are terminated by a newline. -/
def termGo : Bytes → Bytes → List Bytes
  | [], _ => []
  | c :: cs, cur => if c = bNL then cur.reverse :: termGo cs [] else termGo cs (c :: cur)

def termLines (s : Bytes) : List Bytes := termGo s []

/-- the complete lines of what a source delivered before it ended: the lines terminated by a
newline, and the unterminated tail only when the source ended with a clean `io.EOF`. -/
def completeLines (fin : End) (data : Bytes) : List Bytes :=
  if fin = .eof then splitLines data else termLines data

theorem termGo_nil (cur : Bytes) : termGo [] cur = [] := rfl
theorem termGo_cons (c : UInt8) (cs cur : Bytes) :
    termGo (c :: cs) cur = if c = bNL then cur.reverse :: termGo cs [] else termGo cs (c :: cur) := rfl

theorem termGo_sub_splitLinesGo (s cur : Bytes) : ∀ l ∈ termGo s cur, l ∈ splitLinesGo s cur := by
  induction s generalizing cur with
  | nil => intro l hl; cases hl
  | cons c cs ih =>
    intro l hl
    rw [termGo_cons] at hl
    rw [splitLinesGo_cons]
    split at hl
    · rename_i hc
      simp only [hc, if_true]
      rcases List.mem_cons.mp hl with e | h'
      · simp [e]
      · exact List.mem_cons_of_mem _ (ih [] l h')
    · rename_i hc
      simp only [hc, if_false]
      exact ih (c :: cur) l hl

theorem splitLinesGo_sub_termGo_append (b r cur : Bytes) :
    ∀ l ∈ splitLinesGo b cur, l ∈ termGo (b ++ bNL :: r) cur := by
  induction b generalizing cur with
  | nil =>
    intro l hl
    rw [splitLinesGo_nil] at hl
    rw [List.nil_append, termGo_cons]
    simp only [if_true]
    split at hl
    · cases hl
    · simp only [List.mem_singleton] at hl
      simp [hl]
  | cons c cs ih =>
    intro l hl
    rw [splitLinesGo_cons] at hl
    rw [List.cons_append, termGo_cons]
    split at hl
    · rename_i hc
      simp only [hc, if_true]
      rcases List.mem_cons.mp hl with e | h'
      · simp [e]
      · exact List.mem_cons_of_mem _ (ih [] l h')
    · rename_i hc
      simp only [hc, if_false]
      exact ih (c :: cur) l hl

theorem termGo_sub_append (b r cur : Bytes) : ∀ l ∈ termGo r [], l ∈ termGo (b ++ bNL :: r) cur := by
  induction b generalizing cur with
  | nil =>
    intro l hl
    rw [List.nil_append, termGo_cons]
    simp only [if_true]
    exact List.mem_cons_of_mem _ hl
  | cons c cs ih =>
    intro l hl
    rw [List.cons_append, termGo_cons]
    split
    · exact List.mem_cons_of_mem _ (ih [] l hl)
    · exact ih (c :: cur) l hl

theorem splitLinesGo_sub_append (b r cur : Bytes) :
    ∀ l ∈ splitLinesGo r [], l ∈ splitLinesGo (b ++ bNL :: r) cur := by
  induction b generalizing cur with
  | nil =>
    intro l hl
    rw [List.nil_append, splitLinesGo_cons]
    simp only [if_true]
    exact List.mem_cons_of_mem _ hl
  | cons c cs ih =>
    intro l hl
    rw [List.cons_append, splitLinesGo_cons]
    split
    · exact List.mem_cons_of_mem _ (ih [] l hl)
    · exact ih (c :: cur) l hl

/-- the regenerated guard: on a source error nothing that is buffered is handed over. -/
theorem handover_err : handover .err = false := by decide

theorem handover_eof : handover .eof = true := by simp [handover]

theorem complete_of_block (fin : End) (all b t rest : Bytes) (hb : BlockOf fin all b t rest) :
    (∀ l ∈ splitLines b, l ∈ completeLines fin all) ∧
    (∀ l ∈ completeLines fin (t ++ rest), l ∈ completeLines fin all) := by
  rcases hb with ⟨hall, ht, hr, _, hho⟩ | hall
  · have hf : fin = .eof := by
      cases fin with
      | eof => rfl
      | err => rw [handover_err] at hho; cases hho
    subst hf ht hr hall
    constructor
    · intro l hl; simpa [completeLines] using hl
    · intro l hl
      simp [completeLines, splitLines, splitLinesGo_nil] at hl
  · subst hall
    constructor
    · intro l hl
      have h1 := splitLinesGo_sub_termGo_append b (t ++ rest) [] l hl
      unfold completeLines
      split
      · exact termGo_sub_splitLinesGo _ [] l h1
      · exact h1
    · intro l hl
      unfold completeLines at hl ⊢
      split
      · rename_i hf
        simp only [hf, if_true] at hl
        exact splitLinesGo_sub_append b (t ++ rest) [] l hl
      · rename_i hf
        simp only [hf, if_false] at hl
        exact termGo_sub_append b (t ++ rest) [] l hl

theorem splitBlocks_complete (grow : Nat → Option Nat) (fin : End) (blk maxLine : Nat) :
    ∀ (fuel : Nat) (caps : List Nat) (eff : Nat) (tail inp : Bytes) (bs : List Bytes) (e : Option SplitErr),
      splitBlocks grow fin blk maxLine fuel caps eff tail inp = (bs, e) →
      ∀ b ∈ bs, ∀ l ∈ splitLines b, l ∈ completeLines fin (tail ++ inp) := by
  intro fuel
  induction fuel with
  | zero => intro caps eff tail inp bs e h; simp [splitBlocks] at h; intro b hb; rw [h.1] at hb; cases hb
  | succ fuel ih =>
    intro caps eff tail inp bs e h
    unfold splitBlocks at h
    simp only at h
    split at h
    all_goals try (simp only [Prod.mk.injEq] at h; intro b hb; rw [← h.1] at hb; cases hb; done)
    rename_i b t rest cap hb
    have hblk := readBlock_block _ _ _ _ _ _ _ _ _ _ _ hb
    simp only [Prod.mk.injEq] at h
    obtain ⟨hbs, _⟩ := h
    obtain ⟨h1, h2⟩ := complete_of_block fin _ b t rest hblk
    intro b' hb' l hl
    rw [← hbs] at hb'
    rcases List.mem_cons.mp hb' with e' | hm
    · subst e'; exact h1 l hl
    · exact h2 l (ih _ _ _ _ _ _ rfl b' hm l hl)

/-- **no cut line is handed to the parser**: whatever the chunks the body source delivers, the
block size, the buffers and their growth, and wherever the source fails, every line of every
block handed over is a complete line of what the source delivered — terminated by a newline
there, or the unterminated rest only when the source ended with a clean `io.EOF`. (The inner
read loop over a chunked source fills the buffer exactly as over the flat stream:
`fillChunks_flat`.) -/
theorem split_never_hands_over_a_cut_line (grow : Nat → Option Nat) (fin : End) (blk maxLine : Nat) (caps : List Nat)
    (data : Bytes) (bs : List Bytes) (e : Option SplitErr)
    (h : sourceBlocks grow fin blk maxLine caps data = (bs, e)) :
    ∀ b ∈ bs, ∀ l ∈ splitLines b, l ∈ completeLines fin data := by
  have := splitBlocks_complete grow fin blk maxLine _ _ _ _ _ _ _ h
  simpa using this

/-- the inner read loop over any chunking of the stream fills the buffer as over the flat stream. -/
theorem fillChunks_flat : ∀ (fuel cap : Nat) (dst : Bytes) (cs : List Bytes), cs.length ≤ fuel →
    (fillChunks fuel cap dst cs).1 = dst ++ cs.flatten.take (cap - dst.length) ∧
    (fillChunks fuel cap dst cs).2.flatten = cs.flatten.drop (cap - dst.length) := by
  intro fuel
  induction fuel with
  | zero =>
    intro cap dst cs h
    have : cs = [] := List.eq_nil_of_length_eq_zero (by omega)
    subst this
    simp [fillChunks]
  | succ fuel ih =>
    intro cap dst cs h
    cases cs with
    | nil => simp [fillChunks]
    | cons c rest =>
      unfold fillChunks
      split
      · rename_i hfull
        have : cap - dst.length = 0 := by omega
        simp [this]
      · rename_i hroom
        split
        · rename_i hce
          have : c = [] := List.isEmpty_iff.mp hce
          subst this
          have := ih cap dst rest (by simp at h; omega)
          simpa using this
        · simp only
          split
          · rename_i hfit
            have := ih cap (dst ++ c) rest (by simp at h; omega)
            have hk : cap - (dst ++ c).length = (cap - dst.length) - c.length := by
              simp only [List.length_append]; omega
            rw [hk] at this
            constructor
            · rw [this.1, List.flatten_cons, List.take_append]
              have : List.take (cap - dst.length) c = c := List.take_of_length_le hfit
              simp [this, List.append_assoc]
            · rw [this.2, List.flatten_cons, List.drop_append]
              have : List.drop (cap - dst.length) c = [] := List.drop_eq_nil_of_le hfit
              simp [this]
          · rename_i hbig
            have hlt : cap - dst.length < c.length := by omega
            constructor
            · simp only [List.flatten_cons]
              rw [List.take_append_of_le_length (by omega)]
            · simp only [List.flatten_cons]
              rw [List.drop_append_of_le_length (by omega)]

-- non-vacuity: the source breaks inside `cc=12…` after two complete lines: the first buffer's
-- line is handed over, the cut rest is not, and the splitter reports the failure
example : sourceBlocks growExact .err 16 64 []
    [97, 97, 97, 97, 97, 97, 97, 97, 10, 98, 98, 98, 98, 98, 98, 98, 10, 99, 99, 61, 49, 50] =
    ([[97, 97, 97, 97, 97, 97, 97, 97]], some .readFailed) := by decide
-- the same bytes from a source that ends cleanly: the unterminated rest is the last block
example : sourceBlocks growExact .eof 16 64 []
    [97, 97, 97, 97, 97, 97, 97, 97, 10, 98, 98, 98, 98, 98, 98, 98, 10, 99, 99, 61, 49, 50] =
    ([[97, 97, 97, 97, 97, 97, 97, 97], [98, 98, 98, 98, 98, 98, 98, 10, 99, 99, 61, 49, 50]], none) := by decide
example : completeLines .err [97, 10, 98, 61, 49] = [[97]] := by decide
example : completeLines .eof [97, 10, 98, 61, 49] = [[97], [98, 61, 49]] := by decide

end OG.C06
