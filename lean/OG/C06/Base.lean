/-
C06 — base definitions of the line-protocol model: byte strings, the byte constants of the
grammar, decimal printing / parsing of naturals, the int64 range, float64 rounding of an
integer (`float64(n)`), Go's `int64(f)` as observed on amd64, and exact decimal → float64
conversion (what `strconv.ParseFloat` computes; trusted to be correctly rounded).
Core Lean only.
-/
namespace OG.C06

abbrev Bytes := List UInt8

def bSpace : UInt8 := 32      -- ' '
def bQuote : UInt8 := 34      -- '"'
def bHash : UInt8 := 35       -- '#'
def bPlus : UInt8 := 43       -- '+'
def bComma : UInt8 := 44      -- ','
def bMinus : UInt8 := 45      -- '-'
def bDot : UInt8 := 46        -- '.'
def bEq : UInt8 := 61         -- '='
def bBslash : UInt8 := 92     -- '\\'
def bNL : UInt8 := 10
def bCR : UInt8 := 13
def bTab : UInt8 := 9

def isDigit (c : UInt8) : Bool := 48 ≤ c && c ≤ 57

/-- `strings.IndexByte`. -/
def indexByte (c : UInt8) : Bytes → Option Nat
  | [] => none
  | x :: xs => if x = c then some 0 else (indexByte c xs).map (· + 1)

/-- value of a string of decimal digits (no check). -/
def parseNat (ds : Bytes) : Nat := ds.foldl (fun a d => a * 10 + (d.toNat - 48)) 0

/-- decimal spelling of a natural number. -/
def showNat (n : Nat) : Bytes :=
  if h : n < 10 then [UInt8.ofNat (48 + n)] else showNat (n / 10) ++ [UInt8.ofNat (48 + n % 10)]
decreasing_by omega

def showInt (n : Int) : Bytes :=
  if n < 0 then bMinus :: showNat n.natAbs else showNat n.natAbs

def maxInt64 : Int := 9223372036854775807
def minInt64 : Int := -9223372036854775808

/-- two's-complement wrap of an int64 product (`row.Timestamp *= tsMultiplier`). -/
def wrap64 (x : Int) : Int := (x + 9223372036854775808) % 18446744073709551616 - 9223372036854775808

/-- `fastfloat.ParseInt64` (with its `strconv.ParseInt` fall-back for long inputs): an optional
`-`, at least one digit, digits only, value inside the int64 range. -/
def parseInt64 (s : Bytes) : Option Int :=
  match s with
  | [] => none
  | c :: cs =>
    let neg := c == bMinus
    let ds := if neg then cs else s
    if ds.isEmpty || !ds.all isDigit then none
    else
      let v : Int := parseNat ds
      let n : Int := if neg then -v else v
      if minInt64 ≤ n ∧ n ≤ maxInt64 then some n else none

/-- `float64(n)` for an integer: round to nearest, ties to even, at 53 significant bits. The
result is again an integer (returned exactly). -/
def roundF64 (n : Int) : Int :=
  let a := n.natAbs
  if a < 9007199254740992 then n
  else
    let k := a.log2 - 52
    let q := a / 2 ^ k
    let r := a % 2 ^ k
    let half := 2 ^ (k - 1)
    let q' := if r > half ∨ (r = half ∧ q % 2 = 1) then q + 1 else q
    let v : Int := ((q' * 2 ^ k : Nat) : Int)
    if n < 0 then -v else v

/-- Go's `int64(f)` for an integral float64 `f`, as observed on amd64 (CVTTSD2SQ): a value
outside the int64 range converts to `math.MinInt64`. -/
def f64ToInt64 (v : Int) : Int := if v < minInt64 ∨ v > maxInt64 then minInt64 else v

/-- what an integer field holds after `parseFieldNumValue` (`float64(n)`) and
`AppendFieldToCol` (`int64(field.NumValue)`). -/
def storedInt (n : Int) : Int := f64ToInt64 (roundF64 n)

/-! ### exact decimal → float64 (positive rationals) -/

/-- bits of the float64 nearest (ties to even) to `n / d`, `n, d > 0`; a result at or above
`0x7FF0000000000000` means overflow to +Inf. Sub-normals and zero included. -/
def ratToF64 (n d : Nat) : Nat :=
  if n = 0 then 0 else
  let e0 : Int := (n.log2 : Int) - (d.log2 : Int)
  -- 2^e ≤ n/d < 2^(e+1)
  let ge (e : Int) : Bool := if e ≥ 0 then n ≥ d * 2 ^ e.toNat else n * 2 ^ (-e).toNat ≥ d
  let e : Int := if ge (e0 + 1) then e0 + 1 else if ge e0 then e0 else e0 - 1
  let e' : Int := if e < -1022 then -1022 else e
  if e' > 1100 then 0x7FF0000000000000 else
  let sh : Int := 52 - e'
  let (nn, dd) := if sh ≥ 0 then (n * 2 ^ sh.toNat, d) else (n, d * 2 ^ (-sh).toNat)
  let q := nn / dd
  let r := nn % dd
  let q' := if 2 * r > dd ∨ (2 * r = dd ∧ q % 2 = 1) then q + 1 else q
  ((e' + 1022).toNat) * 4503599627370496 + q'

def f64Inf : Nat := 0x7FF0000000000000
def f64SignBit : Nat := 0x8000000000000000

/-- bits of the float64 nearest to `(-1)^neg · m · 10^e10`; `none` = overflow (±Inf). The
magnitude test keeps the exact arithmetic small for absurd exponents. -/
def decToF64 (neg : Bool) (m : Nat) (e10 : Int) : Option Nat :=
  let sign := if neg then f64SignBit else 0
  if m = 0 then some sign else
  let nd : Int := (showNat m).length
  if nd + e10 > 310 then none
  else if nd + e10 < -330 then some sign
  else
    let b := if e10 ≥ 0 then ratToF64 (m * 10 ^ e10.toNat) 1 else ratToF64 m (10 ^ (-e10).toNat)
    if b ≥ f64Inf then none else some (sign + b)

end OG.C06
