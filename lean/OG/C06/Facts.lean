/-
C06 — expectations about the regenerated facts: what the hand-written parts of the model and
the proofs were written against. A failure here means the modelled source changed shape;
the correspondence run then decides whether the property still holds.
-/
import OG.C06.Model

namespace OG.C06.Facts
open OG.Gen.C06

theorem stateNames_expected : stateNames = ["StateNone", "StateInitial", "StateIntSign", "StateInteger", "StatePoint", "StatePointWithoutInt", "StateFraction", "StateExp", "StateExpSign", "StateExpNumber", "StateEnd"] := by rfl

theorem charTypeNames_expected : charTypeNames = ["CharNumber", "CharExp", "CharPoint", "CharSign", "CharIllegal"] := by rfl

theorem transferRows_expected : transferRows = [(1, [3, 0, 5, 2]), (2, [3, 0, 5, 0]), (3, [3, 7, 4, 0]), (4, [6, 7, 0, 0]), (5, [6, 0, 0, 0]), (6, [6, 7, 0, 0]), (7, [9, 0, 0, 8]), (8, [9, 0, 0, 0]), (9, [9, 0, 0, 0])] := by rfl

theorem acceptStates_expected : acceptStates = [3, 4, 6, 9] := by rfl

theorem returns_IsValidNumber_expected : returns_IsValidNumber = ["false", "false", "state == StateInteger || state == StatePoint || state == StateFraction || state == StateExpNumber"] := by rfl

theorem escapeSet_expected : escapeSet = [32, 44, 61, 92] := by rfl

theorem suffixTable_expected : suffixTable = [
  ("ch == 'i'", "ss := s[:len(s)-1]; n, err := fastfloat.ParseInt64(ss); if err != nil { return 0, Field_Type_Unknown, err }; return float64(n), Field_Type_Int, nil"),
  ("ch == 'u'", "return 0, Field_Type_Unknown, fmt.Errorf(\"invalid number\")"),
  ("ch == 'f' && len(s) > 1", "n, err := parseFloatValue(s[:len(s)-1]); if err != nil { return 0, Field_Type_Unknown, err }; return n, Field_Type_Float, nil")
] := by rfl

theorem trueLits_expected : trueLits = [[116], [84], [116, 114, 117, 101], [84, 114, 117, 101], [84, 82, 85, 69]] := by rfl

theorem falseLits_expected : falseLits = [[102], [70], [102, 97, 108, 115, 101], [70, 97, 108, 115, 101], [70, 65, 76, 83, 69]] := by rfl

theorem precisionTable_expected : precisionTable = [
  ([110, 115], 1),
  ([117], 1000),
  ([117, 115], 1000),
  ([194, 181], 1000),
  ([109, 115], 1000000),
  ([115], 1000000000),
  ([109], 60000000000),
  ([104], 3600000000000)
] := by rfl

theorem defaultTsMultiplier_expected : defaultTsMultiplier = 1 := by rfl

theorem maxMeasurementLength_expected : maxMeasurementLength = 250 := by rfl

theorem maxTagNameLength_expected : maxTagNameLength = 255 := by rfl

theorem maxTagValueLength_expected : maxTagValueLength = 65536 := by rfl

theorem maxFieldNameLength_expected : maxFieldNameLength = 255 := by rfl

theorem noTimestamp_expected : noTimestamp = -100 := by rfl

theorem fp_IsValidNumber_expected : fp_IsValidNumber = "ff3d7747a84bedc0" := by rfl

theorem fp_checkWhitespace_expected : fp_checkWhitespace = "706dbd7ffc6ed262" := by rfl

theorem fp_stripLeadingWhitespace_expected : fp_stripLeadingWhitespace = "582a1c0d63a1cd0d" := by rfl

theorem fp_nextUnescapedChar_expected : fp_nextUnescapedChar = "5544547fc80fa04f" := by rfl

theorem fp_nextUnquotedChar_expected : fp_nextUnquotedChar = "21cd06080aa7fa29" := by rfl

theorem fp_isInQuote_expected : fp_isInQuote = "80e8a0548e133581" := by rfl

theorem fp_unescapeTagValue_expected : fp_unescapeTagValue = "fdeaca95ea166961" := by rfl

theorem fp_parseFieldNumValue_expected : fp_parseFieldNumValue = "9ee6101f021bbc0f" := by rfl

theorem fp_parseFloatValue_expected : fp_parseFloatValue = "84569794c862132f" := by rfl

theorem fp_parseFieldStrValue_expected : fp_parseFieldStrValue = "8f1e3fff53dce8d3" := by rfl

theorem fp_nextTimestamp_expected : fp_nextTimestamp = "557e2ae121747abe" := by rfl

theorem fp_Row_unmarshal_expected : fp_Row_unmarshal = "0774971941e5ad36" := by rfl

theorem fp_Tag_unmarshal_expected : fp_Tag_unmarshal = "9e9ba7e565c0538b" := by rfl

theorem fp_Field_unmarshal_expected : fp_Field_unmarshal = "25c98e1dd6a5fbba" := by rfl

theorem fp_unmarshalTags_expected : fp_unmarshalTags = "19a64b1821c290f9" := by rfl

theorem fp_unmarshalInfluxFields_expected : fp_unmarshalInfluxFields = "74033a3aa47f4223" := by rfl

theorem fp_unmarshalRows_expected : fp_unmarshalRows = "ba0962efc15ae96f" := by rfl

theorem fp_unmarshalRow_expected : fp_unmarshalRow = "a0228b88d6299018" := by rfl

theorem fp_Row_CheckValid_expected : fp_Row_CheckValid = "f3ed72ade5e05fde" := by rfl

theorem fp_PointTags_Less_expected : fp_PointTags_Less = "cd3785e62c56ade9" := by rfl

theorem fp_unmarshalWork_Unmarshal_expected : fp_unmarshalWork_Unmarshal = "969d014156f48e67" := by rfl

theorem fp_AppendFieldToCol_expected : fp_AppendFieldToCol = "a4cc75ae679093de" := by rfl


/-! behind the parser (Store.lean, Split.lean) -/

theorem fp_serveWrite_expected : fp_serveWrite = "5aa5f82307894c5c" := by rfl

theorem fp_serveWriteV1_expected : fp_serveWriteV1 = "19822e2e6baa7130" := by rfl

theorem fp_serveWriteV2_expected : fp_serveWriteV2 = "e25a6ea817584a8b" := by rfl

theorem fp_bucket2dbrp_expected : fp_bucket2dbrp = "956090cf63962b0f" := by rfl

theorem fp_convertToEpoch_expected : fp_convertToEpoch = "3c781f74aba9ed98" := by rfl

theorem fp_ReadLinesBlockExt_expected : fp_ReadLinesBlockExt = "725afa6eecb83539" := by rfl

theorem fp_streamContext_Read_expected : fp_streamContext_Read = "9d5e60e79a2f903a" := by rfl

theorem fp_fixFields_expected : fp_fixFields = "0b0a0745c0678fed" := by rfl

theorem fp_dropFieldByIndex_expected : fp_dropFieldByIndex = "9df661dcc5e3d3f4" := by rfl

theorem fp_dropTagByIndex_expected : fp_dropTagByIndex = "6943c22d7e57c658" := by rfl

theorem fp_routeAndMapOriginRows_expected : fp_routeAndMapOriginRows = "d3e29591fcb62f06" := by rfl

theorem fp_writePointRows_expected : fp_writePointRows = "ff763042b6284406" := by rfl

theorem fp_updateSchemaCheck_expected : fp_updateSchemaCheck = "efea4608adf81094" := by rfl

theorem fp_updateSchemaIfNeeded_expected : fp_updateSchemaIfNeeded = "02d716dfb1f7dea3" := by rfl

theorem fp_Data_UpdateSchema_expected : fp_Data_UpdateSchema = "44debe133eb743ae" := by rfl

theorem fp_checkFieldsToCreate_expected : fp_checkFieldsToCreate = "7475e9830912d69d" := by rfl

theorem fp_ValidMeasurementName_expected : fp_ValidMeasurementName = "bb22df57f8759e4f" := by rfl

theorem fp_validName_expected : fp_validName = "e5f0a8fde8a81f19" := by rfl

theorem fp_Row_CheckDuplicateTag_expected : fp_Row_CheckDuplicateTag = "a6b756749c70cbd1" := by rfl

theorem fp_shardGroupDuration_expected : fp_shardGroupDuration = "a36b2210fa73134d" := by rfl

theorem fp_CheckTime_expected : fp_CheckTime = "bde73937838cc609" := by rfl

theorem unsupportedMstChars_expected : unsupportedMstChars = [44, 59, 47, 92] := by rfl

theorem minNanoTime_expected : minNanoTimeGen = -9223372036854775806 := by rfl

theorem maxNanoTime_expected : maxNanoTimeGen = 9223372036854775806 := by rfl

/-- `ReadLinesBlockExt`: what is buffered when a read returns no byte becomes a block only at the
clean end of the stream. -/
theorem tailHandoverGuard_expected : tailHandoverGuard = ["err == io.EOF", "len(dstBuf) > 0"] := by rfl

/-- `serveWriteV1` reads `db` then `rp` and hands them on in this order, `serveWriteV2` reads
`bucket`, `serveWrite` reads `precision`. -/
theorem writeParamNames_expected : writeParamNames = ["db", "rp", "bucket", "precision"] := by rfl

/-- `toCharType`: digits, `e E`, `.`, `+ -`, everything else illegal. -/
theorem charTypeOf_expected : ∀ n, n < 256 → charTypeOf (UInt8.ofNat n) =
    (if 48 ≤ n ∧ n ≤ 57 then 0 else if n = 101 ∨ n = 69 then 1 else if n = 46 then 2 else if n = 43 ∨ n = 45 then 3 else 4) := by
  decide +kernel

theorem generation_ok : generationFailed = false := by rfl

end OG.C06.Facts
