/-
C06 — the body splitter loses nothing and cuts no line (`OG.C06.Split`).
-/
import OG.C06.Split

namespace OG.C06

/-! ### the last newline -/

theorem lastNLGo_spec (s : Bytes) (i : Nat) (acc : Option Nat) (n : Nat)
    (h : lastNLGo s i acc = some n) :
    acc = some n ∨ (i ≤ n ∧ s[n - i]? = some bNL) := by
  induction s generalizing i acc with
  | nil => left; simpa [lastNLGo] using h
  | cons c cs ih =>
    unfold lastNLGo at h
    rcases ih (i + 1) _ h with h1 | ⟨h1, h2⟩
    · by_cases hc : c = bNL
      · simp only [hc, if_true, Option.some.injEq] at h1
        right
        subst h1
        simp [hc]
      · simp only [hc, if_false] at h1
        left; exact h1
    · right
      refine ⟨by omega, ?_⟩
      have : n - i = (n - (i + 1)) + 1 := by omega
      rw [this, List.getElem?_cons_succ]
      exact h2

/-- `lastNL s = some n`: position `n` holds a newline. -/
theorem lastNL_spec (s : Bytes) (n : Nat) (h : lastNL s = some n) :
    s = s.take n ++ bNL :: s.drop (n + 1) := by
  unfold lastNL at h
  rcases lastNLGo_spec s 0 none n h with h1 | ⟨_, h2⟩
  · cases h1
  · simp only [Nat.sub_zero] at h2
    have hlt : n < s.length := by
      rcases Nat.lt_or_ge n s.length with h | h
      · exact h
      · rw [List.getElem?_eq_none h] at h2; cases h2
    have hget : s[n] = bNL := by
      rw [List.getElem?_eq_getElem hlt] at h2
      exact Option.some.inj h2
    have := List.take_append_drop n s
    conv => lhs; rw [← this]
    congr 1
    rw [List.drop_eq_getElem_cons hlt, hget]

/-! ### one call -/

/-- what a call that returns a block has done with the bytes before it: either the stream ended
and everything is the block, or the block is followed by a newline, the tail and the rest. -/
def BlockOf (fin : End) (all b t rest : Bytes) : Prop :=
  (all = b ∧ t = [] ∧ rest = [] ∧ b ≠ [] ∧ handover fin = true) ∨ all = b ++ bNL :: (t ++ rest)

theorem readLoop_block (grow : Nat → Option Nat) (fin : End) (maxLine origin : Nat) :
    ∀ (fuel cap : Nat) (dst inp b t rest : Bytes) (cap' : Nat), origin ≤ dst.length →
      readLoop grow fin maxLine origin fuel cap dst inp = .block b t rest cap' → BlockOf fin (dst ++ inp) b t rest := by
  intro fuel
  induction fuel with
  | zero => intro cap dst inp b t rest cap' _ h; simp [readLoop] at h
  | succ fuel ih =>
    intro cap dst inp b t rest cap' ho h
    unfold readLoop at h
    split at h
    · -- the stream is exhausted
      rename_i hi
      have hinp : inp = [] := List.isEmpty_iff.mp hi
      subst hinp
      split at h
      · rename_i hd
        simp only [ReadRes.block.injEq] at h
        obtain ⟨rfl, rfl, rfl, _⟩ := h
        simp only [Bool.and_eq_true, Bool.not_eq_true'] at hd
        left
        refine ⟨by simp, rfl, rfl, ?_, hd.1⟩
        intro he; rw [he] at hd; simp at hd
      · split at h <;> cases h
    · rename_i hi
      have hne : inp ≠ [] := by intro e; apply hi; simp [e]
      simp only at h
      generalize hroom : cap - dst.length = room at h
      generalize hd' : dst ++ List.take room inp = d' at h
      have hsplit : dst ++ inp = d' ++ inp.drop room := by
        rw [← hd', List.append_assoc, List.take_append_drop]
      have ho' : origin ≤ d'.length := by
        rw [← hd']; simp only [List.length_append]; omega
      split at h
      · -- the stream ended before the buffer was full
        rename_i hlt
        split at h
        · rename_i hho
          simp only [ReadRes.block.injEq] at h
          obtain ⟨rfl, rfl, rfl, _⟩ := h
          left
          have hlen : d'.length = dst.length + min room inp.length := by
            rw [← hd']; simp [List.length_take]
          have hdrop : inp.drop room = [] := by
            apply List.drop_eq_nil_of_le
            omega
          refine ⟨by rw [hsplit, hdrop, List.append_nil], rfl, rfl, ?_, hho⟩
          intro he
          have hl0 : d'.length = 0 := by rw [he]; rfl
          have hpos : 0 < inp.length := List.length_pos_iff.mpr hne
          omega
        · cases h
      · rename_i hlt
        split at h
        · rename_i nn hnl
          simp only [ReadRes.block.injEq] at h
          obtain ⟨rfl, rfl, rfl, _⟩ := h
          right
          have hs := lastNL_spec _ nn hnl
          have hfull : d' = d'.take (origin + nn) ++ bNL :: d'.drop (origin + nn + 1) := by
            have h1 := List.take_append_drop origin d'
            conv => lhs; rw [← h1, hs]
            rw [← List.append_assoc]
            congr 1
            · rw [List.take_add]
            · congr 1
              rw [List.drop_drop]
              congr 1
          rw [hsplit]
          conv => lhs; rw [hfull]
          simp [List.append_assoc]
        · split at h
          · cases h
          · split at h
            · split at h
              · rename_i c2 _
                have := ih c2 _ _ b t rest cap' ho' h
                rw [hsplit]; exact this
              · cases h
            · have := ih cap _ _ b t rest cap' ho' h
              rw [hsplit]; exact this

theorem readLoop_eof (grow : Nat → Option Nat) (fin : End) (maxLine origin : Nat) :
    ∀ (fuel cap : Nat) (dst inp : Bytes),
      readLoop grow fin maxLine origin fuel cap dst inp = .eof → dst = [] ∧ inp = [] := by
  intro fuel
  induction fuel with
  | zero => intro cap dst inp h; simp [readLoop] at h
  | succ fuel ih =>
    intro cap dst inp h
    unfold readLoop at h
    split at h
    · rename_i hi
      split at h
      · cases h
      · rename_i hd
        split at h
        · rename_i hf
          subst hf
          have : dst.isEmpty = true := by
            cases hde : dst.isEmpty with
            | true => rfl
            | false => exfalso; apply hd; simp [handover, hde]
          exact ⟨List.isEmpty_iff.mp this, List.isEmpty_iff.mp hi⟩
        · cases h
    · rename_i hi
      have hne : inp ≠ [] := by intro e; apply hi; simp [e]
      simp only at h
      generalize hroom : cap - dst.length = room at h
      generalize hd' : dst ++ List.take room inp = d' at h
      split at h
      · split at h <;> cases h
      · have hcontra : d' = [] → inp.drop room = [] → False := by
          intro h1 h2
          rw [← hd'] at h1
          have h3 : List.take room inp = [] := (List.append_eq_nil_iff.mp h1).2
          have := List.take_append_drop room inp
          rw [h3, h2] at this
          exact hne this.symm
        split at h
        · cases h
        · split at h
          · cases h
          · split at h
            · split at h
              · rename_i c2 _
                exact absurd (ih c2 _ _ h).2 (fun h2 => hcontra (ih c2 _ _ h).1 h2)
              · cases h
            · exact absurd (ih cap _ _ h).2 (fun h2 => hcontra (ih cap _ _ h).1 h2)

theorem readBlock_block (grow : Nat → Option Nat) (fin : End) (blk maxLine cap0 : Nat) (tail inp b t rest : Bytes) (cap' : Nat)
    (h : readBlock grow fin blk maxLine cap0 tail inp = .block b t rest cap') : BlockOf fin (tail ++ inp) b t rest := by
  unfold readBlock at h
  generalize (if cap0 < blk then blk else cap0) = cap at h
  simp only at h
  split at h
  · split at h
    · exact readLoop_block grow fin maxLine tail.length _ _ tail inp b t rest cap' (Nat.le_refl _) h
    · cases h
  · exact readLoop_block grow fin maxLine tail.length _ _ tail inp b t rest cap' (Nat.le_refl _) h

theorem readBlock_eof (grow : Nat → Option Nat) (fin : End) (blk maxLine cap0 : Nat) (tail inp : Bytes)
    (h : readBlock grow fin blk maxLine cap0 tail inp = .eof) : tail = [] ∧ inp = [] := by
  unfold readBlock at h
  generalize (if cap0 < blk then blk else cap0) = cap at h
  simp only at h
  split at h
  · split at h
    · exact readLoop_eof grow fin maxLine tail.length _ _ tail inp h
    · cases h
  · exact readLoop_eof grow fin maxLine tail.length _ _ tail inp h

/-! ### the whole body -/

/-- the blocks stand for the bytes `all`: joined by the newlines the splitter consumed they are
`all`, or `all` without its final newline (when the last full buffer ended with it). -/
def SplitOf (bs : List Bytes) (all : Bytes) : Prop :=
  (bs = [] ∧ all = []) ∨ (bs ≠ [] ∧ all ≠ [] ∧ (joinNL bs = all ∨ joinNL bs ++ [bNL] = all))

theorem splitOf_cons (fin : End) (all b t rest : Bytes) (bs' : List Bytes) (hblk : BlockOf fin all b t rest)
    (hih : SplitOf bs' (t ++ rest)) : SplitOf (b :: bs') all := by
  right
  rcases hblk with ⟨hall, ht, hrest, hbne, _⟩ | hall
  · -- the stream ended with this block: the next call answers eof
    subst ht hrest
    rcases hih with ⟨hb', _⟩ | ⟨_, hne, _⟩
    · subst hb'
      exact ⟨by simp, by rw [hall]; exact hbne, Or.inl (by simp [joinNL, hall])⟩
    · exact absurd rfl hne
  · have hne : all ≠ [] := by rw [hall]; simp
    refine ⟨by simp, hne, ?_⟩
    rcases hih with ⟨hb', hall'⟩ | ⟨hb', _, hj⟩
    · subst hb'
      right
      simp only [joinNL]
      rw [hall, hall']
    · cases bs' with
      | nil => exact absurd rfl hb'
      | cons x xs =>
        rcases hj with hj | hj
        · left
          show b ++ bNL :: joinNL (x :: xs) = all
          rw [hj, hall]
        · right
          show (b ++ bNL :: joinNL (x :: xs)) ++ [bNL] = all
          rw [hall, ← hj]
          simp [List.append_assoc]

theorem splitBlocks_spec (grow : Nat → Option Nat) (fin : End) (blk maxLine : Nat) :
    ∀ (fuel : Nat) (caps : List Nat) (eff : Nat) (tail inp : Bytes) (bs : List Bytes),
      splitBlocks grow fin blk maxLine fuel caps eff tail inp = (bs, none) → SplitOf bs (tail ++ inp) := by
  intro fuel
  induction fuel with
  | zero => intro caps eff tail inp bs h; simp [splitBlocks] at h
  | succ fuel ih =>
    intro caps eff tail inp bs h
    unfold splitBlocks at h
    simp only at h
    split at h
    · -- eof
      rename_i heof
      have := readBlock_eof _ _ _ _ _ _ _ heof
      simp only [Prod.mk.injEq, and_true] at h
      subst h
      left; simp [this.1, this.2]
    · simp at h
    · simp at h
    · simp at h
    · rename_i b t rest cap hb
      have hblk := readBlock_block _ _ _ _ _ _ _ _ _ _ _ hb
      simp only [Prod.mk.injEq] at h
      obtain ⟨hbs, he⟩ := h
      have hih := ih _ _ _ _ _ (Prod.ext rfl he)
      rw [← hbs]
      exact splitOf_cons _ _ _ _ _ _ hblk hih

/-- **the body splitter loses nothing**: whatever the block size, the line limit, the capacities
of the buffers it is handed and the way the runtime grows them, the blocks of a body joined by
newlines are the body (up to the body's final newline) — so every block boundary is a newline of
the body and no line is cut. -/
theorem split_concat_eq (grow : Nat → Option Nat) (blk maxLine : Nat) (caps : List Nat) (body : Bytes) (bs : List Bytes)
    (h : bodyBlocks grow blk maxLine caps body = (bs, none)) :
    joinNL bs = body ∨ joinNL bs ++ [bNL] = body := by
  have := splitBlocks_spec grow .eof blk maxLine _ _ _ _ _ _ h
  simp only [List.nil_append] at this
  rcases this with ⟨hb, ha⟩ | ⟨_, _, hj⟩
  · subst hb ha; left; rfl
  · exact hj

-- non-vacuity: "ab⏎abc…z⏎x⏎" read through a 16-byte buffer: the first buffer is cut at its
-- newline, the second one is doubled (no newline in 16 bytes) and the stream ends before it is
-- full, so the rest is one block
example : bodyBlocks growExact 16 64 [] ([97, 98, 10] ++ (List.range 26).map (fun i => UInt8.ofNat (97 + i)) ++ [10, 120, 10]) =
    ([[97, 98], (List.range 26).map (fun i => UInt8.ofNat (97 + i)) ++ [10, 120, 10]], none) := by decide

-- a body that ends with the newline that fills the buffer: the final newline is consumed
example : bodyBlocks growExact 4 64 [] [97, 98, 99, 10] = ([[97, 98, 99]], none) := by decide

-- a line longer than the limit is refused
example : (bodyBlocks growExact 4 6 [] [97, 98, 99, 100, 101, 102, 103, 104, 105]).2 = some .tooLong := by decide

end OG.C06
