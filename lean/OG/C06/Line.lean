/-
C06 — a whole line: the tokenizer and the section parsers over the canonical spelling of a
point (helper lemmas of `line_roundtrip`).
-/
import OG.C06.Scan

namespace OG.C06
open OG.Gen.C06
theorem space_in_set : escapeSet.contains bSpace = true := by decide
theorem comma_in_set : escapeSet.contains bComma = true := by decide
theorem eq_in_set : escapeSet.contains bEq = true := by decide

theorem take_append_len (u v : Bytes) : (u ++ v).take u.length = u := by simp
theorem drop_append_len1 (u : Bytes) (c : UInt8) (v : Bytes) : (u ++ c :: v).drop (u.length + 1) = v := by
  rw [← List.drop_drop]; simp

theorem clean_showTag {ch : UInt8} (hs : escapeSet.contains ch = true) (hb : ch ≠ bBslash) (he : ch ≠ bEq) (t : Tag) :
    Clean ch (showTag t) :=
  Clean.append (Clean.escapeTag hs hb _) (Clean.cons (Ne.symm he) (by decide) (Clean.escapeTag hs hb _))

theorem clean_showTagsTail_space : ∀ ts : List Tag, Clean bSpace (showTagsTail ts)
  | [] => Clean.nil _
  | [t] => clean_showTag space_in_set (by decide) (by decide) t
  | t :: t' :: ts => Clean.append (clean_showTag space_in_set (by decide) (by decide) t)
      (Clean.cons (by decide) (by decide) (clean_showTagsTail_space (t' :: ts)))

theorem parseTag_roundtrip (t : Tag) (h : TagOk t) : parseTag false (showTag t) = .ok t := by
  unfold parseTag showTag
  rw [nextUnesc_found (Clean.escapeTag eq_in_set (by decide) _)]
  simp only [take_append_len, drop_append_len1, unescapeTag, Bool.false_eq_true, if_false, unescGo_escapeTag]
  have h1 : ¬ t.key.length > maxTagNameLength := by have := h.2.2.1; omega
  have h2 : ¬ t.val.length > maxTagValueLength := by have := h.2.2.2; omega
  simp [h1, h2]

theorem isEmpty_false {l : Bytes} (h : l ≠ []) : l.isEmpty = false := by
  cases l with
  | nil => exact absurd rfl h
  | cons _ _ => rfl

/-- **the tag list is read back as written.** -/
theorem parseTags_roundtrip : ∀ (ts : List Tag) (fuel : Nat), ts ≠ [] → (∀ t ∈ ts, TagOk t) → ts.length ≤ fuel →
    parseTags false fuel (showTagsTail ts) = .ok ts
  | [], _, h, _, _ => absurd rfl h
  | [t], fuel, _, hok, hf => by
    cases fuel with
    | zero => simp at hf
    | succ fuel =>
      have ht := hok t (by simp)
      rw [parseTags, showTagsTail, nextUnesc_none (clean_showTag comma_in_set (by decide) (by decide) t)]
      simp only [parseTag_roundtrip t ht]
      simp [isEmpty_false ht.1, isEmpty_false ht.2.1, bind, Except.bind, pure, Except.pure]
  | t :: t' :: ts, fuel, _, hok, hf => by
    cases fuel with
    | zero => simp at hf
    | succ fuel =>
      have ht := hok t (by simp)
      rw [parseTags, showTagsTail, nextUnesc_found (clean_showTag comma_in_set (by decide) (by decide) t)]
      simp only [take_append_len, drop_append_len1, parseTag_roundtrip t ht]
      have ih := parseTags_roundtrip (t' :: ts) fuel (by simp) (fun x hx => hok x (by simp [hx])) (by simp at hf ⊢; omega)
      simp [ih, isEmpty_false ht.1, isEmpty_false ht.2.1, bind, Except.bind, pure, Except.pure]

theorem clean_showField_comma (f : NField) (h : f.Ok) : Clean bComma (showField f.text) :=
  Clean.append (Clean.escapeTag comma_in_set (by decide) _)
    (Clean.cons (by decide) (by decide) (Clean.plain (fun c hc => ⟨(h.2.2.2.1 c hc).2.1, (h.2.2.2.1 c hc).2.2.2⟩)))

theorem clean_showField_space (f : NField) (h : f.Ok) : Clean bSpace (showField f.text) :=
  Clean.append (Clean.escapeTag space_in_set (by decide) _)
    (Clean.cons (by decide) (by decide) (Clean.plain (fun c hc => ⟨(h.2.2.2.1 c hc).1, (h.2.2.2.1 c hc).2.2.2⟩)))

theorem clean_showFields_space : ∀ fs : List NField, (∀ f ∈ fs, f.Ok) → Clean bSpace (showFields (fs.map NField.text))
  | [], _ => Clean.nil _
  | [f], h => clean_showField_space f (h f (by simp))
  | f :: f' :: fs, h => Clean.append (clean_showField_space f (h f (by simp)))
      (Clean.cons (by decide) (by decide) (clean_showFields_space (f' :: fs) (fun x hx => h x (by simp [hx]))))

theorem parseField_roundtrip (f : NField) (h : f.Ok) : parseField false false (showField f.text) = .ok f.field := by
  unfold parseField showField NField.text
  rw [nextUnesc_found (Clean.escapeTag eq_in_set (by decide) _)]
  simp only [take_append_len, drop_append_len1, unescapeTag, Bool.false_eq_true, if_false, unescGo_escapeTag]
  have h1 : ¬ f.key.length > maxFieldNameLength := by have := h.2.1; omega
  simp [isEmpty_false h.1, h1, h.2.2.2.2, NField.field]

theorem nextUnquoted_false (ch : UInt8) (s : Bytes) : nextUnquoted false false ch s = nextUnesc false ch s := by
  simp [nextUnquoted]

/-- **the field list (non-string fields) is read back as written.** -/
theorem parseFields_roundtrip : ∀ (fs : List NField) (fuel : Nat), fs ≠ [] → (∀ f ∈ fs, f.Ok) → fs.length ≤ fuel →
    parseFields false false fuel (showFields (fs.map NField.text)) = .ok (fs.map NField.field)
  | [], _, h, _, _ => absurd rfl h
  | [f], fuel, _, hok, hf => by
    cases fuel with
    | zero => simp at hf
    | succ fuel =>
      have hf := hok f (by simp)
      simp only [List.map_cons, List.map_nil, showFields]
      rw [parseFields, nextUnquoted_false, nextUnesc_none (clean_showField_comma f hf), parseField_roundtrip f hf]
      rfl
  | f :: f' :: fs, fuel, _, hok, hf => by
    cases fuel with
    | zero => simp at hf
    | succ fuel =>
      have hf1 := hok f (by simp)
      have ih := parseFields_roundtrip (f' :: fs) fuel (by simp) (fun x hx => hok x (by simp [hx])) (by simp at hf ⊢; omega)
      simp only [List.map_cons, showFields] at ih ⊢
      rw [parseFields, nextUnquoted_false, nextUnesc_found (clean_showField_comma f hf1)]
      simp only [take_append_len, drop_append_len1, parseField_roundtrip f hf1, ih]
      rfl



theorem mem_escapeTag {c : UInt8} : ∀ {k : Bytes}, c ∈ escapeTag k → c = bBslash ∨ c ∈ k := by
  intro k
  induction k with
  | nil => intro h; simp [escapeTag] at h
  | cons d ds ih =>
    intro h
    rw [escapeTag_cons] at h
    by_cases hd : escapeSet.contains d = true
    · rw [if_pos hd] at h
      simp only [List.cons_append, List.nil_append, List.mem_cons] at h
      rcases h with h | h | h
      · exact Or.inl h
      · exact Or.inr (by simp [h])
      · rcases ih h with h | h
        · exact Or.inl h
        · exact Or.inr (by simp [h])
    · rw [if_neg hd] at h
      simp only [List.cons_append, List.nil_append, List.mem_cons] at h
      rcases h with h | h
      · exact Or.inr (by simp [h])
      · rcases ih h with h | h
        · exact Or.inl h
        · exact Or.inr (by simp [h])

/-- the escaped text of a non-empty token starts with a byte that is no blank, tab or NUL,
unless the token itself starts with a tab or NUL. -/
theorem escapeTag_head (k rest : Bytes) (hk : k ≠ []) (h9 : k.head? ≠ some bTab) (h0 : k.head? ≠ some 0) :
    ∃ c cs, escapeTag k ++ rest = c :: cs ∧ c ≠ bSpace ∧ c ≠ bTab ∧ c ≠ 0 := by
  cases k with
  | nil => exact absurd rfl hk
  | cons d ds =>
    rw [escapeTag_cons]
    by_cases hd : escapeSet.contains d = true
    · rw [if_pos hd]
      exact ⟨bBslash, d :: (escapeTag ds ++ rest), rfl, by decide, by decide, by decide⟩
    · rw [if_neg hd]
      refine ⟨d, escapeTag ds ++ rest, rfl, ?_, ?_, ?_⟩
      · intro e; subst e; exact hd (by decide)
      · intro e; subst e; exact h9 rfl
      · intro e; subst e; exact h0 rfl

theorem skipLeadingWs_of_head {c : UInt8} {cs : Bytes} (h1 : c ≠ bSpace) (h2 : c ≠ bTab) (h3 : c ≠ 0) :
    skipLeadingWs (c :: cs) = c :: cs := by
  rw [skipLeadingWs]; simp [h1, h2, h3]

theorem stripSpaces_of_head {c : UInt8} {cs : Bytes} (h1 : c ≠ bSpace) : stripSpaces (c :: cs) = c :: cs := by
  rw [stripSpaces]; simp [h1]

/-! ### white space around a timestamp -/

theorem head_of_map {r : Bytes} (h : r.head?.map isDigit = some false) : ∃ x xs, r = x :: xs ∧ isDigit x = false := by
  cases r with
  | nil => simp at h
  | cons x xs => exact ⟨x, xs, rfl, by simpa using h⟩

theorem spaceRunes_head : ∀ r ∈ spaceRunes, ∃ x xs, id r = x :: xs ∧ isDigit x = false := by
  have : ∀ r ∈ spaceRunes, r.head?.map isDigit = some false := by decide
  intro r hr; exact head_of_map (this r hr)
theorem spaceRunes_last : ∀ r ∈ spaceRunes, ∃ x xs, r.reverse = x :: xs ∧ isDigit x = false := by
  have : ∀ r ∈ spaceRunes, r.reverse.head?.map isDigit = some false := by decide
  intro r hr; exact head_of_map (this r hr)

theorem findSome_none_of_digit (c : UInt8) (cs : Bytes) (hc : isDigit c = true) (rs : List Bytes)
    (f : Bytes → Bytes) (h : ∀ r ∈ rs, ∃ x xs, f r = x :: xs ∧ isDigit x = false) :
    rs.findSome? (fun r => if (f r).isPrefixOf (c :: cs) then some ((c :: cs).drop r.length) else none) = none := by
  induction rs with
  | nil => rfl
  | cons r rs ih =>
    rw [List.findSome?_cons]
    obtain ⟨x, xs, hx, hd⟩ := h r (by simp)
    have : (f r).isPrefixOf (c :: cs) = false := by
      rw [hx, List.isPrefixOf]
      have : x ≠ c := by intro e; subst e; rw [hc] at hd; cases hd
      simp [this]
    simp only [this, Bool.false_eq_true, if_false]
    exact ih (fun r hr => h r (by simp [hr]))

theorem trimLeft_digit (fuel : Nat) (c : UInt8) (cs : Bytes) (hc : isDigit c = true) : trimLeft fuel (c :: cs) = c :: cs := by
  cases fuel with
  | zero => rfl
  | succ fuel =>
    rw [trimLeft]
    have : stripSpacePrefix (c :: cs) = none := by
      unfold stripSpacePrefix
      exact findSome_none_of_digit c cs hc spaceRunes id spaceRunes_head
    rw [this]

theorem trimRightRev_digit (fuel : Nat) (c : UInt8) (cs : Bytes) (hc : isDigit c = true) : trimRightRev fuel (c :: cs) = c :: cs := by
  cases fuel with
  | zero => rfl
  | succ fuel =>
    rw [trimRightRev]
    have := findSome_none_of_digit c cs hc spaceRunes List.reverse spaceRunes_last
    rw [this]

theorem trimSpace_digits (s : Bytes) (hne : s ≠ []) (hd : s.all isDigit = true) : trimSpace s = s := by
  unfold trimSpace
  cases s with
  | nil => exact absurd rfl hne
  | cons c cs =>
    simp only [List.all_cons, Bool.and_eq_true] at hd
    rw [trimLeft_digit _ c cs hd.1]
    simp only
    -- last byte is a digit as well
    have hrev : (c :: cs).reverse ≠ [] := by simp
    cases hr : (c :: cs).reverse with
    | nil => exact absurd hr hrev
    | cons x xs =>
      have hx : isDigit x = true := by
        have : x ∈ (c :: cs) := by
          have : x ∈ (c :: cs).reverse := by rw [hr]; simp
          exact List.mem_reverse.mp this
        rcases List.mem_cons.mp this with h | h
        · rw [h]; exact hd.1
        · exact (List.all_eq_true.mp hd.2) x h
      rw [trimRightRev_digit _ x xs hx, ← hr, List.reverse_reverse]

theorem parseTimestamp_showNat (t : Nat) (h : (t : Int) ≤ maxInt64) : parseTimestamp (showNat t) = some (t : Int) := by
  obtain ⟨_, p2, p3⟩ := showNat_spec t
  unfold parseTimestamp
  rw [trimSpace_digits _ p3 p2]
  have : (showNat t).isEmpty = false := by
    cases hs : showNat t with
    | nil => exact absurd hs p3
    | cons _ _ => rfl
  simp only [this, Bool.false_eq_true, if_false, p2, Bool.not_true]
  have := parseInt64_showInt (t : Int) (by unfold minInt64; omega) h
  unfold showInt at this
  have hn : ¬ ((t : Int) < 0) := by omega
  rw [if_neg hn, Int.natAbs_natCast] at this
  exact this




theorem showTagsTail_length : ∀ ts : List Tag, ts.length ≤ (showTagsTail ts).length
  | [] => by simp
  | [t] => by simp [showTagsTail, showTag]; omega
  | t :: t' :: ts => by
    have := showTagsTail_length (t' :: ts)
    simp only [showTagsTail, showTag, List.length_append, List.length_cons] at this ⊢
    omega

theorem showFields_length : ∀ fs : List (Bytes × Bytes), fs.length ≤ (showFields fs).length
  | [] => by simp
  | [f] => by simp [showFields, showField]; omega
  | f :: f' :: fs => by
    have := showFields_length (f' :: fs)
    simp only [showFields, showField, List.length_append, List.length_cons] at this ⊢
    omega

theorem showFields_head (fs : List NField) (hne : fs ≠ []) (hok : ∀ f ∈ fs, f.Ok) (rest : Bytes) :
    ∃ c cs, showFields (fs.map NField.text) ++ rest = c :: cs ∧ c ≠ bSpace := by
  cases fs with
  | nil => exact absurd rfl hne
  | cons f fs =>
    have hf := hok f (by simp)
    have key : ∀ tail : Bytes, ∃ c cs, escapeTag f.key ++ tail = c :: cs ∧ c ≠ bSpace := by
      intro tail
      cases hk : f.key with
      | nil => exact absurd hk hf.1
      | cons d ds =>
        rw [escapeTag_cons]
        by_cases hd : escapeSet.contains d = true
        · rw [if_pos hd]; exact ⟨bBslash, _, rfl, by decide⟩
        · rw [if_neg hd]; exact ⟨d, _, rfl, by intro e; subst e; exact hd (by decide)⟩
    cases fs with
    | nil =>
      simp only [List.map_cons, List.map_nil, showFields, showField, NField.text, List.append_assoc]
      exact key _
    | cons f' fs =>
      simp only [List.map_cons, showFields, showField, NField.text, List.append_assoc]
      exact key _

theorem no_quote_showFields : ∀ fs : List NField, (∀ f ∈ fs, f.Ok) → ∀ c ∈ showFields (fs.map NField.text), c ≠ bQuote
  | [], _ => by intro c hc; simp [showFields] at hc
  | [f], hok => by
    intro c hc
    have hf := hok f (by simp)
    simp only [List.map_cons, List.map_nil, showFields, showField, NField.text, List.mem_append, List.mem_cons] at hc
    rcases hc with h | h | h
    · rcases mem_escapeTag h with h | h
      · rw [h]; decide
      · exact hf.2.2.1 c h
    · rw [h]; decide
    · exact (hf.2.2.2.1 c h).2.2.1
  | f :: f' :: fs, hok => by
    intro c hc
    have hf := hok f (by simp)
    have ih := no_quote_showFields (f' :: fs) (fun x hx => hok x (by simp [hx]))
    simp only [List.map_cons, showFields, showField, NField.text, List.mem_append, List.mem_cons] at hc ih
    rcases hc with (h | h | h) | h | h
    · rcases mem_escapeTag h with h | h
      · rw [h]; decide
      · exact hf.2.2.1 c h
    · rw [h]; decide
    · exact (hf.2.2.2.1 c h).2.2.1
    · rw [h]; decide
    · exact ih c (by simpa [showFields, showField, NField.text] using h)

theorem digits_no_quote (t : Nat) : ∀ c ∈ showNat t, c ≠ bQuote := by
  intro c hc e
  have := List.all_eq_true.mp (showNat_spec t).2.1 c hc
  subst e
  revert this; decide

theorem showNat_head (t : Nat) : ∃ c cs, showNat t = c :: cs ∧ c ≠ bSpace := by
  cases h : showNat t with
  | nil => exact absurd h (showNat_spec t).2.2
  | cons c cs =>
    refine ⟨c, cs, rfl, ?_⟩
    intro e
    have := List.all_eq_true.mp (showNat_spec t).2.1 c (by rw [h]; simp)
    subst e; revert this; decide




theorem clean_head_space (p : NPoint) :
    Clean bSpace (escapeTag p.name ++ (if p.tags = [] then [] else bComma :: showTagsTail p.tags)) := by
  apply Clean.append (Clean.escapeTag space_in_set (by decide) _)
  by_cases ht : p.tags = []
  · rw [if_pos ht]; exact Clean.nil _
  · rw [if_neg ht]; exact Clean.cons (by decide) (by decide) (clean_showTagsTail_space _)

/-- measurement and tags of the head section. -/
theorem head_section (p : NPoint) (htags : ∀ t ∈ p.tags, TagOk t) :
    parseHead false (escapeTag p.name ++ (if p.tags = [] then [] else bComma :: showTagsTail p.tags))
      = .ok (sortTags p.tags, escapeTag p.name) := by
  unfold parseHead
  by_cases ht : p.tags = []
  · simp only [ht, if_true, List.append_nil]
    rw [nextUnesc_none (Clean.escapeTag comma_in_set (by decide) _)]
    rfl
  · simp only [ht, if_false]
    rw [nextUnesc_found (Clean.escapeTag comma_in_set (by decide) _)]
    simp only [take_append_len, drop_append_len1]
    rw [parseTags_roundtrip p.tags _ ht htags (by
      have := showTagsTail_length p.tags
      simp only [List.length_append, List.length_cons]; omega)]
    rfl

/-- fields and timestamp of the tail section. -/
theorem tail_section (p : NPoint) (hf0 : p.fields ≠ []) (hfs : ∀ f ∈ p.fields, f.Ok)
    (hts : ∀ t, p.ts = some t → (t : Int) ≤ maxInt64) (name : Bytes) (tags : List Tag) :
    parseTail false name tags
      (showFields (p.fields.map NField.text) ++ showTs p.ts)
    = .ok ⟨name, tags, p.fields.map NField.field, tsOf p.ts⟩ := by
  generalize hS : showFields (p.fields.map NField.text) ++ showTs p.ts = S
  have hq : nextUnesc false bQuote S = none := by
    apply nextUnesc_absent
    intro c hc
    rw [← hS] at hc
    rcases List.mem_append.mp hc with h | h
    · exact no_quote_showFields p.fields hfs c h
    · cases hp : p.ts with
      | none => rw [hp] at h; simp [showTs] at h
      | some t =>
        rw [hp] at h
        rcases List.mem_cons.mp (by simpa [showTs] using h) with h | h
        · rw [h]; decide
        · exact digits_no_quote t c h
  unfold parseTail
  rw [hq]
  simp only [Option.isSome_none, nextUnquoted_false]
  have hlen : p.fields.length ≤ (showFields (p.fields.map NField.text)).length := by
    have := showFields_length (p.fields.map NField.text); simpa using this
  cases hp : p.ts with
  | none =>
    rw [hp] at hS
    simp only [showTs, List.append_nil] at hS
    subst hS
    rw [nextUnesc_none (clean_showFields_space p.fields hfs)]
    simp only
    rw [parseFields_roundtrip p.fields _ hf0 hfs (by omega)]
    rfl
  | some t =>
    rw [hp] at hS
    simp only [showTs] at hS
    subst hS
    rw [nextUnesc_found (clean_showFields_space p.fields hfs)]
    simp only [take_append_len, drop_append_len1]
    rw [parseFields_roundtrip p.fields _ hf0 hfs (by omega)]
    obtain ⟨c, cs, hc, hne⟩ := showNat_head t
    simp only
    rw [hc, stripSpaces_of_head hne, ← hc, parseTimestamp_showNat t (hts t hp)]
    rfl


end OG.C06
