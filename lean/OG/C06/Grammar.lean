/-
C06 — the reference grammar of field values, stated independently of the parser's control
flow: what a token *is* (by the grammar) and what it *denotes*. The theorems of `Props.lean`
relate the model of `parseFieldNumValue` / `parseFieldStrValue` to these definitions.
Core Lean only.
-/
import OG.C06.Model

namespace OG.C06
open OG.Gen.C06

def isExpMark (c : UInt8) : Bool := c == 101 || c == 69     -- 'e' 'E'
def isSign (c : UInt8) : Bool := c == 43 || c == 45         -- '+' '-'

/-! ### the number grammar
`[+-]? (digit+ ('.' digit*)? | '.' digit+) ([eE] [+-]? digit+)?` as a recursive-descent
recogniser (one function per position in the regular expression). -/

/-- digit* (after the first exponent digit) -/
def gExpDigits : Bytes → Bool
  | [] => true
  | c :: cs => isDigit c && gExpDigits cs
/-- digit+ -/
def gExpDigits1 : Bytes → Bool
  | [] => false
  | c :: cs => isDigit c && gExpDigits cs
/-- [+-]? digit+ -/
def gExp : Bytes → Bool
  | [] => false
  | c :: cs => if isSign c then gExpDigits1 cs else isDigit c && gExpDigits cs
/-- digit* ([eE] exponent)? -/
def gFrac : Bytes → Bool
  | [] => true
  | c :: cs => if isDigit c then gFrac cs else isExpMark c && gExp cs
/-- digit+ ([eE] exponent)? -/
def gFrac1 : Bytes → Bool
  | [] => false
  | c :: cs => isDigit c && gFrac cs
/-- digit* ('.' digit*)? ([eE] exponent)?   (after the first integer digit) -/
def gInt : Bytes → Bool
  | [] => true
  | c :: cs => if isDigit c then gInt cs else if c == bDot then gFrac cs else isExpMark c && gExp cs
/-- digit+ … | '.' digit+ … -/
def gUnsigned : Bytes → Bool
  | [] => false
  | c :: cs => if isDigit c then gInt cs else c == bDot && gFrac1 cs
/-- the number grammar -/
def gNumber : Bytes → Bool
  | [] => false
  | c :: cs => if isSign c then gUnsigned cs else gUnsigned (c :: cs)

/-! ### field values -/

/-- `-? digit+` -/
def gInteger (s : Bytes) : Bool :=
  match s with
  | [] => false
  | c :: cs => if c == bMinus then !cs.isEmpty && cs.all isDigit else s.all isDigit

/-- the integer a `gInteger` token denotes. -/
def integerValue (s : Bytes) : Int :=
  match s with
  | [] => 0
  | c :: cs => if c == bMinus then -(parseNat cs : Int) else (parseNat s : Int)

/-- what a value token denotes. -/
inductive SpecVal where
  | int (n : Int)
  /-- the float64 nearest to the decimal text (bit pattern; conversion trusted to strconv) -/
  | float (bits : Nat)
  | bool (b : Bool)
deriving DecidableEq, Repr

/-- denotation of an unquoted value token: a boolean spelling, an integer of the int64 range
followed by `i`, or a number (optionally followed by `f`) whose value is finite. Anything
else is not a value. -/
def specNum (tok : Bytes) : Option SpecVal :=
  if trueLits.contains tok then some (.bool true)
  else if falseLits.contains tok then some (.bool false)
  else
    match tok.getLast? with
    | none => none
    | some ch =>
      if ch = 105 then
        let body := tok.dropLast
        if gInteger body ∧ minInt64 ≤ integerValue body ∧ integerValue body ≤ maxInt64
        then some (.int (integerValue body)) else none
      else
        let body := if ch = 102 then tok.dropLast else tok
        if gNumber body then
          let (neg, m, e) := splitNumber body
          (decToF64 neg m e).map .float
        else none

/-- denotation of a quoted value token: the left-to-right reading of the body. -/
def specStr (tok : Bytes) : Option Bytes :=
  match tok with
  | [] => none
  | c :: rest =>
    if c = bQuote ∧ tok.length ≥ 2 ∧ tok.getLast? = some bQuote then some (unquoteRef rest.dropLast) else none

/-- what the parser's result for a token holds once stored. -/
def embedParsed : SpecVal → FVal
  | .int n => .int (roundF64 n)
  | .float b => .float b
  | .bool b => .bool b

/-- the value the text denotes, as a stored value. -/
def exactStored : SpecVal → FVal
  | .int n => .int n
  | .float b => .float b
  | .bool b => .bool b

/-- what is stored for an unquoted token: `parseFieldNumValue`, then `AppendFieldToCol`. -/
def tokenStored (tok : Bytes) : Option FVal :=
  (parseNum tok).map fun v => (storeField ⟨[], v⟩).2

/-- printer of an integer field value. -/
def intToken (n : Int) : Bytes := showInt n ++ [105]

/-- the escaped body of `quoteStr`. -/
def quoteBody (s : Bytes) : Bytes :=
  s.flatMap fun c => if c = bBslash ∨ c = bQuote then [bBslash, c] else [c]


/-! ### printers of a whole line (canonical spelling) -/

def showTag (t : Tag) : Bytes := escapeTag t.key ++ bEq :: escapeTag t.val

/-- `k=v,k=v,…` -/
def showTagsTail : List Tag → Bytes
  | [] => []
  | [t] => showTag t
  | t :: t' :: ts => showTag t ++ bComma :: showTagsTail (t' :: ts)

def showField (f : Bytes × Bytes) : Bytes := escapeTag f.1 ++ bEq :: f.2

/-- `k=tok,k=tok,…` -/
def showFields : List (Bytes × Bytes) → Bytes
  | [] => []
  | [f] => showField f
  | f :: f' :: fs => showField f ++ bComma :: showFields (f' :: fs)

/-- a value token without blank, comma, quote or backslash (every integer, number and
boolean spelling is one). -/
def PlainTok (t : Bytes) : Prop := ∀ c ∈ t, c ≠ bSpace ∧ c ≠ bComma ∧ c ≠ bQuote ∧ c ≠ bBslash

/-- a printable non-string field: key, value token, the value the parser gives the token. -/
structure NField where
  key : Bytes
  tok : Bytes
  val : FVal

/-- well-formed: a non-empty key within the length limit and without a double quote (see the
finding `stray_quote`), a plain token that parses. -/
def NField.Ok (f : NField) : Prop :=
  f.key ≠ [] ∧ f.key.length ≤ maxFieldNameLength ∧ (∀ c ∈ f.key, c ≠ bQuote) ∧ PlainTok f.tok ∧ parseNum f.tok = some f.val

def NField.text (f : NField) : Bytes × Bytes := (f.key, f.tok)
def NField.field (f : NField) : Field := ⟨f.key, f.val⟩

def TagOk (t : Tag) : Prop :=
  t.key ≠ [] ∧ t.val ≠ [] ∧ t.key.length ≤ maxTagNameLength ∧ t.val.length ≤ maxTagValueLength

/-- a written timestamp must fit the int64 range. -/
def tsOk : Option Nat → Prop
  | none => True
  | some t => (t : Int) ≤ maxInt64

instance : (o : Option Nat) → Decidable (tsOk o)
  | none => isTrue trivial
  | some t => inferInstanceAs (Decidable ((t : Int) ≤ maxInt64))

instance (t : Bytes) : Decidable (PlainTok t) := by unfold PlainTok; infer_instance
instance (t : Tag) : Decidable (TagOk t) := by unfold TagOk; infer_instance
instance (f : NField) : Decidable f.Ok := by unfold NField.Ok; infer_instance

/-- a point with non-string fields. -/
structure NPoint where
  name : Bytes
  tags : List Tag
  fields : List NField
  ts : Option Nat

def NPoint.Ok (p : NPoint) : Prop :=
  p.name ≠ [] ∧ p.name.length ≤ maxMeasurementLength ∧ p.name.head? ≠ some bTab ∧ p.name.head? ≠ some 0 ∧
  (∀ t ∈ p.tags, TagOk t) ∧ p.fields ≠ [] ∧ (∀ f ∈ p.fields, f.Ok) ∧
  tsOk p.ts

/-- ` <timestamp>` or nothing. -/
def showTs : Option Nat → Bytes
  | none => []
  | some t => bSpace :: showNat t

/-- the timestamp a parsed row carries (`NoTimestamp` when the line has none). -/
def tsOf : Option Nat → Int
  | none => noTimestamp
  | some t => (t : Int)

instance (p : NPoint) : Decidable p.Ok := by unfold NPoint.Ok; infer_instance

/-- the canonical line of a point: every byte of the escape set escaped. -/
def showLine (p : NPoint) : Bytes :=
  escapeTag p.name ++ (if p.tags = [] then [] else bComma :: showTagsTail p.tags) ++
    bSpace :: (showFields (p.fields.map NField.text) ++ showTs p.ts)

/-- what the line of a well-formed point must parse to. -/
def NPoint.row (p : NPoint) : Row :=
  ⟨p.name, sortTags p.tags, p.fields.map NField.field, tsOf p.ts⟩


/-! ### lines with string fields -/

/-- a printable field: a non-string field as above, or a string field with any body. -/
inductive SField where
  | num (key tok : Bytes) (val : FVal)
  | str (key body : Bytes)

def SField.key : SField → Bytes
  | .num k _ _ => k
  | .str k _ => k

def SField.isStr : SField → Bool
  | .num _ _ _ => false
  | .str _ _ => true

/-- the value as printed: the token, or the quoted and escaped body. -/
def SField.valueText : SField → Bytes
  | .num _ tok _ => tok
  | .str _ b => quoteStr b

def SField.text (f : SField) : Bytes := escapeTag f.key ++ bEq :: f.valueText

def SField.field : SField → Field
  | .num k _ v => ⟨k, v⟩
  | .str k b => ⟨k, .str b⟩

def SField.Ok : SField → Prop
  | .num k tok v => k ≠ [] ∧ k.length ≤ maxFieldNameLength ∧ (∀ c ∈ k, c ≠ bQuote) ∧ PlainTok tok ∧ parseNum tok = some v
  | .str k _ => k ≠ [] ∧ k.length ≤ maxFieldNameLength ∧ (∀ c ∈ k, c ≠ bQuote)

instance : (f : SField) → Decidable f.Ok
  | .num _ _ _ => by unfold SField.Ok; infer_instance
  | .str _ _ => by unfold SField.Ok; infer_instance

/-- `k=value,k=value,…` -/
def showSFields : List SField → Bytes
  | [] => []
  | [f] => f.text
  | f :: f' :: fs => f.text ++ bComma :: showSFields (f' :: fs)

/-- a point with fields of every type. -/
structure SPoint where
  name : Bytes
  tags : List Tag
  fields : List SField
  ts : Option Nat

def SPoint.Ok (p : SPoint) : Prop :=
  p.name ≠ [] ∧ p.name.length ≤ maxMeasurementLength ∧ p.name.head? ≠ some bTab ∧ p.name.head? ≠ some 0 ∧
  (∀ t ∈ p.tags, TagOk t) ∧ p.fields ≠ [] ∧ (∀ f ∈ p.fields, f.Ok) ∧ tsOk p.ts

instance (p : SPoint) : Decidable p.Ok := by unfold SPoint.Ok; infer_instance

def showSLine (p : SPoint) : Bytes :=
  escapeTag p.name ++ (if p.tags = [] then [] else bComma :: showTagsTail p.tags) ++
    bSpace :: (showSFields p.fields ++ showTs p.ts)

def SPoint.row (p : SPoint) : Row :=
  ⟨p.name, sortTags p.tags, p.fields.map SField.field, tsOf p.ts⟩


/-! ### one-line request blocks -/

/-- a line that `unmarshalRow` neither trims nor skips. -/
def LineShape (s : Bytes) : Prop :=
  (∀ c ∈ s, c ≠ bNL) ∧ s.getLast? ≠ some bCR ∧ s.head? ≠ some bHash ∧ s ≠ []

instance (s : Bytes) : Decidable (LineShape s) := by unfold LineShape; infer_instance

/-- what the stored row of a parsed row is. -/
def storedOf (mult : Int) (r : Row) : StoredRow :=
  { name := r.name, tags := r.tags, fields := r.fields.map storeField,
    ts := if r.ts = noTimestamp then none else some (r.ts * mult) }


end OG.C06
