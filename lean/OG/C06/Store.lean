/-
C06 — behind the parser: what a `/write` request stores and what `SELECT *` reads back.
Core Lean only (also compiled into the driver).

  handler        `serveWrite` / `serveWriteV1` / `serveWriteV2` (httpd/handler.go): database and
                 retention policy from the query parameters, the precision multiplier, the body
                 cut into blocks (`Split.lean`), every block through `processBlock` (`Model.lean`)
  points writer  `routeAndMapOriginRows` (coordinator/points_writer.go): `models.CheckTime`,
                 `sort.Stable(&r.Fields)`, `fixFields`, measurement name check
                 (`meta.ValidMeasurementName`), `updateSchemaCheck` + `Data.UpdateSchema`
                 (coordinator/write_helper.go, meta/data.go) against the measurement's schema
  store          rows → records: one column per field key, typed by the first writer; the same
                 (series, time) written again keeps the last value per field (memtable, flush and
                 merge keep this; tied by the correspondence before / after flush and reopen);
                 the rows of one request go to the store shard group by shard group, a group
                 holding a point without fields fails as a whole
  query          `SELECT * FROM m`: one column per schema key in byte order, one row per
                 (series, time); rendered by the HTTP layer's JSON formatter and decoded by a
                 client: text passes through `jsonText` (invalid UTF-8 → U+FFFD)
-/
import OG.C06.Model
import OG.C06.Split

namespace OG.C06
open OG.Gen.C06

/-! ### catalogue schema and stored points -/

inductive Ty where
  | int | float | bool | str | tag
deriving DecidableEq, Repr

def tyOf : FVal → Ty
  | .int _ => .int
  | .float _ => .float
  | .bool _ => .bool
  | .str _ => .str

abbrev Schema := List (Bytes × Ty)

def schemaGet (s : Schema) (k : Bytes) : Option Ty := s.lookup k

structure Point where
  tags : List Tag
  ts : Int
  fields : List (Bytes × FVal)
deriving Repr, DecidableEq

structure Mst where
  name : Bytes
  schema : Schema
  points : List Point
deriving Repr, DecidableEq

abbrev Db := List Mst

def bTime : Bytes := [116, 105, 109, 101]   -- "time"

/-! ### `fixFields` after `sort.Stable(&r.Fields)` -/

/-- stable insertion by key (Go's string order): `x` goes before the first element whose key is
not smaller. Folding from the right keeps equal keys in their original order. -/
def insertField (x : Bytes × FVal) : List (Bytes × FVal) → List (Bytes × FVal)
  | [] => [x]
  | y :: ys => if bytesLt y.1 x.1 then y :: insertField x ys else x :: y :: ys

def sortFields (fs : List (Bytes × FVal)) : List (Bytes × FVal) := fs.foldr insertField []

/-- the loop of `fixFields` over the sorted fields, `acc` = fields kept so far (reversed): a
field named `time` is removed; of two neighbours with one key the earlier one is removed when
the types agree, the row is refused (`none`) when they differ. -/
def fixFieldsGo : List (Bytes × FVal) → List (Bytes × FVal) → Option (List (Bytes × FVal))
  | [], acc => some acc.reverse
  | f :: fs, acc =>
    if f.1 = bTime then fixFieldsGo fs acc
    else match acc with
      | p :: acc' =>
        if p.1 = f.1 then
          if tyOf p.2 ≠ tyOf f.2 then none else fixFieldsGo fs (f :: acc')
        else fixFieldsGo fs (f :: acc)
      | [] => fixFieldsGo fs [f]

def fixFields (fs : List (Bytes × FVal)) : Option (List (Bytes × FVal)) := fixFieldsGo (sortFields fs) []

/-! ### measurement names: `meta.ValidMeasurementName` -/

/-- bytes of `unsupportedCharsInMstName` (regenerated) = `,;/\`. -/
def unsupportedMstBytes : Bytes := unsupportedMstChars

/-- `ValidMeasurementName` for names of ASCII bytes (`unicode.IsPrint` = 0x20 … 0x7e there).
`none`: the name holds a byte ≥ 0x80 — outside this model (Unicode tables). -/
def validMstName (n : Bytes) : Option Bool :=
  if n.any (· ≥ 128) then none
  else some (n ≠ [] ∧ n ≠ [46] ∧ n ≠ [46, 46] ∧ n.all (fun c => 32 ≤ c ∧ c ≤ 126) ∧ !(n.any unsupportedMstBytes.contains))

/-! ### `updateSchemaCheck` and `Data.UpdateSchema` -/

/-- the tag loop: `none` = the row is dropped. Result: tags kept (without `time`), keys to create,
whether an error was noted. `tags` is the list from index `i` on (`CheckDuplicateTag` looks at
the next tag of the original list). -/
def checkTags (schema : Schema) : List Tag → Option (List Tag × Schema × Bool)
  | [] => some ([], [], false)
  | t :: rest =>
    if t.key = bTime then
      (checkTags schema rest).map fun (ts, cr, _) => (ts, cr, true)
    else if (match rest with | n :: _ => decide (n.key = t.key) | [] => false) then none   -- duplicate tag
    else match schemaGet schema t.key with
      | none => (checkTags schema rest).map fun (ts, cr, e) => (t :: ts, (t.key, Ty.tag) :: cr, e)
      | some ty =>
        if ty ≠ Ty.tag then none                                   -- the key is a field (fix d3ae91f)
        else (checkTags schema rest).map fun (ts, cr, e) => (t :: ts, cr, e)

/-- the field loop: fields kept, keys to create, whether a field was dropped. -/
def checkFields (schema : Schema) : List (Bytes × FVal) → List (Bytes × FVal) × Schema × Bool
  | [] => ([], [], false)
  | f :: rest =>
    let (fs, cr, e) := checkFields schema rest
    match schemaGet schema f.1 with
    | some ty => if ty ≠ tyOf f.2 then (fs, cr, true) else (f :: fs, cr, e)
    | none => (f :: fs, (f.1, tyOf f.2) :: cr, e)

/-- `checkFieldsToCreate` on keys that are all new: two entries with one name and two types. -/
def createConflict : Schema → Bool
  | [] => false
  | (k, ty) :: rest => (rest.any fun (k', ty') => k' = k ∧ ty' ≠ ty) || createConflict rest

/-- keys registered by `UpdateSchema` (an entry whose name is already there is skipped). -/
def addKeys (schema : Schema) : Schema → Schema
  | [] => schema
  | (k, ty) :: rest => addKeys (if (schemaGet schema k).isSome then schema else schema ++ [(k, ty)]) rest

/-! ### one row through `routeAndMapOriginRows` -/

/-- `models.MinNanoTime` / `models.MaxNanoTime` (regenerated). -/
def minNanoTime : Int := minNanoTimeGen
def maxNanoTime : Int := maxNanoTimeGen

def findMst (db : Db) (n : Bytes) : Option Mst := db.find? (·.name = n)

def putMst (db : Db) (m : Mst) : Db :=
  if db.any (·.name = m.name) then db.map fun x => if x.name = m.name then m else x else db ++ [m]

/-- outcome of a row: the catalogue afterwards, the point handed to the store (with the
measurement's name), whether a partial-write error was noted; `none` = outside the model. -/
structure Routed where
  db : Db
  pt : Option (Bytes × Point)
  partialErr : Bool

def routeRow (db : Db) (r : StoredRow) : Option Routed :=
  match r.ts with
  | none => none                                   -- the server's clock: not modelled here
  | some ts =>
    if ts < minNanoTime ∨ ts > maxNanoTime then some ⟨db, none, true⟩          -- models.CheckTime
    else match fixFields r.fields with
      | none => some ⟨db, none, true⟩                                           -- ParseFieldTypeConflict
      | some fs =>
        match validMstName r.name with
        | none => none
        | some false => some ⟨db, none, true⟩                                   -- InvalidMeasurement
        | some true =>
          let m := (findMst db r.name).getD ⟨r.name, [], []⟩
          let db := putMst db m                                                 -- createMeasurement
          match checkTags m.schema r.tags with
          | none => some ⟨db, none, true⟩
          | some (tags, crT, eT) =>
            let (fs', crF, eF) := checkFields m.schema fs
            if eF ∧ fs'.isEmpty then some ⟨db, none, true⟩                      -- every field conflicted
            else
              let cr := crT ++ crF
              if createConflict cr then some ⟨db, none, true⟩                   -- UpdateSchema refuses
              else
                let m' := { m with schema := addKeys m.schema cr }
                some ⟨putMst db m', some (r.name, ⟨tags, ts, fs'⟩), eT || eF⟩

/-! ### the store -/

def setField (fs : List (Bytes × FVal)) (k : Bytes) (v : FVal) : List (Bytes × FVal) :=
  if fs.any (·.1 = k) then fs.map fun x => if x.1 = k then (k, v) else x else fs ++ [(k, v)]

/-- last write wins per field. -/
def mergeFields (old new : List (Bytes × FVal)) : List (Bytes × FVal) :=
  new.foldl (fun acc f => setField acc f.1 f.2) old

def upsert (ps : List Point) (p : Point) : List Point :=
  if ps.any (fun q => q.tags = p.tags ∧ q.ts = p.ts) then
    ps.map fun q => if q.tags = p.tags ∧ q.ts = p.ts then { q with fields := mergeFields q.fields p.fields } else q
  else ps ++ [p]

def storePoint (db : Db) (name : Bytes) (p : Point) : Db :=
  db.map fun m => if m.name = name then { m with points := upsert m.points p } else m

/-- shard group of the default policy: one week, starting on Mondays 00:00 UTC (`time.Truncate`
counts from the year 1; 1970-01-01 was a Thursday). -/
def weekNs : Int := 604800000000000
def shardGroupOf (ts : Int) : Int := (ts + 259200000000000) / weekNs

inductive Status where
  | ok | parseErr | partialErr | failed | dbRequired | notFound
deriving DecidableEq, Repr

/-- the rows of one block through the points writer and into the store. -/
def writeRows (db : Db) (rows : List StoredRow) : Option (Db × Status) :=
  let step := fun (acc : Option (Db × List (Bytes × Point) × Bool)) (r : StoredRow) =>
    match acc with
    | none => none
    | some (db, pend, pe) =>
      match routeRow db r with
      | none => none
      | some x => some (x.db, (match x.pt with | some p => pend ++ [p] | none => pend), pe || x.partialErr)
  match rows.foldl step (some (db, [], false)) with
  | none => none
  | some (db, pend, pe) =>
    let failed := (pend.filter fun p => p.2.fields.isEmpty).map fun p => shardGroupOf p.2.ts
    let db := pend.foldl (fun db p => if failed.contains (shardGroupOf p.2.ts) then db else storePoint db p.1 p.2) db
    some (db, if !failed.isEmpty then .failed else if pe then .partialErr else .ok)

/-- one block of a request: `processBlock`, then the points writer. -/
def writeBlock (db : Db) (mult : Int) (block : Bytes) : Option (Db × Status) :=
  match processBlock mult block with
  | .error _ => some (db, .parseErr)
  | .ok rows => writeRows db rows

/-! ### the handler -/

def getParam (ps : List (Bytes × Bytes)) (k : Bytes) : Bytes := (ps.lookup k).getD []

def bSlash : UInt8 := 47

/-- `bucket2dbrp`. -/
def bucket2dbrp (bucket : Bytes) : Option (Bytes × Bytes) :=
  match indexByte bSlash bucket with
  | none => if bucket.isEmpty then none else some (bucket, [])
  | some i => if i = 0 then none else some (bucket.take i, bucket.drop (i + 1))

/-- the query parameters in the order the code reads them (regenerated `writeParamNames`):
`serveWriteV1` hands the first two to `serveWrite` as database and retention policy,
`serveWriteV2` splits the third, `serveWrite` reads the fourth. -/
def paramName (i : Nat) : Bytes := ((writeParamNames.getD i "").toUTF8).toList
def pDb : Bytes := paramName 0          -- "db"
def pRp : Bytes := paramName 1          -- "rp"
def pBucket : Bytes := paramName 2      -- "bucket"
def pPrecision : Bytes := paramName 3   -- "precision"

/-- database, retention policy and multiplier of a write request; `.inl` = refused. -/
def requestTarget (databases : List Bytes) (v2 : Bool) (ps : List (Bytes × Bytes)) : Status ⊕ (Bytes × Bytes × Int) :=
  let dbrp := if v2 then bucket2dbrp (getParam ps pBucket) else some (getParam ps pDb, getParam ps pRp)
  match dbrp with
  | none => .inl .notFound
  | some (d, rp) =>
    if d.isEmpty then .inl .dbRequired
    else if !databases.contains d then .inl .notFound
    else .inr (d, rp, multiplierOf (getParam ps pPrecision))

def worst (a b : Status) : Status :=
  -- ctx.UnmarshalErr is looked at before ctx.CallbackErr
  if a = .parseErr ∨ b = .parseErr then .parseErr
  else if a = .failed ∨ b = .failed then .failed
  else if a = .partialErr ∨ b = .partialErr then .partialErr
  else .ok

/-- `serveWrite` over the store: the body's blocks one after the other. -/
def serveWrite (grow : Nat → Option Nat) (db : Db) (mult : Int) (blk maxLine : Nat) (body : Bytes) : Option (Db × Status) :=
  match bodyBlocks grow blk maxLine [] body with
  | (_, some .unknownGrowth) => none
  | (_, some _) => some (db, .parseErr)
  | (blocks, none) =>
    blocks.foldl (fun acc b =>
      match acc with
      | none => none
      | some (db, st) => (writeBlock db mult b).map fun (db', st') => (db', worst st st')) (some (db, .ok))

/-! ### `SELECT *` and its rendering -/

/-- `utf8.DecodeRune`: length of the valid encoding at the head, 0 when the head byte does not
start one (the JSON encoder then writes U+FFFD for that one byte). -/
def utf8Len : Bytes → Nat
  | [] => 0
  | b0 :: rest =>
    let cont := fun (c : UInt8) => (128 : UInt8) ≤ c ∧ c ≤ 191
    if b0 < 128 then 1
    else if 194 ≤ b0 ∧ b0 ≤ 223 then
      match rest with
      | c1 :: _ => if cont c1 then 2 else 0
      | _ => 0
    else if 224 ≤ b0 ∧ b0 ≤ 239 then
      match rest with
      | c1 :: c2 :: _ =>
        let lo : UInt8 := if b0 = 224 then 160 else 128
        let hi : UInt8 := if b0 = 237 then 159 else 191
        if lo ≤ c1 ∧ c1 ≤ hi ∧ cont c2 then 3 else 0
      | _ => 0
    else if 240 ≤ b0 ∧ b0 ≤ 244 then
      match rest with
      | c1 :: c2 :: c3 :: _ =>
        let lo : UInt8 := if b0 = 240 then 144 else 128
        let hi : UInt8 := if b0 = 244 then 143 else 191
        if lo ≤ c1 ∧ c1 ≤ hi ∧ cont c2 ∧ cont c3 then 4 else 0
      | _ => 0
    else 0

/-- what a JSON string carries of a byte string: every byte that does not belong to a valid
UTF-8 sequence becomes U+FFFD (EF BF BD). -/
def jsonTextGo : Nat → Bytes → Bytes
  | 0, _ => []
  | _, [] => []
  | fuel + 1, s@(b0 :: rest) =>
    match utf8Len s with
    | 0 => 239 :: 191 :: 189 :: jsonTextGo fuel rest
    | n => b0 :: (rest.take (n - 1) ++ jsonTextGo fuel (rest.drop (n - 1)))

def jsonText (s : Bytes) : Bytes := jsonTextGo s.length s

/-- a cell a client reads. -/
inductive Cell where
  | null
  | val (v : FVal)
deriving Repr, DecidableEq

/-- what reading back does to a stored value: text through the JSON rendering. -/
def renderVal : FVal → FVal
  | .str s => .str (jsonText s)
  | v => v

def insertKey (x : Bytes × Ty) : Schema → Schema
  | [] => [x]
  | y :: ys => if bytesLt y.1 x.1 then y :: insertKey x ys else x :: y :: ys

/-- the columns of `SELECT *` (without time): the schema in byte order of the keys. -/
def columns (m : Mst) : Schema := m.schema.foldr insertKey []

def cellOf (p : Point) (col : Bytes × Ty) : Cell :=
  if col.2 = Ty.tag then
    match p.tags.find? (·.key = col.1) with
    | some t => .val (.str (jsonText t.val))
    | none => .null
  else
    match p.fields.lookup col.1 with
    | some v => .val (renderVal v)
    | none => .null

/-- `SELECT * FROM m`: per stored point its time and one cell per column. -/
def selectAll (m : Mst) : List (Int × List Cell) :=
  m.points.map fun p => (p.ts, (columns m).map (cellOf p))

/-- the value of field `k` a client reads for (tags, ts), if that row exists. -/
def readField (db : Db) (name : Bytes) (tags : List Tag) (ts : Int) (k : Bytes) : Option Cell :=
  match findMst db name with
  | none => none
  | some m =>
    match m.points.find? (fun q => q.tags = tags ∧ q.ts = ts) with
    | none => none
    | some p =>
      match schemaGet m.schema k with
      | none => none
      | some ty => some (cellOf p (k, ty))

end OG.C06
