/-
C06 — line-protocol driver of the model (core only).

  batch <precision> <body>     precision, body: lower-case hex, `-` for the empty string

answers what one request block of `/write?precision=…` stores after `unmarshalWork.Unmarshal`
and `AppendFieldToCol`:

  err <class>
  ok <row> | <row> …           row   = <name> <tags> <fields> <ts>
                                tags  = `-` or key=value,key=value          (hex, canonical order)
                                field = key=i<int64> | key=f<16 hex digits> | key=b0 | key=b1 | key=s<hex>
                                ts    = decimal int64, or `now` when the line carries none
-/
import OG.C06.Model

namespace OG.C06

def hexVal (c : Char) : Option Nat :=
  if '0' ≤ c ∧ c ≤ '9' then some (c.toNat - 48)
  else if 'a' ≤ c ∧ c ≤ 'f' then some (c.toNat - 87)
  else none

def hexDecodeGo : List Char → Bytes → Option Bytes
  | [], acc => some acc.reverse
  | [_], _ => none
  | a :: b :: rest, acc =>
    match hexVal a, hexVal b with
    | some x, some y => hexDecodeGo rest (UInt8.ofNat (x * 16 + y) :: acc)
    | _, _ => none

def hexDecode (s : String) : Option Bytes :=
  if s == "-" then some [] else hexDecodeGo s.toList []

def hexDigit (n : Nat) : Char := if n < 10 then Char.ofNat (48 + n) else Char.ofNat (87 + n)

def hexEncode (b : Bytes) : String :=
  if b.isEmpty then "-" else
  String.ofList (b.flatMap fun c => [hexDigit (c.toNat / 16), hexDigit (c.toNat % 16)])

def hex16 (n : Nat) : String :=
  String.ofList ((List.range 16).map fun i => hexDigit ((n >>> (4 * (15 - i))) % 16))

def showErr : Err → String
  | .nofield => "nofield" | .tagvalue => "tagvalue" | .toolong => "toolong" | .emptykey => "emptykey"
  | .value => "value" | .ts => "ts" | .http => "http" | .nomeasurement => "nomeasurement" | .tsrange => "tsrange"

def showFVal : FVal → String
  | .int v => "i" ++ toString v
  | .float b => "f" ++ hex16 b
  | .bool b => if b then "b1" else "b0"
  | .str s => "s" ++ hexEncode s

def showStored (r : StoredRow) : String :=
  let tags := if r.tags.isEmpty then "-" else
    ",".intercalate (r.tags.map fun t => hexEncode t.key ++ "=" ++ hexEncode t.val)
  let fields := if r.fields.isEmpty then "-" else
    ",".intercalate (r.fields.map fun (k, v) => hexEncode k ++ "=" ++ showFVal v)
  let ts := match r.ts with
    | none => "now"
    | some t => toString t
  hexEncode r.name ++ " " ++ tags ++ " " ++ fields ++ " " ++ ts

def step (line : String) : String :=
  match (line.trimAscii.toString.splitOn " ").filter (· ≠ "") with
  | ["batch", prec, body] =>
    match hexDecode prec, hexDecode body with
    | some p, some b =>
      match processBlock (multiplierOf p) b with
      | .error e => "err " ++ showErr e
      | .ok rows => if rows.isEmpty then "ok" else "ok " ++ " | ".intercalate (rows.map showStored)
    | _, _ => "bad-op"
  | _ => "bad-op"

partial def loop (h : IO.FS.Stream) (out : IO.FS.Stream) : IO Unit := do
  let line ← h.getLine
  if line.isEmpty then return ()
  out.putStrLn (step line)
  loop h out

def main : IO Unit := do
  loop (← IO.getStdin) (← IO.getStdout)

end OG.C06

def main : IO Unit := OG.C06.main
