/-
C06 — line-protocol driver of the model (core only).

  batch <precision> <body>     precision, body: lower-case hex, `-` for the empty string

answers what one request block of `/write?precision=…` stores after `unmarshalWork.Unmarshal`
and `AppendFieldToCol`:

  err <class>
  ok <row> | <row> …           row   = <name> <tags> <fields> <ts>
                                tags  = `-` or key=value,key=value          (hex, canonical order)
                                field = key=i<int64> | key=f<16 hex digits> | key=b0 | key=b1 | key=s<hex>
                                ts    = decimal int64, or `now` when the line carries none
-/
import OG.C06.Model
import OG.C06.Store

namespace OG.C06

def hexVal (c : Char) : Option Nat :=
  if '0' ≤ c ∧ c ≤ '9' then some (c.toNat - 48)
  else if 'a' ≤ c ∧ c ≤ 'f' then some (c.toNat - 87)
  else none

def hexDecodeGo : List Char → Bytes → Option Bytes
  | [], acc => some acc.reverse
  | [_], _ => none
  | a :: b :: rest, acc =>
    match hexVal a, hexVal b with
    | some x, some y => hexDecodeGo rest (UInt8.ofNat (x * 16 + y) :: acc)
    | _, _ => none

def hexDecode (s : String) : Option Bytes :=
  if s == "-" then some [] else hexDecodeGo s.toList []

def hexDigit (n : Nat) : Char := if n < 10 then Char.ofNat (48 + n) else Char.ofNat (87 + n)

def hexEncode (b : Bytes) : String :=
  if b.isEmpty then "-" else
  String.ofList (b.flatMap fun c => [hexDigit (c.toNat / 16), hexDigit (c.toNat % 16)])

def hex16 (n : Nat) : String :=
  String.ofList ((List.range 16).map fun i => hexDigit ((n >>> (4 * (15 - i))) % 16))

def showErr : Err → String
  | .nofield => "nofield" | .tagvalue => "tagvalue" | .toolong => "toolong" | .emptykey => "emptykey"
  | .value => "value" | .ts => "ts" | .http => "http" | .nomeasurement => "nomeasurement" | .tsrange => "tsrange"

def showFVal : FVal → String
  | .int v => "i" ++ toString v
  | .float b => "f" ++ hex16 b
  | .bool b => if b then "b1" else "b0"
  | .str s => "s" ++ hexEncode s

def showStored (r : StoredRow) : String :=
  let tags := if r.tags.isEmpty then "-" else
    ",".intercalate (r.tags.map fun t => hexEncode t.key ++ "=" ++ hexEncode t.val)
  let fields := if r.fields.isEmpty then "-" else
    ",".intercalate (r.fields.map fun (k, v) => hexEncode k ++ "=" ++ showFVal v)
  let ts := match r.ts with
    | none => "now"
    | some t => toString t
  hexEncode r.name ++ " " ++ tags ++ " " ++ fields ++ " " ++ ts

def leStr (a b : String) : Bool := !(b < a)

def tyChar : Ty → String
  | .int => "i" | .float => "f" | .bool => "b" | .str => "s" | .tag => "t"

def showCell : Cell → String
  | .null => "-"
  | .val v => showFVal v

/-- canonical dump of one measurement as a client reads it: `name cols rows`, rows ordered by
(time, text). -/
def showTable (m : Mst) : String :=
  let rows := selectAll m
  if rows.isEmpty then hexEncode m.name ++ " - -"
  else
    let cols := ",".intercalate ((columns m).map fun c => hexEncode (jsonText c.1) ++ ":" ++ tyChar c.2)
    let texts := rows.map fun r => (r.1, toString r.1 ++ ":" ++ ",".intercalate (r.2.map showCell))
    let sorted := texts.mergeSort fun a b => a.1 < b.1 || (a.1 == b.1 && leStr a.2 b.2)
    hexEncode m.name ++ " " ++ cols ++ " " ++ ";".intercalate (sorted.map (·.2))

def hasDup : List Bytes → Bool
  | [] => false
  | x :: xs => xs.contains x || hasDup xs

def showStatus : Status → String
  | .ok => "204" | .parseErr => "400" | .partialErr => "400partial" | .failed => "500"
  | .dbRequired => "400db" | .notFound => "404"

def mstLe (a b : Mst) : Bool := !(bytesLt b.name a.name)

/-- `e2e <prec>:<body>;…` — the requests against an empty catalogue (block size and line limit
of the default configuration), then the dump of every measurement. -/
def runE2E (reqs : List (Bytes × Bytes)) : String :=
  let step := fun (acc : Option (Db × List Status)) (q : Bytes × Bytes) =>
    match acc with
    | none => none
    | some (db, sts) =>
      match serveWrite growExact db (multiplierOf q.1) 65536 1048576 q.2 with
      | none => none
      | some (db', st) => some (db', sts ++ [st])
  match reqs.foldl step (some ([], [])) with
  | none => "unsupported"
  | some (db, sts) =>
    if db.any (fun m => hasDup ((columns m).map fun c => jsonText c.1)) then "skip"
    else
      let tables := (db.mergeSort mstLe).map showTable
      "st=" ++ ",".intercalate (sts.map showStatus) ++ " | " ++ " | ".intercalate tables

def parseReqs (s : String) : Option (List (Bytes × Bytes)) :=
  (s.splitOn ";").mapM fun part =>
    match part.splitOn ":" with
    | [p, b] => do
      let p ← hexDecode p
      let b ← hexDecode b
      pure (p, b)
    | _ => none

def parseParams (s : String) : Option (List (Bytes × Bytes)) :=
  if s == "-" then some [] else
  (s.splitOn "&").mapM fun part =>
    match part.splitOn "=" with
    | [k, v] => do
      let k ← hexDecode k
      let v ← hexDecode v
      pure (k, v)
    | _ => none

def catalogueDatabases : List Bytes := [[100, 98, 48], [114, 112, 48]]   -- "db0", "rp0"

/-- `req …` — the handler with a recording points writer. -/
def runReq (v2 : Bool) (ps : List (Bytes × Bytes)) (blk : Nat) (body : Bytes) : String :=
  match requestTarget catalogueDatabases v2 ps with
  | .inl st => showStatus st ++ " nocall"
  | .inr (d, rp, mult) =>
    -- the rows of all blocks together do not depend on where the body is cut when every line is
    -- valid (the only bodies the harness spreads over several blocks): one block here
    let (blocks, err) := bodyBlocks growExact (max blk (body.length + 1)) 1048576 [] body
    let results := blocks.map (processBlock mult)
    let bad := err.isSome || results.any fun r => match r with | .error _ => true | .ok _ => false
    let oks := results.filterMap fun r => match r with | .error _ => none | .ok rows => some rows
    let st := if bad then "400" else "204"
    if oks.isEmpty then st ++ " nocall"
    else
      let rows := (oks.flatten.map showStored).mergeSort leStr
      st ++ " db=" ++ hexEncode d ++ " rp=" ++ hexEncode rp ++
        (if rows.isEmpty then "" else " " ++ " | ".intercalate rows)

def runSplitOp (fin : End) (blk maxLine : Nat) (caps : List Nat) (body : Bytes) : String :=
  let (blocks, err) := sourceBlocks growExact fin blk maxLine caps body
  " ".intercalate ("blocks" :: blocks.map hexEncode) ++
    (match err with
     | none => ""
     | some .tooLong => " err toolong"
     | some .fuel => " err fuel"
     | some .unknownGrowth => " err unknown-growth"
     | some .readFailed => " err readerr")

/-- `reqf …` — the handler when the body source fails after delivering `data`: the answer is an
error; what reaches the points writer are the rows of the blocks handed over before. -/
def runReqFail (v2 : Bool) (ps : List (Bytes × Bytes)) (blk : Nat) (data : Bytes) : String :=
  match requestTarget catalogueDatabases v2 ps with
  | .inl st => showStatus st ++ " nocall"
  | .inr (d, rp, mult) =>
    let (blocks, _) := sourceBlocks growExact .err blk 1048576 [] data
    let oks := (blocks.map (processBlock mult)).filterMap fun r => match r with | .error _ => none | .ok rows => some rows
    if oks.isEmpty then "400 nocall"
    else
      let rows := (oks.flatten.map showStored).mergeSort leStr
      "400 db=" ++ hexEncode d ++ " rp=" ++ hexEncode rp ++
        (if rows.isEmpty then "" else " " ++ " | ".intercalate rows)

/-- one op; the state is the answer of the last `e2e` op (for `again`). -/
def step (last : String) (line : String) : String × String :=
  match (line.trimAscii.toString.splitOn " ").filter (· ≠ "") with
  | ["batch", prec, body] =>
    match hexDecode prec, hexDecode body with
    | some p, some b =>
      match processBlock (multiplierOf p) b with
      | .error e => (last, "err " ++ showErr e)
      | .ok rows => (last, if rows.isEmpty then "ok" else "ok " ++ " | ".intercalate (rows.map showStored))
    | _, _ => (last, "bad-op")
  | ["e2e", reqs] =>
    match parseReqs reqs with
    | some rs => let a := runE2E rs; (a, a)
    | none => (last, "bad-op")
  | ["again", _] => (last, last)
  | ["req", v2, ps, blk, _gz, body] =>
    match parseParams ps, blk.toNat?, hexDecode body with
    | some ps, some blk, some b => (last, runReq (v2 == "1") ps blk b)
    | _, _, _ => (last, "bad-op")
  | ["split", blk, maxLine, caps, body] =>
    match blk.toNat?, maxLine.toNat?, (caps.splitOn ",").mapM String.toNat?, hexDecode body with
    | some blk, some ml, some caps, some b => (last, runSplitOp .eof blk ml caps b)
    | _, _, _, _ => (last, "bad-op")
  | ["splite", blk, maxLine, caps, fin, body] =>
    match blk.toNat?, maxLine.toNat?, (caps.splitOn ",").mapM String.toNat?, hexDecode body with
    | some blk, some ml, some caps, some b =>
      if fin == "eof" then (last, runSplitOp .eof blk ml caps b)
      else if fin == "err" then (last, runSplitOp .err blk ml caps b)
      else (last, "bad-op")
    | _, _, _, _ => (last, "bad-op")
  | ["reqf", v2, ps, blk, body] =>
    match parseParams ps, blk.toNat?, hexDecode body with
    | some ps, some blk, some b => (last, runReqFail (v2 == "1") ps blk b)
    | _, _, _ => (last, "bad-op")
  | "note" :: _ => (last, "n/a")
  | _ => (last, "bad-op")

partial def loop (h : IO.FS.Stream) (out : IO.FS.Stream) (last : String) : IO Unit := do
  let line ← h.getLine
  if line.isEmpty then return ()
  let (last', ans) := step last line
  out.putStrLn ans
  loop h out last'

def main : IO Unit := do
  loop (← IO.getStdin) (← IO.getStdout) ""

end OG.C06

def main : IO Unit := OG.C06.main
