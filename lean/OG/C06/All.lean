/-
C06 — umbrella module: one build and one axiom audit for every proof file of the property.
-/
import OG.C06.Props
import OG.C06.SplitProps
import OG.C06.SplitRows
import OG.C06.StoreProps
import OG.C06.Facts
