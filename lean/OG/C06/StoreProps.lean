/-
C06 — what is written is what a query reads back (`OG.C06.Store`).
-/
import OG.C06.Store
import OG.C06.Props

namespace OG.C06

/-! ### lists of (key, value) pairs -/

theorem lookup_of_mem_nodup {β : Type} (l : List (Bytes × β)) (k : Bytes) (v : β)
    (hm : (k, v) ∈ l) (hn : (l.map (·.1)).Nodup) : l.lookup k = some v := by
  induction l with
  | nil => cases hm
  | cons x xs ih =>
    obtain ⟨k', v'⟩ := x
    simp only [List.map_cons, List.nodup_cons] at hn
    rcases List.mem_cons.mp hm with h | h
    · cases h
      simp [List.lookup]
    · have hne : k ≠ k' := by
        intro e; subst e
        exact hn.1 (List.mem_map.mpr ⟨(k, v), h, rfl⟩)
      have : (k == k') = false := by simpa using hne
      simp only [List.lookup, this]
      exact ih h hn.2

theorem lookup_none_of_not_mem {β : Type} (l : List (Bytes × β)) (k : Bytes)
    (h : k ∉ l.map (·.1)) : l.lookup k = none := by
  induction l with
  | nil => rfl
  | cons x xs ih =>
    obtain ⟨k', v'⟩ := x
    simp only [List.map_cons, List.mem_cons, not_or] at h
    have : (k == k') = false := by simpa using h.1
    simp only [List.lookup, this]
    exact ih h.2

/-! ### `fixFields` on fields with distinct keys -/

theorem mem_insertField (x y : Bytes × FVal) (l : List (Bytes × FVal)) :
    y ∈ insertField x l ↔ y = x ∨ y ∈ l := by
  induction l with
  | nil => simp [insertField]
  | cons z zs ih =>
    unfold insertField
    split
    · simp only [List.mem_cons, ih]
      constructor
      · rintro (h | h | h)
        · right; left; exact h
        · left; exact h
        · right; right; exact h
      · rintro (h | h | h)
        · right; left; exact h
        · left; exact h
        · right; right; exact h
    · simp [List.mem_cons]

theorem mem_sortFields (y : Bytes × FVal) (l : List (Bytes × FVal)) : y ∈ sortFields l ↔ y ∈ l := by
  induction l with
  | nil => simp [sortFields]
  | cons x xs ih =>
    show y ∈ insertField x (sortFields xs) ↔ _
    rw [mem_insertField, ih, List.mem_cons]

theorem keys_insertField (x : Bytes × FVal) (l : List (Bytes × FVal)) (k : Bytes) :
    k ∈ (insertField x l).map (·.1) ↔ k = x.1 ∨ k ∈ l.map (·.1) := by
  simp only [List.mem_map, mem_insertField]
  constructor
  · rintro ⟨y, (h | h), rfl⟩
    · left; rw [h]
    · right; exact ⟨y, h, rfl⟩
  · rintro (h | ⟨y, h, rfl⟩)
    · exact ⟨x, Or.inl rfl, h.symm⟩
    · exact ⟨y, Or.inr h, rfl⟩

theorem nodup_insertField (x : Bytes × FVal) (l : List (Bytes × FVal))
    (hx : x.1 ∉ l.map (·.1)) (hl : (l.map (·.1)).Nodup) : ((insertField x l).map (·.1)).Nodup := by
  induction l with
  | nil => simp [insertField]
  | cons z zs ih =>
    simp only [List.map_cons, List.mem_cons, not_or, List.nodup_cons] at hx hl
    unfold insertField
    split
    · simp only [List.map_cons, List.nodup_cons]
      refine ⟨?_, ih hx.2 hl.2⟩
      intro hm
      rcases (keys_insertField x zs z.1).mp hm with h | h
      · exact hx.1 h.symm
      · exact hl.1 h
    · simp only [List.map_cons, List.nodup_cons, List.mem_cons, not_or]
      exact ⟨⟨hx.1, hx.2⟩, hl.1, hl.2⟩

theorem nodup_sortFields (l : List (Bytes × FVal)) (h : (l.map (·.1)).Nodup) :
    ((sortFields l).map (·.1)).Nodup := by
  induction l with
  | nil => simp [sortFields]
  | cons x xs ih =>
    simp only [List.map_cons, List.nodup_cons] at h
    show ((insertField x (sortFields xs)).map (·.1)).Nodup
    apply nodup_insertField _ _ _ (ih h.2)
    intro hm
    apply h.1
    obtain ⟨y, hy, hk⟩ := List.mem_map.mp hm
    exact List.mem_map.mpr ⟨y, (mem_sortFields y xs).mp hy, hk⟩

/-- the loop of `fixFields` keeps a list whose keys are pairwise different and never `time`. -/
theorem fixFieldsGo_clean (l acc : List (Bytes × FVal))
    (hn : (l.map (·.1)).Nodup) (ht : bTime ∉ l.map (·.1))
    (ha : ∀ p, acc.head? = some p → p.1 ∉ l.map (·.1)) :
    fixFieldsGo l acc = some (acc.reverse ++ l) := by
  induction l generalizing acc with
  | nil => simp [fixFieldsGo]
  | cons f fs ih =>
    simp only [List.map_cons, List.nodup_cons, List.mem_cons, not_or] at hn ht
    unfold fixFieldsGo
    have hft : ¬ f.1 = bTime := fun e => ht.1 e.symm
    simp only [hft, if_false]
    cases acc with
    | nil =>
      simp only
      rw [ih [f] hn.2 ht.2 (by intro p hp; simp at hp; subst hp; exact hn.1)]
      simp
    | cons p acc' =>
      simp only
      have hpf : ¬ p.1 = f.1 := by
        intro e
        have := ha p rfl
        apply this
        simp [e]
      simp only [hpf, if_false]
      rw [ih (f :: p :: acc') hn.2 ht.2 (by intro q hq; simp at hq; subst hq; exact hn.1)]
      simp

theorem fixFields_clean (fs : List (Bytes × FVal))
    (hn : (fs.map (·.1)).Nodup) (ht : bTime ∉ fs.map (·.1)) : fixFields fs = some (sortFields fs) := by
  unfold fixFields
  rw [fixFieldsGo_clean _ [] (nodup_sortFields fs hn)]
  · simp
  · intro hm
    apply ht
    obtain ⟨y, hy, hk⟩ := List.mem_map.mp hm
    exact List.mem_map.mpr ⟨y, (mem_sortFields y fs).mp hy, hk⟩
  · intro p hp; cases hp

/-! ### the schema check of a new measurement -/

theorem checkTags_fresh (ts : List Tag) (hn : (ts.map (·.key)).Nodup) (ht : bTime ∉ ts.map (·.key)) :
    checkTags [] ts = some (ts, ts.map (fun t => (t.key, Ty.tag)), false) := by
  induction ts with
  | nil => rfl
  | cons t rest ih =>
    simp only [List.map_cons, List.nodup_cons, List.mem_cons, not_or] at hn ht
    have h1 : ¬ t.key = bTime := fun e => ht.1 e.symm
    have hrec := ih hn.2 ht.2
    cases rest with
    | nil =>
      unfold checkTags
      simp [h1, schemaGet, List.lookup, checkTags]
    | cons n ns =>
      have h2 : ¬ n.key = t.key := by
        intro e
        apply hn.1
        simp [e]
      unfold checkTags
      simp only [h1, if_false, h2, decide_false, Bool.false_eq_true, schemaGet, List.lookup]
      rw [hrec]
      rfl

theorem find_tag_nodup (ts : List Tag) (tg : Tag) (htg : tg ∈ ts) (hn : (ts.map (·.key)).Nodup) :
    ts.find? (fun x => decide (x.key = tg.key)) = some tg := by
  induction ts with
  | nil => cases htg
  | cons x xs ih =>
    simp only [List.map_cons, List.nodup_cons] at hn
    rcases List.mem_cons.mp htg with e | hm
    · subst e; simp
    · have hne : ¬ x.key = tg.key := by
        intro e
        apply hn.1
        rw [e]
        exact List.mem_map.mpr ⟨tg, hm, rfl⟩
      simp only [List.find?_cons, hne, decide_false]
      exact ih hm hn.2

theorem checkFields_fresh (fs : List (Bytes × FVal)) :
    checkFields [] fs = (fs, fs.map (fun f => (f.1, tyOf f.2)), false) := by
  induction fs with
  | nil => rfl
  | cons f rest ih =>
    unfold checkFields
    rw [ih]
    simp [schemaGet, List.lookup]

theorem createConflict_nodup (cr : Schema) (h : (cr.map (·.1)).Nodup) : createConflict cr = false := by
  induction cr with
  | nil => rfl
  | cons x xs ih =>
    obtain ⟨k, ty⟩ := x
    simp only [List.map_cons, List.nodup_cons] at h
    unfold createConflict
    rw [ih h.2, Bool.or_false]
    rw [List.any_eq_false]
    intro y hy
    obtain ⟨k', ty'⟩ := y
    simp only [decide_eq_true_eq, not_and]
    intro e
    exfalso
    apply h.1
    exact List.mem_map.mpr ⟨(k', ty'), hy, e⟩

theorem addKeys_nodup (s cr : Schema) (h : ((s ++ cr).map (·.1)).Nodup) : addKeys s cr = s ++ cr := by
  induction cr generalizing s with
  | nil => simp [addKeys]
  | cons x xs ih =>
    obtain ⟨k, ty⟩ := x
    unfold addKeys
    have hk : k ∉ s.map (·.1) := by
      intro hm
      rw [List.map_append, List.nodup_append] at h
      exact h.2.2 k hm k (by simp) rfl
    have : (schemaGet s k).isSome = false := by
      simp [schemaGet, lookup_none_of_not_mem s k hk]
    simp only [this, Bool.false_eq_true, if_false]
    rw [ih (s ++ [(k, ty)]) (by simpa [List.append_assoc] using h)]
    simp [List.append_assoc]

/-! ### one clean row into an empty catalogue -/

/-- a row none of the refusal rules applies to. -/
structure RowClean (r : StoredRow) (t : Int) : Prop where
  ts : r.ts = some t
  lo : minNanoTime ≤ t
  hi : t ≤ maxNanoTime
  name : validMstName r.name = some true
  tagKeys : (r.tags.map (·.key)).Nodup
  fieldKeys : (r.fields.map (·.1)).Nodup
  disjoint : ∀ k, k ∈ r.tags.map (·.key) → k ∉ r.fields.map (·.1)
  noTimeTag : bTime ∉ r.tags.map (·.key)
  noTimeField : bTime ∉ r.fields.map (·.1)
  hasField : r.fields ≠ []

/-- the schema a clean row registers. -/
def freshSchema (r : StoredRow) : Schema :=
  r.tags.map (fun t => (t.key, Ty.tag)) ++ (sortFields r.fields).map (fun f => (f.1, tyOf f.2))

theorem freshSchema_nodup (r : StoredRow) (t : Int) (h : RowClean r t) : ((freshSchema r).map (·.1)).Nodup := by
  unfold freshSchema
  rw [List.map_append, List.nodup_append]
  refine ⟨?_, ?_, ?_⟩
  · simpa [List.map_map, Function.comp_def] using h.tagKeys
  · have := nodup_sortFields r.fields h.fieldKeys
    simpa [List.map_map, Function.comp_def] using this
  · intro a ha b hb e
    subst e
    simp only [List.map_map, Function.comp_def] at ha hb
    have ha' : a ∈ r.tags.map (·.key) := by simpa using ha
    apply h.disjoint a ha'
    obtain ⟨y, hy, hk⟩ := List.mem_map.mp hb
    exact List.mem_map.mpr ⟨y, (mem_sortFields y r.fields).mp hy, hk⟩

theorem routeRow_clean (r : StoredRow) (t : Int) (h : RowClean r t) :
    routeRow [] r = some ⟨[⟨r.name, freshSchema r, []⟩], some (r.name, ⟨r.tags, t, sortFields r.fields⟩), false⟩ := by
  unfold routeRow
  simp only [h.ts]
  have hr : ¬ (t < minNanoTime ∨ t > maxNanoTime) := by
    have := h.lo; have := h.hi; omega
  simp only [hr, if_false, fixFields_clean r.fields h.fieldKeys h.noTimeField, h.name]
  simp only [findMst, List.find?_nil, Option.getD_none, checkTags_fresh r.tags h.tagKeys h.noTimeTag,
    checkFields_fresh]
  have hne : (sortFields r.fields).isEmpty = false := by
    cases hs : sortFields r.fields with
    | nil =>
      exfalso
      cases hf : r.fields with
      | nil => exact h.hasField hf
      | cons x xs =>
        have : x ∈ sortFields r.fields := (mem_sortFields x r.fields).mpr (by rw [hf]; simp)
        rw [hs] at this; cases this
    | cons _ _ => rfl
  have hcr := createConflict_nodup _ (freshSchema_nodup r t h)
  unfold freshSchema at hcr
  simp only [hne, Bool.false_eq_true, and_false, if_false, hcr]
  have hadd := addKeys_nodup [] (freshSchema r) (by simpa using freshSchema_nodup r t h)
  unfold freshSchema at hadd
  simp only [List.nil_append] at hadd
  simp [putMst, hadd, freshSchema]

/-- the catalogue and store after a clean row. -/
def afterRow (r : StoredRow) (t : Int) : Db :=
  [⟨r.name, freshSchema r, [⟨r.tags, t, sortFields r.fields⟩]⟩]

theorem writeRows_clean (r : StoredRow) (t : Int) (h : RowClean r t) :
    writeRows [] [r] = some (afterRow r t, .ok) := by
  unfold writeRows
  simp only [List.foldl_cons, List.foldl_nil, routeRow_clean r t h]
  have hne : (sortFields r.fields).isEmpty = false := by
    cases hs : sortFields r.fields with
    | nil =>
      exfalso
      cases hf : r.fields with
      | nil => exact h.hasField hf
      | cons x xs =>
        have : x ∈ sortFields r.fields := (mem_sortFields x r.fields).mpr (by rw [hf]; simp)
        rw [hs] at this; cases this
    | cons _ _ => rfl
  simp [hne, storePoint, upsert, afterRow]

/-- **store level**: a row none of the refusal rules applies to, written into an empty
catalogue, is acknowledged, and `SELECT` reads back every field with the value stored for it
and every tag with its value (text as JSON carries it). -/
theorem stored_row_roundtrip (r : StoredRow) (t : Int) (h : RowClean r t) :
    writeRows [] [r] = some (afterRow r t, .ok) ∧
    (∀ k v, (k, v) ∈ r.fields → readField (afterRow r t) r.name r.tags t k = some (.val (renderVal v))) ∧
    (∀ tg ∈ r.tags, readField (afterRow r t) r.name r.tags t tg.key = some (.val (.str (jsonText tg.val)))) := by
  refine ⟨writeRows_clean r t h, ?_, ?_⟩
  · intro k v hkv
    have hsn := freshSchema_nodup r t h
    have hmem : (k, tyOf v) ∈ freshSchema r := by
      unfold freshSchema
      apply List.mem_append_right
      exact List.mem_map.mpr ⟨(k, v), (mem_sortFields _ _).mpr hkv, rfl⟩
    have hsch : schemaGet (freshSchema r) k = some (tyOf v) := lookup_of_mem_nodup _ k _ hmem hsn
    have hlk : (sortFields r.fields).lookup k = some v :=
      lookup_of_mem_nodup _ k v ((mem_sortFields _ _).mpr hkv) (nodup_sortFields _ h.fieldKeys)
    have hty : tyOf v ≠ Ty.tag := by cases v <;> simp [tyOf]
    simp [readField, afterRow, findMst, hsch, cellOf, hty, hlk]
  · intro tg htg
    have hsn := freshSchema_nodup r t h
    have hmem : (tg.key, Ty.tag) ∈ freshSchema r := by
      unfold freshSchema
      apply List.mem_append_left
      exact List.mem_map.mpr ⟨tg, htg, rfl⟩
    have hsch : schemaGet (freshSchema r) tg.key = some Ty.tag := lookup_of_mem_nodup _ _ _ hmem hsn
    have hfind := find_tag_nodup r.tags tg htg h.tagKeys
    simp [readField, afterRow, findMst, hsch, cellOf, hfind]

/-! ### from the line to the query -/

theorem storeField_key (f : Field) : (storeField f).1 = f.key := by
  unfold storeField; cases f.val <;> rfl

theorem SField.field_key (f : SField) : f.field.key = f.key := by cases f <;> rfl

/-- **write, then query**: the canonical line of a well-formed point (any bytes in measurement,
tags, keys and string values, fields of every type), whose name the catalogue accepts, whose
keys are pairwise different and not `time`, sent as a request body with any precision, is
acknowledged, and `SELECT` on the new measurement reads back, under the point's tag set and
its timestamp times the precision multiplier, for **every field the value the parser gave its
token** (`storeField`: an integer as the int64 stored, a float as its bit pattern, a boolean, a
string as JSON carries its bytes) and for every tag its value. What the parser gives a token is
settled by `value_denotation` / `never_stores_other_value_partial` (the text's denotation, up to
the integer defect) and `string_roundtrip`. -/
theorem write_then_query_roundtrip (p : SPoint) (h : p.Ok) (hs : LineShape (showSLine p)) (mult : Int) (hm : 1 ≤ mult)
    (t : Nat) (hts : p.ts = some t) (hfit : (t : Int) * mult ≤ maxNanoTime)
    (hname : validMstName p.name = some true)
    (htk : ((sortTags p.tags).map (·.key)).Nodup) (hfk : (p.fields.map SField.key).Nodup)
    (hdis : ∀ k, k ∈ (sortTags p.tags).map (·.key) → k ∉ p.fields.map SField.key)
    (hnt : bTime ∉ (sortTags p.tags).map (·.key)) (hnf : bTime ∉ p.fields.map SField.key) :
    ∃ db, writeBlock [] mult (showSLine p) = some (db, .ok) ∧
      (∀ f ∈ p.fields, readField db p.name (sortTags p.tags) ((t : Int) * mult) f.key =
        some (.val (renderVal (storeField f.field).2))) ∧
      (∀ tg ∈ sortTags p.tags, readField db p.name (sortTags p.tags) ((t : Int) * mult) tg.key =
        some (.val (.str (jsonText tg.val)))) := by
  have hblock := block_roundtrip p h hs mult hm (by
    intro t' ht'
    rw [hts] at ht'; cases ht'
    unfold maxNanoTime OG.Gen.C06.maxNanoTimeGen at hfit; unfold maxInt64; omega)
  have hkeys : ((p.fields.map SField.field).map storeField).map (·.1) = p.fields.map SField.key := by
    simp only [List.map_map]
    apply List.map_congr_left
    intro f _
    simp [Function.comp, storeField_key, SField.field_key]
  have hstored : storedOf mult p.row =
      { name := p.name, tags := sortTags p.tags, fields := (p.fields.map SField.field).map storeField,
        ts := some ((t : Int) * mult) } := by
    unfold storedOf SPoint.row
    simp only [hts, tsOf]
    have : ¬ ((t : Int) = OG.Gen.C06.noTimestamp) := by unfold OG.Gen.C06.noTimestamp; omega
    simp [this]
  have hclean : RowClean (storedOf mult p.row) ((t : Int) * mult) := by
    rw [hstored]
    refine ⟨rfl, ?_, hfit, hname, htk, by simp only; rw [hkeys]; exact hfk, ?_, hnt,
      by simp only; rw [hkeys]; exact hnf, ?_⟩
    · have : (0 : Int) ≤ (t : Int) * mult := Int.mul_nonneg (by omega) (by omega)
      unfold minNanoTime OG.Gen.C06.minNanoTimeGen; omega
    · intro k hk
      simp only
      rw [hkeys]
      exact hdis k hk
    · simp only [ne_eq, List.map_eq_nil_iff]
      exact h.2.2.2.2.2.1
  obtain ⟨hw, hf, htg⟩ := stored_row_roundtrip _ _ hclean
  refine ⟨afterRow (storedOf mult p.row) ((t : Int) * mult), ?_, ?_, ?_⟩
  · unfold writeBlock
    rw [hblock]
    exact hw
  · intro f hfm
    have := hf f.key (storeField f.field).2 (by
      rw [hstored]
      simp only
      refine List.mem_map.mpr ⟨f.field, List.mem_map.mpr ⟨f, hfm, rfl⟩, ?_⟩
      rw [← SField.field_key, ← storeField_key])
    rw [hstored] at this
    exact this
  · intro tg htgm
    have := htg tg (by rw [hstored]; exact htgm)
    rw [hstored] at this
    exact this

/-! ### per type -/

/-- an integer field written `<n>i` with |n| ≤ 2^53 reads back as `n`. -/
theorem stored_int_partial (k : Bytes) (n : Int) (h : n.natAbs ≤ 9007199254740992) :
    renderVal (storeField ⟨k, .int (roundF64 n)⟩).2 = .int n := by
  unfold storeField
  simp only [renderVal]
  rw [roundF64_small n h]
  unfold f64ToInt64
  have : ¬ (n < minInt64 ∨ n > maxInt64) := by unfold minInt64 maxInt64; omega
  simp [this]

/-- the full statement for integers, end to end: `m v=<n>i 1` is acknowledged and `v` reads `n`. -/
def e2e_int_roundtrip_full : Prop :=
  ∀ n : Int, minInt64 ≤ n → n ≤ maxInt64 → ∀ db,
    writeBlock [] 1 ([109, 32, 118, 61] ++ intToken n ++ [32, 49]) = some (db, .ok) →
    readField db [109] [] 1 [118] = some (.val (.int n))

/-- false end to end as well: `m v=9007199254740993i 1` is acknowledged and reads …992
(finding `int_abs_gt_2p53`). -/
theorem e2e_int_roundtrip_full_false : ¬ e2e_int_roundtrip_full := by
  intro h
  have h1 := h 9007199254740993 (by decide) (by decide)
  have hw : writeBlock [] 1 ([109, 32, 118, 61] ++ intToken 9007199254740993 ++ [32, 49]) =
      some ([⟨[109], [([118], Ty.int)], [⟨[], 1, [([118], .int 9007199254740992)]⟩]⟩], .ok) := by decide +kernel
  have := h1 _ hw
  revert this
  decide

/-- a float, a boolean and a string field read back as stored: the bit pattern, the truth value,
the bytes (as JSON carries them). -/
theorem stored_float (k : Bytes) (b : Nat) : renderVal (storeField ⟨k, .float b⟩).2 = .float b := rfl
theorem stored_bool (k : Bytes) (b : Bool) : renderVal (storeField ⟨k, .bool b⟩).2 = .bool b := rfl
theorem stored_str (k s : Bytes) : renderVal (storeField ⟨k, .str s⟩).2 = .str (jsonText s) := rfl

/-! ### text through JSON -/

theorem jsonTextGo_ascii (s : Bytes) (h : ∀ c ∈ s, c < 128) : ∀ fuel, s.length ≤ fuel → jsonTextGo fuel s = s := by
  induction s with
  | nil => intro fuel _; cases fuel <;> rfl
  | cons c cs ih =>
    intro fuel hf
    cases fuel with
    | zero => simp at hf
    | succ fuel =>
      have hc : c < 128 := h c (by simp)
      unfold jsonTextGo
      have : utf8Len (c :: cs) = 1 := by simp [utf8Len, hc]
      simp only [this]
      simp only [Nat.sub_self, List.take_zero, List.nil_append, List.drop_zero]
      rw [ih (fun x hx => h x (by simp [hx])) fuel (by simpa using hf)]

/-- ASCII text (every byte below 0x80) passes through the JSON rendering unchanged; so does every
valid UTF-8 string (`jsonText s = s` is the definition of valid here; examples below). -/
theorem jsonText_ascii (s : Bytes) (h : ∀ c ∈ s, c < 128) : jsonText s = s :=
  jsonTextGo_ascii s h s.length (Nat.le_refl _)

example : jsonText [34, 92, 44, 32, 61, 0, 127] = [34, 92, 44, 32, 61, 0, 127] := by decide   -- quote backslash comma blank equals NUL DEL
example : jsonText [0xE6, 0x97, 0xA5, 0xF0, 0x9F, 0x98, 0x80, 0xC3, 0xA9] = [0xE6, 0x97, 0xA5, 0xF0, 0x9F, 0x98, 0x80, 0xC3, 0xA9] := by decide   -- 日 😀 é
example : jsonText [0x61, 0xF5, 0x62] = [0x61, 0xEF, 0xBF, 0xBD, 0x62] := by decide            -- a byte that is not UTF-8
example : jsonText [0xED, 0xA0, 0x80] = [0xEF, 0xBF, 0xBD, 0xEF, 0xBF, 0xBD, 0xEF, 0xBF, 0xBD] := by decide   -- a surrogate

-- non-vacuity: `m\ 1,k=v s="a, b=\"c\\\"",n=7i,t="" 15` with precision ms: the string with comma,
-- blank, equals sign, quote and backslash, the integer and the empty string are read back at 15000000
example : ∃ db, writeBlock [] 1000000 (showSLine exampleSPoint) = some (db, .ok) ∧
    readField db [109, 32, 49] [⟨[107], [118]⟩] 15000000 [115] = some (.val (.str [97, 44, 32, 98, 61, 34, 99, 92, 34])) ∧
    readField db [109, 32, 49] [⟨[107], [118]⟩] 15000000 [110] = some (.val (.int 7)) ∧
    readField db [109, 32, 49] [⟨[107], [118]⟩] 15000000 [116] = some (.val (.str [])) ∧
    readField db [109, 32, 49] [⟨[107], [118]⟩] 15000000 [107] = some (.val (.str [118])) := by
  obtain ⟨db, hw, hf, ht⟩ := write_then_query_roundtrip exampleSPoint (by decide) exampleSPoint_shape 1000000 (by decide)
    15 rfl (by decide) (by decide) (by decide) (by decide) (by decide) (by decide) (by decide)
  refine ⟨db, hw, ?_, ?_, ?_, ?_⟩
  · have := hf (.str [115] [97, 44, 32, 98, 61, 34, 99, 92, 34]) (by simp [exampleSPoint])
    simpa [exampleSPoint, sortTags, insertTag, SField.key, SField.field, storeField, renderVal,
      jsonText_ascii _ (by decide : ∀ c ∈ ([97, 44, 32, 98, 61, 34, 99, 92, 34] : Bytes), c < 128)] using this
  · have := hf (.num [110] [55, 105] (.int 7)) (by simp [exampleSPoint])
    simpa [exampleSPoint, sortTags, insertTag, SField.key, SField.field, storeField, renderVal, f64ToInt64,
      minInt64, maxInt64] using this
  · have := hf (.str [116] []) (by simp [exampleSPoint])
    simpa [exampleSPoint, sortTags, insertTag, SField.key, SField.field, storeField, renderVal,
      jsonText_ascii _ (by decide : ∀ c ∈ ([] : Bytes), c < 128)] using this
  · have := ht ⟨[107], [118]⟩ (by simp [exampleSPoint, sortTags, insertTag])
    simpa [exampleSPoint, sortTags, insertTag,
      jsonText_ascii _ (by decide : ∀ c ∈ ([118] : Bytes), c < 128)] using this

/-! ### a type conflict is refused, never coerced -/

theorem checkFields_kept_agree (schema : Schema) (fs : List (Bytes × FVal)) :
    ∀ f ∈ (checkFields schema fs).1, schemaGet schema f.1 = none ∨ schemaGet schema f.1 = some (tyOf f.2) := by
  induction fs with
  | nil => intro f hf; simp [checkFields] at hf
  | cons g rest ih =>
    intro f hf
    unfold checkFields at hf
    cases hg : schemaGet schema g.1 with
    | none =>
      simp only [hg] at hf
      rcases List.mem_cons.mp hf with e | h'
      · subst e; left; exact hg
      · exact ih f h'
    | some tg =>
      simp only [hg] at hf
      by_cases hc : tg = tyOf g.2
      · simp only [hc, ne_eq, not_true_eq_false, if_false] at hf
        rcases List.mem_cons.mp hf with e | h'
        · subst e; right; rw [hg, hc]
        · exact ih f h'
      · simp only [ne_eq, hc, not_false_eq_true, if_true] at hf
        exact ih f hf

theorem checkFields_flag (schema : Schema) (fs : List (Bytes × FVal)) (k : Bytes) (v : FVal) (ty : Ty)
    (hm : (k, v) ∈ fs) (hs : schemaGet schema k = some ty) (hne : ty ≠ tyOf v) :
    (checkFields schema fs).2.2 = true := by
  induction fs with
  | nil => cases hm
  | cons g rest ih =>
    unfold checkFields
    rcases List.mem_cons.mp hm with e | hmr
    · subst e
      simp only [hs, ne_eq, hne, not_false_eq_true, if_true]
    · have := ih hmr
      cases hg : schemaGet schema g.1 with
      | none => simp only [hg]; exact this
      | some tg =>
        simp only [hg]
        by_cases hc : tg = tyOf g.2
        · simp only [hc, ne_eq, not_true_eq_false, if_false]; exact this
        · simp only [ne_eq, hc, not_false_eq_true, if_true]

/-- a field whose type differs from the measurement's schema is dropped from the row and an error
is noted; it is never stored under the other type. -/
theorem type_conflict_refused (schema : Schema) (fs : List (Bytes × FVal)) (k : Bytes) (v : FVal) (ty : Ty)
    (hm : (k, v) ∈ fs) (hs : schemaGet schema k = some ty) (hne : ty ≠ tyOf v) :
    (k, v) ∉ (checkFields schema fs).1 ∧ (checkFields schema fs).2.2 = true := by
  refine ⟨?_, checkFields_flag schema fs k v ty hm hs hne⟩
  intro hin
  rcases checkFields_kept_agree schema fs (k, v) hin with h | h
  · rw [hs] at h; cases h
  · rw [hs] at h; exact hne (Option.some.inj h)

-- `m a=1 1` then `m a="x",b=2 2`: the string `a` is refused (partial write), `b` is stored, `a` keeps its type
example : (writeBlock [] 1 [109, 32, 97, 61, 49, 32, 49]).bind (fun r => writeBlock r.1 1 [109, 32, 97, 61, 34, 120, 34, 44, 98, 61, 50, 32, 50]) =
    some ([⟨[109], [([97], Ty.float), ([98], Ty.float)],
      [⟨[], 1, [([97], .float 0x3FF0000000000000)]⟩, ⟨[], 2, [([98], .float 0x4000000000000000)]⟩]⟩], .partialErr) := by decide +kernel

/-! ### the same (series, time) twice in one batch: last write wins per field -/

theorem lookup_map_set (fs : List (Bytes × FVal)) (k k' : Bytes) (v : FVal) :
    (fs.map fun x => if x.1 = k then (k, v) else x).lookup k' =
      if k' = k then (if fs.any (fun x => decide (x.1 = k)) then some v else none) else fs.lookup k' := by
  induction fs with
  | nil => by_cases h : k' = k <;> simp [h, List.lookup]
  | cons x xs ih =>
    obtain ⟨kx, vx⟩ := x
    simp only [List.map_cons, List.any_cons]
    by_cases hx : kx = k
    · subst hx
      by_cases h : k' = kx
      · subst h; simp [List.lookup]
      · have : (k' == kx) = false := by simpa using h
        simp only [if_true, List.lookup, this, h, if_false]
        rw [ih]; simp [h]
    · simp only [hx, if_false, decide_false, Bool.false_or]
      by_cases h : k' = k
      · subst h
        have : (k' == kx) = false := by simpa using (fun e => hx e.symm)
        simp only [List.lookup, this, if_true]
        rw [ih]; simp
      · by_cases h2 : k' = kx
        · subst h2; simp [List.lookup, h]
        · have : (k' == kx) = false := by simpa using h2
          simp only [List.lookup, this, h, if_false]
          rw [ih]; simp [h]

theorem lookup_append_single (fs : List (Bytes × FVal)) (k k' : Bytes) (v : FVal) :
    (fs ++ [(k, v)]).lookup k' = match fs.lookup k' with
      | some w => some w
      | none => if k' = k then some v else none := by
  induction fs with
  | nil =>
    by_cases h : k' = k
    · subst h; simp [List.lookup]
    · have : (k' == k) = false := by simpa using h
      simp [List.lookup, h, this]
  | cons x xs ih =>
    obtain ⟨kx, vx⟩ := x
    by_cases h : k' = kx
    · subst h; simp [List.lookup]
    · have : (k' == kx) = false := by simpa using h
      simp only [List.cons_append, List.lookup, this]
      exact ih

theorem lookup_none_iff_any (fs : List (Bytes × FVal)) (k : Bytes) :
    fs.any (fun x => decide (x.1 = k)) = false → fs.lookup k = none := by
  intro h
  apply lookup_none_of_not_mem
  intro hm
  obtain ⟨y, hy, hk⟩ := List.mem_map.mp hm
  rw [List.any_eq_false] at h
  have := h y hy
  simp only [decide_eq_true_eq] at this
  exact this hk

theorem lookup_setField (fs : List (Bytes × FVal)) (k k' : Bytes) (v : FVal) :
    (setField fs k v).lookup k' = if k' = k then some v else fs.lookup k' := by
  unfold setField
  by_cases ha : fs.any (fun x => decide (x.1 = k)) = true
  · simp only [ha, if_true]
    rw [lookup_map_set]
    by_cases h : k' = k <;> simp [h, ha]
  · have ha' : fs.any (fun x => decide (x.1 = k)) = false := by
      cases hb : fs.any (fun x => decide (x.1 = k)) with
      | true => exact absurd hb ha
      | false => rfl
    simp only [ha', Bool.false_eq_true, if_false]
    rw [lookup_append_single]
    by_cases h : k' = k
    · subst h; simp [lookup_none_iff_any fs k' ha']
    · simp only [h, if_false]
      cases fs.lookup k' <;> rfl

/-- **last write wins per field**: in the merged point a field of the later write reads as the
later write's value, every other field as before. -/
theorem lookup_mergeFields (old new : List (Bytes × FVal)) (hn : (new.map (·.1)).Nodup) (k : Bytes) :
    (mergeFields old new).lookup k = match new.lookup k with
      | some v => some v
      | none => old.lookup k := by
  unfold mergeFields
  induction new generalizing old with
  | nil => rfl
  | cons f fs ih =>
    obtain ⟨kf, vf⟩ := f
    simp only [List.map_cons, List.nodup_cons] at hn
    simp only [List.foldl_cons]
    rw [ih _ hn.2, lookup_setField]
    by_cases h : k = kf
    · subst h
      simp [List.lookup, lookup_none_of_not_mem fs k hn.1]
    · have : (k == kf) = false := by simpa using h
      simp only [List.lookup, this, h, if_false]

theorem checkTags_known (schema : Schema) (ts : List Tag) (hn : (ts.map (·.key)).Nodup) (ht : bTime ∉ ts.map (·.key))
    (hk : ∀ t ∈ ts, schemaGet schema t.key = some Ty.tag) : checkTags schema ts = some (ts, [], false) := by
  induction ts with
  | nil => rfl
  | cons t rest ih =>
    simp only [List.map_cons, List.nodup_cons, List.mem_cons, not_or] at hn ht
    have h1 : ¬ t.key = bTime := fun e => ht.1 e.symm
    have hrec := ih hn.2 ht.2 (fun x hx => hk x (by simp [hx]))
    have hsch := hk t (by simp)
    cases rest with
    | nil =>
      unfold checkTags
      simp [h1, hsch, checkTags]
    | cons n ns =>
      have h2 : ¬ n.key = t.key := by
        intro e
        apply hn.1
        simp [e]
      unfold checkTags
      simp only [h1, if_false, h2, decide_false, Bool.false_eq_true, hsch]
      rw [hrec]
      simp

theorem checkFields_known (schema : Schema) (fs : List (Bytes × FVal))
    (hk : ∀ f ∈ fs, schemaGet schema f.1 = some (tyOf f.2)) : checkFields schema fs = (fs, [], false) := by
  induction fs with
  | nil => rfl
  | cons f rest ih =>
    unfold checkFields
    rw [ih (fun x hx => hk x (by simp [hx])), hk f (by simp)]
    simp

/-- the second row of the batch: the same measurement, tag set and timestamp; its fields are
fields of the first row with the same types. -/
structure SameSeries (r1 r2 : StoredRow) : Prop where
  name : r2.name = r1.name
  tags : r2.tags = r1.tags
  sub : ∀ k v, (k, v) ∈ r2.fields → ∃ v1, (k, v1) ∈ r1.fields ∧ tyOf v1 = tyOf v

theorem sortFields_nonempty (fs : List (Bytes × FVal)) (h : fs ≠ []) : (sortFields fs).isEmpty = false := by
  cases hs : sortFields fs with
  | nil =>
    exfalso
    cases hf : fs with
    | nil => exact h hf
    | cons x xs =>
      have : x ∈ sortFields fs := (mem_sortFields x fs).mpr (by rw [hf]; simp)
      rw [hs] at this; cases this
  | cons _ _ => rfl

theorem routeRow_second (r1 r2 : StoredRow) (t : Int) (h1 : RowClean r1 t) (h2 : RowClean r2 t) (hs : SameSeries r1 r2) :
    routeRow [⟨r1.name, freshSchema r1, []⟩] r2 =
      some ⟨[⟨r1.name, freshSchema r1, []⟩], some (r1.name, ⟨r1.tags, t, sortFields r2.fields⟩), false⟩ := by
  have hsn := freshSchema_nodup r1 t h1
  have htags : ∀ tg ∈ r1.tags, schemaGet (freshSchema r1) tg.key = some Ty.tag := by
    intro tg htg
    apply lookup_of_mem_nodup _ _ _ _ hsn
    unfold freshSchema
    exact List.mem_append_left _ (List.mem_map.mpr ⟨tg, htg, rfl⟩)
  have hflds : ∀ f ∈ sortFields r2.fields, schemaGet (freshSchema r1) f.1 = some (tyOf f.2) := by
    intro f hf
    obtain ⟨v1, hv1, hty⟩ := hs.sub f.1 f.2 ((mem_sortFields f _).mp hf)
    rw [← hty]
    apply lookup_of_mem_nodup _ _ _ _ hsn
    unfold freshSchema
    exact List.mem_append_right _ (List.mem_map.mpr ⟨(f.1, v1), (mem_sortFields _ _).mpr hv1, rfl⟩)
  unfold routeRow
  simp only [h2.ts]
  have hr : ¬ (t < minNanoTime ∨ t > maxNanoTime) := by
    have := h2.lo; have := h2.hi; omega
  have hname1 : validMstName r1.name = some true := by rw [← hs.name]; exact h2.name
  simp only [hr, if_false, fixFields_clean r2.fields h2.fieldKeys h2.noTimeField, hs.name, hs.tags, hname1]
  have hfind : findMst [⟨r1.name, freshSchema r1, []⟩] r1.name = some ⟨r1.name, freshSchema r1, []⟩ := by
    simp [findMst]
  simp only [hfind, Option.getD_some, checkTags_known _ r1.tags h1.tagKeys h1.noTimeTag htags,
    checkFields_known _ _ hflds, sortFields_nonempty r2.fields h2.hasField]
  simp [putMst, createConflict, addKeys]

/-- **`batch_lww`**: two lines of one batch for the same series and timestamp (the second one
writing some of the first one's fields again): the batch is acknowledged; every field of the
second line reads back with the second line's value, every other field of the first line with
the first line's value. -/
theorem batch_lww (r1 r2 : StoredRow) (t : Int) (h1 : RowClean r1 t) (h2 : RowClean r2 t) (hs : SameSeries r1 r2) :
    ∃ db, writeRows [] [r1, r2] = some (db, .ok) ∧
      (∀ k v2, (k, v2) ∈ r2.fields → readField db r1.name r1.tags t k = some (.val (renderVal v2))) ∧
      (∀ k v1, (k, v1) ∈ r1.fields → k ∉ r2.fields.map (·.1) →
        readField db r1.name r1.tags t k = some (.val (renderVal v1))) := by
  have hsn := freshSchema_nodup r1 t h1
  refine ⟨[⟨r1.name, freshSchema r1, [⟨r1.tags, t, mergeFields (sortFields r1.fields) (sortFields r2.fields)⟩]⟩], ?_, ?_, ?_⟩
  · unfold writeRows
    simp only [List.foldl_cons, List.foldl_nil, routeRow_clean r1 t h1, routeRow_second r1 r2 t h1 h2 hs]
    simp [sortFields_nonempty r1.fields h1.hasField, sortFields_nonempty r2.fields h2.hasField, storePoint, upsert]
  · intro k v2 hkv
    obtain ⟨v1, hv1, hty⟩ := hs.sub k v2 hkv
    have hsch : schemaGet (freshSchema r1) k = some (tyOf v2) := by
      rw [← hty]
      apply lookup_of_mem_nodup _ _ _ _ hsn
      unfold freshSchema
      exact List.mem_append_right _ (List.mem_map.mpr ⟨(k, v1), (mem_sortFields _ _).mpr hv1, rfl⟩)
    have hlk : (sortFields r2.fields).lookup k = some v2 :=
      lookup_of_mem_nodup _ k v2 ((mem_sortFields _ _).mpr hkv) (nodup_sortFields _ h2.fieldKeys)
    have hm := lookup_mergeFields (sortFields r1.fields) (sortFields r2.fields) (nodup_sortFields _ h2.fieldKeys) k
    rw [hlk] at hm
    have hty' : tyOf v2 ≠ Ty.tag := by cases v2 <;> simp [tyOf]
    simp [readField, findMst, hsch, cellOf, hty', hm]
  · intro k v1 hkv hnot
    have hsch : schemaGet (freshSchema r1) k = some (tyOf v1) := by
      apply lookup_of_mem_nodup _ _ _ _ hsn
      unfold freshSchema
      exact List.mem_append_right _ (List.mem_map.mpr ⟨(k, v1), (mem_sortFields _ _).mpr hkv, rfl⟩)
    have hlk1 : (sortFields r1.fields).lookup k = some v1 :=
      lookup_of_mem_nodup _ k v1 ((mem_sortFields _ _).mpr hkv) (nodup_sortFields _ h1.fieldKeys)
    have hlk2 : (sortFields r2.fields).lookup k = none := by
      apply lookup_none_of_not_mem
      intro hm
      apply hnot
      obtain ⟨y, hy, hk⟩ := List.mem_map.mp hm
      exact List.mem_map.mpr ⟨y, (mem_sortFields y _).mp hy, hk⟩
    have hm := lookup_mergeFields (sortFields r1.fields) (sortFields r2.fields) (nodup_sortFields _ h2.fieldKeys) k
    rw [hlk2, hlk1] at hm
    have hty' : tyOf v1 ≠ Ty.tag := by cases v1 <;> simp [tyOf]
    simp [readField, findMst, hsch, cellOf, hty', hm]

-- non-vacuity: `m,h=a x=1i,y=2i 5` then `m,h=a x=7i 5` in one batch: x reads 7, y still 2
example : (writeBlock [] 1 [109, 44, 104, 61, 97, 32, 120, 61, 49, 105, 44, 121, 61, 50, 105, 32, 53, 10,
      109, 44, 104, 61, 97, 32, 120, 61, 55, 105, 32, 53]).map (fun r => (r.2,
        readField r.1 [109] [⟨[104], [97]⟩] 5 [120], readField r.1 [109] [⟨[104], [97]⟩] 5 [121])) =
    some (.ok, some (.val (.int 7)), some (.val (.int 2))) := by decide +kernel

end OG.C06
