/-
C06 — property theorems: "what is written through the line protocol is exactly what queries
return; invalid input is rejected and never stores another value than the text said".

All statements are about the model of `OG.C06.Model` (the repaired parser, see
known_findings.jsonl for the five `fix:` commits) over definitions regenerated from the Go
source (number automaton, escape set, boolean spellings, precision table).

  whole lines     delimiter_found, tag_pair_roundtrip, line_roundtrip, line_roundtrip_strings,
                  fast_path_sound
  round trips     string_roundtrip, string_denotation, tag_roundtrip, measurement_roundtrip,
                  bool_roundtrip, int_roundtrip_full (FALSE: negation proved) / _partial, int_stored
  validity        number_automaton_is_grammar, value_denotation, invalid_rejected,
                  valid_accepted, never_stores_other_value_full (FALSE) / _partial
  batches         batch_rows, batch_invalid_rejected_full (FALSE) / _partial, timestamp_exact
-/
import OG.C06.Strings

namespace OG.C06
open OG.Gen.C06

/-! ## round trips -/

/-- **T1** every byte string written as a quoted field value is read back unchanged
(quotes, backslashes, commas, spaces, equals signs, any byte). -/
theorem string_roundtrip (s : Bytes) : parseStr (quoteStr s) = some s := parseStr_quoteStr s

example : parseStr (quoteStr [34, 92, 92, 34, 44, 32, 61]) = some [34, 92, 92, 34, 44, 32, 61] := by decide

/-- **T1'** `parseFieldStrValue` reads every token the way the grammar reads it: the
run-counting unquote loop equals the left-to-right reading (`\\` ↦ `\`, `\"` ↦ `"`), and a
token is accepted exactly when it is at least two bytes long and starts and ends with `"`. -/
theorem string_denotation (tok : Bytes) : parseStr tok = specStr tok := by
  unfold parseStr specStr
  cases tok with
  | nil => rfl
  | cons c rest =>
    simp only [unquote_eq_ref]
    by_cases hc : c = bQuote
    · subst hc
      by_cases h3 : (bQuote :: rest).getLast? = some bQuote
      · by_cases h2 : rest.length + 1 < 2
        · have : ¬ 1 ≤ rest.length := by omega
          simp [h2, h3, this]
        · have : 1 ≤ rest.length := by omega
          simp [h2, h3, this]
      · simp [h3]
    · simp [hc]

/-- **T2** measurement names, tag keys, tag values and field keys: every byte string printed
with the escape set of `unescapeTagValue` (regenerated: `,` ` ` `=` `\`) is read back
unchanged. `noEsc` is the parser's fast path, taken only when the request block holds no
backslash at all. -/
theorem tag_roundtrip (s : Bytes) (noEsc : Bool) (h : noEsc = true → ¬ (escapeTag s).contains bBslash) :
    unescapeTag noEsc (escapeTag s) = s := by
  unfold unescapeTag
  cases noEsc with
  | false => simp only [Bool.false_eq_true, if_false]; exact unescGo_escapeTag s
  | true => simp only [if_true]; exact escapeTag_noBslash s (h rfl)

theorem measurement_roundtrip (s : Bytes) : unescapeTag false (escapeTag s) = s :=
  tag_roundtrip s false (by simp)

example : unescapeTag false (escapeTag [44, 32, 61, 92, 97, 92]) = [44, 32, 61, 92, 97, 92] := by decide

/-- **T3** every boolean spelling of the source is read as its truth value. -/
theorem bool_roundtrip :
    (∀ l ∈ trueLits, tokenStored l = some (FVal.bool true)) ∧
    (∀ l ∈ falseLits, tokenStored l = some (FVal.bool false)) := by decide

/-- the parser's result for a printed integer: `float64(n)`. -/
theorem parseNum_intToken (n : Int) (h1 : minInt64 ≤ n) (h2 : n ≤ maxInt64) :
    parseNum (intToken n) = some (FVal.int (roundF64 n)) := by
  unfold parseNum intToken
  rw [List.getLast?_concat]
  simp only [if_true, List.dropLast_concat, parseInt64_showInt n h1 h2, Option.map_some]

/-- **T4** what is stored for *every* int64 written as `<n>i`: `int64(float64(n))`. -/
theorem int_stored (n : Int) (h1 : minInt64 ≤ n) (h2 : n ≤ maxInt64) :
    tokenStored (intToken n) = some (FVal.int (storedInt n)) := by
  unfold tokenStored
  rw [parseNum_intToken n h1 h2]
  rfl

/-- **T4-full** "64-bit integers keep every digit" — the full statement. -/
def int_roundtrip_full : Prop :=
  ∀ n : Int, minInt64 ≤ n → n ≤ maxInt64 → tokenStored (intToken n) = some (FVal.int n)

/-- the unchanged code violates it: `9007199254740993i` is stored as `9007199254740992`
(and `9223372036854775807i` as `-9223372036854775808`). Known finding `int_abs_gt_2p53`. -/
theorem int_roundtrip_full_false : ¬ int_roundtrip_full := by
  intro h
  have h1 := h 9007199254740993 (by decide) (by decide)
  rw [int_stored _ (by decide) (by decide)] at h1
  revert h1
  decide

example : storedInt 9223372036854775807 = -9223372036854775808 := by decide

/-- **T4-partial** integers up to 2^53 in magnitude keep every digit. -/
theorem int_roundtrip_partial (n : Int) (h : n.natAbs ≤ 9007199254740992) :
    tokenStored (intToken n) = some (FVal.int n) := by
  have h1 : minInt64 ≤ n := by unfold minInt64; omega
  have h2 : n ≤ maxInt64 := by unfold maxInt64; omega
  rw [int_stored n h1 h2]
  unfold storedInt
  rw [roundF64_small n h]
  unfold f64ToInt64
  have : ¬ (n < minInt64 ∨ n > maxInt64) := by omega
  rw [if_neg this]

example : tokenStored (intToken (-9007199254740992)) = some (FVal.int (-9007199254740992)) :=
  int_roundtrip_partial _ (by decide)

/-! ## validity -/

/-- **T5** the automaton regenerated from `valid_number.go` recognises exactly
`[+-]? (digit+ ('.' digit*)? | '.' digit+) ([eE] [+-]? digit+)?`. -/
theorem number_automaton_is_grammar (s : Bytes) : isValidNumber s = gNumber s :=
  isValidNumber_eq_grammar s

example : isValidNumber [43, 46, 53, 101, 45, 49, 48] = true := by decide   -- "+.5e-10"
example : isValidNumber [49, 46, 50, 46, 51] = false := by decide           -- "1.2.3"

/-- **T6** `parseFieldNumValue` yields, for every token, exactly the grammar's denotation (an
integer after its trip through `float64`): the type decision by suffix agrees with the
grammar on all byte strings. -/
theorem value_denotation (tok : Bytes) : parseNum tok = (specNum tok).map embedParsed :=
  parseNum_eq_spec tok

/-- **T7** "input that is not valid is rejected": a token the value grammar rejects is an
error — full strength, every byte string (`abcf`, `inf`, `1.2.3f`, `1u`, `0x10`, …). -/
theorem invalid_rejected (tok : Bytes) (h : specNum tok = none) : parseNum tok = none := by
  rw [value_denotation, h]; rfl

example : specNum [97, 98, 99, 102] = none := by decide     -- "abcf"
example : specNum [105, 110, 102] = none := by decide       -- "inf"
example : specNum [49, 117] = none := by decide             -- "1u"

/-- and a token of the grammar is accepted. -/
theorem valid_accepted (tok : Bytes) (v : SpecVal) (h : specNum tok = some v) :
    parseNum tok = some (embedParsed v) := by
  rw [value_denotation, h]; rfl

/-- **T8-full** "it never stores a different value than the text said". -/
def never_stores_other_value_full : Prop :=
  ∀ (tok : Bytes) (v : FVal), tokenStored tok = some v → (specNum tok).map exactStored = some v

/-- false on the unchanged code, by the integer defect alone. -/
theorem never_stores_other_value_full_false : ¬ never_stores_other_value_full := by
  intro h
  -- "9007199254740993i"
  have h1 := h [57, 48, 48, 55, 49, 57, 57, 50, 53, 52, 55, 52, 48, 57, 57, 51, 105]
    (FVal.int 9007199254740992) (by decide)
  revert h1
  decide

/-- a token is integer-safe when it does not denote an integer beyond 2^53. -/
def IntSafe (tok : Bytes) : Prop := ∀ n, specNum tok = some (.int n) → n.natAbs ≤ 9007199254740992

/-- **T8-partial** outside the integer defect, whatever is stored is exactly what the text
denotes — for every byte string. -/
theorem never_stores_other_value_partial (tok : Bytes) (v : FVal) (hs : IntSafe tok)
    (h : tokenStored tok = some v) : (specNum tok).map exactStored = some v := by
  unfold tokenStored at h
  rw [value_denotation] at h
  cases hsp : specNum tok with
  | none => rw [hsp] at h; simp at h
  | some sv =>
    rw [hsp] at h
    simp only [Option.map_some, Option.some.injEq] at h ⊢
    cases sv with
    | int n =>
      have hn := hs n hsp
      have : storedInt n = n := by
        unfold storedInt f64ToInt64
        rw [roundF64_small n hn]
        have : ¬ (n < minInt64 ∨ n > maxInt64) := by unfold minInt64 maxInt64; omega
        rw [if_neg this]
      rw [← h]
      show FVal.int n = FVal.int (f64ToInt64 (roundF64 n))
      unfold storedInt at this
      rw [this]
    | float b => rw [← h]; rfl
    | bool b => rw [← h]; rfl

example : IntSafe [49, 50, 105] := by     -- "12i"
  intro n h
  have : specNum [49, 50, 105] = some (.int 12) := by decide
  rw [this] at h; injection h with h; injection h with h; subst h; decide

/-! ## whole lines -/

/-- **T12** the delimiter after an escaped measurement / key / tag value is found exactly
there, however many commas, blanks, equals signs and backslashes the token holds (the three
delimiters are members of the regenerated escape set). -/
theorem delimiter_found (t rest : Bytes) :
    nextUnesc false bComma (escapeTag t ++ bComma :: rest) = some (escapeTag t).length ∧
    nextUnesc false bSpace (escapeTag t ++ bSpace :: rest) = some (escapeTag t).length ∧
    nextUnesc false bEq (escapeTag t ++ bEq :: rest) = some (escapeTag t).length :=
  ⟨nextUnesc_escapeTag bComma comma_in_set (by decide) t rest,
   nextUnesc_escapeTag bSpace space_in_set (by decide) t rest,
   nextUnesc_escapeTag bEq eq_in_set (by decide) t rest⟩

/-- **T13** a tag is read back as the key and the value it was printed from. -/
theorem tag_pair_roundtrip (t : Tag) (h : TagOk t) : parseTag false (showTag t) = .ok t :=
  parseTag_roundtrip t h

/-- **line round trip**: the canonical line of every well-formed point (any bytes in the
measurement, tag keys and values, field keys — commas, blanks, equals signs, backslashes,
quotes in tags, non-UTF-8 — any number of tags and non-string fields, optional timestamp)
parses to exactly that point. -/
theorem line_roundtrip (p : NPoint) (h : p.Ok) : parseRow false (showLine p) = .ok p.row := by
  obtain ⟨hn0, hnl, h9, h0, htags, hf0, hfs, hts'⟩ := h
  have hts : ∀ t, p.ts = some t → (t : Int) ≤ maxInt64 := by
    intro t ht; rw [ht] at hts'; exact hts'
  unfold parseRow showLine
  generalize hH : escapeTag p.name ++ (if p.tags = [] then [] else bComma :: showTagsTail p.tags) = H
  generalize hT : showFields (p.fields.map NField.text) ++ showTs p.ts = T
  -- leading white space
  have e1 : skipLeadingWs (H ++ bSpace :: T) = H ++ bSpace :: T := by
    rw [← hH, List.append_assoc]
    obtain ⟨c, cs, hc, c1, c2, c3⟩ := escapeTag_head p.name
      ((if p.tags = [] then [] else bComma :: showTagsTail p.tags) ++ bSpace :: T) hn0 h9 h0
    rw [hc]; exact skipLeadingWs_of_head c1 c2 c3
  simp only [e1]
  have e2 : nextUnesc false bSpace (H ++ bSpace :: T) = some H.length := by
    rw [← hH]; exact nextUnesc_found (clean_head_space p) T
  rw [e2]
  simp only [take_append_len, drop_append_len1]
  rw [← hH, head_section p htags]
  simp only [unescapeTag, Bool.false_eq_true, if_false, unescGo_escapeTag]
  have e3 : ¬ p.name.length > maxMeasurementLength := by omega
  rw [if_neg e3]
  have e4 : stripSpaces T = T := by
    rw [← hT]
    obtain ⟨c, cs, hc, hne⟩ := showFields_head p.fields hf0 hfs (showTs p.ts)
    rw [hc]; exact stripSpaces_of_head hne
  rw [e4, ← hT, tail_section p hf0 hfs hts]
  rfl


/-- **T15** the fast path is sound: for a line without backslash `Row.unmarshal` with
`noEscapeChars = true` computes what the general path computes (all byte strings). -/
theorem fast_path_sound (s : Bytes) (h : ∀ c ∈ s, c ≠ bBslash) : parseRow true s = parseRow false s :=
  parseRow_noBs s h

/-- so the round trip holds on whichever path the parser takes. -/
theorem line_roundtrip_any_path (p : NPoint) (h : p.Ok) (noEsc : Bool)
    (hn : noEsc = true → ∀ c ∈ showLine p, c ≠ bBslash) : parseRow noEsc (showLine p) = .ok p.row := by
  cases noEsc with
  | false => exact line_roundtrip p h
  | true => rw [fast_path_sound _ (hn rfl)]; exact line_roundtrip p h

/-- non-vacuity: `a\,b\ c,k\==v\,w x\ y=-12i,z=1.5e3 1600000000` -/
def examplePoint : NPoint :=
  { name := [97, 44, 98, 32, 99], tags := [⟨[107, 61], [118, 44, 119]⟩],
    fields := [⟨[120, 32, 121], [45, 49, 50, 105], .int (-12)⟩, ⟨[122], [116], .bool true⟩], ts := some 1600000000 }

example : examplePoint.Ok := by decide

example : (parseRow false (showLine examplePoint)).toOption = some examplePoint.row := by
  rw [line_roundtrip examplePoint (by decide)]; rfl

/-- **line round trip, every field type**: the canonical line of every well-formed point —
any bytes in the measurement, tag keys and values and field keys (no double quote in a field
key), integer / float / boolean fields, string fields with *any* byte string as value
(commas, blanks, equals signs, quotes, backslashes), optional timestamp — parses to exactly
that point. -/
theorem line_roundtrip_strings (p : SPoint) (h : p.Ok) : parseRow false (showSLine p) = .ok p.row := by
  obtain ⟨hn0, hnl, h9, h0, htags, hf0, hfs, hts⟩ := h
  unfold parseRow showSLine
  let np : NPoint := ⟨p.name, p.tags, [], none⟩
  generalize hH : escapeTag p.name ++ (if p.tags = [] then [] else bComma :: showTagsTail p.tags) = H
  generalize hT : showSFields p.fields ++ showTs p.ts = T
  have e1 : skipLeadingWs (H ++ bSpace :: T) = H ++ bSpace :: T := by
    rw [← hH, List.append_assoc]
    obtain ⟨c, cs, hc, c1, c2, c3⟩ := escapeTag_head p.name
      ((if p.tags = [] then [] else bComma :: showTagsTail p.tags) ++ bSpace :: T) hn0 h9 h0
    rw [hc]; exact skipLeadingWs_of_head c1 c2 c3
  simp only [e1]
  have e2 : nextUnesc false bSpace (H ++ bSpace :: T) = some H.length := by
    rw [← hH]; exact nextUnesc_found (clean_head_space np) T
  rw [e2]
  simp only [take_append_len, drop_append_len1]
  rw [← hH, head_section np htags]
  simp only [unescapeTag, Bool.false_eq_true, if_false, unescGo_escapeTag]
  have e3 : ¬ p.name.length > maxMeasurementLength := by omega
  show (if np.name.length > maxMeasurementLength then _ else _) = _
  rw [if_neg e3]
  have e4 : stripSpaces T = T := by
    rw [← hT]
    obtain ⟨c, cs, hc, hne⟩ := showSFields_head p.fields hf0 hfs (showTs p.ts)
    rw [hc]; exact stripSpaces_of_head hne
  rw [e4, ← hT]
  exact tail_section_s p hf0 hfs hts _ _


theorem line_roundtrip_strings_any_path (p : SPoint) (h : p.Ok) (noEsc : Bool)
    (hn : noEsc = true → ∀ c ∈ showSLine p, c ≠ bBslash) : parseRow noEsc (showSLine p) = .ok p.row := by
  cases noEsc with
  | false => exact line_roundtrip_strings p h
  | true => rw [fast_path_sound _ (hn rfl)]; exact line_roundtrip_strings p h

/-- non-vacuity: `m\ 1,k=v s="a, b=\"c\\\"",n=7i,t="" 15` -/
def exampleSPoint : SPoint :=
  { name := [109, 32, 49], tags := [⟨[107], [118]⟩],
    fields := [.str [115] [97, 44, 32, 98, 61, 34, 99, 92, 34], .num [110] [55, 105] (.int 7), .str [116] []],
    ts := some 15 }

example : exampleSPoint.Ok := by decide

example : (parseRow false (showSLine exampleSPoint)).toOption = some exampleSPoint.row := by
  rw [line_roundtrip_strings exampleSPoint (by decide)]; rfl

/-- the value of a parsed field is what the grammar reads from some token (for an integer:
after its trip through `float64`). -/
def FieldDenoted (f : Field) : Prop :=
  (∃ tok v, specNum tok = some v ∧ f.val = embedParsed v) ∨ (∃ tok b, specStr tok = some b ∧ f.val = .str b)

theorem parseField_denoted (noEsc hq : Bool) (s : Bytes) (f : Field) (h : parseField noEsc hq s = .ok f) :
    FieldDenoted f := by
  unfold parseField at h
  cases hn : nextUnesc noEsc bEq s with
  | none => rw [hn] at h; cases h
  | some n =>
    rw [hn] at h
    simp only at h
    split at h
    · cases h
    · split at h
      · cases h
      · split at h
        · cases hp : parseStr (s.drop (n + 1)) with
          | none => rw [hp] at h; cases h
          | some v =>
            rw [hp] at h
            injection h with h; subst h
            exact Or.inr ⟨_, v, by rw [← string_denotation]; exact hp, rfl⟩
        · cases hp : parseNum (s.drop (n + 1)) with
          | none => rw [hp] at h; cases h
          | some v =>
            rw [hp] at h
            injection h with h; subst h
            rw [value_denotation] at hp
            cases hsp : specNum (s.drop (n + 1)) with
            | none => rw [hsp] at hp; cases hp
            | some sv =>
              rw [hsp] at hp
              injection hp with hp
              exact Or.inl ⟨_, sv, hsp, hp.symm⟩

theorem parseFields_denoted (noEsc hq : Bool) : ∀ (fuel : Nat) (s : Bytes) (fs : List Field),
    parseFields noEsc hq fuel s = .ok fs → ∀ f ∈ fs, FieldDenoted f := by
  intro fuel
  induction fuel with
  | zero => intro s fs h; cases h
  | succ fuel ih =>
    intro s fs h
    rw [parseFields] at h
    cases hn : nextUnquoted noEsc hq bComma s with
    | none =>
      rw [hn] at h
      simp only at h
      cases hp : parseField noEsc hq s with
      | error e => rw [hp] at h; cases h
      | ok f =>
        rw [hp] at h
        injection h with h; subst h
        intro g hg
        simp only [List.mem_singleton] at hg
        subst hg
        exact parseField_denoted _ _ _ _ hp
    | some n =>
      rw [hn] at h
      simp only at h
      cases hp : parseField noEsc hq (s.take n) with
      | error e => rw [hp] at h; cases h
      | ok f =>
        rw [hp] at h
        cases hr : parseFields noEsc hq fuel (s.drop (n + 1)) with
        | error e => rw [hr] at h; cases h
        | ok rest =>
          rw [hr] at h
          injection h with h; subst h
          intro g hg
          rcases List.mem_cons.mp hg with e | e
          · subst e; exact parseField_denoted _ _ _ _ hp
          · exact ih _ _ hr g e

/-- **every field value of every accepted line is the grammar's reading of a token** — no
line, valid or not, stores an invented value (as `v=abcf ↦ 0` was). -/
theorem accepted_line_values_denoted (noEsc : Bool) (s : Bytes) (r : Row) (h : parseRow noEsc s = .ok r) :
    ∀ f ∈ r.fields, FieldDenoted f := by
  unfold parseRow at h
  simp only at h
  split at h
  · cases h
  · split at h
    · cases h
    · split at h
      · cases h
      · unfold parseTail at h
        simp only at h
        split at h
        · split at h
          · cases h
          · rename_i fs hfs
            injection h with h; subst h
            exact parseFields_denoted _ _ _ _ _ hfs
        · split at h
          · split at h <;> cases h
          · rename_i fs hfs
            split at h
            · split at h <;> cases h
            · injection h with h; subst h
              exact parseFields_denoted _ _ _ _ _ hfs


example : FieldDenoted ⟨[118], .int 12⟩ := Or.inl ⟨[49, 50, 105], .int 12, by decide, by decide⟩

/-! ## batches -/

/-- **T9** a request block stores the rows of exactly the lines that parsed (an invalid line
stores nothing), and reports the error of the *last* line it processed. -/
theorem batch_rows (s : Bytes) :
    unmarshalRows s =
      ((splitLines s).filterMap (fun l => lineRow (parseLine (!s.contains bBslash) l)),
       match (splitLines s).getLast? with
       | none => none
       | some l => lineErr (parseLine (!s.contains bBslash) l)) :=
  unmarshalRows_spec s

/-- **T10-full** "an invalid line is rejected with an error": every block that holds an
invalid line is answered with an error. -/
def batch_invalid_rejected_full : Prop :=
  ∀ (mult : Int) (s : Bytes),
    (∃ l ∈ splitLines s, (lineErr (parseLine (!s.contains bBslash) l)).isSome) →
    (processBlock mult s).toOption = none

/-- false: `x⏎m v=t` is answered without error (the first line is dropped silently).
Known finding `invalid_line_not_last` (the repository's own test encodes the behaviour). -/
theorem batch_invalid_rejected_full_false : ¬ batch_invalid_rejected_full := by
  intro h
  have := h 1 [120, 10, 109, 32, 118, 61, 116] (by decide)
  revert this
  decide

/-- **T10-partial** when the last line processed is the invalid one, the block is an error
and nothing of it is stored. -/
theorem batch_invalid_rejected_partial (mult : Int) (s l : Bytes) (e : Err)
    (hl : (splitLines s).getLast? = some l)
    (he : lineErr (parseLine (!s.contains bBslash) l) = some e) :
    processBlock mult s = .error e := by
  unfold processBlock
  rw [batch_rows, hl]
  simp only [he]

example : processBlock 1 [109, 32, 118, 61, 116, 10, 120] = .error .nofield :=   -- "m v=t⏎x"
  batch_invalid_rejected_partial 1 _ [120] .nofield (by decide) (by decide)

/-- **a one-line request block stores the point it was printed from**: measurement, tag set
(in canonical order), every field with the value the parser gives its token (a string field:
its exact bytes), the timestamp times the precision multiplier — on whichever path. -/
theorem block_roundtrip (p : SPoint) (h : p.Ok) (hs : LineShape (showSLine p)) (mult : Int) (hm : 1 ≤ mult)
    (hfit : ∀ t, p.ts = some t → (t : Int) * mult ≤ maxInt64) :
    processBlock mult (showSLine p) = .ok [storedOf mult p.row] := by
  have hrow : parseRow (!(showSLine p).contains bBslash) (showSLine p) = .ok p.row := by
    apply line_roundtrip_strings_any_path p h
    intro hn c hc e
    subst e
    have : (showSLine p).contains bBslash = true := by simp [List.contains_iff_mem, hc]
    rw [this] at hn; cases hn
  unfold processBlock
  rw [unmarshalRows_spec, splitLines_noNL _ hs.1 hs.2.2.2]
  simp only [List.filterMap_cons, List.filterMap_nil, List.getLast?_singleton]
  rw [parseLine_of_row _ _ _ hs hrow]
  simp only [lineRow, lineErr, List.mapM_cons, List.mapM_nil]
  -- the single row
  have hname : p.row.name.isEmpty = false := isEmpty_false h.1
  have hflds : p.row.fields.isEmpty = false := by
    show (p.fields.map SField.field).isEmpty = false
    cases hf : p.fields with
    | nil => exact absurd hf h.2.2.2.2.2.1
    | cons _ _ => rfl
  have hcv : checkValid p.row = none := by simp [checkValid, hname, hflds]
  unfold storeRow
  rw [hcv]
  simp only
  cases hp : p.ts with
  | none =>
    have : p.row.ts = noTimestamp := by simp [SPoint.row, tsOf, hp]
    simp [this, storedOf, bind, Except.bind, pure, Except.pure]
  | some t =>
    have hts : p.row.ts = (t : Int) := by simp [SPoint.row, tsOf, hp]
    have hnt : p.row.ts ≠ noTimestamp := by rw [hts]; unfold noTimestamp; omega
    have hf := hfit t hp
    have hle : ¬ p.row.ts > maxInt64 / mult := by
      rw [hts]
      have : (t : Int) ≤ maxInt64 / mult := by
        apply Int.le_ediv_of_mul_le (by omega) hf
      omega
    have hw : wrap64 (p.row.ts * mult) = p.row.ts * mult := by
      rw [hts]; unfold wrap64
      have : 0 ≤ (t : Int) * mult := Int.mul_nonneg (by omega) (by omega)
      unfold maxInt64 at hf
      omega
    simp [hnt, hle, hw, storedOf, bind, Except.bind, pure, Except.pure]


theorem showNat_15 : showNat 15 = [49, 53] := by
  rw [showNat]; simp only [show ¬ (15 < 10) by decide, dite_false]
  rw [showNat]; simp only [show (15 / 10 < 10) by decide, dite_true]
  decide

theorem exampleSPoint_shape : LineShape (showSLine exampleSPoint) := by
  have : showSLine exampleSPoint = escapeTag [109, 32, 49] ++ bComma :: showTagsTail [⟨[107], [118]⟩] ++
      bSpace :: (showSFields exampleSPoint.fields ++ bSpace :: [49, 53]) := by
    simp [showSLine, exampleSPoint, showTs, showNat_15]
  rw [this]; decide

example : (processBlock 1000 (showSLine exampleSPoint)).toOption = some [storedOf 1000 exampleSPoint.row] := by
  rw [block_roundtrip exampleSPoint (by decide) exampleSPoint_shape 1000 (by decide)
    (by intro t ht; simp only [exampleSPoint, Option.some.injEq] at ht; subst ht; decide)]
  rfl

/-- **T11** a stored timestamp is the written one times the precision multiplier, exactly
(no wrap-around), for every multiplier of the regenerated precision table. -/
theorem timestamp_exact (mult : Int) (r : Row) (sr : StoredRow) (hm : 1 ≤ mult) (h0 : 0 ≤ r.ts)
    (h : storeRow mult r = .ok sr) : sr.ts = some (r.ts * mult) := by
  unfold storeRow at h
  cases hc : checkValid r with
  | some e => rw [hc] at h; cases h
  | none =>
    rw [hc] at h
    have hnt : r.ts ≠ noTimestamp := by unfold noTimestamp; omega
    simp only [hnt, if_false] at h
    by_cases hr : r.ts > maxInt64 / mult
    · rw [if_pos hr] at h; cases h
    · rw [if_neg hr] at h
      injection h with h
      subst h
      simp only [Option.some.injEq]
      have hle : r.ts ≤ maxInt64 / mult := by omega
      have hmul : r.ts * mult ≤ maxInt64 := by
        have h1 : r.ts * mult ≤ (maxInt64 / mult) * mult := Int.mul_le_mul_of_nonneg_right hle (by omega)
        have h2 : (maxInt64 / mult) * mult ≤ maxInt64 := Int.ediv_mul_le _ (by omega)
        omega
      have hpos : 0 ≤ r.ts * mult := Int.mul_nonneg h0 (by omega)
      unfold wrap64
      unfold maxInt64 at hmul
      omega

theorem precision_multipliers_positive : ∀ p ∈ precisionTable, 1 ≤ p.2 := by decide

end OG.C06
