/-
C06 — the tokenizer (`nextUnescapedChar`) over concatenations of escaped tokens.
-/
import OG.C06.Lemmas
namespace OG.C06
open OG.Gen.C06

/-- the scanner of `nextUnescapedChar` run over `u` without meeting an unescaped `ch`:
the length of the backslash run at the end (`none`: an unescaped `ch` occurs in `u`). -/
def scanRun (ch : UInt8) : Bytes → Nat → Option Nat
  | [], run => some run
  | c :: cs, run =>
    if c = ch then (if run % 2 = 0 then none else scanRun ch cs 0)
    else if c = bBslash then scanRun ch cs (run + 1)
    else scanRun ch cs 0

theorem nextUnescGo_append (ch : UInt8) (u v : Bytes) : ∀ (pos run r : Nat), scanRun ch u run = some r →
    nextUnescGo ch (u ++ v) pos run = nextUnescGo ch v (pos + u.length) r := by
  induction u with
  | nil => intro pos run r h; simp [scanRun] at h; subst h; simp
  | cons c cs ih =>
    intro pos run r h
    rw [scanRun] at h
    rw [List.cons_append, nextUnescGo]
    by_cases h1 : c = ch
    · rw [if_pos h1] at h ⊢
      by_cases h2 : run % 2 = 0
      · rw [if_pos h2] at h; cases h
      · rw [if_neg h2] at h ⊢
        rw [ih _ _ _ h]; simp only [List.length_cons]; congr 1; omega
    · rw [if_neg h1] at h ⊢
      by_cases h3 : c = bBslash
      · rw [if_pos h3] at h ⊢
        rw [ih _ _ _ h]; simp only [List.length_cons]; congr 1; omega
      · rw [if_neg h3] at h ⊢
        rw [ih _ _ _ h]; simp only [List.length_cons]; congr 1; omega

theorem nextUnescGo_none_of_scan (ch : UInt8) (u : Bytes) (pos run r : Nat) (h : scanRun ch u run = some r) :
    nextUnescGo ch u pos run = none := by
  have := nextUnescGo_append ch u [] pos run r h
  simpa [nextUnescGo] using this

theorem scanRun_append (ch : UInt8) (u v : Bytes) : ∀ run, scanRun ch (u ++ v) run = (scanRun ch u run).bind (scanRun ch v) := by
  induction u with
  | nil => intro run; simp [scanRun]
  | cons c cs ih =>
    intro run
    rw [List.cons_append, scanRun, scanRun]
    by_cases h1 : c = ch
    · simp only [if_pos h1]
      by_cases h2 : run % 2 = 0
      · simp [h2]
      · simp only [if_neg h2]; exact ih 0
    · simp only [if_neg h1]
      by_cases h3 : c = bBslash
      · simp only [if_pos h3]; exact ih _
      · simp only [if_neg h3]; exact ih 0

/-- finding the delimiter right after `u`. -/
theorem nextUnescGo_found (ch : UInt8) (u rest : Bytes) (pos run r : Nat) (h : scanRun ch u run = some r) (hr : r % 2 = 0) :
    nextUnescGo ch (u ++ ch :: rest) pos run = some (pos + u.length) := by
  rw [nextUnescGo_append ch u _ pos run r h, nextUnescGo]
  simp [hr]

/-- an escaped token never shows an unescaped delimiter and ends on an even run. -/
theorem scanRun_escapeTag (ch : UInt8) (hs : escapeSet.contains ch = true) (hb : ch ≠ bBslash) (t : Bytes) :
    ∀ run, run % 2 = 0 → ∃ r, scanRun ch (escapeTag t) run = some r ∧ r % 2 = 0 := by
  induction t with
  | nil => intro run h; exact ⟨run, rfl, h⟩
  | cons c cs ih =>
    intro run hrun
    rw [escapeTag_cons]
    by_cases hc : escapeSet.contains c = true
    · rw [if_pos hc]
      show ∃ r, scanRun ch (bBslash :: c :: escapeTag cs) run = some r ∧ r % 2 = 0
      rw [scanRun, if_neg (Ne.symm hb), if_pos rfl, scanRun]
      by_cases h1 : c = ch
      · rw [if_pos h1, if_neg (by omega)]
        exact ih 0 rfl
      · rw [if_neg h1]
        by_cases h2 : c = bBslash
        · rw [if_pos h2]; exact ih _ (by omega)
        · rw [if_neg h2]; exact ih 0 rfl
    · rw [if_neg hc]
      show ∃ r, scanRun ch (c :: escapeTag cs) run = some r ∧ r % 2 = 0
      have h1 : c ≠ ch := by intro e; subst e; exact hc hs
      have h2 : c ≠ bBslash := by intro e; subst e; exact hc bslash_in_set
      rw [scanRun, if_neg h1, if_neg h2]
      exact ih 0 rfl

/-- bytes that are neither the delimiter nor a backslash reset the run. -/
theorem scanRun_plain (ch : UInt8) (u : Bytes) (h : ∀ c ∈ u, c ≠ ch ∧ c ≠ bBslash) :
    ∀ run, run % 2 = 0 → ∃ r, scanRun ch u run = some r ∧ r % 2 = 0 := by
  induction u with
  | nil => intro run hr; exact ⟨run, rfl, hr⟩
  | cons c cs ih =>
    intro run _
    have hc := h c (by simp)
    rw [scanRun, if_neg hc.1, if_neg hc.2]
    exact ih (fun x hx => h x (by simp [hx])) 0 rfl

/-- **delimiters are found exactly after an escaped token** (measurement, key, tag value). -/
theorem nextUnesc_escapeTag (ch : UInt8) (hs : escapeSet.contains ch = true) (hb : ch ≠ bBslash) (t rest : Bytes) :
    nextUnesc false ch (escapeTag t ++ ch :: rest) = some (escapeTag t).length := by
  obtain ⟨r, h1, h2⟩ := scanRun_escapeTag ch hs hb t 0 rfl
  have := nextUnescGo_found ch (escapeTag t) rest 0 0 r h1 h2
  simpa [nextUnesc] using this



/-- `u` shows no unescaped `ch` and leaves the scanner on an even backslash run. -/
def Clean (ch : UInt8) (u : Bytes) : Prop :=
  ∀ run, run % 2 = 0 → ∃ r, scanRun ch u run = some r ∧ r % 2 = 0

theorem Clean.nil (ch : UInt8) : Clean ch [] := fun run h => ⟨run, rfl, h⟩

theorem Clean.append {ch : UInt8} {u v : Bytes} (hu : Clean ch u) (hv : Clean ch v) : Clean ch (u ++ v) := by
  intro run hr
  obtain ⟨r1, h1, e1⟩ := hu run hr
  obtain ⟨r2, h2, e2⟩ := hv r1 e1
  exact ⟨r2, by rw [scanRun_append, h1]; exact h2, e2⟩

theorem Clean.single {ch c : UInt8} (h1 : c ≠ ch) (h2 : c ≠ bBslash) : Clean ch [c] := by
  intro run _
  exact ⟨0, by rw [scanRun, if_neg h1, if_neg h2]; rfl, rfl⟩

theorem Clean.cons {ch c : UInt8} {u : Bytes} (h1 : c ≠ ch) (h2 : c ≠ bBslash) (hu : Clean ch u) : Clean ch (c :: u) :=
  Clean.append (Clean.single h1 h2) hu

theorem Clean.escapeTag {ch : UInt8} (hs : escapeSet.contains ch = true) (hb : ch ≠ bBslash) (t : Bytes) :
    Clean ch (escapeTag t) := scanRun_escapeTag ch hs hb t

theorem Clean.plain {ch : UInt8} {u : Bytes} (h : ∀ c ∈ u, c ≠ ch ∧ c ≠ bBslash) : Clean ch u :=
  scanRun_plain ch u h

theorem nextUnesc_found {ch : UInt8} {u : Bytes} (hu : Clean ch u) (rest : Bytes) :
    nextUnesc false ch (u ++ ch :: rest) = some u.length := by
  obtain ⟨r, h1, h2⟩ := hu 0 rfl
  have := nextUnescGo_found ch u rest 0 0 r h1 h2
  simpa [nextUnesc] using this

theorem nextUnesc_none {ch : UInt8} {u : Bytes} (hu : Clean ch u) : nextUnesc false ch u = none := by
  obtain ⟨r, h1, _⟩ := hu 0 rfl
  simpa [nextUnesc] using nextUnescGo_none_of_scan ch u 0 0 r h1

/-- no occurrence at all. -/
theorem nextUnesc_absent {ch : UInt8} {u : Bytes} (h : ∀ c ∈ u, c ≠ ch) : nextUnesc false ch u = none := by
  have : ∀ (u : Bytes) (pos run : Nat), (∀ c ∈ u, c ≠ ch) → nextUnescGo ch u pos run = none := by
    intro u
    induction u with
    | nil => intros; rfl
    | cons c cs ih =>
      intro pos run h
      rw [nextUnescGo, if_neg (h c (by simp))]
      by_cases hb : c = bBslash
      · rw [if_pos hb]; exact ih _ _ (fun x hx => h x (by simp [hx]))
      · rw [if_neg hb]; exact ih _ _ (fun x hx => h x (by simp [hx]))
  simpa [nextUnesc] using this u 0 0 h


end OG.C06
