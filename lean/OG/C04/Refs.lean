/-
C04 — shape and reference-count invariant `InvR` of the protocol model, preserved by every step.
-/
import OG.C04.Lemmas

namespace OG.C04
open OG.C02 (Cell Key lookup Row batchCells isOrdered updLastFlush lastFlushOf)

/-- references a view holds on table `t`. -/
def View.tw (v : View) (t : Nat) : Nat :=
  (if v.act = some t then 1 else 0) + (if v.snap = some t then 1 else 0)

/-- references a view holds on file `f`. -/
def View.fw (v : View) (f : FileId) : Nat := (v.ooo ++ v.ord).count f

def St.tholders (σ : St) (t : Nat) : Nat := (σ.views.map (·.tw t)).sum
def St.fholders (σ : St) (f : FileId) : Nat := (σ.views.map (·.fw f)).sum

/-- the shard's own reference on its active table and on the table being flushed. -/
def St.own (σ : St) (t : Nat) : Nat := if σ.active = some t ∨ σ.snapshot = some t then 1 else 0

structure InvR (σ : St) : Prop where
  actLt : ∀ a, σ.active = some a → a < σ.nextTab
  snapLt : ∀ t, σ.snapshot = some t → t < σ.nextTab
  actNeSnap : ∀ a, σ.active = some a → σ.snapshot ≠ some a
  actFresh : ∀ a, σ.active = some a → (σ.tables a).flushed = false
  viewLt : ∀ v ∈ σ.views, (∀ t, v.act = some t → t < σ.nextTab) ∧ (∀ t, v.snap = some t → t < σ.nextTab)
  viewSnapNe : ∀ v ∈ σ.views, ∀ t, v.snap = some t → σ.active ≠ some t
  trefs : ∀ t, σ.own t + σ.tholders t ≤ (σ.tables t).refs
  tlive : ∀ t, (σ.tables t).recycled = true → (σ.tables t).refs = 0
  frefs : ∀ f, σ.fholders f ≤ (σ.files f).refs
  listedOK : ∀ f ∈ σ.ooo ++ σ.ord, (σ.files f).present = true ∧ (σ.files f).unlinked = false
  listedNodup : (σ.ooo ++ σ.ord).Nodup
  viewFiles : ∀ v ∈ σ.views, ∀ f ∈ v.ooo ++ v.ord, (σ.files f).present = true ∧ (σ.files f).unlinked = false
  listedNP : ∀ f ∈ σ.ooo ++ σ.ord, (σ.files f).pending = false

theorem invR_init : InvR St.init := by
  refine ⟨?_, ?_, ?_, ?_, ?_, ?_, ?_, ?_, ?_, ?_, ?_, ?_, ?_⟩ <;> simp [St.init, St.own, St.tholders, St.fholders]
  · intro t; by_cases h : t = 0 <;> simp [upd, h]
    intro h0; exact absurd h0.symm h
  · intro t; by_cases h : t = 0 <;> simp [upd, h]

/-! ### step specifications -/

theorem write_spec {σ σ' : St} {b : List Row} (h : σ.write b = some σ') :
    ∃ a, σ.active = some a ∧ σ.closed = false ∧ σ' = { σ with
        hist := batchCells b ++ σ.hist
        tables := upd σ.tables a { σ.tables a with cells := batchCells b ++ (σ.tables a).cells }
        views := σ.views.map fun v =>
          if v.act = some a ∧ v.mem = none then { v with seen := batchCells b ++ v.seen } else v } := by
  unfold St.write at h
  split at h
  · cases h
  · rename_i a ha
    split at h
    · cases h
    · rename_i hc
      simp only [Option.some.injEq] at h
      exact ⟨a, ha, by simpa using hc, h.symm⟩


/-- the ghost update of a write keeps every weight. -/
theorem seenUpd_tw (a : Nat) (cs : List Cell) (v : View) (t : Nat) :
    (if v.act = some a ∧ v.mem = none then { v with seen := cs ++ v.seen } else v).tw t = v.tw t := by
  split <;> rfl

theorem seenUpd_fw (a : Nat) (cs : List Cell) (v : View) (f : FileId) :
    (if v.act = some a ∧ v.mem = none then { v with seen := cs ++ v.seen } else v).fw f = v.fw f := by
  split <;> rfl

theorem write_invR {σ σ' : St} {b : List Row} (hi : InvR σ) (h : σ.write b = some σ') : InvR σ' := by
  obtain ⟨a, ha, _, rfl⟩ := write_spec h
  have htabs : ∀ t, (upd σ.tables a { σ.tables a with cells := batchCells b ++ (σ.tables a).cells } t).refs
      = (σ.tables t).refs ∧
      (upd σ.tables a { σ.tables a with cells := batchCells b ++ (σ.tables a).cells } t).flushed
      = (σ.tables t).flushed ∧
      (upd σ.tables a { σ.tables a with cells := batchCells b ++ (σ.tables a).cells } t).recycled
      = (σ.tables t).recycled := by
    intro t; by_cases ht : t = a <;> simp [upd, ht]
  refine ⟨hi.actLt, hi.snapLt, hi.actNeSnap, ?_, ?_, ?_, ?_, ?_, ?_, hi.listedOK, hi.listedNodup, ?_, hi.listedNP⟩
  · intro a' ha'; rw [(htabs a').2.1]; exact hi.actFresh a' ha'
  · intro v hv
    simp only [List.mem_map] at hv
    obtain ⟨w, hw, rfl⟩ := hv
    have := hi.viewLt w hw
    split <;> exact this
  · intro v hv
    simp only [List.mem_map] at hv
    obtain ⟨w, hw, rfl⟩ := hv
    have := hi.viewSnapNe w hw
    split <;> exact this
  · intro t
    have := hi.trefs t
    simp only [St.own, St.tholders] at this ⊢
    rw [(htabs t).1, sum_map_congr (fun v => v.tw t) _ _ (fun v _ => seenUpd_tw a _ v t)]
    exact this
  · intro t; rw [(htabs t).2.2, (htabs t).1]; exact hi.tlive t
  · intro f
    have := hi.frefs f
    simp only [St.fholders] at this ⊢
    rw [sum_map_congr (fun v => v.fw f) _ _ (fun v _ => seenUpd_fw a _ v f)]
    exact this
  · intro v hv
    simp only [List.mem_map] at hv
    obtain ⟨w, hw, rfl⟩ := hv
    have := hi.viewFiles w hw
    split <;> exact this


/-! ### table reference lemmas -/

theorem refT_fields (T : Nat → Table) (o : Option Nat) (t : Nat) :
    (refT T o t).refs = (T t).refs + (if o = some t then 1 else 0) ∧
    (refT T o t).cells = (T t).cells ∧ (refT T o t).flushed = (T t).flushed ∧
    (refT T o t).recycled = (T t).recycled := by
  cases o with
  | none => simp [refT]
  | some u =>
    by_cases h : t = u
    · subst h; simp [refT]
    · have h' : u ≠ t := fun e => h e.symm
      simp [refT, upd, h, h']

theorem Table.unref_fields (x : Table) :
    x.unref.refs = x.refs - 1 ∧ x.unref.flushed = x.flushed ∧
    (x.unref.recycled = true → x.recycled = true ∨ x.refs - 1 = 0) ∧
    (x.recycled = true → x.unref.recycled = true) ∧
    (x.refs - 1 ≠ 0 → x.unref.cells = x.cells) := by
  unfold Table.unref
  split
  · rename_i h; simp [h]
  · rename_i h; simp [h]

theorem unrefT_fields (T : Nat → Table) (o : Option Nat) (t : Nat) :
    (unrefT T o t).refs = (T t).refs - (if o = some t then 1 else 0) ∧
    (unrefT T o t).flushed = (T t).flushed ∧
    ((unrefT T o t).recycled = true → (T t).recycled = true ∨ (unrefT T o t).refs = 0) ∧
    ((T t).recycled = true → (unrefT T o t).recycled = true) ∧
    (o ≠ some t ∨ (T t).refs - 1 ≠ 0 → (unrefT T o t).cells = (T t).cells) := by
  cases o with
  | none => exact ⟨by simp [unrefT], rfl, fun h => Or.inl h, fun h => h, fun _ => rfl⟩
  | some u =>
    by_cases h : t = u
    · subst h
      have := Table.unref_fields (T t)
      simp only [unrefT, upd_same, if_true]
      refine ⟨this.1, this.2.1, ?_, this.2.2.2.1, ?_⟩
      · intro hr
        rcases this.2.2.1 hr with h1 | h1
        · exact Or.inl h1
        · exact Or.inr (by rw [this.1]; exact h1)
      · intro hh
        rcases hh with hh | hh
        · exact absurd rfl hh
        · exact this.2.2.2.2 hh
    · have h' : u ≠ t := fun e => h e.symm
      have e : unrefT T (some u) t = T t := by simp [unrefT, upd, h]
      rw [e]
      exact ⟨by simp [h'], rfl, fun h => Or.inl h, fun h => h, fun _ => rfl⟩

theorem tholders_zero {σ : St} {t : Nat}
    (h : ∀ v ∈ σ.views, v.act ≠ some t ∧ v.snap ≠ some t) : σ.tholders t = 0 := by
  unfold St.tholders
  apply sum_map_zero
  intro v hv
  have := h v hv
  simp [View.tw, this.1, this.2]

theorem fholders_zero {σ : St} {f : FileId}
    (h : ∀ v ∈ σ.views, f ∉ v.ooo ++ v.ord) : σ.fholders f = 0 := by
  unfold St.fholders
  apply sum_map_zero
  intro v hv
  simp only [View.fw]
  exact List.count_eq_zero_of_not_mem (h v hv)

theorem fholders_zero_of_fresh {σ : St} (hi : InvR σ) {f : FileId}
    (h : (σ.files f).present = false) : σ.fholders f = 0 := by
  apply fholders_zero
  intro v hv hf
  have := (hi.viewFiles v hv f hf).1
  rw [h] at this; cases this

theorem fholders_pos_of_mem {σ : St} {v : View} {f : FileId} (hv : v ∈ σ.views)
    (hf : f ∈ v.ooo ++ v.ord) : 0 < σ.fholders f := by
  have h1 := le_sum_of_mem (fun v => v.fw f) σ.views v hv
  have h2 : 0 < v.fw f := by
    simp only [View.fw]; exact List.count_pos_iff.2 hf
  unfold St.fholders; omega

theorem tholders_pos_of_holds {σ : St} {v : View} {t : Nat} (hv : v ∈ σ.views)
    (ht : v.act = some t ∨ v.snap = some t) : 0 < σ.tholders t := by
  have h1 := le_sum_of_mem (fun v => v.tw t) σ.views v hv
  have h2 : 0 < v.tw t := by
    simp only [View.tw]; rcases ht with h | h <;> simp [h] <;> omega
  unfold St.tholders; omega

/-! ### flusher -/

theorem switch_spec {σ σ' : St} (h : σ.switch = some σ') :
    ∃ a, σ.active = some a ∧ σ.snapshot = none ∧ σ' = { σ with
      snapshot := some a
      active := some σ.nextTab
      tables := upd σ.tables σ.nextTab { refs := 1 }
      nextTab := σ.nextTab + 1 } := by
  unfold St.switch at h
  split at h
  · rename_i a ha hs
    simp only [Option.some.injEq] at h
    exact ⟨a, ha, hs, h.symm⟩
  · cases h

theorem switch_invR {σ σ' : St} (hi : InvR σ) (h : σ.switch = some σ') : InvR σ' := by
  obtain ⟨a, ha, hs, rfl⟩ := switch_spec h
  have hal := hi.actLt a ha
  refine ⟨?_, ?_, ?_, ?_, ?_, ?_, ?_, ?_, hi.frefs, hi.listedOK, hi.listedNodup, hi.viewFiles, hi.listedNP⟩ <;> dsimp only
  · intro x hx; simp only [Option.some.injEq] at hx; omega
  · intro x hx; simp only [Option.some.injEq] at hx; omega
  · intro x hx; simp only [Option.some.injEq] at hx; simp only [ne_eq, Option.some.injEq]; omega
  · intro x hx; simp only [Option.some.injEq] at hx; subst hx; simp
  · intro v hv
    have := hi.viewLt v hv
    exact ⟨fun t ht => by have := this.1 t ht; omega, fun t ht => by have := this.2 t ht; omega⟩
  · intro v hv t ht
    have := (hi.viewLt v hv).2 t ht
    simp only [ne_eq, Option.some.injEq]; omega
  · intro t
    simp only [St.own, St.tholders]
    by_cases ht : t = σ.nextTab
    · subst ht
      have : (σ.views.map fun v => v.tw σ.nextTab).sum = 0 := by
        apply sum_map_zero
        intro v hv
        have := hi.viewLt v hv
        have h1 : v.act ≠ some σ.nextTab := fun e => by have := this.1 _ e; omega
        have h2 : v.snap ≠ some σ.nextTab := fun e => by have := this.2 _ e; omega
        simp [View.tw, h1, h2]
      rw [this]; simp
    · have h1 := hi.trefs t
      simp only [St.own, St.tholders, ha, hs] at h1
      rw [upd_other _ _ _ _ ht]
      have h2 : ¬ (σ.nextTab = t) := fun e => ht e.symm
      simp only [Option.some.injEq, h2, false_or]
      simp only [Option.some.injEq, reduceCtorEq, or_false] at h1
      exact h1
  · intro t
    by_cases ht : t = σ.nextTab
    · subst ht; simp
    · rw [upd_other _ _ _ _ ht]; exact hi.tlive t


theorem publish_spec {σ σ' : St} {ordN oooN : Option FileId} (h : σ.publish ordN oooN = some σ') :
    ∃ t, σ.snapshot = some t ∧ (σ.tables t).flushed = false ∧ (σ.tables t).cells ≠ [] ∧
      ordN.isSome = !((σ.tables t).cells.filter (isOrdered σ.lastFlush)).isEmpty ∧
      oooN.isSome = !((σ.tables t).cells.filter (fun c => !isOrdered σ.lastFlush c)).isEmpty ∧
      freshOpt σ.files ordN = true ∧ freshOpt σ.files oooN = true ∧ (ordN = none ∨ ordN ≠ oooN) ∧
      σ' = { σ with
        files := addOpt (addOpt σ.files ordN (newFile ((σ.tables t).cells.filter (isOrdered σ.lastFlush)) [t]))
                  oooN (newFile ((σ.tables t).cells.filter (fun c => !isOrdered σ.lastFlush c)) [t])
        ooo := oooN.toList ++ σ.ooo
        ord := σ.ord ++ ordN.toList
        lastFlush := ((σ.tables t).cells.filter (isOrdered σ.lastFlush)).foldl updLastFlush σ.lastFlush
        tables := upd σ.tables t { σ.tables t with flushed := true } } := by
  unfold St.publish at h
  split at h
  · cases h
  · rename_i t ht
    dsimp only at h
    split at h
    · rename_i hc
      simp only [Option.some.injEq] at h
      exact ⟨t, ht, hc.1, hc.2.1, hc.2.2.1, hc.2.2.2.1, hc.2.2.2.2.1, hc.2.2.2.2.2.1, hc.2.2.2.2.2.2, h.symm⟩
    · cases h

/-- files of a publish: old names keep their record, the new names are present and unreferenced. -/
theorem addOpt2_old (F : FileId → File) (o u : Option FileId) (x y : File) (g : FileId)
    (hg : (F g).present = true) (ho : freshOpt F o = true) (hu : freshOpt F u = true) :
    addOpt (addOpt F o x) u y g = F g := by
  have h1 : ∀ n, o = some n → g ≠ n := by
    intro n hn e; subst hn; subst e; simp [freshOpt, hg] at ho
  have h2 : ∀ n, u = some n → g ≠ n := by
    intro n hn e; subst hn; subst e; simp [freshOpt, hg] at hu
  cases o <;> cases u <;> simp [addOpt, upd, h1, h2]

theorem addOpt2_new (F : FileId → File) (o u : Option FileId) (x y : File) (g : FileId)
    (hg : g ∈ u.toList ++ o.toList) (hx : x.present = true ∧ x.unlinked = false ∧ x.refs = 0)
    (hy : y.present = true ∧ y.unlinked = false ∧ y.refs = 0) :
    (addOpt (addOpt F o x) u y g).present = true ∧ (addOpt (addOpt F o x) u y g).unlinked = false ∧
    (addOpt (addOpt F o x) u y g).refs = 0 ∧
    (x.pending = false → y.pending = false → (addOpt (addOpt F o x) u y g).pending = false) := by
  cases o <;> cases u <;> simp [addOpt, upd] at hg ⊢
  · subst hg; simp [hy]
  · subst hg; simp [hx]; exact fun h _ => h
  · rename_i a b
    by_cases h : g = b
    · simp [h, hy]
    · rcases hg with hg | hg
      · exact absurd hg h
      · subst hg; simp [h, hx]; exact fun h _ => h

theorem publish_invR {σ σ' : St} {ordN oooN : Option FileId} (hi : InvR σ)
    (h : σ.publish ordN oooN = some σ') : InvR σ' := by
  obtain ⟨t, ht, _, _, _, _, ho, hu, hne, rfl⟩ := publish_spec h
  have htabs : ∀ x, (upd σ.tables t { σ.tables t with flushed := true } x).refs = (σ.tables x).refs ∧
      (upd σ.tables t { σ.tables t with flushed := true } x).recycled = (σ.tables x).recycled ∧
      (x ≠ t → (upd σ.tables t { σ.tables t with flushed := true } x).flushed = (σ.tables x).flushed) := by
    intro x; by_cases hx : x = t <;> simp [upd, hx]
  have hnotin : ∀ g ∈ oooN.toList ++ ordN.toList, (σ.files g).present = false := by
    intro g hg
    simp only [List.mem_append, Option.mem_toList] at hg
    rcases hg with hg | hg
    · subst hg; simpa [freshOpt] using hu
    · subst hg; simpa [freshOpt] using ho
  have hnf : newFile ((σ.tables t).cells.filter (isOrdered σ.lastFlush)) [t] = newFile ((σ.tables t).cells.filter (isOrdered σ.lastFlush)) [t] := rfl
  refine ⟨hi.actLt, hi.snapLt, hi.actNeSnap, ?_, hi.viewLt, hi.viewSnapNe, ?_, ?_, ?_, ?_, ?_, ?_, ?_⟩ <;> dsimp only
  · intro a ha
    have : a ≠ t := fun e => hi.actNeSnap a ha (e ▸ ht)
    rw [(htabs a).2.2 this]; exact hi.actFresh a ha
  · intro x
    have := hi.trefs x
    simp only [St.own, St.tholders] at this ⊢
    rw [(htabs x).1]; exact this
  · intro x; rw [(htabs x).2.1, (htabs x).1]; exact hi.tlive x
  · intro f
    have := hi.frefs f
    simp only [St.fholders] at this ⊢
    by_cases hp : (σ.files f).present = true
    · rw [addOpt2_old _ _ _ _ _ _ hp ho hu]; exact this
    · have hz := fholders_zero_of_fresh hi (by simpa using hp)
      simp only [St.fholders] at hz
      rw [hz]; exact Nat.zero_le _
  · intro f hf
    have hf' : f ∈ oooN.toList ++ ordN.toList ∨ f ∈ σ.ooo ++ σ.ord := by
      simp only [List.mem_append] at hf ⊢
      rcases hf with (hf | hf) | (hf | hf)
      · exact Or.inl (Or.inl hf)
      · exact Or.inr (Or.inl hf)
      · exact Or.inr (Or.inr hf)
      · exact Or.inl (Or.inr hf)
    rcases hf' with hf' | hf'
    · have := addOpt2_new σ.files ordN oooN (newFile ((σ.tables t).cells.filter (isOrdered σ.lastFlush)) [t])
        (newFile ((σ.tables t).cells.filter (fun c => !isOrdered σ.lastFlush c)) [t]) f hf'
        (by simp [newFile]) (by simp [newFile])
      exact ⟨this.1, this.2.1⟩
    · have hp := hi.listedOK f hf'
      rw [addOpt2_old _ _ _ _ _ _ hp.1 ho hu]; exact hp
  · have hnd := hi.listedNodup
    have hdis : ∀ g ∈ oooN.toList ++ ordN.toList, g ∉ σ.ooo ++ σ.ord := by
      intro g hg hl
      have := (hi.listedOK g hl).1
      rw [hnotin g hg] at this; cases this
    have hnew : (oooN.toList ++ ordN.toList).Nodup := by
      cases ordN <;> cases oooN <;> simp
      rename_i a b
      rcases hne with h | h
      · cases h
      · intro e; exact h (by rw [e])
    have : (oooN.toList ++ σ.ooo ++ (σ.ord ++ ordN.toList)).Perm ((oooN.toList ++ ordN.toList) ++ (σ.ooo ++ σ.ord)) := by
      simp only [List.append_assoc]
      apply List.Perm.append_left
      rw [← List.append_assoc]
      exact (List.perm_append_comm (l₁ := σ.ooo ++ σ.ord) (l₂ := ordN.toList))
    rw [this.nodup_iff]
    rw [List.nodup_append]
    exact ⟨hnew, hnd, fun a ha b hb e => hdis a ha (e ▸ hb)⟩
  · intro v hv f hf
    have hp := hi.viewFiles v hv f hf
    rw [addOpt2_old _ _ _ _ _ _ hp.1 ho hu]; exact hp
  · intro f hf
    have hf' : f ∈ oooN.toList ++ ordN.toList ∨ f ∈ σ.ooo ++ σ.ord := by
      simp only [List.mem_append] at hf ⊢
      rcases hf with (hf | hf) | (hf | hf)
      · exact Or.inl (Or.inl hf)
      · exact Or.inr (Or.inl hf)
      · exact Or.inr (Or.inr hf)
      · exact Or.inl (Or.inr hf)
    rcases hf' with hf' | hf'
    · have := addOpt2_new σ.files ordN oooN (newFile ((σ.tables t).cells.filter (isOrdered σ.lastFlush)) [t])
        (newFile ((σ.tables t).cells.filter (fun c => !isOrdered σ.lastFlush c)) [t]) f hf'
        (by simp [newFile]) (by simp [newFile])
      exact this.2.2.2 rfl rfl
    · have hp := hi.listedOK f hf'
      rw [addOpt2_old _ _ _ _ _ _ hp.1 ho hu]; exact hi.listedNP f hf'

theorem dropSnapshot_spec {σ σ' : St} (h : σ.dropSnapshot = some σ') :
    ∃ t, σ.snapshot = some t ∧ ((σ.tables t).flushed = true ∨ (σ.tables t).cells = []) ∧
      σ' = { σ with snapshot := none, tables := unrefT σ.tables (some t) } := by
  unfold St.dropSnapshot at h
  split at h
  · cases h
  · rename_i t ht
    split at h
    · rename_i hc
      simp only [Option.some.injEq] at h
      exact ⟨t, ht, hc, h.symm⟩
    · cases h

theorem dropSnapshot_invR {σ σ' : St} (hi : InvR σ) (h : σ.dropSnapshot = some σ') : InvR σ' := by
  obtain ⟨t, ht, _, rfl⟩ := dropSnapshot_spec h
  refine ⟨hi.actLt, ?_, ?_, ?_, hi.viewLt, hi.viewSnapNe, ?_, ?_, hi.frefs, hi.listedOK, hi.listedNodup, hi.viewFiles, hi.listedNP⟩ <;> dsimp only
  · intro x hx; cases hx
  · intro a _ hx; cases hx
  · intro a ha; rw [(unrefT_fields σ.tables (some t) a).2.1]; exact hi.actFresh a ha
  · intro x
    have := hi.trefs x
    simp only [St.own, St.tholders] at this ⊢
    rw [(unrefT_fields σ.tables (some t) x).1]
    by_cases hx : t = x
    · subst hx
      have hna : σ.active ≠ some t := fun e => hi.actNeSnap t e ht
      simp [hna, ht] at this ⊢
      omega
    · have : (some t = some x) = False := by simp [hx]
      simp only [this, if_false, reduceCtorEq, or_false, Nat.sub_zero]
      have h2 := hi.trefs x
      simp only [St.own, St.tholders, ht] at h2
      have : (some t = some x) = False := by simp [hx]
      simp only [this, or_false] at h2
      exact h2
  · intro x hx
    rcases (unrefT_fields σ.tables (some t) x).2.2.1 hx with h1 | h1
    · rw [(unrefT_fields σ.tables (some t) x).1, hi.tlive x h1]; simp
    · exact h1


/-! ### queries -/

theorem snapView_some {σ : St} {t : Nat} (h : σ.snapView = some t) :
    σ.snapshot = some t ∧ (σ.tables t).flushed = false := by
  unfold St.snapView at h
  split at h
  · rename_i u hu
    split at h
    · cases h
    · rename_i hf
      simp only [Option.some.injEq] at h; subst h
      exact ⟨hu, by simpa using hf⟩
  · cases h

def St.newView (σ : St) (client : Nat) : View :=
  { client := client, act := σ.active, snap := σ.snapView, ooo := σ.ooo, ord := σ.ord,
    mem := none, ok := !σ.closed, base := σ.hist, seen := σ.hist }

theorem takeView_spec {σ σ' : St} {c : Nat} (h : σ.takeView c = some σ') :
    σ.filesClosed = false ∧ σ' = { σ with
      views := σ.views ++ [σ.newView c]
      tables := refT (refT σ.tables σ.active) σ.snapView
      files := refFiles σ.files (σ.ooo ++ σ.ord) } := by
  unfold St.takeView at h
  split at h
  · cases h
  · rename_i hc
    simp only [Option.some.injEq] at h
    exact ⟨by simpa using hc, h.symm⟩

theorem takeView_invR {σ σ' : St} {c : Nat} (hi : InvR σ) (h : σ.takeView c = some σ') : InvR σ' := by
  obtain ⟨_, rfl⟩ := takeView_spec h
  have htab : ∀ t, (refT (refT σ.tables σ.active) σ.snapView t).refs
        = (σ.tables t).refs + (σ.newView c).tw t ∧
      (refT (refT σ.tables σ.active) σ.snapView t).flushed = (σ.tables t).flushed ∧
      (refT (refT σ.tables σ.active) σ.snapView t).recycled = (σ.tables t).recycled := by
    intro t
    have h1 := refT_fields (refT σ.tables σ.active) σ.snapView t
    have h2 := refT_fields σ.tables σ.active t
    refine ⟨?_, by rw [h1.2.2.1, h2.2.2.1], by rw [h1.2.2.2, h2.2.2.2]⟩
    rw [h1.1, h2.1]
    by_cases ha : σ.active = some t <;> by_cases hs : σ.snapView = some t <;>
      simp [View.tw, St.newView, ha, hs]
  have hfile : ∀ f, (refFiles σ.files (σ.ooo ++ σ.ord) f).present = (σ.files f).present ∧
      (refFiles σ.files (σ.ooo ++ σ.ord) f).unlinked = (σ.files f).unlinked := by
    intro f; rw [refFiles_apply]; exact ⟨rfl, rfl⟩
  refine ⟨hi.actLt, hi.snapLt, hi.actNeSnap, ?_, ?_, ?_, ?_, ?_, ?_, ?_, hi.listedNodup, ?_, ?_⟩ <;> dsimp only
  · intro a ha; rw [(htab a).2.1]; exact hi.actFresh a ha
  · intro v hv
    simp only [List.mem_append, List.mem_singleton] at hv
    rcases hv with hv | rfl
    · exact hi.viewLt v hv
    · exact ⟨fun t ht => hi.actLt t ht, fun t ht => hi.snapLt t (snapView_some ht).1⟩
  · intro v hv t ht
    simp only [List.mem_append, List.mem_singleton] at hv
    rcases hv with hv | rfl
    · exact hi.viewSnapNe v hv t ht
    · intro ha; exact hi.actNeSnap t ha (snapView_some ht).1
  · intro t
    have := hi.trefs t
    simp only [St.own, St.tholders, List.map_append, List.sum_append, List.map_cons, List.map_nil,
      List.sum_cons, List.sum_nil] at this ⊢
    rw [(htab t).1]; omega
  · intro t hr
    rw [(htab t).2.2] at hr
    have h0 := hi.tlive t hr
    have h1 := hi.trefs t
    rw [(htab t).1, h0]
    have : (σ.newView c).tw t = 0 := by
      simp only [View.tw, St.newView]
      have ha : σ.active ≠ some t := by
        intro e; simp [St.own, e] at h1; omega
      have hs : σ.snapView ≠ some t := by
        intro e; have := (snapView_some e).1; simp [St.own, this] at h1; omega
      simp [ha, hs]
    rw [this]
  · intro f
    have := hi.frefs f
    simp only [St.fholders, List.map_append, List.sum_append, List.map_cons, List.map_nil,
      List.sum_cons, List.sum_nil] at this ⊢
    rw [refFiles_apply]
    have e : (σ.newView c).fw f = List.count f (σ.ooo ++ σ.ord) := rfl
    rw [e]
    show _ ≤ (σ.files f).refs + List.count f (σ.ooo ++ σ.ord)
    omega
  · intro f hf; rw [(hfile f).1, (hfile f).2]; exact hi.listedOK f hf
  · intro v hv f hf
    rw [(hfile f).1, (hfile f).2]
    simp only [List.mem_append, List.mem_singleton] at hv
    rcases hv with hv | rfl
    · exact hi.viewFiles v hv f (by simpa using hf)
    · exact hi.listedOK f hf
  · intro f hf; rw [refFiles_apply]; exact hi.listedNP f hf


/-! ### the id-time loader -/

theorem loaderRef_spec {σ σ' : St} (h : σ.loaderRef = some σ') :
    σ.filesClosed = false ∧ σ' = { σ with
      views := σ.views ++ [σ.loaderView]
      files := refFiles σ.files (σ.ooo ++ σ.ord) } := by
  unfold St.loaderRef at h
  split at h
  · cases h
  · rename_i hc
    simp only [Option.some.injEq] at h
    exact ⟨by simpa using hc, h.symm⟩

theorem loaderRef_invR {σ σ' : St} (hi : InvR σ) (h : σ.loaderRef = some σ') : InvR σ' := by
  obtain ⟨_, rfl⟩ := loaderRef_spec h
  have hfile : ∀ f, (refFiles σ.files (σ.ooo ++ σ.ord) f).present = (σ.files f).present ∧
      (refFiles σ.files (σ.ooo ++ σ.ord) f).unlinked = (σ.files f).unlinked := by
    intro f; rw [refFiles_apply]; exact ⟨rfl, rfl⟩
  refine ⟨hi.actLt, hi.snapLt, hi.actNeSnap, hi.actFresh, ?_, ?_, ?_, hi.tlive, ?_, ?_, hi.listedNodup, ?_, ?_⟩ <;> dsimp only
  · intro v hv
    simp only [List.mem_append, List.mem_singleton] at hv
    rcases hv with hv | rfl
    · exact hi.viewLt v hv
    · exact ⟨fun t ht => by simp [St.loaderView] at ht, fun t ht => by simp [St.loaderView] at ht⟩
  · intro v hv t ht
    simp only [List.mem_append, List.mem_singleton] at hv
    rcases hv with hv | rfl
    · exact hi.viewSnapNe v hv t ht
    · simp [St.loaderView] at ht
  · intro t
    have := hi.trefs t
    simp only [St.own, St.tholders, List.map_append, List.sum_append, List.map_cons, List.map_nil,
      List.sum_cons, List.sum_nil] at this ⊢
    have e : σ.loaderView.tw t = 0 := by simp [View.tw, St.loaderView]
    rw [e]; omega
  · intro f
    have := hi.frefs f
    simp only [St.fholders, List.map_append, List.sum_append, List.map_cons, List.map_nil,
      List.sum_cons, List.sum_nil] at this ⊢
    rw [refFiles_apply]
    have e : σ.loaderView.fw f = List.count f (σ.ooo ++ σ.ord) := rfl
    rw [e]
    show _ ≤ (σ.files f).refs + List.count f (σ.ooo ++ σ.ord)
    omega
  · intro f hf; rw [(hfile f).1, (hfile f).2]; exact hi.listedOK f hf
  · intro v hv f hf
    rw [(hfile f).1, (hfile f).2]
    simp only [List.mem_append, List.mem_singleton] at hv
    rcases hv with hv | rfl
    · exact hi.viewFiles v hv f (by simpa using hf)
    · exact hi.listedOK f hf
  · intro f hf; rw [refFiles_apply]; exact hi.listedNP f hf

theorem openCursors_spec {σ σ' : St} {i : Nat} (h : σ.openCursors i = some σ') :
    ∃ v, σ.views[i]? = some v ∧ v.mem = none ∧ σ' = { σ with
      views := σ.views.set i { v with mem := some (σ.tabCells v.act ++ σ.tabCells v.snap) } } := by
  unfold St.openCursors at h
  split at h
  · cases h
  · rename_i v hv
    split at h
    · cases h
    · rename_i hm
      simp only [Option.some.injEq] at h
      refine ⟨v, hv, ?_, h.symm⟩
      cases hm' : v.mem with
      | none => rfl
      | some m => simp [hm'] at hm

theorem mem_set_cases {α : Type} {l : List α} {i : Nat} {x y : α} (h : x ∈ l.set i y) :
    x = y ∨ x ∈ l := by
  rcases List.mem_or_eq_of_mem_set h with h | h
  · exact Or.inr h
  · exact Or.inl h

theorem openCursors_invR {σ σ' : St} {i : Nat} (hi : InvR σ) (h : σ.openCursors i = some σ') : InvR σ' := by
  obtain ⟨v, hv, _, rfl⟩ := openCursors_spec h
  have hvm : v ∈ σ.views := List.mem_of_getElem? hv
  have hcase : ∀ w ∈ σ.views.set i { v with mem := some (σ.tabCells v.act ++ σ.tabCells v.snap) },
      ∃ u ∈ σ.views, w.act = u.act ∧ w.snap = u.snap ∧ w.ooo = u.ooo ∧ w.ord = u.ord := by
    intro w hw
    rcases mem_set_cases hw with rfl | hw
    · exact ⟨v, hvm, rfl, rfl, rfl, rfl⟩
    · exact ⟨w, hw, rfl, rfl, rfl, rfl⟩
  refine ⟨hi.actLt, hi.snapLt, hi.actNeSnap, hi.actFresh, ?_, ?_, ?_, hi.tlive, ?_, hi.listedOK, hi.listedNodup, ?_, hi.listedNP⟩ <;> dsimp only
  · intro w hw
    obtain ⟨u, hu, h1, h2, _, _⟩ := hcase w hw
    rw [h1, h2]; exact hi.viewLt u hu
  · intro w hw
    obtain ⟨u, hu, _, h2, _, _⟩ := hcase w hw
    rw [h2]; exact hi.viewSnapNe u hu
  · intro t
    have := hi.trefs t
    simp only [St.own, St.tholders] at this ⊢
    have e := sum_map_set (fun v => v.tw t) σ.views i v
      { v with mem := some (σ.tabCells v.act ++ σ.tabCells v.snap) } hv rfl
    rw [e]; exact this
  · intro f
    have := hi.frefs f
    simp only [St.fholders] at this ⊢
    have e := sum_map_set (fun v => v.fw f) σ.views i v
      { v with mem := some (σ.tabCells v.act ++ σ.tabCells v.snap) } hv rfl
    rw [e]; exact this
  · intro w hw
    obtain ⟨u, hu, _, _, h3, h4⟩ := hcase w hw
    rw [h3, h4]; exact hi.viewFiles u hu

theorem release_spec {σ σ' : St} {i : Nat} (h : σ.release i = some σ') :
    ∃ v, σ.views[i]? = some v ∧ σ' = { σ with
      views := σ.views.eraseIdx i
      tables := unrefT (unrefT σ.tables v.act) v.snap
      files := unrefFiles σ.files (v.ooo ++ v.ord) } := by
  unfold St.release at h
  split at h
  · cases h
  · rename_i v hv
    simp only [Option.some.injEq] at h
    exact ⟨v, hv, h.symm⟩

theorem release_invR {σ σ' : St} {i : Nat} (hi : InvR σ) (h : σ.release i = some σ') : InvR σ' := by
  obtain ⟨v, hv, rfl⟩ := release_spec h
  have hvm : v ∈ σ.views := List.mem_of_getElem? hv
  have hsub : ∀ w ∈ σ.views.eraseIdx i, w ∈ σ.views := fun w hw => List.mem_of_mem_eraseIdx hw
  have hrefs : ∀ t, (unrefT (unrefT σ.tables v.act) v.snap t).refs = (σ.tables t).refs - v.tw t := by
    intro t
    rw [(unrefT_fields _ v.snap t).1, (unrefT_fields _ v.act t).1]
    simp only [View.tw]; omega
  have hfl : ∀ t, (unrefT (unrefT σ.tables v.act) v.snap t).flushed = (σ.tables t).flushed := by
    intro t; rw [(unrefT_fields _ v.snap t).2.1, (unrefT_fields _ v.act t).2.1]
  have hfile : ∀ f, (unrefFiles σ.files (v.ooo ++ v.ord) f).present = (σ.files f).present ∧
      (unrefFiles σ.files (v.ooo ++ v.ord) f).unlinked = (σ.files f).unlinked := by
    intro f; rw [unrefFiles_apply]; exact ⟨rfl, rfl⟩
  refine ⟨hi.actLt, hi.snapLt, hi.actNeSnap, ?_, ?_, ?_, ?_, ?_, ?_, ?_, hi.listedNodup, ?_, ?_⟩ <;> dsimp only
  · intro a ha; rw [hfl]; exact hi.actFresh a ha
  · intro w hw; exact hi.viewLt w (hsub w hw)
  · intro w hw; exact hi.viewSnapNe w (hsub w hw)
  · intro t
    have h1 := hi.trefs t
    have h2 := sum_map_eraseIdx (fun v => v.tw t) σ.views i v hv
    simp only [St.own, St.tholders] at h1 ⊢
    rw [hrefs]; omega
  · intro t hr
    rcases (unrefT_fields (unrefT σ.tables v.act) v.snap t).2.2.1 hr with h1 | h1
    · rcases (unrefT_fields σ.tables v.act t).2.2.1 h1 with h2 | h2
      · rw [hrefs, hi.tlive t h2]; simp
      · rw [(unrefT_fields _ v.snap t).1, h2]; simp
    · exact h1
  · intro f
    have h1 := hi.frefs f
    have h2 := sum_map_eraseIdx (fun v => v.fw f) σ.views i v hv
    simp only [St.fholders] at h1 ⊢
    rw [unrefFiles_apply]
    have e : v.fw f = List.count f (v.ooo ++ v.ord) := rfl
    rw [e] at h2
    show _ ≤ (σ.files f).refs - List.count f (v.ooo ++ v.ord)
    omega
  · intro f hf; rw [(hfile f).1, (hfile f).2]; exact hi.listedOK f hf
  · intro w hw f hf
    rw [(hfile f).1, (hfile f).2]; exact hi.viewFiles w (hsub w hw) f hf
  · intro f hf; rw [unrefFiles_apply]; exact hi.listedNP f hf


/-! ### compaction, merge, collector, close -/

theorem allFresh_mem {F : FileId → File} {ns : List FileId} (h : allFresh F ns = true) :
    ∀ n ∈ ns, (F n).present = false := by
  intro n hn
  simp only [allFresh, List.all_eq_true] at h
  simpa using h n hn

theorem nodup_replace {X Y old new : List FileId} (h : (X ++ old ++ Y).Nodup) (hn : new.Nodup)
    (hd : ∀ x ∈ new, x ∉ X ++ old ++ Y) : (X ++ new ++ Y).Nodup := by
  have hp : (X ++ new ++ Y).Perm (new ++ (X ++ Y)) := by
    rw [← List.append_assoc new X Y]
    exact List.Perm.append_right Y List.perm_append_comm
  rw [hp.nodup_iff, List.nodup_append]
  refine ⟨hn, ?_, ?_⟩
  · have hs : (X ++ Y).Sublist (X ++ old ++ Y) := by
      rw [List.append_assoc]
      exact List.Sublist.append_left (List.sublist_append_right old Y) X
    exact h.sublist hs
  · intro a ha b hb e
    subst e
    apply hd a ha
    simp only [List.mem_append] at hb ⊢
    rcases hb with hb | hb
    · exact Or.inl (Or.inl hb)
    · exact Or.inr hb

/-- every rewrite of the file lists: the entries `old` of the combined list are replaced by
fresh entries `new` (possibly none); old files are retired. -/
theorem rewrite_invR {σ : St} (hi : InvR σ) (X Y old new ooo' ord' : List FileId)
    (hlist : σ.ooo ++ σ.ord = X ++ old ++ Y) (hlist' : ooo' ++ ord' = X ++ new ++ Y)
    (hn : new.Nodup) (hf : allFresh σ.files new = true) (cells : List Cell) (srcs : List Nat)
    (busy' : List FileId) (merging' : Option (List FileId)) :
    InvR { σ with ooo := ooo', ord := ord',
                  files := retireFiles (addNew σ.files cells srcs new) old,
                  busy := busy', merging := merging' } := by
  have hfresh := allFresh_mem hf
  have hnd0 := hi.listedNodup
  rw [hlist] at hnd0
  have hold : ∀ g, (σ.files g).present = true →
      (retireFiles (addNew σ.files cells srcs new) old g).present = true ∧
      (retireFiles (addNew σ.files cells srcs new) old g).refs = (σ.files g).refs ∧
      ((retireFiles (addNew σ.files cells srcs new) old g).unlinked = true →
        (σ.files g).unlinked = true ∨ (σ.files g).refs = 0) := by
    intro g hg
    have hgn : g ∉ new := fun hm => by rw [hfresh g hm] at hg; cases hg
    have h1 := retireFiles_fields old (addNew σ.files cells srcs new) g
    rw [addNew_not_mem _ _ _ _ _ hgn] at h1
    exact ⟨h1.2.2.2.1.trans hg, h1.2.2.1, h1.2.2.2.2⟩
  have hnewdis : ∀ x ∈ new, x ∉ X ++ old ++ Y := by
    intro x hx hm
    rw [← hlist] at hm
    have := (hi.listedOK x hm).1
    rw [hfresh x hx] at this; cases this
  have hcases : ∀ f ∈ X ++ new ++ Y, f ∈ new ∨ (f ∈ X ++ old ++ Y ∧ f ∉ old) := by
    intro f hf'
    simp only [List.mem_append] at hf' ⊢
    rcases hf' with (hx | hx) | hx
    · right
      refine ⟨Or.inl (Or.inl hx), ?_⟩
      intro ho
      have := (List.nodup_append.1 (List.nodup_append.1 hnd0).1).2.2 f hx f ho
      exact this rfl
    · exact Or.inl hx
    · right
      refine ⟨Or.inr hx, ?_⟩
      intro ho
      have := (List.nodup_append.1 hnd0).2.2 f (by simp [ho]) f hx
      exact this rfl
  refine ⟨hi.actLt, hi.snapLt, hi.actNeSnap, hi.actFresh, hi.viewLt, hi.viewSnapNe, hi.trefs, hi.tlive,
    ?_, ?_, ?_, ?_, ?_⟩ <;> dsimp only
  · intro f
    have := hi.frefs f
    simp only [St.fholders] at this ⊢
    by_cases hp : (σ.files f).present = true
    · rw [(hold f hp).2.1]; exact this
    · have hz := fholders_zero_of_fresh hi (by simpa using hp)
      simp only [St.fholders] at hz
      rw [hz]; exact Nat.zero_le _
  · intro f hf'
    rw [hlist'] at hf'
    have hcases := hcases f hf'
    rcases hcases with hx | ⟨hx, hno⟩
    · have hno : f ∉ old := by
        intro ho; exact hnewdis f hx (by simp [ho])
      rw [retireFiles_not_mem _ _ _ hno]
      have := addNew_mem cells srcs new σ.files f hx
      exact ⟨this.1, this.2.2.1⟩
    · rw [← hlist] at hx
      have hp := hi.listedOK f hx
      have hgn : f ∉ new := fun hm => by rw [hfresh f hm] at hp; cases hp.1
      rw [retireFiles_not_mem _ _ _ hno, addNew_not_mem _ _ _ _ _ hgn]; exact hp
  · rw [hlist']; exact nodup_replace hnd0 hn hnewdis
  · intro v hv f hf'
    have hp := hi.viewFiles v hv f hf'
    have h1 := hold f hp.1
    refine ⟨h1.1, ?_⟩
    cases hu : (retireFiles (addNew σ.files cells srcs new) old f).unlinked with
    | false => rfl
    | true =>
      rcases h1.2.2 hu with h2 | h2
      · rw [hp.2] at h2; cases h2
      · have h3 := hi.frefs f
        have h4 := fholders_pos_of_mem hv hf'
        omega
  · intro f hf'
    rw [hlist'] at hf'
    rcases hcases f hf' with hx | ⟨hx, hno⟩
    · have hno : f ∉ old := by
        intro ho; exact hnewdis f hx (by simp [ho])
      rw [retireFiles_not_mem _ _ _ hno]
      exact (addNew_mem cells srcs new σ.files f hx).2.2.2.1
    · rw [← hlist] at hx
      have hp := hi.listedOK f hx
      have hgn : f ∉ new := fun hm => by rw [hfresh f hm] at hp; cases hp.1
      rw [retireFiles_not_mem _ _ _ hno, addNew_not_mem _ _ _ _ _ hgn]; exact hi.listedNP f hx

theorem replaceOrd_spec {σ σ' : St} {old new : List FileId} (h : σ.replaceOrd old new = some σ') :
    ∃ pre post, σ.ord = pre ++ old ++ post ∧ newOK σ old new ∧ σ' = { σ with
      ord := pre ++ new ++ post
      files := retireFiles (addNew σ.files (fileCells σ.files old) (srcsOf σ.files old) new) old
      busy := σ.busy.filter (fun f => f ∉ old) } := by
  unfold St.replaceOrd at h
  split at h
  · cases h
  · rename_i pre post hf
    split at h
    · rename_i hc
      simp only [Option.some.injEq] at h
      exact ⟨pre, post, findSub_spec _ _ _ _ hf, hc, h.symm⟩
    · cases h

theorem replaceOrd_invR {σ σ' : St} {old new : List FileId} (hi : InvR σ)
    (h : σ.replaceOrd old new = some σ') : InvR σ' := by
  obtain ⟨pre, post, ho, hok, rfl⟩ := replaceOrd_spec h
  exact rewrite_invR hi (σ.ooo ++ pre) post old new σ.ooo (pre ++ new ++ post)
    (by rw [ho]; simp) (by simp) hok.2.2.1 hok.2.2.2.1 _ _ _ σ.merging

theorem replaceOoo_spec {σ σ' : St} {old new : List FileId} (h : σ.replaceOoo old new = some σ') :
    ∃ pre post, σ.ooo = pre ++ old ++ post ∧ newOK σ old new ∧ σ.merging = none ∧ σ' = { σ with
      ooo := pre ++ new ++ post
      files := retireFiles (addNew σ.files (fileCells σ.files old) (srcsOf σ.files old) new) old
      busy := σ.busy.filter (fun f => f ∉ old) } := by
  unfold St.replaceOoo at h
  split at h
  · cases h
  · rename_i pre post hf
    split at h
    · rename_i hc
      simp only [Option.some.injEq] at h
      exact ⟨pre, post, findSub_spec _ _ _ _ hf, hc.1, hc.2, h.symm⟩
    · cases h

theorem replaceOoo_invR {σ σ' : St} {old new : List FileId} (hi : InvR σ)
    (h : σ.replaceOoo old new = some σ') : InvR σ' := by
  obtain ⟨pre, post, ho, hok, _, rfl⟩ := replaceOoo_spec h
  exact rewrite_invR hi pre (post ++ σ.ord) old new (pre ++ new ++ post) σ.ord
    (by rw [ho]; simp) (by simp) hok.2.2.1 hok.2.2.2.1 _ _ _ σ.merging

theorem mergeReplace_spec {σ σ' : St} {grp old new : List FileId}
    (h : σ.mergeReplace grp old new = some σ') :
    ∃ pre post, σ.ord = pre ++ old ++ post ∧ newOK σ old new ∧ σ.merging = none ∧ grp ≠ [] ∧
      σ.ooo.take (σ.ooo.length - grp.length) ++ grp = σ.ooo ∧
      allBefore (fileCells σ.files pre) (fileCells σ.files grp) = true ∧ σ' = { σ with
        ord := pre ++ new ++ post
        files := retireFiles (addNew σ.files (fileCells σ.files grp ++ fileCells σ.files old)
                    (srcsOf σ.files grp ++ srcsOf σ.files old) new) old
        busy := σ.busy.filter (fun f => f ∉ old)
        merging := some grp } := by
  unfold St.mergeReplace at h
  split at h
  · cases h
  · rename_i pre post hf
    split at h
    · rename_i hc
      simp only [Option.some.injEq] at h
      exact ⟨pre, post, findSub_spec _ _ _ _ hf, hc.1, hc.2.1, hc.2.2.1, hc.2.2.2.1, hc.2.2.2.2, h.symm⟩
    · cases h

theorem mergeReplace_invR {σ σ' : St} {grp old new : List FileId} (hi : InvR σ)
    (h : σ.mergeReplace grp old new = some σ') : InvR σ' := by
  obtain ⟨pre, post, ho, hok, _, _, _, _, rfl⟩ := mergeReplace_spec h
  exact rewrite_invR hi (σ.ooo ++ pre) post old new σ.ooo (pre ++ new ++ post)
    (by rw [ho]; simp) (by simp) hok.2.2.1 hok.2.2.2.1 _ _ _ (some grp)

theorem dropOoo_spec {σ σ' : St} (h : σ.dropOoo = some σ') :
    ∃ grp, σ.merging = some grp ∧ σ.ooo.take (σ.ooo.length - grp.length) ++ grp = σ.ooo ∧
      σ' = { σ with
        ooo := σ.ooo.take (σ.ooo.length - grp.length)
        files := retireFiles σ.files grp
        merging := none } := by
  unfold St.dropOoo at h
  split at h
  · cases h
  · rename_i grp hg
    split at h
    · rename_i hc
      simp only [Option.some.injEq] at h
      exact ⟨grp, hg, hc, h.symm⟩
    · cases h

theorem dropOoo_invR {σ σ' : St} (hi : InvR σ) (h : σ.dropOoo = some σ') : InvR σ' := by
  obtain ⟨grp, _, hs, rfl⟩ := dropOoo_spec h
  have := rewrite_invR hi (σ.ooo.take (σ.ooo.length - grp.length)) σ.ord grp []
    (σ.ooo.take (σ.ooo.length - grp.length)) σ.ord (by rw [hs]) (by simp) List.nodup_nil
    (by simp [allFresh]) [] [] σ.busy none
  simpa [addNew] using this

theorem plan_spec {σ σ' : St} {fs : List FileId} (h : σ.plan fs = some σ') :
    σ' = { σ with busy := fs ++ σ.busy } := by
  unfold St.plan at h
  split at h
  · simp only [Option.some.injEq] at h; exact h.symm
  · cases h

theorem plan_invR {σ σ' : St} {fs : List FileId} (hi : InvR σ) (h : σ.plan fs = some σ') : InvR σ' := by
  rw [plan_spec h]
  exact ⟨hi.actLt, hi.snapLt, hi.actNeSnap, hi.actFresh, hi.viewLt, hi.viewSnapNe, hi.trefs, hi.tlive,
    hi.frefs, hi.listedOK, hi.listedNodup, hi.viewFiles, hi.listedNP⟩

theorem gc_spec {σ σ' : St} {f : FileId} (h : σ.gc f = some σ') :
    (σ.files f).pending = true ∧ (σ.files f).refs = 0 ∧
    σ' = { σ with files := upd σ.files f { σ.files f with pending := false, unlinked := true } } := by
  unfold St.gc at h
  split at h
  · rename_i hc
    simp only [Option.some.injEq] at h; exact ⟨hc.1, hc.2, h.symm⟩
  · cases h


theorem gc_invR {σ σ' : St} {f : FileId} (hi : InvR σ) (h : σ.gc f = some σ') : InvR σ' := by
  obtain ⟨hp, hr, rfl⟩ := gc_spec h
  have hnl : f ∉ σ.ooo ++ σ.ord := by
    intro hm; have := hi.listedNP f hm; rw [hp] at this; cases this
  have hnv : ∀ v ∈ σ.views, f ∉ v.ooo ++ v.ord := by
    intro v hv hm
    have h3 := hi.frefs f
    have h4 := fholders_pos_of_mem hv hm
    omega
  refine ⟨hi.actLt, hi.snapLt, hi.actNeSnap, hi.actFresh, hi.viewLt, hi.viewSnapNe, hi.trefs, hi.tlive,
    ?_, ?_, hi.listedNodup, ?_, ?_⟩ <;> dsimp only
  · intro g
    by_cases hg : g = f
    · subst hg; simp only [upd_same]; exact hi.frefs g
    · rw [upd_other _ _ _ _ hg]; exact hi.frefs g
  · intro g hg
    have : g ≠ f := fun e => hnl (e ▸ hg)
    rw [upd_other _ _ _ _ this]; exact hi.listedOK g hg
  · intro v hv g hg
    have : g ≠ f := fun e => hnv v hv (e ▸ hg)
    rw [upd_other _ _ _ _ this]; exact hi.viewFiles v hv g hg
  · intro g hg
    have : g ≠ f := fun e => hnl (e ▸ hg)
    rw [upd_other _ _ _ _ this]; exact hi.listedNP g hg

theorem closeBegin_spec {σ σ' : St} (h : σ.closeBegin = some σ') :
    σ.closed = false ∧ σ' = { σ with closed := true, active := none } := by
  unfold St.closeBegin at h
  split at h
  · cases h
  · rename_i hc
    simp only [Option.some.injEq] at h; exact ⟨by simpa using hc, h.symm⟩

theorem closeBegin_invR {σ σ' : St} (hi : InvR σ) (h : σ.closeBegin = some σ') : InvR σ' := by
  obtain ⟨_, rfl⟩ := closeBegin_spec h
  refine ⟨?_, hi.snapLt, ?_, ?_, hi.viewLt, ?_, ?_, hi.tlive, hi.frefs, hi.listedOK, hi.listedNodup,
    hi.viewFiles, hi.listedNP⟩ <;> dsimp only
  · intro a ha; cases ha
  · intro a ha; cases ha
  · intro a ha; cases ha
  · intro v _ t _ e; cases e
  · intro t
    have := hi.trefs t
    simp only [St.own, St.tholders] at this ⊢
    simp only [reduceCtorEq, false_or]
    by_cases hs : σ.snapshot = some t <;> by_cases ha : σ.active = some t <;>
      simp [hs, ha] at this ⊢ <;> omega

theorem closeFiles_spec {σ σ' : St} (h : σ.closeFiles = some σ') :
    σ.closed = true ∧ σ.snapshot = none ∧ σ.busy = [] ∧ σ.merging = none ∧
    σ' = { σ with filesClosed := true } := by
  unfold St.closeFiles at h
  split at h
  · rename_i hc
    simp only [Option.some.injEq] at h
    exact ⟨hc.1, hc.2.2.1, hc.2.2.2.1, hc.2.2.2.2, h.symm⟩
  · cases h

theorem closeFiles_invR {σ σ' : St} (hi : InvR σ) (h : σ.closeFiles = some σ') : InvR σ' := by
  obtain ⟨_, _, _, _, rfl⟩ := closeFiles_spec h
  exact ⟨hi.actLt, hi.snapLt, hi.actNeSnap, hi.actFresh, hi.viewLt, hi.viewSnapNe, hi.trefs, hi.tlive,
    hi.frefs, hi.listedOK, hi.listedNodup, hi.viewFiles, hi.listedNP⟩

theorem step_invR {σ σ' : St} (a : Act) (hi : InvR σ) (h : σ.step a = some σ') : InvR σ' := by
  cases a with
  | write b => exact write_invR hi h
  | switch => exact switch_invR hi h
  | publish o u => exact publish_invR hi h
  | dropSnapshot => exact dropSnapshot_invR hi h
  | takeView c => exact takeView_invR hi h
  | loaderRef => exact loaderRef_invR hi h
  | openCursors i => exact openCursors_invR hi h
  | readView i =>
    simp only [St.step] at h
    split at h
    · cases h; exact hi
    · cases h
  | release i => exact release_invR hi h
  | plan fs => exact plan_invR hi h
  | replaceOrd old new => exact replaceOrd_invR hi h
  | replaceOoo old new => exact replaceOoo_invR hi h
  | mergeReplace grp old new => exact mergeReplace_invR hi h
  | dropOoo => exact dropOoo_invR hi h
  | gc f => exact gc_invR hi h
  | closeBegin => exact closeBegin_invR hi h
  | closeFiles => exact closeFiles_invR hi h

theorem reach_invR {σ : St} (h : Reach σ) : InvR σ := by
  induction h with
  | init => exact invR_init
  | step a _ hs ih => exact step_invR a ih hs

end OG.C04
