import OG.C04.Driver
def main : IO Unit := OG.C04.main
