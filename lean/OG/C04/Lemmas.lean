/-
C04 — helper lemmas: point updates of the stores, reference counting folds, contiguous
blocks, lookups over suffixes.
-/
import OG.C04.Model
import OG.C02.Lemmas

namespace OG.C04
open OG.C02 (Cell Key lookup Row batchCells isOrdered updLastFlush lastFlushOf readCells Equiv
  lookup_append)

/-! ### point updates -/

section upd
variable {α β : Type} [DecidableEq α]

@[simp] theorem upd_same (f : α → β) (k : α) (v : β) : upd f k v k = v := by simp [upd]

theorem upd_other (f : α → β) (k : α) (v : β) (x : α) (h : x ≠ k) : upd f k v x = f x := by
  simp [upd, h]

theorem upd_apply (f : α → β) (k : α) (v : β) (x : α) :
    upd f k v x = if x = k then v else f x := rfl
end upd

/-! ### file store folds -/

theorem refFiles_apply (fs : List FileId) : ∀ (F : FileId → File) (g : FileId),
    refFiles F fs g = { F g with refs := (F g).refs + fs.count g } := by
  induction fs with
  | nil => intro F g; simp [refFiles]
  | cons f fs ih =>
    intro F g
    simp only [refFiles]
    rw [ih]
    by_cases h : g = f
    · subst h; simp [upd]; omega
    · have h' : f ≠ g := fun e => h e.symm
      simp [upd, h, h']

theorem unrefFiles_apply (fs : List FileId) : ∀ (F : FileId → File) (g : FileId),
    unrefFiles F fs g = { F g with refs := (F g).refs - fs.count g } := by
  induction fs with
  | nil => intro F g; simp [unrefFiles]
  | cons f fs ih =>
    intro F g
    simp only [unrefFiles]
    rw [ih]
    by_cases h : g = f
    · subst h; simp [upd]; omega
    · have h' : f ≠ g := fun e => h e.symm
      simp [upd, h, h']

theorem retireFiles_not_mem (fs : List FileId) : ∀ (F : FileId → File) (g : FileId), g ∉ fs →
    retireFiles F fs g = F g := by
  induction fs with
  | nil => intro F g _; rfl
  | cons f fs ih =>
    intro F g hg
    simp only [List.mem_cons, not_or] at hg
    simp only [retireFiles]
    rw [ih _ _ hg.2, upd_other _ _ _ _ hg.1]

theorem File.retire_fields (x : File) :
    x.retire.cells = x.cells ∧ x.retire.srcs = x.srcs ∧ x.retire.refs = x.refs ∧
    x.retire.present = x.present ∧ (x.retire.unlinked = true → x.unlinked = true ∨ x.refs = 0) := by
  unfold File.retire
  split
  · rename_i h; exact ⟨rfl, rfl, rfl, rfl, fun _ => Or.inr h⟩
  · exact ⟨rfl, rfl, rfl, rfl, fun h => Or.inl h⟩

/-- retiring changes only the `pending` / `unlinked` flags, and unlinks only at count 0. -/
theorem retireFiles_fields (fs : List FileId) : ∀ (F : FileId → File) (g : FileId),
    (retireFiles F fs g).cells = (F g).cells ∧ (retireFiles F fs g).srcs = (F g).srcs ∧
    (retireFiles F fs g).refs = (F g).refs ∧ (retireFiles F fs g).present = (F g).present ∧
    ((retireFiles F fs g).unlinked = true → (F g).unlinked = true ∨ (F g).refs = 0) := by
  induction fs with
  | nil => intro F g; exact ⟨rfl, rfl, rfl, rfl, fun h => Or.inl h⟩
  | cons f fs ih =>
    intro F g
    simp only [retireFiles]
    have h1 := ih (upd F f (F f).retire) g
    by_cases h : g = f
    · subst h
      simp only [upd_same] at h1
      have h2 := File.retire_fields (F g)
      refine ⟨h1.1.trans h2.1, h1.2.1.trans h2.2.1, h1.2.2.1.trans h2.2.2.1,
        h1.2.2.2.1.trans h2.2.2.2.1, ?_⟩
      intro hu
      rcases h1.2.2.2.2 hu with h3 | h3
      · exact h2.2.2.2.2 h3
      · exact Or.inr (h2.2.2.1 ▸ h3)
    · rw [upd_other _ _ _ _ h] at h1
      exact h1

theorem fileCells_congr (F G : FileId → File) (fs : List FileId)
    (h : ∀ f ∈ fs, (G f).cells = (F f).cells) : fileCells G fs = fileCells F fs := by
  induction fs with
  | nil => rfl
  | cons f fs ih =>
    simp only [fileCells, List.flatMap_cons] at ih ⊢
    rw [h f (by simp), ih (fun g hg => h g (by simp [hg]))]

theorem fileCells_append (F : FileId → File) (a b : List FileId) :
    fileCells F (a ++ b) = fileCells F a ++ fileCells F b := by
  simp [fileCells, List.flatMap_append]

theorem srcsOf_append (F : FileId → File) (a b : List FileId) :
    srcsOf F (a ++ b) = srcsOf F a ++ srcsOf F b := by
  simp [srcsOf, List.flatMap_append]

theorem mem_fileCells {F : FileId → File} {fs : List FileId} {c : Cell} :
    c ∈ fileCells F fs ↔ ∃ f ∈ fs, c ∈ (F f).cells := by
  simp [fileCells, List.mem_flatMap]

theorem mem_srcsOf {F : FileId → File} {fs : List FileId} {t : Nat} :
    t ∈ srcsOf F fs ↔ ∃ f ∈ fs, t ∈ (F f).srcs := by
  simp [srcsOf, List.mem_flatMap]

/-! ### new files of a rewrite -/

theorem addEmpty_not_mem (srcs : List Nat) (ns : List FileId) : ∀ (F : FileId → File) (g : FileId),
    g ∉ ns → addEmpty F srcs ns g = F g := by
  induction ns with
  | nil => intro F g _; rfl
  | cons n ns ih =>
    intro F g hg
    simp only [List.mem_cons, not_or] at hg
    simp only [addEmpty]
    rw [ih _ _ hg.2, upd_other _ _ _ _ hg.1]

theorem addEmpty_mem (srcs : List Nat) (ns : List FileId) : ∀ (F : FileId → File) (g : FileId),
    g ∈ ns → addEmpty F srcs ns g = newFile [] srcs := by
  induction ns with
  | nil => intro F g hg; simp at hg
  | cons n ns ih =>
    intro F g hg
    simp only [addEmpty]
    by_cases h : g ∈ ns
    · exact ih _ _ h
    · simp only [List.mem_cons] at hg
      rcases hg with rfl | hg
      · rw [addEmpty_not_mem _ _ _ _ h]; simp
      · exact absurd hg h

theorem addNew_nil (cells : List Cell) (srcs : List Nat) (F : FileId → File) :
    addNew F cells srcs [] = F := rfl

theorem getLast?_split {ns : List FileId} {n : FileId} (h : ns.getLast? = some n) :
    ns = ns.dropLast ++ [n] := by
  have hne : ns ≠ [] := by intro e; rw [e] at h; cases h
  have := List.dropLast_concat_getLast hne
  rw [List.getLast?_eq_some_getLast hne] at h
  simp only [Option.some.injEq] at h
  rw [h] at this; exact this.symm

theorem addNew_not_mem (cells : List Cell) (srcs : List Nat) (ns : List FileId)
    (F : FileId → File) (g : FileId) (hg : g ∉ ns) : addNew F cells srcs ns g = F g := by
  unfold addNew
  cases h : ns.getLast? with
  | none => rfl
  | some n =>
    have hs := getLast?_split h
    have h1 : g ≠ n := fun e => hg (by rw [hs, e]; simp)
    have h2 : g ∉ ns.dropLast := fun hm => hg (by rw [hs]; simp [hm])
    simp only []
    rw [upd_other _ _ _ _ h1, addEmpty_not_mem _ _ _ _ h2]

/-- a new file is present, unreferenced, not unlinked, and carries the sources. -/
theorem addNew_mem (cells : List Cell) (srcs : List Nat) (ns : List FileId)
    (F : FileId → File) (g : FileId) (hg : g ∈ ns) :
    (addNew F cells srcs ns g).present = true ∧ (addNew F cells srcs ns g).refs = 0 ∧
    (addNew F cells srcs ns g).unlinked = false ∧ (addNew F cells srcs ns g).pending = false ∧
    (addNew F cells srcs ns g).srcs = srcs ∧
    (∀ c ∈ (addNew F cells srcs ns g).cells, c ∈ cells) := by
  unfold addNew
  cases h : ns.getLast? with
  | none =>
    have : ns = [] := by simpa using h
    rw [this] at hg; simp at hg
  | some n =>
    have hs := getLast?_split h
    simp only []
    by_cases h1 : g = n
    · subst h1; simp [newFile]
    · have h2 : g ∈ ns.dropLast := by
        rw [hs] at hg
        simp only [List.mem_append, List.mem_singleton] at hg
        rcases hg with hg | hg
        · exact hg
        · exact absurd hg h1
      rw [upd_other _ _ _ _ h1, addEmpty_mem _ _ _ _ h2]; simp [newFile]

theorem fileCells_addNew (cells : List Cell) (srcs : List Nat) (ns : List FileId)
    (F : FileId → File) (hne : ns ≠ []) (hnd : ns.Nodup) :
    fileCells (addNew F cells srcs ns) ns = cells := by
  have hl : ns.getLast? = some (ns.getLast hne) := List.getLast?_eq_some_getLast hne
  have hs := getLast?_split hl
  have hnd' : (ns.dropLast ++ [ns.getLast hne]).Nodup := by rw [← hs]; exact hnd
  have hnotin : ns.getLast hne ∉ ns.dropLast := by
    intro hm
    have := (List.nodup_append.1 hnd').2.2 (ns.getLast hne) hm (ns.getLast hne) (by simp)
    exact this rfl
  unfold addNew
  rw [hl]
  simp only []
  conv => lhs; arg 2; rw [hs]
  rw [fileCells_append]
  have e1 : fileCells (upd (addEmpty F srcs ns.dropLast) (ns.getLast hne) (newFile cells srcs)) ns.dropLast = [] := by
    simp only [fileCells]
    rw [List.flatMap_eq_nil_iff]
    intro f hf
    have hfn : f ≠ ns.getLast hne := fun e => hnotin (e ▸ hf)
    rw [upd_other _ _ _ _ hfn, addEmpty_mem _ _ _ _ hf]; rfl
  rw [e1]
  simp [fileCells, newFile]

/-! ### contiguous blocks -/

theorem findSub_spec (old : List FileId) : ∀ (l p q : List FileId),
    findSub old l = some (p, q) → l = p ++ old ++ q := by
  intro l
  induction l with
  | nil =>
    intro p q h
    simp only [findSub] at h
    split at h
    · cases h; simp_all
    · cases h
  | cons x xs ih =>
    intro p q h
    simp only [findSub] at h
    split at h
    · rename_i hp
      cases h
      have := List.isPrefixOf_iff_prefix.1 hp
      obtain ⟨t, ht⟩ := this
      simp only [List.nil_append]
      rw [← ht]; simp
    · split at h
      · rename_i p' q' hf
        simp only [Option.some.injEq, Prod.mk.injEq] at h
        obtain ⟨rfl, rfl⟩ := h
        have := ih p' q' hf
        simp [this]
      · cases h

/-! ### lookups -/

theorem lookup_suffix_some {k : Key} {pre xs : List Cell} {x : String}
    (h : lookup k xs = some x) : ∃ y, lookup k (pre ++ xs) = some y := by
  rw [lookup_append]
  cases lookup k pre with
  | none => exact ⟨x, h⟩
  | some y => exact ⟨y, rfl⟩

theorem lookup_some_cell {k : Key} : ∀ {xs : List Cell} {x : String}, lookup k xs = some x →
    ∃ c ∈ xs, c.key = k ∧ c.v = x := by
  intro xs
  induction xs with
  | nil => intro x h; simp [lookup] at h
  | cons c cs ih =>
    intro x h
    simp only [lookup] at h
    by_cases hk : c.key = k
    · simp only [hk, if_true, Option.some.injEq] at h
      exact ⟨c, by simp, hk, h⟩
    · simp only [hk, if_false] at h
      obtain ⟨d, hd, h1, h2⟩ := ih h
      exact ⟨d, by simp [hd], h1, h2⟩

theorem lookup_none_iff {k : Key} {xs : List Cell} :
    lookup k xs = none ↔ ∀ c ∈ xs, c.key ≠ k := by
  induction xs with
  | nil => simp [lookup]
  | cons c cs ih =>
    simp only [lookup]
    by_cases hk : c.key = k
    · simp [hk]
    · simp [hk, ih]

/-- two cell lists without a common key commute under lookup. -/
theorem equiv_comm_of_disjoint (a b : List Cell)
    (h : ∀ c ∈ a, ∀ d ∈ b, c.key ≠ d.key) : Equiv (a ++ b) (b ++ a) := by
  intro k
  rw [lookup_append, lookup_append]
  cases ha : lookup k a with
  | none => cases lookup k b <;> rfl
  | some x =>
    obtain ⟨c, hc, hck, _⟩ := lookup_some_cell ha
    have : lookup k b = none := by
      rw [lookup_none_iff]
      intro d hd hdk
      exact h c hc d hd (hck.trans hdk.symm)
    rw [this]

/-! ### sums of weights over the view list -/

theorem sum_map_eraseIdx {α : Type} (w : α → Nat) : ∀ (l : List α) (i : Nat) (x : α), l[i]? = some x →
    ((l.eraseIdx i).map w).sum + w x = (l.map w).sum := by
  intro l
  induction l with
  | nil => intro i x h; simp at h
  | cons a as ih =>
    intro i x h
    cases i with
    | zero => simp at h; subst h; simp; omega
    | succ j =>
      simp at h
      have := ih j x h
      simp only [List.eraseIdx_cons_succ, List.map_cons, List.sum_cons]
      omega

theorem sum_map_set {α : Type} (w : α → Nat) : ∀ (l : List α) (i : Nat) (x y : α), l[i]? = some x →
    w y = w x → ((l.set i y).map w).sum = (l.map w).sum := by
  intro l
  induction l with
  | nil => intro i x y h; simp at h
  | cons a as ih =>
    intro i x y h hw
    cases i with
    | zero => simp at h; subst h; simp [hw]
    | succ j =>
      simp at h
      simp only [List.set_cons_succ, List.map_cons, List.sum_cons]
      rw [ih j x y h hw]

theorem sum_map_congr {α : Type} (w : α → Nat) (g : α → α) (l : List α)
    (h : ∀ x ∈ l, w (g x) = w x) : ((l.map g).map w).sum = (l.map w).sum := by
  induction l with
  | nil => rfl
  | cons a as ih =>
    simp only [List.map_cons, List.sum_cons]
    rw [h a (by simp), ih (fun x hx => h x (by simp [hx]))]

theorem sum_map_zero {α : Type} (w : α → Nat) (l : List α) (h : ∀ x ∈ l, w x = 0) :
    (l.map w).sum = 0 := by
  induction l with
  | nil => rfl
  | cons a as ih =>
    simp only [List.map_cons, List.sum_cons]
    rw [h a (by simp), ih (fun x hx => h x (by simp [hx]))]

theorem le_sum_of_mem {α : Type} (w : α → Nat) (l : List α) (x : α) (h : x ∈ l) :
    w x ≤ (l.map w).sum := by
  induction l with
  | nil => simp at h
  | cons a as ih =>
    simp only [List.mem_cons] at h
    simp only [List.map_cons, List.sum_cons]
    rcases h with rfl | h
    · omega
    · have := ih h; omega

end OG.C04
