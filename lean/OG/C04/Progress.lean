/-
C04 — closing terminates (on the model).

`OG.C04.Facts.no_wait_for_cycle` excludes a deadlock between lock classes. This file adds the
protocol half: from **every reachable state** in which no compaction holds planned files, the
flusher, the merger and the closer alone - no step of a writer or of a query is needed, and none
can prevent it - bring the shard to `filesClosed`: the closer begins (`closeBegin`), the flush in
flight publishes what it still has to publish and drops its table, the merge in flight delists
its out-of-order files, and `closeFiles` is then enabled. Open queries never block it (they are
not waited for), writers are refused once the closer began.

The hypothesis `busy = []` is about the model, not the code: a compaction that gives up
(`ErrCompStopped` → `CompactDone` without a replace) is not a step of the model, so a planned but
never executed replace would keep `busy` non-empty for ever. The supply of two unused file names
is what the sequence-number generator of the code provides.

Needed on the way: `InvM` - the out-of-order files of a merge in flight stay the oldest entries
(a suffix) of the out-of-order list until the merge delists them, whatever is published meanwhile.
-/
import OG.C04.Props

namespace OG.C04
open OG.C02 (Cell Row isOrdered)

/-! ### the merge group stays a suffix of the out-of-order list -/

def IsSuffixOf (g l : List FileId) : Prop := l.take (l.length - g.length) ++ g = l

def InvM (σ : St) : Prop := ∀ grp, σ.merging = some grp → IsSuffixOf grp σ.ooo

theorem isSuffixOf_len {g l : List FileId} (h : IsSuffixOf g l) : g.length ≤ l.length := by
  have := congrArg List.length h
  simp only [List.length_append, List.length_take] at this
  omega

theorem isSuffixOf_cons {g l : List FileId} (x : FileId) (h : IsSuffixOf g l) : IsSuffixOf g (x :: l) := by
  have hl := isSuffixOf_len h
  unfold IsSuffixOf at h ⊢
  have e : (x :: l).length - g.length = (l.length - g.length) + 1 := by
    simp only [List.length_cons]; omega
  rw [e, List.take_succ_cons, List.cons_append, h]

theorem isSuffixOf_optCons {g l : List FileId} (o : Option FileId) (h : IsSuffixOf g l) :
    IsSuffixOf g (o.toList ++ l) := by
  cases o with
  | none => simpa using h
  | some x => simpa using isSuffixOf_cons x h

theorem invM_init : InvM St.init := by
  intro grp h; simp [St.init] at h

theorem step_invM {σ σ' : St} (a : Act) (hm : InvM σ) (h : σ.step a = some σ') : InvM σ' := by
  cases a with
  | write b => obtain ⟨_, _, _, rfl⟩ := write_spec h; exact hm
  | switch => obtain ⟨_, _, _, rfl⟩ := switch_spec h; exact hm
  | publish o u =>
    obtain ⟨_, _, _, _, _, _, _, _, _, rfl⟩ := publish_spec h
    intro grp hg
    exact isSuffixOf_optCons u (hm grp hg)
  | dropSnapshot => obtain ⟨_, _, _, rfl⟩ := dropSnapshot_spec h; exact hm
  | takeView c => obtain ⟨_, rfl⟩ := takeView_spec h; exact hm
  | loaderRef => obtain ⟨_, rfl⟩ := loaderRef_spec h; exact hm
  | openCursors i => obtain ⟨_, _, _, rfl⟩ := openCursors_spec h; exact hm
  | readView i =>
    simp only [St.step] at h
    split at h
    · cases h; exact hm
    · cases h
  | release i => obtain ⟨_, _, rfl⟩ := release_spec h; exact hm
  | plan fs => rw [plan_spec h]; exact hm
  | replaceOrd old new => obtain ⟨_, _, _, _, rfl⟩ := replaceOrd_spec h; exact hm
  | replaceOoo old new =>
    obtain ⟨_, _, _, _, hnone, rfl⟩ := replaceOoo_spec h
    intro grp hg
    simp only [hnone] at hg
    cases hg
  | mergeReplace grp old new =>
    obtain ⟨_, _, _, _, _, _, hs, _, rfl⟩ := mergeReplace_spec h
    intro g hg
    simp only [Option.some.injEq] at hg
    subst hg
    exact hs
  | dropOoo =>
    obtain ⟨_, _, _, rfl⟩ := dropOoo_spec h
    intro g hg
    cases hg
  | gc f => obtain ⟨_, _, rfl⟩ := gc_spec h; exact hm
  | closeBegin => obtain ⟨_, rfl⟩ := closeBegin_spec h; exact hm
  | closeFiles => obtain ⟨_, _, _, _, rfl⟩ := closeFiles_spec h; exact hm

theorem reach_invM {σ : St} (h : Reach σ) : InvM σ := by
  induction h with
  | init => exact invM_init
  | step a _ hs ih => exact step_invM a ih hs

/-! ### schedules of the closer, the flusher and the merger -/

/-- the steps that finish what is in flight and close; no writer, no query, no new plan. -/
def Act.isClosing : Act → Bool
  | .closeBegin | .closeFiles | .publish _ _ | .dropSnapshot | .dropOoo => true
  | _ => false

theorem run_append (σ : St) (as bs : List Act) :
    run σ (as ++ bs) = (run σ as).bind fun σ' => run σ' bs := by
  induction as generalizing σ with
  | nil => rfl
  | cons a as ih =>
    simp only [List.cons_append, run]
    cases σ.step a with
    | none => rfl
    | some σ1 => exact ih σ1

/-- what the closing steps never touch. -/
structure SameRest (σ σ' : St) : Prop where
  busy : σ'.busy = σ.busy
  fc : σ'.filesClosed = σ.filesClosed

theorem run_one {σ σ' : St} {a : Act} (h : σ.step a = some σ') : run σ [a] = some σ' := by
  simp [run, h]

theorem run_two {σ σ1 σ2 : St} {a b : Act} (h1 : σ.step a = some σ1) (h2 : σ1.step b = some σ2) :
    run σ [a, b] = some σ2 := by
  simp [run, h1, h2]

/-- phase 1: the closer begins (if it has not yet). -/
theorem phase_closeBegin (σ : St) :
    ∃ acts σ', run σ acts = some σ' ∧ acts.all Act.isClosing = true ∧ acts.length ≤ 1 ∧ σ'.closed = true ∧
      σ'.snapshot = σ.snapshot ∧ σ'.tables = σ.tables ∧ σ'.files = σ.files ∧ σ'.lastFlush = σ.lastFlush ∧
      σ'.ooo = σ.ooo ∧ σ'.merging = σ.merging ∧ SameRest σ σ' := by
  cases hc : σ.closed with
  | true => exact ⟨[], σ, rfl, rfl, by simp, hc, rfl, rfl, rfl, rfl, rfl, rfl, ⟨rfl, rfl⟩⟩
  | false =>
    have he : ∃ σ', σ.step .closeBegin = some σ' := by
      simp only [St.step, St.closeBegin, hc]; exact ⟨_, rfl⟩
    obtain ⟨σ', h'⟩ := he
    have hs := h'
    simp only [St.step] at hs
    obtain ⟨_, rfl⟩ := closeBegin_spec hs
    exact ⟨[.closeBegin], _, run_one h', rfl, by simp, rfl, rfl, rfl, rfl, rfl, rfl, rfl, ⟨rfl, rfl⟩⟩

/-- phase 2: the flush in flight finishes - publishes if it still has to, drops its table. -/
theorem phase_flush (σ : St)
    (hn : ∃ a b : FileId, a ≠ b ∧ (σ.files a).present = false ∧ (σ.files b).present = false) :
    ∃ acts σ', run σ acts = some σ' ∧ acts.all Act.isClosing = true ∧ acts.length ≤ 2 ∧ σ'.snapshot = none ∧
      σ'.closed = σ.closed ∧ σ'.merging = σ.merging ∧ (∃ o : Option FileId, σ'.ooo = o.toList ++ σ.ooo) ∧
      SameRest σ σ' := by
  cases hs : σ.snapshot with
  | none => exact ⟨[], σ, rfl, rfl, by simp, hs, rfl, rfl, ⟨none, rfl⟩, ⟨rfl, rfl⟩⟩
  | some t =>
    by_cases hd : (σ.tables t).flushed = true ∨ (σ.tables t).cells = []
    · have he : ∃ σ', σ.step .dropSnapshot = some σ' := by
        simp only [St.step, St.dropSnapshot, hs]; rw [if_pos hd]; exact ⟨_, rfl⟩
      obtain ⟨σ', h'⟩ := he
      have hsp := h'
      simp only [St.step] at hsp
      obtain ⟨_, _, _, rfl⟩ := dropSnapshot_spec hsp
      exact ⟨[.dropSnapshot], _, run_one h', rfl, by simp, rfl, rfl, rfl, ⟨none, rfl⟩, ⟨rfl, rfl⟩⟩
    · obtain ⟨a, b, hab, ha, hb⟩ := hn
      have hfl : (σ.tables t).flushed = false := by
        cases h : (σ.tables t).flushed with
        | false => rfl
        | true => exact absurd (Or.inl h) hd
      have hne : (σ.tables t).cells ≠ [] := fun h => hd (Or.inr h)
      -- the names: one per non-empty half of the table
      generalize hoc : ((σ.tables t).cells.filter (isOrdered σ.lastFlush)).isEmpty = eo
      generalize huc : ((σ.tables t).cells.filter (fun c => !isOrdered σ.lastFlush c)).isEmpty = eu
      have he : ∃ σ1, σ.step (.publish (if eo then none else some a) (if eu then none else some b)) = some σ1 := by
        simp only [St.step, St.publish, hs]
        rw [if_pos]
        · exact ⟨_, rfl⟩
        · refine ⟨hfl, hne, ?_, ?_, ?_, ?_, ?_⟩
          · rw [hoc]; cases eo <;> rfl
          · rw [huc]; cases eu <;> rfl
          · cases eo <;> simp [freshOpt, ha]
          · cases eu <;> simp [freshOpt, hb]
          · cases eo <;> cases eu <;> simp [hab]
      obtain ⟨σ1, h1⟩ := he
      have hp := h1
      simp only [St.step] at hp
      obtain ⟨t', ht', _, _, _, _, _, _, _, rfl⟩ := publish_spec hp
      have htt : t' = t := by rw [hs] at ht'; exact (Option.some.inj ht').symm
      subst htt
      have he2 : ∃ σ2, St.step { σ with
          files := addOpt (addOpt σ.files (if eo then none else some a)
            (newFile ((σ.tables t').cells.filter (isOrdered σ.lastFlush)) [t'])) (if eu then none else some b)
            (newFile ((σ.tables t').cells.filter (fun c => !isOrdered σ.lastFlush c)) [t'])
          ooo := (if eu then none else some b).toList ++ σ.ooo
          ord := σ.ord ++ (if eo then none else some a).toList
          lastFlush := ((σ.tables t').cells.filter (isOrdered σ.lastFlush)).foldl OG.C02.updLastFlush σ.lastFlush
          tables := upd σ.tables t' { σ.tables t' with flushed := true } } .dropSnapshot = some σ2 := by
        simp only [St.step, St.dropSnapshot, hs]
        rw [if_pos (Or.inl (by simp [upd]))]
        exact ⟨_, rfl⟩
      obtain ⟨σ2, h2⟩ := he2
      have hd2 := h2
      simp only [St.step] at hd2
      obtain ⟨_, _, _, rfl⟩ := dropSnapshot_spec hd2
      exact ⟨[.publish (if eo then none else some a) (if eu then none else some b), .dropSnapshot], _, run_two h1 h2,
        rfl, by simp, rfl, rfl, rfl, ⟨_, rfl⟩, ⟨rfl, rfl⟩⟩

/-- phase 3: the merge in flight delists its out-of-order files. -/
theorem phase_merge (σ : St) (hm : InvM σ) :
    ∃ acts σ', run σ acts = some σ' ∧ acts.all Act.isClosing = true ∧ acts.length ≤ 1 ∧ σ'.merging = none ∧
      σ'.closed = σ.closed ∧ σ'.snapshot = σ.snapshot ∧ SameRest σ σ' := by
  cases hg : σ.merging with
  | none => exact ⟨[], σ, rfl, rfl, by simp, hg, rfl, rfl, ⟨rfl, rfl⟩⟩
  | some grp =>
    have hs : σ.ooo.take (σ.ooo.length - grp.length) ++ grp = σ.ooo := hm grp hg
    have he : ∃ σ', σ.step .dropOoo = some σ' := by
      simp only [St.step, St.dropOoo, hg]; rw [if_pos hs]; exact ⟨_, rfl⟩
    obtain ⟨σ', h'⟩ := he
    have hsp := h'
    simp only [St.step] at hsp
    obtain ⟨_, _, _, rfl⟩ := dropOoo_spec hsp
    exact ⟨[.dropOoo], _, run_one h', rfl, by simp, rfl, rfl, rfl, ⟨rfl, rfl⟩⟩

theorem all_append_isClosing {as bs : List Act} (ha : as.all Act.isClosing = true) (hb : bs.all Act.isClosing = true) :
    (as ++ bs).all Act.isClosing = true := by
  simp only [List.all_append, ha, hb, Bool.and_self]

/-- **closing terminates.** From every reachable state in which no compaction holds planned
files, there is a schedule of closer / flusher / merger steps only (at most five: `closeBegin`,
`publish`, `dropSnapshot`, `dropOoo`, `closeFiles`) after which the shard's files are closed. -/
theorem close_terminates {σ : St} (h : Reach σ) (hb : σ.busy = [])
    (hn : ∃ a b : FileId, a ≠ b ∧ (σ.files a).present = false ∧ (σ.files b).present = false) :
    ∃ acts σ', run σ acts = some σ' ∧ acts.all Act.isClosing = true ∧ acts.length ≤ 5 ∧
      σ'.filesClosed = true := by
  by_cases hfc : σ.filesClosed = true
  · exact ⟨[], σ, rfl, rfl, by simp, hfc⟩
  have hfc' : σ.filesClosed = false := by simpa using hfc
  obtain ⟨a1, σ1, r1, c1, l1, hcl1, _, _, hfi1, _, _, _, sr1⟩ := phase_closeBegin σ
  have reach1 : Reach σ1 := reach_run h a1 r1
  obtain ⟨a2, σ2, r2, c2, l2, hsn2, hcl2, _, _, sr2⟩ := phase_flush σ1 (by rw [hfi1]; exact hn)
  have reach2 : Reach σ2 := reach_run reach1 a2 r2
  obtain ⟨a3, σ3, r3, c3, l3, hmg3, hcl3, hsn3, sr3⟩ := phase_merge σ2 (reach_invM reach2)
  have hguard : σ3.closed = true ∧ σ3.filesClosed = false ∧ σ3.snapshot = none ∧ σ3.busy = [] ∧ σ3.merging = none := by
    refine ⟨by rw [hcl3, hcl2, hcl1], by rw [sr3.fc, sr2.fc, sr1.fc, hfc'], by rw [hsn3, hsn2],
      by rw [sr3.busy, sr2.busy, sr1.busy, hb], hmg3⟩
  have he : ∃ σ4, σ3.step .closeFiles = some σ4 := by
    simp only [St.step, St.closeFiles]; rw [if_pos hguard]; exact ⟨_, rfl⟩
  obtain ⟨σ4, h4⟩ := he
  have hsp := h4
  simp only [St.step] at hsp
  obtain ⟨_, _, _, _, rfl⟩ := closeFiles_spec hsp
  refine ⟨a1 ++ a2 ++ a3 ++ [.closeFiles], { σ3 with filesClosed := true }, ?_, ?_, ?_, rfl⟩
  · rw [run_append, run_append, run_append, r1]
    simp only [Option.bind_some, r2, r3]
    exact run_one h4
  · exact all_append_isClosing (all_append_isClosing (all_append_isClosing c1 c2) c3) rfl
  · simp only [List.length_append, List.length_cons, List.length_nil]; omega

/-- the closing schedule needs no step of a writer or of a query, and they cannot stop it: once the
closer began, no write is accepted (`no_write_after_close`), and `closeFiles` does not look at
the open views. -/
theorem closeFiles_ignores_views {σ : St} (vs : List View) :
    ({ σ with views := vs }.closeFiles).isSome = (σ.closeFiles).isSome := by
  simp only [St.closeFiles]
  split <;> rfl

end OG.C04

/-! ### non-vacuity -/

namespace OG.C04

/-- a state with a flush in flight (table not yet published), a merge between its two critical
sections and an open query that holds the replaced file: the hypotheses of `close_terminates`
hold (no planned files, names "x1" "x2" unused) and the five-step schedule closes the shard. -/
def exBusy : List Act :=
  [.write [⟨0, 5, [("f", "a")]⟩], .switch, .publish (some "o1") none, .dropSnapshot,
   .write [⟨0, 1, [("f", "b")]⟩], .switch, .publish none (some "u1"), .dropSnapshot,
   .takeView 7, .plan ["o1"], .mergeReplace ["u1"] ["o1"] ["o2"],
   .write [⟨0, 9, [("f", "c")]⟩, ⟨0, 2, [("f", "d")]⟩], .switch]

example : (match run St.init exBusy with
    | some σ => σ.busy.isEmpty && σ.merging.isSome && σ.snapshot.isSome && !σ.closed && σ.views.length == 1 &&
        !(σ.files "x1").present && !(σ.files "x2").present &&
        (match run σ [.closeBegin, .publish (some "x1") (some "x2"), .dropSnapshot, .dropOoo, .closeFiles] with
          | some σ' => σ'.filesClosed && σ'.views.length == 1
          | none => false)
    | none => false) = true := by decide

/-- with planned files outstanding `closeFiles` waits: the hypothesis `busy = []` is needed. -/
example : (match run St.init [.write [⟨0, 5, [("f", "a")]⟩], .switch, .publish (some "o1") none, .dropSnapshot,
      .plan ["o1"], .closeBegin] with
    | some σ => (σ.closeFiles).isNone && !σ.busy.isEmpty
    | none => false) = true := by decide

end OG.C04
