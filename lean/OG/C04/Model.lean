/-
C04 — interleaving model of the protocol between writers, the flusher, queries, compaction /
out-of-order merge and close of one ts-store shard, projected on one measurement
(engine/shard.go, engine/ts_storage.go, engine/iterators.go, engine/mutable/table.go,
engine/immutable/{mms_tables.go, ts_mms_tables.go, tssp_reader.go, compact.go,
merge_out_of_order.go, merge_tool.go}).

The atomic steps are the critical sections of the code:

* writer `write b`        — `shard.writeRows` under `snapshotLock.RLock`: rows applied to the active
                            memtable, WAL record appended, acknowledged;
* flusher `switch`        — `writeSnapshot` under `snapshotLock.Lock`: snapshot := active, fresh active;
  flusher `publish o u`   — `AddBothTSSPFiles` under the map lock and the two list locks: the ordered /
                            out-of-order file of the measurement enter the lists and the table's
                            `flushed` flag of the measurement is set;
  flusher `dropSnapshot`  — `writeSnapshot` under `snapshotLock.Lock`: the table's own reference goes;
* query `takeView c`      — `cloneReaders` under `snapshotLock.RLock` + `GetBothFilesRef` under the map
                            lock and both list locks: references on the active table, on the table
                            being flushed unless the measurement's `flushed` flag is set, on every
                            listed file;
  query `openCursors i`   — the series cursors copy the memtable rows (outside the lock);
  query `readView i`      — the cursors are drained (files are read here);
  query `release i`       — `TSIndexInfo.Unref`;
* loader `loaderRef`      — `idTimesLoader.loadFromTSSPFiles` under the list lock (shared): a reference on
                            every listed file before the reading goroutines start; reading is `readView`,
                            the deferred unref is `release`;
* compactor `plan fs`     — `acquire` under `inCompLock`;
  `replaceOrd` / `replaceOoo` — `ReplaceFiles` under the list lock: old entries out, new entries in; an
                            old file is unlinked when nobody holds it, else renamed and left to the
                            collector;
  `mergeReplace`, `dropOoo` — the two critical sections of an out-of-order merge;
  `gc f`                  — `TableStoreGC`: a renamed file is unlinked once its last reference went;
* closer `closeBegin`     — `shard.Close` under `shard.mu` + `snapshotLock.Lock`: no active table any more;
  closer `closeFiles`     — `waitSnapshot` + `MmsTables.Close`: waits for the flush in flight and for
                            compactions / merges, then closes every listed file. It does NOT wait
                            for open queries: `tsspFile.Close` drops the list's reference with
                            `Unref`, which also releases one `WaitGroup` count the list never took,
                            so `wg.Wait` returns while a query still holds the file; that query's
                            later reads fail with "tssp file closed" (`St.readable`).

Data is C02's: precedence-ordered cell lists, `lookup` = first match. Memtables and files are
kept in stores indexed by id (`Nat → Table`, `String → File`); a view holds ids, not contents.
`hist`, `View.base`, `View.seen` and `File.srcs` are ghost fields used by the theorems only.
Core-only, executable.
-/
import OG.C02.Model

namespace OG.C04
open OG.C02 (Cell Key lookup Row batchCells isOrdered updLastFlush lastFlushOf readCells)

abbrev FileId := String

/-- a memtable (the rows of the modelled measurement in it). -/
structure Table where
  cells : List Cell := []
  refs : Nat := 0            -- `MemTable.ref`
  flushed : Bool := false    -- `MsInfo.flushed` of the measurement in this table
  recycled : Bool := false   -- released to the pool (`MemTable.release`: Reset)

/-- a data file. -/
structure File where
  present : Bool := false    -- the name has been used
  cells : List Cell := []
  srcs : List Nat := []      -- ghost: ids of the memtables whose rows it holds
  refs : Nat := 0            -- references held by views (the list's own reference not counted)
  pending : Bool := false    -- renamed away while in use, waits for the collector
  unlinked : Bool := false

/-- an open query. -/
structure View where
  client : Nat
  act : Option Nat           -- table that was active at `takeView`
  snap : Option Nat          -- table that was being flushed, unless the measurement was published
  ooo : List FileId
  ord : List FileId
  mem : Option (List Cell)   -- memtable rows, once the cursors copied them
  ok : Bool                  -- ghost: taken before `closeBegin`
  base : List Cell           -- ghost: rows acknowledged when the view was taken
  seen : List Cell           -- ghost: rows acknowledged up to the point the view reflects
  loader : Bool := false     -- not a query: the sequencer's id-time loader holding the files it reads

structure St where
  hist : List Cell           -- ghost: every acknowledged row, newest first
  tables : Nat → Table
  nextTab : Nat
  active : Option Nat
  snapshot : Option Nat
  files : FileId → File
  ooo : List FileId          -- out-of-order list, newest first
  ord : List FileId          -- ordered list, oldest first
  lastFlush : List (Nat × Int)
  busy : List FileId         -- files acquired by a compaction / merge
  merging : Option (List FileId)  -- out-of-order files merged into ordered ones, not yet delisted
  views : List View
  closed : Bool
  filesClosed : Bool

def upd {α β : Type} [DecidableEq α] (f : α → β) (k : α) (v : β) : α → β :=
  fun x => if x = k then v else f x

def St.init : St :=
  { hist := [], tables := upd (fun _ => {}) 0 { refs := 1 }, nextTab := 1, active := some 0,
    snapshot := none, files := fun _ => {}, ooo := [], ord := [], lastFlush := [], busy := [],
    merging := none, views := [], closed := false, filesClosed := false }

/-! ### contents -/

def St.tabCells (σ : St) : Option Nat → List Cell
  | none => []
  | some t => (σ.tables t).cells

def fileCells (F : FileId → File) (fs : List FileId) : List Cell := fs.flatMap fun f => (F f).cells

/-- the table being flushed as a query must still see it: nothing once the measurement is published. -/
def St.snapView (σ : St) : Option Nat :=
  match σ.snapshot with
  | some t => if (σ.tables t).flushed then none else some t
  | none => none

/-- what a query taking its view now consults, in precedence order. -/
def St.layout (σ : St) : List Cell :=
  σ.tabCells σ.active ++ σ.tabCells σ.snapView ++ fileCells σ.files σ.ooo ++ fileCells σ.files σ.ord

def St.memCells (σ : St) (v : View) : List Cell :=
  match v.mem with
  | some m => m
  | none => σ.tabCells v.act ++ σ.tabCells v.snap

/-- what the view reads, in precedence order. -/
def St.viewCells (σ : St) (v : View) : List Cell :=
  σ.memCells v ++ fileCells σ.files v.ooo ++ fileCells σ.files v.ord

/-! ### reference counting -/

def refT (T : Nat → Table) : Option Nat → Nat → Table
  | none => T
  | some t => upd T t { T t with refs := (T t).refs + 1 }

/-- `MemTable.UnRef`: the table goes back to the pool (and is reset) when the count reaches 0. -/
def Table.unref (x : Table) : Table :=
  if x.refs - 1 = 0 then { x with refs := 0, recycled := true, cells := [] }
  else { x with refs := x.refs - 1 }

def unrefT (T : Nat → Table) : Option Nat → Nat → Table
  | none => T
  | some t => upd T t (T t).unref

def refFiles (F : FileId → File) : List FileId → FileId → File
  | [] => F
  | f :: fs => refFiles (upd F f { F f with refs := (F f).refs + 1 }) fs

def unrefFiles (F : FileId → File) : List FileId → FileId → File
  | [] => F
  | f :: fs => unrefFiles (upd F f { F f with refs := (F f).refs - 1 }) fs

/-- `deleteFiles` / `removeFile`: unlink when nobody holds the file, else rename and queue. -/
def File.retire (x : File) : File :=
  if x.refs = 0 then { x with unlinked := true } else { x with pending := true }

def retireFiles (F : FileId → File) : List FileId → FileId → File
  | [] => F
  | f :: fs => retireFiles (upd F f (F f).retire) fs

/-! ### steps -/

def St.write (σ : St) (b : List Row) : Option St :=
  match σ.active with
  | none => none
  | some a =>
    if σ.closed then none
    else
      let cs := batchCells b
      some { σ with
        hist := cs ++ σ.hist
        tables := upd σ.tables a { σ.tables a with cells := cs ++ (σ.tables a).cells }
        views := σ.views.map fun v =>
          if v.act = some a ∧ v.mem = none then { v with seen := cs ++ v.seen } else v }

def St.switch (σ : St) : Option St :=
  match σ.active, σ.snapshot with
  | some a, none =>
    some { σ with
      snapshot := some a
      active := some σ.nextTab
      tables := upd σ.tables σ.nextTab { refs := 1 }
      nextTab := σ.nextTab + 1 }
  | _, _ => none

def newFile (cells : List Cell) (srcs : List Nat) : File :=
  { present := true, cells := cells, srcs := srcs }

def addOpt (F : FileId → File) (n : Option FileId) (x : File) : FileId → File :=
  match n with
  | none => F
  | some f => upd F f x

def freshOpt (F : FileId → File) : Option FileId → Bool
  | none => true
  | some f => !(F f).present

/-- `FlushChunks` + `AddBothTSSPFiles` for the measurement: rows newer than the series' last
flushed time go to the ordered file, the others to the out-of-order file; a file exists only
if it has rows. -/
def St.publish (σ : St) (ordN oooN : Option FileId) : Option St :=
  match σ.snapshot with
  | none => none
  | some t =>
    let x := σ.tables t
    let ordC := x.cells.filter (isOrdered σ.lastFlush)
    let o3C := x.cells.filter (fun c => !isOrdered σ.lastFlush c)
    if x.flushed = false ∧ x.cells ≠ [] ∧ ordN.isSome = !ordC.isEmpty ∧ oooN.isSome = !o3C.isEmpty
        ∧ freshOpt σ.files ordN ∧ freshOpt σ.files oooN ∧ (ordN = none ∨ ordN ≠ oooN) then
      some { σ with
        files := addOpt (addOpt σ.files ordN (newFile ordC [t])) oooN (newFile o3C [t])
        ooo := oooN.toList ++ σ.ooo
        ord := σ.ord ++ ordN.toList
        lastFlush := ordC.foldl updLastFlush σ.lastFlush
        tables := upd σ.tables t { x with flushed := true } }
    else none

def St.dropSnapshot (σ : St) : Option St :=
  match σ.snapshot with
  | none => none
  | some t =>
    if (σ.tables t).flushed = true ∨ (σ.tables t).cells = [] then
      some { σ with snapshot := none, tables := unrefT σ.tables (some t) }
    else none

def St.takeView (σ : St) (client : Nat) : Option St :=
  if σ.filesClosed then none
  else
    let v : View := { client := client, act := σ.active, snap := σ.snapView, ooo := σ.ooo,
                      ord := σ.ord, mem := none, ok := !σ.closed, base := σ.hist, seen := σ.hist }
    some { σ with
      views := σ.views ++ [v]
      tables := refT (refT σ.tables σ.active) σ.snapView
      files := refFiles σ.files (σ.ooo ++ σ.ord) }

/-- what the sequencer's id-time loader holds (`idTimesLoader.loadFromTSSPFiles`, after fix
8af6340): every listed file, referenced under the list lock like a cursor references it. It holds
no memtable and makes no claim about rows (`ok := false`); it is a holder in the sense of the
reference-count theorems, which speak about every entry of `views`. Reading (`loadFromTSSPFile`)
is `readView`, the deferred `UnrefFileReader` / `Unref` is `release`. -/
def St.loaderView (σ : St) : View :=
  { client := 0, act := none, snap := none, ooo := σ.ooo, ord := σ.ord, mem := some [], ok := false,
    base := σ.hist, seen := σ.hist, loader := true }

def St.loaderRef (σ : St) : Option St :=
  if σ.filesClosed then none
  else some { σ with
    views := σ.views ++ [σ.loaderView]
    files := refFiles σ.files (σ.ooo ++ σ.ord) }

def St.openCursors (σ : St) (i : Nat) : Option St :=
  match σ.views[i]? with
  | none => none
  | some v =>
    if v.mem.isSome then none
    else some { σ with views := σ.views.set i { v with mem := some (σ.tabCells v.act ++ σ.tabCells v.snap) } }

def St.release (σ : St) (i : Nat) : Option St :=
  match σ.views[i]? with
  | none => none
  | some v =>
    some { σ with
      views := σ.views.eraseIdx i
      tables := unrefT (unrefT σ.tables v.act) v.snap
      files := unrefFiles σ.files (v.ooo ++ v.ord) }

def St.plan (σ : St) (fs : List FileId) : Option St :=
  if fs ≠ [] ∧ σ.closed = false ∧ (∀ f ∈ fs, (f ∈ σ.ooo ∨ f ∈ σ.ord) ∧ f ∉ σ.busy) then
    some { σ with busy := fs ++ σ.busy }
  else none

/-- first occurrence of `old` as a contiguous block of `l`: what is before and after it. -/
def findSub (old : List FileId) : List FileId → Option (List FileId × List FileId)
  | [] => if old = [] then some ([], []) else none
  | x :: xs =>
    if old.isPrefixOf (x :: xs) then some ([], (x :: xs).drop old.length)
    else match findSub old xs with
      | some (p, q) => some (x :: p, q)
      | none => none

def srcsOf (F : FileId → File) (fs : List FileId) : List Nat := fs.flatMap fun f => (F f).srcs

def addEmpty (F : FileId → File) (srcs : List Nat) : List FileId → FileId → File
  | [] => F
  | n :: ns => addEmpty (upd F n (newFile [] srcs)) srcs ns

/-- the new files of a rewrite: the last (newest) one holds the rows, the others are empty.
How rows are spread over several output files does not change what any key reads; giving
them to the newest file keeps every older file's rows a subset of what that file really
holds, which is what the time guard of `mergeReplace` looks at. -/
def addNew (F : FileId → File) (cells : List Cell) (srcs : List Nat) (ns : List FileId) : FileId → File :=
  match ns.getLast? with
  | none => F
  | some n => upd (addEmpty F srcs ns.dropLast) n (newFile cells srcs)

def allFresh (F : FileId → File) (ns : List FileId) : Bool := ns.all fun n => !(F n).present

def newOK (σ : St) (old new : List FileId) : Prop :=
  old ≠ [] ∧ new ≠ [] ∧ new.Nodup ∧ allFresh σ.files new = true ∧ (∀ f ∈ old, f ∈ σ.busy)

instance (σ : St) (old new : List FileId) : Decidable (newOK σ old new) := by
  unfold newOK; infer_instance

/-- `ReplaceFiles` on the ordered list (level / full compaction): a contiguous block of
entries is replaced, in place, by the rewritten files. -/
def St.replaceOrd (σ : St) (old new : List FileId) : Option St :=
  match findSub old σ.ord with
  | none => none
  | some (pre, post) =>
    if newOK σ old new then
      some { σ with
        ord := pre ++ new ++ post
        files := retireFiles (addNew σ.files (fileCells σ.files old) (srcsOf σ.files old) new) old
        busy := σ.busy.filter (fun f => f ∉ old) }
    else none

/-- `ReplaceFiles` on the out-of-order list (`mergeSelf`). -/
def St.replaceOoo (σ : St) (old new : List FileId) : Option St :=
  match findSub old σ.ooo with
  | none => none
  | some (pre, post) =>
    if newOK σ old new ∧ σ.merging = none then
      some { σ with
        ooo := pre ++ new ++ post
        files := retireFiles (addNew σ.files (fileCells σ.files old) (srcsOf σ.files old) new) old
        busy := σ.busy.filter (fun f => f ∉ old) }
    else none

/-- every row of `a` is strictly older than every row of `b` (`matchOrderFiles` leaves out
only ordered files that end before the time range of the out-of-order files begins). -/
def allBefore (a b : List Cell) : Bool := a.all fun c => b.all fun d => decide (c.t < d.t)

/-- first critical section of an out-of-order merge (`replaceMergedFiles`): the oldest
out-of-order files `grp` were merged into the ordered files `old`; the rewritten ordered files
take their place. The out-of-order files stay listed until `dropOoo`. -/
def St.mergeReplace (σ : St) (grp old new : List FileId) : Option St :=
  match findSub old σ.ord with
  | none => none
  | some (pre, post) =>
    if newOK σ old new ∧ σ.merging = none ∧ grp ≠ [] ∧
        σ.ooo.take (σ.ooo.length - grp.length) ++ grp = σ.ooo ∧
        allBefore (fileCells σ.files pre) (fileCells σ.files grp) = true then
      some { σ with
        ord := pre ++ new ++ post
        files := retireFiles (addNew σ.files (fileCells σ.files grp ++ fileCells σ.files old)
                    (srcsOf σ.files grp ++ srcsOf σ.files old) new) old
        busy := σ.busy.filter (fun f => f ∉ old)
        merging := some grp }
    else none

/-- second critical section of the merge (`deleteUnorderedFiles`). -/
def St.dropOoo (σ : St) : Option St :=
  match σ.merging with
  | none => none
  | some grp =>
    if σ.ooo.take (σ.ooo.length - grp.length) ++ grp = σ.ooo then
      some { σ with
        ooo := σ.ooo.take (σ.ooo.length - grp.length)
        files := retireFiles σ.files grp
        merging := none }
    else none

def St.gc (σ : St) (f : FileId) : Option St :=
  if (σ.files f).pending = true ∧ (σ.files f).refs = 0 then
    some { σ with files := upd σ.files f { σ.files f with pending := false, unlinked := true } }
  else none

def St.closeBegin (σ : St) : Option St :=
  if σ.closed then none else some { σ with closed := true, active := none }

def St.closeFiles (σ : St) : Option St :=
  if σ.closed = true ∧ σ.filesClosed = false ∧ σ.snapshot = none ∧ σ.busy = [] ∧ σ.merging = none then
    some { σ with filesClosed := true }
  else none

inductive Act where
  | write (b : List Row)
  | switch
  | publish (ordN oooN : Option FileId)
  | dropSnapshot
  | takeView (client : Nat)
  | openCursors (i : Nat)
  | readView (i : Nat)
  | release (i : Nat)
  | loaderRef
  | plan (fs : List FileId)
  | replaceOrd (old new : List FileId)
  | replaceOoo (old new : List FileId)
  | mergeReplace (grp old new : List FileId)
  | dropOoo
  | gc (f : FileId)
  | closeBegin
  | closeFiles

def St.step (σ : St) : Act → Option St
  | .write b => σ.write b
  | .switch => σ.switch
  | .publish o u => σ.publish o u
  | .dropSnapshot => σ.dropSnapshot
  | .takeView c => σ.takeView c
  | .openCursors i => σ.openCursors i
  | .readView i => if i < σ.views.length then some σ else none
  | .release i => σ.release i
  | .loaderRef => σ.loaderRef
  | .plan fs => σ.plan fs
  | .replaceOrd old new => σ.replaceOrd old new
  | .replaceOoo old new => σ.replaceOoo old new
  | .mergeReplace grp old new => σ.mergeReplace grp old new
  | .dropOoo => σ.dropOoo
  | .gc f => σ.gc f
  | .closeBegin => σ.closeBegin
  | .closeFiles => σ.closeFiles

/-- states reachable by any interleaving of any number of writers, flushes, queries,
compactions, merges and a close. -/
inductive Reach : St → Prop where
  | init : Reach St.init
  | step {σ σ' : St} (a : Act) : Reach σ → σ.step a = some σ' → Reach σ'

/-- a view can be read unless the shard's files were closed under it (a view that holds only
memtable rows, copied when its cursors were opened, is not affected). -/
def St.readable (σ : St) (v : View) : Bool := !σ.filesClosed || (v.ooo ++ v.ord).isEmpty

/-- the rows a view returns (C02's read over the cells it consults). -/
def St.readView (σ : St) (v : View) (lo hi : Int) (asc : Bool) (fields : List String) :
    List (Nat × Int × List (Option String)) :=
  readCells (σ.viewCells v) lo hi asc fields

end OG.C04
