/-
C04 — layout invariant `InvL`: what a query taking its view now would consult reads, key by
key, like the acknowledged history (as long as the shard is open); file rows sit at or below
their series' last flushed time; while an out-of-order merge is between its two critical
sections the rows of the merged out-of-order files are already readable from the ordered list.
-/
import OG.C04.Refs
import OG.C02.Refine

namespace OG.C04
open OG.C02 (Cell Key lookup Row batchCells isOrdered updLastFlush lastFlushOf Equiv lookup_append
  lookup_none_of_no_key)

def Below (lf : List (Nat × Int)) (c : Cell) : Prop :=
  ∃ m, lastFlushOf lf c.s = some m ∧ c.t ≤ m

structure InvL (σ : St) : Prop where
  layout : σ.closed = false → Equiv σ.layout σ.hist
  below : ∀ c ∈ fileCells σ.files (σ.ooo ++ σ.ord), Below σ.lastFlush c
  merge : ∀ grp, σ.merging = some grp → (∀ f ∈ grp, f ∈ σ.ooo) ∧
    ∀ k x, lookup k (fileCells σ.files grp) = some x → lookup k (fileCells σ.files σ.ord) = some x

theorem invL_init : InvL St.init := by
  refine ⟨?_, ?_, ?_⟩
  · intro _ k; simp [St.init, St.layout, St.tabCells, St.snapView, fileCells, upd]
  · intro c hc; simp [St.init, fileCells] at hc
  · intro grp h; simp [St.init] at h

/-! ### the flush split (C02's `flush_equiv` / `flush_inv`, re-used) -/

def asC02 (S O R : List Cell) (lf : List (Nat × Int)) : OG.C02.St :=
  { fixed := true, nParts := 1, ctr := 0, wal := [], active := S, ooo := [O], ordered := [R],
    lastFlush := lf }

theorem ordered_disjoint_below (lf : List (Nat × Int)) (c d : Cell) (hc : isOrdered lf c = true)
    (hd : Below lf d) : c.key ≠ d.key := by
  intro e
  have h1 := OG.C02.isOrdered_key lf c d e
  have h2 := OG.C02.not_ordered_of_below lf d hd
  rw [h1, h2] at hc; cases hc

theorem flat2 (l O : List Cell) : (if l = [] then [O] else [l, O]).flatten = l ++ O := by
  split <;> simp_all

theorem publish_equiv (S O R : List Cell) (lf : List (Nat × Int)) (hS : S ≠ [])
    (hb : ∀ c ∈ O ++ R, Below lf c) :
    Equiv (S.filter (fun c => !isOrdered lf c) ++ O ++ (R ++ S.filter (isOrdered lf))) (S ++ O ++ R) := by
  have hfb : OG.C02.FilesBelow (asC02 S O R lf) := by
    intro c hc
    apply hb
    simpa [asC02] using hc
  have h := OG.C02.flush_equiv (asC02 S O R lf) hfb
  have e1 : (asC02 S O R lf).flush.cells
      = S.filter (fun c => !isOrdered lf c) ++ O ++ (S.filter (isOrdered lf) ++ R) := by
    simp only [OG.C02.St.flush, asC02, hS, if_false, OG.C02.St.cells, List.nil_append]
    by_cases h1 : S.filter (fun c => !isOrdered lf c) = [] <;>
      by_cases h2 : S.filter (isOrdered lf) = [] <;> simp [h1, h2]
  have e2 : (asC02 S O R lf).cells = S ++ O ++ R := by
    simp [asC02, OG.C02.St.cells]
  rw [e1, e2] at h
  have hcomm : Equiv (R ++ S.filter (isOrdered lf)) (S.filter (isOrdered lf) ++ R) := by
    apply equiv_comm_of_disjoint
    intro c hc d hd e
    have hd' := (List.mem_filter.1 hd).2
    exact ordered_disjoint_below lf d c hd' (hb c (by simp [hc])) e.symm
  exact (Equiv.append_left _ hcomm).trans h

theorem publish_below (S O R : List Cell) (lf : List (Nat × Int)) (hS : S ≠ [])
    (hb : ∀ c ∈ O ++ R, Below lf c) :
    ∀ c ∈ S.filter (fun c => !isOrdered lf c) ++ O ++ (R ++ S.filter (isOrdered lf)),
      Below ((S.filter (isOrdered lf)).foldl updLastFlush lf) c := by
  have hfb : OG.C02.FilesBelow (asC02 S O R lf) := by
    intro c hc
    apply hb
    simpa [asC02] using hc
  have h := (OG.C02.flush_inv (asC02 S O R lf) hfb (by simp [asC02])).files
  intro c hc
  have eo : (asC02 S O R lf).flush.ooo.flatten = S.filter (fun c => !isOrdered lf c) ++ O := by
    simp only [OG.C02.St.flush, asC02, hS, if_false]
    by_cases h1 : S.filter (fun c => !isOrdered lf c) = [] <;> simp [h1]
  have er : (asC02 S O R lf).flush.ordered.flatten = S.filter (isOrdered lf) ++ R := by
    simp only [OG.C02.St.flush, asC02, hS, if_false]
    by_cases h2 : S.filter (isOrdered lf) = [] <;> simp [h2]
  have : c ∈ (asC02 S O R lf).flush.ooo.flatten ++ (asC02 S O R lf).flush.ordered.flatten := by
    rw [eo, er]
    simp only [List.mem_append] at hc ⊢
    rcases hc with (hc | hc) | (hc | hc)
    · exact Or.inl (Or.inl hc)
    · exact Or.inl (Or.inr hc)
    · exact Or.inr (Or.inr hc)
    · exact Or.inr (Or.inl hc)
  have h2 := h c this
  have e : (asC02 S O R lf).flush.lastFlush = (S.filter (isOrdered lf)).foldl updLastFlush lf := by
    simp only [OG.C02.St.flush, asC02, hS, if_false]
  rw [e] at h2
  exact h2

/-! ### lookups through duplicated blocks -/

theorem equiv_dup (X G Y Z : List Cell) : Equiv (X ++ G ++ (Y ++ (G ++ Z))) (X ++ G ++ (Y ++ Z)) := by
  intro k
  simp only [lookup_append]
  cases lookup k X <;> cases hg : lookup k G <;> cases lookup k Y <;> simp

theorem equiv_drop (X G R : List Cell)
    (h : ∀ k x, lookup k G = some x → lookup k R = some x) : Equiv (X ++ R) (X ++ G ++ R) := by
  intro k
  simp only [lookup_append]
  cases lookup k X with
  | some _ => rfl
  | none =>
    cases hg : lookup k G with
    | none => rfl
    | some x => simp [h k x hg]


/-! ### preservation -/

theorem below_mono (lf : List (Nat × Int)) (cs : List Cell) (c : Cell) (h : Below lf c) :
    Below (cs.foldl updLastFlush lf) c := by
  obtain ⟨m, hm, hle⟩ := h
  obtain ⟨m', hm', hle'⟩ := (OG.C02.lastFlushOf_foldl cs lf c.s).1 m hm
  exact ⟨m', hm', by omega⟩

theorem tabCells_congr (σ σ' : St) (o : Option Nat)
    (h : ∀ t, o = some t → (σ'.tables t).cells = (σ.tables t).cells) : σ'.tabCells o = σ.tabCells o := by
  cases o with
  | none => rfl
  | some t => exact h t rfl

theorem snapView_congr (σ σ' : St) (hs : σ'.snapshot = σ.snapshot)
    (h : ∀ t, σ.snapshot = some t → (σ'.tables t).flushed = (σ.tables t).flushed) :
    σ'.snapView = σ.snapView := by
  unfold St.snapView
  rw [hs]
  cases hsn : σ.snapshot with
  | none => rfl
  | some t => simp only [h t hsn]

theorem snapView_eq_snapshot_or_none (σ : St) : σ.snapView = none ∨ σ.snapView = σ.snapshot := by
  unfold St.snapView
  cases σ.snapshot with
  | none => exact Or.inl rfl
  | some t => by_cases h : (σ.tables t).flushed = true <;> simp [h]

theorem layout_def (σ : St) : σ.layout =
    σ.tabCells σ.active ++ σ.tabCells σ.snapView ++ fileCells σ.files σ.ooo ++ fileCells σ.files σ.ord := rfl

theorem write_invL {σ σ' : St} {b : List Row} (hr : InvR σ) (hl : InvL σ)
    (h : σ.write b = some σ') : InvL σ' := by
  obtain ⟨a, ha, hc, hσ⟩ := write_spec h
  have ht : σ'.tables = upd σ.tables a { σ.tables a with cells := batchCells b ++ (σ.tables a).cells } := by
    rw [hσ]
  have hs : σ'.snapshot = σ.snapshot := by rw [hσ]
  have hact : σ'.active = some a := by rw [hσ]; exact ha
  have hf : σ'.files = σ.files ∧ σ'.ooo = σ.ooo ∧ σ'.ord = σ.ord ∧ σ'.lastFlush = σ.lastFlush ∧
      σ'.merging = σ.merging ∧ σ'.hist = batchCells b ++ σ.hist := by rw [hσ]; simp
  obtain ⟨hf1, hf2, hf3, hf4, hf5, hf6⟩ := hf
  refine ⟨?_, by rw [hf1, hf2, hf3, hf4]; exact hl.below, by rw [hf1, hf2, hf3, hf5]; exact hl.merge⟩
  intro _
  have hne : ∀ t, σ.snapshot = some t → t ≠ a := fun t ht e => hr.actNeSnap a ha (e ▸ ht)
  have h1 : σ'.tabCells (some a) = batchCells b ++ σ.tabCells (some a) := by simp [St.tabCells, ht]
  have h2 : σ'.snapView = σ.snapView := by
    apply snapView_congr _ _ hs
    intro t hts; rw [ht, upd_other _ _ _ _ (hne t hts)]
  have h3 : σ'.tabCells σ.snapView = σ.tabCells σ.snapView := by
    apply tabCells_congr
    intro t hts
    have : σ.snapshot = some t := by
      rcases snapView_eq_snapshot_or_none σ with h0 | h0
      · rw [h0] at hts; cases hts
      · rw [← h0]; exact hts
    rw [ht, upd_other _ _ _ _ (hne t this)]
  rw [layout_def, hact, h1, h2, h3, hf1, hf2, hf3, hf6]
  have := hl.layout hc
  rw [layout_def, ha] at this
  simp only [List.append_assoc] at this ⊢
  exact Equiv.append_left _ this

theorem switch_invL {σ σ' : St} (hr : InvR σ) (hl : InvL σ) (h : σ.switch = some σ') : InvL σ' := by
  obtain ⟨a, ha, hs, hσ⟩ := switch_spec h
  have ht : σ'.tables = upd σ.tables σ.nextTab { refs := 1 } := by rw [hσ]
  have hsn : σ'.snapshot = some a := by rw [hσ]
  have hact : σ'.active = some σ.nextTab := by rw [hσ]
  have hf : σ'.files = σ.files ∧ σ'.ooo = σ.ooo ∧ σ'.ord = σ.ord ∧ σ'.lastFlush = σ.lastFlush ∧
      σ'.merging = σ.merging ∧ σ'.hist = σ.hist ∧ σ'.closed = σ.closed := by rw [hσ]; simp
  obtain ⟨hf1, hf2, hf3, hf4, hf5, hf6, hf7⟩ := hf
  refine ⟨?_, by rw [hf1, hf2, hf3, hf4]; exact hl.below, by rw [hf1, hf2, hf3, hf5]; exact hl.merge⟩
  intro hc
  rw [hf7] at hc
  have hlt := hr.actLt a ha
  have hane : a ≠ σ.nextTab := by omega
  have hfl := hr.actFresh a ha
  have hold := hl.layout hc
  rw [layout_def, ha] at hold
  have hsv : σ.snapView = none := by simp [St.snapView, hs]
  rw [hsv] at hold
  have h1 : σ'.tabCells (some σ.nextTab) = [] := by simp [St.tabCells, ht]
  have h2 : σ'.snapView = some a := by simp [St.snapView, hsn, ht, upd_other _ _ _ _ hane, hfl]
  have h3 : σ'.tabCells (some a) = σ.tabCells (some a) := by simp [St.tabCells, ht, upd_other _ _ _ _ hane]
  rw [layout_def, hact, h1, h2, h3, hf1, hf2, hf3, hf6]
  simpa [St.tabCells] using hold

theorem addOpt2_cells_old (F : FileId → File) (o u : Option FileId) (x y : File) (fs : List FileId)
    (hp : ∀ f ∈ fs, (F f).present = true) (ho : freshOpt F o = true) (hu : freshOpt F u = true) :
    fileCells (addOpt (addOpt F o x) u y) fs = fileCells F fs := by
  apply fileCells_congr
  intro f hf
  rw [addOpt2_old _ _ _ _ _ _ (hp f hf) ho hu]

theorem publish_invL {σ σ' : St} {ordN oooN : Option FileId} (hr : InvR σ) (hl : InvL σ)
    (h : σ.publish ordN oooN = some σ') : InvL σ' := by
  obtain ⟨t, ht, hfl, hne, hoN, huN, ho, hu, hdist, hσ⟩ := publish_spec h
  generalize hS : (σ.tables t).cells = S at *
  have htb : σ'.tables = upd σ.tables t { σ.tables t with flushed := true } := by rw [hσ]
  have hfiles : σ'.files = addOpt (addOpt σ.files ordN (newFile (S.filter (isOrdered σ.lastFlush)) [t]))
        oooN (newFile (S.filter (fun c => !isOrdered σ.lastFlush c)) [t]) := by rw [hσ]
  have hf : σ'.snapshot = σ.snapshot ∧ σ'.active = σ.active ∧ σ'.ooo = oooN.toList ++ σ.ooo ∧
      σ'.ord = σ.ord ++ ordN.toList ∧
      σ'.lastFlush = (S.filter (isOrdered σ.lastFlush)).foldl updLastFlush σ.lastFlush ∧
      σ'.merging = σ.merging ∧ σ'.hist = σ.hist ∧ σ'.closed = σ.closed := by rw [hσ]; simp
  obtain ⟨hf1, hf2, hf3, hf4, hf5, hf6, hf7, hf8⟩ := hf
  have hpo : ∀ f ∈ σ.ooo, (σ.files f).present = true := fun f hf => (hr.listedOK f (by simp [hf])).1
  have hpr : ∀ f ∈ σ.ord, (σ.files f).present = true := fun f hf => (hr.listedOK f (by simp [hf])).1
  have hb : ∀ c ∈ fileCells σ.files σ.ooo ++ fileCells σ.files σ.ord, Below σ.lastFlush c := by
    intro c hc; apply hl.below; rw [fileCells_append]; exact hc
  have eo : fileCells σ'.files σ'.ooo
      = S.filter (fun c => !isOrdered σ.lastFlush c) ++ fileCells σ.files σ.ooo := by
    rw [hfiles, hf3, fileCells_append, addOpt2_cells_old _ _ _ _ _ _ hpo ho hu]
    congr 1
    cases oooN with
    | none =>
      simp only [Option.isSome_none] at huN
      have : S.filter (fun c => !isOrdered σ.lastFlush c) = [] := by
        simpa using huN.symm
      simp [fileCells, this]
    | some n => simp [fileCells, addOpt, newFile]
  have er : fileCells σ'.files σ'.ord
      = fileCells σ.files σ.ord ++ S.filter (isOrdered σ.lastFlush) := by
    rw [hfiles, hf4, fileCells_append, addOpt2_cells_old _ _ _ _ _ _ hpr ho hu]
    congr 1
    cases ordN with
    | none =>
      simp only [Option.isSome_none] at hoN
      have : S.filter (isOrdered σ.lastFlush) = [] := by simpa using hoN.symm
      simp [fileCells, this]
    | some n =>
      have hnu : oooN ≠ some n := by
        rcases hdist with hd | hd
        · cases hd
        · exact fun e => hd e.symm
      cases oooN with
      | none => simp [fileCells, addOpt, newFile]
      | some m =>
        have : n ≠ m := fun e => hnu (by rw [e])
        simp [fileCells, addOpt, newFile, upd, this]
  have hat : ∀ a, σ.active = some a → a ≠ t := fun a ha e => hr.actNeSnap a ha (e ▸ ht)
  refine ⟨?_, ?_, ?_⟩
  · intro hc
    rw [hf8] at hc
    have hold := hl.layout hc
    have hsv : σ.snapView = some t := by simp [St.snapView, ht, hfl]
    rw [layout_def, hsv] at hold
    have hst : σ.tabCells (some t) = S := hS
    rw [hst] at hold
    have h1 : σ'.tabCells σ.active = σ.tabCells σ.active := by
      apply tabCells_congr
      intro a ha; rw [htb, upd_other _ _ _ _ (hat a ha)]
    have h2 : σ'.snapView = none := by simp [St.snapView, hf1, ht, htb]
    rw [layout_def, eo, er, hf2, h1, h2, hf7]
    have hp := publish_equiv S (fileCells σ.files σ.ooo) (fileCells σ.files σ.ord) σ.lastFlush hne hb
    have := (Equiv.append_left (σ.tabCells σ.active) hp).trans (by simpa [List.append_assoc] using hold)
    simpa [St.tabCells, List.append_assoc] using this
  · intro c hc
    rw [fileCells_append, eo, er] at hc
    rw [hf5]
    exact publish_below S _ _ σ.lastFlush hne hb c hc
  · intro grp hg
    rw [hf6] at hg
    obtain ⟨h1, h2⟩ := hl.merge grp hg
    refine ⟨fun f hf => by rw [hf3]; simp [h1 f hf], ?_⟩
    intro k x hk
    have hgp : ∀ f ∈ grp, (σ.files f).present = true := fun f hf => hpo f (h1 f hf)
    rw [hfiles, addOpt2_cells_old _ _ _ _ _ _ hgp ho hu] at hk
    rw [er, lookup_append, h2 k x hk]


/-- steps that leave the layout alone (reference counting, ghost views, planning, collection). -/
theorem frame_invL {σ σ' : St} (hl : InvL σ) (hhist : σ'.hist = σ.hist) (hclosed : σ'.closed = σ.closed)
    (hlf : σ'.lastFlush = σ.lastFlush) (hm : σ'.merging = σ.merging) (hooo : σ'.ooo = σ.ooo)
    (hord : σ'.ord = σ.ord) (hact : σ'.active = σ.active) (hsnap : σ'.snapshot = σ.snapshot)
    (htab : ∀ t, (σ.active = some t ∨ σ.snapshot = some t) →
      (σ'.tables t).cells = (σ.tables t).cells ∧ (σ'.tables t).flushed = (σ.tables t).flushed)
    (hfiles : ∀ f ∈ σ.ooo ++ σ.ord, (σ'.files f).cells = (σ.files f).cells) : InvL σ' := by
  have hfo : fileCells σ'.files σ.ooo = fileCells σ.files σ.ooo :=
    fileCells_congr _ _ _ (fun f hf => hfiles f (by simp [hf]))
  have hfr : fileCells σ'.files σ.ord = fileCells σ.files σ.ord :=
    fileCells_congr _ _ _ (fun f hf => hfiles f (by simp [hf]))
  refine ⟨?_, ?_, ?_⟩
  · intro hc
    rw [hclosed] at hc
    have h1 : σ'.tabCells σ.active = σ.tabCells σ.active :=
      tabCells_congr _ _ _ (fun t ht => (htab t (Or.inl ht)).1)
    have h2 : σ'.snapView = σ.snapView :=
      snapView_congr _ _ hsnap (fun t ht => (htab t (Or.inr ht)).2)
    have h3 : σ'.tabCells σ.snapView = σ.tabCells σ.snapView := by
      apply tabCells_congr
      intro t hts
      rcases snapView_eq_snapshot_or_none σ with h0 | h0
      · rw [h0] at hts; cases hts
      · exact (htab t (Or.inr (by rw [← h0]; exact hts))).1
    rw [layout_def, hact, h1, h2, h3, hooo, hord, hfo, hfr, hhist]
    exact hl.layout hc
  · rw [hooo, hord, hlf, fileCells_append, hfo, hfr, ← fileCells_append]; exact hl.below
  · intro grp hg
    rw [hm] at hg
    obtain ⟨h1, h2⟩ := hl.merge grp hg
    refine ⟨by rw [hooo]; exact h1, ?_⟩
    have hfg : fileCells σ'.files grp = fileCells σ.files grp :=
      fileCells_congr _ _ _ (fun f hf => hfiles f (by simp [h1 f hf]))
    rw [hfg, hord, hfr]; exact h2

theorem dropSnapshot_invL {σ σ' : St} (hr : InvR σ) (hl : InvL σ) (h : σ.dropSnapshot = some σ') :
    InvL σ' := by
  obtain ⟨t, ht, hcond, hσ⟩ := dropSnapshot_spec h
  have htb : σ'.tables = unrefT σ.tables (some t) := by rw [hσ]
  have hf : σ'.snapshot = none ∧ σ'.active = σ.active ∧ σ'.ooo = σ.ooo ∧ σ'.ord = σ.ord ∧
      σ'.lastFlush = σ.lastFlush ∧ σ'.merging = σ.merging ∧ σ'.hist = σ.hist ∧ σ'.closed = σ.closed ∧
      σ'.files = σ.files := by rw [hσ]; simp
  obtain ⟨hf1, hf2, hf3, hf4, hf5, hf6, hf7, hf8, hf9⟩ := hf
  refine ⟨?_, by rw [hf9, hf3, hf4, hf5]; exact hl.below, by rw [hf9, hf3, hf4, hf6]; exact hl.merge⟩
  intro hc
  rw [hf8] at hc
  have hold := hl.layout hc
  have hsv : σ.tabCells σ.snapView = [] := by
    unfold St.snapView
    rw [ht]
    rcases hcond with h1 | h1
    · simp [h1, St.tabCells]
    · by_cases h2 : (σ.tables t).flushed = true <;> simp [h2, St.tabCells, h1]
  have h1 : σ'.tabCells σ.active = σ.tabCells σ.active := by
    apply tabCells_congr
    intro a ha
    have : a ≠ t := fun e => hr.actNeSnap a ha (e ▸ ht)
    rw [htb]; simp [unrefT, upd_other _ _ _ _ this]
  have h2 : σ'.snapView = none := by simp [St.snapView, hf1]
  rw [layout_def, hsv] at hold
  rw [layout_def, hf2, h1, h2, hf9, hf3, hf4, hf7]
  simpa [St.tabCells] using hold

theorem takeView_invL {σ σ' : St} {c : Nat} (hl : InvL σ) (h : σ.takeView c = some σ') : InvL σ' := by
  obtain ⟨_, hσ⟩ := takeView_spec h
  have htb : σ'.tables = refT (refT σ.tables σ.active) σ.snapView := by rw [hσ]
  have hfl : σ'.files = refFiles σ.files (σ.ooo ++ σ.ord) := by rw [hσ]
  apply frame_invL hl <;> try (rw [hσ])
  · intro t _
    dsimp only
    have h1 := refT_fields (refT σ.tables σ.active) σ.snapView t
    have h2 := refT_fields σ.tables σ.active t
    exact ⟨by rw [h1.2.1, h2.2.1], by rw [h1.2.2.1, h2.2.2.1]⟩
  · intro f _; dsimp only; rw [refFiles_apply]

theorem loaderRef_invL {σ σ' : St} (hl : InvL σ) (h : σ.loaderRef = some σ') : InvL σ' := by
  obtain ⟨_, hσ⟩ := loaderRef_spec h
  apply frame_invL hl <;> try (rw [hσ])
  · intro t _; exact ⟨rfl, rfl⟩
  · intro f _; dsimp only; rw [refFiles_apply]

theorem openCursors_invL {σ σ' : St} {i : Nat} (hl : InvL σ) (h : σ.openCursors i = some σ') : InvL σ' := by
  obtain ⟨v, _, _, hσ⟩ := openCursors_spec h
  apply frame_invL hl <;> try (rw [hσ])
  · intro t _; exact ⟨rfl, rfl⟩
  · intro f _; rfl

/-- releasing a view never empties a table another holder (the shard or a view) still has. -/
theorem release_table_cells {σ : St} (hr : InvR σ) {i : Nat} {v : View} (hv : σ.views[i]? = some v)
    (t : Nat) (hh : 0 < σ.own t ∨ ∃ w ∈ σ.views.eraseIdx i, w.act = some t ∨ w.snap = some t) :
    (unrefT (unrefT σ.tables v.act) v.snap t).cells = (σ.tables t).cells ∧
    (unrefT (unrefT σ.tables v.act) v.snap t).flushed = (σ.tables t).flushed := by
  have hrefs := hr.trefs t
  have hsum := sum_map_eraseIdx (fun v => v.tw t) σ.views i v hv
  have hpos : v.tw t < (σ.tables t).refs := by
    simp only [St.tholders] at hrefs
    rcases hh with hh | ⟨w, hw, hwt⟩
    · omega
    · have h1 := le_sum_of_mem (fun v => v.tw t) _ w hw
      have h2 : 0 < w.tw t := by
        simp only [View.tw]; rcases hwt with h | h <;> simp [h] <;> omega
      omega
  have h1 := unrefT_fields σ.tables v.act t
  have h2 := unrefT_fields (unrefT σ.tables v.act) v.snap t
  refine ⟨?_, by rw [h2.2.1, h1.2.1]⟩
  simp only [View.tw] at hpos
  have c1 : (unrefT σ.tables v.act t).cells = (σ.tables t).cells := by
    apply h1.2.2.2.2
    by_cases ha : v.act = some t
    · right; simp [ha] at hpos; omega
    · left; exact ha
  have c2 : (unrefT (unrefT σ.tables v.act) v.snap t).cells = (unrefT σ.tables v.act t).cells := by
    apply h2.2.2.2.2
    by_cases hs : v.snap = some t
    · right
      rw [h1.1]
      by_cases ha : v.act = some t <;> simp [ha, hs] at hpos ⊢ <;> omega
    · left; exact hs
  rw [c2, c1]

theorem release_invL {σ σ' : St} {i : Nat} (hr : InvR σ) (hl : InvL σ) (h : σ.release i = some σ') :
    InvL σ' := by
  obtain ⟨v, hv, hσ⟩ := release_spec h
  have htb : σ'.tables = unrefT (unrefT σ.tables v.act) v.snap := by rw [hσ]
  have hfl : σ'.files = unrefFiles σ.files (v.ooo ++ v.ord) := by rw [hσ]
  apply frame_invL hl <;> try (rw [hσ])
  · intro t ht
    dsimp only
    apply release_table_cells hr hv t
    left
    simp only [St.own]
    rcases ht with ht | ht <;> simp [ht]
  · intro f _; dsimp only; rw [unrefFiles_apply]

theorem plan_invL {σ σ' : St} {fs : List FileId} (hl : InvL σ) (h : σ.plan fs = some σ') : InvL σ' := by
  have hσ := plan_spec h
  apply frame_invL hl <;> try (rw [hσ])
  · intro t _; exact ⟨rfl, rfl⟩
  · intro f _; rfl

theorem gc_invL {σ σ' : St} {f : FileId} (hl : InvL σ) (h : σ.gc f = some σ') : InvL σ' := by
  obtain ⟨_, _, hσ⟩ := gc_spec h
  have hfl : σ'.files = upd σ.files f { σ.files f with pending := false, unlinked := true } := by rw [hσ]
  apply frame_invL hl <;> try (rw [hσ])
  · intro t _; exact ⟨rfl, rfl⟩
  · intro g _
    dsimp only
    by_cases hg : g = f
    · subst hg; simp
    · rw [upd_other _ _ _ _ hg]

theorem closeBegin_invL {σ σ' : St} (hl : InvL σ) (h : σ.closeBegin = some σ') : InvL σ' := by
  obtain ⟨_, hσ⟩ := closeBegin_spec h
  have hc : σ'.closed = true := by rw [hσ]
  have hf : σ'.files = σ.files ∧ σ'.ooo = σ.ooo ∧ σ'.ord = σ.ord ∧ σ'.lastFlush = σ.lastFlush ∧
      σ'.merging = σ.merging := by rw [hσ]; simp
  obtain ⟨hf1, hf2, hf3, hf4, hf5⟩ := hf
  refine ⟨?_, by rw [hf1, hf2, hf3, hf4]; exact hl.below, by rw [hf1, hf2, hf3, hf5]; exact hl.merge⟩
  intro h0; rw [hc] at h0; cases h0

theorem closeFiles_invL {σ σ' : St} (hl : InvL σ) (h : σ.closeFiles = some σ') : InvL σ' := by
  obtain ⟨_, _, _, _, hσ⟩ := closeFiles_spec h
  apply frame_invL hl <;> try (rw [hσ])
  · intro t _; exact ⟨rfl, rfl⟩
  · intro f _; rfl


/-! ### rewrites of the file lists -/

/-- the layout depends on the files only through the cells of the two lists. -/
theorem lists_invL {σ σ' : St} (hl : InvL σ) (hhist : σ'.hist = σ.hist) (hclosed : σ'.closed = σ.closed)
    (hlf : σ'.lastFlush = σ.lastFlush) (hact : σ'.active = σ.active) (hsnap : σ'.snapshot = σ.snapshot)
    (htab : σ'.tables = σ.tables)
    (hfo : fileCells σ'.files σ'.ooo = fileCells σ.files σ.ooo)
    (hfr : fileCells σ'.files σ'.ord = fileCells σ.files σ.ord)
    (hm : ∀ grp, σ'.merging = some grp → σ.merging = some grp ∧ (∀ f ∈ grp, f ∈ σ.ooo → f ∈ σ'.ooo) ∧
      fileCells σ'.files grp = fileCells σ.files grp) : InvL σ' := by
  refine ⟨?_, ?_, ?_⟩
  · intro hc
    rw [hclosed] at hc
    have h1 : σ'.tabCells σ.active = σ.tabCells σ.active := tabCells_congr _ _ _ (fun t _ => by rw [htab])
    have h2 : σ'.snapView = σ.snapView := snapView_congr _ _ hsnap (fun t _ => by rw [htab])
    have h3 : σ'.tabCells σ.snapView = σ.tabCells σ.snapView := tabCells_congr _ _ _ (fun t _ => by rw [htab])
    rw [layout_def, hact, h1, h2, h3, hfo, hfr, hhist]
    exact hl.layout hc
  · rw [hlf, fileCells_append, hfo, hfr, ← fileCells_append]; exact hl.below
  · intro grp hg
    obtain ⟨h0, h1, h2⟩ := hm grp hg
    obtain ⟨h3, h4⟩ := hl.merge grp h0
    refine ⟨fun f hf => h1 f hf (h3 f hf), ?_⟩
    rw [h2, hfr]; exact h4

/-- files of a rewrite: rows of files that existed before are untouched; the new files hold
the given rows. -/
theorem rewrite_cells {F : FileId → File} (cells : List Cell) (srcs : List Nat) (old new : List FileId)
    (hf : allFresh F new = true) :
    (∀ fs : List FileId, (∀ f ∈ fs, (F f).present = true) →
      fileCells (retireFiles (addNew F cells srcs new) old) fs = fileCells F fs) ∧
    (new ≠ [] → new.Nodup → fileCells (retireFiles (addNew F cells srcs new) old) new = cells) := by
  have hfresh := allFresh_mem hf
  constructor
  · intro fs hp
    apply fileCells_congr
    intro f hfm
    have hgn : f ∉ new := fun hm => by have := hp f hfm; rw [hfresh f hm] at this; cases this
    rw [(retireFiles_fields old _ f).1, addNew_not_mem _ _ _ _ _ hgn]
  · intro hne hnd
    have : fileCells (retireFiles (addNew F cells srcs new) old) new = fileCells (addNew F cells srcs new) new :=
      fileCells_congr _ _ _ (fun f _ => (retireFiles_fields old _ f).1)
    rw [this, fileCells_addNew _ _ _ _ hne hnd]

theorem replaceOrd_invL {σ σ' : St} {old new : List FileId} (hr : InvR σ) (hl : InvL σ)
    (h : σ.replaceOrd old new = some σ') : InvL σ' := by
  obtain ⟨pre, post, ho, hok, hσ⟩ := replaceOrd_spec h
  have hfl : σ'.files = retireFiles (addNew σ.files (fileCells σ.files old) (srcsOf σ.files old) new) old := by
    rw [hσ]
  have hord : σ'.ord = pre ++ new ++ post := by rw [hσ]
  have hooo : σ'.ooo = σ.ooo := by rw [hσ]
  have hmg : σ'.merging = σ.merging := by rw [hσ]
  obtain ⟨hc1, hc2⟩ := rewrite_cells (F := σ.files) (fileCells σ.files old) (srcsOf σ.files old) old new hok.2.2.2.1
  have hp : ∀ f ∈ σ.ooo ++ σ.ord, (σ.files f).present = true := fun f hf => (hr.listedOK f hf).1
  apply lists_invL hl (by rw [hσ]) (by rw [hσ]) (by rw [hσ]) (by rw [hσ]) (by rw [hσ]) (by rw [hσ])
  · rw [hfl, hooo]; exact hc1 _ (fun f hf => hp f (by simp [hf]))
  · rw [hfl, hord, ho]
    simp only [fileCells_append]
    rw [hc1 pre (fun f hf => hp f (by rw [ho]; simp [hf])),
      hc1 post (fun f hf => hp f (by rw [ho]; simp [hf])), hc2 hok.2.1 hok.2.2.1]
  · intro grp hg
    rw [hmg] at hg
    refine ⟨hg, fun f _ hf => by rw [hooo]; exact hf, ?_⟩
    rw [hfl]
    exact hc1 grp (fun f hf => hp f (by simp [(hl.merge grp hg).1 f hf]))

theorem replaceOoo_invL {σ σ' : St} {old new : List FileId} (hr : InvR σ) (hl : InvL σ)
    (h : σ.replaceOoo old new = some σ') : InvL σ' := by
  obtain ⟨pre, post, ho, hok, hmn, hσ⟩ := replaceOoo_spec h
  have hfl : σ'.files = retireFiles (addNew σ.files (fileCells σ.files old) (srcsOf σ.files old) new) old := by
    rw [hσ]
  have hooo : σ'.ooo = pre ++ new ++ post := by rw [hσ]
  have hord : σ'.ord = σ.ord := by rw [hσ]
  have hmg : σ'.merging = σ.merging := by rw [hσ]
  obtain ⟨hc1, hc2⟩ := rewrite_cells (F := σ.files) (fileCells σ.files old) (srcsOf σ.files old) old new hok.2.2.2.1
  have hp : ∀ f ∈ σ.ooo ++ σ.ord, (σ.files f).present = true := fun f hf => (hr.listedOK f hf).1
  apply lists_invL hl (by rw [hσ]) (by rw [hσ]) (by rw [hσ]) (by rw [hσ]) (by rw [hσ]) (by rw [hσ])
  · rw [hfl, hooo, ho]
    simp only [fileCells_append]
    rw [hc1 pre (fun f hf => hp f (by rw [ho]; simp [hf])),
      hc1 post (fun f hf => hp f (by rw [ho]; simp [hf])), hc2 hok.2.1 hok.2.2.1]
  · rw [hfl, hord]; exact hc1 _ (fun f hf => hp f (by simp [hf]))
  · intro grp hg
    rw [hmg, hmn] at hg; cases hg

theorem lookup_none_of_allBefore {a b : List Cell} (h : allBefore a b = true) {k : Key} {x : String}
    (hb : lookup k b = some x) : lookup k a = none := by
  obtain ⟨d, hd, hdk, _⟩ := lookup_some_cell hb
  rw [lookup_none_iff]
  intro c hc hck
  simp only [allBefore, List.all_eq_true, decide_eq_true_eq] at h
  have := h c hc d hd
  have e : c.key = d.key := hck.trans hdk.symm
  simp only [Cell.key, Prod.mk.injEq] at e
  omega

theorem mergeReplace_invL {σ σ' : St} {grp old new : List FileId} (hr : InvR σ) (hl : InvL σ)
    (h : σ.mergeReplace grp old new = some σ') : InvL σ' := by
  obtain ⟨pre, post, ho, hok, hmn, hgne, hsuf, hbefore, hσ⟩ := mergeReplace_spec h
  have hfl : σ'.files = retireFiles (addNew σ.files (fileCells σ.files grp ++ fileCells σ.files old)
      (srcsOf σ.files grp ++ srcsOf σ.files old) new) old := by rw [hσ]
  have hord : σ'.ord = pre ++ new ++ post := by rw [hσ]
  have hf : σ'.ooo = σ.ooo ∧ σ'.merging = some grp ∧ σ'.hist = σ.hist ∧ σ'.closed = σ.closed ∧
      σ'.lastFlush = σ.lastFlush ∧ σ'.active = σ.active ∧ σ'.snapshot = σ.snapshot ∧ σ'.tables = σ.tables := by
    rw [hσ]; simp
  obtain ⟨hooo, hmg, hhist, hclosed, hlf, hact, hsnap, htab⟩ := hf
  obtain ⟨hc1, hc2⟩ := rewrite_cells (F := σ.files) (fileCells σ.files grp ++ fileCells σ.files old)
    (srcsOf σ.files grp ++ srcsOf σ.files old) old new hok.2.2.2.1
  have hp : ∀ f ∈ σ.ooo ++ σ.ord, (σ.files f).present = true := fun f hf => (hr.listedOK f hf).1
  have hgin : ∀ f ∈ grp, f ∈ σ.ooo := by
    intro f hf; rw [← hsuf]; simp [hf]
  -- cells of the lists after the step
  have eo : fileCells σ'.files σ'.ooo = fileCells σ.files σ.ooo := by
    rw [hfl, hooo]; exact hc1 _ (fun f hf => hp f (by simp [hf]))
  have eg : fileCells σ'.files grp = fileCells σ.files grp := by
    rw [hfl]; exact hc1 _ (fun f hf => hp f (by simp [hgin f hf]))
  have er : fileCells σ'.files σ'.ord = fileCells σ.files pre ++
      (fileCells σ.files grp ++ fileCells σ.files old) ++ fileCells σ.files post := by
    rw [hfl, hord]
    simp only [fileCells_append]
    rw [hc1 pre (fun f hf => hp f (by rw [ho]; simp [hf])),
      hc1 post (fun f hf => hp f (by rw [ho]; simp [hf])), hc2 hok.2.1 hok.2.2.1]
  have er0 : fileCells σ.files σ.ord = fileCells σ.files pre ++ fileCells σ.files old ++ fileCells σ.files post := by
    rw [ho]; simp only [fileCells_append]
  have eo0 : fileCells σ.files σ.ooo
      = fileCells σ.files (σ.ooo.take (σ.ooo.length - grp.length)) ++ fileCells σ.files grp := by
    rw [← fileCells_append, hsuf]
  refine ⟨?_, ?_, ?_⟩
  · intro hc
    rw [hclosed] at hc
    have hold := hl.layout hc
    have h1 : σ'.tabCells σ.active = σ.tabCells σ.active := tabCells_congr _ _ _ (fun t _ => by rw [htab])
    have h2 : σ'.snapView = σ.snapView := snapView_congr _ _ hsnap (fun t _ => by rw [htab])
    have h3 : σ'.tabCells σ.snapView = σ.tabCells σ.snapView := tabCells_congr _ _ _ (fun t _ => by rw [htab])
    rw [layout_def, hact, h1, h2, h3, eo, er, hhist]
    rw [layout_def, er0] at hold
    rw [eo0] at hold ⊢
    have := equiv_dup (σ.tabCells σ.active ++ σ.tabCells σ.snapView ++
        fileCells σ.files (σ.ooo.take (σ.ooo.length - grp.length)))
      (fileCells σ.files grp) (fileCells σ.files pre) (fileCells σ.files old ++ fileCells σ.files post)
    simp only [List.append_assoc] at this hold ⊢
    exact this.trans hold
  · intro c hc
    rw [fileCells_append, eo, er] at hc
    rw [hlf]
    apply hl.below
    rw [fileCells_append, er0]
    simp only [List.mem_append] at hc ⊢
    rcases hc with hc | ((hc | (hc | hc)) | hc)
    · exact Or.inl hc
    · exact Or.inr (Or.inl (Or.inl hc))
    · left; rw [eo0]; simp [hc]
    · exact Or.inr (Or.inl (Or.inr hc))
    · exact Or.inr (Or.inr hc)
  · intro g hg
    rw [hmg] at hg
    simp only [Option.some.injEq] at hg
    subst hg
    refine ⟨fun f hf => by rw [hooo]; exact hgin f hf, ?_⟩
    intro k x hk
    rw [eg] at hk
    rw [er]
    simp only [lookup_append, lookup_none_of_allBefore hbefore hk, hk]

theorem dropOoo_invL {σ σ' : St} (hr : InvR σ) (hl : InvL σ) (h : σ.dropOoo = some σ') : InvL σ' := by
  obtain ⟨grp, hmg0, hsuf, hσ⟩ := dropOoo_spec h
  have hfl : σ'.files = retireFiles σ.files grp := by rw [hσ]
  have hf : σ'.ooo = σ.ooo.take (σ.ooo.length - grp.length) ∧ σ'.ord = σ.ord ∧ σ'.merging = none ∧
      σ'.hist = σ.hist ∧ σ'.closed = σ.closed ∧
      σ'.lastFlush = σ.lastFlush ∧ σ'.active = σ.active ∧ σ'.snapshot = σ.snapshot ∧ σ'.tables = σ.tables := by
    rw [hσ]; simp
  obtain ⟨hooo, hord, hmg, hhist, hclosed, hlf, hact, hsnap, htab⟩ := hf
  have hcells : ∀ fs, fileCells σ'.files fs = fileCells σ.files fs := by
    intro fs; rw [hfl]
    exact fileCells_congr _ _ _ (fun f _ => (retireFiles_fields grp _ f).1)
  have eo0 : fileCells σ.files σ.ooo
      = fileCells σ.files (σ.ooo.take (σ.ooo.length - grp.length)) ++ fileCells σ.files grp := by
    rw [← fileCells_append, hsuf]
  obtain ⟨_, hmi⟩ := hl.merge grp hmg0
  refine ⟨?_, ?_, ?_⟩
  · intro hc
    rw [hclosed] at hc
    have hold := hl.layout hc
    have h1 : σ'.tabCells σ.active = σ.tabCells σ.active := tabCells_congr _ _ _ (fun t _ => by rw [htab])
    have h2 : σ'.snapView = σ.snapView := snapView_congr _ _ hsnap (fun t _ => by rw [htab])
    have h3 : σ'.tabCells σ.snapView = σ.tabCells σ.snapView := tabCells_congr _ _ _ (fun t _ => by rw [htab])
    rw [layout_def, hact, h1, h2, h3, hcells, hcells, hooo, hord, hhist]
    rw [layout_def, eo0] at hold
    have := equiv_drop (σ.tabCells σ.active ++ σ.tabCells σ.snapView ++
        fileCells σ.files (σ.ooo.take (σ.ooo.length - grp.length)))
      (fileCells σ.files grp) (fileCells σ.files σ.ord) hmi
    simp only [List.append_assoc] at this hold ⊢
    exact this.trans hold
  · intro c hc
    rw [hcells, hooo, hord] at hc
    rw [hlf]
    apply hl.below
    rw [fileCells_append] at hc ⊢
    rw [eo0]
    simp only [List.mem_append] at hc ⊢
    rcases hc with hc | hc
    · exact Or.inl (Or.inl hc)
    · exact Or.inr hc
  · intro g hg; rw [hmg] at hg; cases hg

theorem step_invL {σ σ' : St} (a : Act) (hr : InvR σ) (hl : InvL σ) (h : σ.step a = some σ') : InvL σ' := by
  cases a with
  | write b => exact write_invL hr hl h
  | switch => exact switch_invL hr hl h
  | publish o u => exact publish_invL hr hl h
  | dropSnapshot => exact dropSnapshot_invL hr hl h
  | takeView c => exact takeView_invL hl h
  | loaderRef => exact loaderRef_invL hl h
  | openCursors i => exact openCursors_invL hl h
  | readView i =>
    simp only [St.step] at h
    split at h
    · cases h; exact hl
    · cases h
  | release i => exact release_invL hr hl h
  | plan fs => exact plan_invL hl h
  | replaceOrd old new => exact replaceOrd_invL hr hl h
  | replaceOoo old new => exact replaceOoo_invL hr hl h
  | mergeReplace grp old new => exact mergeReplace_invL hr hl h
  | dropOoo => exact dropOoo_invL hr hl h
  | gc f => exact gc_invL hl h
  | closeBegin => exact closeBegin_invL hl h
  | closeFiles => exact closeFiles_invL hl h

theorem reach_invL {σ : St} (h : Reach σ) : InvL σ := by
  induction h with
  | init => exact invL_init
  | step a hreach hs ih => exact step_invL a (reach_invR hreach) ih hs

end OG.C04
