/-
C04 — property theorems over the interleaving model (`OG.C04.Model`): for every reachable
state, i.e. every schedule of any number of writers, flushes, queries, compactions, merges,
collector runs and a close.

Property: while clients write and query concurrently and the engine flushes and compacts in the
background, every query returns all points acknowledged before the query started, returns each
(series, timestamp) at most once, and returns rows whose fields all come from acknowledged
writes; successive queries by one client never see a point disappear. Closing while operations
are in flight neither deadlocks nor crashes (the deadlock part is `OG.C04.Facts`).

What is proved here is the protocol between the critical sections; what happens inside a
critical section (Go memory model), lock-free fast paths and scheduler fairness are explored
by the harness under the race detector, not proved.
-/
import OG.C04.Views
import OG.C02.Props

namespace OG.C04
open OG.C02 (Cell Key lookup Row batchCells Equiv lookup_append readCells readSeries lwwMap)

/-! ### runs -/

/-- a schedule: the actions of all actors in the order their critical sections were entered. -/
def run : St → List Act → Option St
  | σ, [] => some σ
  | σ, a :: as => match σ.step a with
    | some σ' => run σ' as
    | none => none

theorem reach_run {σ σ' : St} (h : Reach σ) : ∀ (acts : List Act), run σ acts = some σ' → Reach σ' := by
  intro acts
  induction acts generalizing σ with
  | nil => intro e; simp only [run, Option.some.injEq] at e; exact e ▸ h
  | cons a as ih =>
    intro e
    simp only [run] at e
    split at e
    · rename_i σ1 hs; exact ih (Reach.step a h hs) e
    · cases e

/-- rows acknowledged by a schedule, in acknowledgement order. -/
def ackedRows : List Act → List Row
  | [] => []
  | .write b :: as => b ++ ackedRows as
  | _ :: as => ackedRows as

def histStep (hst : List Cell) : Act → List Cell
  | .write b => batchCells b ++ hst
  | _ => hst

theorem step_hist {σ σ' : St} (a : Act) (h : σ.step a = some σ') :
    σ'.hist = histStep σ.hist a := by
  cases a with
  | write b => obtain ⟨_, _, _, rfl⟩ := write_spec h; rfl
  | switch => obtain ⟨_, _, _, rfl⟩ := switch_spec h; rfl
  | publish o u => obtain ⟨_, _, _, _, _, _, _, _, _, rfl⟩ := publish_spec h; rfl
  | dropSnapshot => obtain ⟨_, _, _, rfl⟩ := dropSnapshot_spec h; rfl
  | takeView c => obtain ⟨_, rfl⟩ := takeView_spec h; rfl
  | loaderRef => obtain ⟨_, rfl⟩ := loaderRef_spec h; rfl
  | openCursors i => obtain ⟨_, _, _, rfl⟩ := openCursors_spec h; rfl
  | readView i =>
    simp only [St.step] at h
    split at h
    · cases h; rfl
    · cases h
  | release i => obtain ⟨_, _, rfl⟩ := release_spec h; rfl
  | plan fs => rw [plan_spec h]; rfl
  | replaceOrd old new => obtain ⟨_, _, _, _, rfl⟩ := replaceOrd_spec h; rfl
  | replaceOoo old new => obtain ⟨_, _, _, _, _, rfl⟩ := replaceOoo_spec h; rfl
  | mergeReplace grp old new => obtain ⟨_, _, _, _, _, _, _, _, rfl⟩ := mergeReplace_spec h; rfl
  | dropOoo => obtain ⟨_, _, _, rfl⟩ := dropOoo_spec h; rfl
  | gc f => obtain ⟨_, _, rfl⟩ := gc_spec h; rfl
  | closeBegin => obtain ⟨_, rfl⟩ := closeBegin_spec h; rfl
  | closeFiles => obtain ⟨_, _, _, _, rfl⟩ := closeFiles_spec h; rfl

/-- the ghost history is exactly the acknowledged rows of the schedule, newest first. -/
theorem run_hist : ∀ (acts : List Act) (σ σ' : St), run σ acts = some σ' →
    σ'.hist = ((ackedRows acts).reverse.map Row.cells).flatten ++ σ.hist := by
  intro acts
  induction acts with
  | nil => intro σ σ' e; simp only [run, Option.some.injEq] at e; subst e; simp [ackedRows]
  | cons a as ih =>
    intro σ σ' e
    simp only [run] at e
    split at e
    · rename_i σ1 hs
      rw [ih σ1 σ' e, step_hist a hs]
      cases a <;> simp [histStep, ackedRows, batchCells, List.map_append]
    · cases e

/-- the history only grows. -/
theorem run_hist_suffix (acts : List Act) (σ σ' : St) (h : run σ acts = some σ') : σ.hist <:+ σ'.hist :=
  ⟨_, (run_hist acts σ σ' h).symm⟩

/-! ### T1 `view_exactly_once` -/

theorem lookup_suffix_ne_none {k : Key} {xs ys : List Cell} (h : xs <:+ ys)
    (hk : lookup k xs ≠ none) : lookup k ys ≠ none := by
  obtain ⟨pre, rfl⟩ := h
  cases hx : lookup k xs with
  | none => exact absurd hx hk
  | some x =>
    obtain ⟨y, hy⟩ := lookup_suffix_some (pre := pre) hx
    rw [hy]; simp

/-- **T1.** In every reachable state every open view that was taken while the shard was open
reads, key by (series, time, field), exactly the last-write-wins value of a prefix `seen` of the
acknowledgement history that contains everything acknowledged before `takeView` (`base`):
no acknowledged row is missing, no value is older than the last one acknowledged before the
view was taken, every value is that of an acknowledged write, and the cut is consistent (one
prefix for all keys — no torn view). The view holds no memtable together with a file made from
it, so no row is read from both the table being flushed and its published files; and the rows
it returns have strictly increasing times per series (each (series, time) once). -/
theorem view_exactly_once {σ : St} (h : Reach σ) (v : View) (hv : v ∈ σ.views) (hok : v.ok = true) :
    Equiv (σ.viewCells v) v.seen ∧ v.base <:+ v.seen ∧ v.seen <:+ σ.hist ∧
    (∀ k, lookup k v.base ≠ none → lookup k (σ.viewCells v) ≠ none) ∧
    (∀ t, (v.act = some t ∨ v.snap = some t) → ∀ f ∈ v.ooo ++ v.ord, t ∉ (σ.files f).srcs) ∧
    (∀ s lo hi fields, ((readSeries (σ.viewCells v) s lo hi true fields).map (·.2.1)).Pairwise (· < ·)) := by
  have hV := reach_invV h
  have hs := hV.sound v hv hok
  have hc := hV.chain v hv
  refine ⟨hs, hc.1, hc.2, ?_, hV.src v hv, fun s lo hi fields => OG.C02.read_sorted_nodup _ s lo hi fields⟩
  intro k hk
  rw [hs k]
  exact lookup_suffix_ne_none hc.1 hk

/-- a view taken now starts from everything acknowledged so far. -/
theorem takeView_base {σ σ' : St} {c : Nat} (h : σ.takeView c = some σ') :
    ∃ v, σ'.views = σ.views ++ [v] ∧ v.base = σ.hist ∧ v.seen = σ.hist ∧ v.client = c ∧
      v.ok = !σ.closed := by
  obtain ⟨_, rfl⟩ := takeView_spec h
  exact ⟨σ.newView c, rfl, rfl, rfl, rfl, rfl⟩

/-- **T1, end to end.** After any schedule from the initial state, a query that takes its view
(on an open shard) reads for every key the value of the last-write-wins replay of all rows
acknowledged by the schedule — whatever flush, publication, compaction or merge was in
flight. -/
theorem view_eq_lww (acts : List Act) (σ σ' : St) (c : Nat) (hrun : run St.init acts = some σ)
    (hopen : σ.closed = false) (ht : σ.takeView c = some σ') :
    ∃ v, σ'.views = σ.views ++ [v] ∧ ∀ k, lookup k (σ'.viewCells v) = lwwMap (ackedRows acts) k := by
  obtain ⟨v, hviews, _, hseen, _, hok⟩ := takeView_base ht
  refine ⟨v, hviews, ?_⟩
  have hreach : Reach σ' := Reach.step (.takeView c) (reach_run Reach.init acts hrun) ht
  have hvm : v ∈ σ'.views := by rw [hviews]; simp
  have := (view_exactly_once hreach v hvm (by rw [hok, hopen]; rfl)).1
  intro k
  rw [this k, hseen, run_hist acts _ _ hrun]
  simp only [St.init, List.append_nil]
  exact OG.C02.lookup_rows_lww _ k

/-! ### T2 `monotone_reads` -/

/-- **T2.** A view taken after another view was read never loses a key the earlier view
showed, and shows for it the same or a newer acknowledged value: if everything acknowledged
when `v1` was read (state `σ1`) had been acknowledged when `v2` was taken, then every key read
through `v1` is read through `v2` (in any later state `σ2`), and `v2`'s value is the
last-write-wins value of `v1`'s rows extended by later acknowledged rows. -/
theorem monotone_reads {σ1 σ2 : St} (h1 : Reach σ1) (h2 : Reach σ2) (v1 v2 : View)
    (hv1 : v1 ∈ σ1.views) (hv2 : v2 ∈ σ2.views) (hok1 : v1.ok = true) (hok2 : v2.ok = true)
    (hafter : σ1.hist <:+ v2.base) :
    (∀ k, lookup k (σ1.viewCells v1) ≠ none → lookup k (σ2.viewCells v2) ≠ none) ∧
    ∃ later, ∀ k, lookup k (σ2.viewCells v2) = match lookup k later with
      | some x => some x
      | none => lookup k (σ1.viewCells v1) := by
  obtain ⟨e1, _, s1, _⟩ := view_exactly_once h1 v1 hv1 hok1
  obtain ⟨e2, b2, _, _⟩ := view_exactly_once h2 v2 hv2 hok2
  have hchain : v1.seen <:+ v2.seen := (s1.trans hafter).trans b2
  constructor
  · intro k hk
    rw [e2 k]
    rw [e1 k] at hk
    exact lookup_suffix_ne_none hchain hk
  · obtain ⟨later, hl⟩ := hchain
    refine ⟨later, fun k => ?_⟩
    rw [e2 k, ← hl, lookup_append, e1 k]
    cases lookup k later <;> rfl

/-- the hypothesis of T2 is what a run gives: a view taken later in the schedule has a base
that extends the history of every earlier state. -/
theorem monotone_reads_run (acts1 acts2 acts3 : List Act) (σ1 σ2 σ3 σ4 : St) (c : Nat)
    (hr1 : run St.init acts1 = some σ1) (hr2 : run σ1 acts2 = some σ2)
    (ht : σ2.takeView c = some σ3) (hopen : σ2.closed = false) (hr3 : run σ3 acts3 = some σ4)
    (v1 v2 : View) (hv1 : v1 ∈ σ1.views) (hok1 : v1.ok = true)
    (hv2 : v2 ∈ σ4.views) (hok2 : v2.ok = true) (hbase : v2.base = σ2.hist) :
    ∀ k, lookup k (σ1.viewCells v1) ≠ none → lookup k (σ4.viewCells v2) ≠ none := by
  have h1 : Reach σ1 := reach_run Reach.init acts1 hr1
  have h2 : Reach σ2 := reach_run h1 acts2 hr2
  have h3 : Reach σ3 := Reach.step (.takeView c) h2 ht
  have h4 : Reach σ4 := reach_run h3 acts3 hr3
  have := run_hist_suffix acts2 σ1 σ2 hr2
  exact (monotone_reads h1 h4 v1 v2 hv1 hv2 hok1 hok2 (hbase ▸ this)).1

/-! ### T3 `no_use_after_unlink` -/

/-- **T3a.** Whatever a view holds is alive: its files are not unlinked and its memtables are
not recycled, and their reference counts are positive. -/
theorem no_use_after_unlink {σ : St} (h : Reach σ) (v : View) (hv : v ∈ σ.views) :
    (∀ f ∈ v.ooo ++ v.ord, (σ.files f).unlinked = false ∧ (σ.files f).present = true ∧ 0 < (σ.files f).refs) ∧
    (∀ t, (v.act = some t ∨ v.snap = some t) → (σ.tables t).recycled = false ∧ 0 < (σ.tables t).refs) := by
  have hr := reach_invR h
  constructor
  · intro f hf
    have := hr.viewFiles v hv f hf
    have h1 := hr.frefs f
    have h2 := fholders_pos_of_mem hv hf
    exact ⟨this.2, this.1, by omega⟩
  · intro t ht
    have h1 := hr.trefs t
    have h2 := tholders_pos_of_holds hv ht
    have h3 : 0 < (σ.tables t).refs := by omega
    refine ⟨?_, h3⟩
    cases hrec : (σ.tables t).recycled with
    | false => rfl
    | true => have := hr.tlive t hrec; omega

theorem addOpt_unlinked (F : FileId → File) (o : Option FileId) (x : File) (g : FileId)
    (hx : x.unlinked = false) (h : (addOpt F o x g).unlinked = true) : (F g).unlinked = true := by
  cases o with
  | none => exact h
  | some n =>
    by_cases hg : g = n
    · subst hg; simp [addOpt, hx] at h
    · simpa [addOpt, upd, hg] using h

theorem rewrite_unlinked (F : FileId → File) (cells : List Cell) (srcs : List Nat) (old new : List FileId)
    (hf : allFresh F new = true) (hold : ∀ f ∈ old, (F f).present = true) (f : FileId)
    (hu : (retireFiles (addNew F cells srcs new) old f).unlinked = true) :
    (F f).unlinked = true ∨ (F f).refs = 0 := by
  by_cases hg : f ∈ new
  · have hno : f ∉ old := fun ho => by
      have := hold f ho; rw [allFresh_mem hf f hg] at this; cases this
    rw [retireFiles_not_mem _ _ _ hno, (addNew_mem cells srcs new F f hg).2.2.1] at hu
    cases hu
  · have := (retireFiles_fields old (addNew F cells srcs new) f).2.2.2.2 hu
    rwa [addNew_not_mem _ _ _ _ _ hg] at this

/-- **T3b.** No step unlinks a file whose reference count is positive: a file is removed only
by `retire` (replace / merge, at count 0) or by the collector (at count 0). -/
theorem unlink_only_unreferenced {σ σ' : St} (hreach : Reach σ) (a : Act) (h : σ.step a = some σ')
    (f : FileId) (hu : (σ'.files f).unlinked = true) :
    (σ.files f).unlinked = true ∨ (σ.files f).refs = 0 := by
  have hr := reach_invR hreach
  cases a with
  | write b => obtain ⟨_, _, _, rfl⟩ := write_spec h; exact Or.inl hu
  | switch => obtain ⟨_, _, _, rfl⟩ := switch_spec h; exact Or.inl hu
  | publish o u =>
    obtain ⟨_, _, _, _, _, _, _, _, _, rfl⟩ := publish_spec h
    exact Or.inl (addOpt_unlinked _ _ _ _ rfl (addOpt_unlinked _ _ _ _ rfl hu))
  | dropSnapshot => obtain ⟨_, _, _, rfl⟩ := dropSnapshot_spec h; exact Or.inl hu
  | takeView c =>
    obtain ⟨_, rfl⟩ := takeView_spec h
    dsimp only at hu; rw [refFiles_apply] at hu; exact Or.inl hu
  | loaderRef =>
    obtain ⟨_, rfl⟩ := loaderRef_spec h
    dsimp only at hu; rw [refFiles_apply] at hu; exact Or.inl hu
  | openCursors i => obtain ⟨_, _, _, rfl⟩ := openCursors_spec h; exact Or.inl hu
  | readView i =>
    simp only [St.step] at h
    split at h
    · cases h; exact Or.inl hu
    · cases h
  | release i =>
    obtain ⟨_, _, rfl⟩ := release_spec h
    dsimp only at hu; rw [unrefFiles_apply] at hu; exact Or.inl hu
  | plan fs => rw [plan_spec h] at hu; exact Or.inl hu
  | replaceOrd old new =>
    obtain ⟨pre, post, ho, hok, rfl⟩ := replaceOrd_spec h
    exact rewrite_unlinked σ.files _ _ old new hok.2.2.2.1
      (fun g hg => (hr.listedOK g (by rw [ho]; simp [hg])).1) f hu
  | replaceOoo old new =>
    obtain ⟨pre, post, ho, hok, _, rfl⟩ := replaceOoo_spec h
    exact rewrite_unlinked σ.files _ _ old new hok.2.2.2.1
      (fun g hg => (hr.listedOK g (by rw [ho]; simp [hg])).1) f hu
  | mergeReplace grp old new =>
    obtain ⟨pre, post, ho, hok, _, _, _, _, rfl⟩ := mergeReplace_spec h
    exact rewrite_unlinked σ.files _ _ old new hok.2.2.2.1
      (fun g hg => (hr.listedOK g (by rw [ho]; simp [hg])).1) f hu
  | dropOoo =>
    obtain ⟨grp, _, _, rfl⟩ := dropOoo_spec h
    exact (retireFiles_fields grp _ f).2.2.2.2 hu
  | gc g =>
    obtain ⟨_, hr', rfl⟩ := gc_spec h
    by_cases hg : f = g
    · subst hg; exact Or.inr hr'
    · dsimp only at hu; rw [upd_other _ _ _ _ hg] at hu; exact Or.inl hu
  | closeBegin => obtain ⟨_, rfl⟩ := closeBegin_spec h; exact Or.inl hu
  | closeFiles => obtain ⟨_, _, _, _, rfl⟩ := closeFiles_spec h; exact Or.inl hu

/-! ### T4 `fields_from_acked_writes` -/

/-- **T4.** Every value a view reads is the value of an acknowledged write to that key: a
cell of the acknowledgement history, which consists of the rows of the schedule's writes. -/
theorem fields_from_acked_writes {σ : St} (h : Reach σ) (v : View) (hv : v ∈ σ.views)
    (hok : v.ok = true) (k : Key) (x : String) (hk : lookup k (σ.viewCells v) = some x) :
    ∃ c ∈ σ.hist, c.key = k ∧ c.v = x := by
  obtain ⟨e, _, s, _⟩ := view_exactly_once h v hv hok
  rw [e k] at hk
  obtain ⟨c, hc, h1, h2⟩ := lookup_some_cell hk
  exact ⟨c, s.subset hc, h1, h2⟩

theorem hist_cells_from_writes (acts : List Act) (σ : St) (hrun : run St.init acts = some σ) (c : Cell)
    (hc : c ∈ σ.hist) : ∃ r ∈ ackedRows acts, c ∈ r.cells := by
  rw [run_hist acts _ _ hrun] at hc
  simp only [St.init, List.append_nil, List.mem_flatten, List.mem_map, List.mem_reverse] at hc
  obtain ⟨l, ⟨r, hr, rfl⟩, hcl⟩ := hc
  exact ⟨r, hr, hcl⟩

/-! ### close -/

/-- the closer's second step waits for the flush in flight and for compactions and merges
(`waitSnapshot`, `MmsTables.Wait`). It does not wait for open queries (see `Model`): a query
that holds files when they are closed gets an error on its next read, not torn data. -/
theorem closeFiles_waits {σ σ' : St} (h : σ.closeFiles = some σ') :
    σ.snapshot = none ∧ σ.busy = [] ∧ σ.merging = none := by
  obtain ⟨_, h1, h2, h3, _⟩ := closeFiles_spec h
  exact ⟨h1, h2, h3⟩

/-- files are closed only by `closeFiles`: while the shard is open every view is readable. -/
theorem readable_while_open {σ : St} (h : Reach σ) (hc : σ.closed = false) (v : View) :
    σ.readable v = true := by
  have : σ.filesClosed = false := by
    induction h with
    | init => rfl
    | step a hr hs ih =>
      rename_i σ1 σ2
      cases a with
      | closeFiles =>
        obtain ⟨_, _, _, _, rfl⟩ := closeFiles_spec hs
        obtain ⟨hcl, _⟩ := closeFiles_spec hs
        simp at hc
        rw [hcl] at hc; cases hc
      | closeBegin => obtain ⟨_, rfl⟩ := closeBegin_spec hs; simp at hc
      | write b => obtain ⟨_, _, _, rfl⟩ := write_spec hs; exact ih hc
      | switch => obtain ⟨_, _, _, rfl⟩ := switch_spec hs; exact ih hc
      | publish o u => obtain ⟨_, _, _, _, _, _, _, _, _, rfl⟩ := publish_spec hs; exact ih hc
      | dropSnapshot => obtain ⟨_, _, _, rfl⟩ := dropSnapshot_spec hs; exact ih hc
      | takeView c => obtain ⟨_, rfl⟩ := takeView_spec hs; exact ih hc
      | loaderRef => obtain ⟨_, rfl⟩ := loaderRef_spec hs; exact ih hc
      | openCursors i => obtain ⟨_, _, _, rfl⟩ := openCursors_spec hs; exact ih hc
      | readView i =>
        simp only [St.step] at hs
        split at hs
        · cases hs; exact ih hc
        · cases hs
      | release i => obtain ⟨_, _, rfl⟩ := release_spec hs; exact ih hc
      | plan fs => rw [plan_spec hs] at hc ⊢; exact ih hc
      | replaceOrd old new => obtain ⟨_, _, _, _, rfl⟩ := replaceOrd_spec hs; exact ih hc
      | replaceOoo old new => obtain ⟨_, _, _, _, _, rfl⟩ := replaceOoo_spec hs; exact ih hc
      | mergeReplace grp old new => obtain ⟨_, _, _, _, _, _, _, _, rfl⟩ := mergeReplace_spec hs; exact ih hc
      | dropOoo => obtain ⟨_, _, _, rfl⟩ := dropOoo_spec hs; exact ih hc
      | gc f => obtain ⟨_, _, rfl⟩ := gc_spec hs; exact ih hc
  simp [St.readable, this]

/-- after `closeBegin` no write is acknowledged any more. -/
theorem no_write_after_close {σ : St} (h : Reach σ) (hc : σ.closed = true) (b : List Row) :
    σ.write b = none := by
  unfold St.write
  split
  · rfl
  · simp [hc]

/-! ### every actor that holds files -/

/-- **T3 for the id-time loader** (and for any other holder): `no_use_after_unlink` and
`unlink_only_unreferenced` speak about every entry of `views`, whoever it belongs to. The
sequencer's loader enters `views` with `loaderRef` (fix 8af6340: a reference on every listed
file, taken under the list lock), so while it reads, none of its files is unlinked or closed,
whatever compaction or merge replaces them meanwhile. Compaction and merge inputs are protected
differently: `plan` marks them `busy`, only the actor that planned them retires them
(`newOK` of the replace steps), so they need no count. -/
theorem loader_no_use_after_unlink {σ : St} (h : Reach σ) (v : View) (hv : v ∈ σ.views) (_hl : v.loader = true) :
    ∀ f ∈ v.ooo ++ v.ord, (σ.files f).unlinked = false ∧ (σ.files f).present = true ∧ 0 < (σ.files f).refs :=
  (no_use_after_unlink h v hv).1

/-- the loader references exactly what is listed at that moment, atomically. -/
theorem loaderRef_holds_listed {σ σ' : St} (h : σ.loaderRef = some σ') :
    ∃ v, σ'.views = σ.views ++ [v] ∧ v.loader = true ∧ v.ooo = σ.ooo ∧ v.ord = σ.ord ∧
      ∀ f, (σ'.files f).refs = (σ.files f).refs + (σ.ooo ++ σ.ord).count f := by
  obtain ⟨_, rfl⟩ := loaderRef_spec h
  refine ⟨σ.loaderView, rfl, rfl, rfl, rfl, fun f => ?_⟩
  show (refFiles σ.files (σ.ooo ++ σ.ord) f).refs = _
  rw [refFiles_apply]

/-! ### the flush split -/

/-- **late rows go out of order.** With the sequencer loaded (`lastFlush` is exact - which is
what the loader is for), every row that `publish` puts into the new ORDERED file is newer than
the series' last flushed time, and its key occurs in no file listed so far: a (series, time) is
never in two ordered files, a row older than the series' last flushed time never goes into an
ordered file. -/
theorem late_rows_go_out_of_order {σ σ' : St} (h : Reach σ) {o u : Option FileId}
    (hp : σ.publish o u = some σ') (n : FileId) (ho : o = some n) (c : Cell) (hc : c ∈ (σ'.files n).cells) :
    OG.C02.isOrdered σ.lastFlush c = true ∧ ∀ d ∈ fileCells σ.files (σ.ooo ++ σ.ord), c.key ≠ d.key := by
  obtain ⟨t, _, _, _, _, _, _, _, hne, rfl⟩ := publish_spec hp
  subst ho
  have hun : u ≠ some n := by
    rcases hne with h1 | h1
    · cases h1
    · exact fun e => h1 e.symm
  have hfile : ∀ (X Y : File), addOpt (addOpt σ.files (some n) X) u Y n = X := by
    intro X Y
    cases u with
    | none => simp [addOpt, upd]
    | some b =>
      have : n ≠ b := fun e => hun (by rw [e])
      simp [addOpt, upd, this]
  dsimp only at hc
  rw [hfile] at hc
  have hord := (List.mem_filter.1 hc).2
  exact ⟨hord, fun d hd => ordered_disjoint_below σ.lastFlush c d hord ((reach_invL h).below d hd)⟩

/-! ### one query, several series cursors -/

/-- views that belong to one query: taken by one client in one `takeView` critical section
(same tables, same file lists, same acknowledged history). The code opens the series cursors of
a query one after the other (`getSortedRecSafe` per series, each under the series' own lock); in
the model a query over n series is n views taken back to back, each with its own
`openCursors`, view i being read for series i only (`readSeries`). -/
def sameQuery (v1 v2 : View) : Prop :=
  v1.client = v2.client ∧ v1.base = v2.base ∧ v1.act = v2.act ∧ v1.snap = v2.snap ∧ v1.ooo = v2.ooo ∧ v1.ord = v2.ord

instance (v1 v2 : View) : Decidable (sameQuery v1 v2) := by unfold sameQuery; infer_instance

/-- the statement the first round claimed for a whole query: one prefix of the acknowledgement
history for all its series. It is **false** for the code and - with per-series cursors - for
the model (`query_single_prefix_full_false`). The property's text does not ask for it. -/
def query_single_prefix_full : Prop :=
  ∀ σ, Reach σ → ∀ v1 ∈ σ.views, ∀ v2 ∈ σ.views, sameQuery v1 v2 → v1.ok = true → v2.ok = true → v1.seen = v2.seen

/-- the schedule the lock-point harness found (Q stopped between two series cursors, a whole write
batch runs): the cursor of series 0 is opened before the batch, the one of series 1 after it. -/
def exSplit : List Act :=
  [.write [⟨0, 1, [("f", "a")]⟩, ⟨1, 1, [("f", "a")]⟩], .takeView 1, .takeView 1, .openCursors 0,
   .write [⟨0, 2, [("f", "b")]⟩, ⟨1, 2, [("f", "b")]⟩], .openCursors 1]

def splitWitness (σ : St) : Bool :=
  match σ.views with
  | [v1, v2] => decide (sameQuery v1 v2) && v1.ok && v2.ok && decide (v1.seen ≠ v2.seen)
  | _ => false

theorem query_single_prefix_full_false : ¬ query_single_prefix_full := by
  intro hfull
  cases hr : run St.init exSplit with
  | none =>
    have : (run St.init exSplit).isSome = true := by decide
    rw [hr] at this; cases this
  | some σ =>
    have key : (run St.init exSplit).map splitWitness = some true := by decide
    rw [hr] at key
    simp only [Option.map_some, Option.some.injEq] at key
    unfold splitWitness at key
    split at key
    · rename_i v1 v2 hv
      simp only [Bool.and_eq_true, decide_eq_true_eq] at key
      obtain ⟨⟨⟨hs, h1⟩, h2⟩, hne⟩ := key
      exact hne (hfull σ (reach_run Reach.init _ hr) v1 (by rw [hv]; simp) v2 (by rw [hv]; simp) hs h1 h2)
    · cases key

/-- **what the code has: a prefix per series.** Every view (series cursor) of a query reads the
last-write-wins value of its own prefix of the acknowledgement history; all these prefixes
contain the history at the moment the query took its view, so no cursor misses anything that was
acknowledged before the query began, whichever series it serves. -/
theorem query_per_series_prefix {σ : St} (h : Reach σ) (v1 v2 : View) (hv1 : v1 ∈ σ.views) (hv2 : v2 ∈ σ.views)
    (hs : sameQuery v1 v2) (hok1 : v1.ok = true) (hok2 : v2.ok = true) :
    Equiv (σ.viewCells v1) v1.seen ∧ Equiv (σ.viewCells v2) v2.seen ∧
    v1.base <:+ v1.seen ∧ v1.base <:+ v2.seen ∧ v1.seen <:+ σ.hist ∧ v2.seen <:+ σ.hist ∧
    (∀ k, lookup k v1.base ≠ none → lookup k (σ.viewCells v1) ≠ none ∧ lookup k (σ.viewCells v2) ≠ none) := by
  obtain ⟨e1, b1, s1, m1, _⟩ := view_exactly_once h v1 hv1 hok1
  obtain ⟨e2, b2, s2, m2, _⟩ := view_exactly_once h v2 hv2 hok2
  have hb : v2.base = v1.base := hs.2.1.symm
  refine ⟨e1, e2, b1, hb ▸ b2, s1, s2, fun k hk => ⟨m1 k hk, m2 k (hb ▸ hk)⟩⟩

end OG.C04

/-! ### non-vacuity: concrete schedules through the windows -/

namespace OG.C04
open OG.C02 (Row)

/-- a query between `switch` and `publish` (holds the table being flushed), one between
`publish` and `dropSnapshot` (holds the published file instead), writes in between, cursors
opened late. -/
def exFlush : List Act :=
  [.write [⟨0, 1, [("f", "a")]⟩], .switch, .write [⟨0, 2, [("f", "b")]⟩], .takeView 1,
   .publish (some "o1") none, .takeView 2, .dropSnapshot, .write [⟨0, 1, [("f", "c")]⟩],
   .openCursors 0, .write [⟨0, 3, [("f", "d")]⟩]]

/-- an out-of-order merge with a query holding the replaced files across both of its critical
sections; the replaced files are unlinked by the collector only after the query released them. -/
def exMerge : List Act :=
  [.write [⟨0, 5, [("f", "a")]⟩], .switch, .publish (some "o1") none, .dropSnapshot,
   .write [⟨0, 1, [("f", "b")]⟩, ⟨0, 5, [("f", "c")]⟩], .switch, .publish none (some "u1"), .dropSnapshot,
   .takeView 7, .plan ["o1"], .mergeReplace ["u1"] ["o1"] ["o2"], .takeView 8, .dropOoo, .takeView 9,
   .write [⟨0, 6, [("f", "d")]⟩]]

def readAll (σ : St) (i : Nat) : List (Nat × Int × List (Option String)) :=
  match σ.views[i]? with
  | some v => σ.readView v (-10) 10 true ["f"]
  | none => []

def checkRead (acts : List Act) (i : Nat) (want : List (Nat × Int × List (Option String))) : Bool :=
  match run St.init acts with
  | some σ => decide (readAll σ i = want)
  | none => false

example : checkRead exFlush 0 [(0, 1, [some "c"]), (0, 2, [some "b"])] = true := by decide
example : checkRead exFlush 1 [(0, 1, [some "c"]), (0, 2, [some "b"]), (0, 3, [some "d"])] = true := by decide
example : checkRead exMerge 0 [(0, 1, [some "b"]), (0, 5, [some "c"]), (0, 6, [some "d"])] = true := by decide
example : checkRead exMerge 1 [(0, 1, [some "b"]), (0, 5, [some "c"]), (0, 6, [some "d"])] = true := by decide
example : checkRead exMerge 2 [(0, 1, [some "b"]), (0, 5, [some "c"]), (0, 6, [some "d"])] = true := by decide

/-- the view taken before the merge still holds the replaced ordered file (renamed, not
unlinked), the collector cannot remove it, and can once the view is released. -/
example : (match run St.init exMerge with
    | some σ => (σ.files "o1").pending && !(σ.files "o1").unlinked && (σ.gc "o1").isNone &&
        (match run σ [.release 0, .gc "o1"] with
          | some σ' => (σ'.files "o1").unlinked
          | none => false)
    | none => false) = true := by decide

/-- hypotheses of T1 / T2 / T3 are satisfiable: the schedules are runs, their views are `ok`. -/
example : ((run St.init exFlush).map fun σ => (σ.views.map (·.ok), σ.views.map (·.snap))) =
    some ([true, true], [some 0, none]) := by decide

/-- close: a close begun while a flush is in flight completes only after the flush dropped
its table; a write after `closeBegin` is refused; a view taken after it is not `ok`. -/
example : (match run St.init [.write [⟨0, 1, [("f", "a")]⟩], .switch, .closeBegin] with
    | some σ => (σ.closeFiles).isNone && (σ.write [⟨0, 2, [("f", "b")]⟩]).isNone &&
        (match run σ [.takeView 1] with
          | some σ1 => σ1.views.map (·.ok) == [false]
          | none => false) &&
        (match run σ [.publish (some "o1") none, .dropSnapshot, .closeFiles] with
          | some σ2 => σ2.filesClosed
          | none => false)
    | none => false) = true := by decide

/-- the loader holds a file across the compaction that replaces it: the file is renamed, not
unlinked, the collector is blocked until the loader released it. -/
example : (match run St.init [.write [⟨0, 5, [("f", "a")]⟩], .switch, .publish (some "o1") none, .dropSnapshot,
      .loaderRef, .plan ["o1"], .replaceOrd ["o1"] ["o2"]] with
    | some σ => (σ.files "o1").pending && !(σ.files "o1").unlinked && (σ.gc "o1").isNone &&
        σ.views.map (·.loader) == [true] &&
        (match run σ [.readView 0, .release 0, .gc "o1"] with
          | some σ' => (σ'.files "o1").unlinked
          | none => false)
    | none => false) = true := by decide

/-- the flush split: the late row (time 1 after time 5 was flushed) goes to the out-of-order file. -/
example : (match run St.init [.write [⟨0, 5, [("f", "a")]⟩], .switch, .publish (some "o1") none, .dropSnapshot,
      .write [⟨0, 1, [("f", "b")]⟩, ⟨0, 7, [("f", "c")]⟩], .switch, .publish (some "o2") (some "u1")] with
    | some σ => (σ.files "o2").cells.map (·.t) == [7] && (σ.files "u1").cells.map (·.t) == [1]
    | none => false) = true := by decide

/-- per-series cursors: series 0 through view 0 reflects the first batch only, series 1 through
view 1 both batches; both contain everything acknowledged before the query took its view. -/
example : (match run St.init exSplit with
    | some σ => (match σ.views with
      | [v1, v2] => (OG.C02.readSeries (σ.viewCells v1) 0 (-10) 10 true ["f"]).map (·.2.1) == [1] &&
                    (OG.C02.readSeries (σ.viewCells v2) 1 (-10) 10 true ["f"]).map (·.2.1) == [1, 2]
      | _ => false)
    | none => false) = true := by decide

end OG.C04
