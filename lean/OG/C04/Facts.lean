/-
C04 — lock facts regenerated from /repo's working tree (ogfacts, go/ast) and what is proved
about them:

* `no_wait_for_cycle` (`no_deadlock`): the "acquired while holding" relation between the lock
  classes of the anchored files has no cycle — checked through a rank certificate (`lockRank`
  increases strictly along every edge, `decide`) and the lemma that a strictly ranked relation
  has no cycle. The two file lists of a measurement are one class; inside the class the
  ordered list is always locked before the out-of-order list (`file_lists_ordered`).
* `*_bracketed`: the statements the model treats as one atomic step are bracketed by the lock
  the model names (`heldAt`).
* `*_expected`: the recorded tables the model was written against.
-/
import OG.Generated.C04

namespace OG.C04.Facts
open OG.Gen.C04

theorem generation_ok : generationFailed = false := by rfl

/-! ### no wait-for cycle -/

def rankOf (r : List Nat) (i : Nat) : Nat := r.getD i 0

/-- every edge goes from a lower to a strictly higher rank. -/
def ranked (r : List Nat) (es : List (Nat × Nat)) : Bool :=
  es.all fun e => decide (rankOf r e.1 < rankOf r e.2)

/-- a non-empty chain of edges from `a` to `b`. -/
inductive Path (es : List (Nat × Nat)) : Nat → Nat → Prop where
  | edge {a b : Nat} : (a, b) ∈ es → Path es a b
  | cons {a b c : Nat} : (a, b) ∈ es → Path es b c → Path es a c

theorem path_rank {r : List Nat} {es : List (Nat × Nat)} (h : ranked r es = true) {a b : Nat}
    (p : Path es a b) : rankOf r a < rankOf r b := by
  induction p with
  | edge he =>
    simp only [ranked, List.all_eq_true, decide_eq_true_eq] at h
    exact h _ he
  | cons he _ ih =>
    simp only [ranked, List.all_eq_true, decide_eq_true_eq] at h
    have := h _ he
    simp only at this
    omega

theorem lockRank_ranks : ranked lockRank classEdgesIdx = true := by decide

/-- **no_deadlock**: no lock class of the anchored files is (transitively) acquired while
itself being waited for — the lock graph has no wait-for cycle. -/
theorem no_wait_for_cycle : ∀ a, ¬ Path classEdgesIdx a a := by
  intro a p
  have := path_rank lockRank_ranks p
  omega

/-- the indexed graph is the named one. -/
theorem classEdges_named :
    classEdgesIdx.map (fun e => (lockClasses.getD e.1 "?", lockClasses.getD e.2 "?")) = classEdges := by
  rfl

/-- inside the file-list class the ordered list is locked before the out-of-order list, never
the other way round. -/
theorem file_lists_ordered :
    heldEdges.contains ("TSSPFiles.lock[unorder]", "TSSPFiles.lock[order]") = false ∧
    heldEdges.contains ("TSSPFiles.lock[order]", "TSSPFiles.lock[unorder]") = true := by
  constructor <;> rfl

/-! ### recorded expectations -/

def expectedHeldEdges : List (String × String) := [
  ("DBPTInfo.mu", "MmsTables.inCompLock"),
  ("DBPTInfo.mu", "MmsTables.mu"),
  ("DBPTInfo.mu", "shard.cancelLock"),
  ("DBPTInfo.mu", "shard.mu"),
  ("DBPTInfo.mu", "shard.snapshotLock"),
  ("MmsTables.mu", "MmsTables.inCompLock"),
  ("MmsTables.mu", "TSSPFiles.lock"),
  ("MmsTables.mu", "TSSPFiles.lock[order]"),
  ("MmsTables.mu", "TSSPFiles.lock[unorder]"),
  ("MmsTables.mu", "tsspFile.mu"),
  ("TSSPFiles.lock", "MmsTables.inCompLock"),
  ("TSSPFiles.lock", "tsspFile.mu"),
  ("TSSPFiles.lock[order]", "TSSPFiles.lock[unorder]"),
  ("TSSPFiles.lock[order]", "tsspFile.mu"),
  ("TSSPFiles.lock[unorder]", "tsspFile.mu"),
  ("TableStoreGC.mu", "tsspFile.mu"),
  ("shard.mu", "MmsTables.inCompLock"),
  ("shard.mu", "MmsTables.mu"),
  ("shard.mu", "TSSPFiles.lock"),
  ("shard.mu", "shard.cancelLock"),
  ("shard.mu", "shard.snapshotLock"),
  ("shard.mu", "shard.tmLock"),
  ("shard.mu", "tsspFile.mu"),
  ("shard.snapshotLock", "MmsTables.mu"),
  ("shard.snapshotLock", "TSSPFiles.lock[order]"),
  ("shard.snapshotLock", "TSSPFiles.lock[unorder]"),
  ("shard.snapshotLock", "tsspFile.mu")
]

theorem heldEdges_expected : heldEdges = expectedHeldEdges := by rfl

def expectedClassEdges : List (String × String) := [
  ("DBPTInfo.mu", "MmsTables.inCompLock"),
  ("DBPTInfo.mu", "MmsTables.mu"),
  ("DBPTInfo.mu", "shard.cancelLock"),
  ("DBPTInfo.mu", "shard.mu"),
  ("DBPTInfo.mu", "shard.snapshotLock"),
  ("MmsTables.mu", "MmsTables.inCompLock"),
  ("MmsTables.mu", "TSSPFiles.lock"),
  ("MmsTables.mu", "tsspFile.mu"),
  ("TSSPFiles.lock", "MmsTables.inCompLock"),
  ("TSSPFiles.lock", "tsspFile.mu"),
  ("TableStoreGC.mu", "tsspFile.mu"),
  ("shard.mu", "MmsTables.inCompLock"),
  ("shard.mu", "MmsTables.mu"),
  ("shard.mu", "TSSPFiles.lock"),
  ("shard.mu", "shard.cancelLock"),
  ("shard.mu", "shard.snapshotLock"),
  ("shard.mu", "shard.tmLock"),
  ("shard.mu", "tsspFile.mu"),
  ("shard.snapshotLock", "MmsTables.mu"),
  ("shard.snapshotLock", "TSSPFiles.lock"),
  ("shard.snapshotLock", "tsspFile.mu")
]

theorem classEdges_expected : classEdges = expectedClassEdges := by rfl

def expectedSameClassNesting : List (String × String) := []

/-- no lock class is acquired again while it is held. (Until fix d530920 there was one nesting:
`tsspFile.LoadIdTimes` took the file's read lock and, under it, again through `IsOrder`. With a
writer - `Rename` of a file that is replaced while the sequencer's loader holds it - waiting
between the two read locks this is a deadlock: the lock-point loader rounds exhibited it. A
re-appearing nesting breaks this obligation.) -/
theorem sameClassNesting_expected : sameClassNesting = expectedSameClassNesting := by rfl

def expectedHeldAt : List (String × String) := [
  ("write: closing flag re-checked @ shard.WriteRows", "shard.mu(R)"),
  ("write: counted as in flight @ shard.WriteRows", "shard.mu(R)"),
  ("write: apply @ shard.writeRows", "shard.snapshotLock(R)"),
  ("write: append @ shard.writeRows", "shard.snapshotLock(R)"),
  ("switch: wal @ tsstoreImpl.writeSnapshot", "shard.snapshotLock"),
  ("switch: snapshot := active @ tsstoreImpl.writeSnapshot", "shard.snapshotLock"),
  ("switch: fresh active @ tsstoreImpl.writeSnapshot", "shard.snapshotLock"),
  ("publish: outside the snapshot lock @ tsstoreImpl.writeSnapshot", ""),
  ("dropSnapshot: unref @ tsstoreImpl.writeSnapshot", "shard.snapshotLock"),
  ("dropSnapshot: snapshot := none @ tsstoreImpl.writeSnapshot", "shard.snapshotLock"),
  ("publish: ordered list @ tsImmTableImpl.AddBothTSSPFiles", "MmsTables.mu(R) TSSPFiles.lock[order] TSSPFiles.lock[unorder]"),
  ("publish: out-of-order list @ tsImmTableImpl.AddBothTSSPFiles", "MmsTables.mu(R) TSSPFiles.lock[order] TSSPFiles.lock[unorder]"),
  ("publish: flushed := true @ tsImmTableImpl.AddBothTSSPFiles", "MmsTables.mu(R) TSSPFiles.lock[order] TSSPFiles.lock[unorder]"),
  ("takeView: flushed flag @ shard.cloneReaders", "shard.snapshotLock(R)"),
  ("takeView: file lists @ shard.cloneReaders", "shard.snapshotLock(R)"),
  ("takeView: ref memtables @ shard.cloneReaders", "shard.snapshotLock(R)"),
  ("takeView: ref ordered files @ MmsTables.GetBothFilesRef", "MmsTables.mu(R) TSSPFiles.lock[order](R) TSSPFiles.lock[unorder](R)"),
  ("takeView: ref out-of-order files @ MmsTables.GetBothFilesRef", "MmsTables.mu(R) TSSPFiles.lock[order](R) TSSPFiles.lock[unorder](R)"),
  ("takeView: read flushed @ MmsTables.GetBothFilesRef", "MmsTables.mu(R) TSSPFiles.lock[order](R) TSSPFiles.lock[unorder](R)"),
  ("replace: delist old @ MmsTables.ReplaceFiles", "TSSPFiles.lock"),
  ("replace: retire old @ MmsTables.ReplaceFiles", "TSSPFiles.lock"),
  ("replace: list new @ MmsTables.ReplaceFiles", "TSSPFiles.lock"),
  ("dropOoo: delist @ MmsTables.deleteUnorderedFiles", "TSSPFiles.lock[unorder]"),
  ("dropOoo: retire @ MmsTables.deleteUnorderedFiles", "TSSPFiles.lock[unorder]"),
  ("dropOoo: drop empty list from the map @ MmsTables.deleteUnorderedFiles", "MmsTables.mu"),
  ("closeBegin: active := none @ shard.Close", "shard.mu shard.snapshotLock"),
  ("closeFiles: wait for the flush @ shard.Close", "shard.mu"),
  ("closeFiles: close files @ shard.Close", "shard.mu"),
  ("plan: acquire @ MmsTables.acquire", "MmsTables.inCompLock"),
  ("plan (level compaction): walks the file list @ MmsTables.getMmsPlan", "TSSPFiles.lock(R)"),
  ("plan (full compaction): walks the file list @ MmsTables.buildFullCompactPlan", "MmsTables.mu(R)")
]

/-- the critical sections the model treats as atomic are bracketed by the lock it names:
writer: the closing flag is checked again under the shared shard lock (which `Close` holds
exclusively for its whole duration - fix e44a3ed; `write` of the model refuses atomically when
`closed`), rows and log record under the shared snapshot lock; switch and dropSnapshot under the exclusive snapshot
lock; publish under the map lock and both list locks (exclusive); takeView under the shared
snapshot lock, the map lock and both list locks (shared); replace / dropOoo under the list
lock (exclusive); closeBegin under `shard.mu` and the exclusive snapshot lock; plan under
`inCompLock`. The last two entries record an asymmetry of the code as it is: the level-compaction
plan walks a measurement's file list under the list lock, the full-compaction plan
(`buildFullCompactPlan`) walks it under the map lock only, while publish / replace change the
list under the list lock with the map lock held shared - the race detector reports it (known
finding `data_race`); the model's `plan` reads the list atomically. -/
theorem heldAt_expected : heldAt = expectedHeldAt := by rfl

def expectedModelledSites : List String := ["shard.WriteRows RLock shard.mu", "shard.WriteRows RUnlock shard.mu", "shard.writeRows RLock shard.snapshotLock", "shard.writeRows RUnlock shard.snapshotLock", "tsstoreImpl.writeSnapshot Lock shard.snapshotLock", "tsstoreImpl.writeSnapshot Unlock shard.snapshotLock", "tsstoreImpl.writeSnapshot Unlock shard.snapshotLock", "tsstoreImpl.writeSnapshot Unlock shard.snapshotLock", "tsstoreImpl.writeSnapshot Lock shard.snapshotLock", "tsstoreImpl.writeSnapshot Unlock shard.snapshotLock", "tsImmTableImpl.AddBothTSSPFiles RLock MmsTables.mu", "tsImmTableImpl.AddBothTSSPFiles RUnlock MmsTables.mu", "tsImmTableImpl.AddBothTSSPFiles RUnlock MmsTables.mu", "tsImmTableImpl.AddBothTSSPFiles Lock TSSPFiles.lock[order]", "tsImmTableImpl.AddBothTSSPFiles Unlock TSSPFiles.lock[order]", "tsImmTableImpl.AddBothTSSPFiles Lock TSSPFiles.lock[unorder]", "tsImmTableImpl.AddBothTSSPFiles Unlock TSSPFiles.lock[unorder]", "shard.cloneReaders RLock shard.snapshotLock", "shard.cloneReaders RUnlock shard.snapshotLock", "MmsTables.GetBothFilesRef RLock MmsTables.mu", "MmsTables.GetBothFilesRef RUnlock MmsTables.mu", "MmsTables.GetBothFilesRef RLock TSSPFiles.lock[order]", "MmsTables.GetBothFilesRef RUnlock TSSPFiles.lock[order]", "MmsTables.GetBothFilesRef RLock TSSPFiles.lock[unorder]", "MmsTables.GetBothFilesRef RUnlock TSSPFiles.lock[unorder]", "MmsTables.ReplaceFiles RLock MmsTables.mu", "MmsTables.ReplaceFiles RUnlock MmsTables.mu", "MmsTables.ReplaceFiles Lock TSSPFiles.lock", "MmsTables.ReplaceFiles Unlock TSSPFiles.lock", "MmsTables.deleteUnorderedFiles Lock TSSPFiles.lock[unorder]", "MmsTables.deleteUnorderedFiles Unlock TSSPFiles.lock[unorder]", "MmsTables.deleteUnorderedFiles Lock MmsTables.mu", "MmsTables.deleteUnorderedFiles Unlock MmsTables.mu", "shard.Close Lock shard.mu", "shard.Close Unlock shard.mu", "shard.Close Lock shard.snapshotLock", "shard.Close Unlock shard.snapshotLock", "MmsTables.acquire Lock MmsTables.inCompLock", "MmsTables.acquire Unlock MmsTables.inCompLock", "MmsTables.getMmsPlan RLock TSSPFiles.lock", "MmsTables.getMmsPlan RUnlock TSSPFiles.lock", "MmsTables.buildFullCompactPlan RLock MmsTables.mu", "MmsTables.buildFullCompactPlan RUnlock MmsTables.mu"]

theorem modelledSites_expected : modelledSites = expectedModelledSites := by rfl

theorem lockSiteCount_expected : lockSiteCount = 350 := by rfl

/-! ### who reads a data file, and what keeps it open meanwhile -/

def expectedGoFileReaders : List (String × String) := [
  ("idTimesLoader.loadFromTSSPFiles: go func(file TSSPFile)(f)", "ref before go=true, unref deferred in the goroutine=true")
]

def expectedFileReadSites : List (String × String) := [
  ("fileLoader.openPKIndexFile: f.ReadData", "none-visible"),
  ("fileLoader.addTSSPFile: f.LoadComponents", "none-visible"),
  ("fileLoader.serialLoadTsspFile: f.LoadComponents", "listlock"),
  ("fileLoader.loadIntoMemory: f.LoadIntoMemory", "none-visible"),
  ("fileLoadContext.update: f.MinMaxTime", "none-visible"),
  ("idTimesLoader.loadFromTSSPFile: tblFile.LoadIdTimes", "none-visible"),
  ("MmsTables.getFiles: f.ContainsByTime", "refs"),
  ("compareFile: f1.(TSSPFile).MinMaxTime", "none-visible"),
  ("compareFile: f2.(TSSPFile).MinMaxTime", "none-visible"),
  ("compareFileByDescend: f1.(TSSPFile).MinMaxTime", "none-visible"),
  ("compareFileByDescend: f2.(TSSPFile).MinMaxTime", "none-visible"),
  ("MmsTables.matchOrderFiles: f.MinMaxTime", "listlock"),
  ("getQueryTimeRange: readers.Orders[i].MinMaxTime", "none-visible"),
  ("shard.scanWithSparseIndex: dataFile.ContainsByTime", "none-visible")
]

/-- every goroutine that is handed a data file gets it referenced: the spawning function calls
`Ref` on that very file before the `go` statement and the goroutine gives the reference back in a
defer (`idTimesLoader.loadFromTSSPFiles`, fix 8af6340 - without it the sequencer's reload reads
files that a compaction or merge may close under it). This is the model's `loaderRef`. -/
theorem go_file_readers_hold_a_reference :
    goFileReaders.all (fun p => p.2 == "ref before go=true, unref deferred in the goroutine=true") = true := by
  decide

theorem goFileReaders_expected : goFileReaders = expectedGoFileReaders := by rfl

/-- **file reads are Ref-bracketed.** The calls of reading accessors (`LoadIdTimes`, `ReadData`,
`ReadChunkMetaData`, `MetaIndex(At)`, `ChunkMeta`, `ReadAt`, `Contains*`, `MinMaxTime`,
`LoadComponents`, `LoadIntoMemory`) on a file that is not the method's own receiver, in the files
that list, load, compact, merge and query data files, with the protection visible in the calling
function. A site that appears, disappears or changes its protection breaks this obligation and
has to be judged. Judgement of the `none-visible` sites as recorded here:
`fileLoader.*` and `fileLoadContext.update` run while the shard is being opened (files not yet
listed, nothing can replace them); `idTimesLoader.loadFromTSSPFile` is reached only through
`loadFromTSSPFiles`, which references the file first (`go_file_readers_hold_a_reference`);
`compareFile*` are sort comparators over files their caller holds; `getQueryTimeRange` and
`shard.scanWithSparseIndex` read the files of a query's `MmsReaders`, referenced by
`GetBothFilesRef` (the model's `takeView`). -/
theorem file_reads_are_ref_bracketed_expected : fileReadSites = expectedFileReadSites := by rfl


end OG.C04.Facts
