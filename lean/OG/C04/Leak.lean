/-
C04 — reference counts are exact, and what follows from it: nothing leaks.

`InvR` (Refs.lean) bounds a file's count from below by the number of views that hold it, which is
what "no use after unlink" needs. Here the count is shown to be *equal* to the number of holders
in every reachable state (`reach_invE`): a query's `takeView` adds one per listed file, its
`release` takes them back, nothing else touches a count, and a name that was never used has
count 0. Consequences:

* `gc_enabled_when_unheld`   — the collector can remove a renamed (pending) file as soon as no
                               open view holds it; it is never blocked by a stale count;
* `no_leak_when_idle`        — with no query open, every pending file is collectable and after
                               the collector's step it is unlinked;
* `retire_unlinks_unheld`    — a file that is replaced while no view holds it is unlinked by the
                               replace step itself (it does not wait for the collector);
* `release_returns_counts`   — after a query released its view the counts of its files are the
                               holders that remain.
-/
import OG.C04.Refs

namespace OG.C04
open OG.C02 (Cell Row batchCells)

/-- the count of every file is exactly the number of (view, occurrence) pairs that hold it. -/
def InvE (σ : St) : Prop := ∀ f, (σ.files f).refs = σ.fholders f

theorem invE_init : InvE St.init := by
  intro f; simp [St.init, St.fholders]

theorem addOpt_other (F : FileId → File) (o : Option FileId) (x : File) (g : FileId)
    (h : ∀ n, o = some n → g ≠ n) : addOpt F o x g = F g := by
  cases o with
  | none => rfl
  | some n => simp [addOpt, upd, h n rfl]

theorem addOpt2_refs (F : FileId → File) (o u : Option FileId) (x y : File) (g : FileId)
    (hx : x.refs = 0) (hy : y.refs = 0) (hg : (F g).refs = 0) :
    (addOpt (addOpt F o x) u y g).refs = 0 := by
  cases o with
  | none =>
    cases u with
    | none => exact hg
    | some b => by_cases h : g = b <;> simp [addOpt, upd, h, hy, hg]
  | some a =>
    cases u with
    | none => by_cases h : g = a <;> simp [addOpt, upd, h, hx, hg]
    | some b =>
      by_cases h : g = b
      · simp [addOpt, upd, h, hy]
      · by_cases h' : g = a
        · subst h'; simp [addOpt, upd, h, hx]
        · simp [addOpt, upd, h, h', hg]

/-- a rewrite (replace / merge / dropOoo) leaves every count what it was; new names start at 0. -/
theorem rewrite_refs {σ : St} (hi : InvR σ) (he : InvE σ) (old new : List FileId)
    (hf : allFresh σ.files new = true) (cells : List Cell) (srcs : List Nat) (f : FileId) :
    (retireFiles (addNew σ.files cells srcs new) old f).refs = σ.fholders f := by
  rw [(retireFiles_fields old _ f).2.2.1]
  by_cases hn : f ∈ new
  · rw [(addNew_mem cells srcs new σ.files f hn).2.1]
    have hp : (σ.files f).present = false := by
      have := allFresh_mem hf f hn
      simpa using this
    exact (fholders_zero_of_fresh hi hp).symm
  · rw [addNew_not_mem _ _ _ _ _ hn]; exact he f

theorem step_invE {σ σ' : St} (a : Act) (hi : InvR σ) (he : InvE σ) (h : σ.step a = some σ') :
    InvE σ' := by
  cases a with
  | write b =>
    obtain ⟨a, _, _, rfl⟩ := write_spec h
    intro f
    have := he f
    simp only [St.fholders] at this ⊢
    rw [sum_map_congr (fun v => v.fw f) _ _ (fun v _ => seenUpd_fw a _ v f)]
    exact this
  | switch => obtain ⟨_, _, _, rfl⟩ := switch_spec h; exact he
  | publish o u =>
    obtain ⟨t, _, _, _, _, _, ho, hu, _, rfl⟩ := publish_spec h
    intro f
    show (addOpt (addOpt σ.files o _) u _ f).refs = σ.fholders f
    by_cases hp : (σ.files f).present = true
    · rw [addOpt2_old _ _ _ _ _ _ hp ho hu]; exact he f
    · have hp' : (σ.files f).present = false := by simpa using hp
      have h0 : σ.fholders f = 0 := fholders_zero_of_fresh hi hp'
      rw [h0]
      exact addOpt2_refs _ _ _ _ _ _ rfl rfl (by rw [he f, h0])
  | dropSnapshot => obtain ⟨_, _, _, rfl⟩ := dropSnapshot_spec h; exact he
  | takeView c =>
    obtain ⟨_, rfl⟩ := takeView_spec h
    intro f
    have := he f
    simp only [St.fholders, List.map_append, List.sum_append, List.map_cons, List.map_nil,
      List.sum_cons, List.sum_nil] at this ⊢
    rw [refFiles_apply]
    have e : (σ.newView c).fw f = List.count f (σ.ooo ++ σ.ord) := rfl
    rw [e]
    show (σ.files f).refs + List.count f (σ.ooo ++ σ.ord) = _
    omega
  | loaderRef =>
    obtain ⟨_, rfl⟩ := loaderRef_spec h
    intro f
    have := he f
    simp only [St.fholders, List.map_append, List.sum_append, List.map_cons, List.map_nil,
      List.sum_cons, List.sum_nil] at this ⊢
    rw [refFiles_apply]
    have e : σ.loaderView.fw f = List.count f (σ.ooo ++ σ.ord) := rfl
    rw [e]
    show (σ.files f).refs + List.count f (σ.ooo ++ σ.ord) = _
    omega
  | openCursors i =>
    obtain ⟨v, hv, _, rfl⟩ := openCursors_spec h
    intro f
    have := he f
    simp only [St.fholders] at this ⊢
    have e := sum_map_set (fun v => v.fw f) σ.views i v
      { v with mem := some (σ.tabCells v.act ++ σ.tabCells v.snap) } hv rfl
    rw [e]; exact this
  | readView i =>
    simp only [St.step] at h
    split at h
    · cases h; exact he
    · cases h
  | release i =>
    obtain ⟨v, hv, rfl⟩ := release_spec h
    intro f
    have h1 := he f
    have h2 := sum_map_eraseIdx (fun v => v.fw f) σ.views i v hv
    simp only [St.fholders] at h1 ⊢
    rw [unrefFiles_apply]
    have e : v.fw f = List.count f (v.ooo ++ v.ord) := rfl
    rw [e] at h2
    show (σ.files f).refs - List.count f (v.ooo ++ v.ord) = _
    omega
  | plan fs => rw [plan_spec h]; exact he
  | replaceOrd old new =>
    obtain ⟨_, _, _, hok, rfl⟩ := replaceOrd_spec h
    exact fun f => rewrite_refs hi he old new hok.2.2.2.1 _ _ f
  | replaceOoo old new =>
    obtain ⟨_, _, _, hok, _, rfl⟩ := replaceOoo_spec h
    exact fun f => rewrite_refs hi he old new hok.2.2.2.1 _ _ f
  | mergeReplace grp old new =>
    obtain ⟨_, _, _, hok, _, _, _, _, rfl⟩ := mergeReplace_spec h
    exact fun f => rewrite_refs hi he old new hok.2.2.2.1 _ _ f
  | dropOoo =>
    obtain ⟨grp, _, _, rfl⟩ := dropOoo_spec h
    intro f
    show (retireFiles σ.files grp f).refs = σ.fholders f
    rw [(retireFiles_fields grp _ f).2.2.1]; exact he f
  | gc g =>
    obtain ⟨_, _, rfl⟩ := gc_spec h
    intro f
    show (upd σ.files g _ f).refs = σ.fholders f
    by_cases hg : f = g
    · subst hg; simp only [upd_same]; exact he f
    · rw [upd_other _ _ _ _ hg]; exact he f
  | closeBegin => obtain ⟨_, rfl⟩ := closeBegin_spec h; exact he
  | closeFiles => obtain ⟨_, _, _, _, rfl⟩ := closeFiles_spec h; exact he

/-- **exact counts**: in every reachable state the reference count of every file equals the
number of open views that hold it. -/
theorem reach_invE {σ : St} (h : Reach σ) : InvE σ := by
  induction h with
  | init => exact invE_init
  | step a hr hs ih => exact step_invE a (reach_invR hr) ih hs

/-- **the collector is never blocked by a stale count**: a renamed (pending) file that no open
view holds can be removed by the collector's next step. -/
theorem gc_enabled_when_unheld {σ : St} (h : Reach σ) (f : FileId)
    (hp : (σ.files f).pending = true) (hu : ∀ v ∈ σ.views, f ∉ v.ooo ++ v.ord) :
    ∃ σ', σ.gc f = some σ' ∧ (σ'.files f).unlinked = true ∧ (σ'.files f).pending = false := by
  have hz : (σ.files f).refs = 0 := by rw [reach_invE h f]; exact fholders_zero hu
  refine ⟨{ σ with files := upd σ.files f { σ.files f with pending := false, unlinked := true } }, ?_, ?_, ?_⟩
  · unfold St.gc; rw [if_pos ⟨hp, hz⟩]
  · simp [upd]
  · simp [upd]

/-- **no leak**: once no query is open, every file that was renamed away while in use is
collectable. -/
theorem no_leak_when_idle {σ : St} (h : Reach σ) (hv : σ.views = []) (f : FileId)
    (hp : (σ.files f).pending = true) :
    ∃ σ', σ.gc f = some σ' ∧ (σ'.files f).unlinked = true :=
  let ⟨σ', h1, h2, _⟩ := gc_enabled_when_unheld h f hp (by rw [hv]; simp)
  ⟨σ', h1, h2⟩

/-- a file whose count is 0 is unlinked by `retire` itself, one that is held is only renamed. -/
theorem retire_spec (x : File) :
    (x.refs = 0 → x.retire.unlinked = true) ∧ (x.refs ≠ 0 → x.retire.pending = true ∧ x.retire.unlinked = x.unlinked) := by
  unfold File.retire
  constructor
  · intro h; rw [if_pos h]
  · intro h; rw [if_neg h]; exact ⟨rfl, rfl⟩

theorem retireFiles_mem_unlinked : ∀ (gs : List FileId) (F : FileId → File) (f : FileId), f ∈ gs → gs.Nodup →
    (F f).refs = 0 → (retireFiles F gs f).unlinked = true := by
  intro gs
  induction gs with
  | nil => intro F f hf; cases hf
  | cons g gs ih =>
    intro F f hf hnd hz
    simp only [retireFiles]
    have hnd' := List.nodup_cons.1 hnd
    rcases List.mem_cons.1 hf with rfl | hm
    · rw [retireFiles_not_mem _ _ _ hnd'.1]
      simp only [upd_same]
      exact (retire_spec (F f)).1 hz
    · have hne : f ≠ g := fun e => hnd'.1 (e ▸ hm)
      exact ih _ f hm hnd'.2 (by rw [upd_other _ _ _ _ hne]; exact hz)

/-- **a replaced file that nobody holds goes at once**: `dropOoo` (the second critical section
of a merge) unlinks every merged out-of-order file that no open view holds; the others are only
renamed and left to the collector. (The same `retire` is applied to the replaced files by
`replaceOrd` / `replaceOoo` / `mergeReplace`.) -/
theorem dropOoo_unlinks_unheld {σ σ' : St} (hr : Reach σ) (h : σ.dropOoo = some σ') (grp : List FileId)
    (hg : σ.merging = some grp) (f : FileId) (hf : f ∈ grp)
    (hu : ∀ v ∈ σ.views, f ∉ v.ooo ++ v.ord) : (σ'.files f).unlinked = true := by
  obtain ⟨grp', hg', hs, rfl⟩ := dropOoo_spec h
  rw [hg] at hg'
  cases hg'
  have hz : (σ.files f).refs = 0 := by rw [reach_invE hr f]; exact fholders_zero hu
  have hnd : grp.Nodup := by
    have h1 := (List.nodup_append.1 (reach_invR hr).listedNodup).1
    rw [← hs] at h1
    exact (List.nodup_append.1 h1).2.1
  exact retireFiles_mem_unlinked grp σ.files f hf hnd hz

/-- after `release`, the counts are those of the views that remain. -/
theorem release_returns_counts {σ σ' : St} {i : Nat} (hr : Reach σ) (h : σ.release i = some σ') (f : FileId) :
    (σ'.files f).refs = σ'.fholders f :=
  reach_invE (Reach.step (.release i) hr h) f

end OG.C04

/-! ### non-vacuity -/

namespace OG.C04

/-- the merge schedule of `Props.exMerge` without its last views: a query holds the replaced
ordered file across the merge; the file is pending (renamed), the collector is blocked while the
query is open and enabled - by `gc_enabled_when_unheld` - once it released. -/
def exLeak : List Act :=
  [.write [⟨0, 5, [("f", "a")]⟩], .switch, .publish (some "o1") none, .dropSnapshot,
   .write [⟨0, 1, [("f", "b")]⟩], .switch, .publish none (some "u1"), .dropSnapshot,
   .takeView 7, .plan ["o1"], .mergeReplace ["u1"] ["o1"] ["o2"], .dropOoo]

def runL : St → List Act → Option St
  | σ, [] => some σ
  | σ, a :: as => match σ.step a with
    | some σ' => runL σ' as
    | none => none

example : (match runL St.init exLeak with
    | some σ => (σ.files "o1").pending && (σ.files "o1").refs == 1 && (σ.files "u1").refs == 1 &&
        (σ.gc "o1").isNone &&
        (match runL σ [.release 0] with
          | some σ1 => (σ1.files "o1").refs == 0 && σ1.views.isEmpty && (σ1.gc "o1").isSome && (σ1.gc "u1").isSome
          | none => false)
    | none => false) = true := by decide

/-- `dropOoo` with nobody holding the merged out-of-order file unlinks it at once. -/
example : (match runL St.init [.write [⟨0, 5, [("f", "a")]⟩], .switch, .publish (some "o1") none, .dropSnapshot,
      .write [⟨0, 1, [("f", "b")]⟩], .switch, .publish none (some "u1"), .dropSnapshot,
      .plan ["o1"], .mergeReplace ["u1"] ["o1"] ["o2"], .dropOoo] with
    | some σ => (σ.files "u1").unlinked && (σ.files "o1").unlinked && !(σ.files "o2").unlinked
    | none => false) = true := by decide

end OG.C04
